/-
  Helper lemmas for Tie/FnEditReq.lean, part C: `File_AddExclude` of the regenerated go.mod edit operations
  (Generated/FnEdit.lean) against the model's `addExclude` (`lastWith`, `addLinePtr`), and the part of the representation
  that `addReplace` works on (`RepR`: syntax graph + `Replace` list; `FrameR`: what it leaves alone), shared by go.mod and
  go.work.

  `AddLinePtrSpec` is the simulation statement of `FileSyntax_addLine … (Expr.Line hint) …` with a `*Line` variable that may be
  nil (it IS `Tie.FnEditAddLine.addLinePtr_tie` of edit-tree; discharged in Tie/FnEditReq.lean).

  Owner: edit-req.
-/
import ModVerif.Proofs.TieFnEditReqB
set_option linter.unusedSimpArgs false
set_option linter.unusedVariables false
namespace ModVerif.Tie.FnEditReqC
open ModVerif ModVerif.GoRt ModVerif.Generated.Edit ModVerif.Tie.FnEditRep ModVerif.Tie.FnEditTreeA ModVerif.Tie.FnEditReqA
  ModVerif.Tie.FnEditReqB
open ModVerif.Modfile.Edit (clearAll firstRest markAll markRemoved deref nilId EditErr EFile addLine addLinePtr addLineWalk Hint mkLine
  insertAfterId loc locStmt treeIds lastWith)
open ModVerif.TieFnEditAddLine (nodeCount Frame)
open ModVerif.Drv.GenEdit (isPrintI quoteI)

/-! ### `addLine` hinted by a `*Line` variable that may be nil -/

/-- the simulation statement of `FileSyntax_addLine … (Expr.Line hint) …` (it IS `Tie.FnEditAddLine.addLinePtr_tie`) -/
def AddLinePtrSpec : Prop :=
  ∀ (h : Heap) (x : Int) (fs : Modfile.FileSyntax) (hint : Option Nat) (t0 : Bytes) (trest : List Bytes) (fuel : Nat),
    RepSyn h x fs → BlockTokOK fs.stmts → nodeCount fs.stmts + 3 ≤ fuel →
    ∃ h', FileSyntax_addLine fuel x (Expr.Line ((hint.getD 0 : Nat) : Int)) (t0 :: trest) h =
        .ok (((h.lines.length + 1 : Nat) : Int), h') ∧
      RepSyn h' x (addLinePtr fs hint (t0 :: trest) (h.lines.length + 1)) ∧
      BlockTokOK (addLinePtr fs hint (t0 :: trest) (h.lines.length + 1)).stmts ∧ (LinesG h → LinesG h') ∧
      h'.lines.length = h.lines.length + 1 ∧ Frame h h'

theorem addLinePtr_new (fs : Modfile.FileSyntax) (hint : Option Nat) (tokens : List Bytes) (new : Nat) :
    ∃ q ∈ loc (addLinePtr fs hint tokens new).stmts, IsNew new q.2 := by
  have happ : ∃ q ∈ loc (fs.stmts ++ [Modfile.Expr.line (mkLine new tokens false)]), IsNew new q.2 :=
    ⟨([], mkLine new tokens false), by simp [Modfile.Edit.loc_append, Modfile.Edit.loc_cons, locStmt, loc], isNew_mkLine _ _ _⟩
  unfold addLinePtr
  cases hint with
  | none => exact happ
  | some id =>
    dsimp only
    split
    · exact happ
    · exact addLine_new fs (some id) tokens new

/-- the pointer-hinted `addLine` on a represented syntax graph: the new line has the pointer `lines.length + 1`, is in the
    tree, has no comments -/
theorem addLinePtr_syn (A : AddLinePtrSpec) {h : Heap} {x : Int} {fs : Modfile.FileSyntax} (r : RepSyn h x fs)
    (htok : BlockTokOK fs.stmts) (hG : LinesG h) (hint : Option Nat) (t0 : Bytes) (trest : List Bytes) (fuel : Nat)
    (hf : nodeCount fs.stmts + 3 ≤ fuel) :
    ∃ h' l, FileSyntax_addLine fuel x (Expr.Line ((hint.getD 0 : Nat) : Int)) (t0 :: trest) h =
        .ok (((h.lines.length + 1 : Nat) : Int), h') ∧ Frame h h' ∧ h'.lines.length = h.lines.length + 1 ∧
      RepSyn h' x (addLinePtr fs hint (t0 :: trest) (h.lines.length + 1)) ∧
      BlockTokOK (addLinePtr fs hint (t0 :: trest) (h.lines.length + 1)).stmts ∧ LinesG h' ∧
      heapGet h'.lines ((h.lines.length + 1 : Nat) : Int) = .ok (lineG l) ∧ IsNew (h.lines.length + 1) l ∧
      (addLinePtr fs hint (t0 :: trest) (h.lines.length + 1)).findLine (h.lines.length + 1) = some l := by
  obtain ⟨h', h1, h2, h3, h4, h5, h6⟩ := A h x fs hint t0 trest fuel r htok hf
  obtain ⟨q, hq, hnew⟩ := addLinePtr_new fs hint (t0 :: trest) (h.lines.length + 1)
  obtain ⟨es, r'⟩ := h2
  have hloc := (r'.stmts.loc q hq).2.2
  rw [hnew.1] at hloc
  have hfind := Modfile.Edit.findLine_of_loc _ r'.nodupL q hq
  rw [hnew.1] at hfind
  exact ⟨h', q.2, h1, h6, h5, ⟨es, r'⟩, h3, h4 hG, hloc, hnew, hfind⟩

/-! ### AddExclude -/

/-- the scan of `AddExclude`: returns at an exact match, else the hint is the last entry with the same path -/
theorem AddExclude_loop_eq (f : Int) (path vers : Bytes) (h : Heap) (nl : Nat) :
    ∀ (suf : List Int) (xsuf : List Modfile.Exclude) (pre : List Int) (acc : Option Nat) (fuel : Nat),
      REntsL h.excludes excludeG (·.lineId) nl suf xsuf → suf.length + 1 ≤ fuel →
      File_AddExclude_loop1 isPrintI quoteI (pre ++ suf) f path vers h fuel (pre.length : Int) ((acc.getD 0 : Nat) : Int) =
        if xsuf.any (fun x => x.mod.path == path && x.mod.version == vers) = true then .ok (Ctl.ret (none, h))
        else .ok (Ctl.next (len (pre ++ suf),
          (((lastWith (fun x : Modfile.Exclude => x.mod.path == path) (·.lineId) xsuf acc).getD 0 : Nat) : Int)))
  | [], xsuf, pre, acc, fuel, rel, hf => by
    obtain ⟨fuel, rfl⟩ : ∃ k, fuel = k + 1 := ⟨fuel - 1, by omega⟩
    cases xsuf with
    | cons _ _ => exact rel.elim
    | nil =>
      unfold File_AddExclude_loop1
      simp [not_lt_len_end, lastWith, len_eq]
  | r :: suf, xsuf, pre, acc, fuel, rel, hf => by
    obtain ⟨fuel, rfl⟩ : ∃ k, fuel = k + 1 := ⟨fuel - 1, by omega⟩
    cases xsuf with
    | nil => exact rel.elim
    | cons x xsuf =>
      have hg := rel.1.1
      have ih := fun acc' => AddExclude_loop_eq f path vers h nl suf xsuf (pre ++ [r]) acc' fuel rel.2 (by simp at hf; omega)
      simp only [List.append_assoc, List.singleton_append] at ih
      conv => lhs; unfold File_AddExclude_loop1
      simp only [lt_len_mid, decide_true, if_true, idxL_mid, bind_ok, hg, List.any_cons, lastWith]
      by_cases hp : x.mod.path = path
      · have h1 : decide ((excludeG x).Mod.Path = path) = true := decide_eq_true hp
        have hp' : (x.mod.path == path) = true := by simpa using hp
        rw [if_pos h1]
        simp only [bind_ok, pure_eq_ok]
        by_cases hv : x.mod.version = vers
        · have h3 : decide ((excludeG x).Mod.Version = vers) = true := decide_eq_true hv
          have hv' : (x.mod.version == vers) = true := by simpa using hv
          rw [if_pos h3]
          simp [hp', hv']
        · have h3 : ¬ (decide ((excludeG x).Mod.Version = vers) = true) := by
            intro hd; exact hv (of_decide_eq_true hd)
          have hv' : (x.mod.version == vers) = false := by simpa using hv
          rw [if_neg h3, if_pos h1]
          simp only [hp', hv', Bool.and_false, Bool.false_or, if_true]
          have := ih (some x.lineId)
          simp only [Option.getD_some] at this
          rw [← this, ← succ_len_snoc pre r]; rfl
      · have h1 : ¬ (decide ((excludeG x).Mod.Path = path) = true) := by
          intro hd; exact hp (of_decide_eq_true hd)
        have hp' : (x.mod.path == path) = false := by simpa using hp
        rw [if_neg h1]
        simp only [bind_ok, pure_eq_ok, Bool.false_eq_true, if_false]
        rw [if_neg h1]
        simp only [hp', Bool.false_and, Bool.false_or, Bool.false_eq_true, if_false]
        have := ih acc
        rw [← this, ← succ_len_snoc pre r]

theorem checkCanonicalVersion_ok (fuel : Nat) (path vers : Bytes) (hf1 : path.length + 1 ≤ fuel) (hf2 : 2 * vers.length ≤ fuel) :
    ∃ err, checkCanonicalVersion fuel path vers = .ok err ∧ (err = none ↔ Modfile.Edit.checkCanonicalVersion path vers = true) := by
  rw [FnEditTreeB.checkCanonicalVersion_eq]
  exact Tie.FnModfileCmp.checkCanonicalVersion_nil_iff fuel path vers hf1 hf2

/-- the tokens of an `exclude` line -/
def exclTokens (path vers : Bytes) : List Bytes := [B "exclude", Modfile.autoQuote path, vers]

theorem File_AddExclude_sim (A : AddLinePtrSpec) {h : Heap} {fp : Int} {e : EFile} (R : RepF h fp e) (path vers : Bytes) (fuel : Nat)
    (hf1 : path.length + 1 ≤ fuel) (hf2 : 2 * vers.length ≤ fuel) (hf3 : e.f.exclude.length + 1 ≤ fuel)
    (hf4 : nodeCount e.f.syn.stmts + 3 ≤ fuel) :
    match Modfile.Edit.addExclude e path vers with
    | .ok e' => ∃ h', File_AddExclude isPrintI quoteI fuel fp path vers h = .ok (none, h') ∧ RepF h' fp e'
    | .error err => err = .invalidVersion ∧ ∃ s, File_AddExclude isPrintI quoteI fuel fp path vers h = .ok (some s, h) := by
  obtain ⟨o, ho, R⟩ := R
  obtain ⟨err, hc1, hc2⟩ := checkCanonicalVersion_ok fuel path vers hf1 hf2
  unfold File_AddExclude Modfile.Edit.addExclude
  simp only [hc1, bind_ok]
  by_cases hv : Modfile.Edit.checkCanonicalVersion path vers = true
  · have he : err = none := hc2.2 hv
    subst he
    simp only [hv, Bool.not_true, Bool.false_eq_true, if_false, Option.isNone_none, ho, bind_ok]
    have hlen := R.exclude.rel.length
    have hloop := AddExclude_loop_eq fp path vers h h.lines.length o.Exclude e.f.exclude [] none fuel R.exclude.rel (by omega)
    simp only [List.nil_append, List.length_nil, Option.getD_none] at hloop
    rw [show ((0 : Nat) : Int) = 0 from rfl] at hloop
    rw [hloop]
    by_cases hany : (e.f.exclude.any fun x => x.mod.path == path && x.mod.version == vers) = true
    · simp only [hany, if_true, bind_ok, pure_eq_ok]
      exact ⟨h, rfl, o, ho, R⟩
    · simp only [hany, Bool.false_eq_true, if_false, bind_ok, AutoQuote_ok path fuel hf1]
      obtain ⟨h1, l, a1, F, hlen1, rs, ht, hG, hl, hnew, _⟩ := addLinePtr_syn A R.syn R.tok R.linesG
        (lastWith (fun x : Modfile.Exclude => x.mod.path == path) (·.lineId) e.f.exclude none) (B "exclude")
        [Modfile.autoQuote path, vers] fuel hf4
      have hB : ([101, 120, 99, 108, 117, 100, 101] : Bytes) = B "exclude" := by decide +kernel
      rw [hB, a1]
      simp only [bind_ok, heapAlloc]
      have hn := R.next
      have R1 := RepFAt.ofFrame R F rs ht hG (by omega)
      have R2 := RepFAt.pushExclude R1 { mod := { path := path, version := vers }, lineId := h.lines.length + 1 } (by simp [hlen1])
      have hm : h1.mods = h.mods := F.mods
      obtain ⟨m, hset, RF⟩ := RepF.ofSetMods (h := _) (fp := fp) (o := o) (by show heapGet h1.mods fp = .ok o; rw [hm]; exact ho) R2
      have hg1 : heapGet h1.mods fp = .ok o := by rw [hm]; exact ho
      have hset' : heapSet h1.mods fp { o with Exclude := o.Exclude ++ [((h1.excludes.length + 1 : Nat) : Int)] } = .ok m := hset
      simp only [hg1, bind_ok, hset', pure_eq_ok]
      refine ⟨_, rfl, ?_⟩
      rw [hn]
      rw [hlen1] at RF
      exact RF
  · have he : err ≠ none := fun hne => hv (hc2.1 hne)
    have hv' : Modfile.Edit.checkCanonicalVersion path vers = false := by simpa using hv
    obtain ⟨s, rfl⟩ : ∃ s, err = some s := by
      cases err with
      | none => exact absurd rfl he
      | some s => exact ⟨s, rfl⟩
    simp only [hv', Bool.not_false, if_true, Option.isNone_some, pure_eq_ok]
    exact ⟨trivial, s, rfl⟩

/-! ### addReplace: the part of the representation it works on (shared by go.mod and go.work) -/

/-- the syntax graph at `x` and the `Replace` pointer list `ps` represent the model's tree and replacement list -/
structure RepR (h : Heap) (x : Int) (ps : List Int) (fs : Modfile.FileSyntax) (rp : List Modfile.Replace) : Prop where
  syn : RepSyn h x fs
  tok : BlockTokOK fs.stmts
  linesG : LinesG h
  replace : REnts h.replaces replaceG (·.lineId) h.lines.length ps rp

/-- what `addReplace` leaves alone: every typed object list but `replaces`, the `File` / `WorkFile` objects; lines are only
    added -/
structure FrameR (h h' : Heap) : Prop where
  excludes : h'.excludes = h.excludes
  mods : h'.mods = h.mods
  gos : h'.gos = h.gos
  godebugs : h'.godebugs = h.godebugs
  modules : h'.modules = h.modules
  requires : h'.requires = h.requires
  retracts : h'.retracts = h.retracts
  tools : h'.tools = h.tools
  toolchains : h'.toolchains = h.toolchains
  uses : h'.uses = h.uses
  works : h'.works = h.works
  lines : h.lines.length ≤ h'.lines.length

theorem FrameR.refl (h : Heap) : FrameR h h := ⟨rfl, rfl, rfl, rfl, rfl, rfl, rfl, rfl, rfl, rfl, rfl, Nat.le_refl _⟩

theorem FrameR.trans {h1 h2 h3 : Heap} (a : FrameR h1 h2) (b : FrameR h2 h3) : FrameR h1 h3 :=
  ⟨b.excludes.trans a.excludes, b.mods.trans a.mods, b.gos.trans a.gos, b.godebugs.trans a.godebugs,
   b.modules.trans a.modules, b.requires.trans a.requires, b.retracts.trans a.retracts,
   b.tools.trans a.tools, b.toolchains.trans a.toolchains, b.uses.trans a.uses, b.works.trans a.works,
   Nat.le_trans a.lines b.lines⟩

theorem FrameR.setLineH (h : Heap) (p : Int) (l : Modfile.Line) : FrameR h (FnEditRep.setLineH h p l) :=
  ⟨rfl, rfl, rfl, rfl, rfl, rfl, rfl, rfl, rfl, rfl, rfl, by simp⟩

theorem FrameR.setReplaces (h : Heap) (v : List Replace) : FrameR h { h with replaces := v } :=
  ⟨rfl, rfl, rfl, rfl, rfl, rfl, rfl, rfl, rfl, rfl, rfl, Nat.le_refl _⟩

theorem FrameR.ofFrame {h h' : Heap} (F : Frame h h') (hl : h.lines.length ≤ h'.lines.length) : FrameR h h' :=
  ⟨F.excludes, F.mods, F.gos, F.godebugs, F.modules, F.requires, F.retracts, F.tools, F.toolchains, F.uses, F.works, hl⟩

theorem RepR.setLine {h : Heap} {x : Int} {ps : List Int} {fs : Modfile.FileSyntax} {rp : List Modfile.Replace}
    (R : RepR h x ps fs rp) {p : Int} {l0 : Modfile.Line} {g : Modfile.Line → Modfile.Line} (hg : IdEquiv g)
    (hget : heapGet h.lines p = .ok (lineG l0)) : RepR (FnEditRep.setLineH h p (g l0)) x ps (fs.updateLine p.toNat g) rp where
  syn := R.syn.setLineH hg hget
  tok := R.tok.updateLine _ _
  linesG := R.linesG.setLineH _ _
  replace := by simpa using R.replace

theorem RepR.setReplace {h : Heap} {x : Int} {ps : List Int} {fs : Modfile.FileSyntax} {rp : List Modfile.Replace}
    (R : RepR h x ps fs rp) {i : Nat} {r : Int} (hi : ps[i]? = some r) (y : Modfile.Replace) (hy : y.lineId ≤ h.lines.length) :
    RepR { h with replaces := h.replaces.set (r.toNat - 1) (replaceG y) } x ps fs (rp.set i y) where
  syn := RepSyn.congr (h := h) (h' := { h with replaces := h.replaces.set (r.toNat - 1) (replaceG y) }) rfl rfl rfl rfl R.syn
  tok := R.tok
  linesG := LinesG.congr (h := h) (h' := { h with replaces := h.replaces.set (r.toNat - 1) (replaceG y) }) R.linesG rfl
  replace := ⟨R.replace.rel.setAt R.replace.nodup i r y hi hy, R.replace.nodup⟩

theorem RepR.pushReplace {h : Heap} {x : Int} {ps : List Int} {fs : Modfile.FileSyntax} {rp : List Modfile.Replace}
    (R : RepR h x ps fs rp) (y : Modfile.Replace) (hy : y.lineId ≤ h.lines.length) :
    RepR { h with replaces := h.replaces ++ [replaceG y] } x (ps ++ [((h.replaces.length + 1 : Nat) : Int)]) fs (rp ++ [y]) where
  syn := RepSyn.congr (h := h) (h' := { h with replaces := h.replaces ++ [replaceG y] }) rfl rfl rfl rfl R.syn
  tok := R.tok
  linesG := LinesG.congr (h := h) (h' := { h with replaces := h.replaces ++ [replaceG y] }) R.linesG rfl
  replace := by
    refine ⟨REntsL.append (R.replace.rel.mono (fun p v hp => heapGet_alloc_old _ hp) (Nat.le_refl _)) ⟨⟨heapGet_alloc_new _ _, hy⟩, trivial⟩, ?_⟩
    refine List.nodup_append.2 ⟨R.replace.nodup, List.pairwise_singleton _ _, ?_⟩
    intro a ha b hb
    rw [List.mem_singleton] at hb
    have := (R.replace.rel.mem_alloc a ha).2
    omega

/-- the file-level representation restricted to what `addReplace` works on, and back -/
theorem RepFAt.toRepR {h : Heap} {o : File} {e : EFile} (R : RepFAt h o e) : RepR h o.Syntax o.Replace e.f.syn e.f.replace :=
  ⟨R.syn, R.tok, R.linesG, R.replace⟩

theorem RepFAt.ofRepR {h h' : Heap} {o : File} {e : EFile} (R : RepFAt h o e) (F : FrameR h h') {ps : List Int}
    {fs : Modfile.FileSyntax} {rp : List Modfile.Replace} (Rr : RepR h' o.Syntax ps fs rp) :
    RepFAt h' { o with Replace := ps } { f := { e.f with syn := fs, replace := rp }, next := h'.lines.length + 1 } where
  syn := Rr.syn
  tok := Rr.tok
  linesG := Rr.linesG
  next := rfl
  module := R.module.mono (get_of_eq F.modules) F.lines
  go := R.go.mono (get_of_eq F.gos) F.lines
  toolchain := R.toolchain.mono (get_of_eq F.toolchains) F.lines
  godebug := R.godebug.mono (get_of_eq F.godebugs) F.lines
  require := R.require.mono (get_of_eq F.requires) F.lines
  exclude := R.exclude.mono (get_of_eq F.excludes) F.lines
  replace := Rr.replace
  retract := R.retract.mono (get_of_eq F.retracts) F.lines
  tool := R.tool.mono (get_of_eq F.tools) F.lines

end ModVerif.Tie.FnEditReqC
