/-
  ClientRefine, part 1 — the SEQUENTIAL client's head handling (`mergeLatest` / `mergeLatestMem` / the configuration loop
  of Model/Client.lean, run to completion) and the CONCURRENT latest-head machine (Model/ClientLatest.lean) restricted to
  ONE goroutine of ONE client are the same thing, step for step; helper for Props/C14.lean.

  The lock-step product `corun`: the machine takes the steps of goroutine `t` only; next to it the sequential world is
  advanced by the piece of sequential code the machine step abstracts (`wstep`), and at the three kinds of choice points
  (`checkTrees`, `ReadConfig`, `WriteConfig`) the machine's nondeterministic answer must be the one the sequential
  client's environment gives (`answer`).  Which sequential code each transition abstracts:

    entry         Lookup's GONOSUMDB test (the goroutine is public: continue)            world unchanged
    start         the call `mergeLatest(msg)`                                            world unchanged
    memRead o     mergeLatestMem: `len(msg)==0` test with `c.latest` read under the
                  mutex; otherwise `note.Open`+`ParseTree` (`openTree`) and the snapshot
                  of `c.latest`, `c.latestMsg`                                           world unchanged
    memCheck o    the `checkTrees` call of mergeLatestMem (tile reads, `SaveTiles`,
                  possibly `SecurityError`)                                              world := checkTrees(..).2
    memInstall o  `if c.latest == latest { c.latest = tree; c.latestMsg = msg }`
                  (sequentially the comparison always succeeds)                          world := head installed
    readConfig    `c.ops.ReadConfig(c.name + "/latest")` of the loop in mergeLatest      world := readConfig(..).2
    readLatestMsg `latestMsg := c.latestMsg` under the mutex                             world unchanged
    writeConfig   `c.ops.WriteConfig(c.name+"/latest", msg, latestMsg)`                  world := writeConfig(..).2
    done x        mergeLatest has returned (`absRes` of its result is `x`)

  `o = first` is the call of mergeLatestMem at the top of mergeLatest, `o = loop` the one inside its `for` loop.
  The invariant `Coupled` says: the states agree (`RelG`), and running the REST of the sequential function from the
  current world gives the result of the whole sequential call (`LocOK`, the "continuation" of the program counter).
-/
import ModVerif.Proofs.ClientRefineFrame
import ModVerif.Proofs.ClientMoreMax
namespace ModVerif.ClientRefine
open ModVerif ModVerif.Client ModVerif.Tile

set_option linter.unusedSectionVars false

abbrev MParams (H : Type) := ClientLatest.Params Bytes (Head H)
abbrev MSt (H : Type) := ClientLatest.St Bytes (Head H)
abbrev MLoc (H : Type) := ClientLatest.Loc Bytes (Head H)

/-- **the abstraction of a `checkTrees` answer**: `nil` ↦ `ok`; the security error (returned after `SecurityError` was
called) ↦ `fork`; every other error (tiles unavailable, not authentic, …) ↦ `error` -/
def absChk : Except Err Unit → ClientLatest.Res
  | .ok _ => .ok
  | .error .security => .fork
  | .error _ => .error

/-- the abstraction of the result of `mergeLatest` -/
def absRes : Except Err Unit → ClientLatest.Result
  | .ok _ => .ok
  | .error .security => .security
  | .error _ => .err

/-- `msgPast` / `msgNow` / `msgFuture` -/
def absWhen : Client.When → ClientLatest.When
  | .past => .past
  | .now => .now
  | .future => .future

section
variable {σ H : Type} [DecidableEq H]

/-- **The machine parameters abstract the sequential client's verification layer**: `parse` is `note.Open` +
`ParseTree` under the verifier list, the size is `Tree.N`, the initial head is the empty tree, and every answer the
sequential `checkTrees` can give (in any world, for trees in size order) is among the machine's admissible answers. -/
structure Abs (P : Params H) (E : Env σ) (vs : List Note.Verifier) (MP : MParams H) : Prop where
  parse : ∀ m, MP.parse m = match openTree P vs m with
    | .ok t => some t
    | .error _ => none
  size : ∀ t, MP.size t = t.n
  zero : MP.zero = ⟨0, P.empty⟩
  chk : ∀ (w : World σ H) (a : Head H) (o1 : Bytes) (b : Head H) (o2 : Bytes), a.n ≤ b.n →
    absChk (checkTrees P E w a o1 b o2).1 ∈ MP.chk a b

/-- the `checkTrees` call the machine step `memCheck` stands for -/
def seqCheck (P : Params H) (E : Env σ) (w : World σ H) (l : MLoc H) : Except Err Unit × World σ H :=
  if l.tree.n ≤ l.latest.n then checkTrees P E w l.tree (unB l.msg) l.latest (unB l.latestMsg)
  else checkTrees P E w l.latest (unB l.latestMsg) l.tree (unB l.msg)

/-- the program counters at which the machine makes a nondeterministic choice -/
def IsChoice : ClientLatest.PC → Prop
  | .memCheck _ => True
  | .readConfig => True
  | .writeConfig => True
  | _ => False

instance : DecidablePred IsChoice := fun p => by
  cases p <;> simp only [IsChoice] <;> infer_instance

/-- the answer the sequential client's environment gives at the choice point `l.pc` in world `w` -/
def answer (P : Params H) (E : Env σ) (w : World σ H) (l : MLoc H) : ClientLatest.Res :=
  match l.pc with
  | .memCheck _ => absChk (seqCheck P E w l).1
  | .readConfig => if (readConfig E w (latestFile w.c.name)).1.isSome then .ok else .error
  | .writeConfig =>
    match (writeConfig E w (latestFile w.c.name) (unB l.cfg) (unB l.lm)).1 with
    | .error => .error
    | _ => .ok
  | _ => .ok

/-- the sequential world after the sequential code that the machine step at `l.pc` abstracts -/
def wstep (P : Params H) (E : Env σ) (w : World σ H) (l : MLoc H) : World σ H :=
  match l.pc with
  | .memCheck _ => (seqCheck P E w l).2
  | .memInstall _ => { w with c := { w.c with latest := l.tree, latestMsg := unB l.msg } }
  | .readConfig => (readConfig E w (latestFile w.c.name)).2
  | .writeConfig => (writeConfig E w (latestFile w.c.name) (unB l.cfg) (unB l.lm)).2
  | _ => w

/-- **The lock-step product** of the sequential client and goroutine `t` of the machine: `rs` are the machine's
choices; `none` if the machine cannot take the step or if a choice is not the sequential environment's answer. -/
def corun (P : Params H) (E : Env σ) (MP : MParams H) (cl : Nat → Nat) (presented : Nat → Option Bytes)
    (priv : Nat → Bool) (t : Nat) : World σ H → MSt H → List ClientLatest.Res → Option (World σ H × MSt H)
  | w, s, [] => some (w, s)
  | w, s, r :: rs =>
    if IsChoice (s.th t).pc ∧ r ≠ answer P E w (s.th t) then none
    else match ClientLatest.step MP cl presented priv s t r with
      | none => none
      | some s' => corun P E MP cl presented priv t (wstep P E w (s.th t)) s' rs

/-- the machine component of a lock-step run is a run of the machine in which only goroutine `t` moves -/
theorem corun_run (P : Params H) (E : Env σ) (MP : MParams H) (cl : Nat → Nat) (presented : Nat → Option Bytes)
    (priv : Nat → Bool) (t : Nat) : ∀ (rs : List ClientLatest.Res) (w w' : World σ H) (s s' : MSt H),
    corun P E MP cl presented priv t w s rs = some (w', s') →
    ClientLatest.run MP cl presented priv s (rs.map fun r => (t, r)) = some s' := by
  intro rs
  induction rs with
  | nil => intro w w' s s' h; simp [corun] at h; simp [ClientLatest.run, h.2]
  | cons r rs ih =>
    intro w w' s s' h
    simp only [corun] at h
    split at h
    · cases h
    · cases hs : ClientLatest.step MP cl presented priv s t r with
      | none => simp [hs] at h
      | some s1 =>
        simp only [hs] at h
        simp only [List.map_cons, ClientLatest.run, hs]
        exact ih _ _ _ _ h

theorem corun_append (P : Params H) (E : Env σ) (MP : MParams H) (cl : Nat → Nat) (presented : Nat → Option Bytes)
    (priv : Nat → Bool) (t : Nat) : ∀ (a b : List ClientLatest.Res) (w w1 w2 : World σ H) (s s1 s2 : MSt H),
    corun P E MP cl presented priv t w s a = some (w1, s1) →
    corun P E MP cl presented priv t w1 s1 b = some (w2, s2) →
    corun P E MP cl presented priv t w s (a ++ b) = some (w2, s2) := by
  intro a
  induction a with
  | nil => intro b w w1 w2 s s1 s2 h1 h2; simp [corun] at h1; obtain ⟨rfl, rfl⟩ := h1; simpa using h2
  | cons r a ih =>
    intro b w w1 w2 s s1 s2 h1 h2
    simp only [corun, List.cons_append] at h1 ⊢
    split at h1
    · cases h1
    · rename_i hc
      rw [if_neg hc]
      cases hs : ClientLatest.step MP cl presented priv s t r with
      | none => simp [hs] at h1
      | some s0 => simp only [hs] at h1 ⊢; exact ih b _ _ _ _ _ _ h1 h2

/-! ### the continuation of each program counter -/

/-- what `mergeLatest` does with the result `r` of a `mergeLatestMem` call: `first` — the call at its top;
`loop` — the call inside its `for` loop, `cfgB` being the configuration content just read and `f` the remaining fuel -/
def afterMemSeq (P : Params H) (E : Env σ) (o : ClientLatest.Outer) (f : Nat) (cfgB : Bytes)
    (r : Except Err Client.When × World σ H) : Except Err Unit × World σ H :=
  match o with
  | .first =>
    (match r.1 with
     | .error e => (.error e, r.2)
     | .ok when => if when != .future then (.ok (), r.2) else mergeLatestLoop P E P.retries r.2)
  | .loop =>
    (match r.1 with
     | .error e => (.error e, r.2)
     | .ok when =>
       if when != .past then (.ok (), r.2) else
       let wr := writeConfig E r.2 (latestFile r.2.c.name) cfgB r.2.c.latestMsg
       match wr.1 with
       | .conflict => mergeLatestLoop P E f wr.2
       | .ok => (.ok (), wr.2)
       | .error => (.error .config, wr.2))

/-- the body of `mergeLatestMem` after `note.Open` / `ParseTree` succeeded -/
def memCheckSeq (P : Params H) (E : Env σ) (w : World σ H) (tree : Head H) (msg : Bytes) :
    Except Err Client.When × World σ H :=
  if tree.n ≤ w.c.latest.n then
    let r := checkTrees P E w tree msg w.c.latest w.c.latestMsg
    match r.1 with
    | .error e => (.error e, r.2)
    | .ok () => (.ok (if tree.n < w.c.latest.n then .past else .now), r.2)
  else
    let r := checkTrees P E w w.c.latest w.c.latestMsg tree msg
    match r.1 with
    | .error e => (.error e, r.2)
    | .ok () => (.ok .future, { r.2 with c := { r.2.c with latest := tree, latestMsg := msg } })

theorem mergeLatestMem_eq (P : Params H) (E : Env σ) (w : World σ H) (msg : Bytes) :
    mergeLatestMem P E w msg =
      if msg.isEmpty then (.ok (if w.c.latest.n == 0 then .now else .past), w)
      else match openTree P w.c.verifiers msg with
        | .error e => (.error e, w)
        | .ok tree => memCheckSeq P E w tree msg := rfl

theorem mergeLatest_eq (P : Params H) (E : Env σ) (w : World σ H) (msg : Bytes) (f : Nat) (cfgB : Bytes) :
    mergeLatest P E w msg = afterMemSeq P E .first f cfgB (mergeLatestMem P E w msg) := rfl

theorem mergeLatestLoop_succ (P : Params H) (E : Env σ) (f : Nat) (w : World σ H) :
    mergeLatestLoop P E (f + 1) w =
      match (readConfig E w (latestFile w.c.name)).1 with
      | none => (.error .config, (readConfig E w (latestFile w.c.name)).2)
      | some msg => afterMemSeq P E .loop f msg (mergeLatestMem P E (readConfig E w (latestFile w.c.name)).2 msg) := by
  rw [mergeLatestLoop]
  cases (readConfig E w (latestFile w.c.name)).1 <;> rfl

/-- the world with the head installed -/
def installW (w : World σ H) (tree : Head H) (msg : Bytes) : World σ H :=
  { w with c := { w.c with latest := tree, latestMsg := msg } }

/-- **The coupling at program counter `l.pc`**: what the goroutine's local variables have to do with the sequential
world, and: running the rest of the sequential function from here yields `target`, the result of the whole call. -/
def LocOK (P : Params H) (E : Env σ) (vs : List Note.Verifier) (cfg : σ → Bytes) (msg0 : Bytes)
    (target : Except Err Unit × World σ H) (w : World σ H) (l : MLoc H) : Prop :=
  match l.pc with
  | .entry => mergeLatest P E w msg0 = target
  | .start => mergeLatest P E w msg0 = target
  | .memRead o => l.msg = optB (unB l.msg) ∧ (o = .loop → l.cfg = optB (cfg w.s)) ∧
      afterMemSeq P E o (P.retries - 1) (unB l.cfg) (mergeLatestMem P E w (unB l.msg)) = target
  | .memCheck o => l.latest = w.c.latest ∧ l.latestMsg = optB w.c.latestMsg ∧ l.msg = optB (unB l.msg) ∧
      openTree P vs (unB l.msg) = .ok l.tree ∧ (o = .loop → l.cfg = optB (cfg w.s)) ∧
      afterMemSeq P E o (P.retries - 1) (unB l.cfg) (memCheckSeq P E w l.tree (unB l.msg)) = target
  | .memInstall o => l.latest = w.c.latest ∧ l.msg = optB (unB l.msg) ∧ (o = .loop → l.cfg = optB (cfg w.s)) ∧
      afterMemSeq P E o (P.retries - 1) (unB l.cfg) (.ok .future, installW w l.tree (unB l.msg)) = target
  | .readConfig => mergeLatestLoop P E P.retries w = target
  | .readLatestMsg => l.cfg = optB (cfg w.s) ∧
      afterMemSeq P E .loop (P.retries - 1) (unB l.cfg) (.ok .past, w) = target
  | .writeConfig => l.cfg = optB (cfg w.s) ∧ l.lm = optB w.c.latestMsg ∧
      afterMemSeq P E .loop (P.retries - 1) (unB l.cfg) (.ok .past, w) = target
  | .done x => absRes target.1 = x ∧ target.2 = w

/-- the shared state of the machine (as far as client `cl t` is concerned) is the sequential world's -/
structure RelG (cl : Nat → Nat) (name : Bytes) (cfg : σ → Bytes) (vs : List Note.Verifier) (t : Nat)
    (w : World σ H) (s : MSt H) : Prop where
  name : w.c.name = name
  verifiers : w.c.verifiers = vs
  nosec : NoSecTile w
  latest : s.latest (cl t) = w.c.latest
  latestMsg : s.latestMsg (cl t) = optB w.c.latestMsg
  config : s.config = optB (cfg w.s)

/-- the machine's `SecurityError` records (newest first) against the texts in the sequential trace (oldest first):
each text starts with the two notes of the record, older first (`securityHead`) -/
inductive SecRel (P : Params H) (t : Nat) : List (Nat × Option Bytes × Option Bytes) → List Bytes → Prop
  | nil : SecRel P t [] []
  | snoc {l : List (Nat × Option Bytes × Option Bytes)} {txts : List Bytes} (a b : Option Bytes) (h : H) (tail : Bytes) :
      SecRel P t l txts → SecRel P t ((t, a, b) :: l) (txts ++ [securityHead P (unB a) (unB b) h ++ tail])

/-- the observable effects agree: the sequential trace grew by `ext`; the machine's successful configuration writes are
those of `ext`, its security reports are those of `ext` -/
def Obs (P : Params H) (t : Nat) (tr0 : List Effect) (bw : List (Option Bytes × Option Bytes))
    (bs : List (Nat × Option Bytes × Option Bytes)) (w : World σ H) (s : MSt H) : Prop :=
  ∃ ext, w.tr = tr0 ++ ext ∧ s.writes = (trWrites ext).reverse ++ bw ∧ ∃ ns, s.sec = ns ++ bs ∧ SecRel P t ns (trSecs ext)

structure Coupled (P : Params H) (E : Env σ) (cl : Nat → Nat) (name : Bytes) (cfg : σ → Bytes)
    (vs : List Note.Verifier) (t : Nat) (msg0 : Bytes) (target : Except Err Unit × World σ H)
    (tr0 : List Effect) (bw : List (Option Bytes × Option Bytes)) (bs : List (Nat × Option Bytes × Option Bytes))
    (w : World σ H) (s : MSt H) : Prop where
  rel : RelG cl name cfg vs t w s
  loc : LocOK P E vs cfg msg0 target w (s.th t)
  obs : Obs P t tr0 bw bs w s

end
end ModVerif.ClientRefine
