/-
  C05 known finding, as a structured proof (no evaluation over the 65 kB path): `create` fails with
  `nameTooLong` on a single regular file whose entry name exceeds 65535 bytes, although the file check
  reports no error.
-/
import ModVerif.Spec.ZipSpec
import ModVerif.Proofs.ZipAClassify
import ModVerif.Proofs.ZipAVendor
import ModVerif.Proofs.ZipCreate
namespace ModVerif.Proofs.ZipA
open ModVerif ModVerif.PathClean ModVerif.Zip ModVerif.ZipSpec ModVerif.Proofs.Zip

/-- a single path element that is not empty, `.` or `..` is clean and relative -/
theorem noSlash_cleanRel (p : Bytes) (hns : (47 : UInt8) ∉ p) (hne : p ≠ []) (h1 : p ≠ [46]) (h2 : p ≠ [46, 46]) :
    CleanRel p := by
  have hroot : isRooted p = false := by
    cases p with
    | nil => exact absurd rfl hne
    | cons x t =>
      rw [isRooted_cons]
      have : x ≠ 47 := fun e => hns (by rw [e]; exact List.mem_cons_self)
      simpa using this
  have hcomps : comps p = [p] := by
    unfold comps cleanComps
    rw [hroot, splitOn_noSep 47 p hns]
    have e1 : (p == []) = false := by simpa using hne
    have e2 : (p == [46]) = false := by simpa using h1
    have e3 : (p == dotdot) = false := by simpa [dotdot] using h2
    simp [step, e1, e2, e3]
  refine ⟨?_, hroot⟩
  unfold pathClean
  have e1 : (p == []) = false := by simpa using hne
  rw [e1]
  simp only [Bool.false_eq_true, if_false, hroot, hcomps]
  rfl

theorem notVendored_noSlash (p : Bytes) (ge124 : Bool) (hns : (47 : UInt8) ∉ p) (hm : p ≠ vendorModulesTxt)
    (hv : isPrefixOfB vendorSlash p = false) : isVendoredPackage p ge124 = false := by
  unfold isVendoredPackage
  have e1 : (ge124 && p == vendorModulesTxt) = false := by
    have : (p == vendorModulesTxt) = false := by simpa using hm
    rw [this]; simp
  rw [e1, hv]
  simp only [Bool.false_eq_true, if_false]
  cases hi : indexOf slashVendorSlash p with
  | none => rfl
  | some j =>
    exfalso
    obtain ⟨a, b, h, _, _⟩ := indexOf_some _ _ _ hi
    apply hns
    rw [h, svs_eq]; simp

theorem earlyRule_single (E : Env) (ge124 : Bool) (files : List FileInfo) (p c : Bytes) (sz : Int) (g : Bool)
    (hns : (47 : UInt8) ∉ p) (hlen : 20 < p.length) (hv : isPrefixOfB vendorSlash p = false)
    (hcfp : E.cfp p = true) :
    earlyRule E ge124 files ⟨p, .regular, sz, c, g⟩ = none := by
  have hne : p ≠ [] := by intro e; rw [e] at hlen; simp at hlen
  have h1 : p ≠ [46] := by intro e; rw [e] at hlen; simp at hlen
  have h2 : p ≠ [46, 46] := by intro e; rw [e] at hlen; simp at hlen
  have hcr := noSlash_cleanRel p hns hne h1 h2
  have hm : p ≠ vendorModulesTxt := by intro e; rw [e] at hlen; simp [vendorModulesTxt, vendorSlash] at hlen
  have hven := notVendored_noSlash p ge124 hns hm hv
  have hbelow : ¬ BelowModuleRoot files p := by
    unfold BelowModuleRoot dirPrefixes
    rw [dirPrefixesAux_noSlash p [] hns]
    simp
  have hhg : p ≠ hgArchivalName := by intro e; rw [e] at hlen; simp [hgArchivalName] at hlen
  have hlow : ¬ (lowerAscii p = goModName ∧ p ≠ goModName) := by
    rintro ⟨e, _⟩
    have := congrArg List.length e
    simp [lowerAscii, goModName] at this
    omega
  unfold earlyRule
  simp [goModUnreadable, hcr.clean, hcr.rel, hven, hbelow, hhg, hcfp, hlow]

theorem classifyStep_single (E : Env) (ge124 : Bool) (files : List FileInfo) (p c : Bytes) (sz : Int) (g : Bool)
    (hns : (47 : UInt8) ∉ p) (hlen : 20 < p.length) (hv : isPrefixOfB vendorSlash p = false)
    (hcfp : E.cfp p = true) :
    classifyStep E ge124 files [] ⟨p, .regular, sz, c, g⟩ = ([(p, false)], .valid) := by
  unfold classifyStep
  rw [earlyRule_single E ge124 files p c sz g hns hlen hv hcfp]
  have hcol : collide E.toFold [] p false = ([(p, false)], none) := by
    unfold collide
    rw [parents_noSlash p hns]
    simp [regChain, clash, Reg.lookup, register]
  have hg : p ≠ goModName := by intro e; rw [e] at hlen; simp [goModName] at hlen
  have hl : p ≠ licenseName := by intro e; rw [e] at hlen; simp [licenseName] at hlen
  have hmd : (Mode.regular == Mode.dir) = false := rfl
  simp [hmd, hcol, lateRule, hg, hl]

/-- the file check on a single long one-element path reports it valid, without error; `create` then
    fails on the length of the entry name -/
theorem create_nameTooLong (E : Env) (mpath mvers p c : Bytes) (hm : E.modOK mpath mvers = true)
    (hns : (47 : UInt8) ∉ p) (hlen : 20 < p.length) (hv : isPrefixOfB vendorSlash p = false)
    (hcfp : E.cfp p = true) (hc : (c.length : Int) ≤ MaxZipFile)
    (hlong : (zipPrefix mpath mvers ++ p).length > 65535) :
    (checkFilesV E [⟨p, .regular, c.length, c, false⟩]).err = none ∧
    (checkFilesV E [⟨p, .regular, c.length, c, false⟩]).valid = [p] ∧
    HonestFiles [⟨p, .regular, c.length, c, false⟩] ∧
    create E mpath mvers [⟨p, .regular, c.length, c, false⟩] = .error .nameTooLong := by
  generalize hf : (⟨p, .regular, c.length, c, false⟩ : FileInfo) = f
  have hcs : classifyAll E (goVers [f]) [f] = [(f, .valid)] := by
    unfold classifyAll
    rw [classifyFrom_cons, ← hf, classifyStep_single E _ _ p c c.length false hns hlen hv hcfp]
    rfl
  obtain ⟨s1, s2, s3, s4, s5⟩ := checkFilesSt_spec E [f] (goVers [f]) (by simp)
  have hu : goModUnreadable f = false := by rw [← hf]; simp [goModUnreadable]
  rw [hcs] at s1 s2 s3 s4 s5
  have hacc : accountB ((MaxZipFile : Int), false) f.size = ((MaxZipFile : Int) - f.size, false) := by
    unfold accountB
    rw [← hf]
    simp only
    rw [if_pos ⟨by omega, hc⟩]
  simp [vOf, iOf, bOf, hu, Class.sized, hacc] at s1 s2 s3 s4 s5
  have herr : (checkFilesSt E [f] (goVers [f])).cf.err = none := by
    unfold CheckedFiles.err
    rw [s5.2, s4]; rfl
  refine ⟨herr, ?_, ?_, ?_⟩
  · show (checkFilesSt E [f] (goVers [f])).cf.valid = [p]
    rw [s2, ← hf]
  · intro g hg _
    rw [List.mem_singleton.mp hg, ← hf]
  · rw [create_eq]
    simp only [hm, Bool.not_true, Bool.false_eq_true, if_false]
    rw [herr]
    simp only
    rw [s1]
    unfold addFiles
    have : (zipPrefix mpath mvers ++ f.path).length > 65535 := by rw [← hf]; exact hlong
    rw [if_pos this]

end ModVerif.Proofs.ZipA
