/-
  Helper lemmas for Tie/FnEditSort.lean (part E): `File_SortBlocks` / `WorkFile_SortBlocks` on a represented heap.
-/
import ModVerif.Proofs.TieFnEditSortD
import ModVerif.Tie.FnSemver
set_option linter.unusedSimpArgs false
set_option linter.unusedVariables false
namespace ModVerif.Tie.FnEditSortE
open ModVerif ModVerif.GoRt ModVerif.Generated.Edit ModVerif.Tie.FnEditRep ModVerif.Tie.FnEditSortA ModVerif.Tie.FnEditSortB
  ModVerif.Tie.FnEditSortC ModVerif.Tie.FnEditSortD
open ModVerif.Modfile.Edit (treeIds dropKilled stableSort sortStmts EFile EWork sortBlocks workSortBlocks)

/-! ### model side -/

theorem sortStmts_cons (sem work : Bool) (s : Modfile.Expr) (ss : List Modfile.Expr) :
    sortStmts sem work (s :: ss) = sortStmts sem work [s] ++ sortStmts sem work ss := by
  simp [sortStmts]

theorem treeIds_sortStmts (sem work : Bool) : ∀ ss : List Modfile.Expr, (treeIds (sortStmts sem work ss)).Perm (treeIds ss)
  | [] => List.Perm.refl _
  | s :: ss => by
    rw [sortStmts_cons, Modfile.Edit.treeIds_append, Modfile.Edit.treeIds_cons s ss]
    refine List.Perm.append ?_ (treeIds_sortStmts sem work ss)
    cases s with
    | lineBlock b =>
      simp only [sortStmts, List.map_cons, List.map_nil]
      rw [Modfile.Edit.treeIds_block, Modfile.Edit.treeIds_block]
      exact (Modfile.Edit.stableSort_perm _ _).map _
    | line l => exact List.Perm.refl _
    | commentBlock c => exact List.Perm.refl _
    | lparen c => exact List.Perm.refl _
    | rparen c => exact List.Perm.refl _

theorem BlockTokOK_sortStmts (sem work : Bool) (ss : List Modfile.Expr) (h : BlockTokOK ss) : BlockTokOK (sortStmts sem work ss) := by
  intro b hb
  simp only [sortStmts, List.mem_map] at hb
  obtain ⟨s, hs, he⟩ := hb
  cases s with
  | lineBlock b0 =>
    simp only [Modfile.Expr.lineBlock.injEq] at he
    subst he; exact h b0 hs
  | line l => cases he
  | commentBlock c => cases he
  | lparen c => cases he
  | rparen c => cases he

def sortSize (ss : List Modfile.Expr) : Nat := ss.length + cmpSize ss

theorem sum_filter_le {α : Type} (f : α → Nat) (q : α → Bool) : ∀ l : List α, ((l.filter q).map f).sum ≤ (l.map f).sum
  | [] => Nat.le_refl _
  | a :: l => by
    have := sum_filter_le f q l
    by_cases h : q a <;> simp [List.filter_cons, h] <;> omega

theorem sortSize_dropKilled (kl : List Nat) : ∀ ss : List Modfile.Expr, sortSize (dropKilled kl ss) ≤ sortSize ss
  | [] => Nat.le_refl _
  | s :: ss => by
    have ih := sortSize_dropKilled kl ss
    unfold sortSize at ih ⊢
    cases s with
    | line l =>
      simp only [dropKilled]
      split <;> simp only [cmpSize, List.length_cons] <;> omega
    | lineBlock b =>
      simp only [dropKilled]
      have := sum_filter_le (fun l : Modfile.Line => tokFuel l.token) (fun l => !kl.contains l.id) b.lines
      split <;> simp only [cmpSize, List.length_cons] <;> omega
    | commentBlock c => simp only [dropKilled, cmpSize, List.length_cons]; omega
    | lparen c => simp only [dropKilled, cmpSize, List.length_cons]; omega
    | rparen c => simp only [dropKilled, cmpSize, List.length_cons]; omega

/-- the model's `useSemanticSortForExclude` -/
def useSem (e : EFile) : Bool :=
  match e.f.go with
  | some g => decide (Semver.compare (118 :: g.version) Modfile.Edit.semanticSortForExcludeVersionV ≥ 0)
  | none => false

theorem sortBlocks_eq (e : EFile) : sortBlocks e =
    { removeDupsE e with f := { (removeDupsE e).f with
        syn := { (removeDupsE e).f.syn with stmts := sortStmts (useSem e) false (removeDupsE e).f.syn.stmts } } } := by
  unfold sortBlocks useSem
  cases e.f.go <;> rfl

theorem workSortBlocks_eq (e : EWork) : workSortBlocks e =
    { workRemoveDupsE e with f := { (workRemoveDupsE e).f with
        syn := { (workRemoveDupsE e).f.syn with stmts := sortStmts false true (workRemoveDupsE e).f.syn.stmts } } } := rfl

theorem v121 : Modfile.Edit.semanticSortForExcludeVersionV = [118, 49, 46, 50, 49] := by decide +kernel

def goLen (e : EFile) : Nat := match e.f.go with | some g => g.version.length | none => 0

/-- fuel of `File.SortBlocks` -/
def sortFuel (e : EFile) : Nat := dupsSize e + sortSize e.f.syn.stmts + 2 * goLen e + 12

def workSortFuel (e : EWork) : Nat := workDupsSize e + sortSize e.f.syn.stmts + 1

/-- **`File.SortBlocks` on a represented heap is the model's `sortBlocks`** -/
theorem File_SortBlocks_sim {h : Heap} {fp : Int} {e : EFile} (R : RepF h fp e) (fuel : Nat) (hf : sortFuel e ≤ fuel) :
    ∃ h', File_SortBlocks fuel fp h = .ok ((), h') ∧ RepF h' fp (sortBlocks e) := by
  unfold sortFuel at hf
  obtain ⟨h1, hd, R1⟩ := File_removeDups_sim R fuel (by omega)
  obtain ⟨o1, ho1, R1⟩ := R1
  obtain ⟨es, Rs⟩ := R1.syn
  have hsz : sortSize (removeDupsE e).f.syn.stmts < fuel := by
    have := sortSize_dropKilled (k3 e) e.f.syn.stmts
    rw [removeDupsE_eq]; simp only []; omega
  obtain ⟨bl', l1, b1, b2, b3⟩ := sortLoop_spec fp (useSem e) es (removeDupsE e).f.syn.stmts [] es 0 fuel h1 rfl rfl hsz
    Rs.stmts Rs.nodupB R1.tok
  -- the go version test
  have hsem : (if (!decide (o1.Go = 0)) = true then (do
      let t4 ← heapGet h1.mods fp
      let t5 ← heapGet h1.gos t4.Go
      let t6 ← ModVerif.Generated.Semver.Compare fuel (([118] : Bytes) ++ t5.Version) ([118, 49, 46, 50, 49] : Bytes)
      pure (decide (t6 ≥ (0 : Int)))) else pure false) = (.ok (useSem e) : M Bool) := by
    have hgo := R1.go
    have hgo' : (removeDupsE e).f.go = e.f.go := rfl
    rw [hgo'] at hgo
    unfold useSem
    cases hg : e.f.go with
    | none =>
      rw [hg] at hgo
      have : o1.Go = 0 := hgo
      simp [this, pure, Except.pure]
    | some g =>
      rw [hg] at hgo
      have hne : ¬ (o1.Go = 0) := by have := heapGet_pos hgo.1; omega
      have hl : goLen e = g.version.length := by unfold goLen; rw [hg]
      have hc := Tie.FnSemver.Compare_tie (([118] : Bytes) ++ g.version) [118, 49, 46, 50, 49] fuel (by
        simp only [List.length_append, List.length_cons, List.length_nil]; omega)
      simp only [hne, decide_false, Bool.not_false, if_true, ho1, bind, Except.bind, hgo.1, goG_Version, hc, v121]
      rfl
  unfold File_SortBlocks
  step hd
  step ho1
  rw [bind_ok _ hsem]
  step ho1
  step Rs.file
  rw [fileG_Stmt]
  step l1
  refine ⟨_, rfl, ?_⟩
  rw [sortBlocks_eq]
  refine ⟨o1, ho1, ?_⟩
  exact {
    syn := ⟨es, Rs.file, b3, Rs.nodupB, (treeIds_sortStmts _ _ _).nodup_iff.2 Rs.nodupL⟩
    tok := BlockTokOK_sortStmts _ _ _ R1.tok
    linesG := R1.linesG
    next := R1.next
    module := R1.module
    go := R1.go
    toolchain := R1.toolchain
    godebug := R1.godebug
    require := R1.require
    retract := R1.retract
    exclude := R1.exclude
    replace := R1.replace
    tool := R1.tool }

/-- **`WorkFile.SortBlocks` on a represented heap is the model's `workSortBlocks`** -/
theorem WorkFile_SortBlocks_sim {h : Heap} {fp : Int} {e : EWork} (R : RepW h fp e) (fuel : Nat) (hf : workSortFuel e ≤ fuel) :
    ∃ h', WorkFile_SortBlocks fuel fp h = .ok ((), h') ∧ RepW h' fp (workSortBlocks e) := by
  unfold workSortFuel at hf
  obtain ⟨h1, hd, R1⟩ := WorkFile_removeDups_sim R fuel (by omega)
  obtain ⟨o1, ho1, R1⟩ := R1
  obtain ⟨es, Rs⟩ := R1.syn
  have hsz : sortSize (workRemoveDupsE e).f.syn.stmts < fuel := by
    have := sortSize_dropKilled (wk e) e.f.syn.stmts
    rw [workRemoveDupsE_eq]; simp only []; omega
  obtain ⟨bl', l1, b1, b2, b3⟩ := workSortLoop_spec fp false es (workRemoveDupsE e).f.syn.stmts [] es 0 fuel h1 rfl rfl hsz
    Rs.stmts Rs.nodupB R1.tok
  unfold WorkFile_SortBlocks
  step hd
  step ho1
  step Rs.file
  rw [fileG_Stmt]
  step l1
  refine ⟨_, rfl, ?_⟩
  rw [workSortBlocks_eq]
  refine ⟨o1, ho1, ?_⟩
  exact {
    syn := ⟨es, Rs.file, b3, Rs.nodupB, (treeIds_sortStmts _ _ _).nodup_iff.2 Rs.nodupL⟩
    tok := BlockTokOK_sortStmts _ _ _ R1.tok
    linesG := R1.linesG
    next := R1.next
    go := R1.go
    toolchain := R1.toolchain
    godebug := R1.godebug
    use := R1.use
    replace := R1.replace }

end ModVerif.Tie.FnEditSortE
