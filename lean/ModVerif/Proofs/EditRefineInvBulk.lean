/-
  EditRefine, part 18 — SetRequire preserves the tree invariant, under the hypothesis that excludes the recorded
  finding "the text after `indirect;` is again an indirect marker" (`MarkerSettable`).
-/
import ModVerif.Proofs.EditRefineNoPanic
import ModVerif.Proofs.EditRefineExact
set_option linter.unusedSimpArgs false
namespace ModVerif.Modfile.Edit
open ModVerif ModVerif.Modfile

/-- `setIndirect` achieves what it is asked for on these end-of-line comments.  For `b = true` (adding the marker)
    this always holds in the Go code; for `b = false` it fails exactly when the text after `// indirect;` is itself an
    indirect marker (recorded finding `C16_violated_indirect_marker_survives`). -/
def MarkerSettable (s : List Comment) : Prop := ∀ b, isIndirectS (sfxAfter b s) = b

instance (s : List Comment) : Decidable (MarkerSettable s) :=
  decidable_of_iff (isIndirectS (sfxAfter true s) = true ∧ isIndirectS (sfxAfter false s) = false)
    ⟨fun h b => by cases b; exact h.2; exact h.1, fun h => ⟨h true, h false⟩⟩

/-- the blank-line placeholder removal of `setVersion` -/
def dropBlank (l : Line) : Line :=
  match l.comments.before with
  | [c] => if c.token.isEmpty then { l with comments := { l.comments with before := [] } } else l
  | _ => l

theorem dropBlank_props (l : Line) : (dropBlank l).id = l.id ∧ (dropBlank l).token = l.token ∧
    (dropBlank l).inBlock = l.inBlock ∧ (dropBlank l).comments.suffix = l.comments.suffix := by
  unfold dropBlank
  split
  · split <;> exact ⟨rfl, rfl, rfl, rfl⟩
  · exact ⟨rfl, rfl, rfl, rfl⟩

theorem setVersionLine_eq (v' : Bytes) (l : Line) :
    setVersionLine v' l =
      if l.token.isEmpty then l else
      if l.inBlock then
        (if (dropBlank l).token.length ≥ 2 then { dropBlank l with token := (dropBlank l).token.set 1 v' } else dropBlank l)
      else
        (if l.token.length ≥ 3 then { l with token := l.token.set 2 v' } else l) := by
  unfold setVersionLine dropBlank
  rfl

theorem setVersionLine_props (v' : Bytes) (l : Line) :
    (setVersionLine v' l).id = l.id ∧ (setVersionLine v' l).inBlock = l.inBlock ∧
    (setVersionLine v' l).comments.suffix = l.comments.suffix := by
  rw [setVersionLine_eq]
  rcases dropBlank_props l with ⟨d1, d2, d3, d4⟩
  split
  · exact ⟨rfl, rfl, rfl⟩
  · split
    · split
      · exact ⟨d1, d3, d4⟩
      · exact ⟨d1, d3, d4⟩
    · split <;> exact ⟨rfl, rfl, rfl⟩

/-- on a requirement line the version token is replaced -/
theorem setVersionLine_token (v' : Bytes) (p1 : List Bytes) (l : Line) (a ver : Bytes)
    (hshape : (p1 = [] ∧ l.inBlock = false) ∨ (∃ w, p1 = [w] ∧ l.inBlock = true))
    (htok : p1 ++ l.token = [B "require", a, ver]) :
    p1 ++ (setVersionLine v' l).token = [B "require", a, v'] := by
  rw [setVersionLine_eq]
  rcases dropBlank_props l with ⟨_, d2, _, _⟩
  rcases hshape with ⟨h1, h2⟩ | ⟨w, h1, h2⟩
  · subst h1
    simp only [List.nil_append] at htok ⊢
    simp [htok, h2]
  · subst h1
    have ht : l.token = [a, ver] ∧ w = B "require" := by
      cases hl : l.token with
      | nil => rw [hl] at htok; simp at htok
      | cons x xs =>
        rw [hl] at htok
        simp only [List.singleton_append, List.cons.injEq] at htok
        exact ⟨by rw [htok.2.1, htok.2.2], htok.1⟩
    simp [ht.1, h2, d2, ht.2]

/-- the line surgery of SetRequire on one kept requirement: new version token, indirect marker as requested -/
theorem mem_view_setReq (fs : FileSyntax) (next i : Nat) (v' : Bytes) (b : Bool) (hw : TreeWF fs.stmts next)
    (v0 : VLine) (hv0 : v0 ∈ view fs.stmts) (hid0 : v0.id = i) (a ver : Bytes) (htoks : v0.toks = [B "require", a, ver])
    (v : VLine) :
    v ∈ view (fs.updateLine i fun l => setIndirectLine b (setVersionLine v' l)).stmts ↔
      (v.id ≠ i ∧ v ∈ view fs.stmts) ∨ v = ⟨i, [B "require", a, v'], sfxAfter b v0.suffix⟩ := by
  have hg : ∀ l : Line, (setIndirectLine b (setVersionLine v' l)).id = l.id := fun l => by
    rw [(setIndirectLine_props b _).1, (setVersionLine_props v' l).1]
  refine (mem_view_updateLine fs i (fun l => setIndirectLine b (setVersionLine v' l)) hw.nodup hg v).trans ?_
  rcases mem_view.1 hv0 with ⟨p0, hp0, hlive0, rfl⟩
  simp only [mkV] at hid0 htoks
  have key : mkV (p0.1, setIndirectLine b (setVersionLine v' p0.2)) = ⟨i, [B "require", a, v'], sfxAfter b (mkV p0).suffix⟩ ∧
      liveLoc (p0.1, setIndirectLine b (setVersionLine v' p0.2)) = true := by
    have hshape := hw.locShape p0 hp0
    have htok' := setVersionLine_token v' p0.1 p0.2 a ver hshape htoks
    rcases setIndirectLine_props b (setVersionLine v' p0.2) with ⟨e1, e2, _, e4⟩
    rcases setVersionLine_props v' p0.2 with ⟨f1, _, f3⟩
    constructor
    · simp only [mkV, e1, f1, hid0, e2, htok', e4, f3]
    · simp only [liveLoc, e2]
      cases hl : (setVersionLine v' p0.2).token with
      | nil =>
        rw [hl] at htok'
        rcases hshape with ⟨h1, _⟩ | ⟨w, h1, _⟩ <;> rw [h1] at htok' <;> simp at htok'
      | cons _ _ => rfl
  constructor
  · rintro (hl | ⟨p, hp, hid, _, rfl⟩)
    · exact Or.inl hl
    · have : p = p0 := loc_unique hw.nodup hp hp0 (hid.trans hid0.symm)
      subst this
      exact Or.inr key.1
  · rintro (hl | rfl)
    · exact Or.inl hl
    · exact Or.inr ⟨p0, hp0, hid0, key.2, key.1.symm⟩

theorem TreeWF.setReq {fs : FileSyntax} {next : Nat} (hw : TreeWF fs.stmts next) (i : Nat) (v' : Bytes) (b : Bool) :
    TreeWF (fs.updateLine i fun l => setIndirectLine b (setVersionLine v' l)).stmts next :=
  hw.updateLine i _ (fun l => by rw [(setIndirectLine_props b _).1, (setVersionLine_props v' l).1])
    (fun l => by rw [(setIndirectLine_props b _).2.2.1, (setVersionLine_props v' l).2.1])

theorem mid_id_ne {α : Type} (live : α → Bool) (id : α → Nat) (d t : List α) (x : α)
    (hnd : (liveIds live id (d ++ x :: t)).Nodup) (hx : live x = true) :
    ∀ y, (y ∈ d ∨ y ∈ t) → live y = true → id y ≠ id x := by
  intro y hy hly e
  rw [liveIds_append, liveIds_cons] at hnd
  simp only [hx, if_true] at hnd
  rcases List.nodup_append.1 hnd with ⟨_, h2, h3⟩
  rcases hy with hd | ht
  · exact h3 (id y) ((mem_liveIds live id).2 ⟨y, hd, hly, rfl⟩) (id x) List.mem_cons_self e
  · exact (List.nodup_cons.1 h2).1 ((mem_liveIds live id).2 ⟨y, ht, hly, e⟩)

theorem mem_entsOf_mid {α : Type} (live : α → Bool) (mk : α → Ent) (d t : List α) (x : α) (en : Ent) :
    en ∈ entsOf live mk (d ++ x :: t) ↔ (∃ y, (y ∈ d ∨ y ∈ t) ∧ live y = true ∧ mk y = en) ∨ (live x = true ∧ mk x = en) := by
  rw [mem_entsOf]
  constructor
  · rintro ⟨y, hy, hl, he⟩
    rcases List.mem_append.1 hy with h | h
    · exact Or.inl ⟨y, Or.inl h, hl, he⟩
    · rcases List.mem_cons.1 h with rfl | h
      · exact Or.inr ⟨hl, he⟩
      · exact Or.inl ⟨y, Or.inr h, hl, he⟩
  · rintro (⟨y, hy | hy, hl, he⟩ | ⟨hl, he⟩)
    · exact ⟨y, List.mem_append_left _ hy, hl, he⟩
    · exact ⟨y, List.mem_append_right _ (List.mem_cons_of_mem _ hy), hl, he⟩
    · exact ⟨x, List.mem_append_right _ List.mem_cons_self, hl, he⟩

/-- **the loop of SetRequire on the tree invariant** -/
theorem setRequireLoop_inv {A C : List Ent} (next : Nat) (rs : List Require) :
    ∀ (done : List Require) (need : List Want) (syn : FileSyntax) (rs' : List Require) (need' : List Want) (syn' : FileSyntax),
      GoodWant need → (∀ r ∈ rs, liveRq r = true) → TreeWF syn.stmts next →
      Match (A ++ (entsOf liveRq entRq (done ++ rs) ++ C)) (view syn.stmts) →
      (∀ r ∈ rs, ∀ v ∈ view syn.stmts, v.id = r.lineId → MarkerSettable v.suffix) →
      setRequireLoop rs need syn = .ok (rs', need', syn') →
      TreeWF syn'.stmts next ∧ Match (A ++ (entsOf liveRq entRq (done ++ rs') ++ C)) (view syn'.stmts) := by
  induction rs with
  | nil =>
    intro done need syn rs' need' syn' _ _ hw hm _ h
    simp only [setRequireLoop, Except.ok.injEq, Prod.mk.injEq] at h
    rcases h with ⟨rfl, _, rfl⟩
    exact ⟨hw, hm⟩
  | cons r rs ih =>
    intro done need syn rs' need' syn' hg hlive hw hm hset h
    have hlr := hlive r List.mem_cons_self
    have hndK : (liveIds liveRq (·.lineId) (done ++ r :: rs)).Nodup := by
      rw [← entsOf_ids (·.lineId) liveRq entRq (fun _ => rfl)]; exact seg_nodup hm
    have hne := mid_id_ne liveRq (·.lineId) done rs r hndK hlr
    -- the line of `r`
    rcases hm.cover (entRq r) (List.mem_append_right _ (List.mem_append_left _
      ((mem_entsOf_mid liveRq entRq done rs r _).2 (Or.inr ⟨hlr, rfl⟩)))) with ⟨v0, hv0, hv0id, hacc0⟩
    simp only [entRq] at hv0id hacc0
    unfold setRequireLoop at h
    cases hf : need.find? (fun a => a.path == r.mod.path) with
    | some w =>
      simp only [hf, bind, Except.bind] at h
      cases hd : deref r.lineId with
      | error err => simp [hd] at h
      | ok i =>
        have hi : i = r.lineId := by unfold deref at hd; split at hd <;> simp at hd; exact hd.symm
        subst hi
        simp only [hd] at h
        cases hr : setRequireLoop rs (need.filter (fun a => a.path != r.mod.path))
            (syn.updateLine r.lineId (fun l => setIndirectLine w.indirect (setVersionLine w.vers l))) with
        | error err => simp [hr] at h
        | ok res =>
          rcases res with ⟨rs'', need'', syn''⟩
          simp only [hr, pure, Except.pure, Except.ok.injEq, Prod.mk.injEq] at h
          rcases h with ⟨rfl, _, rfl⟩
          have hview := mem_view_setReq syn next r.lineId w.vers w.indirect hw v0 hv0 hv0id _ _ hacc0.1
          have hw1 := hw.setReq r.lineId w.vers w.indirect
          have hsub : (need.filter (fun a => a.path != r.mod.path)).Sublist need := List.filter_sublist
          -- the updated entry
          have hlr' : liveRq { r with mod := { r.mod with version := w.vers }, indirect := w.indirect } = true := hlr
          have hm1 : Match (A ++ (entsOf liveRq entRq (done ++
              { r with mod := { r.mod with version := w.vers }, indirect := w.indirect } :: rs) ++ C))
              (view (syn.updateLine r.lineId (fun l => setIndirectLine w.indirect (setVersionLine w.vers l))).stmts) := by
            refine Match.frame [r.lineId] hm ?_ ?_ ?_ ?_ ?_ ?_ ?_
            · intro v hv
              simp only [List.mem_singleton] at hv
              rw [hview v]
              constructor
              · rintro (⟨_, a⟩ | rfl)
                · exact a
                · exact absurd rfl hv
              · intro a; exact Or.inl ⟨hv, a⟩
            · intro j hj
              rw [List.mem_singleton.1 hj]
              left
              rw [entsOf_ids (·.lineId) liveRq entRq (fun _ => rfl)]
              exact (mem_liveIds liveRq (·.lineId)).2 ⟨r, List.mem_append_right _ List.mem_cons_self, hlr, rfl⟩
            · rw [entsOf_ids (·.lineId) liveRq entRq (fun _ => rfl)]
              have : liveIds liveRq (·.lineId) (done ++ { r with mod := { r.mod with version := w.vers }, indirect := w.indirect } :: rs)
                  = liveIds liveRq (·.lineId) (done ++ r :: rs) := by
                simp only [liveIds_append, liveIds_cons, hlr, hlr', if_true]
              rw [this]; exact hndK
            · intro en' hen'
              left
              rcases (mem_entsOf_mid liveRq entRq done rs _ en').1 hen' with ⟨y, hy, hly, rfl⟩ | ⟨_, rfl⟩
              · exact List.mem_map.2 ⟨entRq y, (mem_entsOf_mid liveRq entRq done rs r _).2 (Or.inl ⟨y, hy, hly, rfl⟩), rfl⟩
              · exact List.mem_map.2 ⟨entRq r, (mem_entsOf_mid liveRq entRq done rs r _).2 (Or.inr ⟨hlr, rfl⟩), rfl⟩
            · intro en' hen'
              rcases (mem_entsOf_mid liveRq entRq done rs _ en').1 hen' with ⟨y, hy, hly, rfl⟩ | ⟨_, rfl⟩
              · rcases hm.cover (entRq y) (List.mem_append_right _ (List.mem_append_left _
                  ((mem_entsOf_mid liveRq entRq done rs r _).2 (Or.inl ⟨y, hy, hly, rfl⟩)))) with ⟨v, hv, hvid, hacc⟩
                refine ⟨v, (hview v).2 (Or.inl ⟨?_, hv⟩), hvid, hacc⟩
                rw [hvid]; exact hne y hy hly
              · refine ⟨⟨r.lineId, [B "require", autoQuote r.mod.path, w.vers], sfxAfter w.indirect v0.suffix⟩,
                  (hview _).2 (Or.inr rfl), rfl, ?_⟩
                exact ⟨rfl, hset r List.mem_cons_self v0 hv0 hv0id w.indirect⟩
            · intro v _ hs
              refine ⟨entRq { r with mod := { r.mod with version := w.vers }, indirect := w.indirect },
                (mem_entsOf_mid liveRq entRq done rs _ _).2 (Or.inr ⟨hlr', rfl⟩), ?_⟩
              rw [List.mem_singleton.1 hs]; rfl
            · intro en hen hs
              simp only [List.mem_singleton] at hs
              rcases (mem_entsOf_mid liveRq entRq done rs r en).1 hen with ⟨y, hy, hly, rfl⟩ | ⟨_, rfl⟩
              · exact ⟨entRq y, (mem_entsOf_mid liveRq entRq done rs _ _).2 (Or.inl ⟨y, hy, hly, rfl⟩), rfl⟩
              · exact absurd rfl hs
          have hm1' : Match (A ++ (entsOf liveRq entRq ((done ++
              [{ r with mod := { r.mod with version := w.vers }, indirect := w.indirect }]) ++ rs) ++ C))
              (view (syn.updateLine r.lineId (fun l => setIndirectLine w.indirect (setVersionLine w.vers l))).stmts) := by
            rw [List.append_assoc]; exact hm1
          have hset1 : ∀ r2 ∈ rs, ∀ v ∈ view (syn.updateLine r.lineId (fun l => setIndirectLine w.indirect (setVersionLine w.vers l))).stmts,
              v.id = r2.lineId → MarkerSettable v.suffix := by
            intro r2 hr2 v hv hvid
            rcases (hview v).1 hv with ⟨_, hvv⟩ | rfl
            · exact hset r2 (List.mem_cons_of_mem _ hr2) v hvv hvid
            · exact absurd hvid.symm (hne r2 (Or.inr hr2) (hlive r2 (List.mem_cons_of_mem _ hr2)))
          rcases ih _ _ _ _ _ _ (hg.sublist hsub) (fun r2 hr2 => hlive r2 (List.mem_cons_of_mem _ hr2)) hw1 hm1' hset1 hr
            with ⟨r1, r2⟩
          refine ⟨r1, ?_⟩
          rw [List.append_assoc] at r2
          exact r2
    | none =>
      simp only [hf, bind, Except.bind] at h
      cases hd : deref r.lineId with
      | error err => simp [hd] at h
      | ok i =>
        have hi : i = r.lineId := by unfold deref at hd; split at hd <;> simp at hd; exact hd.symm
        subst hi
        simp only [hd] at h
        cases hr : setRequireLoop rs (need.filter (fun a => !a.path.isEmpty)) (markRemoved syn r.lineId) with
        | error err => simp [hr] at h
        | ok res =>
          rcases res with ⟨rs'', need'', syn''⟩
          simp only [hr, pure, Except.pure, Except.ok.injEq, Prod.mk.injEq] at h
          rcases h with ⟨rfl, _, rfl⟩
          have hview := mem_view_markRemoved syn r.lineId hw.nodup
          have hw1 := hw.markRemoved r.lineId
          have hsub : (need.filter (fun a => !a.path.isEmpty)).Sublist need := List.filter_sublist
          have hm1 : Match (A ++ (entsOf liveRq entRq (done ++ clearedRequire :: rs) ++ C))
              (view (markRemoved syn r.lineId).stmts) := by
            refine Match.frame [r.lineId] hm ?_ ?_ ?_ ?_ ?_ ?_ ?_
            · intro v hv
              simp only [List.mem_singleton] at hv
              rw [hview v]
              exact ⟨fun a => a.1, fun a => ⟨a, hv⟩⟩
            · intro j hj
              rw [List.mem_singleton.1 hj]
              left
              rw [entsOf_ids (·.lineId) liveRq entRq (fun _ => rfl)]
              exact (mem_liveIds liveRq (·.lineId)).2 ⟨r, List.mem_append_right _ List.mem_cons_self, hlr, rfl⟩
            · rw [entsOf_ids (·.lineId) liveRq entRq (fun _ => rfl)]
              have hsl : (liveIds liveRq (·.lineId) (done ++ clearedRequire :: rs)).Sublist (liveIds liveRq (·.lineId) (done ++ r :: rs)) := by
                simp only [liveIds_append, liveIds_cons, hlr, if_true]
                refine List.Sublist.append (List.Sublist.refl _) ?_
                have : liveRq clearedRequire = false := rfl
                simp only [this, Bool.false_eq_true, if_false]
                exact List.Sublist.cons _ (List.Sublist.refl _)
              exact List.Nodup.sublist hsl hndK
            · intro en' hen'
              left
              rcases (mem_entsOf_mid liveRq entRq done rs _ en').1 hen' with ⟨y, hy, hly, rfl⟩ | ⟨hc, _⟩
              · exact List.mem_map.2 ⟨entRq y, (mem_entsOf_mid liveRq entRq done rs r _).2 (Or.inl ⟨y, hy, hly, rfl⟩), rfl⟩
              · exact absurd hc (by decide)
            · intro en' hen'
              rcases (mem_entsOf_mid liveRq entRq done rs _ en').1 hen' with ⟨y, hy, hly, rfl⟩ | ⟨hc, _⟩
              · rcases hm.cover (entRq y) (List.mem_append_right _ (List.mem_append_left _
                  ((mem_entsOf_mid liveRq entRq done rs r _).2 (Or.inl ⟨y, hy, hly, rfl⟩)))) with ⟨v, hv, hvid, hacc⟩
                refine ⟨v, (hview v).2 ⟨hv, ?_⟩, hvid, hacc⟩
                rw [hvid]; exact hne y hy hly
              · exact absurd hc (by decide)
            · intro v hv hs
              exact absurd (List.mem_singleton.1 hs) ((hview v).1 hv).2
            · intro en hen hs
              simp only [List.mem_singleton] at hs
              rcases (mem_entsOf_mid liveRq entRq done rs r en).1 hen with ⟨y, hy, hly, rfl⟩ | ⟨_, rfl⟩
              · exact ⟨entRq y, (mem_entsOf_mid liveRq entRq done rs _ _).2 (Or.inl ⟨y, hy, hly, rfl⟩), rfl⟩
              · exact absurd rfl hs
          have hm1' : Match (A ++ (entsOf liveRq entRq ((done ++ [clearedRequire]) ++ rs) ++ C))
              (view (markRemoved syn r.lineId).stmts) := by
            rw [List.append_assoc]; exact hm1
          have hset1 : ∀ r2 ∈ rs, ∀ v ∈ view (markRemoved syn r.lineId).stmts, v.id = r2.lineId → MarkerSettable v.suffix := by
            intro r2 hr2 v hv hvid
            exact hset r2 (List.mem_cons_of_mem _ hr2) v ((hview v).1 hv).1 hvid
          rcases ih _ _ _ _ _ _ (hg.sublist hsub) (fun r2 hr2 => hlive r2 (List.mem_cons_of_mem _ hr2)) hw1 hm1' hset1 hr
            with ⟨r1, r2⟩
          refine ⟨r1, ?_⟩
          rw [List.append_assoc] at r2
          exact r2

theorem foldl_addNewRequire_inv (ws : List Want) : ∀ e : EFile, Inv e → (∀ w ∈ ws, w.path ≠ []) →
    Inv (ws.foldl (fun e w => addNewRequire e w.path w.vers w.indirect) e) := by
  induction ws with
  | nil => intro e hi _; exact hi
  | cons w ws ih =>
    intro e hi hne
    exact ih _ (addNewRequire_inv e w.path w.vers w.indirect (hne w List.mem_cons_self) hi)
      (fun x hx => hne x (List.mem_cons_of_mem _ hx))

/-- **SetRequire preserves the tree invariant** — when every typed requirement is live (a Cleanup has just run, as the
    property prescribes) and every requirement line's indirect marker can be set as requested (`MarkerSettable`, which
    excludes exactly the recorded finding `C16_violated_indirect_marker_survives`). -/
theorem setRequire_inv (e e' : EFile) (req : List Want) (perm : List Want → List Want) (hperm : ∀ l, (perm l).Perm l)
    (hg : GoodWant req) (hi : Inv e) (hlive : ∀ r ∈ e.f.require, liveRq r = true)
    (hset : ∀ r ∈ e.f.require, ∀ v ∈ view e.f.syn.stmts, v.id = r.lineId → MarkerSettable v.suffix)
    (h : setRequire e req perm = .ok e') : Inv e' := by
  unfold setRequire at h
  rw [needMap_distinct true req [] (by simpa using hg.1)] at h
  simp only [bind, Except.bind, List.nil_append] at h
  cases hr : setRequireLoop e.f.require req e.f.syn with
  | error err => simp [hr] at h
  | ok res =>
    rcases res with ⟨rq, need', syn'⟩
    simp only [hr, pure, Except.pure, Except.ok.injEq] at h
    subst h
    rcases setRequireLoop_abs _ _ _ _ _ _ hg hr with ⟨_, hsub⟩
    rcases setRequireLoop_inv (A := segA_require e.f) (C := segC_require e.f) e.next e.f.require [] req e.f.syn rq need' syn'
      hg hlive hi.tree (by simp only [List.nil_append]; rw [← entries_require]; exact hi.mtch) hset hr with ⟨hw', hm'⟩
    have hi1 : Inv (⟨{ e.f with require := rq, syn := syn' }, e.next⟩ : EFile) := by
      refine ⟨hw', ?_, hi.tinv.of_same rfl rfl rfl (Nat.le_refl _)⟩
      simp only [List.nil_append] at hm'
      rw [entries_require]; exact hm'
    have hne : ∀ w ∈ perm need', w.path ≠ [] := fun w hw => hg.2 w (hsub.subset ((hperm need').subset hw))
    exact sortBlocks_inv _ (foldl_addNewRequire_inv (perm need') _ hi1 hne)

/-! ### the requirement lines of the tree after SetRequire -/

theorem verbs_ne_require : B "module" ≠ B "require" ∧ B "go" ≠ B "require" ∧ B "toolchain" ≠ B "require" ∧
    B "godebug" ≠ B "require" ∧ B "exclude" ≠ B "require" ∧ B "replace" ≠ B "require" ∧ B "retract" ≠ B "require" ∧
    B "tool" ≠ B "require" := by decide +kernel

/-- with the invariant, a live line whose verb is `require` is the line of a live typed requirement -/
theorem Inv.require_line_entry {e : EFile} (hi : Inv e) (v : VLine) (hv : v ∈ view e.f.syn.stmts)
    (hverb : v.toks.head? = some (B "require")) :
    ∃ r ∈ e.f.require, liveRq r = true ∧ r.lineId = v.id ∧ v.toks = [B "require", autoQuote r.mod.path, r.mod.version] ∧
      isIndirectS v.suffix = r.indirect := by
  rcases hi.line_entry v hv with ⟨en, hen, hid, hacc⟩
  rcases verbs_ne_require with ⟨n1, n2, n3, n4, n5, n6, n7, n8⟩
  simp only [entries, List.mem_append, List.mem_map, Option.mem_toList, entsOf, List.mem_filter] at hen
  rcases hen with ⟨x, _, rfl⟩ | ⟨x, _, rfl⟩ | ⟨x, _, rfl⟩ | ⟨x, _, rfl⟩ | ⟨x, hx, rfl⟩ | ⟨x, _, rfl⟩ | ⟨x, _, rfl⟩ |
    ⟨x, _, rfl⟩ | ⟨x, _, rfl⟩
  · simp only [entM] at hacc; rw [hacc] at hverb; simp at hverb; exact absurd hverb n1
  · simp only [entGo] at hacc; rw [hacc] at hverb; simp at hverb; exact absurd hverb n2
  · simp only [entTc] at hacc; rw [hacc] at hverb; simp at hverb; exact absurd hverb n3
  · simp only [entG] at hacc; rw [hacc] at hverb; simp at hverb; exact absurd hverb n4
  · exact ⟨x, hx.1, hx.2, hid, hacc.1, hacc.2⟩
  · simp only [entX] at hacc; rw [hacc] at hverb; simp at hverb; exact absurd hverb n5
  · simp only [entRp, replaceToks] at hacc; rw [hacc] at hverb; simp at hverb; exact absurd hverb n6
  · simp only [entRt] at hacc
    rcases hacc with ⟨x', h1, _⟩ | ⟨x', y', h1, _⟩ <;> rw [h1] at hverb <;> simp at hverb <;> exact absurd hverb n7
  · simp only [entT] at hacc
    rcases hacc with ⟨x', h1, _⟩; rw [h1] at hverb; simp at hverb; exact absurd hverb n8

/-- **SetRequire on the tree** (C16 at the level of the syntax tree): after `SetRequire want` and Cleanup, for every
    requested entry there is a live line `require <path> <version>` carrying the indirect marker iff requested, and
    every live `require` line of the tree is the line of a requested entry -/
theorem setRequire_tree_exact (e e' : EFile) (want : List Want) (perm : List Want → List Want) (hperm : ∀ l, (perm l).Perm l)
    (hg : GoodWant want) (hi : Inv e) (hlive : ∀ r ∈ e.f.require, liveRq r = true)
    (hset : ∀ r ∈ e.f.require, ∀ v ∈ view e.f.syn.stmts, v.id = r.lineId → MarkerSettable v.suffix)
    (h : setRequire e want perm = .ok e') :
    Inv (cleanup e') ∧
    (∀ w ∈ want, ∃ v ∈ view (cleanup e').f.syn.stmts, v.toks = [B "require", autoQuote w.path, w.vers] ∧
      isIndirectS v.suffix = w.indirect) ∧
    (∀ v ∈ view (cleanup e').f.syn.stmts, v.toks.head? = some (B "require") →
      ∃ w ∈ want, v.toks = [B "require", autoQuote w.path, w.vers] ∧ isIndirectS v.suffix = w.indirect) := by
  have hi' := cleanup_inv e' (setRequire_inv e e' want perm hperm hg hi hlive hset h)
  rcases setRequire_exact e e' want perm hperm hg hi.tinv h with ⟨hp, _, hsub⟩
  refine ⟨hi', ?_, ?_⟩
  · intro w hw
    have hmem : w.toReq ∈ (absOf (cleanup e').f).require := hp.symm.subset (List.mem_map.2 ⟨w, hw, rfl⟩)
    simp only [absOf, List.mem_map] at hmem
    rcases hmem with ⟨r, hr, hreq⟩
    simp only [Want.toReq, EditSpec.Req.mk.injEq] at hreq
    have hl : r.mod.path ≠ [] := by rw [hreq.1]; exact hg.2 w hw
    rcases hi'.require_line r hr hl with ⟨v, hv, _, htoks, hind⟩
    exact ⟨v, hv, by rw [htoks, hreq.1, hreq.2.1], by rw [hind, hreq.2.2]⟩
  · intro v hv hverb
    rcases hi'.require_line_entry v hv hverb with ⟨r, hr, _, _, htoks, hind⟩
    have hmem : (⟨r.mod.path, r.mod.version, r.indirect⟩ : EditSpec.Req) ∈ (absOf (cleanup e').f).require := by
      simp only [absOf, List.mem_map]; exact ⟨r, hr, rfl⟩
    rcases hsub _ hmem with ⟨w, hw, heq⟩
    simp only [Want.toReq, EditSpec.Req.mk.injEq] at heq
    exact ⟨w, hw, by rw [htoks, heq.1, heq.2.1], by rw [hind, heq.2.2]⟩

/-- no requirement line of the file has a comment whose text after `indirect;` is again an indirect marker (more
    precisely: `setIndirect` achieves what it is asked for on every requirement line) -/
def NoNestedIndirectMarker (e : EFile) : Prop :=
  ∀ r ∈ e.f.require, ∀ v ∈ view e.f.syn.stmts, v.id = r.lineId → MarkerSettable v.suffix

/-- a Boolean test implying `NoNestedIndirectMarker` (all lines, not only requirement lines) -/
theorem NoNestedIndirectMarker.of_all (e : EFile)
    (h : (view e.f.syn.stmts).all (fun v => decide (MarkerSettable v.suffix)) = true) : NoNestedIndirectMarker e := by
  intro r _ v hv _
  have := List.all_eq_true.1 h v hv
  simpa using this

end ModVerif.Modfile.Edit
