/-
  EditWork, part 9 — **C16 `perm_independent` (full) for SetRequire and SetUse**: `Format` does not look at line ids
  (`format_norm`), Cleanup commutes with erasing them (`cleanupStmts_norm`), the operations keep the file header; with the
  tree-level theorems of Proofs/EditWorkPermC.lean: the formatted file is the same byte string for every map-iteration order,
  before and after Cleanup.
-/
import ModVerif.Proofs.EditWorkPermC
import ModVerif.Model.Modfile.Print
set_option linter.unusedSimpArgs false
namespace ModVerif.Modfile.Edit
open ModVerif ModVerif.Modfile

/-! ### the printer does not look at line ids -/

theorem normLine_comments (n : Nat) (l : Line) : (normLine n l).comments = l.comments := by
  unfold normLine; split <;> rfl

theorem exprLine_norm (n : Nat) (p : Printer) (l : Line) : p.exprLine (normLine n l) = p.exprLine l := by
  unfold normLine; split <;> rfl

theorem exprLines_norm (n : Nat) : ∀ (ls : List Line) (p : Printer), p.exprLines (ls.map (normLine n)) = p.exprLines ls := by
  intro ls
  induction ls with
  | nil => intro p; rfl
  | cons l ls ih => intro p; simp only [List.map_cons, Printer.exprLines, exprLine_norm, ih]

theorem expr_norm (n : Nat) (p : Printer) (x : Expr) : p.expr (normStmt n x) = p.expr x := by
  cases x with
  | line l => exact exprLine_norm n p l
  | lineBlock b => simp only [normStmt, Printer.expr, Printer.exprLineBlock, exprLines_norm]
  | commentBlock c => rfl
  | lparen c => rfl
  | rparen c => rfl

theorem comments_norm (n : Nat) (x : Expr) : (normStmt n x).comments = x.comments := by
  cases x with
  | line l => simp only [normStmt, Expr.comments, normLine]; split <;> rfl
  | lineBlock b => rfl
  | commentBlock c => rfl
  | lparen c => rfl
  | rparen c => rfl

theorem stmtHead_norm (n : Nat) (p : Printer) (x : Expr) :
    (match normStmt n x with
      | .commentBlock c => p.exprCommentBlock c
      | s => (p.expr s).newline) =
    (match x with
      | .commentBlock c => p.exprCommentBlock c
      | s => (p.expr s).newline) := by
  cases x with
  | line l =>
    show (p.expr (.line (normLine n l))).newline = (p.expr (.line l)).newline
    rw [show p.expr (.line (normLine n l)) = p.expr (.line l) from exprLine_norm n p l]
  | lineBlock b =>
    show (p.expr (normStmt n (.lineBlock b))).newline = _
    rw [expr_norm]
  | commentBlock c => rfl
  | lparen c => rfl
  | rparen c => rfl

theorem stmts_norm (n : Nat) : ∀ (xs : List Expr) (p : Printer), p.stmts (xs.map (normStmt n)) = p.stmts xs := by
  intro xs
  induction xs with
  | nil => intro p; rfl
  | cons x xs ih =>
    intro p
    cases x with
    | commentBlock c => simp only [List.map_cons, normStmt, Printer.stmts, List.isEmpty_map, ih]
    | lparen c => simp only [List.map_cons, normStmt, Printer.stmts, List.isEmpty_map, ih]
    | rparen c => simp only [List.map_cons, normStmt, Printer.stmts, List.isEmpty_map, ih]
    | line l =>
      simp only [List.map_cons, normStmt, Printer.stmts, List.isEmpty_map, ih, Printer.expr, exprLine_norm, Expr.comments,
        normLine_comments]
    | lineBlock b =>
      simp only [List.map_cons, normStmt, Printer.stmts, List.isEmpty_map, ih, Printer.expr, Printer.exprLineBlock,
        exprLines_norm, Expr.comments]

/-- **`Format` does not depend on the line ids** -/
theorem format_norm (n : Nat) (fs : FileSyntax) : format { fs with stmts := fs.stmts.map (normStmt n) } = format fs := by
  simp only [format, Printer.file, stmts_norm]

theorem format_eq_of_norm (n : Nat) (a b : FileSyntax) (hc : a.comments = b.comments)
    (hs : a.stmts.map (normStmt n) = b.stmts.map (normStmt n)) : format a = format b := by
  rw [← format_norm n a, ← format_norm n b]
  simp only [format, Printer.file, hc, hs]

/-! ### Cleanup commutes with erasing ids -/

theorem normLine_token_isEmpty (n : Nat) (l : Line) : (normLine n l).token.isEmpty = l.token.isEmpty := by
  rw [normLine_token]

theorem normLine_collapse (n : Nat) (b : LineBlock) (l : Line) :
    normLine n { id := l.id, comments := { before := b.comments.before ++ l.comments.before,
                                            suffix := l.comments.suffix ++ b.comments.suffix,
                                            after := l.comments.after ++ b.comments.after },
                 token := b.token ++ l.token }
      = { id := (normLine n l).id, comments := { before := b.comments.before ++ (normLine n l).comments.before,
                                                  suffix := (normLine n l).comments.suffix ++ b.comments.suffix,
                                                  after := (normLine n l).comments.after ++ b.comments.after },
          token := b.token ++ (normLine n l).token } := by
  unfold normLine; split <;> rfl

theorem cleanupStmts_norm (n : Nat) : ∀ xs : List Expr,
    cleanupStmts (xs.map (normStmt n)) = (cleanupStmts xs).map (normStmt n) := by
  intro xs
  induction xs with
  | nil => rfl
  | cons x xs ih =>
    cases x with
    | line l =>
      simp only [List.map_cons, normStmt, cleanupStmts, normLine_token_isEmpty]
      split <;> simp [ih, normStmt]
    | lineBlock b =>
      have hf : (b.lines.map (normLine n)).filter (fun l => !l.token.isEmpty)
          = (b.lines.filter (fun l => !l.token.isEmpty)).map (normLine n) := by
        rw [List.filter_map]
        congr 1
        apply List.filter_congr
        intro l _
        simp only [Function.comp, normLine_token_isEmpty]
      simp only [List.map_cons, normStmt, cleanupStmts, hf]
      rcases hl : b.lines.filter (fun l => !l.token.isEmpty) with _ | ⟨l1, _ | ⟨l2, ls⟩⟩
      · simp only [hl, List.map_nil, ih]
      · simp only [hl, List.map_cons, List.map_nil]
        split
        · simp only [List.map_cons, normStmt, ih, normLine_collapse]
        · simp only [List.map_cons, normStmt, ih, List.map_nil]
      · simp only [hl, List.map_cons, normStmt, ih]
    | commentBlock c => simp only [List.map_cons, normStmt, cleanupStmts, ih]
    | lparen c => simp only [List.map_cons, normStmt, cleanupStmts, ih]
    | rparen c => simp only [List.map_cons, normStmt, cleanupStmts, ih]

/-! ### the operations keep the file header -/

theorem addLine_hdr (fs : FileSyntax) (hint : Option Nat) (t : List Bytes) (new : Nat) :
    (addLine fs hint t new).comments = fs.comments := by
  unfold addLine
  cases hint with
  | some id =>
    dsimp only
    split <;> rfl
  | none =>
    dsimp only
    cases lastStmtWith (t.head?.getD []) fs.stmts 0 none with
    | none => rfl
    | some i =>
      dsimp only
      split <;> rfl

theorem setRequireLoop_hdr (rs : List Require) : ∀ (need : List Want) (syn : FileSyntax) (rs' : List Require) (need' : List Want)
    (syn' : FileSyntax), setRequireLoop rs need syn = .ok (rs', need', syn') → syn'.comments = syn.comments := by
  induction rs with
  | nil =>
    intro need syn rs' need' syn' h
    simp only [setRequireLoop, Except.ok.injEq, Prod.mk.injEq] at h
    rw [← h.2.2]
  | cons r rs ih =>
    intro need syn rs' need' syn' h
    unfold setRequireLoop at h
    cases hf : need.find? (fun a => a.path == r.mod.path) with
    | some w =>
      simp only [hf, bind, Except.bind] at h
      cases hd : deref r.lineId with
      | error err => simp [hd] at h
      | ok i =>
        simp only [hd] at h
        cases hr : setRequireLoop rs (need.filter (fun a => a.path != r.mod.path))
            (syn.updateLine i (fun l => setIndirectLine w.indirect (setVersionLine w.vers l))) with
        | error err => simp [hr] at h
        | ok res =>
          rcases res with ⟨rs'', need'', syn''⟩
          simp only [hr, pure, Except.pure, Except.ok.injEq, Prod.mk.injEq] at h
          rw [← h.2.2, ih _ _ _ _ _ hr]; rfl
    | none =>
      simp only [hf, bind, Except.bind] at h
      cases hd : deref r.lineId with
      | error err => simp [hd] at h
      | ok i =>
        simp only [hd] at h
        cases hr : setRequireLoop rs (need.filter (fun a => !a.path.isEmpty)) (markRemoved syn i) with
        | error err => simp [hr] at h
        | ok res =>
          rcases res with ⟨rs'', need'', syn''⟩
          simp only [hr, pure, Except.pure, Except.ok.injEq, Prod.mk.injEq] at h
          rw [← h.2.2, ih _ _ _ _ _ hr]; rfl

theorem foldl_addNewRequire_hdr (ws : List Want) : ∀ e : EFile,
    (ws.foldl (fun e w => addNewRequire e w.path w.vers w.indirect) e).f.syn.comments = e.f.syn.comments := by
  induction ws with
  | nil => intro e; rfl
  | cons w ws ih =>
    intro e
    simp only [List.foldl_cons]
    rw [ih]
    show ((addLine e.f.syn none _ e.next).updateLine e.next _).comments = _
    exact addLine_hdr _ _ _ _

theorem sortBlocks_hdr (e : EFile) : (sortBlocks e).f.syn.comments = e.f.syn.comments := by
  rw [sortBlocks_eq_sem]

theorem setRequire_hdr (e e' : EFile) (want : List Want) (perm : List Want → List Want) (h : setRequire e want perm = .ok e') :
    e'.f.syn.comments = e.f.syn.comments := by
  unfold setRequire at h
  simp only [bind, Except.bind] at h
  cases hn : needMap true want [] with
  | error err => simp [hn] at h
  | ok need =>
    simp only [hn] at h
    cases hr : setRequireLoop e.f.require need e.f.syn with
    | error err => simp [hr] at h
    | ok res =>
      rcases res with ⟨rq, need', syn'⟩
      simp only [hr, pure, Except.pure, Except.ok.injEq] at h
      subst h
      rw [sortBlocks_hdr, foldl_addNewRequire_hdr]
      exact setRequireLoop_hdr _ _ _ _ _ _ hr

theorem setUseLoop_hdr (us : List Use) : ∀ (need : List (Bytes × Bytes)) (syn : FileSyntax) (us' : List Use)
    (need' : List (Bytes × Bytes)) (syn' : FileSyntax), setUseLoop us need syn = .ok (us', need', syn') →
    syn'.comments = syn.comments := by
  induction us with
  | nil =>
    intro need syn us' need' syn' h
    simp only [setUseLoop, Except.ok.injEq, Prod.mk.injEq] at h
    rw [← h.2.2]
  | cons d ds ih =>
    intro need syn us' need' syn' h
    unfold setUseLoop at h
    cases hf : need.find? (fun a => a.1 == d.path) with
    | some w =>
      simp only [hf, bind, Except.bind] at h
      cases hr : setUseLoop ds (need.filter (fun a => a.1 != d.path)) syn with
      | error err => simp [hr] at h
      | ok res =>
        rcases res with ⟨ds'', need'', syn''⟩
        simp only [hr, pure, Except.pure, Except.ok.injEq, Prod.mk.injEq] at h
        rw [← h.2.2, ih _ _ _ _ _ hr]
    | none =>
      simp only [hf, bind, Except.bind] at h
      cases hd : deref d.lineId with
      | error err => simp [hd] at h
      | ok i =>
        simp only [hd] at h
        cases hr : setUseLoop ds need (markRemoved syn i) with
        | error err => simp [hr] at h
        | ok res =>
          rcases res with ⟨ds'', need'', syn''⟩
          simp only [hr, pure, Except.pure, Except.ok.injEq, Prod.mk.injEq] at h
          rw [← h.2.2, ih _ _ _ _ _ hr]; rfl

theorem foldl_addNewUse_hdr (ws : List (Bytes × Bytes)) : ∀ e : EWork,
    (ws.foldl (fun e w => addNewUse e w.1 w.2) e).f.syn.comments = e.f.syn.comments := by
  induction ws with
  | nil => intro e; rfl
  | cons w ws ih =>
    intro e
    simp only [List.foldl_cons]
    rw [ih]
    exact addLine_hdr _ _ _ _

theorem workSortBlocks_hdr (e : EWork) : (workSortBlocks e).f.syn.comments = e.f.syn.comments := by
  simp [workSortBlocks, Edit.removeDups]

theorem setUse_hdr (e e' : EWork) (dirs : List (Bytes × Bytes)) (perm : List (Bytes × Bytes) → List (Bytes × Bytes))
    (h : setUse e dirs perm = .ok e') : e'.f.syn.comments = e.f.syn.comments := by
  unfold setUse at h
  simp only [bind, Except.bind] at h
  cases hr : setUseLoop e.f.use (useNeedMap dirs []) e.f.syn with
  | error err => simp [hr] at h
  | ok res =>
    rcases res with ⟨us, need', syn'⟩
    simp only [hr, pure, Except.pure, Except.ok.injEq] at h
    subst h
    rw [workSortBlocks_hdr, foldl_addNewUse_hdr]
    exact setUseLoop_hdr _ _ _ _ _ _ hr

/-! ### the formatted file -/

/-- **C16 `perm_independent` (full), SetRequire**: the formatted file is the same byte string for every map-iteration order,
    directly after the call and after Cleanup -/
theorem setRequire_format_perm_independent (e e1 e2 : EFile) (want : List Want) (p1 p2 : List Want → List Want)
    (hp1 : ∀ l, (p1 l).Perm l) (hp2 : ∀ l, (p2 l).Perm l) (hg : GoodWant want) (hi : Inv e)
    (hlive : ∀ r ∈ e.f.require, liveRq r = true) (hset : NoNestedIndirectMarker e)
    (h1 : setRequire e want p1 = .ok e1) (h2 : setRequire e want p2 = .ok e2) :
    format e1.f.syn = format e2.f.syn ∧ format (cleanup e1).f.syn = format (cleanup e2).f.syn := by
  have ht := setRequire_tree_perm_independent e e1 e2 want p1 p2 hp1 hp2 hg hi hlive hset h1 h2
  have hc : e1.f.syn.comments = e2.f.syn.comments := by rw [setRequire_hdr e e1 want p1 h1, setRequire_hdr e e2 want p2 h2]
  refine ⟨format_eq_of_norm e.next _ _ hc ht, format_eq_of_norm e.next _ _ hc ?_⟩
  show (cleanupStmts e1.f.syn.stmts).map (normStmt e.next) = (cleanupStmts e2.f.syn.stmts).map (normStmt e.next)
  rw [← cleanupStmts_norm, ← cleanupStmts_norm, ht]

/-- **C16 `perm_independent` (full), SetUse** -/
theorem setUse_format_perm_independent (e e1 e2 : EWork) (dirs : List (Bytes × Bytes))
    (q1 q2 : List (Bytes × Bytes) → List (Bytes × Bytes)) (hq1 : ∀ l, (q1 l).Perm l) (hq2 : ∀ l, (q2 l).Perm l)
    (hg : GoodUse dirs) (hi : InvW e) (hlive : ∀ u ∈ e.f.use, liveU u = true)
    (h1 : setUse e dirs q1 = .ok e1) (h2 : setUse e dirs q2 = .ok e2) :
    format e1.f.syn = format e2.f.syn ∧ format (workCleanup e1).f.syn = format (workCleanup e2).f.syn := by
  have ht := setUse_tree_perm_independent e e1 e2 dirs q1 q2 hq1 hq2 hg hi hlive h1 h2
  have hc : e1.f.syn.comments = e2.f.syn.comments := by rw [setUse_hdr e e1 dirs q1 h1, setUse_hdr e e2 dirs q2 h2]
  refine ⟨format_eq_of_norm e.next _ _ hc ht, format_eq_of_norm e.next _ _ hc ?_⟩
  show (cleanupStmts e1.f.syn.stmts).map (normStmt e.next) = (cleanupStmts e2.f.syn.stmts).map (normStmt e.next)
  rw [← cleanupStmts_norm, ← cleanupStmts_norm, ht]

end ModVerif.Modfile.Edit
