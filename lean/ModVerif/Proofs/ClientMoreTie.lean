/-
  ClientMore, part 9 — tie between `ClientFetch.lookupFile` (the key used in `Props.C14.fetch_once`) and the sequential
  client model: `Client.lookup` of Model/Client.lean consults its record cache under exactly `lookupFile`, and the work
  function (`lookupWork`: the only place where the lookup file is read from cache or network) is run with that file.
-/
import ModVerif.Model.Client
import ModVerif.Proofs.ClientMoreFetch
namespace ModVerif.ClientFetch
open ModVerif ModVerif.Client

variable {σ H : Type} [DecidableEq H]

theorem trimGoMod_eq (v : Bytes) : trimGoMod v = Client.trimGoMod v := rfl

/-- `Client.lookup`, rewritten over `lookupFile`: the request is rejected with the escape error iff `lookupFile` is
`none`; otherwise the record cache is consulted under `lookupFile`, and on a miss `lookupWork` runs with that file (and
the remote path obtained by dropping the client name). -/
theorem lookup_eq_via_lookupFile (P : Client.Params H) (E : Env σ) (w : World σ H) (path vers : Bytes) :
    Client.lookup P E w path vers =
      if Module.matchPrefixPatterns P.glob P.nosumdb path then ((.error .gonosumdb, w) : Except Err (List Bytes) × World σ H) else
      let w := Client.init P E w
      match w.c.inited with
      | some (some e) => (.error e, w)
      | _ =>
        match lookupFile P.isLetter w.c.name path vers with
        | none => (.error .escape, w)
        | some file =>
          let res : Except Err Bytes × World σ H :=
            match w.c.record.lookup file with
            | some r => (r, w)
            | none =>
              let r := lookupWork P E w file (file.drop w.c.name.length)
              (r.1, { r.2 with c := { r.2.c with record := (file, r.1) :: r.2.c.record } })
          match res.1 with
          | .error e => (.error e, res.2)
          | .ok data => (.ok (filterLines (path ++ [32] ++ vers ++ [32]) data), res.2) := by
  unfold Client.lookup lookupFile
  by_cases hm : Module.matchPrefixPatterns P.glob P.nosumdb path = true
  · simp only [hm, if_true]
  · simp only [hm, if_false, Bool.false_eq_true]
    generalize Client.init P E w = w'
    have key : ∀ (x : Except Module.EscErr Bytes) (y : Except Module.EscErr Bytes),
        x = Module.escapePath path → y = Module.escapeVersion P.isLetter (trimGoMod vers) →
        (match x with
          | .error _ => ((.error .escape, w') : Except Err (List Bytes) × World σ H)
          | .ok epath =>
            match y with
            | .error _ => (.error .escape, w')
            | .ok evers =>
              let remotePath := B "/lookup/" ++ epath ++ [64] ++ evers
              let file := w'.c.name ++ remotePath
              let res : Except Err Bytes × World σ H :=
                match w'.c.record.lookup file with
                | some r => (r, w')
                | none =>
                  let r := lookupWork P E w' file remotePath
                  (r.1, { r.2 with c := { r.2.c with record := (file, r.1) :: r.2.c.record } })
              match res.1 with
              | .error e => (.error e, res.2)
              | .ok data => (.ok (filterLines (path ++ [32] ++ vers ++ [32]) data), res.2)) =
        (match (match x with
              | .error _ => none
              | .ok epath =>
                match y with
                | .error _ => none
                | .ok evers => some (w'.c.name ++ (B "/lookup/" ++ epath ++ [64] ++ evers))) with
          | none => (.error .escape, w')
          | some file =>
            let res : Except Err Bytes × World σ H :=
              match w'.c.record.lookup file with
              | some r => (r, w')
              | none =>
                let r := lookupWork P E w' file (file.drop w'.c.name.length)
                (r.1, { r.2 with c := { r.2.c with record := (file, r.1) :: r.2.c.record } })
            match res.1 with
            | .error e => (.error e, res.2)
            | .ok data => (.ok (filterLines (path ++ [32] ++ vers ++ [32]) data), res.2)) := by
      intro x y _ _
      cases x with
      | error a => rfl
      | ok ep =>
        cases y with
        | error a => rfl
        | ok ev => simp only [List.drop_left']
    have k := key _ _ rfl rfl
    rcases hi : w'.c.inited with _ | (_ | e)
    · exact k
    · exact k
    · rfl

end ModVerif.ClientFetch
