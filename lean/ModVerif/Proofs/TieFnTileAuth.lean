/-
  Tie proofs for sumdb/tlog/tile.go, part 8: the AUTHENTICATION and EXTRACTION phases of `tileHashReader.ReadHashes`
  (loops 5–8 of the generated code = `widthsOk`, `stxFold`, `authChildren`, `extract` of the model).

  Tile data: the generated code holds `data : List Bytes` (flat bytes per tile), the model `List (List H)`.
  `unflatS ofBytes b` is `unflat ofBytes b` when `len(b)` is a multiple of `HashSize` and `[]` otherwise (such a tile
  fails the code's length check `len(data[i]) != tile.W*HashSize` and the model's width check alike, `W ≥ 1`).
-/
import ModVerif.Proofs.TieFnTilePlan
import ModVerif.Proofs.TieFnTileHash
set_option linter.unusedSimpArgs false
namespace ModVerif.TieFnTile
open ModVerif ModVerif.GoRt ModVerif.GoRtTile ModVerif.TieFnTlogInt

/-- flat tile data as the model sees it -/
def unflatS {H : Type} (ofBytes : Bytes → H) (b : Bytes) : List H :=
  if b.length % 32 = 0 then unflat ofBytes b else []

theorem unflatS_length_iff {H : Type} (ofBytes : Bytes → H) (b : Bytes) (w : Nat) (hw : 1 ≤ w) :
    (unflatS ofBytes b).length = w ↔ b.length = 32 * w := by
  unfold unflatS
  split
  · rw [unflat_length]; omega
  · simp only [List.length_nil]; omega

theorem unflatS_eq {H : Type} (ofBytes : Bytes → H) (b : Bytes) (w : Nat) (h : b.length = 32 * w) :
    unflatS ofBytes b = unflat ofBytes b := by
  unfold unflatS
  rw [if_pos (by omega)]

/-- every tile's data has exactly `W * HashSize` bytes -/
def WidthsOK (tiles : List Tile.Tile) (data : List Bytes) : Prop :=
  data.length = tiles.length ∧ ∀ i (h1 : i < tiles.length) (h2 : i < data.length), data[i].length = 32 * tiles[i].w

/-- what the authentication loops need to know about the planned tiles -/
structure PlanFacts (h N : Nat) (tiles : List Tile.Tile) (order : List (Tile.Tile × Nat)) (nstx : Nat) : Prop where
  ok : ∀ t ∈ tiles, TfiOK h N t
  w1 : ∀ t ∈ tiles, 1 ≤ t.w ∧ t.w ≤ 2 ^ h
  look : TileAuth.Look tiles order
  child : ∀ i t, nstx ≤ i → tiles[i]? = some t →
    t.w = 2 ^ h ∧ Tlog.storedHashIndex ((t.l + 1) * h) t.n + 1 < 2 ^ 63

/-- the three error texts of `HashFromTile` -/
def HftMsg (msg : String) : Prop :=
  msg = "invalid tile %v" ∨ msg = "data len %d too short for tile %v" ∨ msg = "index %v is in %v not %v"

theorem hftMsg_ok (t : Tile.Tile) (n : Nat) : HftMsg (hftMsg t n) := by
  unfold hftMsg HftMsg
  split
  · left; rfl
  · split
    · right; left; rfl
    · right; right; rfl

section
variable {H : Type} [DecidableEq H] [Inhabited H] (node : H → H → H) (ofBytes : Bytes → H)

omit [DecidableEq H] [Inhabited H] in
/-- on an int64 index `hashFromTile` either succeeds or reports `badTile` (no panic, no fuel) -/
theorem hashFromTile_cases (t : Tile.Tile) (d : List H) (x : Nat) (hx : x + 1 < 2 ^ 63) :
    (∃ v, Tile.hashFromTile node t d x = .ok v) ∨ Tile.hashFromTile node t d x = .error .badTile := by
  unfold Tile.hashFromTile
  split
  · right; rfl
  · rename_i hinv
    split
    · right; rfl
    · rename_i hlen
      simp only [Bool.or_eq_true, decide_eq_true_eq, not_or, Nat.not_lt] at hinv
      obtain ⟨⟨⟨⟨⟨h1, _⟩, _⟩, _⟩, _⟩, hw⟩ := hinv
      obtain ⟨lv, k, hs⟩ := TlogStore.split_total x (by omega)
      have hcl := TileAuth.tileForIndex_eq t.h x lv k (by omega) hs
      rw [hcl]
      simp only [bind, Except.bind]
      split
      · right; rfl
      · rename_i hmis
        left
        simp only [Bool.or_eq_true, bne_iff_ne, ne_eq, decide_eq_true_eq, not_or, Decidable.not_not, Nat.not_lt] at hmis
        obtain ⟨⟨_, _⟩, hwe⟩ := hmis
        have hlen2 : ((d.take ((k % 2 ^ (t.h - lv % t.h) + 1) * 2 ^ (lv % t.h))).drop
            (k % 2 ^ (t.h - lv % t.h) * 2 ^ (lv % t.h))).length = 2 ^ (lv % t.h) := by
          rw [List.length_drop, List.length_take, Nat.add_mul, Nat.one_mul]
          rw [Nat.add_mul, Nat.one_mul] at hwe
          have hp := Nat.two_pow_pos (lv % t.h)
          generalize k % 2 ^ (t.h - lv % t.h) * 2 ^ (lv % t.h) = S at hwe ⊢
          generalize 2 ^ (lv % t.h) = P at hwe hp ⊢
          omega
        obtain ⟨r, hr⟩ := TileAuth.ptree_isSome node (lv % t.h) _ hlen2
        exact ⟨r, TileAuth.tileHash_ptree node (lv % t.h) _ r hlen2 hr⟩

/-- the `HashFromTile(tiles[j], data[j], x)` of the authentication loops -/
theorem hft_at (fuel : Nat) (tiles : List Tile.Tile) (data : List Bytes) (hw : WidthsOK tiles data) (j x : Nat)
    (hj : j < tiles.length) (hx : x + 1 < 2 ^ 63) (hf : 64 ≤ fuel) :
    ∃ (gt : GTile) (d : Bytes), idxL (tiles.map toGen) (j : Int) = .ok gt ∧ idxL data (j : Int) = .ok d ∧
      ∃ n, Generated.Tile.HashFromTile node ofBytes fuel gt d (x : Int) =
        .ok (hftOut tiles[j] n (Tile.hashAt node tiles (data.map (unflatS ofBytes)) j x)) := by
  obtain ⟨hl, hwi⟩ := hw
  have hj2 : j < data.length := by omega
  refine ⟨toGen tiles[j], data[j], ?_, idxL_natCast' hj2, data[j].length / 32, ?_⟩
  · rw [idxL_natCast' (by simp; exact hj)]; simp
  · rw [HashFromTile_eq node ofBytes fuel tiles[j] data[j] x hx hf]
    unfold Tile.hashAt
    have e1 : tiles[j]? = some tiles[j] := List.getElem?_eq_getElem hj
    have e2 : (data.map (unflatS ofBytes))[j]? = some (unflat ofBytes data[j]) := by
      rw [List.getElem?_map, List.getElem?_eq_getElem hj2, Option.map_some, unflatS_eq ofBytes _ _ (hwi j hj hj2)]
    rw [e1, e2]

omit [DecidableEq H] [Inhabited H] in
/-- a read at a valid position of width-checked data succeeds or reports `badTile` -/
theorem hashAt_cases (tiles : List Tile.Tile) (data : List Bytes) (hw : WidthsOK tiles data) (j x : Nat)
    (hj : j < tiles.length) (hx : x + 1 < 2 ^ 63) :
    (∃ v, Tile.hashAt node tiles (data.map (unflatS ofBytes)) j x = .ok v) ∨
      Tile.hashAt node tiles (data.map (unflatS ofBytes)) j x = .error .badTile := by
  have hjd : j < (data.map (unflatS ofBytes)).length := by simp; rw [hw.1]; exact hj
  unfold Tile.hashAt
  rw [List.getElem?_eq_getElem hj, List.getElem?_eq_getElem hjd]
  exact hashFromTile_cases node _ _ x hx

variable (effLog : List (List GTile × List Bytes))

/-! ### loop 5: the width check -/

theorem loop5_eq (tiles : List Tile.Tile) (data : List Bytes) (hl : data.length = tiles.length)
    (hw1 : ∀ t ∈ tiles, 1 ≤ t.w ∧ 32 * t.w < 2 ^ 63) :
    ∀ (d i fuel : Nat), i + d = tiles.length → d < fuel →
    Generated.Tile.tileHashReader_ReadHashes_loop5 node ofBytes (tiles.map toGen) data effLog fuel (i : Int) =
      .ok (if Tile.widthsOk (tiles.drop i) ((data.map (unflatS ofBytes)).drop i) = true then Ctl.next ((tiles.length : Nat) : Int)
        else Ctl.ret ((([] : List H), some "TileReader returned bad result slice (%v len=%d, want %d)"), effLog)) := by
  intro d
  induction d with
  | zero =>
    intro i fuel hi hf
    obtain ⟨g, rfl⟩ : ∃ g, fuel = g + 1 := ⟨fuel - 1, by omega⟩
    have e : i = tiles.length := by omega
    subst e
    have : ¬ (((tiles.length : Nat) : Int) < len (tiles.map toGen)) := by simp [len]
    rw [Generated.Tile.tileHashReader_ReadHashes_loop5]
    rw [List.drop_of_length_le (Nat.le_refl _), List.drop_of_length_le (by simp; omega)]
    simp only [this, decide_false, Bool.false_eq_true, ↓reduceIte, mpure, Tile.widthsOk]
  | succ d ih =>
    intro i fuel hi hf
    obtain ⟨g, rfl⟩ : ∃ g, fuel = g + 1 := ⟨fuel - 1, by omega⟩
    have hit : i < tiles.length := by omega
    have hid : i < data.length := by omega
    have hlt : ((i : Int) < len (tiles.map toGen)) := by simp [len]; omega
    have ht : idxL (tiles.map toGen) (i : Int) = .ok (toGen tiles[i]) := by
      rw [idxL_natCast' (by simp; exact hit)]; simp
    obtain ⟨hwa, hwb⟩ := hw1 tiles[i] (List.getElem_mem _)
    have hW : (toGen tiles[i]).W = (tiles[i].w : Int) := rfl
    have e32 : (tiles[i].w : Int) * 32 = ((32 * tiles[i].w : Nat) : Int) := by omega
    have e1 : (i : Int) + 1 = ((i + 1 : Nat) : Int) := by omega
    rw [Generated.Tile.tileHashReader_ReadHashes_loop5]
    simp only [hlt, decide_true, ↓reduceIte, ht, mbind_ok, idxL_natCast' hid, hW, e32, chk64_natCast hwb, e1]
    rw [ih (i + 1) g (by omega) (by omega)]
    rw [List.drop_eq_getElem_cons hit, List.drop_eq_getElem_cons (by simp; exact hid : i < (data.map (unflatS ofBytes)).length)]
    simp only [Tile.widthsOk, List.getElem_map]
    by_cases hlen : data[i].length = 32 * tiles[i].w
    · have h1 : (len data[i] = ((32 * tiles[i].w : Nat) : Int)) := by simp only [len, hlen]; rfl
      have h2 : ((unflatS ofBytes data[i]).length == tiles[i].w) = true := by
        rw [beq_iff_eq]; exact (unflatS_length_iff ofBytes _ _ hwa).mpr hlen
      simp only [h1, decide_true, Bool.not_true, Bool.false_eq_true, ↓reduceIte, h2, Bool.true_and]
    · have h1 : ¬ (len data[i] = ((32 * tiles[i].w : Nat) : Int)) := by
        simp only [len, Int.ofNat_eq_natCast]; omega
      have h2 : ((unflatS ofBytes data[i]).length == tiles[i].w) = false := by
        rw [beq_eq_false_iff_ne]; intro hc; exact hlen ((unflatS_length_iff ofBytes _ _ hwa).mp hc)
      simp only [h1, decide_false, Bool.not_false, ↓reduceIte, h2, Bool.false_and, Bool.false_eq_true, mpure]

omit [DecidableEq H] [Inhabited H] in
/-- the model's width check in the form the later loops use -/
theorem widthsOK_of_model (tiles : List Tile.Tile) (data : List Bytes) (hw1 : ∀ t ∈ tiles, 1 ≤ t.w)
    (h : Tile.widthsOk tiles (data.map (unflatS ofBytes)) = true) : WidthsOK tiles data := by
  obtain ⟨h1, h2⟩ := TileAuth.widthsOk_spec _ _ h
  simp only [List.length_map] at h1
  refine ⟨h1, ?_⟩
  intro i hi1 hi2
  have := h2 i tiles[i] (unflatS ofBytes data[i]) (List.getElem?_eq_getElem hi1) (by
    rw [List.getElem?_map, List.getElem?_eq_getElem hi2]; rfl)
  exact (unflatS_length_iff ofBytes _ _ (hw1 _ (List.getElem_mem _))).mp this

/-! ### loop 6: recomputing the tree hash -/

theorem loop6_eq (tiles : List Tile.Tile) (data : List Bytes) (hw : WidthsOK tiles data) (stx sto : List Nat)
    (hls : sto.length = stx.length) (hsl : stx.length < 2 ^ 63) (hsto : ∀ j ∈ sto, j < tiles.length)
    (hstx : ∀ x ∈ stx, x + 1 < 2 ^ 63) :
    ∀ (m fuel : Nat) (th : H), m ≤ stx.length → m + 64 ≤ fuel →
    match Tile.stxFold node tiles (data.map (unflatS ofBytes)) ((stx.zip sto).take m).reverse th with
    | .ok th' => Generated.Tile.tileHashReader_ReadHashes_loop6 node ofBytes (tiles.map toGen) (stx.map Int.ofNat)
        (sto.map Int.ofNat) data effLog fuel th ((m : Int) - 1) = .ok (Ctl.next (th', (-1 : Int)))
    | .error e => e = .badTile ∧ ∃ msg, HftMsg msg ∧ Generated.Tile.tileHashReader_ReadHashes_loop6 node ofBytes
        (tiles.map toGen) (stx.map Int.ofNat) (sto.map Int.ofNat) data effLog fuel th ((m : Int) - 1) =
          .ok (Ctl.ret ((([] : List H), some msg), effLog)) := by
  intro m
  induction m with
  | zero =>
    intro fuel th _ hf
    obtain ⟨g, rfl⟩ : ∃ g, fuel = g + 1 := ⟨fuel - 1, by omega⟩
    simp only [List.take_zero, List.reverse_nil, Tile.stxFold]
    have : ¬ (((0 : Nat) : Int) - 1 ≥ 0) := by omega
    rw [Generated.Tile.tileHashReader_ReadHashes_loop6]
    simp only [this, decide_false, Bool.false_eq_true, ↓reduceIte, mpure]
    rfl
  | succ m ih =>
    intro fuel th hm hf
    obtain ⟨g, rfl⟩ : ∃ g, fuel = g + 1 := ⟨fuel - 1, by omega⟩
    have hm1 : m < stx.length := by omega
    have hm2 : m < sto.length := by omega
    have hmz : m < (stx.zip sto).length := by simp; omega
    have htake : ((stx.zip sto).take (m + 1)).reverse = (stx[m], sto[m]) :: ((stx.zip sto).take m).reverse := by
      rw [List.take_add_one, List.getElem?_eq_getElem hmz]
      simp
    have e0 : ((m + 1 : Nat) : Int) - 1 = (m : Int) := by omega
    have hge : ((m : Int) ≥ 0) := by omega
    have hj := hsto sto[m] (List.getElem_mem _)
    have hx := hstx stx[m] (List.getElem_mem _)
    obtain ⟨gt, d, hgt, hd, n, hhft⟩ := hft_at node ofBytes g tiles data hw sto[m] stx[m] hj hx (by omega)
    have hi1 : idxL (sto.map Int.ofNat) (m : Int) = .ok ((sto[m] : Nat) : Int) := by
      rw [idxL_natCast' (by simp; exact hm2)]; simp
    have hi2 : idxL (stx.map Int.ofNat) (m : Int) = .ok ((stx[m] : Nat) : Int) := by
      rw [idxL_natCast' (by simp; exact hm1)]; simp
    rw [htake, e0, Generated.Tile.tileHashReader_ReadHashes_loop6]
    simp only [hge, decide_true, ↓reduceIte, hi1, hi2, mbind_ok, hgt, hd, hhft, Tile.stxFold]
    rcases hashAt_cases node ofBytes tiles data hw sto[m] stx[m] hj hx with ⟨v, hha⟩ | hha
    · rw [hha]
      simp only [hftOut, Option.isNone_none, Bool.not_true, Bool.false_eq_true, ↓reduceIte, ebind_ok]
      have hc : chk64 ((m : Int) - 1) = .ok ((m : Int) - 1) := by apply chk64_ok <;> omega
      have := ih g (node v th) (by omega) (by omega)
      simp only [hc, mbind_ok]
      exact this
    · rw [hha]
      simp only [ebind_error]
      refine ⟨trivial, hftMsg tiles[sto[m]] n, hftMsg_ok _ _, ?_⟩
      simp [hftOut, mpure]

/-! ### loop 8: pulling out the requested hashes -/

theorem loop8_eq (r : Generated.Tile.tileHashReader H) (tiles : List Tile.Tile)
    (data : List Bytes) (hw : WidthsOK tiles data) (idx ito : List Nat) (p : Tile.Plan) (hpt : p.tiles = tiles)
    (hli : ito.length = idx.length) (hito : ∀ j ∈ ito, j < tiles.length) (hidx : ∀ x ∈ idx, x + 1 < 2 ^ 63) :
    ∀ (xs pre : List Nat) (js : List Nat) (hs : List H) (fuel : Nat), idx = pre ++ xs → ito.drop pre.length = js →
      hs.length = pre.length → xs.length + 64 ≤ fuel →
    match Tile.extract node p (data.map (unflatS ofBytes)) (xs.zip js) with
    | .ok vs => Generated.Tile.tileHashReader_ReadHashes_loop8 node ofBytes r (idx.map Int.ofNat) (tiles.map toGen)
        (ito.map Int.ofNat) data effLog fuel (pre.length : Int) (hs ++ List.replicate xs.length default) =
          .ok (Ctl.next ((idx.length : Int), hs ++ vs))
    | .error e => e = .badMath ∧ ∃ msg, HftMsg msg ∧ Generated.Tile.tileHashReader_ReadHashes_loop8 node ofBytes r
        (idx.map Int.ofNat) (tiles.map toGen) (ito.map Int.ofNat) data effLog fuel (pre.length : Int)
        (hs ++ List.replicate xs.length default) =
          .ok (Ctl.ret ((([] : List H), wrapErr "bad math in tileHashReader %d %v: lost hash %v: %v" (some msg)), effLog)) := by
  intro xs
  induction xs with
  | nil =>
    intro pre js hs fuel hidx' _ _ hf
    obtain ⟨g, rfl⟩ : ∃ g, fuel = g + 1 := ⟨fuel - 1, by omega⟩
    simp only [List.append_nil] at hidx'
    simp only [List.zip_nil_left, Tile.extract]
    have : ¬ ((pre.length : Int) < len (idx.map Int.ofNat)) := by simp [len, hidx']
    rw [Generated.Tile.tileHashReader_ReadHashes_loop8]
    simp only [this, decide_false, Bool.false_eq_true, ↓reduceIte, mpure, List.length_nil, List.replicate_zero,
      List.append_nil]
    rw [hidx']
  | cons x xs ih =>
    intro pre js hs fuel hidx' hjs hhs hf
    obtain ⟨g, rfl⟩ : ∃ g, fuel = g + 1 := ⟨fuel - 1, by omega⟩
    simp only [List.length_cons] at hf
    have hpl : pre.length < ito.length := by rw [hli, hidx']; simp
    have hjs' : js = ito[pre.length] :: ito.drop (pre.length + 1) := by
      rw [← hjs, List.drop_eq_getElem_cons hpl]
    have hlt : ((pre.length : Int) < len (idx.map Int.ofNat)) := by
      simp only [len, List.length_map, hidx', List.length_append, List.length_cons, Int.ofNat_eq_natCast]; omega
    have hix : idxL (idx.map Int.ofNat) (pre.length : Int) = .ok (x : Int) := by
      rw [idxL_natCast' (by simp [hidx'])]
      simp [hidx']
    have hij : idxL (ito.map Int.ofNat) (pre.length : Int) = .ok ((ito[pre.length] : Nat) : Int) := by
      rw [idxL_natCast' (by simp; exact hpl)]; simp
    have hj := hito ito[pre.length] (List.getElem_mem _)
    have hx := hidx x (by rw [hidx']; simp)
    obtain ⟨gt, d, hgt, hd, n, hhft⟩ := hft_at node ofBytes g tiles data hw ito[pre.length] x hj hx (by omega)
    rw [hjs', Generated.Tile.tileHashReader_ReadHashes_loop8]
    simp only [hlt, decide_true, ↓reduceIte, hix, hij, mbind_ok, hgt, hd, hhft, List.zip_cons_cons, Tile.extract, hpt,
      List.length_cons]
    rcases hashFromTile_cases node tiles[ito[pre.length]] ((data.map (unflatS ofBytes))[ito[pre.length]]'(by
        simp; rw [hw.1]; exact hj)) x hx with ⟨v, hv⟩ | hbad
    · have hha : Tile.hashAt node tiles (data.map (unflatS ofBytes)) ito[pre.length] x = .ok v := by
        unfold Tile.hashAt
        rw [List.getElem?_eq_getElem hj, List.getElem?_eq_getElem (by simp; rw [hw.1]; exact hj)]
        exact hv
      have hset : setIdxL (hs ++ List.replicate (xs.length + 1) default) (pre.length : Int) v =
          .ok ((hs ++ [v]) ++ List.replicate xs.length default) := by
        rw [setIdxL_natCast (by simp; omega)]
        congr 1
        rw [List.set_append_right _ _ (by omega), hhs, Nat.sub_self, List.replicate_succ, List.set_cons_zero]
        simp
      have e1 : (pre.length : Int) + 1 = (((pre ++ [x]).length : Nat) : Int) := by simp
      have hidx2 : idx = (pre ++ [x]) ++ xs := by rw [hidx']; simp
      have := ih (pre ++ [x]) (ito.drop (pre.length + 1)) (hs ++ [v]) g hidx2 (by simp) (by simp [hhs]) (by omega)
      simp only [hha, hftOut, Option.isNone_none, Bool.not_true, Bool.false_eq_true, ↓reduceIte, hset, mbind_ok, e1]
      cases hex : Tile.extract node p (data.map (unflatS ofBytes)) (xs.zip (ito.drop (pre.length + 1))) with
      | error e =>
        rw [hex] at this
        simp only [bind, Except.bind]
        exact this
      | ok vs =>
        rw [hex] at this
        simp only [bind, Except.bind, pure, Except.pure]
        rw [this]
        simp
    · have hha : Tile.hashAt node tiles (data.map (unflatS ofBytes)) ito[pre.length] x = .error .badTile := by
        unfold Tile.hashAt
        rw [List.getElem?_eq_getElem hj, List.getElem?_eq_getElem (by simp; rw [hw.1]; exact hj)]
        exact hbad
      rw [hha]
      simp only
      refine ⟨trivial, hftMsg tiles[ito[pre.length]] n, hftMsg_ok _ _, ?_⟩
      simp [hftOut, mpure]

/-! ### loop 7: authenticating the full tiles against their parents -/

/-- the error texts of `ReadHashes` by the model's error kind (`rerr` = the error returned by `ReadTiles`) -/
def MsgOK (rerr : Option String) : Tlog.Err → Option String → Prop
  | .indexRange, m => m = some "indexes not in tree"
  | .reader, m => m = rerr ∧ rerr ≠ none
  | .badTile, m => m = some "TileReader returned bad result slice (len=%d, want %d)" ∨
      m = some "TileReader returned bad result slice (%v len=%d, want %d)" ∨ ∃ s, HftMsg s ∧ m = some s
  | .inconsistent, m => m = some "downloaded inconsistent tile"
  | .badMath, m => m = some "bad math in tileHashReader: %d %d %v" ∨
      m = some "bad math in tileHashReader %d %v: lost parent of %v" ∨
      (∃ s, HftMsg s ∧ m = wrapErr "bad math in tileHashReader %d %v: lost hash of %v: %v" (some s)) ∨
      (∃ s, HftMsg s ∧ m = wrapErr "bad math in tileHashReader %d %v: lost hash %v: %v" (some s))
  | _, _ => False

omit [DecidableEq H] [Inhabited H] in
theorem tileParent_fields (t : Tile.Tile) (k N : Nat) :
    Tile.tileParent t k N = Tile.Tile.zero ∨
      ((Tile.tileParent t k N).h = t.h ∧ (Tile.tileParent t k N).l = t.l + k ∧ (Tile.tileParent t k N).n = t.n >>> (k * t.h)) := by
  unfold Tile.tileParent
  simp only
  split
  · split
    · left; rfl
    · right; exact ⟨rfl, rfl, rfl⟩
  · right; exact ⟨rfl, rfl, rfl⟩

theorem loop7_eq (r : Generated.Tile.tileHashReader H) (h N : Nat) (h1 : 1 ≤ h) (h57 : h ≤ 57) (hN : N < 2 ^ 62)
    (hrN : r.tree.N = (N : Int)) (idxs : List Int) (p : Tile.Plan) (og : List (GTile × Int)) (hrel : MapRel og p.order)
    (pf : PlanFacts h N p.tiles p.order p.nstx) (data : List Bytes) (hw : WidthsOK p.tiles data)
    (htl : p.tiles.length < 2 ^ 63) (rerr : Option String) :
    ∀ (f i fuel : Nat), p.nstx ≤ i → i + f = p.tiles.length → f + 70 ≤ fuel →
    match Tile.authChildren node N p (data.map (unflatS ofBytes)) f i with
    | .ok () => Generated.Tile.tileHashReader_ReadHashes_loop7 node ofBytes r idxs og (p.tiles.map toGen) data effLog fuel
        (i : Int) = .ok (Ctl.next ((p.tiles.length : Nat) : Int))
    | .error e => (e = .badMath ∨ e = .inconsistent) ∧ ∃ msg, MsgOK rerr e msg ∧
        Generated.Tile.tileHashReader_ReadHashes_loop7 node ofBytes r idxs og
        (p.tiles.map toGen) data effLog fuel (i : Int) = .ok (Ctl.ret ((([] : List H), msg), effLog)) := by
  intro f
  induction f with
  | zero =>
    intro i fuel _ hi hf
    obtain ⟨g, rfl⟩ : ∃ g, fuel = g + 1 := ⟨fuel - 1, by omega⟩
    have e : i = p.tiles.length := by omega
    subst e
    simp only [Tile.authChildren]
    have : ¬ (((p.tiles.length : Nat) : Int) < len (p.tiles.map toGen)) := by simp [len]
    rw [Generated.Tile.tileHashReader_ReadHashes_loop7]
    simp only [this, decide_false, Bool.false_eq_true, ↓reduceIte, mpure]
  | succ f ih =>
    intro i fuel hin hi hf
    obtain ⟨g, rfl⟩ : ∃ g, fuel = g + 1 := ⟨fuel - 1, by omega⟩
    obtain ⟨hdl, hwi⟩ := hw
    have hit : i < p.tiles.length := by omega
    have hid : i < data.length := by omega
    have hlt : ((i : Int) < len (p.tiles.map toGen)) := by simp [len]; omega
    have hti : idxL (p.tiles.map toGen) (i : Int) = .ok (toGen p.tiles[i]) := by
      rw [idxL_natCast' (by simp; exact hit)]; simp
    have hmem := List.getElem_mem hit
    have hok := pf.ok _ hmem
    obtain ⟨hfull, hsi⟩ := pf.child i p.tiles[i] hin (List.getElem?_eq_getElem hit)
    have hpar := tileParent_gen h N p.tiles[i] hok 1 (by omega) h57 hN
    have hpd := tileParent_data p.tiles[i] 1 N hok.data
    have hget := mapRel_get hrel _ hpd
    have e1 : ((1 : Nat) : Int) = 1 := by omega
    have hm1 : p.tiles[i]? = some p.tiles[i] := List.getElem?_eq_getElem hit
    have hm2 : (data.map (unflatS ofBytes))[i]? = some (unflat ofBytes data[i]) := by
      rw [List.getElem?_map, List.getElem?_eq_getElem hid, Option.map_some, unflatS_eq ofBytes _ _ (hwi i hit hid)]
    rw [Generated.Tile.tileHashReader_ReadHashes_loop7]
    simp only [e1] at hpar
    simp only [hlt, decide_true, ↓reduceIte, hti, mbind_ok, hrN, hpar, hget]
    unfold Tile.authChildren
    simp only [hm1, hm2]
    generalize hP : Tile.tileParent p.tiles[i] 1 N = par at hpd
    cases hlk : p.order.lookup par with
    | none =>
      refine ⟨Or.inl rfl, some "bad math in tileHashReader %d %v: lost parent of %v", Or.inr (Or.inl rfl), ?_⟩
      simp only [Bool.not_false, ↓reduceIte, mpure]
    | some j =>
      have hj := (pf.look par j).mp hlk
      have hjt : j < p.tiles.length := (List.getElem?_eq_some_iff.mp hj).1
      have hjd : j < data.length := by omega
      have hpmem : par ∈ p.tiles := List.mem_of_getElem? hj
      have hpok := pf.ok _ hpmem
      -- the parent is not `Tile{}`: its fields
      have hfld : par.h = h ∧ par.l = p.tiles[i].l + 1 := by
        rcases tileParent_fields p.tiles[i] 1 N with hz | ⟨a, b, _⟩
        · rw [hP] at hz
          have := hpok.hh
          rw [hz] at this
          simp only [Tile.Tile.zero] at this
          omega
        · rw [hP] at a b
          exact ⟨by rw [a, hok.hh], b⟩
      obtain ⟨hph, hpl⟩ := hfld
      have hL : (toGen par).L = (par.l : Int) := by simp [toGen, hpd]
      have hH : (toGen par).H = (par.h : Int) := rfl
      have hNn : (toGen p.tiles[i]).N = (p.tiles[i].n : Int) := rfl
      have elh : (par.l : Int) * (par.h : Int) = (((p.tiles[i].l + 1) * h : Nat) : Int) := by
        rw [hph, hpl]; simp
      have hlh : (p.tiles[i].l + 1) * h ≤ 63 * 57 := Nat.mul_le_mul (by have := hok.hl; omega) h57
      have hshi := StoredHashIndex_eq g ((p.tiles[i].l + 1) * h) p.tiles[i].n (by omega) (by omega)
      have hm3 : (data.map (unflatS ofBytes))[j]? = some (unflat ofBytes data[j]) := by
        rw [List.getElem?_map, List.getElem?_eq_getElem hjd, Option.map_some]
        have := hwi j hjt hjd
        rw [unflatS_eq ofBytes _ _ this]
      have hidx : Tlog.storedHashIndex (par.l * par.h) p.tiles[i].n = Tlog.storedHashIndex ((p.tiles[i].l + 1) * h) p.tiles[i].n := by
        rw [hph, hpl]
      have hhft := HashFromTile_eq node ofBytes g par data[j] (Tlog.storedHashIndex ((p.tiles[i].l + 1) * h) p.tiles[i].n)
        hsi (by omega)
      simp only [Bool.not_true, Bool.false_eq_true, ↓reduceIte, idxL_natCast' hjd, mbind_ok, hL, hH, elh,
        chk64_natCast (show (p.tiles[i].l + 1) * h < 2 ^ 63 by omega), hNn, hshi, hhft, hm3, hidx]
      rcases hashFromTile_cases node par (unflat ofBytes data[j]) _ hsi with ⟨v, hv⟩ | hbad
      · rw [hv]
        simp only [hftOut, Option.isNone_none, Bool.not_true, Bool.false_eq_true, ↓reduceIte, idxL_natCast' hid, mbind_ok]
        -- the tile itself: `2^h` hashes
        have hlen : data[i].length = 32 * 2 ^ h := by rw [hwi i hit hid, hfull]
        have hth := tileHash_eq node ofBytes h g data[i] hlen (by omega)
        have hlen2 : (unflat ofBytes data[i]).length = 2 ^ h := by
          rw [unflat_length, hlen, Nat.mul_div_cancel_left _ (by omega)]
        obtain ⟨rr, hrr⟩ := TileAuth.ptree_isSome node h _ hlen2
        have hmod := TileAuth.tileHash_ptree node h _ rr hlen2 hrr
        rw [hmod] at hth
        simp only [hth, errOut, mbind_ok, hmod, ebind_ok]
        by_cases heq : v = rr
        · subst heq
          have hc : chk64 ((i : Int) + 1) = .ok (((i + 1 : Nat)) : Int) := by
            have : (i : Int) + 1 = ((i + 1 : Nat) : Int) := by omega
            rw [this, chk64_natCast (by omega)]
          have := ih (i + 1) g (by omega) (by omega) (by omega)
          simp only [bne_self_eq_false, Bool.false_eq_true, ↓reduceIte, decide_true, Bool.not_true, hc, mbind_ok]
          exact this
        · have hb : (v != rr) = true := by simp [heq]
          simp only [hb, ↓reduceIte]
          refine ⟨Or.inr trivial, some "downloaded inconsistent tile", rfl, ?_⟩
          simp only [heq, decide_false, Bool.not_false, ↓reduceIte, mpure]
      · rw [hbad]
        simp only [hftOut]
        refine ⟨Or.inl trivial, wrapErr "bad math in tileHashReader %d %v: lost hash of %v: %v" (some (hftMsg par (data[j].length / 32))),
          Or.inr (Or.inr (Or.inl ⟨_, hftMsg_ok _ _, rfl⟩)), ?_⟩
        simp [mpure]

end
end ModVerif.TieFnTile
