/-
  C02 clause 3 with a version fixer and `retract` directives, part c: what the deferred `fixRetract` pass of an
  ACCEPTED strict parse leaves in the tree and in the typed retract list.

  * `pvi_fix_shape` — a successful `parseVersionInterval path args (some fx)` returns tokens that are exactly the
    fixed bounds (`[v]` or `[ v , w ]`, followed by the untouched rest), and both bounds are results of `fx path`.
  * `addStmts_retrSub` — the line identities of the retract entries appended by the directive layer are a sublist of
    the line identities of the statements (hence pairwise distinct for a parsed tree).
  * `fixRetractLoop_tokens` — the loop, when it ends without an error: every resulting entry has a line of the
    resulting tree with its identity whose tokens are `keep ++ args'`, `args'` of the fixed shape for its interval.
-/
import ModVerif.Proofs.ModfileFmtRet2
namespace ModVerif.Proofs.ModfileFmtRet
open ModVerif ModVerif.Modfile ModVerif.Proofs.ModfileC20
open ModVerif.Proofs.ModfileFmtDir ModVerif.Proofs.ModfileEol ModVerif.Proofs.ModfileFmtTree

/-! ### the shape of a successful interval parse with the real fixer -/

/-- `args'` are the tokens the fixer pass writes for the interval `vi` (followed by `rest`), and both bounds are
    results of `fx path` -/
def FixedArgs (path : Bytes) (fx : Fixer) (args' : List Bytes) (vi : VersionInterval) (rest : List Bytes) : Prop :=
  (∃ s, fx path s = .ok vi.low) ∧ (∃ s, fx path s = .ok vi.high) ∧
  ((args' = vi.low :: rest ∧ vi.high = vi.low) ∨ args' = [91] :: vi.low :: [44] :: vi.high :: [93] :: rest)

theorem pv_fix_res {path : Bytes} {fx : Fixer} {t t' v : Bytes} (h : parseVersion path t (some fx) = (t', .ok v)) :
    t' = v ∧ ∃ s, fx path s = .ok v := by
  unfold parseVersion at h
  cases hp : parseString t with
  | none => simp [hp] at h
  | some r =>
    obtain ⟨s, q⟩ := r
    simp only [hp] at h
    cases hf : fx path s with
    | error e => cases e <;> simp [hf] at h
    | ok w =>
      simp only [hf, Prod.mk.injEq, Except.ok.injEq] at h
      obtain ⟨h1, h2⟩ := h
      subst h2
      exact ⟨h1.symm, s, hf⟩

/-- ★ the tokens after a successful fixer pass are the fixed bounds -/
theorem pvi_fix_shape (path : Bytes) (fx : Fixer) (args args' : List Bytes) (vi : VersionInterval) (rest : List Bytes)
    (h : parseVersionInterval path args (some fx) = (args', .ok (vi, rest))) : FixedArgs path fx args' vi rest := by
  cases args with
  | nil => simp [parseVersionInterval] at h
  | cons t0 rest0 =>
    by_cases c1 : t0 = [40]
    · simp [parseVersionInterval, c1] at h
    by_cases c2 : t0 = [91]
    · subst c2
      cases rest0 with
      | nil => simp [parseVersionInterval] at h
      | cons t1 rest1 =>
        rcases hv1 : parseVersion path t1 (some fx) with ⟨t1', r1⟩
        cases r1 with
        | error e => simp [parseVersionInterval, hv1] at h
        | ok low =>
          cases rest1 with
          | nil => simp [parseVersionInterval, hv1] at h
          | cons c rest2 =>
            by_cases c3 : c = [44]
            · subst c3
              cases rest2 with
              | nil => simp [parseVersionInterval, hv1] at h
              | cons t2 rest3 =>
                rcases hv2 : parseVersion path t2 (some fx) with ⟨t2', r2⟩
                cases r2 with
                | error e => simp [parseVersionInterval, hv1, hv2] at h
                | ok high =>
                  cases rest3 with
                  | nil => simp [parseVersionInterval, hv1, hv2] at h
                  | cons r rest4 =>
                    by_cases c4 : r = [93]
                    · subst c4
                      simp [parseVersionInterval, hv1, hv2] at h
                      obtain ⟨e1, e2, e3⟩ := h
                      subst e1 e2 e3
                      obtain ⟨k1, s1, f1⟩ := pv_fix_res hv1
                      obtain ⟨k2, s2, f2⟩ := pv_fix_res hv2
                      subst k1 k2
                      exact ⟨⟨s1, f1⟩, ⟨s2, f2⟩, Or.inr rfl⟩
                    · simp [parseVersionInterval, hv1, hv2, c4] at h
            · simp [parseVersionInterval, hv1, c3] at h
    · rcases hv : parseVersion path t0 (some fx) with ⟨t0', r0⟩
      cases r0 with
      | error e => simp [parseVersionInterval, c1, c2, hv] at h
      | ok v =>
        simp [parseVersionInterval, c1, c2, hv] at h
        obtain ⟨e1, e2, e3⟩ := h
        subst e1 e2 e3
        obtain ⟨k, s, f⟩ := pv_fix_res hv
        subst k
        exact ⟨⟨s, f⟩, ⟨s, f⟩, Or.inl ⟨rfl, rfl⟩⟩

theorem verOK_ne_paren {v : Bytes} (h : VerOK v) : v ≠ [40] ∧ v ≠ [91] := by
  constructor <;> (intro e; subst e; revert h; unfold VerOK; decide +kernel)

theorem pv_dont_of_verOK {v : Bytes} (h : VerOK v) (p : Bytes) :
    parseVersion p v (some dontFixRetract) = (v, .ok v) := by
  simp only [parseVersion, ModfileFmtFix.valid_parseString h, dontFixRetract]

/-- ★ fixed tokens with valid bounds are a fixpoint of the placeholder parse `File.add` makes -/
theorem pvi_dont_of_fixed {path : Bytes} {fx : Fixer} {args' : List Bytes} {vi : VersionInterval} {rest : List Bytes}
    (h : FixedArgs path fx args' vi rest) (hl : VerOK vi.low) (hh : VerOK vi.high) :
    parseVersionInterval [] args' (some dontFixRetract) = (args', .ok (vi, rest)) := by
  obtain ⟨_, _, h | h⟩ := h
  · obtain ⟨h1, h2⟩ := h
    subst h1
    obtain ⟨n1, n2⟩ := verOK_ne_paren hl
    cases vi with
    | mk lo hi =>
      simp only at h2 n1 n2 hl
      subst h2
      simp [parseVersionInterval, n1, n2, pv_dont_of_verOK hl]
  · subst h
    cases vi with
    | mk lo hi =>
      simp only at hl hh
      simp [parseVersionInterval, pv_dont_of_verOK hl, pv_dont_of_verOK hh]

/-! ### the identities of the retract entries are a sublist of the identities of the statements -/

/-- the identities of `new` are those of `old` followed by a sublist of the identities of `ls` -/
def RetrSub (old : List Retract) (ls : List Line) (new : List Retract) : Prop :=
  ∃ ids, new.map (·.lineId) = old.map (·.lineId) ++ ids ∧ ids.Sublist (ls.map (·.id))

theorem RetrSub.refl (old : List Retract) (ls : List Line) : RetrSub old ls old :=
  ⟨[], by simp, List.nil_sublist _⟩

theorem RetrSub.weaken {old new : List Retract} {ls ls' : List Line} (h : RetrSub old ls new)
    (hs : ls.Sublist ls') : RetrSub old ls' new := by
  obtain ⟨ids, h1, h2⟩ := h
  exact ⟨ids, h1, h2.trans (hs.map _)⟩

theorem RetrSub.trans {a b c : List Retract} {l1 l2 : List Line} (h1 : RetrSub a l1 b) (h2 : RetrSub b l2 c) :
    RetrSub a (l1 ++ l2) c := by
  obtain ⟨i1, e1, s1⟩ := h1
  obtain ⟨i2, e2, s2⟩ := h2
  refine ⟨i1 ++ i2, by rw [e2, e1, List.append_assoc], ?_⟩
  rw [List.map_append]
  exact List.Sublist.append s1 s2

theorem RetrSub.step {old mid new : List Retract} {l : Line} {ls : List Line}
    (h1 : mid = old ∨ ∃ x, mid = old ++ [x] ∧ x.lineId = l.id) (h2 : RetrSub mid ls new) :
    RetrSub old (l :: ls) new := by
  have h0 : RetrSub old [l] mid := by
    rcases h1 with rfl | ⟨x, rfl, hx⟩
    · exact RetrSub.refl _ _
    · exact ⟨[l.id], by simp [hx], by simp⟩
  exact RetrSub.trans h0 h2

theorem addBlockLines_retrSub (block : Comments) (verb : Bytes) (fix : Option Fixer) (strict : Bool) :
    ∀ (ls : List Line) (st : AddState),
    RetrSub st.file.retract ls (addBlockLines block verb fix strict st ls).1.file.retract := by
  intro ls
  induction ls with
  | nil => intro st; exact RetrSub.refl _ _
  | cons l rest ih =>
    intro st
    unfold addBlockLines
    exact RetrSub.step (add_retr st (some block) l verb l.token fix strict) (ih _)

theorem addStmts_retrSub (fix : Option Fixer) (strict : Bool) :
    ∀ (xs : List Expr) (st : AddState),
    RetrSub st.file.retract (linesOf xs) (addStmts fix strict st xs).1.file.retract := by
  intro xs
  induction xs with
  | nil => intro st; exact RetrSub.refl _ _
  | cons x rest ih =>
    intro st
    unfold addStmts
    cases x with
    | line l =>
      cases htok : l.token with
      | nil =>
        simp only [htok, linesOf_line]
        exact (ih st).weaken (List.sublist_cons_self _ _)
      | cons verb args =>
        simp only [htok, linesOf_line]
        exact RetrSub.step (add_retr st none l verb args fix strict) (ih _)
    | lineBlock b =>
      have hskip : ∀ st' : AddState, st'.file.retract = st.file.retract →
          RetrSub st.file.retract (b.lines ++ linesOf rest) (addStmts fix strict st' rest).1.file.retract := by
        intro st' h
        rw [← h]
        exact (ih st').weaken (List.sublist_append_right _ _)
      simp only [linesOf_block]
      split
      · split
        · exact RetrSub.trans (addBlockLines_retrSub b.comments _ fix strict b.lines st) (ih _)
        · exact hskip _ (by cases strict <;> rfl)
      · exact hskip _ (by cases strict <;> rfl)
    | commentBlock c => simp only [linesOf_commentBlock]; exact ih st
    | lparen c => simp only [linesOf_lparen]; exact ih st
    | rparen c => simp only [linesOf_rparen]; exact ih st

/-! ### `fixRetractLoop` that ends without an error -/

/-- the entry `r` has a line in `fs` with tokens `keep ++ args'`, `args'` the fixed tokens of its interval -/
def RetFixed (path : Bytes) (fx : Fixer) (fs : FileSyntax) (r : Retract) : Prop :=
  ∃ l ∈ linesOf fs.stmts, l.id = r.lineId ∧ ∃ keep args' rest, l.token = keep ++ args' ∧
    (keep = [] ∨ keep = [B "retract"]) ∧ FixedArgs path fx args' r.interval rest

theorem frArgs_keep (l : Line) : (frArgs l).1 = [] ∨ (frArgs l).1 = [B "retract"] := by
  unfold frArgs
  cases l.token with
  | nil => exact Or.inl rfl
  | cons t0 rest =>
    simp only
    split
    · rename_i h
      have : t0 = B "retract" := by simpa using h
      exact Or.inr (by rw [this])
    · exact Or.inl rfl

theorem loop_errs_ext (path : Bytes) (fx : Fixer) (rs : List Retract) (fs : FileSyntax) (e : List RuleErr) :
    ∃ add, (fixRetractLoop path fx rs fs e).2.2 = add ++ e := by
  obtain ⟨add, h, _⟩ := fixRetractLoop_errs (fun _ => True) path fx rs fs e (fun _ _ => trivial)
  exact ⟨add, h⟩

/-- ★ the loop without an error: identities and rationales are kept, every resulting entry has its fixed line, lines
    whose identity no entry carries are untouched -/
theorem fixRetractLoop_tokens (path : Bytes) (fx : Fixer) :
    ∀ (rs : List Retract) (fs : FileSyntax) (e : List RuleErr), NodupIds fs.stmts →
    (rs.map (·.lineId)).Nodup → (∀ r ∈ rs, ∃ l ∈ linesOf fs.stmts, l.id = r.lineId) →
    (fixRetractLoop path fx rs fs e).2.2 = [] →
    e = [] ∧ NodupIds (fixRetractLoop path fx rs fs e).2.1.stmts ∧
    (fixRetractLoop path fx rs fs e).1.map (·.lineId) = rs.map (·.lineId) ∧
    (∀ r' ∈ (fixRetractLoop path fx rs fs e).1, RetFixed path fx (fixRetractLoop path fx rs fs e).2.1 r') ∧
    (∀ l ∈ linesOf fs.stmts, l.id ∉ rs.map (·.lineId) → l ∈ linesOf (fixRetractLoop path fx rs fs e).2.1.stmts) := by
  intro rs
  induction rs with
  | nil =>
    intro fs e hn _ _ he
    refine ⟨he, hn, rfl, ?_, fun l hl _ => hl⟩
    intro r' hr'
    cases hr'
  | cons r rest ih =>
    intro fs e hn hnd hall he
    obtain ⟨a, ha, hid⟩ := hall r (by simp)
    have hfind := findLine_of_mem hn ha
    rw [hid] at hfind
    simp only [List.map_cons, List.nodup_cons] at hnd
    rw [fixRetractLoop_cons, hfind] at he ⊢
    simp only at he ⊢
    -- the step
    rcases hpv : parseVersionInterval path (frArgs a).2 (some fx) with ⟨args', res⟩
    have hs1 : (frStep path fx fs r a e).2.1 =
        fs.updateLine r.lineId (fun l' => { l' with token := (frArgs a).1 ++ args' }) := by
      simp only [frStep, hpv]
    obtain ⟨add, hadd⟩ := loop_errs_ext path fx rest (frStep path fx fs r a e).2.1 (frStep path fx fs r a e).2.2
    have hs3 : (frStep path fx fs r a e).2.2 = [] := by
      rw [he] at hadd
      have := congrArg List.length hadd
      simp only [List.length_nil, List.length_append] at this
      exact List.eq_nil_of_length_eq_zero (by omega)
    cases res with
    | error k =>
      exfalso
      simp only [frStep, hpv] at hs3
      cases hs3
    | ok p =>
      obtain ⟨vi, rst⟩ := p
      have he0 : e = [] := by simpa only [frStep, hpv] using hs3
      have hvi : (frStep path fx fs r a e).1 = vi := by simp only [frStep, hpv]
      have hn' : NodupIds (frStep path fx fs r a e).2.1.stmts := by
        rw [hs1]; exact nodupIds_updateLine _ _ fs hn
      have hlines : linesOf (frStep path fx fs r a e).2.1.stmts =
          (linesOf fs.stmts).map (updF r.lineId (fun l' => { l' with token := (frArgs a).1 ++ args' })) := by
        rw [hs1]; exact linesOf_updateLine _ _ fs hn
      have hall' : ∀ r' ∈ rest, ∃ l ∈ linesOf (frStep path fx fs r a e).2.1.stmts, l.id = r'.lineId := by
        intro r' hr'
        obtain ⟨l, hl, hlid⟩ := hall r' (List.mem_cons_of_mem _ hr')
        refine ⟨updF r.lineId (fun l' => { l' with token := (frArgs a).1 ++ args' }) l, ?_, ?_⟩
        · rw [hlines]; exact List.mem_map_of_mem hl
        · rw [updF_id]; exact hlid
      obtain ⟨_, i2, i3, i4, i5⟩ := ih (frStep path fx fs r a e).2.1 (frStep path fx fs r a e).2.2 hn' hnd.2 hall' he
      refine ⟨he0, i2, by simp only [List.map_cons, i3], ?_, ?_⟩
      · intro r' hr'
        simp only [List.mem_cons] at hr'
        rcases hr' with rfl | hr'
        · -- the line written in this step survives the tail
          have hmem : ({ a with token := (frArgs a).1 ++ args' } : Line) ∈
              linesOf (frStep path fx fs r a e).2.1.stmts := by
            rw [hlines]
            refine List.mem_map.2 ⟨a, ha, ?_⟩
            simp [updF, hid]
          refine ⟨_, i5 _ hmem (by simpa [hid] using hnd.1), by simpa using hid, (frArgs a).1, args', rst, rfl,
            frArgs_keep a, ?_⟩
          simp only [hvi]
          exact pvi_fix_shape path fx _ args' vi rst hpv
        · exact i4 r' hr'
      · intro l hl hnot
        simp only [List.map_cons, List.mem_cons, not_or] at hnot
        apply i5 _ _ hnot.2
        rw [hlines]
        refine List.mem_map.2 ⟨l, hl, ?_⟩
        unfold updF
        split
        · rename_i hc
          exact absurd (by simpa using hc) hnot.1
        · rfl

end ModVerif.Proofs.ModfileFmtRet
