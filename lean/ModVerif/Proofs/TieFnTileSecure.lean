/-
  Tie proofs for sumdb/tlog/tile.go, part 11: the security theorem of C10 (`readHashes_authenticated`) transferred to the
  REGENERATED `tileHashReader.ReadHashes` through the tie theorem, against every `ReadTiles` function.
-/
import ModVerif.Proofs.TieFnTileServe
import ModVerif.Props.C10
set_option linter.unusedSimpArgs false
namespace ModVerif.TieFnTile
open ModVerif ModVerif.GoRt ModVerif.GoRtTile ModVerif.TieFnTlogInt

theorem wrapErr_ne_none (name : String) (inner : Option String) : wrapErr name inner ≠ none := by
  simp [wrapErr]

/-- every error of `ReadHashes` carries a non-nil `error` value -/
theorem msgOK_ne_none (rerr : Option String) (e : Tlog.Err) (msg : Option String) (h : MsgOK rerr e msg) : msg ≠ none := by
  cases e with
  | invalid => simp only [MsgOK] at h
  | proofFailed => simp only [MsgOK] at h
  | panic => simp only [MsgOK] at h
  | fuel => simp only [MsgOK] at h
  | reader =>
    simp only [MsgOK] at h
    obtain ⟨a, b⟩ := h; rw [a]; exact b
  | indexRange =>
    simp only [MsgOK] at h
    subst h; simp
  | badTile =>
    simp only [MsgOK] at h
    rcases h with h | h | ⟨s, _, h⟩ <;> subst h <;> simp
  | inconsistent =>
    simp only [MsgOK] at h
    subst h; simp
  | badMath =>
    simp only [MsgOK] at h
    rcases h with h | h | ⟨s, _, h⟩ | ⟨s, _, h⟩
    · subst h; simp
    · subst h; simp
    · subst h; exact wrapErr_ne_none _ _
    · subst h; exact wrapErr_ne_none _ _

section
variable {H : Type} [DecidableEq H] [Inhabited H] (leaf : Bytes → H) (node : H → H → H) (empty : H) (ofBytes : Bytes → H)

/-- ★ Against ANY `ReadTiles` function, for the true tree head of a log `D` of fewer than `2^62` records and a
    collision-free `NodeHash`: the generated `tileHashReader.ReadHashes` terminates without panic or overflow; if it
    returns `err = nil` the hashes are the true stored hashes; and every (tile, data) pair it passes to `SaveTiles` (the
    effect log) is the true tile of the log. -/
theorem ReadHashes_generated_authenticated (D : List Bytes) (st : List H) (hst : Tlog.buildStore leaf node D = .ok st)
    (hR : D.length < 2 ^ 62) (hcf : ∀ a b c d : H, node a b = node c d → a = c ∧ b = d)
    (h : Nat) (h1 : 1 ≤ h) (h57 : h ≤ 57) (idx : List Nat) (hidx : idx.length < 2 ^ 56)
    (RT : List GTile → List Bytes × Option String) (fuel : Nat) (hf : 64 * idx.length + 500 ≤ fuel) :
    ∃ res, Generated.Tile.tileHashReader_ReadHashes node ofBytes fuel
        { tree := { N := (D.length : Int), Hash := RFC6962.mth node empty (D.map leaf) },
          tr := { Height := (h : Int), ReadTiles := RT } } (idx.map Int.ofNat) = .ok res ∧
      (res.1.2 = none → idx.mapM (st[·]?) = some res.1.1) ∧
      (∀ entry ∈ res.2, entry.2.length = entry.1.length ∧
        ∀ i (hi1 : i < entry.1.length) (hi2 : i < entry.2.length),
          Tile.trueTile st (ofGen entry.1[i]) = some (unflatS ofBytes entry.2[i])) := by
  have hlen := planTiles_length h D.length h1 hR idx
  have hnd : (planTiles h D.length idx).Nodup := by
    unfold planTiles
    cases hp : Tile.plan h D.length idx with
    | error e => simp
    | ok p => exact (TileAuth.plan_parents_first h D.length h1 hR idx p hp).2.2.1
  obtain ⟨serve, hs⟩ := exists_serve ofBytes RT (planTiles h D.length idx) hnd
  obtain ⟨msg, hgen, hmsg⟩ := ReadHashes_eq node ofBytes fuel h D.length (RFC6962.mth node empty (D.map leaf)) idx RT serve
    h1 h57 hR hs (by omega) (by omega)
  obtain ⟨hauth1, hauth2⟩ := Props.C10.readHashes_authenticated leaf node empty D st hst hR hcf h h1 idx serve
  refine ⟨_, hgen, ?_, ?_⟩
  · -- the returned hashes
    intro hnone
    simp only [rhOut] at hnone ⊢
    cases hres : (Tile.readHashes node D.length (RFC6962.mth node empty (D.map leaf)) h idx serve).result with
    | error e =>
      rw [hres] at hnone
      simp only at hnone
      exact absurd hnone (msgOK_ne_none _ _ _ (hmsg e hres))
    | ok hs' =>
      simp only
      exact hauth1 hs' hres
  · -- the saved tiles
    intro entry hentry
    simp only [rhOut] at hentry
    cases hsv : (Tile.readHashes node D.length (RFC6962.mth node empty (D.map leaf)) h idx serve).saved with
    | none => rw [hsv] at hentry; simp at hentry
    | some sv =>
      rw [hsv] at hentry
      simp only [List.mem_singleton] at hentry
      subst hentry
      simp only
      -- the model saved `p.tiles.zip data'`
      rcases TileAuth.readHashes_cases node D.length (RFC6962.mth node empty (D.map leaf)) h idx serve with
        ⟨hn, _⟩ | ⟨p, data', hp, hstxne, hmap, hwd, _, hsaved, _⟩
      · rw [hsv] at hn; cases hn
      · rw [hsv] at hsaved
        simp only [Option.some.injEq] at hsaved
        have hpt : planTiles h D.length idx = p.tiles := by simp [planTiles, hp]
        rw [hpt] at hs ⊢
        -- plan facts
        have hlt := TileAuth.plan_ok_lt h D.length idx p hp
        obtain ⟨cs2, p2, hp2, pok⟩ := TileAuth.plan_spec h D.length (by omega) (by omega) (TileAuth.split_valid D.length hR) idx
          (TileAuth.hidx_of_lt D.length hR idx hlt)
        rw [hp] at hp2
        simp only [Except.ok.injEq] at hp2
        subst hp2
        have pf := planFacts_of_planOK h D.length h1 hR cs2 idx _ pok
        obtain ⟨hwl, hww⟩ := TileAuth.widthsOk_spec _ _ hwd
        have htne : p.tiles ≠ [] := by
          intro hnil
          obtain ⟨c, hc⟩ : ∃ c, cs2[0]? = some c := by
            have : p.stx = cs2.map TileAuth.idxOf := pok.stx
            cases hcs : cs2 with
            | nil => rw [hcs] at this; exact absurd this hstxne
            | cons c _ => exact ⟨c, rfl⟩
          obtain ⟨j, _, _, hj⟩ := pok.sto 0 c hc
          rw [hnil] at hj; simp at hj
        have hs' := hs htne
        generalize hrt : RT (p.tiles.map toGen) = rt at hs' ⊢
        obtain ⟨data, err⟩ := rt
        cases err with
        | some e => simp only at hs'; rw [hmap] at hs'; cases hs'
        | none =>
          simp only at hs' ⊢
          rw [hmap] at hs'
          simp only [Option.some.injEq] at hs'
          by_cases hdl : data.length = p.tiles.length
          · rw [if_pos hdl] at hs'
            refine ⟨by simp [hdl], ?_⟩
            intro i hi1 hi2
            simp only [List.length_map] at hi1
            have hmem : (p.tiles[i], (data.map (unflatS ofBytes))[i]'(by simp; exact hi2)) ∈ sv := by
              rw [hsaved, hs']
              apply List.mem_iff_getElem.mpr
              refine ⟨i, by simp; omega, by simp⟩
            have := hauth2 sv hsv _ hmem
            simp only [List.getElem_map] at this ⊢
            rw [ofGen_toGen _ (by intro hd; rw [(pf.ok _ (List.getElem_mem hi1)).data] at hd; cases hd)]
            exact this
          · -- a result of the wrong length never passes the width check
            exfalso
            rw [if_neg hdl] at hs'
            cases hpt2 : p.tiles with
            | nil => exact htne hpt2
            | cons t ts =>
              have hw1 := (pf.w1 t (by rw [hpt2]; simp)).1
              have := hww 0 t [] (by rw [hpt2]; rfl) (by rw [hs', hpt2]; rfl)
              simp at this
              omega

/-- ★ … and (tile height at most 30) an error is only ever returned BEFORE `SaveTiles`: `err ≠ nil` implies an empty
    effect log, against any `ReadTiles` function. -/
theorem ReadHashes_generated_error_saves_nothing (D : List Bytes) (st : List H) (hst : Tlog.buildStore leaf node D = .ok st)
    (hR : D.length < 2 ^ 62) (hcf : ∀ a b c d : H, node a b = node c d → a = c ∧ b = d)
    (h : Nat) (h1 : 1 ≤ h) (h30 : h ≤ 30) (idx : List Nat) (hidx : idx.length < 2 ^ 56)
    (RT : List GTile → List Bytes × Option String) (fuel : Nat) (hf : 64 * idx.length + 500 ≤ fuel) :
    ∃ res, Generated.Tile.tileHashReader_ReadHashes node ofBytes fuel
        { tree := { N := (D.length : Int), Hash := RFC6962.mth node empty (D.map leaf) },
          tr := { Height := (h : Int), ReadTiles := RT } } (idx.map Int.ofNat) = .ok res ∧
      (res.1.2 ≠ none → res.2 = []) := by
  have hlen := planTiles_length h D.length h1 hR idx
  have hnd : (planTiles h D.length idx).Nodup := by
    unfold planTiles
    cases hp : Tile.plan h D.length idx with
    | error e => simp
    | ok p => exact (TileAuth.plan_parents_first h D.length h1 hR idx p hp).2.2.1
  obtain ⟨serve, hs⟩ := exists_serve ofBytes RT (planTiles h D.length idx) hnd
  obtain ⟨msg, hgen, _⟩ := ReadHashes_eq node ofBytes fuel h D.length (RFC6962.mth node empty (D.map leaf)) idx RT serve
    h1 (by omega) hR hs (by omega) (by omega)
  refine ⟨_, hgen, ?_⟩
  intro herr
  simp only [rhOut] at herr ⊢
  cases hres : (Tile.readHashes node D.length (RFC6962.mth node empty (D.map leaf)) h idx serve).result with
  | ok hs' => rw [hres] at herr; simp at herr
  | error e =>
    have := Props.C10.error_saves_nothing leaf node empty D st hst hR hcf h h1 h30 idx serve e hres
    rw [this]

end
end ModVerif.TieFnTile
