/-
  Helper lemmas for Tie/FnEditWork.lean, part F: `WorkFile_AddReplace` around the shared `addReplace` (rule.go:1513), whose
  tie over `RepR` / `FrameR` (Proofs/TieFnEditReqC.lean) belongs to agent edit-req: `AddReplaceSpec` is its simulation
  statement, a hypothesis of `WorkFile_AddReplace_sim`.
  Owner: edit-work.
-/
import ModVerif.Proofs.TieFnEditWorkA
import ModVerif.Proofs.TieFnEditReqC
set_option linter.unusedSimpArgs false
set_option linter.unusedVariables false
namespace ModVerif.Tie.FnEditWorkF
open ModVerif ModVerif.GoRt ModVerif.Generated.Edit ModVerif.Tie.FnEditRep ModVerif.Tie.FnEditTreeA ModVerif.Tie.FnEditWorkA
open ModVerif.Tie.FnEditReqC (RepR FrameR)
open ModVerif.Modfile.Edit (EWork addReplaceCore)

theorem RepWAt_toRepR {h : Heap} {o : WorkFile} {e : EWork} (R : RepWAt h o e) :
    RepR h o.Syntax o.Replace e.f.syn e.f.replace := ⟨R.syn, R.tok, R.linesG, R.replace⟩

theorem get_of_eq' {α : Type} {l l' : List α} (hl : l' = l) : ∀ p v, heapGet l p = .ok v → heapGet l' p = .ok v := by
  subst hl; exact fun _ _ x => x

theorem RepWAt_ofRepR {h h' : Heap} {o : WorkFile} {e : EWork} (R : RepWAt h o e) (F : FrameR h h') {ps : List Int}
    {fs : Modfile.FileSyntax} {rp : List Modfile.Replace} (Rr : RepR h' o.Syntax ps fs rp) (w : List WorkFile) :
    RepWAt { h' with works := w } { o with Replace := ps }
      { f := { e.f with syn := fs, replace := rp }, next := h'.lines.length + 1 } where
  syn := RepSyn.congr (h := h') (h' := { h' with works := w }) rfl rfl rfl rfl Rr.syn
  tok := Rr.tok
  linesG := LinesG.congr (h := h') (h' := { h' with works := w }) Rr.linesG rfl
  next := rfl
  go := R.go.mono (get_of_eq' F.gos) F.lines
  toolchain := R.toolchain.mono (get_of_eq' F.toolchains) F.lines
  godebug := R.godebug.mono (get_of_eq' F.godebugs) F.lines
  use := R.use.mono (get_of_eq' F.uses) F.lines
  replace := Rr.replace

/-- the simulation statement of the shared `addReplace` (rule.go:1513; tie of agent edit-req) over the part of the
    representation it works on -/
def AddReplaceSpec (fuelOK : Modfile.FileSyntax → List Modfile.Replace → Bytes → Bytes → Nat → Prop) : Prop :=
  ∀ {h : Heap} {x : Int} {ps : List Int} {fs : Modfile.FileSyntax} {rp : List Modfile.Replace}, RepR h x ps fs rp →
    ∀ (op ov np nv : Bytes) (fuel : Nat), fuelOK fs rp op np fuel →
    (∀ fs' rp' n', addReplaceCore fs rp (h.lines.length + 1) op ov np nv = .ok (fs', rp', n') →
      ∃ h' ps', addReplace Drv.GenEdit.isPrintI Drv.GenEdit.quoteI fuel x ps op ov np nv h = .ok ((none, ps'), h') ∧
        RepR h' x ps' fs' rp' ∧ FrameR h h' ∧ n' = h'.lines.length + 1) ∧
    (∀ er, addReplaceCore fs rp (h.lines.length + 1) op ov np nv = .error er →
      addReplace Drv.GenEdit.isPrintI Drv.GenEdit.quoteI fuel x ps op ov np nv h = .error .panic)

/-- `WorkFile.AddReplace` simulates the model's `workAddReplace`, given the tie of the shared `addReplace` -/
theorem WorkFile_AddReplace_sim {fuelOK : Modfile.FileSyntax → List Modfile.Replace → Bytes → Bytes → Nat → Prop}
    (hAR : AddReplaceSpec fuelOK) {h : Heap} {fp : Int} {e : EWork} (R : RepW h fp e) (op ov np nv : Bytes) (fuel : Nat)
    (hf : fuelOK e.f.syn e.f.replace op np fuel) :
    (∀ e', Modfile.Edit.workAddReplace e op ov np nv = .ok e' →
      ∃ h', WorkFile_AddReplace Drv.GenEdit.isPrintI Drv.GenEdit.quoteI fuel fp op ov np nv h = .ok (none, h') ∧ RepW h' fp e') ∧
    (∀ er, Modfile.Edit.workAddReplace e op ov np nv = .error er →
      WorkFile_AddReplace Drv.GenEdit.isPrintI Drv.GenEdit.quoteI fuel fp op ov np nv h = .error .panic) := by
  obtain ⟨o, hw, R⟩ := R
  have A := hAR (RepWAt_toRepR R) op ov np nv fuel hf
  unfold Modfile.Edit.workAddReplace
  rw [R.next]
  simp only [bind, Except.bind]
  unfold WorkFile_AddReplace
  simp only [hw, bind, Except.bind]
  cases hc : addReplaceCore e.f.syn e.f.replace (h.lines.length + 1) op ov np nv with
  | error er =>
    refine ⟨fun e' he' => (by cases he'), fun er' _ => ?_⟩
    rw [A.2 er hc]
  | ok r =>
    obtain ⟨fs', rp', n'⟩ := r
    obtain ⟨h1, ps', ha, Rr, F, hn⟩ := A.1 fs' rp' n' hc
    have hw1 : heapGet h1.works fp = .ok o := by rw [F.works]; exact hw
    refine ⟨fun e' he' => ?_, fun er' he' => (by cases he')⟩
    simp only [pure, Except.pure, Except.ok.injEq] at he'
    subst he'
    refine ⟨{ h1 with works := h1.works.set (fp.toNat - 1) { o with Replace := ps' } }, ?_, { o with Replace := ps' },
      heapGet_listSet_same _ hw1, ?_⟩
    · simp only [ha, hw1, heapSet_of_get _ hw1, pure, Except.pure]
    · rw [hn]
      exact RepWAt_ofRepR R F Rr _
end ModVerif.Tie.FnEditWorkF
