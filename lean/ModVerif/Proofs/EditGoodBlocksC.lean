/-
  EditGoodBlocks, part C — `GoodBlocks` of the start state and along a session; C15 `typed_eq_reparse` with the comment
  placement `comShapeB` as the ONLY remaining hypothesis on the final tree.

  Start: the strict `parseToFile` reports `unknown block type` for every `LineBlock` whose token list is not one block
  verb (`addStmts`, the `blockVerbs` test), and errors are never taken back (`addStmts_step`), so a strictly parsed file
  has block verbs on all blocks (`parseStrict_goodBlocks`); `load` only renumbers (`goodBlocks_load`).
  Session: `session_gb` (part B) + the final Cleanup.
-/
import ModVerif.Proofs.EditGoodBlocksB
import ModVerif.Proofs.EditReparseF
set_option linter.unusedSimpArgs false
set_option linter.unusedVariables false
set_option linter.unnecessarySimpa false
namespace ModVerif.Modfile.Edit
open ModVerif ModVerif.Modfile ModVerif.EditSpec

/-! ### the strictly parsed file -/

theorem addStmts_gb : ∀ (xs : List Expr) (st st' : AddState) (xs' : List Expr),
    addStmts none true st xs = (st', xs') → st'.errsRev = [] → GB xs' := by
  intro xs
  induction xs with
  | nil =>
    intro st st' xs' h _
    simp only [addStmts, Prod.mk.injEq] at h
    rw [← h.2]; exact GB.nil
  | cons x rest ih =>
    intro st st' xs' h he
    unfold addStmts at h
    have tail : ∀ (st1 : AddState) (x' : Expr),
        (addStmts none true st1 rest).1 = st' → xs' = x' :: (addStmts none true st1 rest).2 → GBx x' → GB xs' := by
      intro st1 x' h1 h2 hhead
      cases hB : addStmts none true st1 rest with
      | mk st2 xs2 =>
        rw [hB] at h1 h2
        simp only at h1 h2
        subst h1 h2
        exact gb_cons.2 ⟨hhead, ih st1 st2 xs2 hB he⟩
    cases x with
    | line l =>
      cases htok : l.token with
      | nil =>
        simp only [htok] at h
        exact tail st (.line l) (Prod.mk.inj h).1 (Prod.mk.inj h).2.symm trivial
      | cons verb args =>
        simp only [htok] at h
        cases hA : File.add st none l verb args none true with
        | mk st1 args' =>
          simp only [hA] at h
          exact tail st1 (.line { l with token := verb :: args' }) (Prod.mk.inj h).1 (Prod.mk.inj h).2.symm trivial
    | lineBlock b =>
      simp only at h
      have herr : ∀ (p : Position) (k : RuleErrKind), (addStmts none true (st.err p k) rest).1 = st' → False := by
        intro p k h1
        cases hB : addStmts none true (st.err p k) rest with
        | mk st2 xs2 =>
          rw [hB] at h1; simp only at h1; subst h1
          have := (addStmts_step rest _ st2 xs2 hB he).1
          simp [AddState.err] at this
      split at h
      · rename_i verb hbt
        split at h
        · rename_i hverb
          cases hA : addBlockLines b.comments verb none true st b.lines with
          | mk st1 ls1 =>
            simp only [hA] at h
            refine tail st1 (.lineBlock { b with lines := ls1 }) (Prod.mk.inj h).1 (Prod.mk.inj h).2.symm ?_
            intro v hv
            simp only [hbt, List.cons.injEq, and_true] at hv
            rw [← hv]; exact hverb
        · simp only [if_true] at h
          exact (herr _ _ (Prod.mk.inj h).1).elim
      · simp only [if_true] at h
        exact (herr _ _ (Prod.mk.inj h).1).elim
    | commentBlock c =>
      simp only at h
      exact tail st (.commentBlock c) (Prod.mk.inj h).1 (Prod.mk.inj h).2.symm trivial
    | lparen c =>
      simp only at h
      exact tail st (.lparen c) (Prod.mk.inj h).1 (Prod.mk.inj h).2.symm trivial
    | rparen c =>
      simp only at h
      exact tail st (.rparen c) (Prod.mk.inj h).1 (Prod.mk.inj h).2.symm trivial

/-- ★ **a strictly parsed go.mod has block verbs on all its blocks**: `go ( … )`, `toolchain ( … )` and blocks of unknown
    verbs are `unknown block type` errors of the strict parser -/
theorem parseStrict_goodBlocks {name data : Bytes} {f : File} (h : parseToFile name data none true = .ok f) :
    GoodBlocks f.syn.stmts := by
  unfold parseToFile at h
  cases hp : parse name data with
  | error e => simp [hp] at h
  | ok fs =>
    simp only [hp] at h
    cases hA : addStmts none true { file := { syn := fs } } fs.stmts with
    | mk st stmts =>
      simp only [hA, fixRetract] at h
      split at h
      · rename_i he
        simp only [Except.ok.injEq] at h
        subst h
        have he' : st.errsRev = [] := by simpa using he
        exact (gb_iff _).1 (addStmts_gb fs.stmts _ st stmts hA he')
      · cases h

theorem gb_shift (fs : FileSyntax) : GB (shiftSyntax fs).stmts ↔ GB fs.stmts := by
  unfold shiftSyntax GB
  simp only [List.mem_map]
  constructor
  · intro h x hx
    have := h _ ⟨x, hx, rfl⟩
    cases x <;> exact this
  · rintro h x ⟨y, hy, rfl⟩
    have := h y hy
    cases y <;> exact this

theorem goodBlocks_load (f : File) : GoodBlocks (load f).f.syn.stmts ↔ GoodBlocks f.syn.stmts := by
  rw [← gb_iff, ← gb_iff]; exact gb_shift f.syn

/-! ### completeness of the Boolean test -/

theorem goodBlocksB_complete {stmts : List Expr} (h : GoodBlocks stmts) : goodBlocksB stmts = true := by
  unfold goodBlocksB
  rw [List.all_eq_true]
  intro x hx
  cases x with
  | lineBlock b =>
    simp only
    split
    · rename_i v hv; exact h b hx v hv
    · rfl
  | line l => rfl
  | commentBlock c => rfl
  | lparen c => rfl
  | rparen c => rfl

theorem goodBlocksB_iff (stmts : List Expr) : goodBlocksB stmts = true ↔ GoodBlocks stmts :=
  ⟨goodBlocksB_sound, goodBlocksB_complete⟩

/-! ### along a session from a strictly parsed file -/

/-- ★ **`GoodBlocks` is an invariant of sessions.**  From the strict parse of any go.mod text with well-formed keys, no block
    suffix comment and settable markers, after ANY statically valid session and the final Cleanup, every block of the tree
    carries a block verb of the strict parser: there is no `go (` / `toolchain (` block. -/
theorem goodBlocks_run (name data : Bytes) (f : File) (ops : List Op) (e' : EFile) (res : List Bool)
    (hf : parseToFile name data none true = .ok f) (hk : WellFormedKeys f) (hs : NoBlockSuffix f.syn)
    (hm : MarkersSettable f.syn.stmts) (hv : StaticValid false ops)
    (h : runOps applyMod (load f) ops [] 0 = .done e' res) :
    Inv (cleanup e') ∧ GoodBlocks (cleanup e').f.syn.stmts :=
  session_gb (load f) e' ops res (parseStrict_inv hf hk hs) ((markersSettable_load f).2 hm)
    ((goodBlocks_load f).2 (parseStrict_goodBlocks hf))
    (StaticValid.runValidLive ops false (load f) hv (fun hc => by cases hc)) h

/-- the same before the final Cleanup (every state a session ends in) -/
theorem goodBlocks_run_state (name data : Bytes) (f : File) (ops : List Op) (e' : EFile) (res : List Bool)
    (hf : parseToFile name data none true = .ok f) (hk : WellFormedKeys f) (hs : NoBlockSuffix f.syn)
    (hm : MarkersSettable f.syn.stmts) (hv : StaticValid false ops)
    (h : runOps applyMod (load f) ops [] 0 = .done e' res) :
    Inv e' ∧ GoodBlocks e'.f.syn.stmts := by
  rcases runOps_gb ops (load f) [] 0 e' res (StaticValid.runValidLive ops false (load f) hv (fun hc => by cases hc))
    (parseStrict_inv hf hk hs) ((markersSettable_load f).2 hm)
    ((gb_iff _).2 ((goodBlocks_load f).2 (parseStrict_goodBlocks hf))) h with ⟨h1, _, h3⟩
  exact ⟨h1, (gb_iff _).1 h3⟩

/-- … on `sessionMod`: the tree of the outcome passes the Boolean test `goodBlocksB` -/
theorem goodBlocks_session (file : Bytes) (ops : List Op) (o : Outcome) (f : File)
    (hf : parseStrict (B "go.mod") file none = .ok f) (hk : WellFormedKeys f) (hs : NoBlockSuffix f.syn)
    (hm : MarkersSettable f.syn.stmts) (hv : StaticValid false ops) (h : sessionMod file ops = some o) :
    goodBlocksB o.tree.stmts = true := by
  unfold sessionMod at h
  rw [hf] at h
  simp only at h
  split at h
  · rename_i e res hrun
    simp only [Option.some.injEq] at h
    subst h
    exact goodBlocksB_complete (goodBlocks_run (B "go.mod") file f ops e res hf hk hs hm hv hrun).2
  · cases h

theorem finalTreeB_of_comShape (file : Bytes) (ops : List Op) (o : Outcome) (f : File)
    (hf : parseStrict (B "go.mod") file none = .ok f) (hk : WellFormedKeys f) (hs : NoBlockSuffix f.syn)
    (hm : MarkersSettable f.syn.stmts) (hv : StaticValid false ops) (h : sessionMod file ops = some o)
    (hcom : comShapeB o.tree = true) : finalTreeB o.tree = true := by
  simp only [finalTreeB, Bool.and_eq_true]
  exact ⟨goodBlocks_session file ops o f hf hk hs hm hv h, hcom⟩

/-! ### C15 `typed_eq_reparse` with `comShapeB` as the only condition on the final tree -/

/-- **typed_eq_reparse (partial 3), on the run.**  As `typed_eq_reparse_run`, the final-tree hypothesis reduced to the comment
    placement `comShapeB` (`GoodBlocks` is derived: `goodBlocks_run`). -/
theorem typed_eq_reparse_run3 (name name' data : Bytes) (f : File) (ops : List Op) (e' : EFile) (res : List Bool)
    (hf : parseToFile name data none true = .ok f) (hk : WellFormedKeys f) (hs : NoBlockSuffix f.syn)
    (hm : MarkersSettable f.syn.stmts) (hv : StaticValid false ops)
    (h : runOps applyMod (load f) ops [] 0 = .done e' res)
    (hok : AbsOK (absOf (cleanup e').f)) (hcom : comShapeB (cleanup e').f.syn = true) :
    ∃ g, parseStrict name' (format (cleanup e').f.syn) none = .ok g ∧ AbsPerm (absOf g) (absOf (cleanup e').f) := by
  obtain ⟨hinv, hgb⟩ := goodBlocks_run name data f ops e' res hf hk hs hm hv h
  exact reparse_of_inv name' (cleanup e') hinv (cleanup_allLive e') (vok_of_absOK hok) (cleanup_linesLive e') hgb hcom

/-- **typed_eq_reparse (partial 3), on `sessionMod`.** -/
theorem typed_eq_reparse_session3 (file : Bytes) (ops : List Op) (o : Outcome) (f : File)
    (hf : parseStrict (B "go.mod") file none = .ok f) (hk : WellFormedKeys f) (hs : NoBlockSuffix f.syn)
    (hm : MarkersSettable f.syn.stmts) (hv : StaticValid false ops)
    (h : sessionMod file ops = some o) (hok : AbsOK o.typed) (hcom : comShapeB o.tree = true) :
    ∃ r, o.reparsed = some r ∧ AbsPerm r o.typed :=
  typed_eq_reparse_session file ops o f hf hk hs hm hv h hok (finalTreeB_of_comShape file ops o f hf hk hs hm hv h hcom)

/-- **typed_eq_reparse (partial 4), on `sessionMod`**: values condition on the starting file and the operation list
    (`typed_eq_reparse_session2`), final-tree condition `comShapeB` only. -/
theorem typed_eq_reparse_session4 (file : Bytes) (ops : List Op) (o : Outcome) (f : File)
    (hf : parseStrict (B "go.mod") file none = .ok f) (hk : WellFormedKeys f) (hs : NoBlockSuffix f.syn)
    (hm : MarkersSettable f.syn.stmts) (hstart : AbsOK (absOf f)) (hv : StaticValid false ops)
    (hmod : ∀ op ∈ ops, IsModOp op) (hargs : ∀ op ∈ ops, ArgsOK op.toSpec)
    (h : sessionMod file ops = some o) (hcom : comShapeB o.tree = true) :
    ∃ r, o.reparsed = some r ∧ AbsPerm r o.typed ∧ Rel o.typed (run stdValidity o.start (ops.map Op.toSpec)) :=
  typed_eq_reparse_session2 file ops o f hf hk hs hm hstart hv hmod hargs h
    (finalTreeB_of_comShape file ops o f hf hk hs hm hv h hcom)

end ModVerif.Modfile.Edit
