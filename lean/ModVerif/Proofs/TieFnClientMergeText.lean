/-
  Tie proofs, sumdb/client.go (merge unit): the TEXT of the SecurityError report.
  `bytes.Replace(b, "\n", "\n\t", -1)` of the generated code is the model's `indent`; the `for _, h := range p` loop of
  `checkTrees` appends the model's `proofLines`; the sequence of `fmt.Fprintf` literals is the model's `securityHead`.
  Core Lean only.
-/
import ModVerif.Generated.FnClient
import ModVerif.Model.Client
import ModVerif.Proofs.GoRtLemmas
namespace ModVerif.TieFnClientMerge
open ModVerif ModVerif.GoRt ModVerif.Generated.SumdbClient

/-! ### indent -/

theorem replaceAllAux_nl (fuel : Nat) (s : Bytes) (hf : s.length + 1 ≤ fuel) :
    replaceAllAux [10] [10, 9] fuel s = Client.indent s := by
  induction s generalizing fuel with
  | nil =>
    cases fuel with
    | zero => omega
    | succ f => simp [replaceAllAux, Client.indent]
  | cons c rest ih =>
    cases fuel with
    | zero => omega
    | succ f =>
      have hf' : rest.length + 1 ≤ f := by simp at hf; omega
      by_cases hc : c = 10
      · subst hc
        simp [replaceAllAux, Client.indent, ih f hf']
      · have hc' : ¬ ((10 : UInt8) = c) := fun h => hc h.symm
        simp [replaceAllAux, Client.indent, ih f hf', hc, hc']

/-- `indent := func(b) { return bytes.Replace(b, "\n", "\n\t", -1) }` -/
theorem replaceAll_nl (s : Bytes) (n : Int) : replaceAll s [10] [10, 9] n = Client.indent s := by
  unfold replaceAll
  exact replaceAllAux_nl _ s (Nat.le_refl _)

/-! ### the proof lines -/

variable {σ H : Type} [DecidableEq H] [Inhabited H]

theorem checkTrees_loop1_eq (E : ClientEnv σ H) (P : Client.Params H)
    (hs : ∀ h, E.hashString h = TlogNote.hashString (P.enc h)) (world : CW σ H) (p : List H) :
    ∀ (k : Nat) (fuel : Nat) (buf : Bytes), k ≤ p.length → p.length - k + 1 ≤ fuel →
      Client_checkTrees_loop1 E p world fuel (k : Int) buf =
        .ok ((p.length : Int), buf ++ Client.proofLines P (p.drop k)) := by
  intro k fuel
  induction fuel generalizing k with
  | zero => intro buf _ hf; omega
  | succ f ih =>
    intro buf hk hf
    unfold Client_checkTrees_loop1
    by_cases hlt : k < p.length
    · have hd : decide ((k : Int) < len p) = true := by simp [len_eq]; omega
      simp only [hd, if_true]
      rw [idxL_natCast hlt]
      simp only [bind, Except.bind]
      have hk1 : ((k : Int) + 1) = ((k + 1 : Nat) : Int) := by omega
      rw [hk1, ih (k + 1) _ (by omega) (by omega)]
      have hdrop : p.drop k = p[k] :: p.drop (k + 1) := by
        rw [List.drop_eq_getElem_cons hlt]
      rw [hdrop]
      simp [Client.proofLines, hs, List.append_assoc]
    · have hd : decide ((k : Int) < len p) = false := by simp [len_eq]; omega
      have hke : k = p.length := by omega
      simp only [hd, Bool.false_eq_true, if_false, pure, Except.pure]
      subst hke
      simp [Client.proofLines]

/-- the loop over the proof, from the start -/
theorem checkTrees_loop1_tie (E : ClientEnv σ H) (P : Client.Params H)
    (hs : ∀ h, E.hashString h = TlogNote.hashString (P.enc h)) (world : CW σ H) (p : List H) (fuel : Nat) (buf : Bytes)
    (hf : p.length + 1 ≤ fuel) :
    Client_checkTrees_loop1 E p world fuel 0 buf = .ok ((p.length : Int), buf ++ Client.proofLines P p) := by
  have := checkTrees_loop1_eq E P hs world p 0 fuel buf (Nat.zero_le _) (by omega)
  simpa using this

/-! ### the head of the report -/

theorem lit_security : ([83, 69, 67, 85, 82, 73, 84, 89, 32, 69, 82, 82, 79, 82, 10] : Bytes) = B "SECURITY ERROR\n" := by
  decide +kernel

theorem lit_misbehavior :
    ([103, 111, 46, 115, 117, 109, 32, 100, 97, 116, 97, 98, 97, 115, 101, 32, 115, 101, 114, 118, 101, 114, 32, 109, 105, 115, 98, 101, 104, 97, 118, 105, 111, 114, 32, 100, 101, 116, 101, 99, 116, 101, 100, 33, 10, 10] : Bytes) =
      B "go.sum database server misbehavior detected!\n\n" := by decide +kernel

theorem lit_old : ([111, 108, 100, 32, 100, 97, 116, 97, 98, 97, 115, 101, 58, 10, 9] : Bytes) = B "old database:\n\t" := by decide +kernel

theorem lit_new : ([110, 101, 119, 32, 100, 97, 116, 97, 98, 97, 115, 101, 58, 10, 9] : Bytes) = B "new database:\n\t" := by decide +kernel

theorem lit_proof :
    ([112, 114, 111, 111, 102, 32, 111, 102, 32, 109, 105, 115, 98, 101, 104, 97, 118, 105, 111, 114, 58, 10, 9] : Bytes) =
      B "proof of misbehavior:\n\t" := by decide +kernel

theorem lit_internal :
    ([9, 105, 110, 116, 101, 114, 110, 97, 108, 32, 101, 114, 114, 111, 114, 58, 32] : Bytes) = B "\tinternal error: " := by decide +kernel

theorem lit_inconsistent :
    ([9, 105, 110, 116, 101, 114, 110, 97, 108, 32, 101, 114, 114, 111, 114, 58, 32, 103, 101, 110, 101, 114, 97, 116, 101, 100, 32, 105, 110, 99, 111, 110, 115, 105, 115, 116, 101, 110, 116, 32, 112, 114, 111, 111, 102, 10] : Bytes) =
      B "\tinternal error: generated inconsistent proof\n" := by decide +kernel

theorem lit_latest : ([47, 108, 97, 116, 101, 115, 116] : Bytes) = B "/latest" := by decide +kernel

omit [DecidableEq H] [Inhabited H] in
/-- the buffer of `checkTrees` after `fmt.Fprintf(&buf, "proof of misbehavior:\n\t%v", h)` is the model's `securityHead`,
    byte for byte -/
theorem securityHead_eq (E : ClientEnv σ H) (P : Client.Params H)
    (hs : ∀ h, E.hashString h = TlogNote.hashString (P.enc h)) (olderNote newerNote : Bytes) (h : H) :
    (((((([] : Bytes) ++ ([83, 69, 67, 85, 82, 73, 84, 89, 32, 69, 82, 82, 79, 82, 10] : Bytes)) ++
      ([103, 111, 46, 115, 117, 109, 32, 100, 97, 116, 97, 98, 97, 115, 101, 32, 115, 101, 114, 118, 101, 114, 32, 109, 105, 115, 98, 101, 104, 97, 118, 105, 111, 114, 32, 100, 101, 116, 101, 99, 116, 101, 100, 33, 10, 10] : Bytes)) ++
      (([111, 108, 100, 32, 100, 97, 116, 97, 98, 97, 115, 101, 58, 10, 9] : Bytes) ++ (replaceAll olderNote ([10] : Bytes) ([10, 9] : Bytes) (-1 : Int)) ++ ([10] : Bytes))) ++
      (([110, 101, 119, 32, 100, 97, 116, 97, 98, 97, 115, 101, 58, 10, 9] : Bytes) ++ (replaceAll newerNote ([10] : Bytes) ([10, 9] : Bytes) (-1 : Int)) ++ ([10] : Bytes))) ++
      (([112, 114, 111, 111, 102, 32, 111, 102, 32, 109, 105, 115, 98, 101, 104, 97, 118, 105, 111, 114, 58, 10, 9] : Bytes) ++ (E.hashString h))) =
    Client.securityHead P olderNote newerNote h := by
  rw [lit_security, lit_misbehavior, lit_old, lit_new, lit_proof, replaceAll_nl, replaceAll_nl, hs]
  simp only [Client.securityHead, List.nil_append, List.append_assoc]

end ModVerif.TieFnClientMerge
