/- bytewise lexicographic order on byte strings is a strict total order; `bytesCmp` is a StrictCmp. -/
import ModVerif.Proofs.Cmp
namespace ModVerif

theorem u8_trich (a b : UInt8) (h1 : ¬ a < b) (h2 : ¬ b < a) : a = b := by
  have h1 : b ≤ a := UInt8.not_lt.mp h1
  have h2 : a ≤ b := UInt8.not_lt.mp h2
  exact UInt8.le_antisymm h2 h1

theorem bytesLt_irrefl : ∀ a : Bytes, bytesLt a a = false
  | [] => rfl
  | x :: xs => by simp [bytesLt, UInt8.lt_irrefl, bytesLt_irrefl xs]

theorem bytesLt_asymm : ∀ a b : Bytes, bytesLt a b = true → bytesLt b a = false
  | [], [] => by simp [bytesLt]
  | [], _ :: _ => by simp [bytesLt]
  | _ :: _, [] => by simp [bytesLt]
  | x :: xs, y :: ys => by
    unfold bytesLt
    by_cases h1 : x < y
    · have : ¬ y < x := fun h => UInt8.lt_irrefl x (UInt8.lt_trans h1 h)
      simp [h1, this]
    · by_cases h2 : y < x
      · simp [h1, h2]
      · simp [h1, h2]; exact bytesLt_asymm xs ys

theorem bytesLt_trans : ∀ a b c : Bytes, bytesLt a b = true → bytesLt b c = true → bytesLt a c = true
  | [], [], _ => by simp [bytesLt]
  | [], _ :: _, [] => by simp [bytesLt]
  | [], _ :: _, _ :: _ => by simp [bytesLt]
  | _ :: _, [], _ => by simp [bytesLt]
  | _ :: _, _ :: _, [] => by simp [bytesLt]
  | x :: xs, y :: ys, z :: zs => by
    unfold bytesLt
    by_cases xy : x < y
    · by_cases yz : y < z
      · have := UInt8.lt_trans xy yz; simp [xy, yz, this]
      · by_cases zy : z < y
        · simp [xy, yz, zy]
        · have e := u8_trich y z yz zy; subst e; simp [xy]
    · by_cases yx : y < x
      · simp [xy, yx]
      · have e := u8_trich x y xy yx; subst e
        by_cases yz : x < z
        · simp [yz]
        · by_cases zy : z < x
          · simp [yz, zy]
          · simp [xy, yz, zy]; exact bytesLt_trans xs ys zs

theorem bytesLt_total : ∀ a b : Bytes, bytesLt a b = false → bytesLt b a = false → a = b
  | [], [] => by simp
  | [], _ :: _ => by simp [bytesLt]
  | _ :: _, [] => by simp [bytesLt]
  | x :: xs, y :: ys => by
    unfold bytesLt
    by_cases xy : x < y
    · simp [xy]
    · by_cases yx : y < x
      · simp [xy, yx]
      · have e := u8_trich x y xy yx; subst e
        simp [xy]; intro h1 h2; exact bytesLt_total xs ys h1 h2

theorem bytesCmp_strict : StrictCmp bytesCmp where
  range := by
    intro x y; unfold bytesCmp
    by_cases h : x = y
    · simp [h]
    · cases hl : bytesLt x y <;> simp [h]
  eq_iff := by
    intro x y; unfold bytesCmp
    by_cases h : x = y
    · simp [h]
    · cases hl : bytesLt x y <;> simp [h]
  antisymm := by
    intro x y; unfold bytesCmp
    by_cases h : x = y
    · subst h; simp
    · have h' : ¬ y = x := fun e => h e.symm
      cases hl : bytesLt x y
      · cases hr : bytesLt y x
        · exact absurd (bytesLt_total x y hl hr) h
        · simp [h, h']
      · have := bytesLt_asymm x y hl
        simp [h, h', this]
  trans := by
    intro x y z; unfold bytesCmp
    intro h1 h2
    have xy : bytesLt x y = true := by
      by_cases e : x = y
      · simp [e] at h1
      · cases hl : bytesLt x y
        · simp [e, hl] at h1
        · rfl
    have yz : bytesLt y z = true := by
      by_cases e : y = z
      · simp [e] at h2
      · cases hl : bytesLt y z
        · simp [e, hl] at h2
        · rfl
    have xz := bytesLt_trans x y z xy yz
    have ne : ¬ x = z := by
      intro e; subst e
      have := bytesLt_irrefl x
      rw [this] at xz; cases xz
    simp [ne, xz]

end ModVerif
