/- lexicographic comparator on lists (a proper prefix is smaller) and on options. -/
import ModVerif.Proofs.Cmp
namespace ModVerif

def listCmp {α : Type} (c : α → α → Int) : List α → List α → Int
  | [], [] => 0
  | [], _ :: _ => -1
  | _ :: _, [] => 1
  | x :: xs, y :: ys => if c x y ≠ 0 then c x y else listCmp c xs ys

theorem listCmp_strict {α : Type} {c : α → α → Int} (hc : StrictCmp c) : StrictCmp (listCmp c) where
  range := by
    intro x; induction x with
    | nil => intro y; cases y <;> simp [listCmp]
    | cons a as ih =>
      intro y; cases y with
      | nil => simp [listCmp]
      | cons b bs =>
        unfold listCmp; split
        · exact hc.range _ _
        · exact ih bs
  eq_iff := by
    intro x; induction x with
    | nil => intro y; cases y <;> simp [listCmp]
    | cons a as ih =>
      intro y; cases y with
      | nil => simp [listCmp]
      | cons b bs =>
        unfold listCmp
        by_cases h : c a b = 0
        · have e := (hc.eq_iff _ _).1 h
          subst e
          simp [hc.refl, ih bs]
        · have : a ≠ b := fun e => h ((hc.eq_iff _ _).2 e)
          simp [h, this]
  antisymm := by
    intro x; induction x with
    | nil => intro y; cases y <;> simp [listCmp]
    | cons a as ih =>
      intro y; cases y with
      | nil => simp [listCmp]
      | cons b bs =>
        unfold listCmp
        have a1 := hc.antisymm a b
        by_cases h : c a b = 0
        · have h' : c b a = 0 := by omega
          simp [h, h', ih bs]
        · have h' : c b a ≠ 0 := by omega
          simp [h', a1]
  trans := by
    intro x; induction x with
    | nil =>
      intro y z; cases y <;> cases z <;> simp [listCmp]
    | cons a as ih =>
      intro y z
      cases y with
      | nil => simp [listCmp]
      | cons b bs =>
        cases z with
        | nil => simp [listCmp]
        | cons d ds =>
          unfold listCmp
          intro h1 h2
          by_cases e1 : c a b = 0
          · have ab := (hc.eq_iff _ _).1 e1
            simp [e1] at h1
            by_cases e2 : c b d = 0
            · have bd := (hc.eq_iff _ _).1 e2
              simp [e2] at h2
              have : c a d = 0 := by rw [ab, bd]; exact hc.refl _
              simp [this]; exact ih bs ds h1 h2
            · simp [e2] at h2
              have : c a d = -1 := by rw [ab]; exact h2
              simp [this]
          · simp [e1] at h1
            by_cases e2 : c b d = 0
            · have bd := (hc.eq_iff _ _).1 e2
              have : c a d = -1 := by rw [← bd]; exact h1
              simp [this]
            · simp [e2] at h2
              have := hc.trans _ _ _ h1 h2
              simp [this]

/-- `none` is the greatest element (a version without prerelease is higher). -/
def optHighCmp {α : Type} (c : α → α → Int) : Option α → Option α → Int
  | none, none => 0
  | none, some _ => 1
  | some _, none => -1
  | some x, some y => c x y

theorem optHighCmp_strict {α : Type} {c : α → α → Int} (hc : StrictCmp c) : StrictCmp (optHighCmp c) where
  range := by intro x y; cases x <;> cases y <;> simp [optHighCmp]; exact hc.range _ _
  eq_iff := by intro x y; cases x <;> cases y <;> simp [optHighCmp]; exact hc.eq_iff _ _
  antisymm := by intro x y; cases x <;> cases y <;> simp [optHighCmp]; exact hc.antisymm _ _
  trans := by
    intro x y z; cases x <;> cases y <;> cases z <;> simp [optHighCmp]
    exact hc.trans _ _ _

/-- `none` is the least element (invalid versions sort below valid ones). -/
def optLowCmp {α : Type} (c : α → α → Int) : Option α → Option α → Int
  | none, none => 0
  | none, some _ => -1
  | some _, none => 1
  | some x, some y => c x y

theorem optLowCmp_strict {α : Type} {c : α → α → Int} (hc : StrictCmp c) : StrictCmp (optLowCmp c) where
  range := by intro x y; cases x <;> cases y <;> simp [optLowCmp]; exact hc.range _ _
  eq_iff := by intro x y; cases x <;> cases y <;> simp [optLowCmp]; exact hc.eq_iff _ _
  antisymm := by intro x y; cases x <;> cases y <;> simp [optLowCmp]; exact hc.antisymm _ _
  trans := by
    intro x y z; cases x <;> cases y <;> cases z <;> simp [optLowCmp]
    exact hc.trans _ _ _

end ModVerif
