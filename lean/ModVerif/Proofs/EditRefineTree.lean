/-
  EditRefine, part 11 — the syntax tree as a list of live directive lines (`view`): what each tree operation of
  read.go (`updateLine`, `markRemoved`, `addLine`, `Cleanup`) and of rule.go (`SortBlocks`, `removeDups`) does to it.

  A `VLine` is a live line with its FULL tokens (the block's verb in front for a line inside a block) and its
  end-of-line comments; `view` lists them in file order.  Tree well-formedness `TreeWF`: line ids pairwise different and below
  the fresh-id counter, every block token a single verb, the `inBlock` flags right, no suffix comment on a block.
-/
import ModVerif.Proofs.EditRefineWork
import ModVerif.Proofs.EditModel
set_option linter.unusedSimpArgs false
namespace ModVerif.Modfile.Edit
open ModVerif ModVerif.Modfile

structure VLine where
  id : Nat
  toks : List Bytes
  suffix : List Comment      -- the end-of-line comments (they carry the `// indirect` marker)
  deriving DecidableEq, Repr

/-- the lines of a statement, each with the verb tokens of its block (`[]` at top level) -/
def locStmt : Expr → List (List Bytes × Line)
  | .line l => [([], l)]
  | .lineBlock b => b.lines.map fun l => (b.token, l)
  | _ => []

def loc (stmts : List Expr) : List (List Bytes × Line) := stmts.flatMap locStmt

def liveLoc (p : List Bytes × Line) : Bool := !p.2.token.isEmpty
def mkV (p : List Bytes × Line) : VLine := ⟨p.2.id, p.1 ++ p.2.token, p.2.comments.suffix⟩

/-- the live lines of the tree with their full tokens -/
def view (stmts : List Expr) : List VLine := ((loc stmts).filter liveLoc).map mkV

/-- all line ids of the tree (removed lines included) -/
def treeIds (stmts : List Expr) : List Nat := (loc stmts).map (·.2.id)

theorem loc_cons (x : Expr) (xs : List Expr) : loc (x :: xs) = locStmt x ++ loc xs := by simp [loc]
theorem loc_append (xs ys : List Expr) : loc (xs ++ ys) = loc xs ++ loc ys := by simp [loc]
theorem view_cons (x : Expr) (xs : List Expr) : view (x :: xs) = view [x] ++ view xs := by
  simp [view, loc, List.filter_append]
theorem view_append (xs ys : List Expr) : view (xs ++ ys) = view xs ++ view ys := by
  simp [view, loc_append, List.filter_append]
theorem treeIds_cons (x : Expr) (xs : List Expr) : treeIds (x :: xs) = treeIds [x] ++ treeIds xs := by
  simp [treeIds, loc]
theorem treeIds_append (xs ys : List Expr) : treeIds (xs ++ ys) = treeIds xs ++ treeIds ys := by
  simp [treeIds, loc_append]

theorem allLines_eq_loc (fs : FileSyntax) : fs.allLines = (loc fs.stmts).map (·.2) := by
  unfold FileSyntax.allLines loc
  induction fs.stmts with
  | nil => rfl
  | cons x xs ih =>
    simp only [List.flatMap_cons, List.map_append, ih]
    congr 1
    cases x <;> simp [locStmt, List.map_map, Function.comp_def]

structure TreeWF (stmts : List Expr) (next : Nat) : Prop where
  nodup : (treeIds stmts).Nodup
  lt : ∀ i ∈ treeIds stmts, i < next
  pos : ∀ i ∈ treeIds stmts, i ≠ 0
  blockTok : ∀ b, Expr.lineBlock b ∈ stmts → ∃ v, b.token = [v]
  flagTop : ∀ l, Expr.line l ∈ stmts → l.inBlock = false
  flagIn : ∀ b, Expr.lineBlock b ∈ stmts → ∀ l ∈ b.lines, l.inBlock = true
  noBlockSuffix : ∀ b, Expr.lineBlock b ∈ stmts → b.comments.suffix = []

/-! ### mapping a function over the lines -/

def mapLinesStmt (f : Line → Line) : Expr → Expr
  | .line l => .line (f l)
  | .lineBlock b => .lineBlock { b with lines := b.lines.map f }
  | x => x

theorem loc_mapLines (f : Line → Line) (stmts : List Expr) :
    loc (stmts.map (mapLinesStmt f)) = (loc stmts).map fun p => (p.1, f p.2) := by
  induction stmts with
  | nil => rfl
  | cons x xs ih =>
    simp only [List.map_cons, loc_cons, ih, List.map_append]
    congr 1
    cases x <;> simp [mapLinesStmt, locStmt, List.map_map, Function.comp_def]

theorem updateLineIn_eq_map (id : Nat) (g : Line → Line) (ls : List Line) (h : (ls.map (·.id)).Nodup) :
    updateLineIn id g ls = ls.map fun l => if l.id == id then g l else l := by
  induction ls with
  | nil => rfl
  | cons l ls ih =>
    simp only [List.map_cons, List.nodup_cons] at h
    unfold updateLineIn
    by_cases hl : (l.id == id) = true
    · simp only [hl, if_true, List.map_cons]
      congr 1
      have : ∀ x ∈ ls, (x.id == id) = false := by
        intro x hx
        cases hb : x.id == id with
        | false => rfl
        | true =>
          exfalso; apply h.1
          rw [eq_of_beq hl, ← eq_of_beq hb]
          exact List.mem_map.2 ⟨x, hx, rfl⟩
      symm
      calc ls.map (fun l => if l.id == id then g l else l) = ls.map (fun l => l) := by
            apply List.map_congr_left; intro x hx; simp [this x hx]
        _ = ls := by simp
    · simp only [Bool.not_eq_true] at hl
      simp only [hl, Bool.false_eq_true, if_false, List.map_cons, ih h.2]

theorem nodup_block {stmts : List Expr} (h : (treeIds stmts).Nodup) (b : LineBlock) (hb : Expr.lineBlock b ∈ stmts) :
    (b.lines.map (·.id)).Nodup := by
  induction stmts with
  | nil => cases hb
  | cons x xs ih =>
    rw [treeIds_cons] at h
    rcases List.nodup_append.1 h with ⟨h1, h2, _⟩
    rcases List.mem_cons.1 hb with rfl | hb'
    · simpa [treeIds, loc, locStmt, List.map_map, Function.comp_def] using h1
    · exact ih h2 hb'

/-- `FileSyntax.updateLine` is a map over the lines when line ids are pairwise different -/
theorem updateLine_stmts (fs : FileSyntax) (id : Nat) (g : Line → Line) (h : (treeIds fs.stmts).Nodup) :
    (fs.updateLine id g).stmts = fs.stmts.map (mapLinesStmt fun l => if l.id == id then g l else l) := by
  unfold FileSyntax.updateLine
  simp only
  apply List.map_congr_left
  intro x hx
  cases x with
  | line l => simp only [mapLinesStmt]; split <;> rfl
  | lineBlock b => simp only [mapLinesStmt]; rw [updateLineIn_eq_map id g b.lines (nodup_block h b hx)]
  | commentBlock _ => rfl
  | lparen _ => rfl
  | rparen _ => rfl

theorem loc_updateLine (fs : FileSyntax) (id : Nat) (g : Line → Line) (h : (treeIds fs.stmts).Nodup) :
    loc (fs.updateLine id g).stmts = (loc fs.stmts).map fun p => (p.1, if p.2.id == id then g p.2 else p.2) := by
  rw [updateLine_stmts fs id g h, loc_mapLines]

theorem treeIds_updateLine (fs : FileSyntax) (id : Nat) (g : Line → Line) (h : (treeIds fs.stmts).Nodup)
    (hg : ∀ l, (g l).id = l.id) : treeIds (fs.updateLine id g).stmts = treeIds fs.stmts := by
  unfold treeIds
  rw [loc_updateLine fs id g h, List.map_map]
  apply List.map_congr_left
  intro p _
  simp only [Function.comp]
  split
  · exact hg _
  · rfl

theorem mem_view {stmts : List Expr} {v : VLine} : v ∈ view stmts ↔ ∃ p ∈ loc stmts, liveLoc p = true ∧ mkV p = v := by
  unfold view
  simp only [List.mem_map, List.mem_filter]
  constructor
  · rintro ⟨p, ⟨h1, h2⟩, h3⟩; exact ⟨p, h1, h2, h3⟩
  · rintro ⟨p, h1, h2, h3⟩; exact ⟨p, ⟨h1, h2⟩, h3⟩

theorem view_id_mem_treeIds {stmts : List Expr} {v : VLine} (h : v ∈ view stmts) : v.id ∈ treeIds stmts := by
  rcases mem_view.1 h with ⟨p, hp, _, rfl⟩
  exact List.mem_map.2 ⟨p, hp, rfl⟩

/-- two located lines with the same id are the same (ids are pairwise different) -/
theorem loc_unique {stmts : List Expr} (h : (treeIds stmts).Nodup) {p q : List Bytes × Line}
    (hp : p ∈ loc stmts) (hq : q ∈ loc stmts) (he : p.2.id = q.2.id) : p = q := by
  unfold treeIds at h
  generalize loc stmts = L at h hp hq
  induction L with
  | nil => cases hp
  | cons x xs ih =>
    simp only [List.map_cons, List.nodup_cons] at h
    rcases List.mem_cons.1 hp with rfl | hp' <;> rcases List.mem_cons.1 hq with rfl | hq'
    · rfl
    · exact absurd (List.mem_map.2 ⟨q, hq', he.symm⟩) h.1
    · exact absurd (List.mem_map.2 ⟨p, hp', he⟩) h.1
    · exact ih h.2 hp' hq'

/-- a located line is at top level (no verb in front, `inBlock` false) or in a block (one verb, `inBlock` true) -/
theorem TreeWF.locShape {stmts : List Expr} {next : Nat} (h : TreeWF stmts next) :
    ∀ p ∈ loc stmts, (p.1 = [] ∧ p.2.inBlock = false) ∨ (∃ v, p.1 = [v] ∧ p.2.inBlock = true) := by
  intro p hp
  unfold loc at hp
  rcases List.mem_flatMap.1 hp with ⟨x, hx, hpx⟩
  cases x with
  | line l =>
    simp only [locStmt, List.mem_singleton] at hpx
    subst hpx
    exact Or.inl ⟨rfl, h.flagTop l hx⟩
  | lineBlock b =>
    simp only [locStmt, List.mem_map] at hpx
    rcases hpx with ⟨l, hl, rfl⟩
    rcases h.blockTok b hx with ⟨v, hv⟩
    exact Or.inr ⟨v, hv, h.flagIn b hx l hl⟩
  | commentBlock _ => simp [locStmt] at hpx
  | lparen _ => simp [locStmt] at hpx
  | rparen _ => simp [locStmt] at hpx

/-- the view after `FileSyntax.updateLine id g` (for `g` keeping the id): the other lines are untouched, the line
    `id` is rebuilt from `g` -/
theorem mem_view_updateLine (fs : FileSyntax) (id : Nat) (g : Line → Line) (h : (treeIds fs.stmts).Nodup)
    (_hg : ∀ l, (g l).id = l.id) (v : VLine) :
    v ∈ view (fs.updateLine id g).stmts ↔
      (v.id ≠ id ∧ v ∈ view fs.stmts) ∨
      (∃ p ∈ loc fs.stmts, p.2.id = id ∧ liveLoc (p.1, g p.2) = true ∧ v = mkV (p.1, g p.2)) := by
  rw [mem_view, loc_updateLine fs id g h]
  constructor
  · rintro ⟨q, hq, hlive, rfl⟩
    rcases List.mem_map.1 hq with ⟨p, hp, rfl⟩
    by_cases hid : (p.2.id == id) = true
    · simp only [hid, if_true] at hlive ⊢
      exact Or.inr ⟨p, hp, eq_of_beq hid, hlive, rfl⟩
    · simp only [Bool.not_eq_true] at hid
      simp only [hid, Bool.false_eq_true, if_false] at hlive ⊢
      refine Or.inl ⟨?_, mem_view.2 ⟨p, hp, hlive, rfl⟩⟩
      simp only [mkV]
      intro e; simp [e] at hid
  · rintro (⟨hne, hv⟩ | ⟨p, hp, hid, hlive, rfl⟩)
    · rcases mem_view.1 hv with ⟨p, hp, hlive, rfl⟩
      have hid : (p.2.id == id) = false := by
        cases hb : p.2.id == id with
        | false => rfl
        | true => exact absurd (eq_of_beq hb) hne
      exact ⟨(p.1, if p.2.id == id then g p.2 else p.2), List.mem_map.2 ⟨p, hp, rfl⟩, by simp [hid, hlive], by simp [hid]⟩
    · have hb : (p.2.id == id) = true := by rw [hid]; exact beq_self_eq_true _
      exact ⟨(p.1, if p.2.id == id then g p.2 else p.2), List.mem_map.2 ⟨p, hp, rfl⟩, by simp [hb, hlive], by simp [hb]⟩

theorem mem_mapLines_block {f : Line → Line} {stmts : List Expr} {b : LineBlock}
    (h : Expr.lineBlock b ∈ stmts.map (mapLinesStmt f)) :
    ∃ b0, Expr.lineBlock b0 ∈ stmts ∧ b = { b0 with lines := b0.lines.map f } := by
  rcases List.mem_map.1 h with ⟨x, hx, hxe⟩
  cases x with
  | lineBlock b0 => simp only [mapLinesStmt, Expr.lineBlock.injEq] at hxe; exact ⟨b0, hx, hxe.symm⟩
  | line _ => simp [mapLinesStmt] at hxe
  | commentBlock _ => simp [mapLinesStmt] at hxe
  | lparen _ => simp [mapLinesStmt] at hxe
  | rparen _ => simp [mapLinesStmt] at hxe

theorem mem_mapLines_line {f : Line → Line} {stmts : List Expr} {l : Line}
    (h : Expr.line l ∈ stmts.map (mapLinesStmt f)) : ∃ l0, Expr.line l0 ∈ stmts ∧ l = f l0 := by
  rcases List.mem_map.1 h with ⟨x, hx, hxe⟩
  cases x with
  | line l0 => simp only [mapLinesStmt, Expr.line.injEq] at hxe; exact ⟨l0, hx, hxe.symm⟩
  | lineBlock _ => simp [mapLinesStmt] at hxe
  | commentBlock _ => simp [mapLinesStmt] at hxe
  | lparen _ => simp [mapLinesStmt] at hxe
  | rparen _ => simp [mapLinesStmt] at hxe

theorem TreeWF.mapLines {stmts : List Expr} {next : Nat} (h : TreeWF stmts next) (f : Line → Line)
    (hid : ∀ l, (f l).id = l.id) (hfl : ∀ l, (f l).inBlock = l.inBlock) : TreeWF (stmts.map (mapLinesStmt f)) next := by
  have hids : treeIds (stmts.map (mapLinesStmt f)) = treeIds stmts := by
    unfold treeIds; rw [loc_mapLines, List.map_map]; apply List.map_congr_left; intro p _; exact hid _
  refine ⟨by rw [hids]; exact h.nodup, by rw [hids]; exact h.lt, by rw [hids]; exact h.pos, ?_, ?_, ?_, ?_⟩
  · intro b hb
    rcases mem_mapLines_block hb with ⟨b0, hb0, rfl⟩
    exact h.blockTok b0 hb0
  · intro l hl
    rcases mem_mapLines_line hl with ⟨l0, hl0, rfl⟩
    rw [hfl]; exact h.flagTop l0 hl0
  · intro b hb l hl
    rcases mem_mapLines_block hb with ⟨b0, hb0, rfl⟩
    simp only [List.mem_map] at hl
    rcases hl with ⟨l0, hl0, rfl⟩
    rw [hfl]; exact h.flagIn b0 hb0 l0 hl0
  · intro b hb
    rcases mem_mapLines_block hb with ⟨b0, hb0, rfl⟩
    exact h.noBlockSuffix b0 hb0

theorem TreeWF.updateLine {fs : FileSyntax} {next : Nat} (h : TreeWF fs.stmts next) (id : Nat) (g : Line → Line)
    (hid : ∀ l, (g l).id = l.id) (hfl : ∀ l, (g l).inBlock = l.inBlock) : TreeWF (fs.updateLine id g).stmts next := by
  rw [updateLine_stmts fs id g h.nodup]
  apply h.mapLines
  · intro l; split
    · exact hid l
    · rfl
  · intro l; split
    · exact hfl l
    · rfl

/-! ### markRemoved, updateLine (tokens) -/

theorem mem_view_markRemoved (fs : FileSyntax) (id : Nat) (h : (treeIds fs.stmts).Nodup) (v : VLine) :
    v ∈ view (markRemoved fs id).stmts ↔ v ∈ view fs.stmts ∧ v.id ≠ id := by
  unfold markRemoved
  refine (mem_view_updateLine fs id
    (fun l => { l with token := [], comments := { l.comments with suffix := [] } }) h (fun _ => rfl) v).trans ?_
  constructor
  · rintro (⟨h1, h2⟩ | ⟨p, _, _, hlive, _⟩)
    · exact ⟨h2, h1⟩
    · simp [liveLoc] at hlive
  · rintro ⟨h1, h2⟩; exact Or.inl ⟨h2, h1⟩

theorem TreeWF.markRemoved {fs : FileSyntax} {next : Nat} (h : TreeWF fs.stmts next) (id : Nat) :
    TreeWF (markRemoved fs id).stmts next :=
  h.updateLine id _ (fun _ => rfl) (fun _ => rfl)

theorem treeIds_markRemoved (fs : FileSyntax) (id : Nat) (h : (treeIds fs.stmts).Nodup) :
    treeIds (markRemoved fs id).stmts = treeIds fs.stmts :=
  treeIds_updateLine fs id _ h (fun _ => rfl)

theorem markAll_spec (ids : List Nat) : ∀ (fs : FileSyntax) (next : Nat), TreeWF fs.stmts next →
    TreeWF (markAll fs ids).stmts next ∧ treeIds (markAll fs ids).stmts = treeIds fs.stmts ∧
    ∀ v, v ∈ view (markAll fs ids).stmts ↔ v ∈ view fs.stmts ∧ v.id ∉ ids := by
  induction ids with
  | nil => intro fs next h; exact ⟨h, rfl, fun v => by simp [markAll]⟩
  | cons i is ih =>
    intro fs next h
    have h1 := h.markRemoved i
    rcases ih (markRemoved fs i) next h1 with ⟨h2, h3, h4⟩
    refine ⟨h2, by rw [← treeIds_markRemoved fs i h.nodup]; exact h3, ?_⟩
    intro v
    have := h4 v
    simp only [markAll, List.foldl_cons] at this ⊢
    rw [this, mem_view_markRemoved fs i h.nodup]
    simp only [List.mem_cons, not_or]
    constructor
    · rintro ⟨⟨a, b⟩, c⟩; exact ⟨a, b, c⟩
    · rintro ⟨a, b, c⟩; exact ⟨⟨a, b⟩, c⟩

/-- `updateLine` with new full tokens `verb :: t :: rest` on a live line whose full tokens start with the same verb:
    that line gets exactly the new tokens, nothing else changes -/
theorem mem_view_updateTokens (fs : FileSyntax) (next : Nat) (id : Nat) (verb t : Bytes) (rest : List Bytes)
    (h : TreeWF fs.stmts next) (v0 : VLine) (hv0 : v0 ∈ view fs.stmts) (hid0 : v0.id = id)
    (hverb : v0.toks.head? = some verb) (v : VLine) :
    v ∈ view (updateLine fs id (verb :: t :: rest)).stmts ↔
      (v.id ≠ id ∧ v ∈ view fs.stmts) ∨ v = { v0 with toks := verb :: t :: rest } := by
  unfold Edit.updateLine
  refine (mem_view_updateLine fs id
    (fun l => { l with token := if l.inBlock then (verb :: t :: rest).drop 1 else verb :: t :: rest }) h.nodup (fun _ => rfl) v).trans ?_
  rcases mem_view.1 hv0 with ⟨p0, hp0, hlive0, rfl⟩
  simp only [mkV] at hid0 hverb
  have key : mkV (p0.1, { p0.2 with token := if p0.2.inBlock = true then (verb :: t :: rest).drop 1 else verb :: t :: rest })
      = { mkV p0 with toks := verb :: t :: rest } ∧
      liveLoc (p0.1, { p0.2 with token := if p0.2.inBlock = true then (verb :: t :: rest).drop 1 else verb :: t :: rest }) = true := by
    rcases h.locShape p0 hp0 with ⟨h1, h2⟩ | ⟨w, h1, h2⟩
    · simp [mkV, liveLoc, h1, h2]
    · have : w = verb := by
        rw [h1] at hverb; simpa using hverb
      simp [mkV, liveLoc, h1, h2, this]
  constructor
  · rintro (hl | ⟨p, hp, hid, _, rfl⟩)
    · exact Or.inl hl
    · have : p = p0 := loc_unique h.nodup hp hp0 (hid.trans hid0.symm)
      subst this
      exact Or.inr key.1
  · rintro (hl | rfl)
    · exact Or.inl hl
    · exact Or.inr ⟨p0, hp0, hid0, key.2, key.1.symm⟩

theorem TreeWF.updateTokens {fs : FileSyntax} {next : Nat} (h : TreeWF fs.stmts next) (id : Nat) (toks : List Bytes) :
    TreeWF (Edit.updateLine fs id toks).stmts next :=
  h.updateLine id _ (fun _ => rfl) (fun _ => rfl)

theorem treeIds_updateTokens (fs : FileSyntax) (id : Nat) (toks : List Bytes) (h : (treeIds fs.stmts).Nodup) :
    treeIds (Edit.updateLine fs id toks).stmts = treeIds fs.stmts :=
  treeIds_updateLine fs id _ h (fun _ => rfl)

/-! ### addLine -/

/-- the id-independent part of `TreeWF` -/
structure ShapeWF (stmts : List Expr) : Prop where
  blockTok : ∀ b, Expr.lineBlock b ∈ stmts → ∃ v, b.token = [v]
  flagTop : ∀ l, Expr.line l ∈ stmts → l.inBlock = false
  flagIn : ∀ b, Expr.lineBlock b ∈ stmts → ∀ l ∈ b.lines, l.inBlock = true
  noBlockSuffix : ∀ b, Expr.lineBlock b ∈ stmts → b.comments.suffix = []

theorem TreeWF.shape {stmts : List Expr} {next : Nat} (h : TreeWF stmts next) : ShapeWF stmts :=
  ⟨h.blockTok, h.flagTop, h.flagIn, h.noBlockSuffix⟩

theorem ShapeWF.of_subset {s1 s2 : List Expr} (h : ShapeWF s2) (hs : ∀ x ∈ s1, x ∈ s2) : ShapeWF s1 :=
  ⟨fun b hb => h.blockTok b (hs _ hb), fun l hl => h.flagTop l (hs _ hl), fun b hb => h.flagIn b (hs _ hb),
   fun b hb => h.noBlockSuffix b (hs _ hb)⟩

theorem ShapeWF.tail {x : Expr} {xs : List Expr} (h : ShapeWF (x :: xs)) : ShapeWF xs :=
  h.of_subset fun _ hy => List.mem_cons_of_mem _ hy

theorem ShapeWF.cons {x : Expr} {xs : List Expr} (hx : ShapeWF [x]) (hxs : ShapeWF xs) : ShapeWF (x :: xs) := by
  refine ⟨fun b hb => ?_, fun l hl => ?_, fun b hb => ?_, fun b hb => ?_⟩ <;> rcases List.mem_cons.1 ‹_› with h | h
  · exact hx.blockTok b (by rw [h]; exact List.mem_singleton.2 rfl)
  · exact hxs.blockTok b h
  · exact hx.flagTop l (by rw [h]; exact List.mem_singleton.2 rfl)
  · exact hxs.flagTop l h
  · exact hx.flagIn b (by rw [h]; exact List.mem_singleton.2 rfl)
  · exact hxs.flagIn b h
  · exact hx.noBlockSuffix b (by rw [h]; exact List.mem_singleton.2 rfl)
  · exact hxs.noBlockSuffix b h

theorem ShapeWF.head {x : Expr} {xs : List Expr} (h : ShapeWF (x :: xs)) : ShapeWF [x] :=
  h.of_subset fun y hy => by rw [List.mem_singleton.1 hy]; exact List.mem_cons_self

theorem ShapeWF.append {xs ys : List Expr} (hx : ShapeWF xs) (hy : ShapeWF ys) : ShapeWF (xs ++ ys) := by
  induction xs with
  | nil => exact hy
  | cons x xs ih => exact ShapeWF.cons hx.head (ih hx.tail)

theorem ShapeWF.newLine (new : Nat) (tokens : List Bytes) : ShapeWF [Expr.line (mkLine new tokens false)] :=
  ⟨fun b hb => by simp at hb, fun l hl => by simp at hl; subst hl; rfl, fun b hb => by simp at hb, fun b hb => by simp at hb⟩

/-- every live line has at least two full tokens (a verb and an argument) -/
def View2 (stmts : List Expr) : Prop := ∀ v ∈ view stmts, 2 ≤ v.toks.length

theorem View2.tail {x : Expr} {xs : List Expr} (h : View2 (x :: xs)) : View2 xs :=
  fun v hv => h v (by rw [view_cons]; exact List.mem_append_right _ hv)
theorem View2.head {x : Expr} {xs : List Expr} (h : View2 (x :: xs)) : View2 [x] :=
  fun v hv => h v (by rw [view_cons]; exact List.mem_append_left _ hv)

theorem insertAfterId_spec (h : Nat) (new : Line) (ls r : List Line) (hr : insertAfterId h new ls = some r) :
    ∃ l1 l2, ls = l1 ++ l2 ∧ r = l1 ++ new :: l2 := by
  induction ls generalizing r with
  | nil => simp [insertAfterId] at hr
  | cons l ls ih =>
    unfold insertAfterId at hr
    split at hr
    · simp only [Option.some.injEq] at hr; subst hr
      exact ⟨[l], ls, rfl, rfl⟩
    · cases hi : insertAfterId h new ls with
      | none => simp [hi] at hr
      | some r' =>
        simp only [hi, Option.some.injEq] at hr; subst hr
        rcases ih r' hi with ⟨l1, l2, e1, e2⟩
        exact ⟨l :: l1, l2, by rw [e1]; rfl, by rw [e2]; rfl⟩

def vnew (new : Nat) (tokens : List Bytes) : VLine := ⟨new, tokens, []⟩

theorem view_newLine (new : Nat) (tokens : List Bytes) (h : tokens ≠ []) :
    view [Expr.line (mkLine new tokens false)] = [vnew new tokens] := by
  cases tokens with
  | nil => exact absurd rfl h
  | cons a as => simp [view, loc, locStmt, liveLoc, mkV, mkLine, vnew]

theorem treeIds_newLine (new : Nat) (tokens : List Bytes) : treeIds [Expr.line (mkLine new tokens false)] = [new] := by
  simp [treeIds, loc, locStmt, mkLine]

theorem view_block (b : LineBlock) :
    view [Expr.lineBlock b] = (b.lines.filter (fun l => !l.token.isEmpty)).map fun l => ⟨l.id, b.token ++ l.token, l.comments.suffix⟩ := by
  simp only [view, loc, List.flatMap_cons, List.flatMap_nil, List.append_nil, locStmt]
  rw [List.filter_map, List.map_map]
  rfl

theorem treeIds_block (b : LineBlock) : treeIds [Expr.lineBlock b] = b.lines.map (·.id) := by
  simp [treeIds, loc, locStmt, List.map_map, Function.comp_def]

theorem headIs_cons {a : Bytes} {as : List Bytes} {v : Bytes} (h : headIs (a :: as) v = true) : a = v := by
  simpa [headIs] using h

/-- a block of verb `verb` with the new line `verb t rest…` inserted somewhere -/
theorem block_insert_spec (b : LineBlock) (new : Nat) (verb t : Bytes) (rest : List Bytes) (l1 l2 : List Line)
    (hb : b.lines = l1 ++ l2) (htok : b.token = [verb]) (hs : ShapeWF [Expr.lineBlock b]) :
    (view [Expr.lineBlock { b with lines := l1 ++ mkLine new (t :: rest) true :: l2 }]).Perm
        (view [Expr.lineBlock b] ++ [vnew new (verb :: t :: rest)]) ∧
    (treeIds [Expr.lineBlock { b with lines := l1 ++ mkLine new (t :: rest) true :: l2 }]).Perm
        (treeIds [Expr.lineBlock b] ++ [new]) ∧
    ShapeWF [Expr.lineBlock { b with lines := l1 ++ mkLine new (t :: rest) true :: l2 }] := by
  refine ⟨?_, ?_, ?_⟩
  · rw [view_block, view_block, hb]
    simp only [List.filter_append, List.map_append, List.filter_cons, htok, mkLine, List.isEmpty_cons, Bool.not_false,
      if_true, List.map_cons, List.append_assoc, List.singleton_append, vnew]
    exact List.Perm.append_left _ (List.perm_append_comm (l₁ := [_]))
  · rw [treeIds_block, treeIds_block, hb]
    simp only [List.map_append, List.map_cons, mkLine, List.append_assoc]
    exact List.Perm.append_left _ (List.perm_append_comm (l₁ := [new]))
  · have hb0 : Expr.lineBlock b ∈ [Expr.lineBlock b] := List.mem_singleton.2 rfl
    refine ⟨fun b' hb' => ?_, fun l' hl' => by simp at hl', fun b' hb' l' hl' => ?_, fun b' hb' => ?_⟩
    · simp only [List.mem_singleton, Expr.lineBlock.injEq] at hb'; subst hb'; exact hs.blockTok b hb0
    · simp only [List.mem_singleton, Expr.lineBlock.injEq] at hb'; subst hb'
      simp only [List.mem_append, List.mem_cons] at hl'
      rcases hl' with h | rfl | h
      · exact hs.flagIn b hb0 l' (by rw [hb]; exact List.mem_append_left _ h)
      · rfl
      · exact hs.flagIn b hb0 l' (by rw [hb]; exact List.mem_append_right _ h)
    · simp only [List.mem_singleton, Expr.lineBlock.injEq] at hb'; subst hb'; exact hs.noBlockSuffix b hb0

/-- the hinted walk of `addLine`: the new line appears with exactly the requested full tokens, nothing else changes -/
theorem addLineWalk_spec (hint : Hint) (new : Nat) (verb t : Bytes) (rest : List Bytes) :
    ∀ (stmts : List Expr) (i : Nat) (stmts' : List Expr), ShapeWF stmts → View2 stmts →
      addLineWalk hint (verb :: t :: rest) new stmts i = some stmts' →
      (view stmts').Perm (view stmts ++ [vnew new (verb :: t :: rest)]) ∧
      (treeIds stmts').Perm (treeIds stmts ++ [new]) ∧ ShapeWF stmts' := by
  intro stmts
  induction stmts with
  | nil => intro i stmts' _ _ h; simp [addLineWalk] at h
  | cons x xs ih =>
    intro i stmts' hs h2 h
    have hafter : (view (x :: Expr.line (mkLine new (verb :: t :: rest) false) :: xs)).Perm
          (view (x :: xs) ++ [vnew new (verb :: t :: rest)]) ∧
        (treeIds (x :: Expr.line (mkLine new (verb :: t :: rest) false) :: xs)).Perm (treeIds (x :: xs) ++ [new]) ∧
        ShapeWF (x :: Expr.line (mkLine new (verb :: t :: rest) false) :: xs) := by
      refine ⟨?_, ?_, ShapeWF.cons hs.head (ShapeWF.cons (ShapeWF.newLine _ _) hs.tail)⟩
      · rw [view_cons x, view_cons _ xs, view_newLine _ _ (by simp), view_cons x xs, List.append_assoc]
        exact List.Perm.append_left _ (List.perm_append_comm (l₁ := [_]))
      · rw [treeIds_cons x, treeIds_cons _ xs, treeIds_newLine, treeIds_cons x xs, List.append_assoc]
        exact List.Perm.append_left _ (List.perm_append_comm (l₁ := [_]))
    have hrest : ∀ r, (addLineWalk hint (verb :: t :: rest) new xs (i + 1)).map (x :: ·) = some r →
        (view r).Perm (view (x :: xs) ++ [vnew new (verb :: t :: rest)]) ∧
        (treeIds r).Perm (treeIds (x :: xs) ++ [new]) ∧ ShapeWF r := by
      intro r hr
      cases hw : addLineWalk hint (verb :: t :: rest) new xs (i + 1) with
      | none => simp [hw] at hr
      | some r' =>
        simp only [hw, Option.map_some, Option.some.injEq] at hr; subst hr
        rcases ih (i + 1) r' hs.tail h2.tail hw with ⟨p1, p2, p3⟩
        refine ⟨?_, ?_, ShapeWF.cons hs.head p3⟩
        · rw [view_cons x r', view_cons x xs, List.append_assoc]; exact List.Perm.append_left _ p1
        · rw [treeIds_cons x r', treeIds_cons x xs, List.append_assoc]; exact List.Perm.append_left _ p2
    unfold addLineWalk at h
    dsimp only [List.head?_cons, Option.getD_some] at h
    cases x with
    | line l =>
      simp only at h
      by_cases hh : (hint == Hint.line l.id || hint == Hint.stmt i) = true
      · rw [if_pos hh] at h
        by_cases hc : (l.token.isEmpty || !headIs l.token verb) = true
        · rw [if_pos hc] at h
          simp only [Option.some.injEq] at h; subst h; exact hafter
        · -- convert the line into a block
          rw [if_neg hc] at h
          simp only [Bool.or_eq_true, Bool.not_eq_true', not_or, Bool.not_eq_true, Bool.not_eq_false] at hc
          simp only [Option.some.injEq] at h; subst h
          have hlive : l.token ≠ [] := by intro e; simp [e] at hc
          have hlen : 2 ≤ l.token.length := by
            have := h2.head ⟨l.id, l.token, l.comments.suffix⟩ (by
              cases hlt : l.token with
              | nil => exact absurd hlt hlive
              | cons a as => simp [view, loc, locStmt, liveLoc, mkV, hlt])
            simpa using this
          rcases hlt : l.token with _ | ⟨a, _ | ⟨a2, as⟩⟩
          · exact absurd hlt hlive
          · rw [hlt] at hlen; simp at hlen
          · have ha : a = verb := by
              have := hc.2; rw [hlt] at this; exact headIs_cons this
            subst ha
            refine ⟨?_, ?_, ShapeWF.cons ?_ hs.tail⟩
            · rw [view_cons _ xs, view_cons (Expr.line l) xs, List.append_assoc]
              refine List.Perm.trans ?_ (List.Perm.append_left _ (List.perm_append_comm (l₁ := [vnew new (a :: t :: rest)]) (l₂ := view xs)))
              rw [← List.append_assoc]
              refine List.Perm.append_right _ ?_
              simp [view_block, view, loc, locStmt, liveLoc, mkV, hlt, mkLine, vnew]
            · rw [treeIds_cons _ xs, treeIds_cons (Expr.line l) xs, List.append_assoc]
              refine List.Perm.trans ?_ (List.Perm.append_left _ (List.perm_append_comm (l₁ := [new]) (l₂ := treeIds xs)))
              rw [← List.append_assoc]
              refine List.Perm.append_right _ ?_
              simp [treeIds_block, treeIds, loc, locStmt, mkLine]
            · refine ⟨fun b hb => ?_, fun l' hl' => by simp at hl', fun b hb l' hl' => ?_, fun b hb => ?_⟩
              · simp only [List.mem_singleton, Expr.lineBlock.injEq] at hb; subst hb; exact ⟨a, by simp⟩
              · simp only [List.mem_singleton, Expr.lineBlock.injEq] at hb; subst hb
                simp only [List.mem_cons, List.mem_nil_iff, or_false] at hl'
                rcases hl' with rfl | rfl <;> rfl
              · simp only [List.mem_singleton, Expr.lineBlock.injEq] at hb; subst hb; rfl
      · rw [if_neg hh] at h; exact hrest _ h
    | lineBlock b =>
      simp only at h
      -- shared: the block with the new line inserted, when the block's verb is `verb`
      have hblk : ∀ l1 l2, b.lines = l1 ++ l2 → (!headIs b.token verb) = false →
          (view (Expr.lineBlock { b with lines := l1 ++ mkLine new (t :: rest) true :: l2 } :: xs)).Perm
              (view (Expr.lineBlock b :: xs) ++ [vnew new (verb :: t :: rest)]) ∧
          (treeIds (Expr.lineBlock { b with lines := l1 ++ mkLine new (t :: rest) true :: l2 } :: xs)).Perm
              (treeIds (Expr.lineBlock b :: xs) ++ [new]) ∧
          ShapeWF (Expr.lineBlock { b with lines := l1 ++ mkLine new (t :: rest) true :: l2 } :: xs) := by
        intro l1 l2 hl hv
        rcases hs.blockTok b List.mem_cons_self with ⟨w, hw⟩
        have hwv : b.token = [verb] := by
          rw [hw] at hv ⊢
          simp only [Bool.not_eq_false'] at hv
          rw [headIs_cons hv]
        rcases block_insert_spec b new verb t rest l1 l2 hl hwv hs.head with ⟨p1, p2, p3⟩
        refine ⟨?_, ?_, ShapeWF.cons p3 hs.tail⟩
        · rw [view_cons _ xs, view_cons (Expr.lineBlock b) xs, List.append_assoc]
          refine List.Perm.trans ?_ (List.Perm.append_left _ (List.perm_append_comm (l₁ := [vnew new (verb :: t :: rest)]) (l₂ := view xs)))
          rw [← List.append_assoc]
          exact List.Perm.append_right _ p1
        · rw [treeIds_cons _ xs, treeIds_cons (Expr.lineBlock b) xs, List.append_assoc]
          refine List.Perm.trans ?_ (List.Perm.append_left _ (List.perm_append_comm (l₁ := [new]) (l₂ := treeIds xs)))
          rw [← List.append_assoc]
          exact List.Perm.append_right _ p2
      by_cases hh : (hint == Hint.stmt i) = true
      · rw [if_pos hh] at h
        by_cases hv : (!headIs b.token verb) = true
        · rw [if_pos hv] at h
          simp only [Option.some.injEq] at h; subst h; exact hafter
        · rw [if_neg hv] at h
          simp only [Option.some.injEq] at h; subst h
          simp only [Bool.not_eq_true] at hv
          have := hblk b.lines [] (by simp) hv
          simpa using this
      · rw [if_neg hh] at h
        cases hint with
        | line hid =>
          simp only at h
          by_cases ha : (b.lines.any fun x => x.id == hid) = true
          · rw [if_pos ha] at h
            by_cases hv : (!headIs b.token verb) = true
            · rw [if_pos hv] at h
              simp only [Option.some.injEq] at h; subst h; exact hafter
            · rw [if_neg hv] at h
              simp only [Bool.not_eq_true] at hv
              cases hins : insertAfterId hid (mkLine new (t :: rest) true) b.lines with
              | none => simp only [List.drop_succ_cons, List.drop_zero, hins] at h; exact hrest _ h
              | some ls =>
                simp only [List.drop_succ_cons, List.drop_zero, hins, Option.some.injEq] at h; subst h
                rcases insertAfterId_spec _ _ _ _ hins with ⟨l1, l2, e1, e2⟩
                rw [e2]
                exact hblk l1 l2 e1 hv
          · rw [if_neg ha] at h; exact hrest _ h
        | none => simp only at h; exact hrest _ h
        | stmt k => simp only at h; exact hrest _ h
    | commentBlock c => exact hrest _ h
    | lparen c => exact hrest _ h
    | rparen c => exact hrest _ h

theorem append_newLine_spec (stmts : List Expr) (new : Nat) (tokens : List Bytes) (htok : tokens ≠ []) (hs : ShapeWF stmts) :
    (view (stmts ++ [Expr.line (mkLine new tokens false)])).Perm (view stmts ++ [vnew new tokens]) ∧
    (treeIds (stmts ++ [Expr.line (mkLine new tokens false)])).Perm (treeIds stmts ++ [new]) ∧
    ShapeWF (stmts ++ [Expr.line (mkLine new tokens false)]) := by
  refine ⟨?_, ?_, hs.append (ShapeWF.newLine _ _)⟩
  · rw [view_append, view_newLine _ _ htok]
  · rw [treeIds_append, treeIds_newLine]

/-- `addLine` either appends the new line at the end or is a successful hinted walk -/
theorem addLine_cases (fs : FileSyntax) (hint : Option Nat) (tokens : List Bytes) (new : Nat) :
    (addLine fs hint tokens new).stmts = fs.stmts ++ [Expr.line (mkLine new tokens false)] ∨
    ∃ h stmts', addLineWalk h tokens new fs.stmts 0 = some stmts' ∧ (addLine fs hint tokens new).stmts = stmts' := by
  unfold addLine
  cases hint with
  | some id =>
    dsimp only
    cases hw : addLineWalk (Hint.line id) tokens new fs.stmts 0 with
    | none => left; rfl
    | some s => right; exact ⟨_, s, hw, rfl⟩
  | none =>
    dsimp only
    cases hl : lastStmtWith (tokens.head?.getD []) fs.stmts 0 none with
    | none => left; rfl
    | some i =>
      dsimp only
      cases hw : addLineWalk (Hint.stmt i) tokens new fs.stmts 0 with
      | none => left; rfl
      | some s => right; exact ⟨_, s, hw, rfl⟩

/-- **`FileSyntax.addLine`**: whatever the hint, the tree gains exactly one live line, with id `new` and the requested
    full tokens; every other line keeps its id, full tokens and end-of-line comments. -/
theorem addLine_spec (fs : FileSyntax) (hint : Option Nat) (new : Nat) (verb t : Bytes) (rest : List Bytes)
    (hs : ShapeWF fs.stmts) (h2 : View2 fs.stmts) :
    (view (addLine fs hint (verb :: t :: rest) new).stmts).Perm (view fs.stmts ++ [vnew new (verb :: t :: rest)]) ∧
    (treeIds (addLine fs hint (verb :: t :: rest) new).stmts).Perm (treeIds fs.stmts ++ [new]) ∧
    ShapeWF (addLine fs hint (verb :: t :: rest) new).stmts := by
  rcases addLine_cases fs hint (verb :: t :: rest) new with h | ⟨h, stmts', hw, he⟩
  · rw [h]; exact append_newLine_spec fs.stmts new (verb :: t :: rest) (by simp) hs
  · rw [he]; exact addLineWalk_spec h new verb t rest fs.stmts 0 stmts' hs h2 hw

theorem addLinePtr_spec (fs : FileSyntax) (hint : Option Nat) (new : Nat) (verb t : Bytes) (rest : List Bytes)
    (hs : ShapeWF fs.stmts) (h2 : View2 fs.stmts) :
    (view (addLinePtr fs hint (verb :: t :: rest) new).stmts).Perm (view fs.stmts ++ [vnew new (verb :: t :: rest)]) ∧
    (treeIds (addLinePtr fs hint (verb :: t :: rest) new).stmts).Perm (treeIds fs.stmts ++ [new]) ∧
    ShapeWF (addLinePtr fs hint (verb :: t :: rest) new).stmts := by
  have happ := append_newLine_spec fs.stmts new (verb :: t :: rest) (by simp) hs
  unfold addLinePtr
  cases hint with
  | none => exact happ
  | some id =>
    dsimp only
    by_cases hn : (id == nilId) = true
    · rw [if_pos hn]; exact happ
    · rw [if_neg hn]; exact addLine_spec fs (some id) new verb t rest hs h2

/-- a tree that gained one line with the fresh id `next` is well formed with the counter advanced -/
theorem TreeWF.of_added {stmts stmts' : List Expr} {next : Nat} (h : TreeWF stmts next) (hnext : 0 < next)
    (hids : (treeIds stmts').Perm (treeIds stmts ++ [next])) (hs : ShapeWF stmts') : TreeWF stmts' (next + 1) := by
  have hnd : (treeIds stmts ++ [next]).Nodup := by
    apply List.nodup_append.2
    refine ⟨h.nodup, List.pairwise_singleton _ _, ?_⟩
    intro a ha b hb
    rw [List.mem_singleton] at hb
    have := h.lt a ha
    omega
  refine ⟨hids.symm.nodup hnd, ?_, ?_, hs.blockTok, hs.flagTop, hs.flagIn, hs.noBlockSuffix⟩
  · intro i hi
    rcases List.mem_append.1 (hids.subset hi) with h1 | h1
    · exact Nat.lt_succ_of_lt (h.lt i h1)
    · rw [List.mem_singleton.1 h1]; exact Nat.lt_succ_self _
  · intro i hi
    rcases List.mem_append.1 (hids.subset hi) with h1 | h1
    · exact h.pos i h1
    · rw [List.mem_singleton.1 h1]; exact Nat.ne_of_gt hnext

theorem TreeWF.mono {stmts : List Expr} {n m : Nat} (h : TreeWF stmts n) (hnm : n ≤ m) : TreeWF stmts m :=
  ⟨h.nodup, fun i hi => Nat.lt_of_lt_of_le (h.lt i hi) hnm, h.pos, h.blockTok, h.flagTop, h.flagIn, h.noBlockSuffix⟩

/-! ### Cleanup, SortBlocks, removeDups on the tree -/

theorem ShapeWF.block {xs : List Expr} {b : LineBlock} (h : ShapeWF (Expr.lineBlock b :: xs)) (ls : List Line)
    (hsub : ∀ l ∈ ls, l ∈ b.lines) : ShapeWF [Expr.lineBlock { b with lines := ls }] := by
  have hb0 : Expr.lineBlock b ∈ Expr.lineBlock b :: xs := List.mem_cons_self
  refine ⟨fun b' hb' => ?_, fun l' hl' => by simp at hl', fun b' hb' l' hl' => ?_, fun b' hb' => ?_⟩
  · simp only [List.mem_singleton, Expr.lineBlock.injEq] at hb'; subst hb'; exact h.blockTok b hb0
  · simp only [List.mem_singleton, Expr.lineBlock.injEq] at hb'; subst hb'; exact h.flagIn b hb0 l' (hsub l' hl')
  · simp only [List.mem_singleton, Expr.lineBlock.injEq] at hb'; subst hb'; exact h.noBlockSuffix b hb0

/-- **`FileSyntax.Cleanup`** leaves the live lines as they are (ids, full tokens, end-of-line comments, order);
    only removed lines disappear -/
theorem cleanupStmts_spec (stmts : List Expr) (hs : ShapeWF stmts) :
    view (cleanupStmts stmts) = view stmts ∧ (treeIds (cleanupStmts stmts)).Sublist (treeIds stmts) ∧
    ShapeWF (cleanupStmts stmts) := by
  induction stmts with
  | nil => exact ⟨rfl, List.Sublist.refl _, hs⟩
  | cons x xs ih =>
    rcases ih hs.tail with ⟨i1, i2, i3⟩
    cases x with
    | line l =>
      unfold cleanupStmts
      by_cases hl : l.token.isEmpty = true
      · simp only [hl, if_true]
        refine ⟨?_, ?_, i3⟩
        · rw [view_cons _ xs, i1]; simp [view, loc, locStmt, liveLoc, hl]
        · rw [treeIds_cons _ xs]; exact List.Sublist.trans i2 (List.sublist_append_right _ _)
      · simp only [hl, Bool.false_eq_true, if_false]
        refine ⟨?_, ?_, ShapeWF.cons hs.head i3⟩
        · rw [view_cons _ (cleanupStmts xs), view_cons _ xs, i1]
        · rw [treeIds_cons _ (cleanupStmts xs), treeIds_cons _ xs]; exact (List.Sublist.refl _).append i2
    | lineBlock b =>
      unfold cleanupStmts
      have hfl : ∀ l ∈ b.lines.filter (fun l => !l.token.isEmpty), l ∈ b.lines := fun l hl => (List.mem_filter.1 hl).1
      have hviewB : ∀ ls, ls = b.lines.filter (fun l => !l.token.isEmpty) →
          view [Expr.lineBlock { b with lines := ls }] = view [Expr.lineBlock b] := by
        intro ls e; rw [view_block, view_block, e, List.filter_filter]; simp
      have hidsB : (treeIds [Expr.lineBlock { b with lines := b.lines.filter (fun l => !l.token.isEmpty) }]).Sublist
          (treeIds [Expr.lineBlock b]) := by
        rw [treeIds_block, treeIds_block]; exact List.filter_sublist.map _
      have hkeep : view (Expr.lineBlock { b with lines := b.lines.filter (fun l => !l.token.isEmpty) } :: cleanupStmts xs)
            = view (Expr.lineBlock b :: xs) ∧
          (treeIds (Expr.lineBlock { b with lines := b.lines.filter (fun l => !l.token.isEmpty) } :: cleanupStmts xs)).Sublist
            (treeIds (Expr.lineBlock b :: xs)) ∧
          ShapeWF (Expr.lineBlock { b with lines := b.lines.filter (fun l => !l.token.isEmpty) } :: cleanupStmts xs) := by
        refine ⟨?_, ?_, ShapeWF.cons (hs.block _ hfl) i3⟩
        · rw [view_cons _ (cleanupStmts xs), view_cons _ xs, i1, hviewB _ rfl]
        · rw [treeIds_cons _ (cleanupStmts xs), treeIds_cons _ xs]; exact hidsB.append i2
      cases hlive : b.lines.filter (fun l => !l.token.isEmpty) with
      | nil =>
        simp only [hlive]
        refine ⟨?_, ?_, i3⟩
        · rw [view_cons _ xs, i1, view_block, hlive]; rfl
        · rw [treeIds_cons _ xs]; exact List.Sublist.trans i2 (List.sublist_append_right _ _)
      | cons l ls =>
        cases ls with
        | nil =>
          simp only [hlive]
          split
          · -- collapse the block into a single line, keeping the Line identity
            have hbs := hs.noBlockSuffix b List.mem_cons_self
            rcases hs.blockTok b List.mem_cons_self with ⟨w, hw⟩
            have hllive : l.token ≠ [] := by
              have : l ∈ b.lines.filter (fun l => !l.token.isEmpty) := by rw [hlive]; exact List.mem_singleton.2 rfl
              have := (List.mem_filter.1 this).2
              intro e; simp [e] at this
            refine ⟨?_, ?_, ShapeWF.cons ?_ i3⟩
            · rw [view_cons _ (cleanupStmts xs), view_cons _ xs, i1, view_block, hlive]
              congr 1
              simp [view, loc, locStmt, liveLoc, mkV, hw, hbs]
            · rw [treeIds_cons _ (cleanupStmts xs), treeIds_cons _ xs]
              refine List.Sublist.append ?_ i2
              have : (treeIds [Expr.lineBlock { b with lines := [l] }]).Sublist (treeIds [Expr.lineBlock b]) := by
                rw [← hlive]; exact hidsB
              simpa [treeIds, loc, locStmt] using this
            · exact ⟨fun b' hb' => by simp at hb', fun l' hl' => by simp at hl'; subst hl'; rfl,
                fun b' hb' => by simp at hb', fun b' hb' => by simp at hb'⟩
          · rw [← hlive]; exact hkeep
        | cons l2 ls2 =>
          simp only [hlive]
          rw [← hlive]; exact hkeep
    | commentBlock c =>
      unfold cleanupStmts
      refine ⟨?_, ?_, ShapeWF.cons hs.head i3⟩
      · rw [view_cons _ (cleanupStmts xs), view_cons _ xs, i1]
      · rw [treeIds_cons _ (cleanupStmts xs), treeIds_cons _ xs]; exact (List.Sublist.refl _).append i2
    | lparen c =>
      unfold cleanupStmts
      refine ⟨?_, ?_, ShapeWF.cons hs.head i3⟩
      · rw [view_cons _ (cleanupStmts xs), view_cons _ xs, i1]
      · rw [treeIds_cons _ (cleanupStmts xs), treeIds_cons _ xs]; exact (List.Sublist.refl _).append i2
    | rparen c =>
      unfold cleanupStmts
      refine ⟨?_, ?_, ShapeWF.cons hs.head i3⟩
      · rw [view_cons _ (cleanupStmts xs), view_cons _ xs, i1]
      · rw [treeIds_cons _ (cleanupStmts xs), treeIds_cons _ xs]; exact (List.Sublist.refl _).append i2

theorem stableSort_perm (less : List Bytes → List Bytes → Bool) (l : List Line) : (stableSort less l).Perm l := by
  rw [stableSort_eq]; exact EditSpec.sortBy_perm _ l

/-- **`SortBlocks`' sort** only permutes the lines inside each block -/
theorem sortStmts_spec (sem work : Bool) (stmts : List Expr) (hs : ShapeWF stmts) :
    (view (sortStmts sem work stmts)).Perm (view stmts) ∧ (treeIds (sortStmts sem work stmts)).Perm (treeIds stmts) ∧
    ShapeWF (sortStmts sem work stmts) := by
  induction stmts with
  | nil => exact ⟨List.Perm.refl _, List.Perm.refl _, hs⟩
  | cons x xs ih =>
    rcases ih hs.tail with ⟨i1, i2, i3⟩
    have hcons : sortStmts sem work (x :: xs) = (sortStmts sem work [x]) ++ sortStmts sem work xs := by
      simp [sortStmts]
    rw [hcons]
    cases x with
    | lineBlock b =>
      simp only [sortStmts, List.map_cons, List.map_nil, List.singleton_append]
      generalize (if work = true then lineLess
        else if (headIs b.token (B "exclude") && sem) = true then lineExcludeLess
        else if headIs b.token (B "retract") = true then lineRetractLess else lineLess) = less
      have hp := stableSort_perm less b.lines
      refine ⟨?_, ?_, ShapeWF.cons (hs.block _ (fun l hl => hp.subset hl)) ?_⟩
      · rw [view_cons _ (List.map _ xs), view_cons _ xs]
        refine List.Perm.append ?_ i1
        rw [view_block, view_block]
        exact (hp.filter _).map _
      · rw [treeIds_cons _ (List.map _ xs), treeIds_cons _ xs]
        refine List.Perm.append ?_ i2
        rw [treeIds_block, treeIds_block]
        exact hp.map _
      · exact i3
    | line l =>
      simp only [sortStmts, List.map_cons, List.map_nil, List.singleton_append]
      refine ⟨?_, ?_, ShapeWF.cons hs.head i3⟩
      · rw [view_cons _ (List.map _ xs), view_cons _ xs]; exact List.Perm.append_left _ i1
      · rw [treeIds_cons _ (List.map _ xs), treeIds_cons _ xs]; exact List.Perm.append_left _ i2
    | commentBlock c =>
      simp only [sortStmts, List.map_cons, List.map_nil, List.singleton_append]
      refine ⟨?_, ?_, ShapeWF.cons hs.head i3⟩
      · rw [view_cons _ (List.map _ xs), view_cons _ xs]; exact List.Perm.append_left _ i1
      · rw [treeIds_cons _ (List.map _ xs), treeIds_cons _ xs]; exact List.Perm.append_left _ i2
    | lparen c =>
      simp only [sortStmts, List.map_cons, List.map_nil, List.singleton_append]
      refine ⟨?_, ?_, ShapeWF.cons hs.head i3⟩
      · rw [view_cons _ (List.map _ xs), view_cons _ xs]; exact List.Perm.append_left _ i1
      · rw [treeIds_cons _ (List.map _ xs), treeIds_cons _ xs]; exact List.Perm.append_left _ i2
    | rparen c =>
      simp only [sortStmts, List.map_cons, List.map_nil, List.singleton_append]
      refine ⟨?_, ?_, ShapeWF.cons hs.head i3⟩
      · rw [view_cons _ (List.map _ xs), view_cons _ xs]; exact List.Perm.append_left _ i1
      · rw [treeIds_cons _ (List.map _ xs), treeIds_cons _ xs]; exact List.Perm.append_left _ i2

/-- **`removeDups`' tree half** drops exactly the lines whose id is in the kill list -/
theorem dropKilled_spec (kill : List Nat) (stmts : List Expr) (hs : ShapeWF stmts) :
    view (dropKilled kill stmts) = (view stmts).filter (fun v => !kill.contains v.id) ∧
    (treeIds (dropKilled kill stmts)).Sublist (treeIds stmts) ∧ ShapeWF (dropKilled kill stmts) := by
  induction stmts with
  | nil => exact ⟨rfl, List.Sublist.refl _, hs⟩
  | cons x xs ih =>
    rcases ih hs.tail with ⟨i1, i2, i3⟩
    cases x with
    | line l =>
      unfold dropKilled
      by_cases hk : kill.contains l.id = true
      · simp only [hk, if_true]
        refine ⟨?_, ?_, i3⟩
        · rw [view_cons _ xs, List.filter_append, i1]
          have : (view [Expr.line l]).filter (fun v => !kill.contains v.id) = [] := by
            apply List.filter_eq_nil_iff.2
            intro v hv
            rcases mem_view.1 hv with ⟨p, hp, _, rfl⟩
            simp only [loc, List.flatMap_cons, List.flatMap_nil, List.append_nil, locStmt, List.mem_singleton] at hp
            subst hp; simpa [mkV] using hk
          rw [this]; rfl
        · rw [treeIds_cons _ xs]; exact List.Sublist.trans i2 (List.sublist_append_right _ _)
      · simp only [hk, Bool.false_eq_true, if_false]
        refine ⟨?_, ?_, ShapeWF.cons hs.head i3⟩
        · rw [view_cons _ (dropKilled kill xs), view_cons _ xs, List.filter_append, i1]
          congr 1
          symm
          apply List.filter_eq_self.2
          intro v hv
          rcases mem_view.1 hv with ⟨p, hp, _, rfl⟩
          simp only [loc, List.flatMap_cons, List.flatMap_nil, List.append_nil, locStmt, List.mem_singleton] at hp
          subst hp; simp only [Bool.not_eq_true] at hk; simpa [mkV] using hk
        · rw [treeIds_cons _ (dropKilled kill xs), treeIds_cons _ xs]; exact (List.Sublist.refl _).append i2
    | lineBlock b =>
      unfold dropKilled
      have hviewB : view [Expr.lineBlock { b with lines := b.lines.filter (fun l => !kill.contains l.id) }]
          = (view [Expr.lineBlock b]).filter (fun v => !kill.contains v.id) := by
        rw [view_block, view_block, List.filter_map, List.filter_filter, List.filter_filter]
        congr 1
        apply List.filter_congr
        intro l _
        simp only [Function.comp]
        exact Bool.and_comm _ _
      by_cases he : (b.lines.filter (fun l => !kill.contains l.id)).isEmpty = true
      · simp only [he, if_true]
        refine ⟨?_, ?_, i3⟩
        · rw [view_cons _ xs, List.filter_append, i1, ← hviewB, view_block]
          have : b.lines.filter (fun l => !kill.contains l.id) = [] := List.isEmpty_iff.1 he
          rw [this]; rfl
        · rw [treeIds_cons _ xs]; exact List.Sublist.trans i2 (List.sublist_append_right _ _)
      · simp only [he, Bool.false_eq_true, if_false]
        refine ⟨?_, ?_, ShapeWF.cons (hs.block _ (fun l hl => (List.mem_filter.1 hl).1)) i3⟩
        · rw [view_cons _ (dropKilled kill xs), view_cons _ xs, List.filter_append, i1, hviewB]
        · rw [treeIds_cons _ (dropKilled kill xs), treeIds_cons _ xs]
          refine List.Sublist.append ?_ i2
          rw [treeIds_block, treeIds_block]; exact List.filter_sublist.map _
    | commentBlock c =>
      unfold dropKilled
      refine ⟨?_, ?_, ShapeWF.cons hs.head i3⟩
      · rw [view_cons _ (dropKilled kill xs), view_cons _ xs, List.filter_append, i1]; rfl
      · rw [treeIds_cons _ (dropKilled kill xs), treeIds_cons _ xs]; exact (List.Sublist.refl _).append i2
    | lparen c =>
      unfold dropKilled
      refine ⟨?_, ?_, ShapeWF.cons hs.head i3⟩
      · rw [view_cons _ (dropKilled kill xs), view_cons _ xs, List.filter_append, i1]; rfl
      · rw [treeIds_cons _ (dropKilled kill xs), treeIds_cons _ xs]; exact (List.Sublist.refl _).append i2
    | rparen c =>
      unfold dropKilled
      refine ⟨?_, ?_, ShapeWF.cons hs.head i3⟩
      · rw [view_cons _ (dropKilled kill xs), view_cons _ xs, List.filter_append, i1]; rfl
      · rw [treeIds_cons _ (dropKilled kill xs), treeIds_cons _ xs]; exact (List.Sublist.refl _).append i2

theorem TreeWF.of_sublist {stmts stmts' : List Expr} {next : Nat} (h : TreeWF stmts next)
    (hids : (treeIds stmts').Sublist (treeIds stmts)) (hs : ShapeWF stmts') : TreeWF stmts' next :=
  ⟨List.Nodup.sublist hids h.nodup, fun i hi => h.lt i (hids.subset hi), fun i hi => h.pos i (hids.subset hi), hs.blockTok, hs.flagTop, hs.flagIn, hs.noBlockSuffix⟩

theorem TreeWF.of_perm {stmts stmts' : List Expr} {next : Nat} (h : TreeWF stmts next)
    (hids : (treeIds stmts').Perm (treeIds stmts)) (hs : ShapeWF stmts') : TreeWF stmts' next :=
  ⟨hids.symm.nodup h.nodup, fun i hi => h.lt i (hids.subset hi), fun i hi => h.pos i (hids.subset hi), hs.blockTok, hs.flagTop, hs.flagIn, hs.noBlockSuffix⟩

end ModVerif.Modfile.Edit
