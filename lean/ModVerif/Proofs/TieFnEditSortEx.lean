/-
  Test harness of the non-vacuity examples of Tie/FnEditSort.lean: a parsed go.mod / go.work is loaded into a heap with the
  driver's `Drv.GenEdit.load` / `loadWork`, an operation is run, the WHOLE file (typed lists and syntax graph, line ids =
  pointers) is read back with the driver's `fileM` / `workM` and compared with the hand model applied to `Edit.load` /
  `Edit.loadWork` of the same file (kernel-evaluated).  `fileM` does not read the `Syntax` pointers of the typed entries
  (it puts `lineId := 0`), so the model side is compared after `zeroIds`.
-/
import ModVerif.Proofs.TieFnEditRep
namespace ModVerif.Tie.FnEditSortEx
open ModVerif ModVerif.GoRt ModVerif.Generated.Edit

def zeroIds (f : Modfile.File) : Modfile.File :=
  { f with
    module := f.module.map fun m => { m with lineId := 0 }
    go := f.go.map fun g => { g with lineId := 0 }
    toolchain := f.toolchain.map fun t => { t with lineId := 0 }
    godebug := f.godebug.map fun g => { g with lineId := 0 }
    require := f.require.map fun r => { r with lineId := 0 }
    exclude := f.exclude.map fun r => { r with lineId := 0 }
    replace := f.replace.map fun r => { r with lineId := 0 }
    retract := f.retract.map fun r => { r with lineId := 0 }
    tool := f.tool.map fun t => { t with lineId := 0 } }

def zeroIdsW (f : Modfile.WorkFile) : Modfile.WorkFile :=
  { f with
    go := f.go.map fun g => { g with lineId := 0 }
    toolchain := f.toolchain.map fun t => { t with lineId := 0 }
    godebug := f.godebug.map fun g => { g with lineId := 0 }
    use := f.use.map fun r => { r with lineId := 0 }
    replace := f.replace.map fun r => { r with lineId := 0 } }

/-- run `op fp h` on the heap loaded from the parsed go.mod; read the file back -/
def runFile (file : Bytes) (op : Int → Heap → M (Unit × Heap)) : Option Modfile.File :=
  match Modfile.parseStrict (B "go.mod") file none with
  | .ok f =>
    let (h, fp) := Drv.GenEdit.load f
    match op fp h with
    | .ok (_, h') => Drv.GenEdit.fileM h' fp
    | .error _ => none
  | .error _ => none

def modelFile (file : Bytes) (g : Modfile.Edit.EFile → Modfile.Edit.EFile) : Option Modfile.File :=
  match Modfile.parseStrict (B "go.mod") file none with
  | .ok f => some (zeroIds (g (Modfile.Edit.load f)).f)
  | .error _ => none

def runWork (file : Bytes) (op : Int → Heap → M (Unit × Heap)) : Option Modfile.WorkFile :=
  match Modfile.parseWork (B "go.work") file none with
  | .ok f =>
    let (h, fp) := Drv.GenEdit.loadWork f
    match op fp h with
    | .ok (_, h') => Drv.GenEdit.workM h' fp
    | .error _ => none
  | .error _ => none

def modelWork (file : Bytes) (g : Modfile.Edit.EWork → Modfile.Edit.EWork) : Option Modfile.WorkFile :=
  match Modfile.parseWork (B "go.work") file none with
  | .ok f => some (zeroIdsW (g (Modfile.Edit.loadWork f)).f)
  | .error _ => none

/-- go 1.21 (semantic exclude order), a duplicate exclude, unsorted exclude / retract / replace blocks, a duplicate
    replacement (the later one wins), a duplicate tool -/
def exSort : Bytes :=
  B "module m\n\ngo 1.21\n\nexclude (\n\tx.y/z v1.10.0\n\tx.y/z v1.2.0\n\tx.y/z v1.10.0\n)\n\nretract (\n\tv1.0.0\n\t[v1.1.0, v1.2.0]\n)\n\nreplace (\n\tb.c/d => ../d\n\ta.b/c v1.0.0 => ../c\n\tb.c/d => ../e\n)\n\ntool (\n\tq.r/s\n\tq.r/a\n\tq.r/s\n)\n"

/-- the same without a go directive (lexical exclude order) -/
def exSortOld : Bytes :=
  B "module m\n\nexclude (\n\tx.y/z v1.10.0\n\tx.y/z v1.2.0\n)\n\nrequire (\n\td.e/f v1.2.3\n\ta.b/c v1.0.0\n)\n"

def exWork : Bytes :=
  B "go 1.21\n\nuse (\n\t./b\n\t./a\n)\n\nreplace (\n\tx.y/z => ../z\n\ta.b/c => ../c\n\tx.y/z => ../w\n)\n"

/-- three entries are dropped (their lines marked removed, the typed entries cleared), then `Cleanup` -/
def dropThenCleanup (fp : Int) (h : Heap) : M (Unit × Heap) := do
  let (_, h) ← File_DropExclude 100 fp (B "x.y/z") (B "v1.2.0") h
  let (_, h) ← File_DropReplace 100 fp (B "a.b/c") (B "v1.0.0") h
  let (_, h) ← File_DropTool 100 fp (B "q.r/a") h
  File_Cleanup 100 fp h

def dropThenCleanupM (e : Modfile.Edit.EFile) : Modfile.Edit.EFile :=
  match (do
    let e ← Modfile.Edit.dropExclude e (B "x.y/z") (B "v1.2.0")
    let e ← Modfile.Edit.dropReplace e (B "a.b/c") (B "v1.0.0")
    let e ← Modfile.Edit.dropTool e (B "q.r/a")
    pure (Modfile.Edit.cleanup e) : Except Modfile.Edit.EditErr Modfile.Edit.EFile) with
  | .ok e => e
  | .error _ => e

def wDropThenCleanup (fp : Int) (h : Heap) : M (Unit × Heap) := do
  let (_, h) ← WorkFile_DropUse 100 fp (B "./b") h
  let (_, h) ← WorkFile_DropReplace 100 fp (B "a.b/c") (B "") h
  WorkFile_Cleanup 100 fp h

def wDropThenCleanupM (e : Modfile.Edit.EWork) : Modfile.Edit.EWork :=
  match (do
    let e ← Modfile.Edit.dropUse e (B "./b")
    let e ← Modfile.Edit.workDropReplace e (B "a.b/c") (B "")
    pure (Modfile.Edit.workCleanup e) : Except Modfile.Edit.EditErr Modfile.Edit.EWork) with
  | .ok e => e
  | .error _ => e

end ModVerif.Tie.FnEditSortEx
