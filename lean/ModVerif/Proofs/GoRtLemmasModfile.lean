/-
  General lemmas about the GoRt run-time vocabulary (Basic/GoRt.lean, Basic/GoRtStrings.lean) used by the tie proofs of
  the modfile unit (Tie/FnModfile.lean):

  * `rune(c)` (`toI32`) is the identity on the int32 range; rune / byte comparisons against literals as `Nat` / `UInt8` tests;
  * `strings.Index` / `Contains` of GoRt (an `Int`, -1 = absent) against the model's `GoStrings.index` (an `Option Nat`);
  * `bytes.IndexByte` as `takeWhile` / membership;
  * `splitOn` peeled one line at a time (the Go code cuts a line off with `IndexByte`, the model splits first);
  * the `a || b` short-circuit shape of the translator.

  Core Lean only.  Namespace `ModVerif.GoRtModfile`.
-/
import ModVerif.Basic.GoRt
import ModVerif.Basic.GoRtStrings
import ModVerif.Proofs.GoRtLemmas
import ModVerif.Proofs.GoRtLemmasStr
namespace ModVerif.GoRtModfile
open ModVerif ModVerif.GoRt

/-! ### integers, runes, bytes -/

theorem toI32_id {c : Int} (h0 : -2147483648 ≤ c) (h1 : c < 2147483648) : toI32 c = c := by
  unfold toI32; simp only; split <;> omega

/-- a rune held as `Int.ofNat n` compared with a literal -/
theorem natCast_eq_lit (n k : Nat) : decide ((n : Int) = ((k : Nat) : Int)) = (n == k) := by
  rw [Bool.eq_iff_iff]; simp only [decide_eq_true_eq, beq_iff_eq]; omega

theorem le_byte (k : Nat) (c : UInt8) (hk : k < 256) :
    decide (((k : Nat) : Int) ≤ ((c.toNat : Nat) : Int)) = decide (UInt8.ofNat k ≤ c) := by
  rw [Bool.eq_iff_iff]; simp only [decide_eq_true_eq, UInt8.le_iff_toNat_le, UInt8.toNat_ofNat']
  have : k % 2 ^ 8 = k := Nat.mod_eq_of_lt hk
  omega

theorem byte_le (k : Nat) (c : UInt8) (hk : k < 256) :
    decide (((c.toNat : Nat) : Int) ≤ ((k : Nat) : Int)) = decide (c ≤ UInt8.ofNat k) := by
  rw [Bool.eq_iff_iff]; simp only [decide_eq_true_eq, UInt8.le_iff_toNat_le, UInt8.toNat_ofNat']
  have : k % 2 ^ 8 = k := Nat.mod_eq_of_lt hk
  omega

theorem byte_eq (k : Nat) (c : UInt8) (hk : k < 256) :
    decide (((c.toNat : Nat) : Int) = ((k : Nat) : Int)) = (c == UInt8.ofNat k) := by
  rw [Bool.eq_iff_iff]; simp only [decide_eq_true_eq, beq_iff_eq, ← UInt8.toNat_inj, UInt8.toNat_ofNat']
  have : k % 2 ^ 8 = k := Nat.mod_eq_of_lt hk
  omega

/-- `t ← if p then pure true else m; pure t` is `p || q` when `m` returns `q` (translation of `a || b` with a
    right-hand side that may index) -/
theorem ite_pure_or (p q : Bool) (m : M Bool) (h : m = .ok q) :
    (do let t ← (if p then pure true else m); pure t) = (.ok (p || q) : M Bool) := by
  subst h; cases p <;> rfl

/-! ### strings.Index / Contains: GoRt (Int, -1) against GoStrings (Option Nat) -/

theorem indexAux_eq (sub : Bytes) : ∀ (s : Bytes) (k : Nat),
    GoRt.indexAux sub s k = (match GoStrings.indexAux sub s k with | some i => (i : Int) | none => -1)
  | [], k => by simp only [GoRt.indexAux, GoStrings.indexAux]; split <;> rfl
  | x :: xs, k => by
    simp only [GoRt.indexAux, GoStrings.indexAux]
    split
    · rfl
    · exact indexAux_eq sub xs (k + 1)

theorem index_eq (s sub : Bytes) :
    GoRt.index s sub = (match GoStrings.index s sub with | some i => (i : Int) | none => -1) :=
  indexAux_eq sub s 0

theorem contains_eq (s sub : Bytes) : GoRt.contains s sub = GoStrings.contains s sub := by
  unfold GoRt.contains GoStrings.contains
  rw [index_eq]
  cases GoStrings.index s sub <;> simp

theorem gs_indexAux_le (sub : Bytes) : ∀ (s : Bytes) (k i : Nat),
    GoStrings.indexAux sub s k = some i → i ≤ k + s.length
  | [], k, i, h => by
    simp only [GoStrings.indexAux] at h
    split at h
    · simp at h; simp; omega
    · cases h
  | x :: xs, k, i, h => by
    simp only [GoStrings.indexAux] at h
    split at h
    · simp at h; simp; omega
    · have := gs_indexAux_le sub xs (k + 1) i h
      simp; omega

theorem gs_index_le {s sub : Bytes} {i : Nat} (h : GoStrings.index s sub = some i) : i ≤ s.length := by
  have := gs_indexAux_le sub s 0 i h; omega

/-! ### bytes.IndexByte -/

theorem indexByteAux_eq (c : UInt8) : ∀ (s : Bytes) (k : Nat),
    indexByteAux c s k = if c ∈ s then ((k + (s.takeWhile (· != c)).length : Nat) : Int) else -1
  | [], k => by simp [indexByteAux]
  | x :: xs, k => by
    rw [indexByteAux]
    by_cases h : x = c
    · subst h; simp
    · have h' : (x != c) = true := by simp [h]
      have hne : (x == c) = false := by simp [h]
      have hm : (c ∈ x :: xs) ↔ c ∈ xs := by simp; intro e; exact absurd e.symm h
      simp only [hne, Bool.false_eq_true, if_false, indexByteAux_eq c xs (k + 1), hm,
        List.takeWhile_cons, h', if_true, List.length_cons]
      split <;> simp <;> omega

/-- `bytes.IndexByte(s, c)`; instantiate `n` with the literal and discharge `hn` by `rfl` -/
theorem indexByte_eq (s : Bytes) {n : Int} (c : UInt8) (hn : n = ((c.toNat : Nat) : Int)) :
    indexByte s n = if c ∈ s then (((s.takeWhile (· != c)).length : Nat) : Int) else -1 := by
  subst hn
  simp [indexByte, mkByte_byte, indexByteAux_eq]

theorem length_takeWhile_lt_of_mem {c : UInt8} : ∀ {s : Bytes}, c ∈ s → (s.takeWhile (· != c)).length < s.length
  | [], h => by simp at h
  | x :: xs, h => by
    by_cases hx : x = c
    · subst hx; simp
    · have h2 : c ∈ xs := by
        rcases List.mem_cons.mp h with e | e
        · exact absurd e.symm hx
        · exact e
      have := length_takeWhile_lt_of_mem h2
      have h1' : (x != c) = true := by simp [hx]
      simp only [List.takeWhile_cons, h1', if_true, List.length_cons]; omega

/-! ### `splitOn` one piece at a time -/

theorem splitOn_not_mem (c : UInt8) : ∀ s : Bytes, c ∉ s → splitOn c s = [s]
  | [], _ => rfl
  | x :: xs, h => by
    have h1 : (x == c) = false := by simp; intro e; exact h (by simp [e])
    have h2 : c ∉ xs := fun e => h (by simp [e])
    rw [splitOn, h1, splitOn_not_mem c xs h2]; rfl

theorem splitOn_mem (c : UInt8) : ∀ s : Bytes, c ∈ s →
    splitOn c s = s.takeWhile (· != c) :: splitOn c (s.drop ((s.takeWhile (· != c)).length + 1))
  | [], h => by simp at h
  | x :: xs, h => by
    by_cases hx : x = c
    · subst hx; simp [splitOn]
    · have h1 : (x == c) = false := by simp [hx]
      have h1' : (x != c) = true := by simp [hx]
      have h2 : c ∈ xs := by
        rcases List.mem_cons.mp h with e | e
        · exact absurd e.symm hx
        · exact e
      rw [splitOn, h1]
      simp only [Bool.false_eq_true, if_false, splitOn_mem c xs h2, List.takeWhile_cons, h1', if_true, List.length_cons,
        List.drop_succ_cons]

/-! ### prefixes -/

theorem isPrefixOfB_length : ∀ (p s : Bytes), isPrefixOfB p s = true → p.length ≤ s.length
  | [], _, _ => by simp
  | _ :: _, [], h => by simp [isPrefixOfB] at h
  | a :: as, b :: bs, h => by
    simp only [isPrefixOfB, Bool.and_eq_true] at h
    have := isPrefixOfB_length as bs h.2
    simp; omega

end ModVerif.GoRtModfile
