/-
  Tie proof, zip/zip.go `listFilesInDir` (Generated/FnZip.lean): the paths a walk produces.

  The walk (Basic/GoRtWalk.lean) starts at `dir` as given and names every entry `filepath.Join(parent, name)`; the closure
  turns that back into the slash path with `filepath.Rel(dir, filePath)`.  For a slash path `rel` made of ordinary elements
  (`NormalName`, Proofs/ZipBPath.lean) the file path of the entry is `fp d rel = filepath.Join(d, rel)`; here:
  `Join(fp d rel, name) = fp d (rel/name)`, `Rel(d, fp d rel) = rel`, `fp d rel ≠ d`, `Base(fp d (rel/name)) = name`
  — for EVERY `d` (clean or not, relative or absolute, "." and "/" included).
-/
import ModVerif.Basic.GoRtWalk
import ModVerif.Model.Zip
import ModVerif.Proofs.ZipBPath
namespace ModVerif.TieFnZipDir
open ModVerif ModVerif.PathClean ModVerif.ZipSpec ModVerif.Proofs.ZipB

/-- the file path of the entry with slash path `rel` below the walked directory `d` (`rel = []`: the root itself) -/
def fp (d rel : Bytes) : Bytes := if rel = [] then d else Zip.fpJoin d rel

/-- slash path of a directory met by the walk: empty (the root) or made of ordinary elements -/
def RelOK (rel : Bytes) : Prop := rel = [] ∨ NormalName rel

theorem fp_nil (d : Bytes) : fp d [] = d := rfl

theorem fp_ne_nil (d : Bytes) {rel : Bytes} (h : rel ≠ []) : fp d rel = Zip.fpJoin d rel := by
  unfold fp; rw [if_neg h]

theorem fp_normal (d : Bytes) {rel : Bytes} (h : NormalName rel) : fp d rel = Zip.fpJoin d rel :=
  fp_ne_nil d (normalName_ne_nil h)

theorem childPath_nil (name : Bytes) : Zip.childPath [] name = name := rfl

theorem childPath_ne (rel name : Bytes) (h : rel ≠ []) : Zip.childPath rel name = rel ++ 47 :: name := by
  unfold Zip.childPath
  have : (rel == []) = false := by simpa using h
  rw [this]; simp

theorem normalName_elem {name : Bytes} (hn : NormalElem name) : NormalName name := by
  intro c hc
  rw [splitOn_noSep 47 name hn.2.2.2] at hc
  simp at hc; subst hc; exact hn

theorem splitOn_child (rel name : Bytes) (hn : NormalElem name) :
    splitOn 47 (rel ++ 47 :: name) = splitOn 47 rel ++ [name] := by
  rw [splitOn_append_sep, splitOn_noSep 47 name hn.2.2.2]

theorem normalName_child {rel name : Bytes} (hr : RelOK rel) (hn : NormalElem name) :
    NormalName (Zip.childPath rel name) := by
  rcases hr with rfl | hr
  · rw [childPath_nil]; exact normalName_elem hn
  · rw [childPath_ne rel name (normalName_ne_nil hr)]
    intro c hc
    rw [splitOn_child rel name hn] at hc
    rcases List.mem_append.mp hc with hc | hc
    · exact hr c hc
    · simp at hc; subst hc; exact hn

/-- `filepath.Join(fp d rel, name) = fp d (rel/name)` -/
theorem fp_child (d : Bytes) {rel name : Bytes} (hr : RelOK rel) (hn : NormalElem name) :
    GoRt.fpJoin (fp d rel) name = fp d (Zip.childPath rel name) := by
  show Zip.fpJoin (fp d rel) name = _
  rw [fp_normal d (normalName_child hr hn)]
  rcases hr with rfl | hr
  · rfl
  · rw [fp_normal d hr, childPath_ne rel name (normalName_ne_nil hr)]
    have hc : NormalName (rel ++ 47 :: name) := by
      have := normalName_child (Or.inr hr) hn
      rwa [childPath_ne rel name (normalName_ne_nil hr)] at this
    rw [fpJoin_eq_render _ (normalName_elem hn), isRooted_fpJoin d hr, comps_fpJoin d hr,
      fpJoin_eq_render d hc, splitOn_child rel name hn, splitOn_noSep 47 name hn.2.2.2, List.append_assoc]

/-! ### joining component lists -/

theorem J_append : ∀ (a b : List Bytes), a ≠ [] → b ≠ [] → J (a ++ b) = J a ++ 47 :: J b
  | [], _, h, _ => absurd rfl h
  | [x], b, _, hb => by
    cases b with
    | nil => exact absurd rfl hb
    | cons y ys => simp [J, joinWith]
  | x :: y :: rest, b, _, hb => by
    have ih := J_append (y :: rest) b (by simp) hb
    simp only [List.cons_append] at ih ⊢
    rw [J_cons_cons, ih, J_cons_cons]
    simp

theorem J_ne_nil {cs : List Bytes} (h : cs ≠ []) (he : ∀ c ∈ cs, c ≠ []) : J cs ≠ [] := by
  cases cs with
  | nil => exact absurd rfl h
  | cons c rest =>
    cases rest with
    | nil => exact he c List.mem_cons_self
    | cons d ds =>
      rw [J_cons_cons]
      intro e
      have := congrArg List.length e
      simp at this

/-- a canonical list does not join to "." -/
theorem J_ne_dot {r : Bool} {cs : List Bytes} (h : Canon r cs) (hne : cs ≠ []) : J cs ≠ [46] := by
  intro e
  have hs := splitOn_J cs hne (fun c hc => (h.elem c hc).2.2)
  rw [e] at hs
  have : cs = [[46]] := by rw [← hs]; decide
  exact (h.elem [46] (by rw [this]; simp)).2.1 rfl

/-! ### filepath.Rel -/

theorem fpRel_self (d : Bytes) : GoRt.fpRel d d = ([46], none) := by
  unfold GoRt.fpRel
  simp

theorem prefix_drop (b rel : Bytes) :
    (b ++ [47]).isPrefixOf (b ++ 47 :: rel) = true ∧ (b ++ 47 :: rel).drop (b.length + 1) = rel := by
  constructor
  · rw [List.isPrefixOf_iff_prefix]
    exact ⟨rel, by simp⟩
  · have : b ++ 47 :: rel = (b ++ [47]) ++ rel := by simp
    rw [this, List.drop_left']
    simp

/-- `filepath.Rel(d, filepath.Join(d, rel)) = rel` -/
theorem fpRel_fp (d : Bytes) {rel : Bytes} (hr : NormalName rel) : GoRt.fpRel d (fp d rel) = (rel, none) := by
  rw [fp_normal d hr]
  have hS : splitOn 47 rel ≠ [] := splitOn_ne_nil 47 rel
  have hcan := canon_join d hr
  have hb : GoRt.pathClean d = render (isRooted d) (comps d) := pathClean_eq_render d
  have ht : GoRt.pathClean (Zip.fpJoin d rel) = render (isRooted d) (comps d ++ splitOn 47 rel) := by
    show pathClean _ = _
    rw [fpJoin_eq_render d hr]; exact pathClean_render hcan
  have hrelne : rel ≠ [] := normalName_ne_nil hr
  unfold GoRt.fpRel
  simp only [hb, ht]
  have hcd := canon_comps d
  cases hroot : isRooted d with
  | true =>
    rw [hroot] at hcan hcd
    by_cases hcs : comps d = []
    · rw [hcs]
      have e1 : render true ([] : List Bytes) = [47] := rfl
      have e2 : render true ([] ++ splitOn 47 rel) = 47 :: rel := by
        show 47 :: J ([] ++ splitOn 47 rel) = _
        rw [List.nil_append, J_splitOn]
      rw [e1, e2]
      have : (([47] : Bytes) == 47 :: rel) = false := by
        cases rel with
        | nil => exact absurd rfl hrelne
        | cons x xs => simp
      simp [this, GoRt.pathIsAbs, isAbs, isRooted]
    · have e1 : render true (comps d) = 47 :: J (comps d) := rfl
      have e2 : render true (comps d ++ splitOn 47 rel) = (47 :: J (comps d)) ++ 47 :: rel := by
        show 47 :: J (comps d ++ splitOn 47 rel) = _
        rw [J_append _ _ hcs hS, J_splitOn]; rfl
      rw [e1, e2]
      have hJ : J (comps d) ≠ [] := J_ne_nil hcs (fun c hc => (hcd.elem c hc).1)
      have n1 : ((47 :: J (comps d)) == (47 :: J (comps d)) ++ 47 :: rel) = false := by
        rw [beq_eq_false_iff_ne]; intro e
        have := congrArg List.length e
        simp at this
      have n2 : ((47 :: J (comps d)) == ([46] : Bytes)) = false := by simp
      have n3 : ((47 :: J (comps d)) == ([47] : Bytes)) = false := by simpa using hJ
      have := prefix_drop (47 :: J (comps d)) rel
      simp only [n1, n2, n3, Bool.false_and, Bool.false_eq_true, if_false, this.1, if_true, this.2]
  | false =>
    rw [hroot] at hcan hcd
    by_cases hcs : comps d = []
    · rw [hcs]
      have e1 : render false ([] : List Bytes) = [46] := rfl
      have e2 : render false ([] ++ splitOn 47 rel) = rel := by
        unfold render
        rw [List.nil_append]
        have : (splitOn 47 rel).isEmpty = false := by
          cases h : splitOn 47 rel with
          | nil => exact absurd h hS
          | cons _ _ => rfl
        simp only [Bool.false_eq_true, if_false, this]
        exact J_splitOn rel
      rw [e1, e2]
      have n1 : (([46] : Bytes) == rel) = false := by
        rw [beq_eq_false_iff_ne]; intro e
        have := hr [46] (by rw [← e]; decide)
        exact this.2.1 rfl
      have n2 : GoRt.pathIsAbs rel = false := normalName_not_rooted hr
      simp [n1, n2]
    · have hne : (comps d ++ splitOn 47 rel).isEmpty = false := by
        cases h : comps d with
        | nil => exact absurd h hcs
        | cons _ _ => rfl
      have hne1 : (comps d).isEmpty = false := by
        cases h : comps d with
        | nil => exact absurd h hcs
        | cons _ _ => rfl
      have e1 : render false (comps d) = J (comps d) := by
        unfold render; simp [hne1]
      have e2 : render false (comps d ++ splitOn 47 rel) = J (comps d) ++ 47 :: rel := by
        unfold render
        simp only [Bool.false_eq_true, if_false, hne]
        rw [J_append _ _ hcs hS, J_splitOn]
      rw [e1, e2]
      have n1 : (J (comps d) == J (comps d) ++ 47 :: rel) = false := by
        rw [beq_eq_false_iff_ne]; intro e
        have := congrArg List.length e
        simp at this
      have n2 : (J (comps d) == ([46] : Bytes)) = false := by
        rw [beq_eq_false_iff_ne]; exact J_ne_dot hcd hcs
      have n3 : (J (comps d) == ([47] : Bytes)) = false := by
        rw [beq_eq_false_iff_ne]; intro e
        have hs := splitOn_J (comps d) hcs (fun c hc => (hcd.elem c hc).2.2)
        rw [e] at hs
        have : comps d = [[], []] := by rw [← hs]; decide
        exact (hcd.elem [] (by rw [this]; simp)).1 rfl
      have := prefix_drop (J (comps d)) rel
      simp only [n1, n2, n3, Bool.false_and, Bool.false_eq_true, if_false, this.1, if_true, this.2]

/-- an entry below the root is not the root -/
theorem fp_ne (d : Bytes) {rel : Bytes} (hr : NormalName rel) : fp d rel ≠ d := by
  rw [fp_normal d hr]
  intro e
  have := congrArg comps e
  rw [comps_fpJoin d hr] at this
  have h2 : splitOn 47 rel = [] := by
    have := List.append_cancel_left (this.trans (List.append_nil _).symm)
    exact this
  exact splitOn_ne_nil 47 rel h2

/-! ### filepath.Base -/

theorem stripTrailingSlashes_id (p : Bytes) (h : p.getLast? ≠ some 47) : stripTrailingSlashes p = p := by
  unfold stripTrailingSlashes
  cases hp : p.reverse with
  | nil => simp at hp; subst hp; rfl
  | cons x xs =>
    have hx : p.getLast? = some x := by
      rw [List.getLast?_eq_head?_reverse, hp]; rfl
    have : (x == 47) = false := by
      rw [beq_eq_false_iff_ne]; intro e; subst e; exact h hx
    rw [List.dropWhile_cons_of_neg (by simpa using this), ← hp, List.reverse_reverse]

theorem pathBase_name {name : Bytes} (hn : NormalElem name) : pathBase name = name := by
  unfold pathBase
  have h1 : (name == []) = false := by simpa using hn.1
  have hl : name.getLast? ≠ some 47 := by
    intro e
    exact hn.2.2.2 (List.mem_of_getLast? e)
  simp only [h1, Bool.false_eq_true, if_false]
  rw [stripTrailingSlashes_id name hl, lastElem_noSlash name hn.2.2.2]
  simp [h1]

theorem pathBase_append (a : Bytes) {name : Bytes} (hn : NormalElem name) : pathBase (a ++ 47 :: name) = name := by
  unfold pathBase
  have h0 : (a ++ 47 :: name == []) = false := by simp
  have h1 : (name == []) = false := by simpa using hn.1
  have hl : (a ++ 47 :: name).getLast? ≠ some 47 := by
    intro e
    have : name.getLast? = some 47 := by
      cases name with
      | nil => exact absurd rfl hn.1
      | cons x xs =>
        have h2 : a ++ 47 :: x :: xs = (a ++ [47]) ++ (x :: xs) := by simp
        rw [h2, List.getLast?_append] at e
        have h3 : (x :: xs).getLast? = some ((x :: xs).getLast (by simp)) := List.getLast?_eq_some_getLast (by simp)
        rw [h3] at e ⊢
        simpa using e
    exact hn.2.2.2 (List.mem_of_getLast? this)
  simp only [h0, Bool.false_eq_true, if_false]
  rw [stripTrailingSlashes_id _ hl, lastElem_append a name hn.2.2.2]
  simp [h1]

theorem render_concat (r : Bool) (X : List Bytes) (name : Bytes) :
    render r (X ++ [name]) = name ∨ ∃ a, render r (X ++ [name]) = a ++ 47 :: name := by
  have hne : (X ++ [name]).isEmpty = false := by cases X <;> rfl
  by_cases hX : X = []
  · subst hX
    cases r with
    | true => right; exact ⟨[], rfl⟩
    | false => left; rfl
  · cases r with
    | true =>
      right
      refine ⟨47 :: J X, ?_⟩
      show 47 :: J (X ++ [name]) = _
      rw [J_concat name X hX]; rfl
    | false =>
      right
      refine ⟨J X, ?_⟩
      unfold render
      simp only [Bool.false_eq_true, if_false, hne]
      exact J_concat name X hX

/-- `filepath.Base` of the file path of an entry is its name -/
theorem pathBase_fp (d : Bytes) {rel name : Bytes} (hr : RelOK rel) (hn : NormalElem name) :
    GoRt.pathBase (fp d (Zip.childPath rel name)) = name := by
  show pathBase _ = _
  have hc := normalName_child hr hn
  rw [fp_normal d hc, fpJoin_eq_render d hc]
  have hsp : ∃ X, comps d ++ splitOn 47 (Zip.childPath rel name) = X ++ [name] := by
    rcases hr with rfl | hr
    · exact ⟨comps d, by rw [childPath_nil, splitOn_noSep 47 name hn.2.2.2]⟩
    · refine ⟨comps d ++ splitOn 47 rel, ?_⟩
      rw [childPath_ne rel name (normalName_ne_nil hr), splitOn_child rel name hn, List.append_assoc]
  obtain ⟨X, hX⟩ := hsp
  rw [hX]
  rcases render_concat (isRooted d) X name with h | ⟨a, h⟩
  · rw [h]; exact pathBase_name hn
  · rw [h]; exact pathBase_append a hn

end ModVerif.TieFnZipDir
