/-
  C10: the reading part of ReadHashes — `authenticate` and `extract` decomposed into per-tile statements.
-/
import ModVerif.Proofs.TileAuthPlan
namespace ModVerif.TileAuth
open ModVerif ModVerif.Tlog ModVerif.Tile ModVerif.TlogStore

section
variable {H : Type}

theorem widthsOk_spec : ∀ (tiles : List Tile) (data : List (List H)), widthsOk tiles data = true →
    data.length = tiles.length ∧
      ∀ (i : Nat) (t : Tile) (d : List H), tiles[i]? = some t → data[i]? = some d → d.length = t.w := by
  intro tiles
  induction tiles with
  | nil =>
    intro data h
    cases data with
    | nil => exact ⟨rfl, by intro i t d hi; simp at hi⟩
    | cons d ds => simp [widthsOk] at h
  | cons t ts ih =>
    intro data h
    cases data with
    | nil => simp [widthsOk] at h
    | cons d ds =>
      simp only [widthsOk, Bool.and_eq_true, beq_iff_eq] at h
      obtain ⟨h1, h2⟩ := ih ds h.2
      refine ⟨by simp [h1], ?_⟩
      intro i t' d' hi hd
      cases i with
      | zero =>
        simp only [List.getElem?_cons_zero, Option.some.injEq] at hi hd
        subst hi hd; exact h.1
      | succ i =>
        simp only [List.getElem?_cons_succ] at hi hd
        exact h2 i t' d' hi hd

theorem widthsOk_of : ∀ (tiles : List Tile) (data : List (List H)), data.length = tiles.length →
    (∀ (i : Nat) (t : Tile) (d : List H), tiles[i]? = some t → data[i]? = some d → d.length = t.w) →
    widthsOk tiles data = true := by
  intro tiles
  induction tiles with
  | nil =>
    intro data h _
    cases data with
    | nil => rfl
    | cons d ds => simp at h
  | cons t ts ih =>
    intro data h hw
    cases data with
    | nil => simp at h
    | cons d ds =>
      simp only [widthsOk, Bool.and_eq_true, beq_iff_eq]
      refine ⟨hw 0 t d rfl rfl, ih ds (by simpa using h) ?_⟩
      intro i t' d' hi hd
      exact hw (i + 1) t' d' (by simpa using hi) (by simpa using hd)

theorem mapM_option_get {α β : Type} (f : α → Option β) : ∀ (l : List α) (r : List β), l.mapM f = some r →
    r.length = l.length ∧ ∀ (i : Nat) (a : α), l[i]? = some a → ∃ b, r[i]? = some b ∧ f a = some b := by
  intro l
  induction l with
  | nil =>
    intro r h
    simp only [List.mapM_nil, pure, Option.some.injEq] at h
    subst h
    exact ⟨rfl, by intro i a hi; simp at hi⟩
  | cons a l ih =>
    intro r h
    rw [List.mapM_cons] at h
    cases hfa : f a with
    | none => rw [hfa] at h; cases h
    | some b =>
      cases hl : l.mapM f with
      | none => rw [hfa, hl] at h; cases h
      | some r' =>
        rw [hfa, hl] at h
        simp only [bind, Option.bind, pure, Option.some.injEq] at h
        subst h
        obtain ⟨h1, h2⟩ := ih r' hl
        refine ⟨by simp [h1], ?_⟩
        intro i a' hi
        cases i with
        | zero =>
          simp only [List.getElem?_cons_zero, Option.some.injEq] at hi
          subst hi
          exact ⟨b, rfl, hfa⟩
        | succ i =>
          simp only [List.getElem?_cons_succ] at hi ⊢
          exact h2 i a' hi

/-- data that is pointwise the true content is the true content -/
theorem tdata_of_pointwise (T : Nat → Nat → H) (h L n w : Nat) (d : List H) (hl : d.length = w)
    (hp : ∀ q, q < w → d[q]? = some (T (L * h) (n * 2 ^ h + q))) : d = tdata T h L n w := by
  apply List.ext_getElem?
  intro q
  by_cases hq : q < w
  · rw [hp q hq, tdata_get T h L n w q hq]
  · rw [List.getElem?_eq_none (by omega), List.getElem?_eq_none (by rw [tdata_length]; omega)]

variable (node : H → H → H)

/-! ### the hashes read for a list of (index, tile position) pairs -/

def hashList (tiles : List Tile) (data : List (List H)) : List (Nat × Nat) → Except Err (List H)
  | [] => .ok []
  | (x, j) :: rest => do
    let v ← hashAt node tiles data j x
    let vs ← hashList tiles data rest
    pure (v :: vs)

theorem hashList_get (tiles : List Tile) (data : List (List H)) : ∀ (l : List (Nat × Nat)) (hs : List H),
    hashList node tiles data l = .ok hs →
    hs.length = l.length ∧ ∀ (i x j : Nat), l[i]? = some (x, j) →
      ∃ v, hs[i]? = some v ∧ hashAt node tiles data j x = .ok v := by
  intro l
  induction l with
  | nil =>
    intro hs h
    simp only [hashList, Except.ok.injEq] at h
    subst h
    exact ⟨rfl, by intro i x j hi; simp at hi⟩
  | cons a l ih =>
    intro hs h
    obtain ⟨x, j⟩ := a
    simp only [hashList, bind, Except.bind] at h
    cases hv : hashAt node tiles data j x with
    | error e => rw [hv] at h; cases h
    | ok v =>
      rw [hv] at h
      simp only at h
      cases hr : hashList node tiles data l with
      | error e => rw [hr] at h; cases h
      | ok vs =>
        rw [hr] at h
        simp only [pure, Except.pure, Except.ok.injEq] at h
        subst h
        obtain ⟨h1, h2⟩ := ih vs hr
        refine ⟨by simp [h1], ?_⟩
        intro i x' j' hi
        cases i with
        | zero =>
          simp only [List.getElem?_cons_zero, Option.some.injEq, Prod.mk.injEq] at hi
          obtain ⟨e1, e2⟩ := hi
          subst e1 e2
          exact ⟨v, rfl, hv⟩
        | succ i =>
          simp only [List.getElem?_cons_succ] at hi ⊢
          exact h2 i x' j' hi

theorem hashList_of (tiles : List Tile) (data : List (List H)) (f : Nat × Nat → H) : ∀ (l : List (Nat × Nat)),
    (∀ a ∈ l, hashAt node tiles data a.2 a.1 = .ok (f a)) → hashList node tiles data l = .ok (l.map f) := by
  intro l
  induction l with
  | nil => intro _; rfl
  | cons a l ih =>
    intro h
    obtain ⟨x, j⟩ := a
    have h1 := h (x, j) (by simp)
    simp only at h1
    simp only [hashList, h1, ih (fun a ha => h a (by simp [ha])), bind, Except.bind, pure, Except.pure, List.map_cons]

theorem hashList_append (tiles : List Tile) (data : List (List H)) : ∀ (a b : List (Nat × Nat)) (ha hb : List H),
    hashList node tiles data a = .ok ha → hashList node tiles data b = .ok hb →
    hashList node tiles data (a ++ b) = .ok (ha ++ hb) := by
  intro a
  induction a with
  | nil =>
    intro b ha hb h1 h2
    simp only [hashList, Except.ok.injEq] at h1
    subst h1; simpa using h2
  | cons p a ih =>
    intro b ha hb h1 h2
    obtain ⟨x, j⟩ := p
    simp only [hashList, bind, Except.bind] at h1
    cases hv : hashAt node tiles data j x with
    | error e => rw [hv] at h1; cases h1
    | ok v =>
      rw [hv] at h1
      simp only at h1
      cases hr : hashList node tiles data a with
      | error e => rw [hr] at h1; cases h1
      | ok vs =>
        rw [hr] at h1
        simp only [pure, Except.pure, Except.ok.injEq] at h1
        subst h1
        simp only [List.cons_append, hashList, hv, ih b vs hb hr h2, bind, Except.bind, pure, Except.pure]

theorem hashList_split (tiles : List Tile) (data : List (List H)) : ∀ (a b : List (Nat × Nat)) (hs : List H),
    hashList node tiles data (a ++ b) = .ok hs →
    ∃ ha hb, hashList node tiles data a = .ok ha ∧ hashList node tiles data b = .ok hb ∧ hs = ha ++ hb := by
  intro a
  induction a with
  | nil => intro b hs h; exact ⟨[], hs, rfl, by simpa using h, rfl⟩
  | cons p a ih =>
    intro b hs h
    obtain ⟨x, j⟩ := p
    simp only [List.cons_append, hashList, bind, Except.bind] at h
    cases hv : hashAt node tiles data j x with
    | error e => rw [hv] at h; cases h
    | ok v =>
      rw [hv] at h
      simp only at h
      cases hr : hashList node tiles data (a ++ b) with
      | error e => rw [hr] at h; cases h
      | ok vs =>
        rw [hr] at h
        simp only [pure, Except.pure, Except.ok.injEq] at h
        subst h
        obtain ⟨ha, hb, e1, e2, e3⟩ := ih b vs hr
        refine ⟨v :: ha, hb, ?_, e2, by simp [e3]⟩
        simp only [hashList, hv, e1, bind, Except.bind, pure, Except.pure]

theorem hashList_reverse (tiles : List Tile) (data : List (List H)) : ∀ (l : List (Nat × Nat)) (hs : List H),
    hashList node tiles data l = .ok hs → hashList node tiles data l.reverse = .ok hs.reverse := by
  intro l
  induction l with
  | nil => intro hs h; simp only [hashList, Except.ok.injEq] at h; subst h; rfl
  | cons p l ih =>
    intro hs h
    obtain ⟨ha, hb, e1, e2, e3⟩ := hashList_split node tiles data [p] l hs (by simpa using h)
    subst e3
    rw [List.reverse_cons, List.reverse_append]
    exact hashList_append node tiles data _ _ _ _ (ih hb e2) (by
      obtain ⟨x, j⟩ := p
      simp only [hashList, bind, Except.bind] at e1 ⊢
      cases hv : hashAt node tiles data j x with
      | error e => rw [hv] at e1; cases e1
      | ok v =>
        rw [hv] at e1
        simp only [pure, Except.pure, Except.ok.injEq] at e1
        subst e1; rfl)

/-- the tree-hash fold reads the hashes in list order and folds them onto the accumulator -/
theorem stxFold_eq (tiles : List Tile) (data : List (List H)) : ∀ (l : List (Nat × Nat)) (acc : H),
    stxFold node tiles data l acc = (do
      let hs ← hashList node tiles data l
      pure (hs.foldl (fun a v => node v a) acc)) := by
  intro l
  induction l with
  | nil => intro acc; rfl
  | cons p l ih =>
    intro acc
    obtain ⟨x, j⟩ := p
    simp only [stxFold, hashList, bind, Except.bind]
    cases hv : hashAt node tiles data j x with
    | error e => rfl
    | ok v =>
      simp only
      rw [ih (node v acc)]
      simp only [bind, Except.bind]
      cases hashList node tiles data l with
      | error e => rfl
      | ok vs => rfl

/-- `extract` succeeds exactly when all the reads do, with the same hashes -/
theorem extract_ok_iff (p : Plan) (data : List (List H)) : ∀ (l : List (Nat × Nat)) (hs : List H),
    extract node p data l = .ok hs ↔ hashList node p.tiles data l = .ok hs := by
  intro l
  induction l with
  | nil => intro hs; simp [extract, hashList]
  | cons a l ih =>
    intro hs
    obtain ⟨x, j⟩ := a
    simp only [extract, hashList, bind, Except.bind]
    cases hv : hashAt node p.tiles data j x with
    | error e => cases e <;> simp
    | ok v =>
      simp only
      cases hr : extract node p data l with
      | error e =>
        cases hr' : hashList node p.tiles data l with
        | error e' => simp
        | ok vs => have := (ih vs).mpr hr'; rw [hr] at this; cases this
      | ok vs =>
        rw [(ih vs).mp hr]

/-! ### right folds under collision freedom -/

theorem foldR_inj (hcf : ∀ a b c d : H, node a b = node c d → a = c ∧ b = d) :
    ∀ (l l' : List H) (r : H), l.length = l'.length → foldR node l = some r → foldR node l' = some r → l = l' := by
  intro l
  induction l with
  | nil =>
    intro l' r hl _ _
    cases l' with
    | nil => rfl
    | cons _ _ => simp at hl
  | cons a t ih =>
    intro l' r hl h1 h2
    cases l' with
    | nil => simp at hl
    | cons a' t' =>
      cases t with
      | nil =>
        cases t' with
        | nil =>
          simp only [foldR, Option.some.injEq] at h1 h2
          rw [h1, h2]
        | cons _ _ => simp at hl
      | cons b t =>
        cases t' with
        | nil => simp at hl
        | cons b' t' =>
          simp only [foldR] at h1 h2
          cases hx : foldR node (b :: t) with
          | none => rw [hx] at h1; cases h1
          | some x =>
            cases hy : foldR node (b' :: t') with
            | none => rw [hy] at h2; cases h2
            | some y =>
              rw [hx] at h1; rw [hy] at h2
              simp only [Option.map_some, Option.some.injEq] at h1 h2
              obtain ⟨e1, e2⟩ := hcf a x a' y (by rw [h1, h2])
              subst e1 e2
              rw [ih (b' :: t') x (by simpa using hl) hx hy]

/-! ### authenticate -/

variable [DecidableEq H]

/-- what the parent-authentication loop checks for the tile at position `i` -/
def ChildOK (N : Nat) (p : Plan) (data : List (List H)) (i : Nat) : Prop :=
  ∃ tile di j dj v, p.tiles[i]? = some tile ∧ data[i]? = some di ∧
    p.order.lookup (tileParent tile 1 N) = some j ∧ data[j]? = some dj ∧
    hashFromTile node (tileParent tile 1 N) dj
      (storedHashIndex ((tileParent tile 1 N).l * (tileParent tile 1 N).h) tile.n) = .ok v ∧
    tileHash node di = .ok v

theorem authChildren_ok (N : Nat) (p : Plan) (data : List (List H)) : ∀ f i,
    authChildren node N p data f i = .ok () → ∀ i', i ≤ i' → i' < i + f → ChildOK node N p data i' := by
  intro f
  induction f with
  | zero => intro i _ i' h1 h2; omega
  | succ f ih =>
    intro i h i' h1 h2
    unfold authChildren at h
    split at h
    · rename_i tile di ht hd
      dsimp only at h
      split at h
      · cases h
      · rename_i j hj
        split at h
        · cases h
        · rename_i dj hdj
          split at h
          · cases h
          · cases h
          · cases h
          · rename_i v hv
            simp only [bind, Except.bind] at h
            cases hth : tileHash node di with
            | error e => rw [hth] at h; cases h
            | ok th =>
              rw [hth] at h
              simp only at h
              split at h
              · cases h
              · rename_i hne
                have hvt : v = th := by simpa using hne
                subst hvt
                by_cases hi : i' = i
                · subst hi
                  exact ⟨tile, di, j, dj, v, ht, hd, hj, hdj, hv, hth⟩
                · exact ih (i + 1) h i' (by omega) (by omega)
    · cases h

theorem authChildren_of (N : Nat) (p : Plan) (data : List (List H)) : ∀ f i,
    (∀ i', i ≤ i' → i' < i + f → ChildOK node N p data i') → authChildren node N p data f i = .ok () := by
  intro f
  induction f with
  | zero => intro i _; rfl
  | succ f ih =>
    intro i h
    obtain ⟨tile, di, j, dj, v, ht, hd, hj, hdj, hv, hth⟩ := h i (Nat.le_refl _) (by omega)
    unfold authChildren
    simp only [ht, hd, hj, hdj, hv, hth, bind, Except.bind, bne_self_eq_false, Bool.false_eq_true, ↓reduceIte]
    exact ih (i + 1) (fun i' a b => h i' (by omega) (by omega))

omit [DecidableEq H] in
theorem foldRight_cons (v0 : H) (hs1 : List H) :
    Tlog.foldRight node (v0 :: hs1) = some (hs1.foldl (fun a v => node v a) v0) := rfl

theorem authenticate_ok (N : Nat) (th : H) (p : Plan) (data : List (List H))
    (h : authenticate node N th p data = .ok ()) :
    ∃ hs, hashList node p.tiles data (p.stx.zip p.stxTileOrder) = .ok hs ∧ foldR node hs = some th ∧
      authChildren node N p data (p.tiles.length - p.nstx) p.nstx = .ok () := by
  unfold authenticate at h
  generalize hz : p.stx.zip p.stxTileOrder = z at h ⊢
  cases hrev : z.reverse with
  | nil => rw [hrev] at h; cases h
  | cons a rest =>
    obtain ⟨x, j⟩ := a
    rw [hrev] at h
    simp only [bind, Except.bind] at h
    cases hv : hashAt node p.tiles data j x with
    | error e => rw [hv] at h; cases h
    | ok v0 =>
      rw [hv] at h
      simp only at h
      rw [stxFold_eq] at h
      simp only [bind, Except.bind] at h
      cases hr : hashList node p.tiles data rest with
      | error e => rw [hr] at h; cases h
      | ok hs1 =>
        rw [hr] at h
        simp only [pure, Except.pure] at h
        split at h
        · cases h
        · rename_i hne
          have heq : hs1.foldl (fun a v => node v a) v0 = th := by simpa using hne
          have hl : hashList node p.tiles data ((x, j) :: rest) = .ok (v0 :: hs1) := by
            simp only [hashList, hv, hr, bind, Except.bind, pure, Except.pure]
          rw [← hrev] at hl
          have hl2 := hashList_reverse node p.tiles data _ _ hl
          rw [List.reverse_reverse] at hl2
          refine ⟨_, hl2, ?_, h⟩
          rw [← foldRight_reverse, List.reverse_reverse, foldRight_cons, heq]

theorem authenticate_of (N : Nat) (th : H) (p : Plan) (data : List (List H)) (hs : List H)
    (h1 : hashList node p.tiles data (p.stx.zip p.stxTileOrder) = .ok hs) (h2 : foldR node hs = some th)
    (h3 : authChildren node N p data (p.tiles.length - p.nstx) p.nstx = .ok ()) :
    authenticate node N th p data = .ok () := by
  unfold authenticate
  generalize p.stx.zip p.stxTileOrder = z at h1 ⊢
  have hl := hashList_reverse node p.tiles data _ _ h1
  cases hrev : z.reverse with
  | nil =>
    rw [hrev] at hl
    simp only [hashList, Except.ok.injEq] at hl
    have : hs = [] := by simpa using hl.symm
    subst this
    simp [foldR] at h2
  | cons a rest =>
    obtain ⟨x, j⟩ := a
    rw [hrev] at hl
    simp only [hashList, bind, Except.bind] at hl
    cases hv : hashAt node p.tiles data j x with
    | error e => rw [hv] at hl; cases hl
    | ok v0 =>
      rw [hv] at hl
      simp only at hl
      cases hr : hashList node p.tiles data rest with
      | error e => rw [hr] at hl; cases hl
      | ok hs1 =>
        rw [hr] at hl
        simp only [pure, Except.pure, Except.ok.injEq] at hl
        have hf : Tlog.foldRight node (v0 :: hs1) = some th := by
          rw [hl, foldRight_reverse]; exact h2
        rw [foldRight_cons] at hf
        simp only [Option.some.injEq] at hf
        simp only [bind, Except.bind, hv]
        rw [stxFold_eq]
        simp only [hr, bind, Except.bind, pure, Except.pure, hf, bne_self_eq_false, Bool.false_eq_true, ↓reduceIte]
        exact h3

end
end ModVerif.TileAuth
