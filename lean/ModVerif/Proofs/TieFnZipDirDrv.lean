/-
  Tie proof, zip/zip.go directory functions: the file system the driver builds from a model tree (`Drv/GenZipDir.lean`:
  the tree is placed at the directory "t"; `walkRoot` / `os.Lstat` / `os.Open` / `os.ReadFile` look a path up by name with
  `lookup`) satisfies the hypotheses of the tie theorems (`ChildrenOK`, Proofs/TieFnZipDirWalk.lean) for EVERY tree whose
  names are ordinary path elements, pairwise distinct among siblings, and whose files all have an `Lstat` result.
-/
import ModVerif.Proofs.TieFnZipDirWalk
namespace ModVerif.TieFnZipDir
open ModVerif ModVerif.GoRt ModVerif.PathClean ModVerif.ZipSpec ModVerif.Proofs.ZipB
open ModVerif.Generated.Zip (File FileError FileInfo)
open ModVerif.Drv.GenZipDir (toFs toFsList dirInfo lookup findNode compsOf)
open ModVerif.Drv.Zip (tdir)

/-- `walkRoot` / `os.Lstat` / `os.Open` / `os.ReadFile` as the driver (`Drv/GenZipDir.lean`, `env`) builds them from a model
    tree placed at the directory "t": lookup by name -/
def drvWalkRoot (root : List (Bytes × Zip.Node)) : Bytes → FsTree FileInfo :=
  fun p => match lookup root p with | some n => toFs n | none => .file default

def drvLstat (root : List (Bytes × Zip.Node)) : Bytes → (FileInfo × Option String) :=
  fun p => match lookup root p with
    | some n => ((toFs n).info, none)
    | none => (default, some "lstat")

def drvOpen (root : List (Bytes × Zip.Node)) : Bytes → (Bytes × Option String) :=
  fun p => match lookup root p with
    | some (.file _ _ c _) => (c, none)
    | _ => ([], some "open")

/-- `g`: the op's explicit "the root go.mod says go ≥ 1.24" flag, which the driver turns into a marker content -/
def drvReadFile (g : Bool) (root : List (Bytes × Zip.Node)) : Bytes → (Bytes × Option String) :=
  fun p => match lookup root p with
    | some (.file _ _ c _) =>
      if p == tdir ++ B "/go.mod" then (if g then Drv.GenZipDir.ge124Marker else c, none) else (c, none)
    | _ => ([], some "read")

/-- the driver's stand-in for `parseGoVers` (the harness supplies the go ≥ 1.24 bit per content) -/
def drvPgv (fs : List Zip.FileInfo) : Bytes → Bytes → Bytes :=
  fun _ data =>
    if data == Drv.GenZipDir.ge124Marker || fs.any (fun f => f.content == data && f.goGe124) then B "go1.24" else B "go1.0"

mutual
/-- a tree the driver's lookup by name reads faithfully: ordinary names, pairwise distinct among siblings; every file has an
    `Lstat` result -/
def DrvNode : Zip.Node → Prop
  | .file mode _ _ _ => mode ≠ .lstatErr
  | .dir cs => DrvChildren cs
def DrvChildren : List (Bytes × Zip.Node) → Prop
  | [] => True
  | (name, n) :: rest => NormalElem name ∧ (∀ x ∈ rest, x.1 ≠ name) ∧ DrvNode n ∧ DrvChildren rest
end

/-! ### paths below "t" -/

/-- components of a slash path (none for the root) -/
def compsRel (rel : Bytes) : List Bytes := if rel = [] then [] else splitOn 47 rel

theorem fp_tdir {rel : Bytes} (hr : NormalName rel) : fp tdir rel = tdir ++ 47 :: rel := by
  rw [fp_normal tdir hr, fpJoin_eq_render tdir hr]
  have h1 : isRooted tdir = false := by decide
  have h2 : comps tdir = [tdir] := by decide
  rw [h1, h2]
  unfold render
  have hne : ([tdir] ++ splitOn 47 rel).isEmpty = false := rfl
  simp only [Bool.false_eq_true, if_false, hne]
  rw [J_append [tdir] _ (by simp) (splitOn_ne_nil 47 rel), J_splitOn]
  rfl

theorem lookup_fp (root : List (Bytes × Zip.Node)) {rel : Bytes} (hr : NormalName rel) :
    lookup root (fp tdir rel) = findNode (splitOn 47 rel) root := by
  rw [fp_tdir hr]
  unfold lookup compsOf
  have h1 : (tdir ++ 47 :: rel == tdir) = false := by
    rw [beq_eq_false_iff_ne]; intro e
    have := congrArg List.length e
    simp at this
  have h2 : isPrefixOfB (tdir ++ [47]) (tdir ++ 47 :: rel) = true := by
    show isPrefixOfB [116, 47] (116 :: 47 :: rel) = true
    simp [isPrefixOfB]
  have h3 : (tdir ++ 47 :: rel).drop 2 = rel := rfl
  simp only [h1, h2, h3, Bool.false_eq_true, if_false, if_true, Option.bind_some]

theorem compsRel_child {rel name : Bytes} (hr : RelOK rel) (hn : NormalElem name) :
    splitOn 47 (Zip.childPath rel name) = compsRel rel ++ [name] := by
  unfold compsRel
  rcases hr with rfl | hr
  · rw [childPath_nil, splitOn_noSep 47 name hn.2.2.2]; rfl
  · rw [childPath_ne rel name (normalName_ne_nil hr), splitOn_child rel name hn, if_neg (normalName_ne_nil hr)]

/-! ### lookup by name -/

theorem findNode_snoc (name : Bytes) : ∀ (pre : List Bytes) (root cs : List (Bytes × Zip.Node)),
    findNode pre root = some (.dir cs) →
    findNode (pre ++ [name]) root = (cs.find? (fun e => e.1 == name)).map (·.2)
  | [], root, cs, h => by
    simp only [findNode, Option.some.injEq, Zip.Node.dir.injEq] at h
    subst h; rfl
  | [c], root, cs, h => by
    simp only [findNode] at h
    simp only [List.cons_append, List.nil_append, findNode, h]
  | c :: c' :: r, root, cs, h => by
    simp only [findNode] at h
    simp only [List.cons_append, findNode]
    cases hf : ((root.find? (fun e => e.1 == c)).map (·.2) : Option Zip.Node) with
    | none => rw [hf] at h; cases h
    | some x =>
      rw [hf] at h
      cases x with
      | file _ _ _ _ => cases h
      | dir cs' =>
        simp only at h ⊢
        have := findNode_snoc name (c' :: r) cs' cs h
        simpa using this

theorem find_self : ∀ (cs : List (Bytes × Zip.Node)), DrvChildren cs → ∀ x ∈ cs, cs.find? (fun e => e.1 == x.1) = some x
  | [], _, x, hx => by cases hx
  | (name, n) :: rest, h, x, hx => by
    simp only [DrvChildren] at h
    rcases List.mem_cons.mp hx with rfl | hx
    · simp
    · have hne : ((name, n).1 == x.1) = false := by
        rw [beq_eq_false_iff_ne]; exact fun e => h.2.1 x hx e.symm
      rw [List.find?_cons_of_neg (by simpa using hne)]
      exact find_self rest h.2.2.2 x hx

theorem any_find (k : Bytes) (p : Zip.Node → Bool) : ∀ (cs : List (Bytes × Zip.Node)), DrvChildren cs →
    cs.any (fun c => c.1 == k && p c.2) =
      match cs.find? (fun e => e.1 == k) with
      | some x => p x.2
      | none => false
  | [], _ => rfl
  | (name, n) :: rest, h => by
    simp only [DrvChildren] at h
    by_cases hk : name = k
    · subst hk
      have hrest : rest.any (fun c => c.1 == name && p c.2) = false := by
        rw [List.any_eq_false]
        intro x hx
        have : (x.1 == name) = false := by rw [beq_eq_false_iff_ne]; exact h.2.1 x hx
        simp [this]
      simp [hrest]
    · have hne : (name == k) = false := by rw [beq_eq_false_iff_ne]; exact hk
      rw [List.any_cons, List.find?_cons_of_neg (by simpa using hne)]
      simp only [hne, Bool.false_and, Bool.false_or]
      exact any_find k p rest h.2.2.2

theorem toFs_info_isDir (n : Zip.Node) : (toFs n).info.IsDir = n.isDir := by
  cases n <;> simp [toFs, FsTree.info, Zip.Node.isDir, dirInfo]

theorem normalElem_goMod : NormalElem Zip.goModName := by
  refine ⟨by decide, by decide, by decide, by decide⟩

/-- `os.Lstat(<directory>/go.mod)` of the driver answers from the tree -/
theorem lstatGoMod_drv (root : List (Bytes × Zip.Node)) {rel : Bytes} (hr : NormalName rel) (cs : List (Bytes × Zip.Node))
    (hfind : findNode (splitOn 47 rel) root = some (.dir cs)) (hcs : DrvChildren cs) :
    lstatGoMod (drvLstat root) (fp tdir rel) = Zip.hasGoModFile cs := by
  unfold lstatGoMod drvLstat
  rw [fp_child tdir (Or.inr hr) normalElem_goMod, lookup_fp root (normalName_child (Or.inr hr) normalElem_goMod),
    compsRel_child (Or.inr hr) normalElem_goMod]
  have hcr : compsRel rel = splitOn 47 rel := by unfold compsRel; rw [if_neg (normalName_ne_nil hr)]
  rw [hcr, findNode_snoc Zip.goModName _ root cs hfind]
  unfold Zip.hasGoModFile
  rw [any_find Zip.goModName (fun n => !n.isDir) cs hcs]
  cases cs.find? (fun e => e.1 == Zip.goModName) with
  | none => rfl
  | some x => simp [toFs_info_isDir]

/-! ### the driver's file system reads the tree -/

mutual
theorem nodeOK_drv (root : List (Bytes × Zip.Node)) : ∀ (n : Zip.Node) (rel : Bytes), NormalName rel →
    findNode (splitOn 47 rel) root = some n → DrvNode n → NodeOK (drvLstat root) (drvOpen root) tdir rel n
  | .file mode size content g, rel, hr, hfind, hn => by
    simp only [DrvNode] at hn
    simp only [NodeOK]
    refine ⟨hn, fun _ => ?_⟩
    unfold drvOpen
    rw [lookup_fp root hr, hfind]
  | .dir cs, rel, hr, hfind, hn => by
    simp only [DrvNode] at hn
    simp only [NodeOK]
    refine ⟨lstatGoMod_drv root hr cs hfind hn, ?_⟩
    have hcr : compsRel rel = splitOn 47 rel := by unfold compsRel; rw [if_neg (normalName_ne_nil hr)]
    exact childrenOK_drv root cs rel cs (Or.inr hr) (by rw [hcr]; exact hfind) (find_self cs hn) hn
theorem childrenOK_drv (root : List (Bytes × Zip.Node)) : ∀ (cs' : List (Bytes × Zip.Node)) (rel : Bytes)
    (cs : List (Bytes × Zip.Node)), RelOK rel → findNode (compsRel rel) root = some (.dir cs) →
    (∀ x ∈ cs', cs.find? (fun e => e.1 == x.1) = some x) → DrvChildren cs' →
    ChildrenOK (drvLstat root) (drvOpen root) tdir rel cs'
  | [], _, _, _, _, _, _ => by simp only [ChildrenOK]
  | (name, n) :: rest, rel, cs, hr, hfind, hmem, hd => by
    simp only [DrvChildren] at hd
    simp only [ChildrenOK]
    have hc := normalName_child hr hd.1
    have hf : findNode (splitOn 47 (Zip.childPath rel name)) root = some n := by
      rw [compsRel_child hr hd.1, findNode_snoc name _ root cs hfind, hmem (name, n) List.mem_cons_self]
      rfl
    exact ⟨hd.1, nodeOK_drv root n (Zip.childPath rel name) hc hf hd.2.2.1,
      childrenOK_drv root rest rel cs hr hfind (fun x hx => hmem x (List.mem_cons_of_mem _ hx)) hd.2.2.2⟩
end

/-- ★ the driver's file system presents the tree it was built from -/
theorem driver_reads (root : List (Bytes × Zip.Node)) (h : DrvChildren root) :
    drvWalkRoot root tdir = toFs (.dir root) ∧ ChildrenOK (drvLstat root) (drvOpen root) tdir [] root :=
  ⟨rfl, childrenOK_drv root root [] root (Or.inl rfl) rfl (find_self root h) h⟩

end ModVerif.TieFnZipDir
