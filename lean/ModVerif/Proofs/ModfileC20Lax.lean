/-
  C20 `lax_superset`: the strict/lax simulation over `File.add`, `addBlockLines`, `addStmts` and `fixRetract`.
-/
import ModVerif.Proofs.ModfileC20Stmts
import ModVerif.Proofs.ModfileC20Ids
import ModVerif.Proofs.ModfileRule
namespace ModVerif.Proofs.ModfileC20
open ModVerif ModVerif.Modfile

/-- the four typed fields the lax parser keeps -/
def fcore (st : AddState) : Option Module × Option Go × List Require × List Retract :=
  (st.file.module, st.file.go, st.file.require, st.file.retract)

/-- simulation relation between the strict and the lax run -/
structure Sim (sS sL : AddState) : Prop where
  core : fcore sL = fcore sS
  errs : sL.errsRev = sS.errsRev

theorem err_ne (st : AddState) (p : Position) (k : RuleErrKind) : (st.err p k).errsRev ≠ st.errsRev := by
  intro h
  have := congrArg List.length h
  simp [AddState.err] at this

/-- congruence of one `File.add` step under `Sim` (same mode on both sides): still related, identical
    rewritten tokens, and the retract lists grow by the same at-most-one entry for this line -/
structure Congr (l : Line) (sS sL : AddState) (rS rL : AddState × List Bytes) : Prop where
  sim : Sim rS.1 rL.1
  toks : rS.2 = rL.2
  retr : rS.1.file.retract = sS.file.retract ∨ (∃ r, rS.1.file.retract = sS.file.retract ++ [r] ∧ r.lineId = l.id)

macro "congr_leaf" : tactic =>
  `(tactic| (refine ⟨⟨?_, ?_⟩, ?_, ?_⟩ <;>
      first
      | (simp [fcore, AddState.err, *]; done)
      | (exact Or.inl rfl)
      | (exact Or.inr ⟨_, rfl, rfl⟩)))

theorem addGo_congr (sS sL : AddState) (l : Line) (args : List Bytes) (b : Bool) (h : Sim sS sL) :
    Congr l sS sL (addGo sS l args b) (addGo sL l args b) := by
  have hc := h.core
  simp only [fcore, Prod.mk.injEq] at hc
  obtain ⟨hm, hg, hr, ht⟩ := hc
  have he := h.errs
  unfold addGo
  simp only [hg]
  repeat' (first | split | (dsimp only))
  all_goals congr_leaf


theorem addModule_congr (sS sL : AddState) (block : Option Comments) (l : Line) (args : List Bytes) (h : Sim sS sL) :
    Congr l sS sL (addModule sS block l args) (addModule sL block l args) := by
  have hc := h.core
  simp only [fcore, Prod.mk.injEq] at hc
  obtain ⟨hm, hg, hr, ht⟩ := hc
  have he := h.errs
  unfold addModule
  simp only [hm]
  repeat' (first | split | (dsimp only))
  all_goals congr_leaf

theorem addReqExc_congr (sS sL : AddState) (l : Line) (verb : Bytes) (args : List Bytes) (fix : Option Fixer)
    (h : Sim sS sL) : Congr l sS sL (addReqExc sS l verb args fix) (addReqExc sL l verb args fix) := by
  have hc := h.core
  simp only [fcore, Prod.mk.injEq] at hc
  obtain ⟨hm, hg, hr, ht⟩ := hc
  have he := h.errs
  unfold addReqExc
  simp only [hr]
  repeat' (first | split | (dsimp only))
  all_goals congr_leaf

theorem addRetractV_congr (sS sL : AddState) (block : Option Comments) (l : Line) (args : List Bytes) (b : Bool)
    (h : Sim sS sL) : Congr l sS sL (addRetractV sS block l args b) (addRetractV sL block l args b) := by
  have hc := h.core
  simp only [fcore, Prod.mk.injEq] at hc
  obtain ⟨hm, hg, hr, ht⟩ := hc
  have he := h.errs
  unfold addRetractV
  simp only [ht]
  repeat' (first | split | (dsimp only))
  all_goals congr_leaf


theorem beq_comm_false {a b : Bytes} (h : (a == b) = false) : (b == a) = false := by
  rw [← h]; exact Bool.beq_comm

theorem verbIn_lax_cases {verb : Bytes} (h : verbIn verb laxVerbs = true) :
    verb = B "go" ∨ verb = B "module" ∨ verb = B "retract" ∨ verb = B "require" := by
  simp only [verbIn, laxVerbs, List.any_cons, List.any_nil, Bool.or_false, Bool.or_eq_true, beq_iff_eq] at h
  rcases h with h | h | h | h
  · exact Or.inl h.symm
  · exact Or.inr (Or.inl h.symm)
  · exact Or.inr (Or.inr (Or.inl h.symm))
  · exact Or.inr (Or.inr (Or.inr h.symm))

/-- congruence of `File.add` on a verb the lax parser keeps (same mode on both sides) -/
theorem add_congr_lax (sS sL : AddState) (block : Option Comments) (l : Line) (verb : Bytes) (args : List Bytes)
    (fix : Option Fixer) (b : Bool) (hv : verbIn verb laxVerbs = true) (h : Sim sS sL) :
    Congr l sS sL (File.add sS block l verb args fix b) (File.add sL block l verb args fix b) := by
  rw [add_eq, add_eq]
  simp only [hv, Bool.not_true, Bool.and_false, Bool.false_eq_true, if_false]
  rcases verbIn_lax_cases hv with rfl | rfl | rfl | rfl
  · simp only [beq_self_eq_true, if_true]
    exact addGo_congr sS sL l args b h
  · have h1 : (B "module" == B "go") = false := by decide +kernel
    have h2 : (B "module" == B "toolchain") = false := by decide +kernel
    simp only [h1, h2, Bool.false_eq_true, if_false, beq_self_eq_true, if_true]
    exact addModule_congr sS sL block l args h
  · have h1 : (B "retract" == B "go") = false := by decide +kernel
    have h2 : (B "retract" == B "toolchain") = false := by decide +kernel
    have h3 : (B "retract" == B "module") = false := by decide +kernel
    have h4 : (B "retract" == B "godebug") = false := by decide +kernel
    have h5 : (B "retract" == B "require") = false := by decide +kernel
    have h6 : (B "retract" == B "exclude") = false := by decide +kernel
    have h7 : (B "retract" == B "replace") = false := by decide +kernel
    simp only [h1, h2, h3, h4, h5, h6, h7, Bool.false_eq_true, if_false, Bool.or_self, beq_self_eq_true, if_true]
    exact addRetractV_congr sS sL block l args b h
  · have h1 : (B "require" == B "go") = false := by decide +kernel
    have h2 : (B "require" == B "toolchain") = false := by decide +kernel
    have h3 : (B "require" == B "module") = false := by decide +kernel
    have h4 : (B "require" == B "godebug") = false := by decide +kernel
    simp only [h1, h2, h3, h4, Bool.false_eq_true, if_false, beq_self_eq_true, Bool.true_or, if_true]
    exact addReqExc_congr sS sL l _ args fix h

/-! frame: in strict mode a verb the lax parser ignores does not touch the four kept fields -/

macro "frame_auto" : tactic =>
  `(tactic| (repeat' (first | split | (dsimp only))) <;> (first | rfl | (rename_i hf; cases hf)))

theorem addToolchain_frame (st : AddState) (l : Line) (args : List Bytes) :
    fcore (addToolchain st l args).1 = fcore st := by unfold addToolchain; frame_auto
theorem addGodebugV_frame (st : AddState) (l : Line) (args : List Bytes) :
    fcore (addGodebugV st l args).1 = fcore st := by unfold addGodebugV; frame_auto
theorem addReplaceV_frame (st : AddState) (l : Line) (args : List Bytes) (fix : Option Fixer) :
    fcore (addReplaceV st l args fix).1 = fcore st := by unfold addReplaceV; frame_auto
theorem addToolV_frame (st : AddState) (l : Line) (args : List Bytes) :
    fcore (addToolV st l args).1 = fcore st := by unfold addToolV; frame_auto
theorem addReqExc_frame (st : AddState) (l : Line) (verb : Bytes) (args : List Bytes) (fix : Option Fixer)
    (hv : (verb == B "require") = false) :
    fcore (addReqExc st l verb args fix).1 = fcore st := by
  unfold addReqExc; simp only [hv]; frame_auto

theorem add_frame (st : AddState) (block : Option Comments) (l : Line) (verb : Bytes) (args : List Bytes)
    (fix : Option Fixer) (hv : verbIn verb laxVerbs = false) :
    fcore (File.add st block l verb args fix true).1 = fcore st := by
  rw [add_eq]
  simp only [verbIn, laxVerbs, List.any_cons, List.any_nil, Bool.or_false, Bool.or_eq_false_iff] at hv
  obtain ⟨h1, h2, h3, h4⟩ := hv
  have e1 := beq_comm_false h1
  have e2 := beq_comm_false h2
  have e3 := beq_comm_false h3
  have e4 := beq_comm_false h4
  simp only [Bool.not_true, Bool.false_and, Bool.false_eq_true, if_false, e1, e2, e3, e4, Bool.false_or]
  split
  · exact addToolchain_frame ..
  split
  · exact addGodebugV_frame ..
  split
  · exact addReqExc_frame _ _ _ _ _ e4
  split
  · exact addReplaceV_frame ..
  split
  · exact addToolV_frame ..
  · rfl

/-- outcome of one line, strict on one side and lax on the other -/
structure LineSim (l : Line) (sS : AddState) (rS rL : AddState × List Bytes) : Prop where
  sim : Sim rS.1 rL.1
  retr : rS.1.file.retract = sS.file.retract ∨
    (∃ r, rS.1.file.retract = sS.file.retract ++ [r] ∧ r.lineId = l.id ∧ rS.2 = rL.2)

/-- The simulation step: a line that the strict `File.add` accepts keeps the runs related; if it appended a
    retract entry, both runs rewrote the tokens of the line identically. -/
theorem add_sim (sS sL : AddState) (block : Option Comments) (l : Line) (verb : Bytes) (args : List Bytes)
    (fix : Option Fixer) (h : Sim sS sL)
    (hok : (File.add sS block l verb args fix true).1.errsRev = sS.errsRev) :
    LineSim l sS (File.add sS block l verb args fix true) (File.add sL block l verb args fix false) := by
  cases hv : verbIn verb laxVerbs with
  | true =>
    have heq := ModVerif.Proofs.ModfileRule.add_strict_ok_lax sS block l verb args fix hv hok
    have hc := add_congr_lax sS sL block l verb args fix false hv h
    rw [heq] at hc
    refine ⟨hc.sim, ?_⟩
    rcases hc.retr with hr | ⟨r, hr, hid⟩
    · exact Or.inl hr
    · exact Or.inr ⟨r, hr, hid, hc.toks⟩
  | false =>
    rw [ModVerif.Proofs.ModfileRule.add_lax_ignores sL block l verb args fix hv]
    have hf := add_frame sS block l verb args fix hv
    refine ⟨⟨?_, ?_⟩, ?_⟩
    · rw [hf]; exact h.core
    · rw [hok]; exact h.errs
    · left
      have := congrArg (fun c => c.2.2.2) hf
      exact this


/-! ### blocks and statement lists -/

theorem ErrsExt.eq_of_eq {P : RuleErr → Prop} {a b c : List RuleErr} (h1 : ErrsExt P a b) (h2 : ErrsExt P b c)
    (h : c = a) : b = a ∧ c = b := by
  obtain ⟨x, rfl, _⟩ := h1
  obtain ⟨y, rfl, _⟩ := h2
  have hl := congrArg List.length h
  simp only [List.length_append] at hl
  have hx : x = [] := List.eq_nil_of_length_eq_zero (by omega)
  have hy : y = [] := List.eq_nil_of_length_eq_zero (by omega)
  subst hx; subst hy
  exact ⟨rfl, rfl⟩

/-- every retract entry is old, or carries the identity of a line that occurs (with the same tokens) in the
    output of both runs -/
def RetrTok (old : List Retract) (LS LL : List Line) (new : List Retract) : Prop :=
  ∀ r ∈ new, r ∈ old ∨ ∃ a, a ∈ LS ∧ a ∈ LL ∧ a.id = r.lineId

theorem RetrTok.refl (old : List Retract) (LS LL : List Line) : RetrTok old LS LL old := fun _ hr => Or.inl hr

theorem RetrTok.mono {old new : List Retract} {LS LL LS' LL' : List Line} (h : RetrTok old LS LL new)
    (hS : ∀ a ∈ LS, a ∈ LS') (hL : ∀ a ∈ LL, a ∈ LL') : RetrTok old LS' LL' new := by
  intro r hr
  rcases h r hr with h | ⟨a, h1, h2, h3⟩
  · exact Or.inl h
  · exact Or.inr ⟨a, hS a h1, hL a h2, h3⟩

theorem RetrTok.trans {a b c : List Retract} {LS LL LS' LL' : List Line} (h1 : RetrTok a LS LL b)
    (h2 : RetrTok b LS' LL' c) : RetrTok a (LS ++ LS') (LL ++ LL') c := by
  intro r hr
  rcases h2 r hr with h | ⟨x, hx1, hx2, hx3⟩
  · rcases h1 r h with h | ⟨x, hx1, hx2, hx3⟩
    · exact Or.inl h
    · exact Or.inr ⟨x, List.mem_append_left _ hx1, List.mem_append_left _ hx2, hx3⟩
  · exact Or.inr ⟨x, List.mem_append_right _ hx1, List.mem_append_right _ hx2, hx3⟩

/-- one accepted line as a `RetrTok` step; `mk` builds the output line from the rewritten tokens -/
theorem RetrTok.ofLine {l : Line} {sS : AddState} {rS rL : AddState × List Bytes} (mk : List Bytes → Line)
    (hid : ∀ t, (mk t).id = l.id) (h : LineSim l sS rS rL) :
    RetrTok sS.file.retract [mk rS.2] [mk rL.2] rS.1.file.retract := by
  intro r hr
  rcases h.retr with he | ⟨r', he, hid', ht⟩
  · exact Or.inl (he ▸ hr)
  · rw [he] at hr
    simp only [List.mem_append, List.mem_singleton] at hr
    rcases hr with hr | rfl
    · exact Or.inl hr
    · exact Or.inr ⟨mk rS.2, by simp, by simp [ht], by rw [hid, hid']⟩

theorem addBlockLines_sim (block : Comments) (verb : Bytes) (fix : Option Fixer) :
    ∀ (ls : List Line) (sS sL : AddState), Sim sS sL →
    (addBlockLines block verb fix true sS ls).1.errsRev = sS.errsRev →
    Sim (addBlockLines block verb fix true sS ls).1 (addBlockLines block verb fix false sL ls).1 ∧
    RetrTok sS.file.retract (addBlockLines block verb fix true sS ls).2 (addBlockLines block verb fix false sL ls).2
      (addBlockLines block verb fix true sS ls).1.file.retract := by
  intro ls
  induction ls with
  | nil => intro sS sL h _; exact ⟨h, RetrTok.refl _ _ _⟩
  | cons l rest ih =>
    intro sS sL h hok
    unfold addBlockLines at hok ⊢
    have e1 : ErrsExt (LineErr l) sS.errsRev (File.add sS (some block) l verb l.token fix true).1.errsRev :=
      add_errs sS (some block) l verb l.token fix true
    have e2 := addBlockLines_errs (fun _ => True) block verb fix true rest
      (File.add sS (some block) l verb l.token fix true).1 (fun _ _ => trivial)
    obtain ⟨hok1, hok2⟩ := ErrsExt.eq_of_eq (ErrsExt.mono (fun e he => (⟨trivial, he.2⟩ : RErr (fun _ => True) e)) e1) e2 hok
    have hls := add_sim sS sL (some block) l verb l.token fix h hok1
    obtain ⟨hsim, hrt⟩ := ih _ _ hls.sim hok2
    refine ⟨hsim, ?_⟩
    have h1 := RetrTok.ofLine (fun t => { l with token := t }) (fun _ => rfl) hls
    exact RetrTok.trans h1 hrt


theorem addStmts_sim (fix : Option Fixer) :
    ∀ (xs : List Expr) (sS sL : AddState), Sim sS sL →
    (addStmts fix true sS xs).1.errsRev = sS.errsRev →
    Sim (addStmts fix true sS xs).1 (addStmts fix false sL xs).1 ∧
    RetrTok sS.file.retract (linesOf (addStmts fix true sS xs).2) (linesOf (addStmts fix false sL xs).2)
      (addStmts fix true sS xs).1.file.retract := by
  intro xs
  induction xs with
  | nil => intro sS sL h _; exact ⟨h, RetrTok.refl _ _ _⟩
  | cons x rest ih =>
    intro sS sL h hok
    have hrestErr := fun st' => addStmts_errs (fun _ => True) fix true rest st' (fun _ _ => by
      rename_i y _; cases y <;> simp [StmtPos])
    -- a statement the directive layer skips in both modes
    have hskip : ∀ (y : Expr), (addStmts fix true sS rest).1.errsRev = sS.errsRev →
        Sim (addStmts fix true sS rest).1 (addStmts fix false sL rest).1 ∧
        RetrTok sS.file.retract (linesOf (y :: (addStmts fix true sS rest).2))
          (linesOf (y :: (addStmts fix false sL rest).2)) (addStmts fix true sS rest).1.file.retract := by
      intro y hok'
      obtain ⟨hsim, hrt⟩ := ih sS sL h hok'
      refine ⟨hsim, hrt.mono ?_ ?_⟩ <;> (intro a ha; cases y <;> simp [ha])
    -- a block the strict mode rejects
    have hbad : ∀ (b : LineBlock) (P : Prop),
        (addStmts fix true (sS.err b.start .unknownBlock) rest).1.errsRev = sS.errsRev → P := by
      intro b P hb
      obtain ⟨add, hadd, _⟩ := hrestErr (sS.err b.start .unknownBlock)
      rw [hadd] at hb
      have := congrArg List.length hb
      simp [AddState.err] at this
      omega
    unfold addStmts at hok ⊢
    cases x with
    | line l =>
      cases htok : l.token with
      | nil =>
        simp only [htok] at hok ⊢
        exact hskip _ hok
      | cons verb args =>
        simp only [htok] at hok ⊢
        have e1 : ErrsExt (LineErr l) sS.errsRev (File.add sS none l verb args fix true).1.errsRev :=
          add_errs sS none l verb args fix true
        have e2 := hrestErr (File.add sS none l verb args fix true).1
        obtain ⟨hok1, hok2⟩ := ErrsExt.eq_of_eq (ErrsExt.mono (fun e he => (⟨trivial, he.2⟩ : RErr (fun _ => True) e)) e1) e2 hok
        have hls := add_sim sS sL none l verb args fix h hok1
        obtain ⟨hsim, hrt⟩ := ih _ _ hls.sim hok2
        refine ⟨hsim, ?_⟩
        have h1 := RetrTok.ofLine (fun t => { l with token := verb :: t }) (fun _ => rfl) hls
        have := RetrTok.trans h1 hrt
        simpa using this
    | lineBlock b =>
      simp only at hok ⊢
      match htok : b.token with
      | [] =>
        simp only [htok, if_true] at hok
        exact hbad b _ hok
      | _ :: _ :: _ =>
        simp only [htok, if_true] at hok
        exact hbad b _ hok
      | [verb] =>
        simp only [htok] at hok ⊢
        cases hbv : verbIn verb blockVerbs with
        | true =>
          simp only [hbv, if_true] at hok ⊢
          have e1 := addBlockLines_errs (fun _ => True) b.comments verb fix true b.lines sS (fun _ _ => trivial)
          have e2 := hrestErr (addBlockLines b.comments verb fix true sS b.lines).1
          obtain ⟨hok1, hok2⟩ := ErrsExt.eq_of_eq e1 e2 hok
          obtain ⟨hsim1, hrt1⟩ := addBlockLines_sim b.comments verb fix b.lines sS sL h hok1
          obtain ⟨hsim, hrt⟩ := ih _ _ hsim1 hok2
          refine ⟨hsim, ?_⟩
          have := RetrTok.trans hrt1 hrt
          simpa using this
        | false =>
          simp only [hbv, Bool.false_eq_true, if_false, if_true] at hok
          exact hbad b _ hok
    | commentBlock c => exact hskip _ hok
    | lparen c => exact hskip _ hok
    | rparen c => exact hskip _ hok


/-! ### fixRetract -/

def NodupIds (xs : List Expr) : Prop := ((linesOf xs).map (·.id)).Nodup

/-- `updateLine`'s per-line function -/
def updF (id : Nat) (g : Line → Line) (l : Line) : Line := if l.id == id then g l else l

theorem map_eq_self {α : Type} {f : α → α} : ∀ {l : List α}, (∀ x ∈ l, f x = x) → l.map f = l := by
  intro l
  induction l with
  | nil => intro _; rfl
  | cons a rest ih =>
    intro h
    rw [List.map_cons, h a (by simp), ih (fun x hx => h x (List.mem_cons_of_mem _ hx))]

theorem inj_of_nodup_ids : ∀ {l : List Line}, (l.map (·.id)).Nodup → ∀ {a b : Line}, a ∈ l → b ∈ l → a.id = b.id → a = b := by
  intro l
  induction l with
  | nil => intro _ a b ha; cases ha
  | cons x rest ih =>
    intro hn a b ha hb hid
    simp only [List.map_cons, List.nodup_cons] at hn
    simp only [List.mem_cons] at ha hb
    rcases ha with rfl | ha <;> rcases hb with rfl | hb
    · rfl
    · exact absurd (hid ▸ List.mem_map_of_mem (f := (·.id)) hb) hn.1
    · exact absurd (hid.symm ▸ List.mem_map_of_mem (f := (·.id)) ha) hn.1
    · exact ih hn.2 ha hb hid

theorem updateLineIn_eq_map (id : Nat) (g : Line → Line) :
    ∀ (ls : List Line), (ls.map (·.id)).Nodup → updateLineIn id g ls = ls.map (updF id g) := by
  intro ls
  induction ls with
  | nil => intro _; rfl
  | cons l rest ih =>
    intro hn
    simp only [List.map_cons, List.nodup_cons] at hn
    unfold updateLineIn
    split
    · rename_i hid
      simp only [List.map_cons, updF, hid, if_true]
      congr 1
      -- no other line has this identity
      have : ∀ x ∈ rest, updF id g x = x := by
        intro x hx
        unfold updF
        split
        · rename_i hx'
          exfalso
          apply hn.1
          have e1 : l.id = id := by simpa using hid
          have e2 : x.id = id := by simpa using hx'
          rw [e1, ← e2]
          exact List.mem_map_of_mem hx
        · rfl
      exact (map_eq_self this).symm
    · rename_i hid
      simp only [List.map_cons, updF, hid]
      rw [ih hn.2]
      rfl

theorem linesOf_updateLine (id : Nat) (g : Line → Line) (fs : FileSyntax) (hn : NodupIds fs.stmts) :
    linesOf (fs.updateLine id g).stmts = (linesOf fs.stmts).map (updF id g) := by
  unfold FileSyntax.updateLine
  simp only
  unfold NodupIds at hn
  generalize fs.stmts = xs at hn
  induction xs with
  | nil => rfl
  | cons x rest ih =>
    cases x with
    | line l =>
      simp only [linesOf_line, List.map_cons, List.nodup_cons] at hn
      simp only [List.map_cons]
      split <;> simp only [linesOf_line, List.map_cons, ih hn.2, updF, *] <;> rfl
    | lineBlock b =>
      simp only [linesOf_block, List.map_append] at hn
      have h1 := (List.nodup_append.mp hn).1
      have h2 := (List.nodup_append.mp hn).2.1
      simp only [List.map_cons, linesOf_block, List.map_append, ih h2, updateLineIn_eq_map id g b.lines h1]
    | commentBlock c => simp only [linesOf_commentBlock] at hn; simp only [List.map_cons, linesOf_commentBlock, ih hn]
    | lparen c => simp only [linesOf_lparen] at hn; simp only [List.map_cons, linesOf_lparen, ih hn]
    | rparen c => simp only [linesOf_rparen] at hn; simp only [List.map_cons, linesOf_rparen, ih hn]

theorem findLine_of_mem {fs : FileSyntax} {a : Line} (hn : NodupIds fs.stmts) (ha : a ∈ linesOf fs.stmts) :
    fs.findLine a.id = some a := by
  unfold FileSyntax.findLine
  rw [allLines_eq]
  cases hf : (linesOf fs.stmts).find? (fun l => l.id == a.id) with
  | none =>
    have := List.find?_eq_none.mp hf a ha
    simp at this
  | some a' =>
    have hmem := List.mem_of_find?_eq_some hf
    have hid : a'.id = a.id := by simpa using List.find?_some hf
    exact congrArg some (inj_of_nodup_ids hn hmem ha hid)


/-- every retract entry refers to a line that both trees contain -/
def Common (TS TL : FileSyntax) (rs : List Retract) : Prop :=
  ∀ r ∈ rs, ∃ a, a ∈ linesOf TS.stmts ∧ a ∈ linesOf TL.stmts ∧ a.id = r.lineId

theorem updF_id (id : Nat) (toks : List Bytes) (l : Line) :
    (updF id (fun l' => { l' with token := toks }) l).id = l.id := by
  unfold updF; split <;> rfl

theorem nodupIds_updateLine (id : Nat) (toks : List Bytes) (fs : FileSyntax) (hn : NodupIds fs.stmts) :
    NodupIds (fs.updateLine id (fun l' => { l' with token := toks })).stmts := by
  unfold NodupIds
  rw [linesOf_updateLine id _ fs hn, List.map_map]
  have : ((·.id) ∘ updF id (fun l' => { l' with token := toks })) = (·.id) := by
    funext l; exact updF_id id toks l
  rw [this]; exact hn

theorem fixRetractLoop_sim (path : Bytes) (fx : Fixer) :
    ∀ (rs : List Retract) (TS TL : FileSyntax) (e : List RuleErr), NodupIds TS.stmts → NodupIds TL.stmts →
    Common TS TL rs →
    (fixRetractLoop path fx rs TS e).1 = (fixRetractLoop path fx rs TL e).1 ∧
    (fixRetractLoop path fx rs TS e).2.2 = (fixRetractLoop path fx rs TL e).2.2 := by
  intro rs
  induction rs with
  | nil => intro TS TL e _ _ _; exact ⟨rfl, rfl⟩
  | cons r rest ih =>
    intro TS TL e hnS hnL hc
    obtain ⟨a, haS, haL, hid⟩ := hc r (by simp)
    have hfS := findLine_of_mem hnS haS
    have hfL := findLine_of_mem hnL haL
    rw [hid] at hfS hfL
    rw [fixRetractLoop_cons, fixRetractLoop_cons, hfS, hfL]
    simp only
    have hstep1 : (frStep path fx TS r a e).1 = (frStep path fx TL r a e).1 := rfl
    have hstep3 : (frStep path fx TS r a e).2.2 = (frStep path fx TL r a e).2.2 := rfl
    have hc' : Common (frStep path fx TS r a e).2.1 (frStep path fx TL r a e).2.1 rest := by
      intro r' hr'
      obtain ⟨a', h1, h2, h3⟩ := hc r' (List.mem_cons_of_mem _ hr')
      refine ⟨updF r.lineId (fun l' => { l' with
        token := (frArgs a).1 ++ (parseVersionInterval path (frArgs a).2 (some fx)).1 }) a', ?_, ?_, ?_⟩
      · simp only [frStep]
        rw [linesOf_updateLine _ _ TS hnS]
        exact List.mem_map_of_mem h1
      · simp only [frStep]
        rw [linesOf_updateLine _ _ TL hnL]
        exact List.mem_map_of_mem h2
      · rw [updF_id]; exact h3
    have := ih (frStep path fx TS r a e).2.1 (frStep path fx TL r a e).2.1 (frStep path fx TS r a e).2.2
      (nodupIds_updateLine _ _ TS hnS) (nodupIds_updateLine _ _ TL hnL) hc'
    rw [← hstep3, ← hstep1]
    exact ⟨by rw [this.1], this.2⟩


theorem fixRetract_mono (st : AddState) (fix : Option Fixer) :
    ∃ add, (fixRetract st fix).errsRev = add ++ st.errsRev := by
  unfold fixRetract
  cases fix with
  | none => exact ⟨[], rfl⟩
  | some fx =>
    simp only
    cases hret : st.file.retract with
    | nil => exact ⟨[], rfl⟩
    | cons r rest =>
      simp only
      have hloop : ∀ path, ∃ add, (fixRetractLoop path fx (r :: rest) st.file.syn st.errsRev).2.2 = add ++ st.errsRev := by
        intro path
        obtain ⟨add, h, _⟩ := fixRetractLoop_errs (fun _ => True) path fx (r :: rest) st.file.syn st.errsRev
          (fun _ _ => trivial)
        exact ⟨add, h⟩
      split
      · split
        · exact ⟨[_], rfl⟩
        · exact hloop _
      · exact ⟨[_], rfl⟩

theorem fixRetract_sim (stS stL : AddState) (fix : Option Fixer) (h : Sim stS stL)
    (hnS : NodupIds stS.file.syn.stmts) (hnL : NodupIds stL.file.syn.stmts)
    (hc : Common stS.file.syn stL.file.syn stS.file.retract)
    (hok : (fixRetract stS fix).errsRev = []) : Sim (fixRetract stS fix) (fixRetract stL fix) := by
  have hcore := h.core
  simp only [fcore, Prod.mk.injEq] at hcore
  obtain ⟨hm, hg, hr, ht⟩ := hcore
  have he := h.errs
  unfold fixRetract at hok ⊢
  cases fix with
  | none => exact h
  | some fx =>
    simp only at hok ⊢
    rw [hm, ht, he]
    cases hret : stS.file.retract with
    | nil => exact h
    | cons r rest =>
      rw [hret] at hok hc
      simp only at hok ⊢
      cases hmod : stS.file.module with
      | none =>
        simp only [hmod] at hok
        exact absurd hok (by simp [AddState.err])
      | some m =>
        simp only [hmod] at hok ⊢
        cases hpe : m.mod.path.isEmpty with
        | true =>
          simp only [hpe, if_true] at hok
          exact absurd hok (by simp [AddState.err])
        | false =>
          simp only [Bool.false_eq_true, if_false]
          obtain ⟨h1, h2⟩ := fixRetractLoop_sim m.mod.path fx (r :: rest) stS.file.syn stL.file.syn stS.errsRev hnS hnL hc
          refine ⟨?_, ?_⟩
          · simp only [fcore, hg, hr, h1]
          · exact h2.symm

theorem Sim.refl (st : AddState) : Sim st st := ⟨rfl, rfl⟩

/-- the state handed to `fixRetract` -/
def mkSt (fs : FileSyntax) (R : AddState × List Expr) : AddState :=
  { R.1 with file := { R.1.file with syn := { fs with stmts := R.2 } } }

theorem parseToFile_eq (name data : Bytes) (fix : Option Fixer) (strict : Bool) :
    parseToFile name data fix strict =
      match parse name data with
      | .error e => .error [⟨e.pos, .syn e.kind⟩]
      | .ok fs =>
        if (fixRetract (mkSt fs (addStmts fix strict { file := { syn := fs } } fs.stmts)) fix).errsRev.isEmpty then
          .ok (fixRetract (mkSt fs (addStmts fix strict { file := { syn := fs } } fs.stmts)) fix).file
        else .error (fixRetract (mkSt fs (addStmts fix strict { file := { syn := fs } } fs.stmts)) fix).errsRev.reverse := by
  unfold parseToFile mkSt
  cases parse name data <;> rfl

/-- `lax_superset` -/
theorem lax_superset (name data : Bytes) (fix : Option Fixer) (f : File)
    (h : parseToFile name data fix true = .ok f) :
    ∃ g, parseToFile name data fix false = .ok g ∧ g.module = f.module ∧ g.go = f.go ∧
      g.require = f.require ∧ g.retract = f.retract := by
  rw [parseToFile_eq] at h ⊢
  cases hparse : parse name data with
  | error e => rw [hparse] at h; cases h
  | ok fs =>
    rw [hparse] at h
    simp only at h ⊢
    have hnod := parse_ids_nodup hparse
    generalize hS : addStmts fix true { file := { syn := fs } } fs.stmts = S at h
    generalize hL : addStmts fix false { file := { syn := fs } } fs.stmts = L
    have hkS := addStmts_keys fix true fs.stmts { file := { syn := fs } }
    have hkL := addStmts_keys fix false fs.stmts { file := { syn := fs } }
    rw [hS] at hkS
    rw [hL] at hkL
    have ids_of_keys : ∀ {X : List Line}, X.map lineKey = (linesOf fs.stmts).map lineKey →
        (X.map (·.id)).Nodup := by
      intro X hk
      have := congrArg (List.map Prod.fst) hk
      simp only [List.map_map] at this
      have e : (Prod.fst ∘ lineKey) = (·.id) := rfl
      rw [e] at this
      rw [this]; exact hnod
    have hnS : NodupIds (mkSt fs S).file.syn.stmts := ids_of_keys hkS
    have hnL : NodupIds (mkSt fs L).file.syn.stmts := ids_of_keys hkL
    split at h
    · rename_i hempty
      simp only [Except.ok.injEq] at h
      have hnil : (fixRetract (mkSt fs S) fix).errsRev = [] := by simpa using hempty
      obtain ⟨add, hadd⟩ := fixRetract_mono (mkSt fs S) fix
      rw [hnil] at hadd
      have hS0 : S.1.errsRev = [] := (List.append_eq_nil_iff.mp hadd.symm).2
      have hsim := addStmts_sim fix fs.stmts { file := { syn := fs } } { file := { syn := fs } } (Sim.refl _)
        (by rw [hS]; exact hS0)
      rw [hS, hL] at hsim
      obtain ⟨hsim1, hrt⟩ := hsim
      have hfin := fixRetract_sim (mkSt fs S) (mkSt fs L) fix ⟨hsim1.core, hsim1.errs⟩ hnS hnL
        (by
          intro r hr
          rcases hrt r hr with h0 | h1
          · cases h0
          · exact h1)
        hnil
      have herr : (fixRetract (mkSt fs L) fix).errsRev = [] := by rw [hfin.errs]; exact hnil
      rw [herr]
      refine ⟨_, rfl, ?_⟩
      have hc := hfin.core
      simp only [fcore, Prod.mk.injEq] at hc
      rw [← h]
      exact hc
    · cases h

end ModVerif.Proofs.ModfileC20
