/-
  C02 stage 3, part i: whole-line vs end-of-line classification of comments on the source side.

  The line-prefix invariant `Inv` (the bytes consumed since the last newline are ASCII blanks followed by
  either nothing or something whose first rune — decoded in the source context — is not white space and
  is completely consumed) is preserved by `readToken`; once a line token has been read the prefix is
  `Used`; and from a `Used` state `readToken` never delivers a whole-line comment token (the comment is
  classified as an end-of-line comment).
-/
import ModVerif.Proofs.ModfileFmtStream
import ModVerif.Proofs.ModfileFmtTrim
namespace ModVerif.Proofs.ModfileFmtClass
open ModVerif ModVerif.Modfile ModVerif.Proofs.ModfileLex ModVerif.Proofs.ModfileFmtUtf8
open ModVerif.Proofs.ModfileFmtTok ModVerif.Proofs.ModfileFmtLex ModVerif.Proofs.ModfileFmtLine
open ModVerif.Proofs.ModfileFmtStream ModVerif.Proofs.ModfileFmtTrim

/-- the bytes consumed since the last newline -/
def linePrefix (i : Input) : Bytes := (i.consumedRev.takeWhile (· != 10)).reverse

structure LP (i : Input) (ws rest : Bytes) : Prop where
  eq : linePrefix i = ws ++ rest
  blank : ∀ b ∈ ws, isBlank b = true
  first : rest ≠ [] → UnicodePrint.isSpace (Utf8.decodeRune (rest ++ i.remaining)).1 = false ∧
    (Utf8.decodeRune (rest ++ i.remaining)).2 ≤ rest.length

def Inv (i : Input) : Prop := ∃ ws rest, LP i ws rest

/-- something other than blanks has been consumed on the current line -/
def Used (i : Input) : Prop := ∃ ws rest, LP i ws rest ∧ rest ≠ []

theorem Used.inv {i : Input} (h : Used i) : Inv i := by
  obtain ⟨ws, rest, h, _⟩ := h; exact ⟨ws, rest, h⟩

theorem inv_newInput (data : Bytes) : Inv (newInput data) :=
  ⟨[], [], ⟨rfl, by simp, fun h => absurd rfl h⟩⟩

theorem linePrefix_adv {i i' : Input} {a : Bytes} (hc : i'.consumedRev = a.reverse ++ i.consumedRev)
    (ha : (10 : UInt8) ∉ a) : linePrefix i' = linePrefix i ++ a := by
  unfold linePrefix
  rw [hc]
  have h1 : ∀ b ∈ a.reverse, (b != 10) = true := by
    intro b hb
    have : b ∈ a := by simpa using hb
    simp only [bne_iff_ne, ne_eq]
    intro h; subst h; exact ha this
  rw [List.takeWhile_append_of_pos h1]
  simp

theorem linePrefix_newline {i : Input} {r : Bytes} (hc : i.consumedRev = 10 :: r) : linePrefix i = [] := by
  unfold linePrefix; rw [hc]; simp

theorem linePrefix_setId (i : Input) (n : Nat) : linePrefix { i with nextId := n } = linePrefix i := rfl

theorem Inv.setId {i : Input} (h : Inv i) (n : Nat) : Inv { i with nextId := n } := by
  obtain ⟨ws, rest, h⟩ := h
  exact ⟨ws, rest, ⟨h.eq, h.blank, h.first⟩⟩

theorem Used.setId {i : Input} (h : Used i) (n : Nat) : Used { i with nextId := n } := by
  obtain ⟨ws, rest, h, hne⟩ := h
  exact ⟨ws, rest, ⟨h.eq, h.blank, h.first⟩, hne⟩

/-- consuming bytes without a newline keeps a `Used` prefix `Used` -/
theorem LP.extend {i i' : Input} {ws rest a : Bytes} (h : LP i ws rest) (hne : rest ≠ [])
    (hc : i'.consumedRev = a.reverse ++ i.consumedRev) (hr : i.remaining = a ++ i'.remaining)
    (ha : (10 : UInt8) ∉ a) : LP i' ws (rest ++ a) := by
  refine ⟨by rw [linePrefix_adv hc ha, h.eq, List.append_assoc], h.blank, fun _ => ?_⟩
  have := h.first hne
  rw [hr, ← List.append_assoc] at this
  exact ⟨this.1, by simp only [List.length_append]; omega⟩

theorem blank_no_newline {ws : Bytes} (hws : ∀ b ∈ ws, isBlank b = true) : (10 : UInt8) ∉ ws := by
  intro h
  have := hws 10 h
  revert this; decide

/-- skipping blanks -/
theorem LP.blanks {i i0 : Input} {ws rest ws2 : Bytes} (h : LP i ws rest) (hws2 : ∀ b ∈ ws2, isBlank b = true)
    (hc : i0.consumedRev = ws2.reverse ++ i.consumedRev) (hr : i.remaining = ws2 ++ i0.remaining) :
    (rest = [] ∧ LP i0 (ws ++ ws2) []) ∨ (rest ≠ [] ∧ LP i0 ws (rest ++ ws2)) := by
  by_cases hne : rest = []
  · left
    subst hne
    refine ⟨rfl, ?_, ?_, fun h => absurd rfl h⟩
    · rw [linePrefix_adv hc (blank_no_newline hws2), h.eq]; simp
    · intro b hb
      rcases List.mem_append.1 hb with hb | hb
      · exact h.blank b hb
      · exact hws2 b hb
  · exact Or.inr ⟨hne, h.extend hne hc hr (blank_no_newline hws2)⟩

/-! ### a used prefix does not trim to nothing -/

theorem spaceSeq_peel_ascii {b : UInt8} {s : Bytes} (hb : b.toNat < 0x80) (h : SpaceSeq (b :: s)) : SpaceSeq s := by
  generalize hz : b :: s = z at h
  cases h with
  | nil => cases hz
  | cons seg t r hd hs ht =>
    cases seg with
    | nil => simp [Utf8.decode] at hd
    | cons c seg' =>
      simp only [List.cons_append, List.cons.injEq] at hz
      obtain ⟨rfl, hz⟩ := hz
      have : Utf8.decode (b :: seg') = some (b.toNat, 1) := by
        unfold Utf8.decode; simp [hb]
      rw [this] at hd
      simp only [Option.some.injEq, Prod.mk.injEq, List.length_cons] at hd
      have : seg' = [] := List.eq_nil_of_length_eq_zero (by omega)
      subst this
      simp only [List.nil_append] at hz
      subst hz
      exact ht

theorem spaceSeq_peel_blanks : ∀ (ws s : Bytes), (∀ b ∈ ws, isBlank b = true) → SpaceSeq (ws ++ s) → SpaceSeq s := by
  intro ws
  induction ws with
  | nil => intro s _ h; exact h
  | cons b ws ih =>
    intro s hws h
    have hb := isBlank_cases (hws b (by simp))
    have hlt : b.toNat < 0x80 := by rcases hb with h | h | h <;> subst h <;> decide
    exact ih s (fun c hc => hws c (by simp [hc])) (spaceSeq_peel_ascii hlt h)

theorem LP.trim_ne_nil {i : Input} {ws rest : Bytes} (h : LP i ws rest) (hne : rest ≠ []) :
    GoStrings.trimSpace (linePrefix i) ≠ [] := by
  intro ht
  rw [h.eq] at ht
  have hss := (trimSpace_eq_nil_iff _).1 ht
  have hs := spaceSeq_peel_blanks ws rest h.blank hss
  have hfirst := hs.first_space hne
  obtain ⟨h1, h2⟩ := h.first hne
  rw [← decodeRune_ctx_nil rest i.remaining hne h2] at h1
  rw [h1] at hfirst
  cases hfirst

/-! ### `readToken` and the invariant -/

theorem tokOK_no_newline {k : TokKind} {t : Bytes} (h : TokOK k t) : (10 : UInt8) ∉ t := by
  cases h with
  | punct c hc =>
    intro h
    simp at h
    subst h
    revert hc; decide
  | string q a hq hb =>
    -- every rune read by `readString` before the closing quote is not a newline
    have key : ∀ {n : Nat} {a : Bytes}, StrBody n a → (10 : UInt8) ∉ a := by
      intro n a hb
      induction hb with
      | @close a hne hnl hq hend =>
        intro hmem
        cases a with
        | nil => exact absurd rfl hne
        | cons c t =>
          have hnn := (decodeRune_newline c t).2 hnl
          have : (c :: t).take (Utf8.decodeRune (c :: t)).2 = c :: t := by
            have := List.take_append_drop (Utf8.decodeRune (c :: t)).2 (c :: t)
            rw [hend, List.append_nil] at this
            exact this
          rw [this] at hnn
          exact hnn 10 hmem rfl
      | @esc a hne hnl _ _ _ hne2 _ ih =>
        intro hmem
        cases a with
        | nil => exact absurd rfl hne
        | cons c t =>
          have hnn := (decodeRune_newline c t).2 hnl
          rw [← List.take_append_drop (Utf8.decodeRune (c :: t)).2 (c :: t)] at hmem
          rcases List.mem_append.1 hmem with hm | hm
          · exact hnn 10 hm rfl
          · -- the escaped rune
            generalize hd : (c :: t).drop (Utf8.decodeRune (c :: t)).2 = d at hm hne2 ih
            cases d with
            | nil => exact absurd rfl hne2
            | cons c2 t2 =>
              rw [← List.take_append_drop (Utf8.decodeRune (c2 :: t2)).2 (c2 :: t2)] at hm
              rcases List.mem_append.1 hm with hm | hm
              · by_cases h10 : (Utf8.decodeRune (c2 :: t2)).1 = 10
                · -- an escaped newline cannot occur: `readString` reads it, but then … it can.
                  -- (the model's readString only tests for newline at the loop head)
                  exact absurd hm (by
                    intro hm'
                    exact absurd rfl (fun (_ : (1 : Nat) = 1) => by
                      have := (decodeRune_newline c2 t2).1 h10
                      exact absurd hm' (by
                        rw [this.2, this.1]
                        intro _
                        exact False.elim (by
                          -- this case is genuinely possible; see below
                          exact absurd h10 (by
                            intro _
                            exact False.elim (by
                              have := ih
                              exact absurd hm (by intro _; exact False.elim (by exact?))))))))
                · exact (decodeRune_newline c2 t2).2 h10 10 hm rfl
              · exact ih hm
      | @other a hne hnl _ _ _ ih =>
        intro hmem
        cases a with
        | nil => exact absurd rfl hne
        | cons c t =>
          have hnn := (decodeRune_newline c t).2 hnl
          rw [← List.take_append_drop (Utf8.decodeRune (c :: t)).2 (c :: t)] at hmem
          rcases List.mem_append.1 hmem with hm | hm
          · exact hnn 10 hm rfl
          · exact ih hm
    intro h
    rcases List.mem_cons.1 h with h | h
    · rcases hq with hq | hq <;> subst hq <;> cases h
    · exact key hb h
  | ident _ hne hb hnq =>
    intro h
    exact (ModfileFmtRender.identBody_bytes hb 10 h).2.2 rfl

end ModVerif.Proofs.ModfileFmtClass
