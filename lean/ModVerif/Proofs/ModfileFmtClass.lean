/-
  C02 stage 3, part i: whole-line vs end-of-line classification of comments on the source side.

  The line-prefix invariant `Inv` (the bytes consumed since the last newline are ASCII blanks followed by
  either nothing or something whose first rune — decoded in the source context — is not white space and
  is completely consumed) is preserved by `readToken`; once a line token has been read the prefix is
  `Used`; and from a `Used` state `readToken` never delivers a whole-line comment token (the comment is
  classified as an end-of-line comment).
-/
import ModVerif.Proofs.ModfileFmtStream
import ModVerif.Proofs.ModfileFmtTrim
import ModVerif.Proofs.ModfileFmtRender
namespace ModVerif.Proofs.ModfileFmtClass
open ModVerif ModVerif.Modfile ModVerif.Proofs.ModfileLex ModVerif.Proofs.ModfileFmtUtf8
open ModVerif.Proofs.ModfileFmtTok ModVerif.Proofs.ModfileFmtLex ModVerif.Proofs.ModfileFmtLine
open ModVerif.Proofs.ModfileFmtStream ModVerif.Proofs.ModfileFmtTrim

/-- the bytes consumed since the last newline -/
def linePrefix (i : Input) : Bytes := (i.consumedRev.takeWhile (· != 10)).reverse

structure LP (i : Input) (ws rest : Bytes) : Prop where
  eq : linePrefix i = ws ++ rest
  blank : ∀ b ∈ ws, isBlank b = true
  first : rest ≠ [] → UnicodePrint.isSpace (Utf8.decodeRune (rest ++ i.remaining)).1 = false ∧
    (Utf8.decodeRune (rest ++ i.remaining)).2 ≤ rest.length

theorem linePrefix_adv {i i' : Input} {a : Bytes} (hc : i'.consumedRev = a.reverse ++ i.consumedRev)
    (ha : (10 : UInt8) ∉ a) : linePrefix i' = linePrefix i ++ a := by
  unfold linePrefix
  rw [hc]
  have h1 : ∀ b ∈ a.reverse, (b != 10) = true := by
    intro b hb
    have : b ∈ a := by simpa using hb
    simp only [bne_iff_ne, ne_eq]
    intro h; subst h; exact ha this
  rw [List.takeWhile_append_of_pos h1]
  simp

theorem linePrefix_newline {i : Input} {r : Bytes} (hc : i.consumedRev = 10 :: r) : linePrefix i = [] := by
  unfold linePrefix; rw [hc]; simp

theorem linePrefix_setId (i : Input) (n : Nat) : linePrefix { i with nextId := n } = linePrefix i := rfl

/-- consuming bytes without a newline keeps a `Used` prefix `Used` -/
theorem LP.extend {i i' : Input} {ws rest a : Bytes} (h : LP i ws rest) (hne : rest ≠ [])
    (hc : i'.consumedRev = a.reverse ++ i.consumedRev) (hr : i.remaining = a ++ i'.remaining)
    (ha : (10 : UInt8) ∉ a) : LP i' ws (rest ++ a) := by
  refine ⟨by rw [linePrefix_adv hc ha, h.eq, List.append_assoc], h.blank, fun _ => ?_⟩
  have := h.first hne
  rw [hr, ← List.append_assoc] at this
  exact ⟨this.1, by simp only [List.length_append]; omega⟩

theorem blank_no_newline {ws : Bytes} (hws : ∀ b ∈ ws, isBlank b = true) : (10 : UInt8) ∉ ws := by
  intro h
  have := hws 10 h
  revert this; decide

/-- skipping blanks -/
theorem LP.blanks {i i0 : Input} {ws rest ws2 : Bytes} (h : LP i ws rest) (hws2 : ∀ b ∈ ws2, isBlank b = true)
    (hc : i0.consumedRev = ws2.reverse ++ i.consumedRev) (hr : i.remaining = ws2 ++ i0.remaining) :
    (rest = [] ∧ LP i0 (ws ++ ws2) []) ∨ (rest ≠ [] ∧ LP i0 ws (rest ++ ws2)) := by
  by_cases hne : rest = []
  · left
    subst hne
    refine ⟨rfl, ?_, ?_, fun h => absurd rfl h⟩
    · rw [linePrefix_adv hc (blank_no_newline hws2), h.eq]; simp
    · intro b hb
      rcases List.mem_append.1 hb with hb | hb
      · exact h.blank b hb
      · exact hws2 b hb
  · exact Or.inr ⟨hne, h.extend hne hc hr (blank_no_newline hws2)⟩

/-! ### a used prefix does not trim to nothing -/

theorem spaceSeq_peel_ascii {b : UInt8} {s : Bytes} (hb : b.toNat < 0x80) (h : SpaceSeq (b :: s)) : SpaceSeq s := by
  generalize hz : b :: s = z at h
  cases h with
  | nil => cases hz
  | cons seg t r hd hs ht =>
    cases seg with
    | nil => simp [Utf8.decode] at hd
    | cons c seg' =>
      simp only [List.cons_append, List.cons.injEq] at hz
      obtain ⟨rfl, hz⟩ := hz
      have : Utf8.decode (b :: seg') = some (b.toNat, 1) := by
        unfold Utf8.decode; simp [hb]
      rw [this] at hd
      simp only [Option.some.injEq, Prod.mk.injEq, List.length_cons] at hd
      have : seg' = [] := List.eq_nil_of_length_eq_zero (by omega)
      subst this
      simp only [List.nil_append] at hz
      subst hz
      exact ht

theorem spaceSeq_peel_blanks : ∀ (ws s : Bytes), (∀ b ∈ ws, isBlank b = true) → SpaceSeq (ws ++ s) → SpaceSeq s := by
  intro ws
  induction ws with
  | nil => intro s _ h; exact h
  | cons b ws ih =>
    intro s hws h
    have hb := isBlank_cases (hws b (by simp))
    have hlt : b.toNat < 0x80 := by rcases hb with h | h | h <;> subst h <;> decide
    exact ih s (fun c hc => hws c (by simp [hc])) (spaceSeq_peel_ascii hlt h)

theorem LP.trim_ne_nil {i : Input} {ws rest : Bytes} (h : LP i ws rest) (hne : rest ≠ []) :
    GoStrings.trimSpace (linePrefix i) ≠ [] := by
  intro ht
  rw [h.eq] at ht
  have hss := (trimSpace_eq_nil_iff _).1 ht
  have hs := spaceSeq_peel_blanks ws rest h.blank hss
  have hfirst := hs.first_space hne
  obtain ⟨h1, h2⟩ := h.first hne
  rw [← decodeRune_ctx_nil rest i.remaining hne h2] at h1
  rw [h1] at hfirst
  cases hfirst

/-! ### ASCII bytes in a white-space sequence -/

/-- an ASCII byte that is not white space -/
def NSByte (y : UInt8) : Prop := y.toNat < 0x80 ∧ UnicodePrint.isSpace y.toNat = false

theorem spaceSeq_ascii {s : Bytes} (h : SpaceSeq s) : ∀ y ∈ s, y.toNat < 0x80 → UnicodePrint.isSpace y.toNat = true := by
  induction h with
  | nil => intro y hy; simp at hy
  | cons seg t r hd hs _ ih =>
    intro y hy hlt
    rcases List.mem_append.1 hy with hy | hy
    · have hw := decode_width hd
      by_cases h1 : seg.length = 1
      · obtain ⟨b, t', hseg, hb, hr⟩ := (decode_rune_ge hd).2 h1
        rw [hseg] at h1 hy
        have : t' = [] := List.eq_nil_of_length_eq_zero (by simpa using h1)
        subst this
        simp at hy
        subst hy
        rw [← hr]; exact hs
      · have := decode_multibyte hd (by omega) y (by rw [List.take_length]; exact hy)
        omega
    · exact ih y hy hlt

/-- a line prefix that contains an ASCII byte other than white space -/
def UsedA (i : Input) : Prop := ∃ y ∈ linePrefix i, NSByte y

/-- a line prefix of blanks followed by something whose first rune is not white space -/
def UsedS (i : Input) : Prop := ∃ ws rest, LP i ws rest ∧ rest ≠ []

/-- only blanks have been consumed on the current line -/
def Fresh (i : Input) : Prop := ∃ ws, LP i ws []

/-- something other than white space has been consumed on the current line -/
def Used (i : Input) : Prop := UsedA i ∨ UsedS i

/-- the line-prefix invariant of the lexer -/
def Inv (i : Input) : Prop := Fresh i ∨ Used i

theorem inv_newInput (data : Bytes) : Inv (newInput data) :=
  Or.inl ⟨[], ⟨rfl, by simp, fun h => absurd rfl h⟩⟩

theorem Used.trim_ne_nil {i : Input} (h : Used i) : GoStrings.trimSpace (linePrefix i) ≠ [] := by
  rcases h with ⟨y, hy, hlt, hns⟩ | ⟨ws, rest, hlp, hne⟩
  · intro ht
    have := spaceSeq_ascii ((trimSpace_eq_nil_iff _).1 ht) y hy hlt
    rw [hns] at this; cases this
  · exact hlp.trim_ne_nil hne

theorem lp_setId {i : Input} {ws rest : Bytes} (h : LP i ws rest) (n : Nat) : LP { i with nextId := n } ws rest :=
  ⟨h.eq, h.blank, h.first⟩

theorem Used.setId {i : Input} (h : Used i) (n : Nat) : Used { i with nextId := n } := by
  rcases h with ⟨y, hy, hn⟩ | ⟨ws, rest, hlp, hne⟩
  · exact Or.inl ⟨y, hy, hn⟩
  · exact Or.inr ⟨ws, rest, lp_setId hlp n, hne⟩

theorem Inv.setId {i : Input} (h : Inv i) (n : Nat) : Inv { i with nextId := n } := by
  rcases h with ⟨ws, hlp⟩ | h
  · exact Or.inl ⟨ws, lp_setId hlp n⟩
  · exact Or.inr (h.setId n)

/-- skipping blanks keeps the invariant, freshness and usedness -/
theorem inv_blanks {i i0 : Input} {ws2 : Bytes} (hws2 : ∀ b ∈ ws2, isBlank b = true)
    (hc : i0.consumedRev = ws2.reverse ++ i.consumedRev) (hr : i.remaining = ws2 ++ i0.remaining) :
    (Fresh i → Fresh i0) ∧ (Used i → Used i0) := by
  constructor
  · intro ⟨ws, hlp⟩
    rcases hlp.blanks hws2 hc hr with ⟨_, h⟩ | ⟨hne, _⟩
    · exact ⟨_, h⟩
    · exact absurd rfl hne
  · intro h
    rcases h with ⟨y, hy, hn⟩ | ⟨ws, rest, hlp, hne⟩
    · left
      refine ⟨y, ?_, hn⟩
      rw [linePrefix_adv hc (blank_no_newline hws2)]
      exact List.mem_append_left _ hy
    · right
      rcases hlp.blanks hws2 hc hr with ⟨he, _⟩ | ⟨_, h⟩
      · exact absurd he hne
      · exact ⟨ws, _, h, by simp [hne]⟩

/-- the last byte of what has just been consumed, if it is not a newline, is in the line prefix -/
theorem last_mem_linePrefix {i0 i : Input} {t : Bytes} {y : UInt8} (hc : i.consumedRev = t.reverse ++ i0.consumedRev)
    (hl : t.getLast? = some y) (hy : y ≠ 10) : y ∈ linePrefix i := by
  unfold linePrefix
  rw [hc]
  have : t.reverse.head? = some y := by rw [List.head?_reverse]; exact hl
  cases hr : t.reverse with
  | nil => rw [hr] at this; simp at this
  | cons a r =>
    rw [hr] at this
    simp at this
    subst this
    have : (a != 10) = true := by simpa using hy
    simp [List.takeWhile, this]

theorem identBody_ascii {a : Bytes} (h : IdentBody a) :
    ∀ b ∈ a, b.toNat < 0x80 → UnicodePrint.isSpace b.toNat = false := by
  induction h with
  | nil => intro b hb; simp at hb
  | @cons a hne hid _ _ _ ih =>
    intro b hb hlt
    rw [← List.take_append_drop (Utf8.decodeRune a).2 a] at hb
    rcases List.mem_append.1 hb with hb | hb
    · cases a with
      | nil => exact absurd rfl hne
      | cons c t =>
        by_cases hc : c.toNat < 0x80
        · rw [decodeRune_ascii c t hc] at hb hid
          simp at hb
          subst hb
          exact isIdent_not_space hid
        · have := (decodeRune_nonascii c t (by omega)).2 b hb
          omega
    · exact ih b hb hlt

theorem identBody_no_newline {a : Bytes} (h : IdentBody a) : (10 : UInt8) ∉ a := by
  intro hm
  have := identBody_ascii h 10 hm (by decide)
  revert this; decide

/-! ### `readToken` and the invariant -/

/-- ★ The classification invariant: `readToken` preserves `Inv`; after a line token the line prefix is
    `Used`; and from a `Used` state no whole-line comment token is delivered. -/
theorem readToken_class (j i : Input) (h : readToken j = .ok i) (hj : Inv j) :
    Inv i ∧ (Used j → i.token.kind ≠ .comment) ∧ (∀ t, TokOK i.token.kind t → Used i) := by
  obtain ⟨ws, i0, hws, hadv, hem⟩ := readToken_emits j i h
  obtain ⟨hfresh0, hused0⟩ := inv_blanks hws hadv.cons hadv.rem
  have hinv0 : Inv i0 := by
    rcases hj with h | h
    · exact Or.inl (hfresh0 h)
    · exact Or.inr (hused0 h)
  cases hem with
  | eof hk _ hrem hc hr _ =>
    refine ⟨?_, fun _ => by rw [hk]; simp, fun t ht => by rw [hk] at ht; cases ht⟩
    -- nothing consumed
    have hlp : linePrefix i = linePrefix i0 := by unfold linePrefix; rw [hc]
    rcases hinv0 with ⟨ws0, h0⟩ | ⟨y, hy, hn⟩ | ⟨ws0, rest0, h0, hne⟩
    · exact Or.inl ⟨ws0, ⟨by rw [hlp]; exact h0.eq, h0.blank, fun h => absurd rfl h⟩⟩
    · exact Or.inr (Or.inl ⟨y, by rw [hlp]; exact hy, hn⟩)
    · refine Or.inr (Or.inr ⟨ws0, rest0, ⟨by rw [hlp]; exact h0.eq, h0.blank, fun hh => ?_⟩, hne⟩)
      have := h0.first hh
      rw [hrem] at this
      rw [hr]; exact this
  | comment hp hrem hc hk _ _ _ =>
    refine ⟨?_, ?_, ?_⟩
    · -- after the comment: a fresh line, or (at the end of the input) a used one
      by_cases hnl : (10 : UInt8) ∈ lineOf i0.remaining
      · -- the line ends with the newline
        left
        refine ⟨[], ⟨?_, by simp, fun h => absurd rfl h⟩⟩
        have : ∃ body, lineOf i0.remaining = body ++ [10] := by
          have key : ∀ s : Bytes, (10 : UInt8) ∈ lineOf s → ∃ body, lineOf s = body ++ [10] := by
            intro s
            induction s with
            | nil => intro h; simp [lineOf] at h
            | cons b t ih =>
              intro h
              simp only [lineOf] at h ⊢
              split
              · exact ⟨[], rfl⟩
              · rename_i hb
                simp only [hb, if_false, List.mem_cons] at h
                rcases h with h | h
                · exact absurd h.symm hb
                · obtain ⟨body, hbody⟩ := ih h
                  exact ⟨b :: body, by rw [hbody]; rfl⟩
          exact key _ hnl
        obtain ⟨body, hbody⟩ := this
        apply linePrefix_newline (r := body.reverse ++ i0.consumedRev)
        rw [hc, hbody]; simp
      · right; left
        obtain ⟨t, ht⟩ := peekPrefix_slashes hp
        refine ⟨47, ?_, by decide, by decide⟩
        rw [linePrefix_adv hc hnl]
        apply List.mem_append_right
        rw [ht, lineOf_slashes]; simp
    · intro hu
      have := (hused0 hu).trim_ne_nil
      rw [hk]
      have hne : (GoStrings.trimSpace (i0.consumedRev.takeWhile (· != 10)).reverse).isEmpty = false := by
        simpa [linePrefix] using this
      simp [hne]
    · intro t ht
      rw [hk] at ht
      split at ht <;> cases ht
  | newline hk _ hrem hc _ =>
    refine ⟨Or.inl ⟨[], ⟨linePrefix_newline hc, by simp, fun h => absurd rfl h⟩⟩, fun _ => by rw [hk]; simp, ?_⟩
    intro t ht
    rw [hk] at ht
    cases ht with
    | punct c hc' => exact absurd hc' (by decide)
  | tok t hk ht hrem hc _ hfirst hwidth =>
    have hkne : i.token.kind ≠ .comment := by
      intro he; rw [he] at hk; cases hk
    have hused : Used i := by
      generalize i.token.kind = k at hk
      cases hk with
      | punct c hc' =>
        left
        refine ⟨c, last_mem_linePrefix hc rfl ?_, ?_⟩
        · intro h; subst h; revert hc'; decide
        · rcases punctBytes_cases hc' with h | h | h | h | h | h | h <;> subst h <;> exact ⟨by decide, by decide⟩
      | string q a hq hb =>
        left
        have hqn : q.toNat < 0x80 := by rcases hq with h | h <;> subst h <;> decide
        obtain ⟨b, hb1, hb2⟩ := ModfileFmtRender.strBody_last hb hqn
        have hbq : b = q := UInt8.toNat_inj.1 hb2
        subst hbq
        refine ⟨b, last_mem_linePrefix hc ?_ ?_, ?_⟩
        · rw [show b :: a = [b] ++ a from rfl, ModfileFmtRender.getLast?_append_ne _ hb.ne_nil]; exact hb1
        · rcases hq with h | h <;> subst h <;> decide
        · rcases hq with h | h <;> subst h <;> exact ⟨by decide, by decide⟩
      | ident _ hne hb hnq =>
        have hnl := identBody_no_newline hb
        rcases hinv0 with ⟨ws0, h0⟩ | ⟨y, hy, hn⟩ | ⟨ws0, rest0, h0, hne0⟩
        · -- first token of the line
          right
          refine ⟨ws0, t, ⟨?_, h0.blank, fun _ => ?_⟩, hne⟩
          · rw [linePrefix_adv hc hnl, h0.eq]; simp
          · rw [← hrem]; exact ⟨hfirst, hwidth⟩
        · left
          refine ⟨y, ?_, hn⟩
          rw [linePrefix_adv hc hnl]
          exact List.mem_append_left _ hy
        · right
          exact ⟨ws0, _, h0.extend hne0 hc hrem hnl, by simp [hne0]⟩
    exact ⟨Or.inr hused, fun _ => hkne, fun _ _ => hused⟩

/-! ### the state after an end-of-line token -/

/-- the lexer is at the beginning of a line (only blanks consumed) or at the end of the input -/
def AtEOL (i : Input) : Prop := Fresh i ∨ i.remaining = []

theorem AtEOL.setId {i : Input} (h : AtEOL i) (n : Nat) : AtEOL { i with nextId := n } := by
  rcases h with ⟨ws, h⟩ | h
  · exact Or.inl ⟨ws, lp_setId h n⟩
  · exact Or.inr h

theorem lineOf_no_newline (s : Bytes) (h : (10 : UInt8) ∉ lineOf s) : lineOf s = s := by
  induction s with
  | nil => rfl
  | cons b t ih =>
    simp only [lineOf] at h ⊢
    split
    · rename_i hb; simp [hb] at h
    · rename_i hb
      simp only [hb, if_false, List.mem_cons, not_or] at h
      rw [ih h.2]

theorem lineOf_newline (s : Bytes) (h : (10 : UInt8) ∈ lineOf s) : ∃ body, lineOf s = body ++ [10] := by
  induction s with
  | nil => simp [lineOf] at h
  | cons b t ih =>
    simp only [lineOf] at h ⊢
    split
    · exact ⟨[], rfl⟩
    · rename_i hb
      simp only [hb, if_false, List.mem_cons] at h
      rcases h with h | h
      · exact absurd h.symm hb
      · obtain ⟨body, hbody⟩ := ih h
        exact ⟨b :: body, by rw [hbody]; rfl⟩

theorem Fresh.trim_nil {i : Input} (h : Fresh i) : GoStrings.trimSpace (linePrefix i) = [] := by
  obtain ⟨ws, hlp⟩ := h
  rw [hlp.eq, List.append_nil]
  exact trimSpace_blank ws (fun b hb => isBlank_cases (hlp.blank b hb))

/-- ★ After a newline, an end-of-line comment or a whole-line comment the lexer is at the beginning of a
    line or at the end of the input; and from such a state no end-of-line comment is delivered. -/
theorem readToken_eol (j i : Input) (h : readToken j = .ok i) :
    ((i.token.kind = .punct 10 ∨ i.token.kind = .eolComment ∨ i.token.kind = .comment ∨ i.token.kind = .eof) →
      AtEOL i) ∧
    (AtEOL j → i.token.kind ≠ .eolComment) := by
  obtain ⟨ws, i0, hws, hadv, hem⟩ := readToken_emits j i h
  obtain ⟨hfresh0, _⟩ := inv_blanks hws hadv.cons hadv.rem
  cases hem with
  | eof hk _ _ _ hr _ => exact ⟨fun _ => Or.inr hr, fun _ => by rw [hk]; simp⟩
  | comment hp hrem hc hk _ _ _ =>
    constructor
    · intro _
      by_cases hnl : (10 : UInt8) ∈ lineOf i0.remaining
      · left
        obtain ⟨body, hbody⟩ := lineOf_newline _ hnl
        refine ⟨[], ⟨?_, by simp, fun h => absurd rfl h⟩⟩
        apply linePrefix_newline (r := body.reverse ++ i0.consumedRev)
        rw [hc, hbody]; simp
      · right
        have := lineOf_no_newline _ hnl
        rw [this] at hrem
        have : i0.remaining ++ [] = i0.remaining ++ i.remaining := by simpa using hrem
        exact (List.append_cancel_left this).symm
    · intro hj
      rcases hj with hf | hr
      · have := (hfresh0 hf).trim_nil
        rw [hk]
        have he : (GoStrings.trimSpace (i0.consumedRev.takeWhile (· != 10)).reverse).isEmpty = true := by
          simpa [linePrefix] using this
        simp [he]
      · -- nothing left: no comment can start here
        exfalso
        have h0 : i0.remaining = [] := by
          have := hadv.rem
          rw [hr] at this
          exact (List.append_eq_nil_iff.1 this.symm).2
        obtain ⟨t, ht⟩ := peekPrefix_slashes hp
        rw [h0] at ht; cases ht
  | newline hk _ _ hc _ =>
    exact ⟨fun _ => Or.inl ⟨[], ⟨linePrefix_newline hc, by simp, fun h => absurd rfl h⟩⟩, fun _ => by rw [hk]; simp⟩
  | tok t hk _ _ _ _ _ _ =>
    constructor
    · intro hor
      exfalso
      rcases hor with h | h | h | h
      · rw [h] at hk
        cases hk with
        | punct c hc => exact absurd hc (by decide)
      · rw [h] at hk; cases hk
      · rw [h] at hk; cases hk
      · rw [h] at hk; cases hk
    · intro _ he; rw [he] at hk; cases hk

/-- every comment the lexer records is marked as an end-of-line comment -/
theorem readToken_comments (j i : Input) (h : readToken j = .ok i)
    (hj : ∀ c ∈ j.commentsRev, c.suffix = true) : ∀ c ∈ i.commentsRev, c.suffix = true := by
  obtain ⟨ws, i0, _, hadv, hem⟩ := readToken_emits j i h
  have h0 : ∀ c ∈ i0.commentsRev, c.suffix = true := by rw [hadv.comments]; exact hj
  cases hem with
  | eof _ _ _ _ _ hcm => rw [hcm]; exact h0
  | comment _ _ _ hk hcm hcm2 _ =>
    by_cases hs : (!(GoStrings.trimSpace (i0.consumedRev.takeWhile (· != 10)).reverse).isEmpty) = true
    · rw [hs] at hk
      obtain ⟨c0, hc0, heq⟩ := hcm2 (by simpa using hk)
      rw [heq]
      intro c hc
      rcases List.mem_cons.1 hc with rfl | hc
      · exact hc0
      · exact h0 c hc
    · have hs' : (!(GoStrings.trimSpace (i0.consumedRev.takeWhile (· != 10)).reverse).isEmpty) = false := by
        simpa using hs
      rw [hs'] at hk
      rw [hcm (by simpa using hk)]; exact h0
  | newline _ _ _ _ hcm => rw [hcm]; exact h0
  | tok t _ _ _ _ hcm _ _ => rw [hcm]; exact h0

end ModVerif.Proofs.ModfileFmtClass
