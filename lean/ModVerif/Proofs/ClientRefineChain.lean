/-
  ClientRefine, part 2d — closing the chain for the head protocol in C01's honest world: a block of a sequential
  execution (`SeqExec`: goroutine `t` alone, every answer `ok`) of the latest-head machine over the honest worlds
  (`honestParams`) IS the sequential client's `mergeLatest` in the honest environment.
   * `step_mono` / `run_mono`: a machine with fewer admissible `checkTrees` answers runs inside one with more;
   * `corun_all_ok`: a lock-step run that ends with success made the choice `ok` everywhere;
   * `honest_block_is_mergeLatest`: the theorem.
  Helper for Props/C14.lean.
-/
import ModVerif.Proofs.ClientRefineHonest
namespace ModVerif.ClientRefine
open ModVerif ModVerif.Client ModVerif.Tile

set_option linter.unusedSectionVars false

section generic
variable {M T : Type} [DecidableEq M] [DecidableEq T]

/-- same `parse` and `size`, fewer admissible answers: every step of `P1` is a step of `P2` -/
theorem step_mono (P1 P2 : ClientLatest.Params M T) (hp : P1.parse = P2.parse) (hs : P1.size = P2.size)
    (hc : ∀ a b r, r ∈ P1.chk a b → r ∈ P2.chk a b) (cl : Nat → Nat) (presented : Nat → Option M)
    (priv : Nat → Bool) (s s' : ClientLatest.St M T) (t : Nat) (r : ClientLatest.Res)
    (h : ClientLatest.step P1 cl presented priv s t r = some s') :
    ClientLatest.step P2 cl presented priv s t r = some s' := by
  unfold ClientLatest.step at h ⊢
  rw [← hp, ← hs]
  cases hpc : (s.th t).pc with
  | memCheck o =>
    simp only [hpc] at h ⊢
    by_cases hsz : P1.size (s.th t).tree ≤ P1.size (s.th t).latest
    · simp only [hsz, if_true] at h ⊢
      by_cases hm : r ∈ P1.chk (s.th t).tree (s.th t).latest
      · rw [if_pos hm] at h; rw [if_pos (hc _ _ _ hm)]; exact h
      · rw [if_neg hm] at h; cases h
    · simp only [hsz, if_false] at h ⊢
      by_cases hm : r ∈ P1.chk (s.th t).latest (s.th t).tree
      · rw [if_pos hm] at h; rw [if_pos (hc _ _ _ hm)]; exact h
      · rw [if_neg hm] at h; cases h
  | _ => simp only [hpc] at h ⊢; exact h

theorem run_mono (P1 P2 : ClientLatest.Params M T) (hp : P1.parse = P2.parse) (hs : P1.size = P2.size)
    (hc : ∀ a b r, r ∈ P1.chk a b → r ∈ P2.chk a b) (cl : Nat → Nat) (presented : Nat → Option M)
    (priv : Nat → Bool) : ∀ (sched : List (Nat × ClientLatest.Res)) (s s' : ClientLatest.St M T),
    ClientLatest.run P1 cl presented priv s sched = some s' → ClientLatest.run P2 cl presented priv s sched = some s' := by
  intro sched
  induction sched with
  | nil => intro s s' h; exact h
  | cons x rest ih =>
    intro s s' h
    obtain ⟨t, r⟩ := x
    simp only [ClientLatest.run] at h ⊢
    cases hs1 : ClientLatest.step P1 cl presented priv s t r with
    | none => simp [hs1] at h
    | some s1 =>
      simp only [hs1] at h
      rw [step_mono P1 P2 hp hs hc cl presented priv s s1 t r hs1]
      exact ih s1 s' h

/-- a goroutine that has returned takes no further step: a solo run that ends with the goroutine returned is unique -/
theorem solo_run_unique (P : ClientLatest.Params M T) (cl : Nat → Nat) (presented : Nat → Option M) (priv : Nat → Bool)
    (s s1 s2 : ClientLatest.St M T) (t : Nat) (n m : Nat)
    (h1 : ClientLatest.run P cl presented priv s (List.replicate n (t, ClientLatest.Res.ok)) = some s1)
    (d1 : ∃ x, (s1.th t).pc = .done x)
    (h2 : ClientLatest.run P cl presented priv s (List.replicate m (t, ClientLatest.Res.ok)) = some s2)
    (d2 : ∃ x, (s2.th t).pc = .done x) : s1 = s2 := by
  have stuck : ∀ (s0 : ClientLatest.St M T), (∃ x, (s0.th t).pc = .done x) →
      ClientLatest.step P cl presented priv s0 t .ok = none := by
    intro s0 ⟨x, hx⟩
    unfold ClientLatest.step; simp [hx]
  have key : ∀ (n d : Nat) (s sa sb : ClientLatest.St M T),
      ClientLatest.run P cl presented priv s (List.replicate n (t, ClientLatest.Res.ok)) = some sa →
      (∃ x, (sa.th t).pc = .done x) →
      ClientLatest.run P cl presented priv s (List.replicate (n + d) (t, ClientLatest.Res.ok)) = some sb → sa = sb := by
    intro n
    induction n with
    | zero =>
      intro d s sa sb ha hda hb
      simp [ClientLatest.run] at ha; subst ha
      cases d with
      | zero => simp [ClientLatest.run] at hb; exact hb
      | succ d => simp [List.replicate_succ, ClientLatest.run, stuck _ hda] at hb
    | succ n ih =>
      intro d s sa sb ha hda hb
      rw [show n + 1 + d = (n + d) + 1 by omega] at hb
      simp only [List.replicate_succ, ClientLatest.run] at ha hb
      cases hs : ClientLatest.step P cl presented priv s t .ok with
      | none => simp [hs] at ha
      | some s0 => simp only [hs] at ha hb; exact ih d s0 sa sb ha hda hb
  by_cases hnm : n ≤ m
  · obtain ⟨d, rfl⟩ : ∃ d, m = n + d := ⟨m - n, by omega⟩
    exact key n d s s1 s2 h1 d1 h2
  · obtain ⟨d, rfl⟩ : ∃ d, n = m + d := ⟨n - m, by omega⟩
    exact (key m d s s2 s1 h2 d2 h1).symm

end generic

section
variable {σ H : Type} [DecidableEq H]

/-- at the program counters without a choice the step does not look at the choice -/
theorem step_no_choice (MP : MParams H) (cl : Nat → Nat) (presented : Nat → Option Bytes) (priv : Nat → Bool)
    (s : MSt H) (t : Nat) (r r' : ClientLatest.Res) (h : ¬ IsChoice (s.th t).pc) :
    ClientLatest.step MP cl presented priv s t r = ClientLatest.step MP cl presented priv s t r' := by
  unfold ClientLatest.step
  cases hpc : (s.th t).pc <;> simp only [hpc, IsChoice, not_true_eq_false] at h ⊢

/-- a choice other than `ok` (at a configuration operation: `error`) ends the goroutine with a failure -/
theorem choice_not_ok (MP : MParams H) (cl : Nat → Nat) (presented : Nat → Option Bytes) (priv : Nat → Bool)
    (s s' : MSt H) (t : Nat) (r : ClientLatest.Res) (hch : IsChoice (s.th t).pc) (hne : r ≠ .ok)
    (hcfg : ((s.th t).pc = .readConfig ∨ (s.th t).pc = .writeConfig) → r = .error)
    (h : ClientLatest.step MP cl presented priv s t r = some s') :
    (s'.th t).pc = .done .err ∨ (s'.th t).pc = .done .security := by
  unfold ClientLatest.step at h
  cases hpc : (s.th t).pc with
  | memCheck o =>
    simp only [hpc] at h
    split at h
    · split at h
      · cases r
        · exact absurd rfl hne
        · simp at h; subst h; right; simp
        · simp at h; subst h; left; simp
      · cases h
    · split at h
      · cases r
        · exact absurd rfl hne
        · simp at h; subst h; right; simp
        · simp at h; subst h; left; simp
      · cases h
  | readConfig =>
    have := hcfg (Or.inl hpc); subst this
    simp only [hpc, if_true] at h
    simp at h; subst h; left; simp
  | writeConfig =>
    have := hcfg (Or.inr hpc); subst this
    simp only [hpc, if_true] at h
    simp at h; subst h; left; simp
  | _ => simp [hpc, IsChoice] at hch

theorem answer_cfg (P : Params H) (E : Env σ) (w : World σ H) (l : MLoc H)
    (h : l.pc = .readConfig ∨ l.pc = .writeConfig) (hne : answer P E w l ≠ .ok) : answer P E w l = .error := by
  rcases h with h | h
  · simp only [answer, h] at hne ⊢
    split at hne
    · exact absurd rfl hne
    · rename_i hc; simp [hc]
  · simp only [answer, h] at hne ⊢
    split at hne
    · rfl
    · exact absurd rfl hne

/-- **A lock-step run that ends with success made the choice `ok` everywhere**: it is also the lock-step run of the
all-`ok` schedule of the same length. -/
theorem corun_all_ok (P : Params H) (E : Env σ) (MP : MParams H) (cl : Nat → Nat) (presented : Nat → Option Bytes)
    (priv : Nat → Bool) (t : Nat) : ∀ (rs : List ClientLatest.Res) (w w' : World σ H) (s s' : MSt H),
    corun P E MP cl presented priv t w s rs = some (w', s') → (s'.th t).pc = .done .ok →
    corun P E MP cl presented priv t w s (List.replicate rs.length .ok) = some (w', s') := by
  intro rs
  induction rs with
  | nil => intro w w' s s' h _; exact h
  | cons r rs ih =>
    intro w w' s s' h hd
    simp only [corun] at h
    split at h
    · cases h
    · rename_i hc
      cases hs : ClientLatest.step MP cl presented priv s t r with
      | none => simp [hs] at h
      | some s1 =>
        simp only [hs] at h
        have ih' := ih _ _ _ _ h hd
        by_cases hch : IsChoice (s.th t).pc
        · have hr : r = answer P E w (s.th t) := by
            by_cases e : r = answer P E w (s.th t)
            · exact e
            · exact absurd ⟨hch, e⟩ hc
          by_cases hok : r = .ok
          · subst hok
            simp only [List.length_cons, List.replicate_succ, corun]
            rw [if_neg hc, hs]; exact ih'
          · -- the goroutine has failed: it cannot end with success
            exfalso
            have hbad := choice_not_ok MP cl presented priv s s1 t r hch hok
              (fun hp => by rw [hr]; exact answer_cfg P E w _ hp (by rw [← hr]; exact hok)) hs
            -- a goroutine that has returned takes no further step
            have hstuck : ∀ (rs : List ClientLatest.Res) (wa wb : World σ H) (sa sb : MSt H),
                (∃ x, (sa.th t).pc = .done x ∧ x ≠ .ok) →
                corun P E MP cl presented priv t wa sa rs = some (wb, sb) → (sb.th t).pc ≠ .done .ok := by
              intro rs
              cases rs with
              | nil =>
                intro wa wb sa sb ⟨x, hx, hxn⟩ hrun
                simp [corun] at hrun
                rw [← hrun.2, hx]
                intro e; cases e; exact hxn rfl
              | cons r0 rs0 =>
                intro wa wb sa sb ⟨x, hx, _⟩ hrun
                simp only [corun] at hrun
                split at hrun
                · cases hrun
                · have : ClientLatest.step MP cl presented priv sa t r0 = none := by
                    unfold ClientLatest.step; simp [hx]
                  simp [this] at hrun
            refine hstuck rs _ w' s1 s' ?_ h hd
            rcases hbad with e | e
            · exact ⟨_, e, by simp⟩
            · exact ⟨_, e, by simp⟩
        · simp only [List.length_cons, List.replicate_succ, corun]
          rw [if_neg (fun hh => hch hh.1), step_no_choice MP cl presented priv s t .ok r hch, hs]
          exact ih'

end

section honest
variable {H : Type} [DecidableEq H]

/-- every run of the machine over the honest worlds is a run of the C13 machine over the honest environment -/
theorem honest_run_is_client_run (P : Params H) (D : List Bytes) (S : Server) (stN : List H) (cl : Nat → Nat)
    (presented : Nat → Option Bytes) (priv : Nat → Bool) (sched : List (Nat × ClientLatest.Res)) (s s' : MSt H)
    (h : ClientLatest.run (honestParams P D S stN) cl presented priv s sched = some s') :
    ClientLatest.run (Props.C13.clientParams P (honestEnv S) [S.v]) cl presented priv s sched = some s' := by
  refine run_mono (honestParams P D S stN) (Props.C13.clientParams P (honestEnv S) [S.v]) ?_ rfl ?_ cl presented priv
    sched s s' h
  · funext m
    simp only [honestParams, Props.C13.clientParams]
    cases openTree P [S.v] m <;> rfl
  · intro a b r hr
    simp only [honestParams, List.mem_append] at hr
    simp only [Props.C13.clientParams, List.mem_append, List.mem_cons, List.not_mem_nil, or_false]
    rcases hr with (hr | hr) | hr
    · split at hr
      · rename_i hc
        obtain ⟨hle, w, o1, o2, _, _, hok⟩ := hc
        simp only [List.mem_cons, List.not_mem_nil, or_false] at hr
        subst hr
        left
        rw [if_pos ⟨hle, w, o1, o2, absChk_ok hok⟩]; simp
      · simp at hr
    · split at hr
      · simp only [List.mem_cons, List.not_mem_nil, or_false] at hr; subst hr; right; left; rfl
      · simp at hr
    · split at hr
      · simp only [List.mem_cons, List.not_mem_nil, or_false] at hr; subst hr; right; right; rfl
      · simp at hr

/-- **A block of a sequential execution of the honest machine IS the sequential client's `mergeLatest`.**  C01's honest
world: `w` satisfies the honest invariant `HW`, the client has its name and verifier, `msg` is the empty message or a
signed head of `D`; the machine state `s` (of the machine over the honest worlds) agrees with `w` on client `cl t`;
goroutine `t` is public, has not started and is presented `msg`.  If `t` runs alone with every answer `ok` — a block of
`SeqExec` — until it has returned, then it has returned success, the sequential `mergeLatest(msg)` returns `nil`, and the
machine state agrees with the world after `mergeLatest` (same in-memory head and message, same configuration content),
with the same successful configuration writes and no security report. -/
theorem honest_block_is_mergeLatest (P : Params H) (D : List Bytes) (S : Server) (stN : List H) (hon : Honest P D S stN)
    (cl : Nat → Nat) (presented : Nat → Option Bytes) (priv : Nat → Bool) (t : Nat) (msg : Bytes)
    (hmsg : msg = [] ∨ ∃ m, Signed P D S msg m) (hpres : presented t = optB msg) (hpriv : priv t = false)
    (w : World HState H) (hw : HW P D S stN w) (hname : w.c.name = S.v.name) (hvs : w.c.verifiers = [S.v])
    (s s' : MSt H) (hR : RelG cl S.v.name (fun x : HState => x.latest) [S.v] t w s) (hpc : (s.th t).pc = .entry)
    (k : Nat) (hrun : ClientLatest.run (honestParams P D S stN) cl presented priv s
      (List.replicate k (t, ClientLatest.Res.ok)) = some s')
    (hdone : ∃ x, (s'.th t).pc = .done x) :
    (s'.th t).pc = .done .ok ∧ (mergeLatest P (honestEnv S) w msg).1 = .ok () ∧
    RelG cl S.v.name (fun x : HState => x.latest) [S.v] t (mergeLatest P (honestEnv S) w msg).2 s' ∧
    Obs P t w.tr s.writes s.sec (mergeLatest P (honestEnv S) w msg).2 s' := by
  have hA := clientParams_abs P (honestEnv S) [S.v]
  have hE := honestEnv_cfgCell S
  obtain ⟨⟨rs, s1, _, hco, hpc1⟩, hb⟩ :=
    head_refinement (cl := cl) (priv := priv) hA hE hon.hret hpres hpriv w s hR hpc
  have hres : (mergeLatest P (honestEnv S) w msg).1 = .ok () :=
    (mergeLatest_honest P D S stN hon w hw hname hvs msg hmsg).1
  rw [hres] at hpc1
  have hpc1' : (s1.th t).pc = .done .ok := hpc1
  have hco' := corun_all_ok P (honestEnv S) _ cl presented priv t rs _ _ _ _ hco hpc1'
  obtain ⟨hrun1, hR1, hO1, _⟩ := hb _ _ _ hco'
  rw [List.map_replicate] at hrun1
  have hrun' := honest_run_is_client_run P D S stN cl presented priv _ s s' hrun
  have heq : s1 = s' := solo_run_unique _ cl presented priv s s1 s' t _ _ hrun1 ⟨_, hpc1'⟩ hrun' hdone
  subst heq
  exact ⟨hpc1', hres, hR1, hO1⟩

end honest
end ModVerif.ClientRefine
