/-
  Tie proof, zip/zip.go `Create` (Generated/FnZip.lean: `Create`, closure `Create_addFile`, loop `Create_loop1`) and
  `CheckedFiles.Err` against the hand model `Zip.create` / `Zip.addFiles` / `Zip.CheckedFiles.err` (Model/Zip.lean).

  * errors: a model `CreateErr` is the text `createErrText bad c` (`bad` = the text of the module/version rejection, which
    depends on the instantiation of `module.CanonicalVersion` / `module.Check`: `badModuleText`); `Create` wraps every
    error as `zipError|…` (`embCreateErr`);
  * the world (archive/zip writer, `GoRt.ZipW`) after the loop over `validFiles` is `writtenW pfx validFiles`: one pair
    (name, content) per file until the first failure; for a file that is larger than declared the truncated content
    (`size + 1` bytes, what the `io.LimitedReader` lets through) has been written.
-/
import ModVerif.Generated.FnZip
import ModVerif.Model.Zip
import ModVerif.Drv.GenZip
import ModVerif.Proofs.GoRtLemmas
import ModVerif.Proofs.TieFnZipCfTop
import ModVerif.Proofs.ZipCreate
import ModVerif.Proofs.ZipShape
namespace ModVerif.TieFnZipIOCreate
open ModVerif ModVerif.GoRt ModVerif.GoRtZip ModVerif.TieFnZip ModVerif.TieFnZipCf
open ModVerif.Generated.Zip (File FileError CheckedFiles)
open ModVerif.Drv.GenZip (toGFile)

/-! ### representation of errors -/

/-- text of `CheckedFiles.Err()`: the size error itself, or the `FileErrorList` of the invalid files (by its type name) -/
def errKindText : Zip.ErrKind → String
  | .size => sizeErrorText
  | .invalid => "FileErrorList"

/-- the text `Create` reports when the module path/version is rejected: the format literal of the canonical-version
    error, or whatever `module.Check` returned -/
def badModuleText (canonicalVersion : Bytes → Bytes) (moduleCheck : Bytes → Bytes → Option String) (p v : Bytes) : String :=
  if canonicalVersion v ≠ v then "version %q is not canonical (should be %q)" else (moduleCheck p v).getD ""

/-- inner text of a model `CreateErr` (`bad` = text of the module rejection) -/
def createErrText (bad : String) : Zip.CreateErr → String
  | .badModule => bad
  | .size => sizeErrorText
  | .invalid => "FileErrorList"
  | .contentLarger => "file %q is larger than declared size"
  | .nameTooLong => "zip: FileHeader.Name too long"

/-- the error value `Create` returns for a model error: wrapped as a `zipError` -/
def embCreateErr (bad : String) (c : Zip.CreateErr) : Option String := some ("zipError|" ++ createErrText bad c)

/-- the outcome of the model as the error value of the generated code -/
def embCreateRes (bad : String) : Except Zip.CreateErr (List Zip.Entry) → Option String
  | .ok _ => none
  | .error c => embCreateErr bad c

/-- an entry as the writer world records it -/
def entryPair (e : Zip.Entry) : Bytes × Bytes := (e.name, e.content)

/-- what has been written to the archive when the loop over the valid files ends or stops at the first failure -/
def writtenW (pfx : Bytes) : List Zip.FileInfo → ZipW
  | [] => []
  | f :: rest =>
    if (pfx ++ f.path).length > 65535 then []
    else if (f.content.length : Int) ≥ f.size + 1 then [(pfx ++ f.path, f.content.take (f.size + 1).toNat)]
    else (pfx ++ f.path, f.content) :: writtenW pfx rest

/-- the writer world when `Create` returns (started from the empty world) -/
def createWorld (E : Zip.Env) (p v : Bytes) (files : List Zip.FileInfo) : ZipW :=
  if !E.modOK p v then []
  else match (Zip.checkFilesSt E files (Zip.goVers files)).cf.err with
    | some _ => []
    | none => writtenW (Zip.zipPrefix p v) (Zip.checkFilesSt E files (Zip.goVers files)).validFiles

theorem writtenW_of_ok (pfx : Bytes) : ∀ (l : List Zip.FileInfo) (es : List Zip.Entry),
    Zip.addFiles pfx l = .ok es → writtenW pfx l = es.map entryPair := by
  intro l
  induction l with
  | nil => intro es h; simp [Zip.addFiles] at h; subst h; rfl
  | cons f t ih =>
    intro es h
    unfold Zip.addFiles at h
    by_cases h1 : (pfx ++ f.path).length > 65535
    · rw [if_pos h1] at h; cases h
    by_cases h2 : (f.content.length : Int) ≥ f.size + 1
    · rw [if_neg h1, if_pos h2] at h; cases h
    rw [if_neg h1, if_neg h2] at h
    cases hr : Zip.addFiles pfx t with
    | error e => rw [hr] at h; cases h
    | ok es' =>
      rw [hr] at h
      injection h with h
      subst h
      unfold writtenW
      rw [if_neg h1, if_neg h2, ih es' hr]
      rfl

/-! ### `CheckedFiles.Err` -/

theorem CheckedFiles_Err_eq (cf : Zip.CheckedFiles) :
    Generated.Zip.CheckedFiles_Err (embCF cf) = cf.err.map errKindText := by
  unfold Generated.Zip.CheckedFiles_Err Zip.CheckedFiles.err embCF
  cases hs : cf.sizeError with
  | true => rfl
  | false =>
    cases hi : cf.invalid with
    | nil => rfl
    | cons a t =>
      have : decide (len (List.map embFE (a :: t)) > 0) = true := by
        simp [len_eq]
      simp only [Bool.false_eq_true, if_false, Option.isNone_none, Bool.not_true, this, if_true]
      rfl

/-! ### the closure `addFile` -/

section
variable (cv : Bytes → Bytes) (cfp : Bytes → Option String) (ef : Bytes → Bytes → Bool)
  (mc : Bytes → Bytes → Option String) (pgv : Bytes → Bytes → Bytes) (sf : Int → Int)
  (tl : Bytes → Bytes) (vc : Bytes → Bytes → Int) (vl : Bytes → Bytes)

theorem zwWrite_concat (u : Unit) (data : Bytes) (w : ZipW) (n c : Bytes) :
    zwWrite u data (w ++ [(n, c)]) = (((data.length : Int), none), w ++ [(n, c ++ data)]) := by
  unfold zwWrite
  simp

/-- one call of the closure `addFile` on a translated file -/
theorem addFile_eq (fuel : Nat) (pfx : Bytes) (f : Zip.FileInfo) (w : ZipW) :
    Generated.Zip.Create_addFile cv cfp ef mc pgv sf tl vc vl fuel () pfx (toGFile f) f.path f.size w =
      .ok (if (pfx ++ f.path).length > 65535 then (some "zip: FileHeader.Name too long", w)
        else if (f.content.length : Int) ≥ f.size + 1 then
          (some "file %q is larger than declared size", w ++ [(pfx ++ f.path, f.content.take (f.size + 1).toNat)])
        else (none, w ++ [(pfx ++ f.path, f.content)])) := by
  unfold Generated.Zip.Create_addFile
  simp only [toGFile_Open, Option.isNone_none, Bool.not_true, Bool.false_eq_true, if_false]
  unfold zwCreate
  by_cases h1 : (pfx ++ f.path).length > 65535
  · simp only [h1, if_true]
    rfl
  simp only [h1, if_false, Option.isNone_none, Bool.not_true, Bool.false_eq_true]
  unfold limRead
  by_cases hN : f.size + 1 ≤ 0
  · have h2 : (f.content.length : Int) ≥ f.size + 1 := by omega
    have h0 : (f.size + 1).toNat = 0 := by omega
    simp only [hN, if_true, zwWrite_concat, Option.isNone_none, Bool.not_true, Bool.false_eq_true, if_false,
      decide_true, h2, h0, List.take_zero, List.append_nil]
    rfl
  simp only [hN, if_false, zwWrite_concat, Option.isNone_none, Bool.not_true, Bool.false_eq_true, List.nil_append]
  by_cases h2 : (f.content.length : Int) ≥ f.size + 1
  · have : (f.size + 1 - ((List.take (f.size + 1).toNat f.content).length : Int)) ≤ 0 := by
      rw [List.length_take]; omega
    simp only [this, decide_true, if_true, h2]
    rfl
  · have : ¬ (f.size + 1 - ((List.take (f.size + 1).toNat f.content).length : Int)) ≤ 0 := by
      rw [List.length_take]; omega
    have ht : List.take (f.size + 1).toNat f.content = f.content := by
      apply List.take_of_length_le; omega
    rw [ht] at this
    simp only [this, decide_false, Bool.false_eq_true, if_false, h2, ht]
    rfl

/-! ### the loop over `validFiles` -/

/-- outcome of the loop from a given position: the rest of the files `l`, the world `w` so far; `n` = number of files -/
def loopOut (bad : String) (pfx : Bytes) (n : Nat) (l : List Zip.FileInfo) (w : ZipW) :
    Ctl (Option String × ZipW) (Int × ZipW) :=
  match Zip.addFiles pfx l with
  | .ok _ => Ctl.next ((n : Int), w ++ writtenW pfx l)
  | .error c => Ctl.ret (embCreateErr bad c, w ++ writtenW pfx l)

theorem loopOut_nil (bad : String) (pfx : Bytes) (n : Nat) (w : ZipW) :
    loopOut bad pfx n [] w = Ctl.next ((n : Int), w) := by
  simp [loopOut, Zip.addFiles, writtenW]

theorem loopOut_long (bad : String) (pfx : Bytes) (n : Nat) (f : Zip.FileInfo) (t : List Zip.FileInfo) (w : ZipW)
    (h1 : (pfx ++ f.path).length > 65535) :
    loopOut bad pfx n (f :: t) w = Ctl.ret (some "zipError|zip: FileHeader.Name too long", w) := by
  unfold loopOut
  rw [Zip.addFiles, if_pos h1, writtenW, if_pos h1]
  simp [embCreateErr, createErrText]

theorem loopOut_larger (bad : String) (pfx : Bytes) (n : Nat) (f : Zip.FileInfo) (t : List Zip.FileInfo) (w : ZipW)
    (h1 : ¬ (pfx ++ f.path).length > 65535) (h2 : (f.content.length : Int) ≥ f.size + 1) :
    loopOut bad pfx n (f :: t) w = Ctl.ret (some "zipError|file %q is larger than declared size",
      w ++ [(pfx ++ f.path, f.content.take (f.size + 1).toNat)]) := by
  unfold loopOut
  rw [Zip.addFiles, if_neg h1, if_pos h2, writtenW, if_neg h1, if_pos h2]
  simp [embCreateErr, createErrText]

theorem loopOut_next (bad : String) (pfx : Bytes) (n : Nat) (f : Zip.FileInfo) (t : List Zip.FileInfo) (w : ZipW)
    (h1 : ¬ (pfx ++ f.path).length > 65535) (h2 : ¬ (f.content.length : Int) ≥ f.size + 1) :
    loopOut bad pfx n (f :: t) w = loopOut bad pfx n t (w ++ [(pfx ++ f.path, f.content)]) := by
  unfold loopOut
  rw [Zip.addFiles, if_neg h1, if_neg h2, writtenW, if_neg h1, if_neg h2]
  cases Zip.addFiles pfx t <;> simp

theorem idxL_map_size (done : List Zip.FileInfo) (f : Zip.FileInfo) (rest : List Zip.FileInfo) :
    idxL ((done ++ f :: rest).map (·.size)) (done.length : Int) = .ok f.size := by
  rw [idxL_natCast (by simp)]
  simp

theorem loop1_from (bad : String) (pfx : Bytes) : ∀ (rest done : List Zip.FileInfo) (fuel : Nat) (w : ZipW),
    rest.length + 1 ≤ fuel →
    Generated.Zip.Create_loop1 cv cfp ef mc pgv sf tl vc vl ((done ++ rest).map toGFile) ((done ++ rest).map (·.size))
        () pfx fuel (done.length : Int) w =
      .ok (loopOut bad pfx (done ++ rest).length rest w) := by
  intro rest
  induction rest with
  | nil =>
    intro done fuel w hf
    obtain ⟨fuel, rfl⟩ : ∃ k, fuel = k + 1 := ⟨fuel - 1, by omega⟩
    rw [Generated.Zip.Create_loop1]
    simp only [List.append_nil, not_lt_len_map_toGFile, Bool.false_eq_true, if_false, loopOut_nil]
    rfl
  | cons f rest ih =>
    intro done fuel w hf
    obtain ⟨fuel, rfl⟩ : ∃ k, fuel = k + 1 := ⟨fuel - 1, by omega⟩
    simp only [List.length_cons] at hf
    rw [Generated.Zip.Create_loop1]
    simp only [lt_len_map_toGFile, if_true, idxL_map_toGFile, idxL_map_size, bind_ok, toGFile_Path, addFile_eq]
    by_cases h1 : (pfx ++ f.path).length > 65535
    · rw [loopOut_long bad pfx _ f rest w h1]
      simp only [h1, if_true]
      rfl
    by_cases h2 : (f.content.length : Int) ≥ f.size + 1
    · rw [loopOut_larger bad pfx _ f rest w h1 h2]
      simp only [h1, if_false, h2, if_true]
      rfl
    rw [loopOut_next bad pfx _ f rest w h1 h2]
    simp only [h1, if_false, h2, Option.isNone_none, Bool.not_true, Bool.false_eq_true]
    have e : done ++ f :: rest = (done ++ [f]) ++ rest := by simp
    have hl : (done.length : Int) + 1 = ((done ++ [f]).length : Int) := by simp
    rw [e, hl]
    exact ih (done ++ [f]) fuel _ (by omega)

end

/-! ### fuel: `validFiles` is no longer than the input -/

open ModVerif.Zip ModVerif.Proofs.Zip in
theorem mainPass_validFiles_length (E : Zip.Env) (ge124 : Bool) (hg : List Bytes) :
    ∀ (l : List Zip.FileInfo) (s : Zip.St),
      (Zip.mainPass E ge124 hg s l).validFiles.length ≤ s.validFiles.length + l.length := by
  intro l
  induction l with
  | nil => intro s; simp [Zip.mainPass]
  | cons f t ih =>
    intro s
    simp only [Zip.mainPass, List.foldl_cons]
    have hsh := stepFile_shape E ge124 hg s f
    generalize Zip.stepFile E ge124 hg s f = s' at hsh ⊢
    have := ih s'
    simp only [Zip.mainPass] at this
    cases hsh with
    | err s0 h om r =>
      rw [(addError_valid s0 f.path om r).2, h.validFiles] at this
      simp only [List.length_cons]; omega
    | valid s0 h hreg =>
      have e : (s0.pushValid f).validFiles = s0.validFiles ++ [f] := rfl
      rw [e, h.validFiles, List.length_append] at this
      simp only [List.length_cons, List.length_nil] at this ⊢; omega

theorem validFiles_length_le (E : Zip.Env) (ge124 : Bool) (files : List Zip.FileInfo) :
    (Zip.checkFilesSt E files ge124).validFiles.length ≤ files.length := by
  unfold Zip.checkFilesSt
  have h0 : (Zip.prePass files).st.validFiles = [] := Proofs.Zip.prePass_validFiles files {} rfl
  have := mainPass_validFiles_length E ge124 (Zip.prePass files).haveGoMod files (Zip.prePass files).st
  rw [h0] at this
  simpa using this


/-! ### `Create` -/

section
variable (cv : Bytes → Bytes) (ef : Bytes → Bytes → Bool)
  (mc : Bytes → Bytes → Option String) (pgv : Bytes → Bytes → Bytes) (sf : Int → Int)
  (tl : Bytes → Bytes) (vc : Bytes → Bytes → Int) (vl : Bytes → Bytes)

theorem Create_eq (E : Zip.Env) (K : Nat) (hsf : FoldsTo sf K) (hE : E.toFold = Zip.strToFold)
    (hef : ∀ s, ef s Zip.goModName = Zip.equalFoldGoMod s)
    (htl : ∀ s, decide (tl s = Zip.goModName) = Zip.toLowerIsGoMod s)
    (p v : Bytes) (hmod : (cv v = v ∧ mc p v = none) ↔ E.modOK p v = true)
    (files : List Zip.FileInfo)
    (hv : decide (0 ≤ vc (versOf pgv vl files) go124) = Zip.goVers files)
    (fuel : Nat) (hfuel : fuelBound K files ≤ fuel) :
    Generated.Zip.Create cv (cfpOf E) ef mc pgv sf tl vc vl fuel () { Path := p, Version := v } (files.map toGFile) [] =
      .ok (embCreateRes (badModuleText cv mc p v) (Zip.create E p v files), createWorld E p v files) := by
  unfold Generated.Zip.Create
  simp only []
  by_cases hc : ¬ cv v = v
  · have hm : E.modOK p v = false := by
      cases h : E.modOK p v with
      | false => rfl
      | true => exact absurd (hmod.mpr h).1 hc
    simp only [hc, decide_false, Bool.not_false, if_true]
    simp [Zip.create, createWorld, hm, embCreateRes, embCreateErr, createErrText, badModuleText, hc, wrapErr]
  have hc : cv v = v := Classical.not_not.mp hc
  simp only [hc, decide_true, Bool.not_true, Bool.false_eq_true, if_false]
  cases hmc : mc p v with
  | some e =>
    have hm : E.modOK p v = false := by
      cases h : E.modOK p v with
      | false => rfl
      | true => have := (hmod.mpr h).2; rw [hmc] at this; cases this
    simp [Zip.create, createWorld, hm, embCreateRes, embCreateErr, createErrText, badModuleText, hc, wrapErr, hmc]
  | none =>
    have hm : E.modOK p v = true := hmod.mp ⟨hc, hmc⟩
    rw [checkFiles_eq ef pgv sf tl vc vl E K hsf hE hef htl files fuel hfuel, hv]
    simp only [bind_ok, Option.isNone_none, Bool.not_true, Bool.false_eq_true, if_false, embedCf, CheckedFiles_Err_eq]
    rw [Proofs.Zip.create_eq]
    unfold createWorld
    simp only [hm, Bool.not_true, Bool.false_eq_true, if_false]
    generalize hst : Zip.checkFilesSt E files (Zip.goVers files) = st
    cases herr : st.cf.err with
    | some k =>
      cases k <;>
        simp [embCreateRes, embCreateErr, createErrText, errKindText, wrapErr]
    | none =>
      simp only [Option.map_none, Option.isNone_none, Bool.not_true, Bool.false_eq_true, if_false]
      have hlen : st.validFiles.length ≤ files.length := by
        rw [← hst]; exact validFiles_length_le E _ files
      have hl := loop1_from cv (cfpOf E) ef mc pgv sf tl vc vl (badModuleText cv mc p v) (Zip.zipPrefix p v)
        st.validFiles [] fuel [] (by unfold fuelBound at hfuel; omega)
      simp only [List.nil_append, List.length_nil] at hl
      have hz : ((0 : Nat) : Int) = 0 := rfl
      rw [hz] at hl
      unfold zipNewWriter
      show (Generated.Zip.Create_loop1 cv (cfpOf E) ef mc pgv sf tl vc vl (st.validFiles.map toGFile)
        (st.validFiles.map (·.size)) () (Zip.zipPrefix p v) fuel 0 [] >>= _) = _
      rw [hl, bind_ok]
      unfold loopOut
      cases Zip.addFiles (Zip.zipPrefix p v) st.validFiles with
      | ok es => simp [embCreateRes, zwClose]
      | error c => simp [embCreateRes]

end

end ModVerif.TieFnZipIOCreate
