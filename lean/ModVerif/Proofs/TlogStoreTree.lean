/-
  C09 ★ `subTreeIndex` / `subTreeHash` / `TreeHash` against RFC 6962:
  `subTreeIndex lo hi` lists the stored-hash positions of the maximal complete subtrees covering `[lo, hi)`
  from left to right (`Cover`), never panics on an aligned interval, `numTree` counts them, and folding
  their hashes from right to left gives `MTH(D[lo:hi])`.  Hence `treeHash m = MTH(D[0:m])` over every store
  satisfying the store invariant.
-/
import ModVerif.Proofs.TlogStoreInv
import ModVerif.Proofs.TlogBasic
namespace ModVerif.TlogStore
open ModVerif ModVerif.Tlog ModVerif.RFC6962

/-- `maxpow2 n = (2^l, l)` with `2^l < n ≤ 2^(l+1)` on the int64 range -/
theorem maxpow2_range (n k l : Nat) (h1 : 1 < n) (h2 : n ≤ 2 ^ 63) (h : maxpow2 n = (k, l)) :
    k = 2 ^ l ∧ k < n ∧ n ≤ 2 * k := by
  obtain ⟨a, b, c, d⟩ := maxpow2_spec' n h1
  rw [h] at a b c d
  simp only at a b c d
  refine ⟨a, b, ?_⟩
  rcases d with d | d
  · exact d
  · rw [a, d]; omega

section
variable {H : Type} (node : H → H → H) (empty : H)

/-! ### the right fold of subTreeHash -/

/-- `NodeHash(h₀, NodeHash(h₁, … h_last))` -/
def foldR : List H → Option H
  | [] => none
  | [a] => some a
  | a :: b :: t => (foldR (b :: t)).map (node a)

theorem foldRight_snoc (xs : List H) (a : H) (h : xs ≠ []) :
    foldRight node (xs ++ [a]) = (foldRight node xs).map (node a) := by
  cases xs with
  | nil => exact absurd rfl h
  | cons last rest => simp [foldRight, List.foldl_append]

/-- the loop `h = hashes[numTree-1]; for i := numTree-2 … 0 { h = NodeHash(hashes[i], h) }` is a right fold -/
theorem foldRight_reverse : ∀ l : List H, foldRight node l.reverse = foldR node l := by
  intro l
  induction l with
  | nil => rfl
  | cons a t ih =>
    cases t with
    | nil => rfl
    | cons b t =>
      rw [List.reverse_cons, foldRight_snoc node _ a (by simp), ih]
      rfl

end

/-! ### covers -/

/-- `cs` are the coordinates `(level, offset)` of the maximal complete subtrees covering `[lo, hi)`, left to
    right: each block starts where the previous one ended, is aligned, fits, and is the LARGEST that fits. -/
def Cover : List (Nat × Nat) → Nat → Nat → Prop
  | [], lo, hi => lo = hi
  | (l, k) :: cs, lo, hi => k * 2 ^ l = lo ∧ lo + 2 ^ l ≤ hi ∧ hi < lo + 2 ^ (l + 1) ∧ Cover cs (lo + 2 ^ l) hi

theorem cover_le : ∀ cs lo hi, Cover cs lo hi → lo ≤ hi := by
  intro cs
  induction cs with
  | nil => intro lo hi h; simp [Cover] at h; omega
  | cons c cs ih =>
    intro lo hi h
    obtain ⟨l, k⟩ := c
    simp only [Cover] at h
    have := Nat.two_pow_pos l
    omega

/-- every block of a cover of `[lo, hi)` is a complete subtree of the first `hi` records -/
theorem cover_bound : ∀ cs lo hi, Cover cs lo hi → ∀ c ∈ cs, (c.2 + 1) * 2 ^ c.1 ≤ hi := by
  intro cs
  induction cs with
  | nil => intro lo hi _ c hc; simp at hc
  | cons c0 cs ih =>
    intro lo hi h c hc
    obtain ⟨l, k⟩ := c0
    simp only [Cover] at h
    rcases List.mem_cons.mp hc with e | e
    · subst e
      simp only
      rw [Nat.add_mul]
      omega
    · exact ih _ _ h.2.2.2 c e

/-- the blocks of a cover are distinct levels, strictly decreasing (so a cover has at most 63 blocks…) -/
theorem cover_head_lt : ∀ cs lo hi l k, Cover ((l, k) :: cs) lo hi → ∀ c ∈ cs, c.1 < l := by
  intro cs
  induction cs with
  | nil => intro lo hi l k _ c hc; simp at hc
  | cons c0 cs ih =>
    intro lo hi l k h c hc
    obtain ⟨l', k'⟩ := c0
    have h' := h
    simp only [Cover] at h
    obtain ⟨_, _, h3, _, h5, h6, h7⟩ := h
    have hl : l' < l := by
      apply Nat.lt_of_not_le
      intro hge
      have := Nat.pow_le_pow_right (n := 2) (by omega) hge
      rw [Nat.pow_succ] at h3
      omega
    rcases List.mem_cons.mp hc with e | e
    · subst e; exact hl
    · have := ih (lo + 2 ^ l) hi l' k' (by simp only [Cover]; exact ⟨by assumption, h5, h6, h7⟩) c e
      omega

section
variable {H : Type} (node : H → H → H) (empty : H)

/-- folding the hashes of a cover of `[lo, hi)` from right to left gives `MTH(D[lo:hi])` -/
theorem mth_cover (D : List H) : ∀ cs lo hi, Cover cs lo hi → lo < hi → hi ≤ D.length →
    foldR node (cs.map fun c => mth node empty (leavesOf D c.1 c.2)) = some (mth node empty (slice D lo hi)) := by
  intro cs
  induction cs with
  | nil => intro lo hi h hlt _; simp [Cover] at h; omega
  | cons c cs ih =>
    intro lo hi h hlt hhi
    obtain ⟨l, k⟩ := c
    simp only [Cover] at h
    obtain ⟨h1, h2, h3, h4⟩ := h
    cases cs with
    | nil =>
      simp only [Cover] at h4
      simp only [List.map_cons, List.map_nil, foldR]
      rw [leavesOf_eq_slice, Nat.add_mul, h1, Nat.one_mul, h4]
    | cons c' cs' =>
      have hlt' : lo + 2 ^ l < hi := by
        obtain ⟨l', k'⟩ := c'
        simp only [Cover] at h4
        have := Nat.two_pow_pos l'
        omega
      have ih' := ih (lo + 2 ^ l) hi h4 hlt' hhi
      simp only [List.map_cons] at ih' ⊢
      simp only [foldR]
      rw [ih']
      simp only [Option.map_some]
      congr 1
      have hp := Nat.two_pow_pos l
      rw [mth_slice_split node empty D lo (lo + 2 ^ l) hi (by omega) hlt' hhi
        (by rw [splitPoint_eq (hi - lo) l (by omega) (by omega)]; omega)]
      rw [leavesOf_eq_slice, Nat.add_mul, h1, Nat.one_mul]

end

/-! ### subTreeIndex and numTree compute a cover -/

/-- `[lo, hi)` is inside one aligned block: `lo` is a multiple of a power of two that is at least `hi - lo`.
    (`lo = 0`, and every interval the proof recursions of C03 pass down, is of this form.) -/
def Aligned (lo hi : Nat) : Prop := ∃ j, 2 ^ j ∣ lo ∧ hi - lo ≤ 2 ^ j

theorem aligned_zero (hi : Nat) : Aligned 0 hi := ⟨hi, Nat.dvd_zero _, by
  have := Nat.lt_two_pow_self (n := hi); omega⟩

theorem subTreeIndexF_spec : ∀ f lo hi, hi - lo ≤ f → lo ≤ hi → Aligned lo hi → hi < 2 ^ 63 →
    ∃ cs : List (Nat × Nat),
      subTreeIndexF f lo hi = .ok (cs.map fun c => storedHashIndex c.1 c.2) ∧
      numTreeF f lo hi = .ok cs.length ∧ Cover cs lo hi := by
  intro f
  induction f with
  | zero =>
    intro lo hi h1 h2 _ _
    have : ¬ lo < hi := by omega
    exact ⟨[], by simp [subTreeIndexF, this], by simp [numTreeF, this], by simp [Cover]; omega⟩
  | succ f ih =>
    intro lo hi h1 h2 hal hr
    by_cases hlt : lo < hi
    · unfold subTreeIndexF numTreeF
      simp only [hlt, ↓reduceIte]
      generalize hmp : maxpow2 (hi - lo + 1) = kl
      obtain ⟨k, level⟩ := kl
      obtain ⟨hk1, hk2, hk3⟩ := maxpow2_range (hi - lo + 1) k level (by omega) (by omega) hmp
      obtain ⟨j, hj1, hj2⟩ := hal
      have hp := Nat.two_pow_pos level
      have hlev : level ≤ j := by
        apply Nat.le_of_not_lt
        intro hc
        have := Nat.pow_le_pow_right (n := 2) (by omega) hc
        rw [Nat.pow_succ] at this
        omega
      have hdvd : 2 ^ level ∣ lo := Nat.dvd_trans (Nat.pow_dvd_pow 2 hlev) hj1
      have hand : lo &&& (k - 1) = 0 := by
        rw [hk1, Nat.and_two_pow_sub_one_eq_mod]
        exact Nat.mod_eq_zero_of_dvd hdvd
      have hal' : Aligned (lo + k) hi :=
        ⟨level, by rw [hk1]; exact Nat.dvd_add hdvd (Nat.dvd_refl _), by omega⟩
      obtain ⟨cs, c1, c2, c3⟩ := ih (lo + k) hi (by omega) (by omega) hal' hr
      refine ⟨(level, lo >>> level) :: cs, ?_, ?_, ?_⟩
      · simp only [hand, bne_self_eq_false, Bool.false_eq_true, ↓reduceIte, c1, bind, Except.bind, pure,
          Except.pure, List.map_cons]
      · have : ¬ lo ≥ hi := by omega
        simp only [hand, bne_self_eq_false, this, decide_false, Bool.or_self, Bool.false_eq_true, ↓reduceIte, c2,
          bind, Except.bind, pure, Except.pure, List.length_cons]
      · simp only [Cover]
        rw [Nat.shiftRight_eq_div_pow, Nat.div_mul_cancel hdvd, ← hk1]
        refine ⟨rfl, by omega, by rw [Nat.pow_succ]; omega, c3⟩
    · have : lo = hi := by omega
      exact ⟨[], by simp [subTreeIndexF, hlt], by simp [numTreeF, hlt], by simp [Cover]; omega⟩

/-- ★ `subTreeIndex lo hi` = the stored-hash positions of the cover of `[lo, hi)`; no panic, no fuel exhaustion -/
theorem subTreeIndex_spec (lo hi : Nat) (hle : lo ≤ hi) (hal : Aligned lo hi) (hr : hi < 2 ^ 63) :
    ∃ cs : List (Nat × Nat),
      subTreeIndex lo hi = .ok (cs.map fun c => storedHashIndex c.1 c.2) ∧
      numTreeF (hi - lo) lo hi = .ok cs.length ∧ Cover cs lo hi :=
  subTreeIndexF_spec (hi - lo) lo hi (Nat.le_refl _) hle hal hr

section
variable {H : Type} (node : H → H → H) (empty : H)

/-- `subTreeHash lo hi` consumes exactly the hashes of the cover and returns `MTH(D[lo:hi])` -/
theorem subTreeHash_cover (D : List H) (cs : List (Nat × Nat)) (lo hi : Nat) (hc : Cover cs lo hi)
    (hlt : lo < hi) (hhi : hi ≤ D.length) (hn : numTreeF (hi - lo) lo hi = .ok cs.length) (rest : List H) :
    subTreeHash node lo hi ((cs.map fun c => mth node empty (leavesOf D c.1 c.2)) ++ rest) =
      .ok (mth node empty (slice D lo hi), rest) := by
  unfold subTreeHash
  simp only [hn, bind, Except.bind]
  have hlen : ¬ ((cs.map fun c => mth node empty (leavesOf D c.1 c.2)) ++ rest).length < cs.length := by
    simp
  simp only [hlen, ↓reduceIte]
  have htake : ((cs.map fun c => mth node empty (leavesOf D c.1 c.2)) ++ rest).take cs.length =
      cs.map fun c => mth node empty (leavesOf D c.1 c.2) := by
    rw [List.take_append_of_le_length (by simp), List.take_of_length_le (by simp)]
  have hdrop : ((cs.map fun c => mth node empty (leavesOf D c.1 c.2)) ++ rest).drop cs.length = rest := by
    rw [List.drop_append_of_le_length (by simp), List.drop_of_length_le (by simp)]; simp
  rw [htake, hdrop, foldRight_reverse, mth_cover node empty D cs lo hi hc hlt hhi]

end

/-! ### TreeHash -/

section
variable {H : Type} (leaf : Bytes → H) (node : H → H → H) (empty : H)

/-- ★ over a store satisfying the invariant, `TreeHash(m)` is the RFC 6962 tree hash of the first `m` records -/
theorem treeHash_of_storeOK (D : List Bytes) (st : List H) (hok : StoreOK leaf node empty D st) (m : Nat)
    (hm : m ≤ D.length) (hr : m < 2 ^ 63) :
    treeHash node empty m (storeReader st) = .ok (mth node empty ((D.map leaf).take m)) := by
  unfold treeHash
  by_cases h0 : m = 0
  · subst h0; simp
  · have hne : (m == 0) = false := by simpa using h0
    simp only [hne, Bool.false_eq_true, ↓reduceIte]
    obtain ⟨cs, c1, c2, c3⟩ := subTreeIndex_spec 0 m (Nat.zero_le _) (aligned_zero m) hr
    have hread := readChecked_store st (fun c : Nat × Nat => storedHashIndex c.1 c.2)
      (fun c => mth node empty (leavesOf (D.map leaf) c.1 c.2)) cs (by
        intro c hc
        exact storeOK_get leaf node empty D st hok c.1 c.2 (Nat.le_trans (cover_bound cs 0 m c3 c hc) hm))
    have hsth := subTreeHash_cover node empty (D.map leaf) cs 0 m c3 (by omega) (by simpa using hm)
      (by simpa using c2) []
    rw [List.append_nil] at hsth
    simp only [c1, hread, hsth, bind, Except.bind, pure, Except.pure]
    simp [slice_zero]

end
end ModVerif.TlogStore
