/-
  Helper lemmas for Tie/FnEditSort.lean (part D): `sort.SliceStable` of a block's line pointers with a comparator that reads
  the heap (`GoRt.sortStableW`) against the model's `stableSort` / `insertLine`; the block loop of `File.SortBlocks` /
  `WorkFile.SortBlocks` against `sortStmts`.
-/
import ModVerif.Proofs.TieFnEditSortC
import ModVerif.Tie.FnEditTree
set_option linter.unusedSimpArgs false
set_option linter.unusedVariables false
namespace ModVerif.Tie.FnEditSortD
open ModVerif ModVerif.GoRt ModVerif.Generated.Edit ModVerif.Tie.FnEditRep ModVerif.Tie.FnEditSortA ModVerif.Tie.FnEditSortB
  ModVerif.Tie.FnEditSortC
open ModVerif.Modfile.Edit (treeIds insertLine stableSort sortStmts headIs)

/-! ### the sort -/

theorem mem_insertLine (less : List Bytes → List Bytes → Bool) (x : Modfile.Line) :
    ∀ (l : List Modfile.Line) (y : Modfile.Line), y ∈ insertLine less x l → y = x ∨ y ∈ l
  | [], y, hy => by simp only [insertLine, List.mem_singleton] at hy; exact Or.inl hy
  | z :: zs, y, hy => by
    simp only [insertLine] at hy
    split at hy
    · rcases List.mem_cons.1 hy with rfl | hy
      · exact Or.inr List.mem_cons_self
      · rcases mem_insertLine less x zs y hy with h | h
        · exact Or.inl h
        · exact Or.inr (List.mem_cons_of_mem _ h)
    · rcases List.mem_cons.1 hy with rfl | hy
      · exact Or.inl rfl
      · exact Or.inr hy

theorem mem_stableSort (less : List Bytes → List Bytes → Bool) : ∀ (l : List Modfile.Line) (y : Modfile.Line),
    y ∈ stableSort less l → y ∈ l
  | [], y, hy => by simp [stableSort] at hy
  | x :: xs, y, hy => by
    have : stableSort less (x :: xs) = insertLine less x (stableSort less xs) := rfl
    rw [this] at hy
    rcases mem_insertLine less x _ y hy with rfl | h
    · exact List.mem_cons_self
    · exact List.mem_cons_of_mem _ (mem_stableSort less xs y h)

section sort
variable (lessW : Int → Int → Heap → M (Bool × Heap)) (less : List Bytes → List Bytes → Bool) (h : Heap)
  (P : Modfile.Line → Prop)
  (hless : ∀ (p q : Int) (a b : Modfile.Line), RLine h p a → RLine h q b → P a → P b → lessW p q h = .ok (less a.token b.token, h))
include hless

theorem insertStableW_spec {x : Int} {xl : Modfile.Line} (rx : RLine h x xl) (px : P xl) :
    ∀ {r : List Int} {rs : List Modfile.Line}, RLines h r rs → (∀ l ∈ rs, P l) →
      ∃ r', insertStableW lessW x r h = .ok (r', h) ∧ RLines h r' (insertLine less xl rs)
  | [], [], _, _ => ⟨[x], rfl, ⟨rx, trivial⟩⟩
  | y :: ys, l :: ls, rr, hp => by
    have hl := hless y x l xl rr.1 rx (hp l List.mem_cons_self) px
    simp only [insertStableW, hl, bind, Except.bind, insertLine]
    cases hc : less l.token xl.token
    · exact ⟨x :: y :: ys, rfl, ⟨rx, rr⟩⟩
    · obtain ⟨r', e1, e2⟩ := insertStableW_spec rx px rr.2 (fun m hm => hp m (List.mem_cons_of_mem _ hm))
      refine ⟨y :: r', ?_, ⟨rr.1, e2⟩⟩
      simp only [if_true, e1]; rfl
  | [], _ :: _, rr, _ => rr.elim
  | _ :: _, [], rr, _ => rr.elim

theorem sortStableW_spec : ∀ {ps : List Int} {ls : List Modfile.Line}, RLines h ps ls → (∀ l ∈ ls, P l) →
      ∃ ps', sortStableW lessW ps h = .ok (ps', h) ∧ RLines h ps' (stableSort less ls)
  | [], [], _, _ => ⟨[], rfl, trivial⟩
  | p :: ps, l :: ls, rr, hp => by
    obtain ⟨r, e1, e2⟩ := sortStableW_spec rr.2 (fun m hm => hp m (List.mem_cons_of_mem _ hm))
    obtain ⟨r', e3, e4⟩ := insertStableW_spec lessW less h P hless rr.1 (hp l List.mem_cons_self) e2
      (fun m hm => hp m (List.mem_cons_of_mem _ (mem_stableSort less ls m hm)))
    refine ⟨r', ?_, e4⟩
    simp only [sortStableW, e1, bind, Except.bind, e3]
  | [], _ :: _, rr, _ => rr.elim
  | _ :: _, [], rr, _ => rr.elim

end sort

/-! ### fuel of the comparators -/

/-- enough fuel for any of the three comparators on a line with these tokens -/
def tokFuel (t : List Bytes) : Nat := 2 * (t.map List.length).sum + t.length + 1

theorem length_le_sum_of_mem {t : List Bytes} {x : Bytes} (hx : x ∈ t) : x.length ≤ (t.map List.length).sum := by
  induction t with
  | nil => cases hx
  | cons a t ih =>
    rcases List.mem_cons.1 hx with rfl | hx
    · simp
    · have := ih hx; simp; omega

theorem getD_length_le (t : List Bytes) (i : Nat) : (t.getD i []).length ≤ (t.map List.length).sum := by
  by_cases hi : i < t.length
  · have : t.getD i [] = t[i] := by simp [List.getD, hi]
    rw [this]; exact length_le_sum_of_mem (List.getElem_mem hi)
  · have : t.getD i [] = [] := by simp [List.getD, List.getElem?_eq_none (Nat.le_of_not_lt hi)]
    rw [this]; simp

theorem retract_low_le (t : List Bytes) : (Modfile.Edit.retractInterval t).low.length ≤ (t.map List.length).sum := by
  unfold Modfile.Edit.retractInterval
  split
  · simp
  · split <;> simp <;> omega
  · simp

theorem retract_high_le (t : List Bytes) : (Modfile.Edit.retractInterval t).high.length ≤ (t.map List.length).sum := by
  unfold Modfile.Edit.retractInterval
  split
  · simp
  · split <;> simp <;> omega
  · simp

/-- the three comparators (wrapped as `File_SortBlocks_loop1` wraps them) on represented lines -/
theorem wrapLess_ok {h : Heap} {F : Nat} {p q : Int} {a b : Modfile.Line} (ra : RLine h p a) (rb : RLine h q b)
    (fa : tokFuel a.token ≤ F) (fb : tokFuel b.token ≤ F) :
    lineLess F p q h = .ok (Modfile.Edit.lineLess a.token b.token, h) ∧
    lineExcludeLess F p q h = .ok (Modfile.Edit.lineExcludeLess a.token b.token, h) ∧
    lineRetractLess F p q h = .ok (Modfile.Edit.lineRetractLess a.token b.token, h) := by
  unfold tokFuel at fa fb
  refine ⟨?_, ?_, ?_⟩
  · exact FnEditTree.lineLess_tie F ra.1 rb.1 (by simp only [lineG_Token]; omega)
  · refine FnEditTree.lineExcludeLess_tie F ra.1 rb.1 (by simp only [lineG_Token]; omega) ?_
    simp only [lineG_Token]
    have := getD_length_le a.token 1; have := getD_length_le b.token 1; omega
  · refine FnEditTree.lineRetractLess_tie F ra.1 rb.1 ?_ ?_ <;> simp only [lineG_Token]
    · have := retract_low_le a.token; have := retract_low_le b.token; omega
    · have := retract_high_le a.token; have := retract_high_le b.token; omega

/-- comparator fuel of a statement list: the sum over all lines (every single line is below it) -/
def cmpSize : List Modfile.Expr → Nat
  | [] => 0
  | .lineBlock b :: xs => (b.lines.map fun l => tokFuel l.token).sum + cmpSize xs
  | _ :: xs => cmpSize xs

theorem le_sum_map {α : Type} (f : α → Nat) : ∀ {l : List α} {x : α}, x ∈ l → f x ≤ (l.map f).sum
  | a :: l, x, hx => by
    rcases List.mem_cons.1 hx with rfl | hx
    · simp
    · have := le_sum_map f hx; simp; omega

/-- the model's choice of the comparator of a go.mod block -/
def modLess (useSem : Bool) (tok : List Bytes) : List Bytes → List Bytes → Bool :=
  if headIs tok (B "exclude") && useSem then Modfile.Edit.lineExcludeLess
  else if headIs tok (B "retract") then Modfile.Edit.lineRetractLess
  else Modfile.Edit.lineLess

theorem sortStmts_cons_block (useSem : Bool) (b : Modfile.LineBlock) (ss : List Modfile.Expr) :
    sortStmts useSem false (.lineBlock b :: ss) =
      .lineBlock { b with lines := stableSort (modLess useSem b.token) b.lines } :: sortStmts useSem false ss := by
  simp only [sortStmts, List.map_cons, modLess, Bool.false_eq_true, if_false]

theorem sortStmts_cons_line (useSem work : Bool) (l : Modfile.Line) (ss : List Modfile.Expr) :
    sortStmts useSem work (.line l :: ss) = .line l :: sortStmts useSem work ss := rfl

theorem sortStmts_cons_cb (useSem work : Bool) (c : Modfile.CommentBlock) (ss : List Modfile.Expr) :
    sortStmts useSem work (.commentBlock c :: ss) = .commentBlock c :: sortStmts useSem work ss := rfl

theorem sortStmts_work_cons_block (useSem : Bool) (b : Modfile.LineBlock) (ss : List Modfile.Expr) :
    sortStmts useSem true (.lineBlock b :: ss) =
      .lineBlock { b with lines := stableSort Modfile.Edit.lineLess b.lines } :: sortStmts useSem true ss := by
  simp only [sortStmts, List.map_cons, if_true]

theorem B_exclude : B "exclude" = [101, 120, 99, 108, 117, 100, 101] := by decide +kernel
theorem B_retract : B "retract" = [114, 101, 116, 114, 97, 99, 116] := by decide +kernel

theorem headIs_cons (t0 : Bytes) (ts : List Bytes) (x : Bytes) : headIs (t0 :: ts) x = decide (t0 = x) := by
  by_cases h : t0 = x <;> simp [headIs, h]

/-- one block: sort its line pointers and store them -/
theorem sortBlock_run {h : Heap} {p : Int} {b : Modfile.LineBlock} {ps : List Int} (hb : heapGet h.blocks p = .ok (blockG b ps))
    (rl : RLines h ps b.lines) (F : Nat) (hF : ∀ l ∈ b.lines, tokFuel l.token ≤ F)
    (lessW : Int → Int → Heap → M (Bool × Heap)) (less : List Bytes → List Bytes → Bool)
    (hless : ∀ (p q : Int) (a b : Modfile.Line), RLine h p a → RLine h q b → tokFuel a.token ≤ F → tokFuel b.token ≤ F →
      lessW p q h = .ok (less a.token b.token, h)) :
    ∃ ps', sortStableW lessW ps h = .ok (ps', h) ∧ RLines h ps' (stableSort less b.lines) :=
  sortStableW_spec lessW less h (fun l => tokFuel l.token ≤ F) hless rl hF

/-- **the block loop of `File.SortBlocks` is `sortStmts`** -/
theorem sortLoop_spec (f : Int) (useSem : Bool) :
    ∀ (rest : List Expr) (ss : List Modfile.Expr) (pre rx : List Expr) (ri : Int) (fuel : Nat) (h : Heap),
      rx = pre ++ rest → ri = (pre.length : Int) → ss.length + cmpSize ss < fuel → RStmts h rest ss → (blockPtrs rest).Nodup →
      BlockTokOK ss →
      ∃ bl', File_SortBlocks_loop1 rx f useSem fuel ri h = .ok (len rx, { h with blocks := bl' }) ∧
        bl'.length = h.blocks.length ∧ (∀ p, p ∉ blockPtrs rest → heapGet bl' p = heapGet h.blocks p) ∧
        RStmts { h with blocks := bl' } rest (sortStmts useSem false ss)
  | [], [], pre, rx, ri, fuel + 1, h, hrx, hri, _, _, _, _ => by
    subst hrx hri
    have := not_lt_len_end pre
    refine ⟨h.blocks, ?_, rfl, fun _ _ => rfl, trivial⟩
    simp [File_SortBlocks_loop1, this, pure, Except.pure, len_eq]
  | e :: rest, s :: ss, pre, rx, ri, fuel + 1, h, hrx, hri, hf, r, hnd, htok => by
    have ih := sortLoop_spec f useSem rest ss (pre ++ [e]) rx (ri + 1) fuel
    subst hrx hri
    have hrx' : pre ++ e :: rest = pre ++ [e] ++ rest := by simp
    have hri' : (pre.length : Int) + 1 = ((pre ++ [e]).length : Int) := by simp
    have htok' : BlockTokOK ss := fun b hb => htok b (List.mem_cons_of_mem _ hb)
    have r1 := r.1
    cases e <;> cases s <;> simp only [RExpr] at r1 <;> try exact r1.elim
    · -- comment block
      rename_i p c
      have hf' : ss.length + cmpSize ss < fuel := by simp only [cmpSize, List.length_cons] at hf; omega
      obtain ⟨bl', e1, e2, e3, e4⟩ := ih h hrx' hri' hf' r.2 hnd htok'
      refine ⟨bl', ?_, e2, e3, ⟨r1, e4⟩⟩
      simp only [File_SortBlocks_loop1, lt_len_cursor, decide_true, if_true, idxL_cursor, bind, Except.bind, e1]
      simp
    · rename_i p l
      have hf' : ss.length + cmpSize ss < fuel := by simp only [cmpSize, List.length_cons] at hf; omega
      obtain ⟨bl', e1, e2, e3, e4⟩ := ih h hrx' hri' hf' r.2 hnd htok'
      refine ⟨bl', ?_, e2, e3, ⟨RLine.mono (h := h) (h' := { h with blocks := bl' }) (fun _ _ x => x) r1, e4⟩⟩
      simp only [File_SortBlocks_loop1, lt_len_cursor, decide_true, if_true, idxL_cursor, bind, Except.bind, e1]
      simp
    · rename_i p b
      obtain ⟨ps, r2, r3⟩ := r1
      have hf' : ss.length + cmpSize ss < fuel := by simp only [cmpSize, List.length_cons] at hf; omega
      have hF : ∀ l ∈ b.lines, tokFuel l.token ≤ fuel := by
        intro l hl
        have := le_sum_map (fun l : Modfile.Line => tokFuel l.token) hl
        simp only [cmpSize, List.length_cons] at hf; omega
      rw [blockPtrs_cons_block, List.nodup_cons] at hnd
      obtain ⟨t0, ts, htk⟩ := List.exists_cons_of_ne_nil (htok b List.mem_cons_self)
      -- what happens after the sort, for any sorted pointer list
      have fin : ∀ ps', RLines h ps' (stableSort (modLess useSem b.token) b.lines) →
          ∃ bl', File_SortBlocks_loop1 (pre ++ Expr.LineBlock p :: rest) f useSem fuel ((pre.length : Int) + 1)
              { h with blocks := h.blocks.set (p.toNat - 1) ({ (blockG b ps) with Line := ps' } : LineBlock) } =
              .ok (len (pre ++ Expr.LineBlock p :: rest), { h with blocks := bl' }) ∧
            bl'.length = h.blocks.length ∧
            (∀ q, q ∉ blockPtrs (Expr.LineBlock p :: rest) → heapGet bl' q = heapGet h.blocks q) ∧
            RStmts { h with blocks := bl' } (Expr.LineBlock p :: rest) (sortStmts useSem false (Modfile.Expr.lineBlock b :: ss)) := by
        intro ps' rl'
        have rrest : RStmts { h with blocks := h.blocks.set (p.toNat - 1) ({ (blockG b ps) with Line := ps' } : LineBlock) } rest ss := by
          refine RStmts.blocksFrame r.2 (fun q hq => ?_)
          exact heapGet_listSet_other _ r2 (fun e => hnd.1 (e ▸ hq))
        obtain ⟨bl', e1, e2, e3, e4⟩ := ih _ hrx' hri' hf' rrest hnd.2 htok'
        refine ⟨bl', e1, by rw [e2]; simp, ?_, ?_⟩
        · intro q hq
          rw [blockPtrs_cons_block, List.mem_cons, not_or] at hq
          rw [e3 q hq.2]
          exact heapGet_listSet_other _ r2 hq.1
        · rw [sortStmts_cons_block]
          refine ⟨⟨ps', ?_, RLines.blocks bl' rl'⟩, e4⟩
          show heapGet bl' p = _
          rw [e3 p hnd.1]
          exact heapGet_listSet_same _ r2
      simp only [File_SortBlocks_loop1, lt_len_cursor, decide_true, if_true, idxL_cursor, bind, Except.bind, r2, blockG_Token, htk,
        idxL_zero_cons, Bool.not_true, Bool.false_eq_true, if_false, blockG_Line]
      have hw : ∀ (cmp : Int → Int → Heap → M (Bool × Heap)) (less : List Bytes → List Bytes → Bool),
          (∀ (p q : Int) (a b : Modfile.Line), RLine h p a → RLine h q b → tokFuel a.token ≤ fuel → tokFuel b.token ≤ fuel →
            cmp p q h = .ok (less a.token b.token, h)) →
          ∃ ps', sortStableW (fun sa sb world => Except.bind (cmp sa sb world) (fun v => pure (v.fst, v.snd))) ps h = .ok (ps', h) ∧
            RLines h ps' (stableSort less b.lines) := by
        intro cmp less hc
        exact sortBlock_run r2 r3 fuel hF _ less (fun p q a b ra rb fa fb => by simp only [hc p q a b ra rb fa fb]; rfl)
      by_cases c1 : (decide (t0 = [101, 120, 99, 108, 117, 100, 101]) && useSem) = true
      · have hm : modLess useSem b.token = Modfile.Edit.lineExcludeLess := by
          simp only [modLess, htk, headIs_cons, B_exclude, c1, if_true]
        obtain ⟨ps', hs, rl'⟩ := hw (lineExcludeLess fuel) _ (fun p q a b ra rb fa fb => (wrapLess_ok ra rb fa fb).2.1)
        simp only [Except.bind] at hs
        simp only [c1, if_true, hs, r2, heapSet_of_get _ r2]
        exact fin ps' (hm ▸ rl')
      · by_cases c2 : decide (t0 = [114, 101, 116, 114, 97, 99, 116]) = true
        · have hm : modLess useSem b.token = Modfile.Edit.lineRetractLess := by
            simp only [modLess, htk, headIs_cons, B_exclude, B_retract, c1, c2, if_true, Bool.false_eq_true, if_false]
          obtain ⟨ps', hs, rl'⟩ := hw (lineRetractLess fuel) _ (fun p q a b ra rb fa fb => (wrapLess_ok ra rb fa fb).2.2)
          simp only [Except.bind] at hs
          simp only [c1, c2, if_true, Bool.false_eq_true, if_false, hs, r2, heapSet_of_get _ r2]
          exact fin ps' (hm ▸ rl')
        · have hm : modLess useSem b.token = Modfile.Edit.lineLess := by
            simp only [modLess, htk, headIs_cons, B_exclude, B_retract, c1, c2, if_true, Bool.false_eq_true, if_false]
          obtain ⟨ps', hs, rl'⟩ := hw (lineLess fuel) _ (fun p q a b ra rb fa fb => (wrapLess_ok ra rb fa fb).1)
          simp only [Except.bind] at hs
          simp only [c1, c2, if_true, Bool.false_eq_true, if_false, hs, r2, heapSet_of_get _ r2]
          exact fin ps' (hm ▸ rl')
  | [], _ :: _, _, _, _, _, _, _, _, _, r, _, _ => r.elim
  | _ :: _, [], _, _, _, _, _, _, _, _, r, _, _ => r.elim
  | _, _, _, _, _, 0, _, _, _, hf, _, _, _ => by cases hf

/-- **the block loop of `WorkFile.SortBlocks` is `sortStmts … true`** -/
theorem workSortLoop_spec (f : Int) (useSem : Bool) :
    ∀ (rest : List Expr) (ss : List Modfile.Expr) (pre rx : List Expr) (ri : Int) (fuel : Nat) (h : Heap),
      rx = pre ++ rest → ri = (pre.length : Int) → ss.length + cmpSize ss < fuel → RStmts h rest ss → (blockPtrs rest).Nodup →
      BlockTokOK ss →
      ∃ bl', WorkFile_SortBlocks_loop1 rx f fuel ri h = .ok (len rx, { h with blocks := bl' }) ∧
        bl'.length = h.blocks.length ∧ (∀ p, p ∉ blockPtrs rest → heapGet bl' p = heapGet h.blocks p) ∧
        RStmts { h with blocks := bl' } rest (sortStmts useSem true ss)
  | [], [], pre, rx, ri, fuel + 1, h, hrx, hri, _, _, _, _ => by
    subst hrx hri
    have := not_lt_len_end pre
    refine ⟨h.blocks, ?_, rfl, fun _ _ => rfl, trivial⟩
    simp [WorkFile_SortBlocks_loop1, this, pure, Except.pure, len_eq]
  | e :: rest, s :: ss, pre, rx, ri, fuel + 1, h, hrx, hri, hf, r, hnd, htok => by
    have ih := workSortLoop_spec f useSem rest ss (pre ++ [e]) rx (ri + 1) fuel
    subst hrx hri
    have hrx' : pre ++ e :: rest = pre ++ [e] ++ rest := by simp
    have hri' : (pre.length : Int) + 1 = ((pre ++ [e]).length : Int) := by simp
    have htok' : BlockTokOK ss := fun b hb => htok b (List.mem_cons_of_mem _ hb)
    have r1 := r.1
    cases e <;> cases s <;> simp only [RExpr] at r1 <;> try exact r1.elim
    · -- comment block
      rename_i p c
      have hf' : ss.length + cmpSize ss < fuel := by simp only [cmpSize, List.length_cons] at hf; omega
      obtain ⟨bl', e1, e2, e3, e4⟩ := ih h hrx' hri' hf' r.2 hnd htok'
      refine ⟨bl', ?_, e2, e3, ⟨r1, e4⟩⟩
      simp only [WorkFile_SortBlocks_loop1, lt_len_cursor, decide_true, if_true, idxL_cursor, bind, Except.bind, e1]
      simp
    · rename_i p l
      have hf' : ss.length + cmpSize ss < fuel := by simp only [cmpSize, List.length_cons] at hf; omega
      obtain ⟨bl', e1, e2, e3, e4⟩ := ih h hrx' hri' hf' r.2 hnd htok'
      refine ⟨bl', ?_, e2, e3, ⟨RLine.mono (h := h) (h' := { h with blocks := bl' }) (fun _ _ x => x) r1, e4⟩⟩
      simp only [WorkFile_SortBlocks_loop1, lt_len_cursor, decide_true, if_true, idxL_cursor, bind, Except.bind, e1]
      simp
    · rename_i p b
      obtain ⟨ps, r2, r3⟩ := r1
      have hf' : ss.length + cmpSize ss < fuel := by simp only [cmpSize, List.length_cons] at hf; omega
      have hF : ∀ l ∈ b.lines, tokFuel l.token ≤ fuel := by
        intro l hl
        have := le_sum_map (fun l : Modfile.Line => tokFuel l.token) hl
        simp only [cmpSize, List.length_cons] at hf; omega
      rw [blockPtrs_cons_block, List.nodup_cons] at hnd
      obtain ⟨t0, ts, htk⟩ := List.exists_cons_of_ne_nil (htok b List.mem_cons_self)
      -- what happens after the sort, for any sorted pointer list
      have fin : ∀ ps', RLines h ps' (stableSort Modfile.Edit.lineLess b.lines) →
          ∃ bl', WorkFile_SortBlocks_loop1 (pre ++ Expr.LineBlock p :: rest) f fuel ((pre.length : Int) + 1)
              { h with blocks := h.blocks.set (p.toNat - 1) ({ (blockG b ps) with Line := ps' } : LineBlock) } =
              .ok (len (pre ++ Expr.LineBlock p :: rest), { h with blocks := bl' }) ∧
            bl'.length = h.blocks.length ∧
            (∀ q, q ∉ blockPtrs (Expr.LineBlock p :: rest) → heapGet bl' q = heapGet h.blocks q) ∧
            RStmts { h with blocks := bl' } (Expr.LineBlock p :: rest) (sortStmts useSem true (Modfile.Expr.lineBlock b :: ss)) := by
        intro ps' rl'
        have rrest : RStmts { h with blocks := h.blocks.set (p.toNat - 1) ({ (blockG b ps) with Line := ps' } : LineBlock) } rest ss := by
          refine RStmts.blocksFrame r.2 (fun q hq => ?_)
          exact heapGet_listSet_other _ r2 (fun e => hnd.1 (e ▸ hq))
        obtain ⟨bl', e1, e2, e3, e4⟩ := ih _ hrx' hri' hf' rrest hnd.2 htok'
        refine ⟨bl', e1, by rw [e2]; simp, ?_, ?_⟩
        · intro q hq
          rw [blockPtrs_cons_block, List.mem_cons, not_or] at hq
          rw [e3 q hq.2]
          exact heapGet_listSet_other _ r2 hq.1
        · rw [sortStmts_work_cons_block]
          refine ⟨⟨ps', ?_, RLines.blocks bl' rl'⟩, e4⟩
          show heapGet bl' p = _
          rw [e3 p hnd.1]
          exact heapGet_listSet_same _ r2
      simp only [WorkFile_SortBlocks_loop1, lt_len_cursor, decide_true, if_true, idxL_cursor, bind, Except.bind, r2, blockG_Token, htk,
        idxL_zero_cons, Bool.not_true, Bool.false_eq_true, if_false, blockG_Line]
      have hw : ∀ (cmp : Int → Int → Heap → M (Bool × Heap)) (less : List Bytes → List Bytes → Bool),
          (∀ (p q : Int) (a b : Modfile.Line), RLine h p a → RLine h q b → tokFuel a.token ≤ fuel → tokFuel b.token ≤ fuel →
            cmp p q h = .ok (less a.token b.token, h)) →
          ∃ ps', sortStableW (fun sa sb world => Except.bind (cmp sa sb world) (fun v => pure (v.fst, v.snd))) ps h = .ok (ps', h) ∧
            RLines h ps' (stableSort less b.lines) := by
        intro cmp less hc
        exact sortBlock_run r2 r3 fuel hF _ less (fun p q a b ra rb fa fb => by simp only [hc p q a b ra rb fa fb]; rfl)
      obtain ⟨ps', hs, rl'⟩ := hw (lineLess fuel) _ (fun p q a b ra rb fa fb => (wrapLess_ok ra rb fa fb).1)
      simp only [Except.bind] at hs
      simp only [hs, r2, heapSet_of_get _ r2]
      exact fin ps' rl'
  | [], _ :: _, _, _, _, _, _, _, _, _, r, _, _ => r.elim
  | _ :: _, [], _, _, _, _, _, _, _, _, r, _, _ => r.elim
  | _, _, _, _, _, 0, _, _, _, hf, _, _, _ => by cases hf

end ModVerif.Tie.FnEditSortD
