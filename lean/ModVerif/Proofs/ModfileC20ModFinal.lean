/-
  C20 `modulePath_agrees_partial`: assembly.  Facts about valid import paths and about quoted tokens, the
  source line of the module directive, and the final theorem.
-/
import ModVerif.Proofs.ModulePath
import ModVerif.Proofs.ModfileC20ModStr
import ModVerif.Proofs.ModfileC20ModTree
import ModVerif.Proofs.ModfileC20Unquote
namespace ModVerif.Proofs.ModfileC20
open ModVerif ModVerif.Modfile ModVerif.Proofs.ModfileLex ModVerif.Proofs.ModfileC20Utf8

/-! ### valid import paths -/

theorem hasDoubleSlash_of_infix : ∀ (p : Bytes), [47, 47] <:+: p → Module.hasDoubleSlash p = true := by
  intro p
  induction p with
  | nil => rintro ⟨a, b, h⟩; simp at h
  | cons c rest ih =>
    rintro ⟨a, b, h⟩
    cases a with
    | nil =>
      simp only [List.nil_append, List.cons_append, List.cons.injEq] at h
      obtain ⟨rfl, h⟩ := h
      cases rest with
      | nil => simp at h
      | cons d rest' =>
        simp only [List.cons.injEq] at h
        obtain ⟨rfl, _⟩ := h
        rfl
    | cons x a' =>
      simp only [List.cons_append, List.cons.injEq] at h
      have hrest : [47, 47] <:+: rest := ⟨a', b, by simpa using h.2⟩
      have := ih hrest
      unfold Module.hasDoubleSlash
      split
      · rfl
      · rename_i heq; cases heq; exact this
      · rename_i heq; cases heq

structure PathFacts (p : Bytes) : Prop where
  ne : p ≠ []
  bytes : ∀ b ∈ p, b = 47 ∨ Module.importPathOK b.toNat = true
  noSlashes : ¬ [47, 47] <:+: p
  head : p.head? ≠ some 47
  last : p.getLast? ≠ some 47

theorem importPath_facts (p : Bytes) (h : Module.checkImportPath p = .ok ()) : PathFacts p := by
  have h1 := (Module.checkPath_ok_iff _ .import_ p).mp h
  obtain ⟨_, hne, _, hds, hlast, helems⟩ := h1
  have helem_bytes : ∀ e ∈ splitOn 47 p, ∀ b ∈ e, Module.importPathOK b.toNat = true := by
    intro e he
    have h5 := ((Module.checkElem_ok_iff _ .import_ e).mp (helems e he)).2.2.2.2.1
    have : (Utf8.runes e).all Module.importPathOK = true := h5
    rw [Utf8.runes_all_of_ascii_pred Module.importPathOK Module.importPathOK_lt] at this
    intro b hb
    exact List.all_eq_true.mp this b hb
  refine ⟨by intro hp; rw [hp] at hne; simp at hne, ?_, ?_, ?_, by simpa using hlast⟩
  · intro b hb
    by_cases hb47 : b = 47
    · exact Or.inl hb47
    · obtain ⟨e, he, hbe⟩ := Module.mem_splitOn_of_mem 47 p b hb hb47
      exact Or.inr (helem_bytes e he b hbe)
  · intro hin
    rw [hasDoubleSlash_of_infix p hin] at hds
    cases hds
  · intro hh
    cases p with
    | nil => simp at hh
    | cons c rest =>
      simp only [List.head?_cons, Option.some.injEq] at hh
      subst hh
      have : ([] : Bytes) ∈ splitOn 47 (47 :: rest) := by rw [Module.splitOn_cons_sep]; simp
      have := ((Module.checkElem_ok_iff _ .import_ []).mp (helems [] this)).1
      simp at this


/-- the bytes a valid import path is made of (other than `/`) -/
theorem okByte_check :
    (List.range 128).all (fun n => !Module.importPathOK n ||
      (!UnicodePrint.isSpace n && n != 34 && n != 96 && n != 10 && n != 40 && n != 47 && isIdent n)) = true := by
  decide +kernel

theorem okByte_facts {b : UInt8} (h : Module.importPathOK b.toNat = true) :
    NS b ∧ b ≠ 34 ∧ b ≠ 96 ∧ b ≠ 10 ∧ b ≠ 40 ∧ b ≠ 47 ∧ isIdent b.toNat = true := by
  have hlt := Module.importPathOK_lt _ h
  have := List.all_eq_true.mp okByte_check b.toNat (List.mem_range.mpr hlt)
  simp only [h, Bool.not_true, Bool.false_or, Bool.and_eq_true, Bool.not_eq_true', bne_iff_ne, ne_eq] at this
  obtain ⟨⟨⟨⟨⟨⟨h1, h2⟩, h3⟩, h4⟩, h5⟩, h6⟩, h7⟩ := this
  have ne_of : ∀ k : UInt8, b.toNat ≠ k.toNat → b ≠ k := fun k hk hb => hk (by rw [hb])
  exact ⟨⟨hlt, h1⟩, ne_of 34 h2, ne_of 96 h3, ne_of 10 h4, ne_of 40 h5, ne_of 47 h6, h7⟩

/-- what the scanner needs to know about the module path token -/
structure TokOKForScan (tok path : Bytes) : Prop where
  shape : ∃ c0 mid pre c1, tok = c0 :: mid ∧ tok = pre ++ [c1] ∧ NS c0 ∧ NS c1 ∧ c1 ≠ 47 ∧ c0 ≠ 47 ∧ c0 ≠ 40 ∧
    isIdent c0.toNat = true ∧
    ((c0 = 34 ∧ Quote.unquote tok = some path) ∨ (c0 ≠ 34 ∧ c0 ≠ 96 ∧ path = tok))
  noSlashes : ¬ [47, 47] <:+: tok
  noNewline : ∀ b ∈ tok, b ≠ 10

/-- an unquoted token that is a valid import path -/
theorem tokOK_unquoted {p : Bytes} (hp : PathFacts p) : TokOKForScan p p := by
  have hall : ∀ b ∈ p, NS b ∧ b ≠ 34 ∧ b ≠ 96 ∧ b ≠ 10 ∧ b ≠ 40 ∧ isIdent b.toNat = true := by
    intro b hb
    rcases hp.bytes b hb with rfl | h
    · exact ⟨⟨by decide, by decide⟩, by decide, by decide, by decide, by decide, by decide +kernel⟩
    · obtain ⟨h1, h2, h3, h4, h5, _, h7⟩ := okByte_facts h
      exact ⟨h1, h2, h3, h4, h5, h7⟩
  refine ⟨?_, hp.noSlashes, fun b hb => (hall b hb).2.2.2.1⟩
  cases hpc : p with
  | nil => exact absurd hpc hp.ne
  | cons c0 mid =>
    have hne : c0 :: mid ≠ [] := by simp
    have hlast : c0 :: mid = (c0 :: mid).dropLast ++ [(c0 :: mid).getLast hne] := (List.dropLast_concat_getLast hne).symm
    have hc0mem : c0 ∈ p := by rw [hpc]; simp
    have hc1mem : (c0 :: mid).getLast hne ∈ p := by rw [hpc]; exact List.getLast_mem hne
    have h0 := hall c0 hc0mem
    have h1 := hall _ hc1mem
    refine ⟨c0, mid, (c0 :: mid).dropLast, (c0 :: mid).getLast hne, rfl, hlast, h0.1, h1.1, ?_, ?_, h0.2.2.2.2.1,
      h0.2.2.2.2.2, Or.inr ⟨h0.2.1, h0.2.2.1, rfl⟩⟩
    · intro h47
      apply hp.last
      rw [hpc, List.getLast?_eq_some_getLast hne, h47]
    · intro h47
      apply hp.head
      rw [hpc, h47]; rfl


theorem takeWhile_append_all {α : Type} (p : α → Bool) (a b : List α) (h : ∀ x ∈ a, p x = true) :
    (a ++ b).takeWhile p = a ++ b.takeWhile p := List.takeWhile_append_of_pos h

/-- The source line of a top-level `module <tok>` line is found by `strings.Split(x, "\n")` at index
    `line - 1`, and the scanner returns the path on it. -/
theorem scan_directive {x : Bytes} {l : Line} {tok path : Bytes}
    (htok : l.token = [B "module", tok]) (hlay : TopLay x l) (hok : LineOK x l) (ht : TokOKForScan tok path) :
    ∃ L, (splitOn 10 x)[l.start.line - 1]? = some L ∧ modulePathLine L = some path := by
  obtain ⟨c0, mid, pre, c1, htok0, htok1, hc0, hc1, hc1', hc0', hc040, hid0, hval⟩ := ht.shape
  rw [B_module] at htok
  -- the escape clause of `TopLay` does not apply
  have hnesc : ¬ Esc l.token := by
    rintro ⟨t, hmem, h⟩
    rw [htok] at hmem
    simp only [List.mem_cons, List.not_mem_nil, or_false] at hmem
    rcases hmem with rfl | rfl
    · rcases h with h | h
      · cases h
      · obtain ⟨r, hr⟩ := h; cases hr
    · rcases h with h | h
      · rw [htok0] at h
        simp only [List.cons.injEq] at h
        exact hc040 h.1
      · obtain ⟨r, hr⟩ := h
        rw [htok0] at hr
        simp only [List.cons_append, List.cons.injEq] at hr
        exact hc0' hr.1.symm
  rcases hlay with hesc | ⟨hW0, hsp, gap2, rest, hafter, hgap2, hrest⟩
  · exact absurd hesc hnesc
  rw [htok] at hsp
  simp only [List.reverse_cons, List.reverse_nil, List.nil_append, List.cons_append, SpacedRev] at hsp
  obtain ⟨b0, gap, ⟨hb0, hident⟩, hgap, he, _⟩ := hsp
  -- the input from the start of the line on
  have hC : x.drop l.start.byte = modB ++ gap ++ tok ++ gap2 ++ rest := by
    have h1 : x.drop l.start.byte = modB ++ x.drop b0 := drop_of_take_eq hb0
    have h2 : x.drop b0 = (gap ++ tok) ++ x.drop l.«end».byte := drop_of_take_eq (by rw [he, List.append_assoc])
    rw [h1, h2, hafter]; simp [List.append_assoc]
  -- the gap after `module` is not empty
  have hgne : gap ≠ [] := by
    intro hg
    subst hg
    have hdrop : x.drop b0 = c0 :: (mid ++ x.drop l.«end».byte) := by
      have : x.drop b0 = ([] ++ tok) ++ x.drop l.«end».byte := drop_of_take_eq (by rw [he, List.append_assoc])
      rw [this, htok0]; rfl
    unfold IdentEnd at hident
    rcases hident with h | h | h | h | h | h | h
    · cases h
    · cases h
    · obtain ⟨r, hr⟩ := h; cases hr
    · cases h
    · cases h
    · rw [hdrop] at h
      have : peekOf (c0 :: (mid ++ x.drop l.«end».byte)) = c0.toNat := by
        unfold peekOf
        simp only
        rw [decodeRune_ascii c0 _ hc0.1]
      rw [this, hid0] at h
      cases h
    · rw [hdrop] at h
      obtain ⟨r, hr⟩ := h
      simp only [List.cons_append, List.cons.injEq] at hr
      exact hc0' hr.1.symm
  -- the source line
  have hnl_mod : ∀ b ∈ modB, (b != 10) = true := by decide
  have hpart : ∀ b ∈ modB ++ gap ++ tok ++ gap2, (b != 10) = true := by
    intro b hb
    simp only [List.mem_append] at hb
    rcases hb with ((hb | hb) | hb) | hb
    · exact hnl_mod b hb
    · exact ws_no_newline hgap b hb
    · simpa using ht.noNewline b hb
    · exact ws_no_newline hgap2 b hb
  have hline := splitOn_line (x.take l.start.byte) (x.drop l.start.byte)
  rw [List.take_append_drop, hC, takeWhile_append_all _ _ _ hpart] at hline
  obtain ⟨_, _, _, hpos⟩ := hok.start
  have hk : l.start.line - 1 = (x.take l.start.byte).count 10 := by rw [hpos.1.line]; omega
  rw [← hk] at hline
  refine ⟨_, hline, ?_⟩
  -- what follows the blanks after the token, up to the end of the line
  have hR : rest.takeWhile (· != 10) = [] ∨ [47, 47] <+: rest.takeWhile (· != 10) := by
    rcases hrest with rfl | ⟨r, rfl⟩ | ⟨r, rfl⟩
    · left; rfl
    · left; rfl
    · right
      exact ⟨r.takeWhile (· != 10), by simp⟩
  have := modulePathLine_directive (lastLine (x.take l.start.byte)) gap gap2 (rest.takeWhile (· != 10)) tok path
    c0 c1 mid pre hW0 hgap hgap2 hgne htok0 htok1 hc0 hc1 hc1' ht.noSlashes hR hval
  simpa [List.append_assoc] using this


/-- a `"…"` token whose value is a valid import path -/
theorem tokOK_quoted {tok p : Bytes} (hp : PathFacts p) (hu : Quote.unquote tok = some p)
    (hq : tok.head? = some 34) : TokOKForScan tok p := by
  obtain ⟨⟨body, hbody⟩, hnl, hsl⟩ := unquote_facts hu hq
  have hq34 : NS 34 := ⟨by decide, by decide⟩
  refine ⟨⟨34, body ++ [34], 34 :: body, 34, by rw [hbody]; rfl, by rw [hbody], hq34, hq34, by decide, by decide, by decide,
    by decide +kernel, Or.inl ⟨rfl, hu⟩⟩, fun h => hp.noSlashes (hsl h), hnl⟩

theorem containsAny_false {s chars : Bytes} (h : GoStrings.containsAny s chars = false) : ∀ b ∈ s, b ∉ chars := by
  intro b hb hc
  unfold GoStrings.containsAny at h
  have := List.any_eq_false.mp h b hb
  simp [hc] at this

/-- the module path token of an accepted directive, whatever its form -/
theorem tokOK_of_parseString {tok tok' p : Bytes} (hps : parseString tok = some (p, tok')) (hp : PathFacts p) :
    TokOKForScan tok p := by
  unfold parseString at hps
  split at hps
  · rename_i hpre
    split at hps
    · cases hps
    · rename_i t hu
      simp only [Option.some.injEq, Prod.mk.injEq] at hps
      rw [← hps.1]
      rw [← hps.1] at hp
      refine tokOK_quoted hp hu ?_
      have := isPrefixOfB_iff.mp hpre
      obtain ⟨r, hr⟩ := this
      rw [← hr]; rfl
  · split at hps
    · cases hps
    · simp only [Option.some.injEq, Prod.mk.injEq] at hps
      rw [← hps.1]
      rw [← hps.1] at hp
      exact tokOK_unquoted hp

/-- `modulePath_agrees_partial`.  If the strict parser (no fixer) accepts `x`, its module directive is a
    top-level line (not a line of a `module ( … )` block) naming a valid import path, and the line scanner
    skips every source line before the line of that directive, then `ModulePath(x)` is the module path
    the strict parser reports. -/
theorem modulePath_agrees (name x : Bytes) (f : File) (m : Module)
    (h : parseToFile name x none true = .ok f) (hm : f.module = some m)
    (hvalid : Module.checkImportPath m.mod.path = .ok ())
    (htop : ∃ l, Expr.line l ∈ f.syn.stmts ∧ l.id = m.lineId ∧
      ∀ j, j + 1 < l.start.line → ∀ ln, (splitOn 10 x)[j]? = some ln → modulePathLine ln = none) :
    modulePath x = m.mod.path := by
  obtain ⟨l', hl', hid', hscan⟩ := htop
  obtain ⟨fs, l, tok, tok', _, _, _, htok, hps, hlay, hok, hstart⟩ := module_line_of_strict h hm ⟨l', hl', hid'⟩
  have hfacts := importPath_facts _ hvalid
  obtain ⟨L, hL, hscanL⟩ := scan_directive htok hlay hok (tokOK_of_parseString hps hfacts)
  unfold modulePath
  refine modulePathLines_at (splitOn 10 x) (l.start.line - 1) L _ ?_ hL hscanL
  intro j hj ln hln
  rw [← hstart l' hl' hid'] at hj
  exact hscan j (by omega) ln hln


/-- Boolean form of the hypotheses of `modulePath_agrees` (for kernel-evaluated instances) -/
def modulePathHyps (x : Bytes) : Bool :=
  match parseToFile (B "go.mod") x none true with
  | .ok f =>
    match f.module with
    | some m =>
      decide (Module.checkImportPath m.mod.path = .ok ()) &&
      f.syn.stmts.any fun
        | .line l => l.id == m.lineId &&
            (List.range (l.start.line - 1)).all fun j =>
              match (splitOn 10 x)[j]? with
              | some ln => (modulePathLine ln).isNone
              | none => true
        | _ => false
    | none => false
  | .error _ => false

theorem modulePathHyps_spec {x : Bytes} (h : modulePathHyps x = true) :
    ∃ f m, parseToFile (B "go.mod") x none true = .ok f ∧ f.module = some m ∧
      Module.checkImportPath m.mod.path = .ok () ∧
      ∃ l, Expr.line l ∈ f.syn.stmts ∧ l.id = m.lineId ∧
        ∀ j, j + 1 < l.start.line → ∀ ln, (splitOn 10 x)[j]? = some ln → modulePathLine ln = none := by
  unfold modulePathHyps at h
  split at h
  · rename_i f hf
    split at h
    · rename_i m hm
      simp only [Bool.and_eq_true, decide_eq_true_eq, List.any_eq_true] at h
      obtain ⟨hv, e, he, hcond⟩ := h
      cases e with
      | line l =>
        simp only [Bool.and_eq_true, beq_iff_eq, List.all_eq_true, List.mem_range] at hcond
        refine ⟨f, m, hf, hm, hv, l, he, hcond.1, ?_⟩
        intro j hj ln hln
        have := hcond.2 j (by omega)
        rw [hln] at this
        simpa using this
      | lineBlock b => simp at hcond
      | commentBlock c => simp at hcond
      | lparen c => simp at hcond
      | rparen c => simp at hcond
    · cases h
  · cases h

end ModVerif.Proofs.ModfileC20
