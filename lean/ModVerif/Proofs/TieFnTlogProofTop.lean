/-
  Tie helpers (6): the exported provers `TreeHash`, `ProveRecord`, `ProveTree` of the generated code against the model's
  `treeHash`, `proveRecord`, `proveTree` over the reader `readerOf r` (natural-number arguments; the Int-argument tie
  theorems are in Tie/FnTlogProof.lean).
-/
import ModVerif.Proofs.TieFnTlogProofProve
import ModVerif.Proofs.TieFnTlogProofIndex
import ModVerif.Proofs.TieFnTlogProofPanic
namespace ModVerif.Tie.FnTlogProof
open ModVerif ModVerif.GoRt ModVerif.GoRtList ModVerif.TieFnTlogInt

/-- the indexes a model index function asks for (`[]` when it fails) -/
def idxOf : Except Tlog.Err (List Nat) → List Nat
  | .ok l => l
  | .error _ => []

/-- a model result as the `(value, error)` pair of an exported function that reads hashes: `inv` is the function's
    "invalid inputs" text, `rerr` the error value of a failed read (`readErrOf`), `dflt` the value returned next to an error;
    the remaining model errors are the Go panic sites. -/
def readOut {α : Type} (dflt : α) (inv : String) (rerr : Option String) : Except Tlog.Err α → M (α × Option String)
  | .ok a => .ok (a, none)
  | .error .invalid => .ok (dflt, some inv)
  | .error .reader => .ok (dflt, rerr)
  | .error _ => .error .panic

/-- a reader of the translated code over a dense store (the honest reader; used by the non-vacuity examples) -/
def genReader {H : Type} (st : List H) : List Int → List H × Option String := fun idx =>
  match idx.mapM (fun i => st[i.toNat]?) with
  | some hs => (hs, none)
  | none => ([], some "missing hash")

theorem mapM_map_ofNat {H : Type} (st : List H) : ∀ idx : List Nat,
    (idx.map Int.ofNat).mapM (fun i => st[i.toNat]?) = idx.mapM (st[·]?) := by
  intro idx
  induction idx with
  | nil => rfl
  | cons a l ih =>
    simp only [List.map_cons, List.mapM_cons, ih]
    rfl

/-- seen from the model, `genReader st` is the model's honest reader `storeReader st` -/
theorem readerOf_genReader {H : Type} (st : List H) : readerOf (genReader st) = Tlog.storeReader st := by
  funext idx
  unfold readerOf genReader Tlog.storeReader
  rw [mapM_map_ofNat]
  cases idx.mapM (st[·]?) <;> rfl

section
variable {H : Type} [DecidableEq H] [Inhabited H] (node : H → H → H)

omit [DecidableEq H] [Inhabited H] in
theorem readChecked_readerOf (r : List Int → List H × Option String) (idx : List Nat) :
    Tlog.readChecked (readerOf r) idx =
      match r (idx.map Int.ofNat) with
      | (hs, none) => if hs.length != idx.length then .error .reader else .ok hs
      | (_, some _) => .error .reader := by
  unfold Tlog.readChecked readerOf
  split <;> rename_i h <;> split at h <;> simp_all

omit [DecidableEq H] [Inhabited H] in
theorem readErrOf_eq (r : List Int → List H × Option String) (idx : List Nat) :
    readErrOf r idx = match r (idx.map Int.ofNat) with
      | (_, some e) => some e
      | (_, none) => some "tlog: ReadHashes(%d indexes) = %d hashes" := by
  unfold readErrOf
  split <;> rename_i h <;> split <;> simp_all

omit [DecidableEq H] [Inhabited H] in
/-- the read step shared by the three functions: `r.ReadHashes(indexes)` followed by the length check -/
theorem read_step {β : Type} (r : List Int → List H × Option String) (idx : List Nat) (dflt : β)
    (k : List H → M (β × Option String)) :
    (if (!((r (([] : List Int) ++ idx.map Int.ofNat)).snd).isNone) = true then
        (pure (dflt, (r (([] : List Int) ++ idx.map Int.ofNat)).snd) : M (β × Option String))
      else if (!decide (len (r (([] : List Int) ++ idx.map Int.ofNat)).fst =
          len (([] : List Int) ++ idx.map Int.ofNat))) = true then
        pure (dflt, some "tlog: ReadHashes(%d indexes) = %d hashes")
      else k (r (([] : List Int) ++ idx.map Int.ofNat)).fst) =
    match Tlog.readChecked (readerOf r) idx with
      | .ok hs => k hs
      | .error _ => .ok (dflt, readErrOf r idx) := by
  rw [List.nil_append]
  rw [readChecked_readerOf, readErrOf_eq]
  generalize r (idx.map Int.ofNat) = x
  obtain ⟨hs, err⟩ := x
  cases err with
  | some e => simp
  | none =>
    by_cases hl : hs.length = idx.length
    · simp [len, hl]
    · have hl' : ¬ ((hs.length : Int) = (idx.length : Int)) := by omega
      simp [len, hl, hl']

omit [DecidableEq H] [Inhabited H] in
theorem readChecked_err (r : Tlog.HashReader H) (idx : List Nat) (e : Tlog.Err)
    (h : Tlog.readChecked r idx = .error e) : e = .reader := by
  unfold Tlog.readChecked at h
  split at h
  · cases h; rfl
  · split at h <;> cases h; rfl

theorem ProveRecord_ok (fuel t n : Nat) (r : List Int → List H × Option String)
    (hn : n < t) (ht : t ≤ 2 ^ 62) (hf : t + 127 ≤ fuel) :
    Generated.Tlog.ProveRecord node fuel (t : Int) (n : Int) r =
      readOut [] "tlog: invalid inputs in ProveRecord" (readErrOf r (idxOf (Tlog.leafProofIndex 0 t n)))
        (Tlog.proveRecord node (t : Int) (n : Int) (readerOf r)) := by
  unfold Generated.Tlog.ProveRecord Tlog.proveRecord
  have hg : (decide ((t : Int) < 0) || decide ((n : Int) < 0) || decide ((n : Int) ≥ (t : Int))) = false := by
    simp; omega
  simp only [hg, Bool.false_eq_true, if_false, Int.toNat_natCast]
  have hix := leafProofIndex_ok fuel (t - 0) 0 t n [] ht (Nat.le_refl _) (by omega)
  simp only [Int.natCast_zero] at hix
  rw [hix]
  unfold Tlog.leafProofIndex
  have hpo := leafProofIndexF_panicOnly (t - 0) 0 t n
  cases hidx : Tlog.leafProofIndexF (t - 0) 0 t n with
  | error e => rcases hpo e hidx with rfl | rfl <;> rfl
  | ok idx =>
    simp only [subTreeIndexOut, ok_bind, idxOf]
    by_cases hz : idx = []
    · subst hz; simp [len, readOut]
    · have hz' : idx.length ≠ 0 := by simpa using hz
      have e1 : decide (len (([] : List Int) ++ idx.map Int.ofNat) = 0) = false := by
        simp only [len_eq, List.nil_append, List.length_map]; exact decide_eq_false (by omega)
      have e2 : (idx.length == 0) = false := by simpa using hz'
      simp only [e1, e2, Bool.false_eq_true, if_false]
      rw [read_step r idx ([] : List H) (fun hs0 => do
            let t2 ← Generated.Tlog.leafProof node fuel 0 (↑t) (↑n) hs0
            if (!decide (len t2.snd = 0)) = true then throw Err.panic else pure (t2.fst, none))]
      cases hrd : Tlog.readChecked (readerOf r) idx with
      | error e =>
        have := readChecked_err _ _ _ hrd
        subst this; rfl
      | ok hs =>
        simp only [ok_bind]
        have hlp := leafProof_ok node fuel (t - 0) 0 t n hs (by omega) (Nat.le_refl _) (by omega)
        simp only [Int.natCast_zero] at hlp
        rw [hlp]
        unfold Tlog.leafProof
        have hpo2 := leafProofF_panicOnly node (t - 0) 0 t n hs
        cases hlf : Tlog.leafProofF node (t - 0) 0 t n hs with
        | error e => rcases hpo2 e hlf with rfl | rfl <;> rfl
        | ok a =>
          obtain ⟨p, rest⟩ := a
          simp only [toM_ok, ok_bind]
          by_cases hr : rest = []
          · subst hr; simp [len, readOut]
          · have hr' : rest.length ≠ 0 := by simpa using hr
            simp [len, readOut, hr']

theorem ProveTree_ok (fuel t n : Nat) (r : List Int → List H × Option String)
    (h1 : 1 ≤ n) (hn : n ≤ t) (ht : t ≤ 2 ^ 62) (hf : t + 127 ≤ fuel) :
    Generated.Tlog.ProveTree node fuel (t : Int) (n : Int) r =
      readOut [] "tlog: invalid inputs in ProveTree" (readErrOf r (idxOf (Tlog.treeProofIndex 0 t n)))
        (Tlog.proveTree node (t : Int) (n : Int) (readerOf r)) := by
  unfold Generated.Tlog.ProveTree Tlog.proveTree
  have hg : (decide ((t : Int) < 1) || decide ((n : Int) < 1) || decide ((n : Int) > (t : Int))) = false := by
    simp; omega
  simp only [hg, Bool.false_eq_true, if_false, Int.toNat_natCast]
  have hix := treeProofIndex_ok fuel (t - 0) 0 t n [] ht (Nat.le_refl _) (by omega)
  simp only [Int.natCast_zero] at hix
  rw [hix]
  unfold Tlog.treeProofIndex
  have hpo := treeProofIndexF_panicOnly (t - 0) 0 t n
  cases hidx : Tlog.treeProofIndexF (t - 0) 0 t n with
  | error e => rcases hpo e hidx with rfl | rfl <;> rfl
  | ok idx =>
    simp only [subTreeIndexOut, ok_bind, idxOf]
    by_cases hz : idx = []
    · subst hz; simp [len, readOut]
    · have hz' : idx.length ≠ 0 := by simpa using hz
      have e1 : decide (len (([] : List Int) ++ idx.map Int.ofNat) = 0) = false := by
        simp only [len_eq, List.nil_append, List.length_map]; exact decide_eq_false (by omega)
      have e2 : (idx.length == 0) = false := by simpa using hz'
      simp only [e1, e2, Bool.false_eq_true, if_false]
      rw [read_step r idx ([] : List H) (fun hs0 => do
            let t2 ← Generated.Tlog.treeProof node fuel 0 (↑t) (↑n) hs0
            if (!decide (len t2.snd = 0)) = true then throw Err.panic else pure (t2.fst, none))]
      cases hrd : Tlog.readChecked (readerOf r) idx with
      | error e =>
        have := readChecked_err _ _ _ hrd
        subst this; rfl
      | ok hs =>
        simp only [ok_bind]
        have hlp := treeProof_ok node fuel (t - 0) 0 t n hs (by omega) (Nat.le_refl _) (by omega)
        simp only [Int.natCast_zero] at hlp
        rw [hlp]
        unfold Tlog.treeProof
        have hpo2 := treeProofF_panicOnly node (t - 0) 0 t n hs
        cases hlf : Tlog.treeProofF node (t - 0) 0 t n hs with
        | error e => rcases hpo2 e hlf with rfl | rfl <;> rfl
        | ok a =>
          obtain ⟨p, rest⟩ := a
          simp only [toM_ok, ok_bind]
          by_cases hr : rest = []
          · subst hr; simp [len, readOut]
          · have hr' : rest.length ≠ 0 := by simpa using hr
            simp [len, readOut, hr']

theorem TreeHash_ok (empty : H) (fuel n : Nat) (r : List Int → List H × Option String)
    (hn : n ≤ 2 ^ 62) (hf : n + 127 ≤ fuel) :
    Generated.Tlog.TreeHash empty node fuel (n : Int) r =
      readOut default "" (readErrOf r (idxOf (Tlog.subTreeIndex 0 n)))
        (Tlog.treeHash node empty n (readerOf r)) := by
  unfold Generated.Tlog.TreeHash Tlog.treeHash
  by_cases hz : n = 0
  · subst hz; simp [readOut]
  · have e1 : decide ((n : Int) = 0) = false := decide_eq_false (by omega)
    have e2 : (n == 0) = false := by simpa using hz
    simp only [e1, e2, Bool.false_eq_true, if_false]
    have hix := subTreeIndex_eq fuel 0 n [] hn (by omega)
    simp only [Int.natCast_zero] at hix
    rw [hix]
    have hpo := subTreeIndex_panicOnly 0 n
    cases hidx : Tlog.subTreeIndex 0 n with
    | error e => rcases hpo e hidx with rfl | rfl <;> rfl
    | ok idx =>
      simp only [subTreeIndexOut, ok_bind, idxOf]
      rw [read_step r idx (default : H) (fun hs0 => do
            let t2 ← Generated.Tlog.subTreeHash node fuel 0 (↑n) hs0
            if (!decide (len t2.snd = 0)) = true then throw Err.panic else pure (t2.fst, none))]
      cases hrd : Tlog.readChecked (readerOf r) idx with
      | error e =>
        have := readChecked_err _ _ _ hrd
        subst this; rfl
      | ok hs =>
        simp only [ok_bind]
        have hlp := subTreeHash_ok node fuel 0 n hs (by omega) (by omega) (by omega)
        simp only [Int.natCast_zero] at hlp
        rw [hlp]
        have hpo2 := subTreeHash_panicOnly node 0 n hs
        cases hlf : Tlog.subTreeHash node 0 n hs with
        | error e => rcases hpo2 e hlf with rfl | rfl <;> rfl
        | ok a =>
          obtain ⟨p, rest⟩ := a
          simp only [toM_ok, ok_bind]
          by_cases hr : rest = []
          · subst hr; simp [len, readOut]
          · have hr' : rest.length ≠ 0 := by simpa using hr
            simp [len, readOut, hr']

end
end ModVerif.Tie.FnTlogProof
