/-
  C02 stage 4, part f: the statement loop of `parseToFile` on a well-shaped tree: the rewritten tree is
  well-shaped again, and the loop can be replayed on every tree that carries the rewritten tokens.
-/
import ModVerif.Proofs.ModfileFmtDir3
namespace ModVerif.Proofs.ModfileFmtDir
open ModVerif ModVerif.Modfile ModVerif.Proofs.ModfileFmtLex ModVerif.Proofs.ModfileFmtLine
open ModVerif.Proofs.ModfileFmtFix ModVerif.Proofs.ModfileFmtTree ModVerif.Proofs.ModfileFmtParse

theorem lineTailOK_no_lparen : ∀ (ts : List Bytes), (∀ t ∈ ts, t ≠ [40]) → lineTailOK ts = true := by
  intro ts
  induction ts with
  | nil => intro _; rfl
  | cons t r ih =>
    intro h
    rw [lineTailOK_cons_ne r (h t (by simp))]
    exact ih (fun t' ht' => h t' (by simp [ht']))

/-! ### errors only accumulate -/

theorem addBlockLines_errs_mono (block : Comments) (verb : Bytes) (fix : Option Fixer) (strict : Bool) :
    ∀ (ls : List Line) (st : AddState), st.errsRev <:+ (addBlockLines block verb fix strict st ls).1.errsRev := by
  intro ls
  induction ls with
  | nil => intro st; exact List.suffix_refl _
  | cons l ls ih =>
    intro st
    simp only [addBlockLines]
    exact (add_errs_mono st (some block) l verb l.token fix strict).trans (ih _)

theorem addStmts_errs_mono (fix : Option Fixer) (strict : Bool) :
    ∀ (ss : List Expr) (st : AddState), st.errsRev <:+ (addStmts fix strict st ss).1.errsRev := by
  intro ss
  induction ss with
  | nil => intro st; exact List.suffix_refl _
  | cons x xs ih =>
    intro st
    simp only [addStmts]
    refine List.IsSuffix.trans ?_ (ih _)
    cases x with
    | line l =>
      simp only
      split
      · exact add_errs_mono st none l _ _ fix strict
      · exact List.suffix_refl _
    | lineBlock b =>
      simp only
      split
      · split
        · exact addBlockLines_errs_mono b.comments _ fix strict b.lines st
        · split
          · exact List.suffix_cons _ _
          · exact List.suffix_refl _
      · split
        · exact List.suffix_cons _ _
        · exact List.suffix_refl _
    | commentBlock x => exact List.suffix_refl _
    | lparen x => exact List.suffix_refl _
    | rparen x => exact List.suffix_refl _

theorem nil_of_suffix_nil {α} {a b : List α} (h : a <:+ b) (hb : b = []) : a = [] := by
  subst hb
  exact List.suffix_nil.1 h

/-! ### block lines -/

theorem addBlockLines_replay (block : Comments) (verb : Bytes) (fix : Option Fixer) (hfix : FixOK fix)
    (hne : FixNE fix) : ∀ (ls : List Line) (allow : Bool) (st st1 : AddState) (ls1 : List Line),
    addBlockLines block verb fix true st ls = (st1, ls1) → st1.errsRev = [] → WellFormed st1.file →
    WFBlkLines allow ls →
    WFBlkLines allow ls1 ∧ ls1.length = ls.length ∧ WellFormed st.file ∧ st.errsRev = [] ∧
    ∀ (st' : AddState) (block' : Comments) (ls' : List Line), Sim st st' → ls'.map eraseLine = ls1.map normLine →
      ∃ st1', addBlockLines block' verb fix true st' ls' = (st1', ls') ∧ Sim st1 st1' := by
  intro ls
  induction ls with
  | nil =>
    intro allow st st1 ls1 h he hwf _
    simp only [addBlockLines, Prod.mk.injEq] at h
    obtain ⟨rfl, rfl⟩ := h
    refine ⟨trivial, rfl, hwf, he, ?_⟩
    intro st' block' ls' hsim hrel
    have : ls' = [] := by simpa using hrel
    subst this
    exact ⟨st', rfl, hsim⟩
  | cons l ls ih =>
    intro allow st st1 ls1 h he hwf hwfl
    obtain ⟨hl, hls⟩ := hwfl
    simp only [addBlockLines] at h
    cases hstep : File.add st (some block) l verb l.token fix true with
    | mk stm toks =>
      cases hrest : addBlockLines block verb fix true stm ls with
      | mk st2 ls2 =>
        simp only [hstep, hrest, Prod.mk.injEq] at h
        obtain ⟨rfl, rfl⟩ := h
        obtain ⟨hwl2, hlen2, hwfm, hem, hreplay2⟩ := ih true stm st2 ls2 hrest he hwf hls
        obtain ⟨hsok, hwf0, hargs, hane⟩ := add_step st stm (some block) l verb l.token toks fix hstep hem hfix hne
          hl.suffix hwfm hl.tok
        refine ⟨⟨?_, hwl2⟩, by simp [hlen2], hwf0, hsok.errs, ?_⟩
        · refine ⟨hane, fun t ht => (hargs t ht).1, ?_, hl.before, hl.suffix, hl.after, hl.inBlock⟩
          cases toks with
          | nil => exact absurd rfl hane
          | cons t0 tr =>
            simp only [List.head?_cons, ne_eq, Option.some.injEq]
            exact (hargs t0 (by simp)).2.2
        · intro st' block' ls' hsim hrel
          cases ls' with
          | nil => simp at hrel
          | cons l' ls'' =>
            simp only [List.map_cons, List.cons.injEq] at hrel
            obtain ⟨hl', hrel'⟩ := hrel
            have htok' : l'.token = toks := by
              have := congrArg Line.token hl'
              simpa [eraseLine, normLine] using this
            have hsuf' : l'.comments.suffix = [] := by
              have := congrArg (fun x : Line => x.comments.suffix) hl'
              simp only [eraseLine, normLine, eraseCs, normCs, hl.suffix, List.map_nil] at this
              simpa using this
            obtain ⟨stm', hadd', hsim'⟩ := hsok.replay st' (some block') l' hsim hsuf'
            obtain ⟨st2', hrest', hsim2⟩ := hreplay2 stm' block' ls'' hsim' hrel'
            refine ⟨st2', ?_, hsim2⟩
            simp only [addBlockLines, htok', hadd', hrest']
            congr 2
            cases l'
            simp only at htok'
            subst htok'
            rfl

end ModVerif.Proofs.ModfileFmtDir
