/-
  C02 stage 3, part e: the file loop of the parser on the token stream of a well-shaped tree.

  `parseFileLoop_stream`: on `fileToks u`, for `WFStmts u`, `parseFileLoop` returns a statement list equal
  to `u` up to positions and line identities, and the lexer has recorded no end-of-line comment.
-/
import ModVerif.Proofs.ModfileFmtParse2
namespace ModVerif.Proofs.ModfileFmtParse
open ModVerif ModVerif.Modfile
open ModVerif.Proofs.ModfileFmtLex ModVerif.Proofs.ModfileFmtLine ModVerif.Proofs.ModfileFmtStream
open ModVerif.Proofs.ModfileFmtTree

/-! ### single steps of the file loop -/

theorem file_step_blank_none (i i1 : Input) (stmtsRev : List Expr) (m : Nat)
    (hk : i.token.kind = .punct 10) (hl : lex i = .ok (i.token, i1)) :
    parseFileLoop (m + 1) i stmtsRev none = parseFileLoop m i1 stmtsRev none := by
  conv => lhs; unfold parseFileLoop
  simp only [Input.peek, hk, hl, bind, Except.bind]

theorem file_step_blank_some (i i1 : Input) (stmtsRev : List Expr) (c : CommentBlock) (m : Nat)
    (hk : i.token.kind = .punct 10) (hl : lex i = .ok (i.token, i1)) :
    parseFileLoop (m + 1) i stmtsRev (some c) = parseFileLoop m i1 (.commentBlock c :: stmtsRev) none := by
  conv => lhs; unfold parseFileLoop
  simp only [Input.peek, hk, hl, bind, Except.bind]

/-- the comment block after one more comment token -/
def cbAdd (ocb : Option CommentBlock) (tok : Token) : CommentBlock :=
  let c : CommentBlock := match ocb with
    | some c => c
    | none => { start := tok.pos }
  { c with comments := { c.comments with before := c.comments.before ++ [{ start := tok.pos, token := tok.text }] } }

theorem file_step_comment (i i1 : Input) (stmtsRev : List Expr) (ocb : Option CommentBlock) (m : Nat)
    (hk : i.token.kind = .comment) (hl : lex i = .ok (i.token, i1)) :
    parseFileLoop (m + 1) i stmtsRev ocb = parseFileLoop m i1 stmtsRev (some (cbAdd ocb i.token)) := by
  conv => lhs; unfold parseFileLoop
  simp only [Input.peek, hk, hl, bind, Except.bind]
  rfl

theorem file_step_eof_none (i : Input) (stmtsRev : List Expr) (m : Nat) (hk : i.token.kind = .eof) :
    parseFileLoop (m + 1) i stmtsRev none = .ok (stmtsRev.reverse, i) := by
  conv => lhs; unfold parseFileLoop
  simp only [Input.peek, hk]

theorem file_step_eof_some (i : Input) (stmtsRev : List Expr) (c : CommentBlock) (m : Nat) (hk : i.token.kind = .eof) :
    parseFileLoop (m + 1) i stmtsRev (some c) = .ok ((.commentBlock c :: stmtsRev).reverse, i) := by
  conv => lhs; unfold parseFileLoop
  simp only [Input.peek, hk]

/-- the statement with the pending comment block attached -/
def attach (ocb : Option CommentBlock) (s : Expr) : Expr :=
  match ocb with
  | some c => s.setComments { s.comments with before := c.comments.before }
  | none => s

theorem file_step_stmt (i i1 : Input) (stmtsRev : List Expr) (ocb : Option CommentBlock) (m : Nat) (s : Expr)
    (h1 : i.token.kind ≠ .punct 10) (h2 : i.token.kind ≠ .comment) (h3 : i.token.kind ≠ .eof)
    (hp : parseStmt (m + 1) i = .ok (s, i1)) :
    parseFileLoop (m + 1) i stmtsRev ocb = parseFileLoop m i1 (attach ocb s :: stmtsRev) none := by
  cases ocb with
  | none =>
    conv => lhs; unfold parseFileLoop
    simp only [Input.peek]
    simp only [hp, bind, Except.bind]
    rfl
  | some c =>
    conv => lhs; unfold parseFileLoop
    simp only [Input.peek]
    simp only [hp, bind, Except.bind]
    rfl

/-! ### whole-line comments in front of a statement -/

/-- the pending comment block carries exactly the comments `pre` (erased) -/
def CbOK (ocb : Option CommentBlock) (pre : List Comment) : Prop :=
  match ocb with
  | none => pre = []
  | some c => c.comments.before.map eraseC = pre ∧ c.comments.suffix = [] ∧ c.comments.after = []

theorem top_comments : ∀ (cs : List Comment) (ocb : Option CommentBlock) (pre : List Comment) (i : Input)
    (stmtsRev : List Expr) (fuel : Nat) (U : List Tk), CbOK ocb pre → (∀ c ∈ cs, c.suffix = false) →
    Stream (topBeforeToks cs ++ U) i → cs.length + 1 ≤ fuel →
    ∃ ocb' i' fuel', parseFileLoop fuel i stmtsRev ocb = parseFileLoop fuel' i' stmtsRev ocb' ∧
      CbOK ocb' (pre ++ cs.map eraseC) ∧ (cs ≠ [] → ocb'.isSome = true) ∧ Stream U i' ∧
      i'.commentsRev = i.commentsRev ∧ fuel ≤ fuel' + cs.length := by
  intro cs
  induction cs with
  | nil =>
    intro ocb pre i stmtsRev fuel U hcb _ hS _
    exact ⟨ocb, i, fuel, rfl, by simpa using hcb, by simp, by simpa [topBeforeToks] using hS, rfl, by simp⟩
  | cons c cs ih =>
    intro ocb pre i stmtsRev fuel U hcb hsuf hS hf
    obtain ⟨m, rfl⟩ : ∃ m, fuel = m + 1 := ⟨fuel - 1, by omega⟩
    simp only [List.length_cons] at hf
    have hS0 : Stream ((TokKind.comment, c.token) :: (topBeforeToks cs ++ U)) i := by
      simpa [topBeforeToks] using hS
    obtain ⟨i1, hl, hn, hc, hS1⟩ := Stream.lex hS0 (by simp)
    have hk : i.token.kind = .comment := hS0.kind
    have htx : i.token.text = c.token := hS0.text
    have hcb1 : CbOK (some (cbAdd ocb i.token)) (pre ++ [eraseC c]) := by
      have hec : eraseC ({ start := i.token.pos, token := i.token.text } : Comment) = eraseC c := by
        have := hsuf c (by simp)
        cases c
        simp_all [eraseC]
      cases ocb with
      | none =>
        simp only [CbOK] at hcb
        subst hcb
        simp [CbOK, cbAdd, hec]
      | some c0 =>
        simp only [CbOK] at hcb
        obtain ⟨h1, h2, h3⟩ := hcb
        simp [CbOK, cbAdd, hec, h1, h2, h3]
    obtain ⟨ocb', i', fuel', heq, hcb', _, hS', hc', hfu⟩ := ih (some (cbAdd ocb i.token)) (pre ++ [eraseC c]) i1
      stmtsRev m U hcb1 (fun c' h => hsuf c' (by simp [h])) hS1 (by omega)
    refine ⟨ocb', i', fuel', ?_, by simpa using hcb', ?_, hS', by rw [hc', hc], by simp only [List.length_cons]; omega⟩
    · rw [file_step_comment i i1 stmtsRev ocb m hk hl, heq]
    · intro _
      -- the pending block can only stay `some`
      cases hcs : cs with
      | nil =>
        subst hcs
        -- no further comment: `ih` on the empty list returns the block unchanged; redo it directly
        obtain ⟨ocb2, i2, fuel2, heq2, hcb2, _, _, _, _⟩ := ih (some (cbAdd ocb i.token)) (pre ++ [eraseC c]) i1
          stmtsRev m U hcb1 (by simp) hS1 (by omega)
        -- `ocb'` is determined by `CbOK ocb' (… ++ [eraseC c])`: its comment list is not empty
        cases ocb' with
        | none =>
          simp only [CbOK] at hcb'
          simp at hcb'
        | some _ => rfl
      | cons c2 cs2 =>
        cases ocb' with
        | none =>
          simp only [CbOK] at hcb'
          simp at hcb'
        | some _ => rfl

/-! ### one statement -/

/-- what follows a statement: the end of the input, or a blank line and the remaining statements -/
def sepToks (rest : List Expr) : List Tk :=
  if rest.isEmpty then [eofTk] else nl :: (stmtsToks rest ++ [eofTk])

theorem fileToks_cons (s : Expr) (rest : List Expr) : fileToks (s :: rest) = stmtToks s ++ sepToks rest := by
  cases rest with
  | nil => simp [fileToks, stmtsToks, sepToks]
  | cons r rs => simp [fileToks, stmtsToks, sepToks]

theorem eofTk_kind : eofTk.1 = TokKind.eof := rfl

/-- after a line or block statement: skip the separating blank line, if any -/
theorem file_after_stmt (rest : List Expr) (i : Input) (stmts : List Expr) (fuel : Nat)
    (hS : Stream (sepToks rest) i) (hf : (sepToks rest).length ≤ fuel) :
    ∃ i' fuel', parseFileLoop fuel i stmts none = parseFileLoop fuel' i' stmts none ∧
      Stream (fileToks rest) i' ∧ i'.commentsRev = i.commentsRev ∧ (fileToks rest).length ≤ fuel' := by
  cases rest with
  | nil =>
    exact ⟨i, fuel, rfl, by simpa [sepToks, fileToks, stmtsToks] using hS, rfl,
      by simpa [sepToks, fileToks, stmtsToks] using hf⟩
  | cons r rs =>
    have hS0 : Stream (nl :: fileToks (r :: rs)) i := by simpa [sepToks, fileToks] using hS
    have hf0 : (fileToks (r :: rs)).length + 1 ≤ fuel := by simpa [sepToks, fileToks] using hf
    obtain ⟨m, rfl⟩ : ∃ m, fuel = m + 1 := ⟨fuel - 1, by omega⟩
    obtain ⟨i1, hl, hn, hc, hS1⟩ := Stream.lex hS0 nl_ne_eof
    exact ⟨i1, m, file_step_blank_none i i1 stmts m hS0.kind hl, hS1, hc, by omega⟩

theorem comments_eq_of (cs : Comments) (h1 : cs.suffix = []) (h2 : cs.after = []) :
    cs = { before := cs.before, suffix := [], after := [] } := by
  cases cs; simp_all

theorem file_stmt (s : Expr) (rest : List Expr) (i : Input) (stmtsRev : List Expr) (fuel : Nat)
    (hwf : WFStmt s) (hS : Stream (fileToks (s :: rest)) i) (hf : (fileToks (s :: rest)).length ≤ fuel) :
    ∃ s' i' fuel', parseFileLoop fuel i stmtsRev none = parseFileLoop fuel' i' (s' :: stmtsRev) none ∧
      eraseExpr s' = eraseExpr s ∧ Stream (fileToks rest) i' ∧ i'.commentsRev = i.commentsRev ∧
      (fileToks rest).length ≤ fuel' := by
  rw [fileToks_cons] at hS hf
  cases s with
  | commentBlock x =>
    obtain ⟨hne, hbefore, hsuf, haft⟩ := hwf
    simp only [stmtToks] at hS hf
    have hlen : (topBeforeToks x.comments.before).length = x.comments.before.length := by simp [topBeforeToks]
    simp only [List.length_append, hlen] at hf
    have hsep : 1 ≤ (sepToks rest).length := by unfold sepToks; split <;> simp
    obtain ⟨ocb', i1, fuel1, heq, hcb, hsome, hS1, hc1, hfu⟩ := top_comments x.comments.before none [] i stmtsRev
      fuel (sepToks rest) rfl (fun c h => (hbefore c h).1) hS (by omega)
    obtain ⟨cb, rfl⟩ : ∃ cb, ocb' = some cb := by
      have := hsome hne
      cases ocb' with
      | none => cases this
      | some cb => exact ⟨cb, rfl⟩
    simp only [CbOK, List.nil_append] at hcb
    obtain ⟨hb1, hb2, hb3⟩ := hcb
    have herase : eraseExpr (.commentBlock cb) = eraseExpr (.commentBlock x) := by
      simp only [eraseExpr]
      rw [comments_eq_of cb.comments hb2 hb3, comments_eq_of x.comments hsuf haft, eraseCs_before, eraseCs_before, hb1]
    obtain ⟨m, rfl⟩ : ∃ m, fuel1 = m + 1 := ⟨fuel1 - 1, by omega⟩
    cases rest with
    | nil =>
      have hS2 : Stream [eofTk] i1 := by simpa [sepToks] using hS1
      have hk : i1.token.kind = .eof := hS2.kind
      refine ⟨.commentBlock cb, i1, m + 1, ?_, herase, by simpa [fileToks, stmtsToks] using hS2, hc1,
        by simp [fileToks, stmtsToks]⟩
      rw [heq, file_step_eof_some i1 stmtsRev cb m hk, file_step_eof_none i1 _ m hk]
    | cons r rs =>
      have hS2 : Stream (nl :: fileToks (r :: rs)) i1 := by simpa [sepToks, fileToks] using hS1
      obtain ⟨i2, hl, hn, hc, hS3⟩ := Stream.lex hS2 nl_ne_eof
      refine ⟨.commentBlock cb, i2, m, ?_, herase, hS3, by rw [hc, hc1], ?_⟩
      · rw [heq, file_step_blank_some i1 i2 stmtsRev cb m hS2.kind hl]
      · simp only [sepToks, List.isEmpty_cons, Bool.false_eq_true, if_false, List.length_cons] at hf
        simp only [fileToks]
        omega
  | line l =>
    have hwf : WFLine l := hwf
    obtain ⟨t0, ts, htok⟩ : ∃ t0 ts, l.token = t0 :: ts := by
      cases h : l.token with
      | nil => exact absurd h hwf.ne
      | cons a b => exact ⟨a, b, rfl⟩
    simp only [stmtToks, htok, List.append_assoc] at hS hf
    have hlen : (topBeforeToks l.comments.before).length = l.comments.before.length := by simp [topBeforeToks]
    simp only [List.length_append, hlen, List.length_map, List.length_cons, List.length_nil] at hf
    obtain ⟨ocb', i1, fuel1, heq, hcb, hsome, hS1, hc1, hfu⟩ := top_comments l.comments.before none [] i stmtsRev
      fuel _ rfl (fun c h => (hwf.before c h).1) hS (by omega)
    obtain ⟨m, rfl⟩ : ∃ m, fuel1 = m + 1 := ⟨fuel1 - 1, by omega⟩
    have htt : ∀ t ∈ t0 :: ts, TokText t := by rw [← htok]; exact hwf.tok
    have hS1' : Stream ((t0 :: ts).map tk ++ nl :: sepToks rest) i1 := by simpa using hS1
    obtain ⟨l0, i2, hp, hl0t, hl0c, hl0b, hS2, hc2⟩ := parseStmt_line t0 ts i1 (m + 1) (sepToks rest) htt
      (by have := hwf.tail; rwa [htok] at this) hS1' (by omega)
    have hk1 : i1.token.kind = kindOf t0 := by
      simp only [List.map_cons, List.cons_append, tk] at hS1'
      exact hS1'.kind
    obtain ⟨d1, d2, d3⟩ := tokText_file_default (htt t0 (by simp))
    obtain ⟨i3, fuel3, heq3, hS3, hc3, hf3⟩ := file_after_stmt rest i2 (attach ocb' (.line l0) :: stmtsRev) m hS2
      (by omega)
    refine ⟨attach ocb' (.line l0), i3, fuel3, ?_, ?_, hS3, by rw [hc3, hc2, hc1], hf3⟩
    · rw [heq, file_step_stmt i1 i2 stmtsRev ocb' m (.line l0) (hk1 ▸ d1) (hk1 ▸ d2) (hk1 ▸ d3) hp, heq3]
    · simp only [List.nil_append] at hcb
      have hlc := comments_eq_of l.comments hwf.suffix hwf.after
      cases ocb' with
      | none =>
        simp only [CbOK] at hcb
        have hb : l.comments.before = [] := by simpa using hcb
        simp only [attach, eraseExpr, eraseLine, hl0t, hl0c, hl0b, htok, hwf.inBlock]
        rw [hlc, hb]
      | some cb =>
        simp only [CbOK] at hcb
        obtain ⟨hb1, _, _⟩ := hcb
        simp only [attach, Expr.setComments, Expr.comments, eraseExpr, eraseLine, hl0t, hl0c, hl0b, htok, hwf.inBlock]
        rw [hlc, eraseCs_before, eraseCs_before, hb1]
  | lineBlock b =>
    have hwf : WFBlock b := hwf
    obtain ⟨h0, hs, htok⟩ : ∃ h0 hs, b.token = h0 :: hs := by
      cases h : b.token with
      | nil => exact absurd h hwf.ne
      | cons a c => exact ⟨a, c, rfl⟩
    simp only [stmtToks, htok, List.append_assoc] at hS hf
    have hlen : (topBeforeToks b.comments.before).length = b.comments.before.length := by simp [topBeforeToks]
    obtain ⟨ocb', i1, fuel1, heq, hcb, hsome, hS1, hc1, hfu⟩ := top_comments b.comments.before none [] i stmtsRev
      fuel _ rfl (fun c h => (hwf.before c h).1) hS (by
        simp only [List.length_append, hlen, List.length_map, List.length_cons] at hf; omega)
    obtain ⟨m, rfl⟩ : ∃ m, fuel1 = m + 1 := ⟨fuel1 - 1, by simp only [List.length_append, hlen, List.length_map, List.length_cons] at hf; omega⟩
    have htt : ∀ t ∈ h0 :: hs, TokText t := by rw [← htok]; exact hwf.tok
    have hS1' : Stream ((h0 :: hs).map tk ++ lp :: nl :: (b.lines.flatMap blkLineToks ++
        (blkBeforeToks b.rparen.comments.before ++ rp :: nl :: sepToks rest))) i1 := by
      simpa [List.append_assoc] using hS1
    obtain ⟨b0, i2, hp, hb0t, hb0c, hb0l, hb0lines, hb0r, hb0rs, hb0ra, hS2, hc2⟩ := parseStmt_block h0 hs b.lines
      b.rparen.comments.before i1 (m + 1) (sepToks rest) htt hwf.lines hwf.rbefore hS1' (by
        simp only [List.length_append, hlen, List.length_map, List.length_cons, List.length_nil] at hf ⊢; omega)
    have hk1 : i1.token.kind = kindOf h0 := by
      simp only [List.map_cons, List.cons_append, tk] at hS1'
      exact hS1'.kind
    obtain ⟨d1, d2, d3⟩ := tokText_file_default (htt h0 (by simp))
    obtain ⟨i3, fuel3, heq3, hS3, hc3, hf3⟩ := file_after_stmt rest i2 (attach ocb' (.lineBlock b0) :: stmtsRev) m hS2
      (by simp only [List.length_append, hlen, List.length_map, List.length_cons, List.length_nil] at hf; omega)
    refine ⟨attach ocb' (.lineBlock b0), i3, fuel3, ?_, ?_, hS3, by rw [hc3, hc2, hc1], hf3⟩
    · rw [heq, file_step_stmt i1 i2 stmtsRev ocb' m (.lineBlock b0) (hk1 ▸ d1) (hk1 ▸ d2) (hk1 ▸ d3) hp, heq3]
    · simp only [List.nil_append] at hcb
      have hbc := comments_eq_of b.comments hwf.suffix hwf.after
      have hrc := comments_eq_of b.rparen.comments hwf.rsuffix hwf.rafter
      have hrc0 := comments_eq_of b0.rparen.comments hb0rs hb0ra
      have hlp : b.lparen.comments = {} := hwf.lparen
      cases ocb' with
      | none =>
        simp only [CbOK] at hcb
        have hb : b.comments.before = [] := by simpa using hcb
        simp only [attach, eraseExpr, eraseBlock, hb0t, hb0c, hb0l, hb0lines, htok, hlp]
        rw [hbc, hb, hrc, hrc0]
        simp [eraseCs, hb0r]
      | some cb =>
        simp only [CbOK] at hcb
        obtain ⟨hb1, _, _⟩ := hcb
        simp only [attach, Expr.setComments, Expr.comments, eraseExpr, eraseBlock, hb0t, hb0c, hb0l, hb0lines, htok, hlp]
        rw [hbc, hrc, hrc0]
        simp [eraseCs, hb0r, hb1]
  | lparen x => exact absurd hwf id
  | rparen x => exact absurd hwf id

/-! ### the file loop -/

theorem parseFileLoop_stream : ∀ (u : List Expr) (i : Input) (stmtsRev : List Expr) (fuel : Nat),
    WFStmts u → Stream (fileToks u) i → (fileToks u).length ≤ fuel →
    ∃ out i', parseFileLoop fuel i stmtsRev none = .ok (stmtsRev.reverse ++ out, i') ∧
      out.map eraseExpr = u.map eraseExpr ∧ i'.commentsRev = i.commentsRev := by
  intro u
  induction u with
  | nil =>
    intro i stmtsRev fuel _ hS hf
    have hS0 : Stream [eofTk] i := by simpa [fileToks, stmtsToks] using hS
    obtain ⟨m, rfl⟩ : ∃ m, fuel = m + 1 := ⟨fuel - 1, by simp [fileToks, stmtsToks] at hf; omega⟩
    exact ⟨[], i, by rw [file_step_eof_none i stmtsRev m hS0.kind]; simp, rfl, rfl⟩
  | cons s rest ih =>
    intro i stmtsRev fuel hwf hS hf
    obtain ⟨s', i1, fuel1, heq, hes, hS1, hc1, hf1⟩ := file_stmt s rest i stmtsRev fuel (hwf s (by simp)) hS hf
    obtain ⟨out, i2, hres, hout, hc2⟩ := ih i1 (s' :: stmtsRev) fuel1 (fun x h => hwf x (by simp [h])) hS1 hf1
    refine ⟨s' :: out, i2, ?_, by simp [hes, hout], by rw [hc2, hc1]⟩
    rw [heq, hres]
    simp

end ModVerif.Proofs.ModfileFmtParse
