/-
  Fuel of the regenerated directive layer from the INPUT LENGTH, part A: what the go.mod lexer model consumes.
  `readToken` pays for everything it delivers with bytes of the input: the text of the delivered token is not longer than
  the bytes consumed (`readToken_w`, first part), a token other than EOF consumes at least one byte and a recorded
  end-of-line comment a second one (second part).  Stated with two potentials of a lexer state: `Bp` (bytes: the text of
  the pending token + what remains) and `Cn` (count: 1 for a pending non-EOF token + recorded comments + what remains).
  Owner: rule-fuel.
-/
import ModVerif.Model.Modfile.Comments
import ModVerif.Proofs.ModfileC20Lex
set_option linter.unusedSimpArgs false
set_option linter.unusedVariables false
namespace ModVerif.Tie.FnRuleFuelA
open ModVerif ModVerif.Modfile ModVerif.Proofs.ModfileLex ModVerif.Proofs.ModfileC20

/-- 1 for a pending token other than EOF -/
def pc (i : Input) : Nat := if i.token.kind = .eof then 0 else 1
/-- byte potential: the text of the pending token and the bytes not yet read -/
def Bp (i : Input) : Nat := i.token.text.length + i.remaining.length
/-- count potential: the pending token, the recorded end-of-line comments, the bytes not yet read -/
def Cn (i : Input) : Nat := pc i + i.commentsRev.length + i.remaining.length

@[simp] theorem pc_nextId (i : Input) (n : Nat) : pc { i with nextId := n } = pc i := rfl
@[simp] theorem Bp_nextId (i : Input) (n : Nat) : Bp { i with nextId := n } = Bp i := rfl
@[simp] theorem Cn_nextId (i : Input) (n : Nat) : Cn { i with nextId := n } = Cn i := rfl

theorem readRune_w {i i' : Input} {r : Nat} (h : readRune i = .ok (r, i')) :
    i'.remaining.length < i.remaining.length ∧
    i'.tokRev.length + i'.remaining.length = i.tokRev.length + i.remaining.length ∧
    i'.commentsRev = i.commentsRev ∧ i'.token = i.token := by
  unfold readRune at h
  split at h
  · cases h
  · rename_i a t hr
    have hw := decodeRune_width i.remaining (by rw [hr]; simp)
    simp only [Except.ok.injEq, Prod.mk.injEq] at h
    obtain ⟨_, rfl⟩ := h
    refine ⟨?_, ?_, rfl, rfl⟩ <;>
      simp only [List.length_append, List.length_reverse, List.length_take, List.length_drop] <;> omega

/-- the state between `startToken` and `endToken`: the bytes of the token so far and the rest add up to `R0` -/
def P2 (R0 : Nat) (C : List Comment) (j : Input) : Prop := j.tokRev.length + j.remaining.length = R0 ∧ j.commentsRev = C

theorem P2_readRune (R0 : Nat) (C : List Comment) : ∀ i r i', P2 R0 C i → readRune i = .ok (r, i') → P2 R0 C i' := by
  intro i r i' hp h
  obtain ⟨_, h2, h3, _⟩ := readRune_w h
  exact ⟨by rw [h2]; exact hp.1, by rw [h3]; exact hp.2⟩

theorem strip_len (l : Bytes) : (match l with | 10 :: 13 :: r => r | 10 :: r => r | r => r).length ≤ l.length := by
  split <;> (try simp only [List.length_cons]) <;> omega

theorem endToken_w (k : TokKind) (j : Input) :
    (endToken k j).token.text.length ≤ j.tokRev.length ∧ (endToken k j).remaining = j.remaining ∧
    (endToken k j).commentsRev = j.commentsRev ∧ (endToken k j).token.kind = k := by
  refine ⟨?_, rfl, rfl, rfl⟩
  unfold endToken
  simp only [List.length_reverse]
  split
  · exact strip_len j.tokRev
  · exact Nat.le_refl _

theorem P2_endToken {R0 : Nat} {C : List Comment} {j : Input} (k : TokKind) (hp : P2 R0 C j) :
    (endToken k j).token.text.length + (endToken k j).remaining.length ≤ R0 ∧ (endToken k j).commentsRev = C := by
  obtain ⟨h1, h2, h3, _⟩ := endToken_w k j
  rw [h2, h3]
  exact ⟨by have := hp.1; omega, hp.2⟩

/-- a comment: two bytes at least -/
theorem readComment_w {i i' : Input} (h : readComment i = .ok i') :
    i'.token.text.length + i'.remaining.length ≤ i.remaining.length ∧
    (i'.commentsRev = i.commentsRev ∨ (i'.commentsRev.length = i.commentsRev.length + 1 ∧ i'.remaining.length + 2 ≤ i.remaining.length)) := by
  unfold readComment at h
  simp only [bind, Except.bind] at h
  cases h1 : readRune (startToken i) with
  | error e => simp [h1] at h
  | ok v1 =>
    obtain ⟨r1, j1⟩ := v1
    simp only [h1] at h
    cases h2 : readRune j1 with
    | error e => simp [h2] at h
    | ok v2 =>
      obtain ⟨r2, j2⟩ := v2
      simp only [h2] at h
      obtain ⟨a1, a2, a3, _⟩ := readRune_w h1
      obtain ⟨b1, b2, b3, _⟩ := readRune_w h2
      have hs : (startToken i).tokRev.length + (startToken i).remaining.length = i.remaining.length := by
        simp [startToken]
      have hsr : (startToken i).remaining = i.remaining := rfl
      have hsc : (startToken i).commentsRev = i.commentsRev := rfl
      let P3 : Input → Prop := fun j => j.tokRev.length + j.remaining.length = i.remaining.length ∧
        j.remaining.length + 2 ≤ i.remaining.length ∧ j.commentsRev = i.commentsRev
      have hP3 : ∀ j r j', P3 j → readRune j = .ok (r, j') → P3 j' := by
        intro j r j' hp hr
        obtain ⟨c1, c2, c3, _⟩ := readRune_w hr
        exact ⟨by rw [c2]; exact hp.1, by have := hp.2.1; omega, by rw [c3]; exact hp.2.2⟩
      have p2 : P3 j2 := ⟨by omega, by rw [hsr] at a1; omega, b3.trans (a3.trans hsc)⟩
      have hc := consumeLine_res (P := P3) (Q := fun _ => True) hP3 (fun _ _ => trivial) (j2.remaining.length + 1) j2 p2
      cases h3 : consumeLine (j2.remaining.length + 1) j2 with
      | error e => simp [h3] at h
      | ok j3 =>
        rw [h3] at hc
        simp only [h3] at h
        obtain ⟨d1, d2, d3⟩ : P3 j3 := hc
        split at h
        · simp only [Except.ok.injEq] at h
          subst h
          obtain ⟨e1, e2, e3, _⟩ := endToken_w .comment j3
          rw [e2, e3]
          exact ⟨by omega, Or.inl d3⟩
        · simp only [Except.ok.injEq] at h
          subst h
          obtain ⟨e1, e2, e3, _⟩ := endToken_w .eolComment j3
          simp only [List.length_cons]
          rw [e2]
          exact ⟨by omega, Or.inr ⟨by rw [e3, d3], by omega⟩⟩

/-- **`readToken` pays with input bytes**: the text of the delivered token, and a second byte for a recorded comment -/
theorem readToken_w {i i' : Input} (h : readToken i = .ok i') :
    Bp i' ≤ i.remaining.length ∧ Cn i' ≤ i.commentsRev.length + i.remaining.length := by
  -- the count of the token itself: `readToken_spec`
  have hcount : pc i' + i'.remaining.length ≤ i.remaining.length := by
    rcases readToken_spec i with ⟨i1, h1, hle, hlt, _⟩ | ⟨e, h1, _⟩
    · rw [h1] at h; cases h
      unfold pc
      split
      · omega
      · rename_i hk; have := hlt hk; omega
    · rw [h1] at h; cases h
  suffices hm : i'.token.text.length + i'.remaining.length ≤ i.remaining.length ∧
      (i'.commentsRev = i.commentsRev ∨ (i'.commentsRev.length = i.commentsRev.length + 1 ∧ i'.remaining.length + 2 ≤ i.remaining.length)) by
    refine ⟨hm.1, ?_⟩
    unfold Cn
    rcases hm.2 with hc | ⟨hc, hr⟩
    · rw [hc]; omega
    · rw [hc]; unfold pc; split <;> omega
  unfold readToken at h
  let P1 : Input → Prop := fun j => j.remaining.length ≤ i.remaining.length ∧ j.commentsRev = i.commentsRev
  have hP1 : ∀ j r j', P1 j → readRune j = .ok (r, j') → P1 j' := by
    intro j r j' hp hr
    obtain ⟨c1, _, c3, _⟩ := readRune_w hr
    exact ⟨by have := hp.1; omega, by rw [c3]; exact hp.2⟩
  have hs := skipSpaces_res (P := P1) (Q := fun _ => True) hP1 (fun _ _ => trivial) (i.remaining.length + 1) i ⟨Nat.le_refl _, rfl⟩
  cases h0 : skipSpaces (i.remaining.length + 1) i with
  | error e => simp [h0, bind, Except.bind] at h
  | ok i0 =>
    rw [h0] at hs
    obtain ⟨s1, s2⟩ : P1 i0 := hs
    simp only [h0, bind, Except.bind] at h
    have hst : P2 i0.remaining.length i.commentsRev (startToken i0) := ⟨by simp [startToken], s2⟩
    have fin : ∀ (k : TokKind) (j : Input), P2 i0.remaining.length i.commentsRev j → i' = endToken k j →
        i'.token.text.length + i'.remaining.length ≤ i.remaining.length ∧
        (i'.commentsRev = i.commentsRev ∨ (i'.commentsRev.length = i.commentsRev.length + 1 ∧ i'.remaining.length + 2 ≤ i.remaining.length)) := by
      intro k j hp he
      subst he
      obtain ⟨e1, e2⟩ := P2_endToken k hp
      exact ⟨by omega, Or.inl e2⟩
    have hR := P2_readRune i0.remaining.length i.commentsRev
    split at h
    · obtain ⟨c1, c2⟩ := readComment_w h
      refine ⟨by omega, ?_⟩
      rcases c2 with c2 | ⟨c2, c3⟩
      · exact Or.inl (by rw [c2, s2])
      · exact Or.inr ⟨by rw [c2, s2], by omega⟩
    · split at h
      · cases h
      · split at h
        · simp only [Except.ok.injEq] at h
          exact fin _ _ hst h.symm
        · split at h
          · cases h1 : readRune (startToken i0) with
            | error e => simp [h1] at h
            | ok v1 =>
              simp only [h1, Except.ok.injEq] at h
              exact fin _ _ (hR _ v1.1 v1.2 hst (by rw [h1])) h.symm
          · split at h
            · cases h1 : readRune (startToken i0) with
              | error e => simp [h1] at h
              | ok v1 =>
                simp only [h1] at h
                have hv1 := hR _ v1.1 v1.2 hst (by rw [h1])
                have h2 := readString_res (Q := fun _ => True) hR (fun _ _ => trivial) (fun _ _ => trivial)
                  (startToken i0).peekRune (v1.2.remaining.length + 1) v1.2 hv1
                cases hrs : readString (startToken i0).peekRune (v1.2.remaining.length + 1) v1.2 with
                | error e => simp [hrs] at h
                | ok v2 =>
                  rw [hrs] at h2
                  simp only [hrs, Except.ok.injEq] at h
                  exact fin _ _ h2 h.symm
            · split at h
              · cases h
              · have h2 := readIdent_res (Q := fun _ => True) hR (fun _ _ => trivial)
                  (i0.remaining.length + 1) (startToken i0) hst
                cases hri : readIdent (i0.remaining.length + 1) (startToken i0) with
                | error e => simp [startToken_remaining, hri] at h
                | ok v2 =>
                  rw [hri] at h2
                  simp only [startToken_remaining, hri, Except.ok.injEq] at h
                  exact fin _ _ h2 h.symm

/-- `lex`: the pending token is delivered, its text and its count are released from the potentials -/
theorem lex_w {i i' : Input} {t : Token} (h : lex i = .ok (t, i')) :
    t = i.token ∧ Bp i' + t.text.length ≤ Bp i ∧ Cn i' + pc i ≤ Cn i := by
  unfold lex at h
  cases h1 : readToken i with
  | error e => simp [h1, bind, Except.bind] at h
  | ok j =>
    simp only [h1, bind, Except.bind, Except.ok.injEq, Prod.mk.injEq] at h
    obtain ⟨rfl, rfl⟩ := h
    obtain ⟨a, b⟩ := readToken_w h1
    refine ⟨rfl, ?_, ?_⟩
    · unfold Bp at a ⊢; omega
    · have : Cn i = pc i + i.commentsRev.length + i.remaining.length := rfl
      omega

end ModVerif.Tie.FnRuleFuelA
