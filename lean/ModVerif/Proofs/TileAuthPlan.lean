/-
  C10: the planning part of ReadHashes.  Invariants of the tile list / tileOrder map, the tree-hash loop
  (`planStx`), the walk up / walk down of one requested index (structural facts (b), (c)).
-/
import ModVerif.Proofs.TileAuthStx
namespace ModVerif.TileAuth
open ModVerif ModVerif.Tlog ModVerif.Tile ModVerif.TlogStore

/-- the stored-hash position of a coordinate -/
def idxOf (c : Nat × Nat) : Nat := storedHashIndex c.1 c.2

/-- the tile (with the width the tree gives it) that holds coordinate `(lv, k)` -/
def home (h N : Nat) (c : Nat × Nat) : Tile := stdTile h N (c.1 / h) (tnum h c.1 c.2)

/-- the tileOrder map is exactly the position map of the tile list -/
def Look (tiles : List Tile) (order : List (Tile × Nat)) : Prop :=
  ∀ t j, order.lookup t = some j ↔ tiles[j]? = some t

/-- every listed tile is a non-empty standard tile of the tree -/
def Std (h N : Nat) (tiles : List Tile) : Prop :=
  ∀ t ∈ tiles, ∃ L n, t = stdTile h N L n ∧ n * 2 ^ h < cnt h N L

theorem look_nil : Look [] [] := by
  intro t j; simp [List.lookup]

theorem look_none {tiles : List Tile} {order : List (Tile × Nat)} (hl : Look tiles order) (p : Tile)
    (hp : order.lookup p = none) : p ∉ tiles := by
  intro hmem
  obtain ⟨j, hj⟩ := List.mem_iff_getElem?.mp hmem
  have := (hl p j).mpr hj
  rw [hp] at this; cases this

theorem look_push {tiles : List Tile} {order : List (Tile × Nat)} (hl : Look tiles order) (p : Tile)
    (hp : order.lookup p = none) : Look (tiles ++ [p]) ((p, tiles.length) :: order) := by
  intro t j
  rw [List.lookup_cons, List.getElem?_append]
  by_cases htp : t = p
  · subst htp
    simp only [beq_self_eq_true, Option.some.injEq]
    constructor
    · intro e; subst e; simp
    · intro e
      by_cases hj : j < tiles.length
      · rw [if_pos hj] at e
        have := (hl t j).mpr e
        rw [hp] at this; cases this
      · rw [if_neg hj] at e
        by_cases hj2 : j - tiles.length = 0
        · omega
        · have : ([t] : List Tile)[j - tiles.length]? = none := by
            apply List.getElem?_eq_none; simp; omega
          rw [this] at e; cases e
  · have hb : (t == p) = false := by simpa using htp
    simp only [hb]
    rw [hl t j]
    by_cases hj : j < tiles.length
    · rw [if_pos hj]
    · rw [if_neg hj]
      have h1 : tiles[j]? = none := List.getElem?_eq_none (by omega)
      rw [h1]
      constructor
      · intro e; cases e
      · intro e
        by_cases hj2 : j - tiles.length = 0
        · rw [hj2] at e
          simp only [List.getElem?_cons_zero, Option.some.injEq] at e
          exact absurd e.symm htp
        · have : ([p] : List Tile)[j - tiles.length]? = none := by
            apply List.getElem?_eq_none; simp; omega
          rw [this] at e; cases e

theorem look_inj {tiles : List Tile} {order : List (Tile × Nat)} (hl : Look tiles order) (t : Tile) (i j : Nat)
    (hi : tiles[i]? = some t) (hj : tiles[j]? = some t) : i = j := by
  have a := (hl t i).mpr hi
  have b := (hl t j).mpr hj
  rw [a] at b
  exact Option.some.inj b

theorem std_push {h N : Nat} {tiles : List Tile} (hs : Std h N tiles) (p : Tile)
    (hp : ∃ L n, p = stdTile h N L n ∧ n * 2 ^ h < cnt h N L) : Std h N (tiles ++ [p]) := by
  intro t ht
  rcases List.mem_append.mp ht with h1 | h1
  · exact hs t h1
  · simp only [List.mem_singleton] at h1
    subst h1; exact hp

/-- what `tileForIndex` yields for an index with known coordinates, as far as `tileParent` can tell -/
theorem tileForIndex_parent (h N x lv k : Nat) (hh : 0 < h) (hs : splitStoredHashIndex x = .ok (lv, k)) :
    ∃ t0 s e, tileForIndex h x = .ok (t0, s, e) ∧
      ∀ kk, tileParent t0 kk N = stdTile h N (lv / h + kk) (tnum h lv k / 2 ^ (kk * h)) := by
  refine ⟨_, _, _, tileForIndex_eq h x lv k hh hs, ?_⟩
  intro kk
  rw [tileParent_eq _ _ _ rfl]
  rfl

theorem tileForIndex_home (h N x : Nat) (c : Nat × Nat) (hh : 0 < h) (hs : splitStoredHashIndex x = .ok c) :
    ∃ t0 s e, tileForIndex h x = .ok (t0, s, e) ∧ tileParent t0 0 N = home h N c := by
  obtain ⟨t0, s, e, h1, h2⟩ := tileForIndex_parent h N x c.1 c.2 hh hs
  refine ⟨t0, s, e, h1, ?_⟩
  rw [h2 0]
  simp [home]

theorem home_nonzero (h N : Nat) (c : Nat × Nat) (hh : 0 < h) (hv : (c.2 + 1) * 2 ^ c.1 ≤ N) :
    tnum h c.1 c.2 * 2 ^ h < cnt h N (c.1 / h) := by
  have := coord_in_tile h N c.1 c.2 hh hv
  have := Nat.two_pow_pos (c.1 % h)
  omega

/-- the first planning loop -/
theorem planStx_spec (h N : Nat) (hh : 0 < h) :
    ∀ (cs : List (Nat × Nat)) (tiles : List Tile) (order : List (Tile × Nat)) (sto : List Nat),
      (∀ c ∈ cs, (c.2 + 1) * 2 ^ c.1 ≤ N ∧ splitStoredHashIndex (idxOf c) = .ok c) →
      Look tiles order → Std h N tiles →
      ∃ ext order' sto', planStx h N (cs.map idxOf) (tiles, order, sto) = .ok (tiles ++ ext, order', sto ++ sto') ∧
        Look (tiles ++ ext) order' ∧ Std h N (tiles ++ ext) ∧ (∀ t ∈ ext, ∃ c ∈ cs, t = home h N c) ∧
        sto'.length = cs.length ∧
        ∀ (i : Nat) (c : Nat × Nat), cs[i]? = some c → ∃ j, sto'[i]? = some j ∧ (tiles ++ ext)[j]? = some (home h N c) := by
  intro cs
  induction cs with
  | nil =>
    intro tiles order sto _ hl hs
    exact ⟨[], order, [], by simp [planStx], by simpa using hl, by simpa using hs, by simp, rfl, by simp⟩
  | cons c cs ih =>
    intro tiles order sto hcs hl hs
    obtain ⟨hv, hsp⟩ := hcs c (by simp)
    obtain ⟨t0, s, e, ht0, hpar⟩ := tileForIndex_home h N (idxOf c) c hh hsp
    have hnz := home_nonzero h N c hh hv
    simp only [List.map_cons, planStx, ht0, bind, Except.bind, hpar]
    cases hlk : order.lookup (home h N c) with
    | some j =>
      simp only
      obtain ⟨ext, order', sto', h1, h2, h3, h4, h5, h6⟩ :=
        ih tiles order (sto ++ [j]) (fun c' hc' => hcs c' (by simp [hc'])) hl hs
      refine ⟨ext, order', j :: sto', by rw [h1]; simp, h2, h3, ?_, by simp [h5], ?_⟩
      · intro t ht
        obtain ⟨c', hc', e'⟩ := h4 t ht
        exact ⟨c', by simp [hc'], e'⟩
      · intro i c' hi
        cases i with
        | zero =>
          simp only [List.getElem?_cons_zero, Option.some.injEq] at hi
          subst hi
          refine ⟨j, rfl, ?_⟩
          have := (hl _ j).mp hlk
          rw [List.getElem?_append_left (by
            have := List.getElem?_eq_some_iff.mp this; exact this.1)]
          exact this
        | succ i =>
          simp only [List.getElem?_cons_succ] at hi ⊢
          exact h6 i c' hi
    | none =>
      simp only
      have hl' := look_push hl _ hlk
      have hs' := std_push hs (home h N c) ⟨_, _, rfl, hnz⟩
      obtain ⟨ext, order', sto', h1, h2, h3, h4, h5, h6⟩ :=
        ih (tiles ++ [home h N c]) _ (sto ++ [tiles.length]) (fun c' hc' => hcs c' (by simp [hc'])) hl' hs'
      refine ⟨home h N c :: ext, order', tiles.length :: sto', by rw [h1]; simp, by simpa using h2,
        by simpa using h3, ?_, by simp [h5], ?_⟩
      · intro t ht
        rcases List.mem_cons.mp ht with e' | e'
        · exact ⟨c, by simp, e'⟩
        · obtain ⟨c', hc', e''⟩ := h4 t e'
          exact ⟨c', by simp [hc'], e''⟩
      · intro i c' hi
        cases i with
        | zero =>
          simp only [List.getElem?_cons_zero, Option.some.injEq] at hi
          subst hi
          refine ⟨tiles.length, rfl, ?_⟩
          simp
        | succ i =>
          simp only [List.getElem?_cons_succ] at hi ⊢
          obtain ⟨j, hj1, hj2⟩ := h6 i c' hi
          exact ⟨j, hj1, by simpa using hj2⟩

/-! ### the second planning loop -/

/-- invariant of the tile list / tileOrder map after the tree-hash loop -/
structure PInv (h N nstx : Nat) (tiles : List Tile) (order : List (Tile × Nat)) : Prop where
  look : Look tiles order
  std : Std h N tiles
  /-- every partial tile of the tree is listed (they are the tree-hash tiles) -/
  partials : ∀ L n, n * 2 ^ h < cnt h N L → cnt h N L < (n + 1) * 2 ^ h → stdTile h N L n ∈ tiles
  /-- every later tile is full and listed after its parent -/
  child : ∀ i t, nstx ≤ i → tiles[i]? = some t → t.w = 2 ^ h ∧ ∃ j, j < i ∧ tiles[j]? = some (tileParent t 1 N)

theorem div_pow_succ (n0 k h : Nat) : n0 / 2 ^ ((k + 1) * h) = n0 / 2 ^ (k * h) / 2 ^ h := by
  rw [Nat.div_div_eq_div_mul, ← Nat.pow_add, Nat.add_mul, Nat.one_mul]

/-- a full tile at level `L0 + k` means the tree has at least `2^(k+1)` records -/
theorem full_log2 (h N L n : Nat) (hh : 0 < h) (k : Nat) (hk : k ≤ L) (hfull : (n + 1) * 2 ^ h ≤ cnt h N L) :
    k + 1 ≤ N.log2 := by
  have h2 : 2 ≤ cnt h N L := by
    have : 2 ^ 1 ≤ 2 ^ h := Nat.pow_le_pow_right (by omega) hh
    have : 1 * 2 ^ h ≤ (n + 1) * 2 ^ h := Nat.mul_le_mul_right _ (by omega)
    omega
  unfold cnt at h2
  rw [Nat.le_div_iff_mul_le (Nat.two_pow_pos _)] at h2
  have hN : N ≠ 0 := by
    have := Nat.two_pow_pos (L * h); omega
  rw [Nat.le_log2 hN]
  have : 2 ^ (k + 1) ≤ 2 * 2 ^ (L * h) := by
    rw [Nat.pow_succ, Nat.mul_comm]
    apply Nat.mul_le_mul_left
    apply Nat.pow_le_pow_right (by omega)
    calc k ≤ L := hk
      _ = L * 1 := by omega
      _ ≤ L * h := Nat.mul_le_mul_left _ hh
  omega

theorem stdTile_full_w (h N L n : Nat) (hfull : (n + 1) * 2 ^ h ≤ cnt h N L) :
    stdTile h N L n = { h := h, l := L, n := n, w := 2 ^ h } := by
  have hp := Nat.two_pow_pos h
  rw [Nat.add_mul] at hfull
  rw [stdTile_of_lt h N L n (by omega)]
  congr 1
  omega

/-- structural fact (c): the walk up terminates within the fuel, at a listed tile, and every tile passed is full -/
theorem walkUp_spec (h N nstx : Nat) (hh : 0 < h) (tiles : List Tile) (order : List (Tile × Nat))
    (inv : PInv h N nstx tiles order) (t0 : Tile) (L0 n0 : Nat)
    (hpar : ∀ kk, tileParent t0 kk N = stdTile h N (L0 + kk) (n0 / 2 ^ (kk * h))) :
    ∀ f k, N.log2 + 2 ≤ f + k → k ≤ N.log2 → (n0 / 2 ^ (k * h)) * 2 ^ h < cnt h N (L0 + k) →
      ∃ K j, walkUp N order t0 f k = .ok (K, j) ∧ k ≤ K ∧ order.lookup (tileParent t0 K N) = some j ∧
        (∀ k', k ≤ k' → k' < K → order.lookup (tileParent t0 k' N) = none ∧
          (n0 / 2 ^ (k' * h) + 1) * 2 ^ h ≤ cnt h N (L0 + k')) := by
  intro f
  induction f with
  | zero => intro k h1 h2 _; omega
  | succ f ih =>
    intro k h1 h2 hnz
    unfold walkUp
    cases hlk : order.lookup (tileParent t0 k N) with
    | some j =>
      exact ⟨k, j, rfl, Nat.le_refl _, hlk, fun k' a b => by omega⟩
    | none =>
      simp only
      have hnot := look_none inv.look _ hlk
      rw [hpar k] at hnot
      have hfull : (n0 / 2 ^ (k * h) + 1) * 2 ^ h ≤ cnt h N (L0 + k) := by
        apply Nat.le_of_not_lt
        intro hc
        exact hnot (inv.partials _ _ hnz hc)
      have hlog := full_log2 h N (L0 + k) _ hh k (by omega) hfull
      have hnz' : (n0 / 2 ^ ((k + 1) * h)) * 2 ^ h < cnt h N (L0 + (k + 1)) := by
        rw [div_pow_succ]
        have := parent_of_full h N (L0 + k) _ hfull
        have := Nat.div_mul_le_self (n0 / 2 ^ (k * h)) (2 ^ h)
        rw [show L0 + (k + 1) = L0 + k + 1 by omega]
        omega
      obtain ⟨K, j, e1, e2, e3, e4⟩ := ih (k + 1) (by omega) (by omega) hnz'
      refine ⟨K, j, e1, by omega, e3, ?_⟩
      intro k' a b
      by_cases hk' : k' = k
      · subst hk'; exact ⟨hlk, hfull⟩
      · exact e4 k' (by omega) b

/-- structural fact (b): the walk down only records full tiles, each after its parent; "must be full" is unreachable -/
theorem walkDown_spec (h N nstx : Nat) (t0 : Tile) (L0 n0 : Nat)
    (hpar : ∀ kk, tileParent t0 kk N = stdTile h N (L0 + kk) (n0 / 2 ^ (kk * h))) :
    ∀ (K : Nat) (tiles : List Tile) (order : List (Tile × Nat)) (ito : Option Nat),
      PInv h N nstx tiles order → nstx ≤ tiles.length →
      (∀ k', k' < K → order.lookup (tileParent t0 k' N) = none ∧
          (n0 / 2 ^ (k' * h) + 1) * 2 ^ h ≤ cnt h N (L0 + k')) →
      (∃ j : Nat, tiles[j]? = some (tileParent t0 K N)) →
      (K = 0 → ∃ p : Nat, ito = some p ∧ tiles[p]? = some (tileParent t0 0 N)) →
      ∃ ext order' p, walkDown N t0 K (tiles, order, ito) = .ok (tiles ++ ext, order', some p) ∧
        PInv h N nstx (tiles ++ ext) order' ∧ (tiles ++ ext)[p]? = some (tileParent t0 0 N) := by
  intro K
  induction K with
  | zero =>
    intro tiles order ito inv _ _ _ hito
    obtain ⟨p, e1, e2⟩ := hito rfl
    subst e1
    exact ⟨[], order, p, by simp [walkDown], by simpa using inv, by simpa using e2⟩
  | succ K ih =>
    intro tiles order ito inv hlen hup hparent _
    obtain ⟨hlk, hfull⟩ := hup K (by omega)
    have hUK := hpar K
    rw [stdTile_full_w h N _ _ hfull] at hUK
    unfold walkDown
    simp only [hUK, bne_self_eq_false, Bool.false_eq_true, ↓reduceIte]
    rw [hUK] at hlk
    have hfull' := hfull
    rw [Nat.add_mul] at hfull'
    have hp2 := Nat.two_pow_pos h
    have hnzK : n0 / 2 ^ (K * h) * 2 ^ h < cnt h N (L0 + K) := by omega
    -- the new invariant
    have inv' : PInv h N nstx (tiles ++ [{ h := h, l := L0 + K, n := n0 / 2 ^ (K * h), w := 2 ^ h }])
        (({ h := h, l := L0 + K, n := n0 / 2 ^ (K * h), w := 2 ^ h }, tiles.length) :: order) := by
      refine ⟨look_push inv.look _ hlk, std_push inv.std _ ⟨L0 + K, _, (stdTile_full_w h N _ _ hfull).symm, hnzK⟩, ?_, ?_⟩
      · intro L n a b
        exact List.mem_append_left _ (inv.partials L n a b)
      · intro i t hi ht
        rw [List.getElem?_append] at ht
        by_cases hil : i < tiles.length
        · rw [if_pos hil] at ht
          obtain ⟨c1, j, c2, c3⟩ := inv.child i t hi ht
          exact ⟨c1, j, c2, by rw [List.getElem?_append_left (by omega)]; exact c3⟩
        · rw [if_neg hil] at ht
          have hi0 : i - tiles.length = 0 := by
            apply Nat.eq_zero_of_not_pos
            intro hpos
            have : ([{ h := h, l := L0 + K, n := n0 / 2 ^ (K * h), w := 2 ^ h }] : List Tile)[i - tiles.length]? = none := by
              apply List.getElem?_eq_none; simp; omega
            rw [this] at ht; cases ht
          rw [hi0] at ht
          simp only [List.getElem?_cons_zero, Option.some.injEq] at ht
          subst ht
          refine ⟨rfl, ?_⟩
          obtain ⟨j, hj⟩ := hparent
          refine ⟨j, ?_, ?_⟩
          · have := (List.getElem?_eq_some_iff.mp hj).1; omega
          · rw [List.getElem?_append_left (by have := (List.getElem?_eq_some_iff.mp hj).1; omega), hj,
              hpar (K + 1), tileParent_eq _ _ _ rfl]
            simp only [Nat.one_mul]
            rw [div_pow_succ, show L0 + K + 1 = L0 + (K + 1) by omega]
    have hup' : ∀ k', k' < K →
        List.lookup (tileParent t0 k' N) (({ h := h, l := L0 + K, n := n0 / 2 ^ (K * h), w := 2 ^ h }, tiles.length) :: order) = none ∧
          (n0 / 2 ^ (k' * h) + 1) * 2 ^ h ≤ cnt h N (L0 + k') := by
      intro k' hk'
      obtain ⟨a, b⟩ := hup k' (by omega)
      refine ⟨?_, b⟩
      rw [List.lookup_cons]
      have hne : (tileParent t0 k' N == { h := h, l := L0 + K, n := n0 / 2 ^ (K * h), w := 2 ^ h }) = false := by
        rw [hpar k', stdTile_full_w h N _ _ b]
        simp; omega
      rw [hne]
      exact a
    obtain ⟨ext, order', p, e1, e2, e3⟩ := ih _ _ (if K == 0 then some tiles.length else ito) inv'
      (by simp; omega) hup' ⟨tiles.length, by rw [hUK]; simp⟩
      (by intro hK; subst hK; exact ⟨tiles.length, by simp, by rw [hUK]; simp⟩)
    refine ⟨{ h := h, l := L0 + K, n := n0 / 2 ^ (K * h), w := 2 ^ h } :: ext, order', p, by rw [e1]; simp,
      by simpa using e2, by simpa using e3⟩

/-- one requested index: the plan is extended by full tiles (parents first) down to the tile of the index -/
theorem planIndex_spec (h N nstx : Nat) (hh : 0 < h) (tiles : List Tile) (order : List (Tile × Nat)) (ito : List Nat)
    (inv : PInv h N nstx tiles order) (hlen : nstx ≤ tiles.length) (x : Nat) (c : Nat × Nat)
    (hx : x < storedHashIndex 0 N) (hs : splitStoredHashIndex x = .ok c) (hv : (c.2 + 1) * 2 ^ c.1 ≤ N) :
    ∃ ext order' p, planIndex h N (tiles, order, ito) x = .ok (tiles ++ ext, order', ito ++ [p]) ∧
      PInv h N nstx (tiles ++ ext) order' ∧ (tiles ++ ext)[p]? = some (home h N c) := by
  obtain ⟨t0, s, e, ht0, hpar⟩ := tileForIndex_parent h N x c.1 c.2 hh hs
  have hnz := home_nonzero h N c hh hv
  obtain ⟨K, j, w1, _, w3, w4⟩ := walkUp_spec h N nstx hh tiles order inv t0 (c.1 / h) (tnum h c.1 c.2) hpar
    (N.log2 + 2) 0 (by omega) (by omega) (by simpa using hnz)
  have hj := (inv.look _ j).mp w3
  obtain ⟨ext, order', p, d1, d2, d3⟩ := walkDown_spec h N nstx t0 (c.1 / h) (tnum h c.1 c.2) hpar K tiles order
    (if K == 0 then some j else none) inv hlen (fun k' hk' => w4 k' (by omega) hk') ⟨j, hj⟩
    (by intro hK; subst hK; exact ⟨j, by simp, hj⟩)
  refine ⟨ext, order', p, ?_, d2, ?_⟩
  · unfold planIndex
    simp only [ge_iff_le, Nat.not_le.mpr hx, ↓reduceIte, ht0, w1, d1, bind, Except.bind, pure, Except.pure]
  · rw [d3, hpar 0]
    simp [home]

/-- the second planning loop over all requested indexes -/
theorem planIndexes_spec (h N nstx : Nat) (hh : 0 < h) :
    ∀ (idx : List Nat) (tiles : List Tile) (order : List (Tile × Nat)) (ito : List Nat),
      PInv h N nstx tiles order → nstx ≤ tiles.length →
      (∀ x ∈ idx, x < storedHashIndex 0 N ∧ ∃ c, splitStoredHashIndex x = .ok c ∧ (c.2 + 1) * 2 ^ c.1 ≤ N) →
      ∃ ext order' ito', planIndexes h N idx (tiles, order, ito) = .ok (tiles ++ ext, order', ito ++ ito') ∧
        PInv h N nstx (tiles ++ ext) order' ∧ ito'.length = idx.length ∧
        ∀ (i x : Nat) (c : Nat × Nat), idx[i]? = some x → splitStoredHashIndex x = .ok c →
          ∃ j, ito'[i]? = some j ∧ (tiles ++ ext)[j]? = some (home h N c) := by
  intro idx
  induction idx with
  | nil =>
    intro tiles order ito inv _ _
    exact ⟨[], order, [], by simp [planIndexes], by simpa using inv, rfl, by simp⟩
  | cons x xs ih =>
    intro tiles order ito inv hlen hidx
    obtain ⟨hx, c, hs, hv⟩ := hidx x (by simp)
    obtain ⟨ext, order', p, a1, a2, a3⟩ := planIndex_spec h N nstx hh tiles order ito inv hlen x c hx hs hv
    obtain ⟨ext2, order2, ito2, b1, b2, b3, b4⟩ := ih (tiles ++ ext) order' (ito ++ [p]) a2 (by simp; omega)
      (fun y hy => hidx y (by simp [hy]))
    refine ⟨ext ++ ext2, order2, p :: ito2, ?_, by simpa using b2, by simp [b3], ?_⟩
    · simp only [planIndexes, a1, bind, Except.bind, b1]
      simp
    · intro i y c' hi hs'
      cases i with
      | zero =>
        simp only [List.getElem?_cons_zero, Option.some.injEq] at hi
        subst hi
        rw [hs] at hs'
        cases hs'
        refine ⟨p, rfl, ?_⟩
        rw [← List.append_assoc, List.getElem?_append_left (by
          have := (List.getElem?_eq_some_iff.mp a3).1; exact this)]
        exact a3
      | succ i =>
        simp only [List.getElem?_cons_succ] at hi ⊢
        obtain ⟨j, hj1, hj2⟩ := b4 i y c' hi hs'
        exact ⟨j, hj1, by simpa using hj2⟩

/-! ### the whole plan -/

/-- everything the later phases need to know about a successful plan; `cs` are the coordinates of the
    tree-hash indexes (the cover of `[0, N)`) -/
structure PlanOK (h N : Nat) (cs : List (Nat × Nat)) (idx : List Nat) (p : Plan) : Prop where
  cover : Cover cs 0 N
  stx : p.stx = cs.map idxOf
  stoLen : p.stxTileOrder.length = cs.length
  sto : ∀ (i : Nat) (c : Nat × Nat), cs[i]? = some c →
    ∃ j, p.stxTileOrder[i]? = some j ∧ j < p.nstx ∧ p.tiles[j]? = some (home h N c)
  stxTiles : ∀ (j : Nat) (t : Tile), j < p.nstx → p.tiles[j]? = some t → ∃ c ∈ cs, t = home h N c
  nstxLe : p.nstx ≤ p.tiles.length
  inv : PInv h N p.nstx p.tiles p.order
  itoLen : p.indexTileOrder.length = idx.length
  ito : ∀ (i x : Nat) (c : Nat × Nat), idx[i]? = some x → splitStoredHashIndex x = .ok c →
    ∃ j, p.indexTileOrder[i]? = some j ∧ p.tiles[j]? = some (home h N c)

/-- ★ `plan` succeeds on every request inside the tree (no fuel exhaustion in the walk up, no "must be full"),
    and its result has the structure the authentication relies on -/
theorem plan_spec (h N : Nat) (hh : 0 < h) (hN : N < 2 ^ 63)
    (hsplit : ∀ l k, (k + 1) * 2 ^ l ≤ N → splitStoredHashIndex (storedHashIndex l k) = .ok (l, k))
    (idx : List Nat)
    (hidx : ∀ x ∈ idx, x < storedHashIndex 0 N ∧ ∃ c, splitStoredHashIndex x = .ok c ∧ (c.2 + 1) * 2 ^ c.1 ≤ N) :
    ∃ cs p, plan h N idx = .ok p ∧ PlanOK h N cs idx p := by
  obtain ⟨cs, c1, _, c3⟩ := subTreeIndex_spec 0 N (Nat.zero_le _) (aligned_zero N) hN
  have c1' : subTreeIndex 0 N = .ok (cs.map idxOf) := c1
  have hcs : ∀ c ∈ cs, (c.2 + 1) * 2 ^ c.1 ≤ N ∧ splitStoredHashIndex (idxOf c) = .ok c := by
    intro c hc
    have hv := cover_bound cs 0 N c3 c hc
    exact ⟨hv, hsplit c.1 c.2 hv⟩
  obtain ⟨ext, order, sto, s1, s2, s3, s4, s5, s6⟩ := planStx_spec h N hh cs [] [] [] hcs look_nil
    (by intro t ht; simp at ht)
  simp only [List.nil_append] at s1 s2 s3 s6
  have inv0 : PInv h N ext.length ext order := by
    refine ⟨s2, s3, ?_, ?_⟩
    · intro L n a b
      have hp := Nat.two_pow_pos h
      have hcl : cnt h N (L + 1) = n := by
        rw [cnt_succ]
        apply Nat.div_eq_of_lt_le
        · omega
        · exact b
      obtain ⟨c, hc, e1, e2, _, _⟩ := block_cover h N hh cs c3 L (n * 2 ^ h) a (by rw [hcl]; omega)
      rw [Nat.mul_div_cancel _ hp] at e2
      obtain ⟨i, hi⟩ := List.mem_iff_getElem?.mp hc
      obtain ⟨j, _, hj⟩ := s6 i c hi
      have : home h N c = stdTile h N L n := by simp [home, e1, e2]
      rw [← this]
      exact List.mem_iff_getElem?.mpr ⟨j, hj⟩
    · intro i t hi ht
      have := (List.getElem?_eq_some_iff.mp ht).1
      omega
  obtain ⟨ext2, order2, ito, p1, p2, p3, p4⟩ := planIndexes_spec h N ext.length hh idx ext order [] inv0
    (Nat.le_refl _) hidx
  simp only [List.nil_append] at p1
  refine ⟨cs, (⟨ext ++ ext2, order2, cs.map idxOf, sto, ext.length, ito⟩ : Plan), ?_, ?_⟩
  · simp only [plan, c1', s1, p1, bind, Except.bind, pure, Except.pure]
  · refine ⟨c3, rfl, s5, ?_, ?_, by simp, p2, p3, p4⟩
    · intro i c hi
      obtain ⟨j, hj1, hj2⟩ := s6 i c hi
      have hjl := (List.getElem?_eq_some_iff.mp hj2).1
      exact ⟨j, hj1, hjl, by simp only; rw [List.getElem?_append_left hjl]; exact hj2⟩
    · intro j t hj ht
      simp only at hj ht
      rw [List.getElem?_append_left hj] at ht
      exact s4 t (List.mem_iff_getElem?.mpr ⟨j, ht⟩)

end ModVerif.TileAuth
