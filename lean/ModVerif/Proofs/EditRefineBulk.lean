/-
  EditRefine, part 6 — the bulk setters SetRequire / SetRequireSeparateIndirect on the typed lists: with a
  requested list of pairwise distinct, non-empty paths the live requirements afterwards are exactly the requested
  ones (as a multiset), for EVERY map-iteration order `perm`.
-/
import ModVerif.Proofs.EditRefineOps
set_option linter.unusedSimpArgs false
namespace ModVerif.Modfile.Edit
open ModVerif ModVerif.Modfile ModVerif.EditSpec

def Want.toReq (w : Want) : Req := ⟨w.path, w.vers, w.indirect⟩

/-- the requested paths are pairwise different and non-empty -/
def GoodWant (ws : List Want) : Prop := ws.Pairwise (fun a b => a.path ≠ b.path) ∧ ∀ w ∈ ws, w.path ≠ []

theorem GoodWant.sublist {l1 l2 : List Want} (hs : l1.Sublist l2) (h : GoodWant l2) : GoodWant l1 :=
  ⟨h.1.sublist hs, fun w hw => h.2 w (hs.subset hw)⟩

theorem needMap_distinct (strict : Bool) (ws : List Want) : ∀ acc : List Want,
    (acc ++ ws).Pairwise (fun a b => a.path ≠ b.path) → needMap strict ws acc = .ok (acc ++ ws) := by
  induction ws with
  | nil => intro acc _; simp [needMap]
  | cons w ws ih =>
    intro acc h
    have hnone : acc.find? (fun a => a.path == w.path) = none := by
      apply List.find?_eq_none.2
      intro a ha hb
      have := (List.pairwise_append.1 h).2.2 a ha w List.mem_cons_self
      exact this (eq_of_beq hb)
    unfold needMap
    simp only [hnone]
    have : acc ++ w :: ws = (acc ++ [w]) ++ ws := by simp
    rw [this] at h ⊢
    exact ih _ h

/-- removing the (only) entry of `w`'s path and putting `w` in front is a permutation -/
theorem cons_filter_perm (l : List Want) (w : Want) (hw : w ∈ l) (hd : l.Pairwise (fun a b => a.path ≠ b.path)) :
    (w :: l.filter (fun a => a.path != w.path)).Perm l := by
  induction l with
  | nil => cases hw
  | cons x xs ih =>
    rcases List.pairwise_cons.1 hd with ⟨h1, h2⟩
    rcases List.mem_cons.1 hw with rfl | hw'
    · have : xs.filter (fun a => a.path != w.path) = xs := by
        apply List.filter_eq_self.2
        intro a ha
        have := h1 a ha
        simp [bne, Ne.symm this]
      simp [List.filter, this]
    · have hne : (x.path != w.path) = true := by
        have := h1 w hw'
        simp [bne, this]
      simp only [List.filter, hne]
      exact (List.Perm.swap x w _).trans ((ih hw' h2).cons x)

theorem filter_nonempty_self (l : List Want) (h : ∀ w ∈ l, w.path ≠ []) : l.filter (fun a => !a.path.isEmpty) = l := by
  apply List.filter_eq_self.2
  intro a ha
  exact ne_nil_live (h a ha)

theorem setRequireLoop_abs (rs : List Require) : ∀ (need : List Want) (syn : FileSyntax) (rs' : List Require)
    (need' : List Want) (syn' : FileSyntax), GoodWant need → setRequireLoop rs need syn = .ok (rs', need', syn') →
    (liveAbs liveRq aRq rs' ++ need'.map Want.toReq).Perm (need.map Want.toReq) ∧ need'.Sublist need := by
  induction rs with
  | nil =>
    intro need syn rs' need' syn' _ h
    simp only [setRequireLoop, Except.ok.injEq, Prod.mk.injEq] at h
    rcases h with ⟨rfl, rfl, _⟩
    exact ⟨by simp [liveAbs], List.Sublist.refl _⟩
  | cons r rs ih =>
    intro need syn rs' need' syn' hg h
    unfold setRequireLoop at h
    cases hf : need.find? (fun a => a.path == r.mod.path) with
    | some w =>
      simp only [hf, bind, Except.bind] at h
      cases hd : deref r.lineId with
      | error err => simp [hd] at h
      | ok i =>
        simp only [hd] at h
        cases hr : setRequireLoop rs (need.filter (fun a => a.path != r.mod.path))
            (syn.updateLine i (fun l => setIndirectLine w.indirect (setVersionLine w.vers l))) with
        | error err => simp [hr] at h
        | ok res =>
          rcases res with ⟨rs'', need'', syn''⟩
          simp only [hr, pure, Except.pure, Except.ok.injEq, Prod.mk.injEq] at h
          rcases h with ⟨rfl, rfl, _⟩
          have hwmem := List.mem_of_find?_eq_some hf
          have hwp : w.path = r.mod.path := by have := List.find?_some hf; exact eq_of_beq this
          have hsub : (need.filter (fun a => a.path != r.mod.path)).Sublist need := List.filter_sublist
          rcases ih _ _ _ _ _ (hg.sublist hsub) hr with ⟨h1, h2⟩
          refine ⟨?_, h2.trans hsub⟩
          rw [liveAbs_cons]
          have hlive : liveRq { r with mod := { r.mod with version := w.vers }, indirect := w.indirect } = true := by
            simp only [liveRq]; rw [← hwp]; exact ne_nil_live (hg.2 w hwmem)
          simp only [hlive, if_true, List.cons_append]
          have ha : aRq { r with mod := { r.mod with version := w.vers }, indirect := w.indirect } = w.toReq := by
            simp only [aRq, Want.toReq, hwp]
          rw [ha]
          refine (h1.cons _).trans ?_
          rw [← hwp]
          exact ((cons_filter_perm need w hwmem hg.1).map Want.toReq)
    | none =>
      simp only [hf, bind, Except.bind] at h
      cases hd : deref r.lineId with
      | error err => simp [hd] at h
      | ok i =>
        simp only [hd] at h
        rw [filter_nonempty_self need hg.2] at h
        cases hr : setRequireLoop rs need (markRemoved syn i) with
        | error err => simp [hr] at h
        | ok res =>
          rcases res with ⟨rs'', need'', syn''⟩
          simp only [hr, pure, Except.pure, Except.ok.injEq, Prod.mk.injEq] at h
          rcases h with ⟨rfl, rfl, _⟩
          rcases ih _ _ _ _ _ hg hr with ⟨h1, h2⟩
          refine ⟨?_, h2⟩
          rw [liveAbs_cons]
          simpa [liveRq, clearedRequire] using h1

theorem foldl_addNewRequire_abs (ws : List Want) : ∀ e : EFile, TInv e → (∀ w ∈ ws, w.path ≠ []) →
    absLive (ws.foldl (fun e w => addNewRequire e w.path w.vers w.indirect) e).f
      = { absLive e.f with require := (absLive e.f).require ++ ws.map Want.toReq } ∧
    TInv (ws.foldl (fun e w => addNewRequire e w.path w.vers w.indirect) e) := by
  induction ws with
  | nil => intro e hi _; exact ⟨by simp, hi⟩
  | cons w ws ih =>
    intro e hi hne
    rcases addNewRequire_abs e w.path w.vers w.indirect (hne w List.mem_cons_self) hi with ⟨h1, h2, _⟩
    rcases ih (addNewRequire e w.path w.vers w.indirect) h2 (fun x hx => hne x (List.mem_cons_of_mem _ hx)) with ⟨h3, h4⟩
    refine ⟨?_, h4⟩
    simp only [List.foldl_cons]
    rw [h3, h1]
    simp [Want.toReq]

/-- **SetRequire on the typed lists**: the live requirements are exactly the requested ones; everything else is
    what SortBlocks' de-duplication makes of it. -/
theorem setRequire_abs (e e' : EFile) (req : List Want) (perm : List Want → List Want)
    (hperm : ∀ l, (perm l).Perm l) (hg : GoodWant req) (hi : TInv e) (h : setRequire e req perm = .ok e') :
    (absLive e'.f).require.Perm (req.map Want.toReq) ∧
    absLive e'.f = EditSpec.removeDups { absLive e.f with require := (absLive e'.f).require } ∧ TInv e' := by
  unfold setRequire at h
  rw [needMap_distinct true req [] (by simpa using hg.1)] at h
  simp only [bind, Except.bind, List.nil_append] at h
  cases hr : setRequireLoop e.f.require req e.f.syn with
  | error err => simp [hr] at h
  | ok res =>
    rcases res with ⟨rq, need', syn'⟩
    simp only [hr, pure, Except.pure, Except.ok.injEq] at h
    rcases setRequireLoop_abs _ _ _ _ _ _ hg hr with ⟨h1, h2⟩
    have hi1 : TInv (⟨{ e.f with require := rq, syn := syn' }, e.next⟩ : EFile) := hi.of_same rfl rfl rfl (Nat.le_refl _)
    have hne : ∀ w ∈ perm need', w.path ≠ [] := fun w hw => hg.2 w (h2.subset ((hperm need').subset hw))
    rcases foldl_addNewRequire_abs (perm need') _ hi1 hne with ⟨h3, h4⟩
    rcases sortBlocks_abs _ h4 with ⟨h5, h6⟩
    subst h
    have hreq : (absLive (sortBlocks ((perm need').foldl (fun e w => addNewRequire e w.path w.vers w.indirect)
        (⟨{ e.f with require := rq, syn := syn' }, e.next⟩ : EFile))).f).require
        = liveAbs liveRq aRq rq ++ (perm need').map Want.toReq := by
      rw [h5, h3]; rfl
    refine ⟨?_, ?_, h6⟩
    · rw [hreq]
      exact ((List.Perm.append_left _ ((hperm need').map _))).trans h1
    · rw [hreq, h5, h3]
      rfl

/-! ### SetRequireSeparateIndirect -/

/-- the part of SetRequireSeparateIndirect after the two blocks have been located / created -/
def sepTail (e : EFile) (req : List Want) (perm : List Want → List Want) (ctx : SepCtx) (stmts : List Expr) : Except EditErr EFile := do
  let need ← needMap false req []
  let (rq, have_, syn, next) ← sepLoop ctx need e.f.require [] { e.f.syn with stmts := stmts } e.next
  let e : EFile := { f := { e.f with require := rq, syn := syn }, next := next }
  let missing := (perm need).filter fun w => !have_.contains w.path
  let e := missing.foldl (addSepNew ctx) e
  pure (sortBlocks e)

theorem ensureBlock_err {stmts : List Expr} {i : Nat} {err : EditErr} (h : ensureBlock stmts i = .error err) :
    err = .badStatement := by
  unfold ensureBlock at h
  split at h <;> first | (cases h; done) | (cases h; rfl)

theorem Q_bind {α : Type} (Q : Except EditErr EFile → Prop)
    (x : Except EditErr α) (f : α → Except EditErr EFile) (hx : ∀ err, x = .error err → Q (.error err))
    (h : ∀ a, Q (f a)) : Q (x >>= f) := by
  cases x with
  | error err => exact hx err rfl
  | ok a => exact h a

theorem Q_bind_pure {α : Type} (Q : Except EditErr EFile → Prop)
    (a : α) (f : α → Except EditErr EFile) (h : Q (f a)) : Q ((pure a : Except EditErr α) >>= f) := h

set_option hygiene false in
/-- second stage of the proof below: the indirect block, then the tail -/
local macro "sep_stage2" : tactic =>
  `(tactic| (dsimp only; first
      | (apply Q_bind_pure Q; exact htail _ _)
      | (apply Q_bind Q _ _ (fun err h => by rw [ensureBlock_err h]; exact herr); intro a; apply Q_bind_pure Q; exact htail _ _)
      | (split <;>
          first
            | (apply Q_bind_pure Q; exact htail _ _)
            | (apply Q_bind Q _ _ (fun err h => by rw [ensureBlock_err h]; exact herr); intro a; apply Q_bind_pure Q; exact htail _ _))))

/-- anything that holds of the tail for every choice of blocks (and of the `ensureBlock` panic) holds of
    SetRequireSeparateIndirect -/
theorem setRSI_ind (e : EFile) (req : List Want) (perm : List Want → List Want) (Q : Except EditErr EFile → Prop)
    (herr : Q (.error .badStatement)) (htail : ∀ ctx stmts, Q (sepTail e req perm ctx stmts)) :
    Q (setRequireSeparateIndirect e req perm) := by
  unfold setRequireSeparateIndirect
  dsimp only
  cases hld : (scanStmts e.f.syn.stmts 0 {}).lastDirect with
  | none =>
    dsimp only
    cases hli : (scanStmts e.f.syn.stmts 0 {}).lastIndirect with
    | some j =>
      dsimp only
      apply Q_bind_pure Q
      sep_stage2
    | none =>
      dsimp only
      cases hlr : (scanStmts e.f.syn.stmts 0 {}).lastRequire with
      | some k =>
        dsimp only
        apply Q_bind_pure Q
        sep_stage2
      | none =>
        dsimp only
        apply Q_bind_pure Q
        sep_stage2
  | some d =>
    dsimp only
    apply Q_bind Q _ _ (fun err h => by rw [ensureBlock_err h]; exact herr)
    intro stmts
    apply Q_bind_pure Q
    sep_stage2

theorem addSepNew_abs (ctx : SepCtx) (e : EFile) (w : Want) (hp : w.path ≠ []) (hi : TInv e) :
    absLive (addSepNew ctx e w).f = { absLive e.f with require := (absLive e.f).require ++ [w.toReq] } ∧
    TInv (addSepNew ctx e w) := by
  refine ⟨?_, hi.of_same rfl rfl rfl (Nat.le_succ _)⟩
  simp only [addSepNew, absLive, liveAbs_append]
  congr 1
  simp [liveAbs, liveRq, aRq, ne_nil_live hp, Want.toReq]

theorem foldl_addSepNew_abs (ctx : SepCtx) (ws : List Want) : ∀ e : EFile, TInv e → (∀ w ∈ ws, w.path ≠ []) →
    absLive (ws.foldl (addSepNew ctx) e).f = { absLive e.f with require := (absLive e.f).require ++ ws.map Want.toReq } ∧
    TInv (ws.foldl (addSepNew ctx) e) := by
  induction ws with
  | nil => intro e hi _; exact ⟨by simp, hi⟩
  | cons w ws ih =>
    intro e hi hne
    rcases addSepNew_abs ctx e w (hne w List.mem_cons_self) hi with ⟨h1, h2⟩
    rcases ih (addSepNew ctx e w) h2 (fun x hx => hne x (List.mem_cons_of_mem _ hx)) with ⟨h3, h4⟩
    refine ⟨?_, h4⟩
    simp only [List.foldl_cons]
    rw [h3, h1]
    simp

/-- the requested entries not yet present -/
def notHave (need : List Want) (have_ : List Bytes) : List Want := need.filter (fun w => !have_.contains w.path)

theorem notHave_cons (need : List Want) (p : Bytes) (have_ : List Bytes) :
    notHave need (p :: have_) = (notHave need have_).filter (fun a => a.path != p) := by
  unfold notHave
  rw [List.filter_filter]
  apply List.filter_congr
  intro w _
  simp only [List.contains_cons, Bool.not_or, bne]

theorem notHave_nil (need : List Want) : notHave need [] = need := by
  unfold notHave
  apply List.filter_eq_self.2
  intro a _; rfl

theorem sepLoop_abs (ctx : SepCtx) (need : List Want) (hg : GoodWant need) (rs : List Require) :
    ∀ (have_ : List Bytes) (syn : FileSyntax) (next : Nat) (rs' : List Require) (have' : List Bytes) (syn' : FileSyntax)
      (next' : Nat), sepLoop ctx need rs have_ syn next = .ok (rs', have', syn', next') →
      (liveAbs liveRq aRq rs' ++ (notHave need have').map Want.toReq).Perm ((notHave need have_).map Want.toReq) ∧
      next ≤ next' := by
  induction rs with
  | nil =>
    intro have_ syn next rs' have' syn' next' h
    simp only [sepLoop, Except.ok.injEq, Prod.mk.injEq] at h
    rcases h with ⟨rfl, rfl, _, rfl⟩
    exact ⟨by simp [liveAbs], Nat.le_refl _⟩
  | cons r rs ih =>
    intro have_ syn next rs' have' syn' next' h
    unfold sepLoop at h
    cases hf : need.find? (fun a => a.path == r.mod.path) with
    | some w =>
      simp only [hf] at h
      by_cases hc : have_.contains r.mod.path = true
      · simp only [hc, if_true, bind, Except.bind] at h
        cases hd : deref r.lineId with
        | error err => simp [hd] at h
        | ok i =>
          simp only [hd] at h
          cases hr : sepLoop ctx need rs have_ (markRemoved syn i) next with
          | error err => simp [hr] at h
          | ok res =>
            rcases res with ⟨rs'', h'', syn'', next''⟩
            simp only [hr, pure, Except.pure, Except.ok.injEq, Prod.mk.injEq] at h
            rcases h with ⟨rfl, rfl, _, rfl⟩
            rcases ih _ _ _ _ _ _ _ hr with ⟨h1, h2⟩
            refine ⟨?_, h2⟩
            rw [liveAbs_cons]
            simpa [liveRq, clearedRequire] using h1
      · simp only [Bool.not_eq_true] at hc
        simp only [hc, Bool.false_eq_true, if_false, bind, Except.bind] at h
        cases hd : deref r.lineId with
        | error err => simp [hd] at h
        | ok i =>
          simp only [hd] at h
          have hwmem := List.mem_of_find?_eq_some hf
          have hwp : w.path = r.mod.path := by have := List.find?_some hf; exact eq_of_beq this
          -- the moved / unmoved entry
          generalize ht : (if (w.indirect && (ctx.oneFlat || inBlockOrig ctx i ctx.directOrig)) = true then
              (({ r with mod := { r.mod with version := w.vers }, indirect := w.indirect, lineId := next } : Require),
                moveExisting (syn.updateLine i fun l => setIndirectLine w.indirect (setVersionLine w.vers l)) i ctx.indirectIdx next, next + 1)
            else if (!w.indirect && (ctx.oneFlat || inBlockOrig ctx i ctx.indirectOrig)) = true then
              (({ r with mod := { r.mod with version := w.vers }, indirect := w.indirect, lineId := next } : Require),
                moveExisting (syn.updateLine i fun l => setIndirectLine w.indirect (setVersionLine w.vers l)) i ctx.directIdx next, next + 1)
            else (({ r with mod := { r.mod with version := w.vers }, indirect := w.indirect } : Require),
                syn.updateLine i fun l => setIndirectLine w.indirect (setVersionLine w.vers l), next)) = t at h
          have htp : t.1.mod = { r.mod with version := w.vers } ∧ t.1.indirect = w.indirect ∧ next ≤ t.2.2 := by
            rw [← ht]; split
            · exact ⟨rfl, rfl, Nat.le_succ _⟩
            · split
              · exact ⟨rfl, rfl, Nat.le_succ _⟩
              · exact ⟨rfl, rfl, Nat.le_refl _⟩
          rcases t with ⟨r2, syn2, next2⟩
          simp only at htp h
          cases hr : sepLoop ctx need rs (r2.mod.path :: have_) syn2 next2 with
          | error err => simp [hr] at h
          | ok res =>
            rcases res with ⟨rs'', h'', syn'', next''⟩
            simp only [hr, pure, Except.pure, Except.ok.injEq, Prod.mk.injEq] at h
            rcases h with ⟨rfl, rfl, _, rfl⟩
            rcases ih _ _ _ _ _ _ _ hr with ⟨h1, h2⟩
            refine ⟨?_, Nat.le_trans htp.2.2 h2⟩
            have hpath : r2.mod.path = r.mod.path := by rw [htp.1]
            rw [hpath, notHave_cons] at h1
            rw [liveAbs_cons]
            have hlive : liveRq r2 = true := by
              simp only [liveRq, hpath]; rw [← hwp]; exact ne_nil_live (hg.2 w hwmem)
            have ha : aRq r2 = w.toReq := by
              simp only [aRq, Want.toReq, htp.1, htp.2.1, hwp]
            simp only [hlive, if_true, List.cons_append, ha]
            refine (h1.cons _).trans ?_
            rw [← hwp]
            have hsub : (notHave need have_).Sublist need := List.filter_sublist
            have hwin : w ∈ notHave need have_ := by
              apply List.mem_filter.2
              refine ⟨hwmem, ?_⟩
              rw [hwp, hc]; rfl
            exact (cons_filter_perm _ w hwin (hg.sublist hsub).1).map Want.toReq
    | none =>
      simp only [hf, bind, Except.bind] at h
      cases hd : deref r.lineId with
      | error err => simp [hd] at h
      | ok i =>
        simp only [hd] at h
        cases hr : sepLoop ctx need rs have_ (markRemoved syn i) next with
        | error err => simp [hr] at h
        | ok res =>
          rcases res with ⟨rs'', h'', syn'', next''⟩
          simp only [hr, pure, Except.pure, Except.ok.injEq, Prod.mk.injEq] at h
          rcases h with ⟨rfl, rfl, _, rfl⟩
          rcases ih _ _ _ _ _ _ _ hr with ⟨h1, h2⟩
          refine ⟨?_, h2⟩
          rw [liveAbs_cons]
          simpa [liveRq, clearedRequire] using h1

theorem sepTail_abs (e e' : EFile) (req : List Want) (perm : List Want → List Want) (ctx : SepCtx) (stmts : List Expr)
    (hperm : ∀ l, (perm l).Perm l) (hg : GoodWant req) (hi : TInv e) (h : sepTail e req perm ctx stmts = .ok e') :
    (absLive e'.f).require.Perm (req.map Want.toReq) ∧
    absLive e'.f = EditSpec.removeDups { absLive e.f with require := (absLive e'.f).require } ∧ TInv e' := by
  unfold sepTail at h
  rw [needMap_distinct false req [] (by simpa using hg.1)] at h
  simp only [bind, Except.bind, List.nil_append] at h
  cases hr : sepLoop ctx req e.f.require [] { e.f.syn with stmts := stmts } e.next with
  | error err => simp [hr] at h
  | ok res =>
    rcases res with ⟨rq, have', syn', next'⟩
    simp only [hr, pure, Except.pure, Except.ok.injEq] at h
    rcases sepLoop_abs ctx req hg _ _ _ _ _ _ _ _ hr with ⟨h1, h2⟩
    have hi1 : TInv (⟨{ e.f with require := rq, syn := syn' }, next'⟩ : EFile) := hi.of_same rfl rfl rfl h2
    have hne : ∀ w ∈ (perm req).filter (fun w => !have'.contains w.path), w.path ≠ [] :=
      fun w hw => hg.2 w ((hperm req).subset (List.mem_filter.1 hw).1)
    rcases foldl_addSepNew_abs ctx _ _ hi1 hne with ⟨h3, h4⟩
    rcases sortBlocks_abs _ h4 with ⟨h5, h6⟩
    subst h
    have hreq : (absLive (sortBlocks (((perm req).filter (fun w => !have'.contains w.path)).foldl (addSepNew ctx)
        (⟨{ e.f with require := rq, syn := syn' }, next'⟩ : EFile))).f).require
        = liveAbs liveRq aRq rq ++ ((perm req).filter (fun w => !have'.contains w.path)).map Want.toReq := by
      rw [h5, h3]; rfl
    refine ⟨?_, ?_, h6⟩
    · rw [hreq]
      have hp : ((perm req).filter (fun w => !have'.contains w.path)).Perm (notHave req have') := (hperm req).filter _
      rw [notHave_nil] at h1
      exact ((List.Perm.append_left _ (hp.map _))).trans h1
    · rw [hreq, h5, h3]
      rfl

/-- **SetRequireSeparateIndirect on the typed lists** -/
theorem setRequireSeparateIndirect_abs (e e' : EFile) (req : List Want) (perm : List Want → List Want)
    (hperm : ∀ l, (perm l).Perm l) (hg : GoodWant req) (hi : TInv e) (h : setRequireSeparateIndirect e req perm = .ok e') :
    (absLive e'.f).require.Perm (req.map Want.toReq) ∧
    absLive e'.f = EditSpec.removeDups { absLive e.f with require := (absLive e'.f).require } ∧ TInv e' := by
  have := setRSI_ind e req perm
    (fun r => ∀ e', r = .ok e' → (absLive e'.f).require.Perm (req.map Want.toReq) ∧
      absLive e'.f = EditSpec.removeDups { absLive e.f with require := (absLive e'.f).require } ∧ TInv e')
    (fun e' h => by cases h)
    (fun ctx stmts e' h => sepTail_abs e e' req perm ctx stmts hperm hg hi h)
  exact this e' h

end ModVerif.Modfile.Edit
