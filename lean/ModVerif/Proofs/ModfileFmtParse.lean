/-
  C02 stage 3, part c: the parser on a token stream (line level and block header level).

  Given `Stream` for the look-ahead state, `parseLineLoop` / `parseLine` read a token line,
  `parseStmtLoop` reads a top-level line whose tail is `lineTailOK`, and on a header followed by `(` and
  a newline it enters `parseLineBlock` — for every header, because `(` mid-line and `( )` mid-line are
  only pushed.
-/
import ModVerif.Proofs.ModfileFmtTree
namespace ModVerif.Proofs.ModfileFmtParse
open ModVerif ModVerif.Modfile
open ModVerif.Proofs.ModfileFmtLex ModVerif.Proofs.ModfileFmtLine ModVerif.Proofs.ModfileFmtStream
open ModVerif.Proofs.ModfileFmtTree

/-! ### kinds of line tokens -/

theorem tokText_not_eol {t : Bytes} (h : TokText t) : (kindOf t).isEOL = false := tokOK_not_eol h

theorem tokText_ne_eof {t : Bytes} (h : TokText t) : kindOf t ≠ .eof := by
  intro hk
  have := tokOK_not_eol h
  rw [hk] at this; cases this

theorem tokText_punct_iff {t : Bytes} (h : TokText t) (c : UInt8) (hc : c ∈ punctBytes) :
    kindOf t = .punct c ↔ t = [c] := tokOK_punct_iff h c hc

theorem tokText_beq_lparen {t : Bytes} (h : TokText t) : (kindOf t == TokKind.punct 40) = decide (t = [40]) := by
  by_cases ht : t = [40]
  · have := (tokText_punct_iff h 40 (by decide)).2 ht
    subst ht
    simp [this]
  · have : kindOf t ≠ .punct 40 := fun hk => ht ((tokText_punct_iff h 40 (by decide)).1 hk)
    simp [this, ht]

theorem tokText_beq_rparen {t : Bytes} (h : TokText t) : (kindOf t == TokKind.punct 41) = decide (t = [41]) := by
  by_cases ht : t = [41]
  · have := (tokText_punct_iff h 41 (by decide)).2 ht
    subst ht
    simp [this]
  · have : kindOf t ≠ .punct 41 := fun hk => ht ((tokText_punct_iff h 41 (by decide)).1 hk)
    simp [this, ht]

theorem lineTailOK_cons_ne {t : Bytes} (r : List Bytes) (h : t ≠ [40]) : lineTailOK (t :: r) = lineTailOK r := by
  have h40 : (t == [40]) = false := by simpa using h
  cases r <;> simp [lineTailOK, h40]

theorem nl_ne_eof : (TokKind.punct 10) ≠ .eof := by simp

/-! ### token lines -/

theorem parseLineLoop_stream : ∀ (ts : List Bytes) (acc : List Bytes) (i : Input) (s e : Position) (fuel : Nat)
    (T : List Tk), (∀ t ∈ ts, TokText t) → Stream (ts.map tk ++ nl :: T) i → ts.length + 1 ≤ fuel →
    ∃ l i', parseLineLoop fuel i s e acc = .ok (l, i') ∧ l.token = acc.reverse ++ ts ∧ l.comments = {} ∧
      l.inBlock = true ∧ Stream T i' ∧ i'.commentsRev = i.commentsRev := by
  intro ts
  induction ts with
  | nil =>
    intro acc i s e fuel T _ hS hf
    obtain ⟨n, rfl⟩ : ∃ n, fuel = n + 1 := ⟨fuel - 1, by omega⟩
    simp only [List.map_nil, List.nil_append] at hS
    obtain ⟨i1, hl, hn, hc, hS1⟩ := Stream.lex hS nl_ne_eof
    have hk : i.token.kind = .punct 10 := hS.kind
    unfold parseLineLoop
    simp only [hl, bind, Except.bind, hk, TokKind.isEOL, beq_self_eq_true, if_true]
    exact ⟨_, _, rfl, by simp, rfl, rfl, hS1.setId _, hc⟩
  | cons t ts ih =>
    intro acc i s e fuel T hts hS hf
    obtain ⟨n, rfl⟩ : ∃ n, fuel = n + 1 := ⟨fuel - 1, by omega⟩
    have ht : TokText t := hts t (by simp)
    simp only [List.map_cons, List.cons_append, tk] at hS
    obtain ⟨i1, hl, hn, hc, hS1⟩ := Stream.lex hS (tokText_ne_eof ht)
    have hk : i.token.kind = kindOf t := hS.kind
    have htx : i.token.text = t := hS.text
    obtain ⟨l, i', hr, htok, hcm, hib, hS', hc'⟩ := ih (t :: acc) i1 s i.token.endPos n T
      (fun t' h => hts t' (by simp [h])) hS1 (by simp at hf; omega)
    unfold parseLineLoop
    simp only [hl, bind, Except.bind, hk, tokText_not_eol ht, Bool.false_eq_true, if_false, htx]
    exact ⟨l, i', hr, by rw [htok]; simp, hcm, hib, hS', by rw [hc', hc]⟩

theorem parseLine_stream (t0 : Bytes) (ts : List Bytes) (i : Input) (fuel : Nat) (T : List Tk)
    (hts : ∀ t ∈ t0 :: ts, TokText t) (hS : Stream ((t0 :: ts).map tk ++ nl :: T) i) (hf : ts.length + 1 ≤ fuel) :
    ∃ l i', parseLine fuel i = .ok (l, i') ∧ l.token = t0 :: ts ∧ l.comments = {} ∧ l.inBlock = true ∧
      Stream T i' ∧ i'.commentsRev = i.commentsRev := by
  have ht : TokText t0 := hts t0 (by simp)
  simp only [List.map_cons, List.cons_append, tk] at hS
  obtain ⟨i1, hl, hn, hc, hS1⟩ := Stream.lex hS (tokText_ne_eof ht)
  have hk : i.token.kind = kindOf t0 := hS.kind
  have htx : i.token.text = t0 := hS.text
  obtain ⟨l, i', hr, htok, hcm, hib, hS', hc'⟩ := parseLineLoop_stream ts [t0] i1 i.token.pos i.token.endPos fuel T
    (fun t' h => hts t' (by simp [h])) hS1 hf
  unfold parseLine
  simp only [hl, bind, Except.bind, hk, tokText_not_eol ht, Bool.false_eq_true, if_false, htx]
  exact ⟨l, i', hr, by rw [htok]; simp, hcm, hib, hS', by rw [hc', hc]⟩

/-! ### top-level lines -/

theorem parseStmtLoop_line : ∀ (n : Nat) (ts : List Bytes), ts.length ≤ n → ∀ (acc : List Bytes) (i : Input)
    (s e : Position) (fuel : Nat) (T : List Tk), (∀ t ∈ ts, TokText t) → lineTailOK ts = true →
    Stream (ts.map tk ++ nl :: T) i → ts.length + 1 ≤ fuel →
    ∃ l i', parseStmtLoop fuel i s e acc = .ok (.line l, i') ∧ l.token = acc.reverse ++ ts ∧ l.comments = {} ∧
      l.inBlock = false ∧ Stream T i' ∧ i'.commentsRev = i.commentsRev := by
  intro n
  induction n with
  | zero =>
    intro ts hlen acc i s e fuel T _ _ hS hf
    have : ts = [] := List.eq_nil_of_length_eq_zero (by omega)
    subst this
    obtain ⟨m, rfl⟩ : ∃ m, fuel = m + 1 := ⟨fuel - 1, by omega⟩
    simp only [List.map_nil, List.nil_append] at hS
    obtain ⟨i1, hl, hn, hc, hS1⟩ := Stream.lex hS nl_ne_eof
    have hk : i.token.kind = .punct 10 := hS.kind
    unfold parseStmtLoop
    simp only [hl, bind, Except.bind, hk, TokKind.isEOL, beq_self_eq_true, if_true]
    exact ⟨_, _, rfl, by simp, rfl, rfl, hS1.setId _, hc⟩
  | succ n ih =>
    intro ts hlen acc i s e fuel T hts hok hS hf
    cases ts with
    | nil =>
      obtain ⟨m, rfl⟩ : ∃ m, fuel = m + 1 := ⟨fuel - 1, by omega⟩
      simp only [List.map_nil, List.nil_append] at hS
      obtain ⟨i1, hl, hn, hc, hS1⟩ := Stream.lex hS nl_ne_eof
      have hk : i.token.kind = .punct 10 := hS.kind
      unfold parseStmtLoop
      simp only [hl, bind, Except.bind, hk, TokKind.isEOL, beq_self_eq_true, if_true]
      exact ⟨_, _, rfl, by simp, rfl, rfl, hS1.setId _, hc⟩
    | cons t r =>
      obtain ⟨m, rfl⟩ : ∃ m, fuel = m + 1 := ⟨fuel - 1, by omega⟩
      have ht : TokText t := hts t (by simp)
      have hr : ∀ t' ∈ r, TokText t' := fun t' h => hts t' (by simp [h])
      simp only [List.map_cons, List.cons_append, tk] at hS
      obtain ⟨i1, hl, hn, hc, hS1⟩ := Stream.lex hS (tokText_ne_eof ht)
      have hk : i.token.kind = kindOf t := hS.kind
      have htx : i.token.text = t := hS.text
      simp only [List.length_cons] at hlen hf
      unfold parseStmtLoop
      simp only [hl, bind, Except.bind, hk, tokText_not_eol ht, Bool.false_eq_true, if_false, htx,
        tokText_beq_lparen ht]
      by_cases ht40 : t = [40]
      · simp only [ht40, decide_true, if_true]
        subst ht40
        -- `(`: the tail is not empty
        cases r with
        | nil => simp [lineTailOK] at hok
        | cons t2 r2 =>
          have ht2 : TokText t2 := hr t2 (by simp)
          simp only [List.length_cons] at hlen hf
          simp only [List.map_cons, List.cons_append, tk] at hS1
          have hk1 : i1.token.kind = kindOf t2 := hS1.kind
          simp only [Input.peek, hk1, tokText_not_eol ht2, Bool.false_eq_true, if_false, tokText_beq_rparen ht2]
          by_cases ht41 : t2 = [41]
          · -- `( )` in the middle of the line
            subst ht41
            simp only [decide_true, if_true]
            obtain ⟨i2, hl2, hn2, hc2, hS2⟩ := Stream.lex hS1 (tokText_ne_eof ht2)
            have htx1 : i1.token.text = [41] := hS1.text
            have hok' : r2 ≠ [] ∧ lineTailOK r2 = true := by
              simp [lineTailOK] at hok
              exact ⟨by intro h; simp [h] at hok, hok.2⟩
            obtain ⟨t3, r3, hr3⟩ : ∃ t3 r3, r2 = t3 :: r3 := by
              cases r2 with
              | nil => exact absurd rfl hok'.1
              | cons a b => exact ⟨a, b, rfl⟩
            have ht3 : TokText t3 := hr t3 (by simp [hr3])
            have hk2 : i2.token.kind = kindOf t3 := by
              rw [hr3] at hS2
              simp only [List.map_cons, List.cons_append, tk] at hS2
              exact hS2.kind
            simp only [hl2, hk2, tokText_not_eol ht3, Bool.false_eq_true, if_false, htx1]
            obtain ⟨l, i', hres, htok, hcm, hib, hS', hc'⟩ := ih r2 (by omega) ([41] :: [40] :: acc) i2 s e m T
              (fun t' h => hr t' (by simp [h])) hok'.2 hS2 (by omega)
            exact ⟨l, i', hres, by rw [htok]; simp, hcm, hib, hS', by rw [hc', hc2, hc]⟩
          · -- `(` in the middle of the line
            simp only [ht41, decide_false, Bool.false_eq_true, if_false]
            have hok' : lineTailOK (t2 :: r2) = true := by
              simp only [lineTailOK, beq_self_eq_true, if_true] at hok
              have : (t2 == [41]) = false := by simpa using ht41
              simpa [this] using hok
            obtain ⟨l, i', hres, htok, hcm, hib, hS', hc'⟩ := ih (t2 :: r2) (by simp; omega) ([40] :: acc) i1 s e m T
              hr hok' (by simpa [tk] using hS1) (by simp; omega)
            exact ⟨l, i', hres, by rw [htok]; simp, hcm, hib, hS', by rw [hc', hc]⟩
      · simp only [ht40, decide_false, Bool.false_eq_true, if_false]
        have hok' : lineTailOK r = true := by
          rw [lineTailOK_cons_ne r ht40] at hok
          exact hok
        obtain ⟨l, i', hres, htok, hcm, hib, hS', hc'⟩ := ih r (by omega) (t :: acc) i1 s i.token.endPos m T
          hr hok' hS1 (by omega)
        exact ⟨l, i', hres, by rw [htok]; simp, hcm, hib, hS', by rw [hc', hc]⟩

/-! ### block headers -/

/-- Scanning a header: every token list followed by `(` and a newline makes `parseStmtLoop` enter
    `parseLineBlock` with exactly that header. -/
theorem parseStmtLoop_hdr : ∀ (n : Nat) (hs : List Bytes), hs.length ≤ n → ∀ (acc : List Bytes) (i : Input)
    (s e : Position) (fuel : Nat) (U : List Tk), (∀ t ∈ hs, TokText t) →
    Stream (hs.map tk ++ lp :: nl :: U) i → hs.length + 1 ≤ fuel →
    ∃ i1 lpTok fuel1, Stream (nl :: U) i1 ∧ i1.commentsRev = i.commentsRev ∧ fuel ≤ fuel1 + 1 + hs.length ∧
      lpTok.pos = lpTok.pos ∧
      ∀ b i', parseLineBlock (fuel1 + 1) i1 s (acc.reverse ++ hs) lpTok = .ok (b, i') →
        parseStmtLoop fuel i s e acc = .ok (.lineBlock b, i') := by
  intro n
  induction n with
  | zero =>
    intro hs hlen acc i s e fuel U _ hS hf
    have : hs = [] := List.eq_nil_of_length_eq_zero (by omega)
    subst this
    obtain ⟨m, rfl⟩ : ∃ m, fuel = m + 1 := ⟨fuel - 1, by omega⟩
    simp only [List.map_nil, List.nil_append, lp] at hS
    obtain ⟨i1, hl, hn, hc, hS1⟩ := Stream.lex hS (by simp)
    have hk : i.token.kind = .punct 40 := hS.kind
    have hk1 : i1.token.kind = .punct 10 := hS1.kind
    refine ⟨i1, i.token, m, hS1, hc, by simp, rfl, ?_⟩
    intro b i' hb
    unfold parseStmtLoop
    simp only [hl, bind, Except.bind, hk, TokKind.isEOL, Bool.false_eq_true, if_false, beq_self_eq_true, if_true,
      Input.peek, hk1]
    simp only [List.append_nil] at hb
    simp [hb]
  | succ n ih =>
    intro hs hlen acc i s e fuel U hts hS hf
    cases hs with
    | nil =>
      obtain ⟨m, rfl⟩ : ∃ m, fuel = m + 1 := ⟨fuel - 1, by omega⟩
      simp only [List.map_nil, List.nil_append, lp] at hS
      obtain ⟨i1, hl, hn, hc, hS1⟩ := Stream.lex hS (by simp)
      have hk : i.token.kind = .punct 40 := hS.kind
      have hk1 : i1.token.kind = .punct 10 := hS1.kind
      refine ⟨i1, i.token, m, hS1, hc, by simp, rfl, ?_⟩
      intro b i' hb
      unfold parseStmtLoop
      simp only [hl, bind, Except.bind, hk, TokKind.isEOL, Bool.false_eq_true, if_false, beq_self_eq_true, if_true,
        Input.peek, hk1]
      simp only [List.append_nil] at hb
      simp [hb]
    | cons t r =>
      obtain ⟨m, rfl⟩ : ∃ m, fuel = m + 1 := ⟨fuel - 1, by omega⟩
      have ht : TokText t := hts t (by simp)
      have hr : ∀ t' ∈ r, TokText t' := fun t' h => hts t' (by simp [h])
      simp only [List.map_cons, List.cons_append, tk] at hS
      obtain ⟨i1, hl, hn, hc, hS1⟩ := Stream.lex hS (tokText_ne_eof ht)
      have hk : i.token.kind = kindOf t := hS.kind
      have htx : i.token.text = t := hS.text
      simp only [List.length_cons] at hlen hf
      by_cases ht40 : t = [40]
      · subst ht40
        -- what follows this `(` is a token (of the header, or the final `(`), never an end of line
        cases r with
        | nil =>
          -- followed by the final `(`
          simp only [List.map_nil, List.nil_append, lp] at hS1
          have hk1 : i1.token.kind = .punct 40 := hS1.kind
          obtain ⟨i2, lpTok, fuel1, hS2, hc2, hfu, _, hres⟩ := ih [] (by simp) ([40] :: acc) i1 s e m U
            (by simp) (by simpa [lp] using hS1) (by simp; omega)
          refine ⟨i2, lpTok, fuel1, hS2, by rw [hc2, hc], by simp at hfu ⊢; omega, rfl, ?_⟩
          intro b i' hb
          unfold parseStmtLoop
          simp only [hl, bind, Except.bind, hk, tokText_not_eol ht, Bool.false_eq_true, if_false, htx,
            tokText_beq_lparen ht, decide_true, if_true, Input.peek, hk1, TokKind.isEOL]
          have : (TokKind.punct 40 == TokKind.punct 41) = false := by decide
          simp only [this, Bool.false_eq_true, if_false]
          exact hres b i' (by simpa using hb)
        | cons t2 r2 =>
          have ht2 : TokText t2 := hr t2 (by simp)
          simp only [List.length_cons] at hlen hf
          simp only [List.map_cons, List.cons_append, tk] at hS1
          have hk1 : i1.token.kind = kindOf t2 := hS1.kind
          by_cases ht41 : t2 = [41]
          · subst ht41
            obtain ⟨i2, hl2, hn2, hc2, hS2⟩ := Stream.lex hS1 (tokText_ne_eof ht2)
            have htx1 : i1.token.text = [41] := hS1.text
            -- the token after `( )` is a header token or the final `(`
            have hk2 : i2.token.kind.isEOL = false := by
              cases r2 with
              | nil =>
                simp only [List.map_nil, List.nil_append, lp] at hS2
                rw [hS2.kind]; rfl
              | cons t3 r3 =>
                simp only [List.map_cons, List.cons_append, tk] at hS2
                rw [hS2.kind]; exact tokText_not_eol (hr t3 (by simp))
            obtain ⟨i3, lpTok, fuel1, hS3, hc3, hfu, _, hres⟩ := ih r2 (by omega) ([41] :: [40] :: acc) i2 s e m U
              (fun t' h => hr t' (by simp [h])) hS2 (by omega)
            refine ⟨i3, lpTok, fuel1, hS3, by rw [hc3, hc2, hc], by simp at hfu ⊢; omega, rfl, ?_⟩
            intro b i' hb
            unfold parseStmtLoop
            simp only [hl, bind, Except.bind, hk, tokText_not_eol ht, Bool.false_eq_true, if_false, htx,
              tokText_beq_lparen ht, decide_true, if_true, Input.peek, hk1, tokText_not_eol ht2,
              tokText_beq_rparen ht2, hl2, hk2, htx1]
            exact hres b i' (by simpa using hb)
          · obtain ⟨i3, lpTok, fuel1, hS3, hc3, hfu, _, hres⟩ := ih (t2 :: r2) (by simp; omega) ([40] :: acc) i1 s e m U
              hr (by simpa [tk] using hS1) (by simp; omega)
            refine ⟨i3, lpTok, fuel1, hS3, by rw [hc3, hc], by simp at hfu ⊢; omega, rfl, ?_⟩
            intro b i' hb
            unfold parseStmtLoop
            simp only [hl, bind, Except.bind, hk, tokText_not_eol ht, Bool.false_eq_true, if_false, htx,
              tokText_beq_lparen ht, decide_true, if_true, Input.peek, hk1, tokText_not_eol ht2,
              tokText_beq_rparen ht2, ht41, decide_false]
            exact hres b i' (by simpa using hb)
      · obtain ⟨i3, lpTok, fuel1, hS3, hc3, hfu, _, hres⟩ := ih r (by omega) (t :: acc) i1 s i.token.endPos m U
          hr hS1 (by omega)
        refine ⟨i3, lpTok, fuel1, hS3, by rw [hc3, hc], by simp at hfu ⊢; omega, rfl, ?_⟩
        intro b i' hb
        unfold parseStmtLoop
        simp only [hl, bind, Except.bind, hk, tokText_not_eol ht, Bool.false_eq_true, if_false, htx,
          tokText_beq_lparen ht, ht40, decide_false]
        exact hres b i' (by simpa using hb)

end ModVerif.Proofs.ModfileFmtParse
