/-
  ClientEffects, part 1 — the effect trace of the sequential client model (Model/Client.lean, `World.tr`: every external
  operation is appended by the model itself, so the trace IS the instrumented environment's log) classified:
  below `Lookup`'s own `ReadCache(file)` / `ReadRemote(remotePath)` (both inside `lookupWork`), every logged cache read
  is a tile file of the client (`tileCacheKey name t` = `name ++ "/" ++ "tile/…"`), every logged remote read is a tile
  path (`"/tile/…"`), and the remaining reads are configuration reads (`ReadKind.config`).  For EVERY environment.
-/
import ModVerif.Model.Client
import ModVerif.Proofs.ClientHonest
import ModVerif.Proofs.ClientMoreFetch
namespace ModVerif.ClientEffects
open ModVerif ModVerif.Client ModVerif.Tile ModVerif.Tlog

/-- an effect that is not a read of a lookup file / lookup path of the client named `name`: a cache read of a tile
file of `name`, a remote read of a tile path, a configuration read, or no read at all (`WriteCache`, `WriteConfig`,
`SecurityError`) -/
def Other (name : Bytes) : Effect → Prop
  | .read .cache f _ => ∃ t : Tile, f = tileCacheKey name t
  | .read .remote p _ => ∃ t : Tile, p = tileRemotePath t
  | _ => True

/-- `ReadCache(f)` -/
def isCacheRead (f : Bytes) : Effect → Bool
  | .read .cache g _ => g == f
  | _ => false

/-- `ReadRemote(p)` -/
def isRemoteRead (p : Bytes) : Effect → Bool
  | .read .remote q _ => q == p
  | _ => false

/-- number of `ReadCache(f)` calls in a trace -/
def cacheReads (f : Bytes) (tr : List Effect) : Nat := tr.countP (isCacheRead f)

/-- number of `ReadRemote(p)` calls in a trace -/
def remoteReads (p : Bytes) (tr : List Effect) : Nat := tr.countP (isRemoteRead p)

theorem other_not_cacheRead (name rest : Bytes) (e : Effect) (h : Other name e) :
    isCacheRead (name ++ (B "/lookup/" ++ rest)) e = false := by
  cases e with
  | read k f ok =>
    cases k with
    | cache =>
      obtain ⟨t, ht⟩ := h
      simp only [isCacheRead, beq_eq_false_iff_ne, ne_eq]
      intro hh
      exact Client.lookupFile_ne_tileKey name rest t (hh.symm.trans ht)
    | remote => rfl
    | config => rfl
  | _ => rfl

theorem other_not_remoteRead (name rest : Bytes) (e : Effect) (h : Other name e) :
    isRemoteRead (B "/lookup/" ++ rest) e = false := by
  cases e with
  | read k f ok =>
    cases k with
    | remote =>
      obtain ⟨t, ht⟩ := h
      simp only [isRemoteRead, beq_eq_false_iff_ne, ne_eq]
      intro hh
      rw [ht] at hh
      unfold tileRemotePath tilePath at hh
      rw [Client.B_tile, Client.B_lookup] at hh
      simp at hh
    | cache => rfl
    | config => rfl
  | _ => rfl

theorem cacheReads_other (name rest : Bytes) : ∀ (es : List Effect), (∀ e ∈ es, Other name e) →
    cacheReads (name ++ (B "/lookup/" ++ rest)) es = 0 := by
  intro es h
  unfold cacheReads
  rw [List.countP_eq_zero]
  intro e he
  rw [other_not_cacheRead name rest e (h e he)]
  simp

theorem remoteReads_other (name rest : Bytes) : ∀ (es : List Effect), (∀ e ∈ es, Other name e) →
    remoteReads (B "/lookup/" ++ rest) es = 0 := by
  intro es h
  unfold remoteReads
  rw [List.countP_eq_zero]
  intro e he
  rw [other_not_remoteRead name rest e (h e he)]
  simp

section
variable {σ H : Type}

/-- frame of everything below `Lookup`'s own two reads: the client name, the record cache and the init flag stay; the
trace grows by `Other` effects -/
structure EF (w w' : World σ H) : Prop where
  name : w'.c.name = w.c.name
  record : w'.c.record = w.c.record
  inited : w'.c.inited = w.c.inited
  trace : ∃ es, w'.tr = w.tr ++ es ∧ ∀ e ∈ es, Other w.c.name e

theorem EF.refl (w : World σ H) : EF w w := ⟨rfl, rfl, rfl, [], by simp, by simp⟩

theorem EF.trans {w1 w2 w3 : World σ H} (a : EF w1 w2) (b : EF w2 w3) : EF w1 w3 := by
  obtain ⟨es1, e1, g1⟩ := a.trace
  obtain ⟨es2, e2, g2⟩ := b.trace
  refine ⟨b.name.trans a.name, b.record.trans a.record, b.inited.trans a.inited,
    es1 ++ es2, by rw [e2, e1, List.append_assoc], ?_⟩
  intro e he
  rcases List.mem_append.mp he with h | h
  · exact g1 e h
  · have := g2 e h
    rw [a.name] at this
    exact this

variable {E : Env σ}

theorem ef_readRemoteTile (w : World σ H) (t : Tile) : EF w (readRemote E w (tileRemotePath t)).2 :=
  ⟨rfl, rfl, rfl, _, rfl, by intro e he; simp only [List.mem_singleton] at he; subst he; exact ⟨t, rfl⟩⟩

theorem ef_readCacheTile (w : World σ H) (t : Tile) : EF w (readCache E w (tileCacheKey w.c.name t)).2 :=
  ⟨rfl, rfl, rfl, _, rfl, by intro e he; simp only [List.mem_singleton] at he; subst he; exact ⟨t, rfl⟩⟩

theorem ef_readConfig (w : World σ H) (f : Bytes) : EF w (readConfig E w f).2 :=
  ⟨rfl, rfl, rfl, _, rfl, by simp [Other]⟩

theorem ef_writeCache (w : World σ H) (f d : Bytes) : EF w (writeCache E w f d) :=
  ⟨rfl, rfl, rfl, _, rfl, by simp [Other]⟩

theorem ef_writeConfig (w : World σ H) (f o n : Bytes) : EF w (writeConfig E w f o n).2 :=
  ⟨rfl, rfl, rfl, _, rfl, by simp [Other]⟩

theorem ef_securityError (w : World σ H) (m : Bytes) : EF w (securityError E w m) :=
  ⟨rfl, rfl, rfl, _, rfl, by simp [Other]⟩

theorem ef_markTileSaved (w : World σ H) (t : Tile) : EF w (markTileSaved w t) :=
  ⟨rfl, rfl, rfl, [], by simp [markTileSaved], by simp⟩

theorem ef_condReadCache {w w' : World σ H} (c : Bool) (t : Tile) (hn : w'.c.name = w.c.name)
    (l : EF w w') : EF w (if c then readCache E w' (tileCacheKey w.c.name t) else (none, w')).2 := by
  cases c
  · exact l
  · have := ef_readCacheTile (E := E) w' t
    rw [hn] at this
    exact l.trans this

theorem ef_condReadRemote {w w' : World σ H} (c : Bool) (t : Tile)
    (l : EF w w') : EF w (if c then readRemote E w' (tileRemotePath t) else (none, w')).2 := by
  cases c
  · exact l
  · exact l.trans (ef_readRemoteTile (E := E) _ _)

theorem ef_readTileWork (w : World σ H) (t : Tile) : EF w (readTileWork E w t).2 := by
  have l1 := ef_readCacheTile (E := E) w t
  have l2 := ef_condReadCache (E := E) (t != { t with w := 2 ^ t.h }) { t with w := 2 ^ t.h } l1.name l1
  have l3 := l2.trans (ef_readRemoteTile (E := E) _ t)
  have l4 := ef_condReadRemote (E := E) (t != { t with w := 2 ^ t.h }) { t with w := 2 ^ t.h } l3
  simp only [readTileWork]
  split
  · exact l1.trans (ef_markTileSaved _ t)
  · split
    · exact l2.trans (ef_markTileSaved _ t)
    · split
      · exact l3
      · split
        · exact l4
        · exact l4

theorem ef_readTile (w : World σ H) (t : Tile) : EF w (readTile E w t).2 := by
  unfold readTile
  split
  · exact EF.refl w
  · have l := ef_readTileWork (E := E) w t
    exact ⟨l.name, l.record, l.inited, l.trace⟩

theorem ef_readTilesAll : ∀ (ts : List Tile) (w : World σ H), EF w (readTilesAll E w ts).2 := by
  intro ts
  induction ts with
  | nil => intro w; exact EF.refl w
  | cons t ts ih =>
    intro w
    exact (ef_readTile (E := E) w t).trans (ih _)

theorem ef_saveTiles : ∀ (l : List (Tile × Bytes)) (w : World σ H), EF w (saveTiles E w l) := by
  intro l
  induction l with
  | nil => intro w; exact EF.refl w
  | cons td rest ih =>
    intro w
    obtain ⟨t, d⟩ := td
    unfold saveTiles
    split
    · exact ih w
    · exact ((ef_markTileSaved w t).trans (ef_writeCache (E := E) _ _ _)).trans (ih _)

variable [DecidableEq H]

theorem ef_readHashes (P : Params H) (w : World σ H) (tree : Head H) (indexes : List Nat) :
    EF w (readHashes P E w tree indexes).2 := by
  unfold Client.readHashes
  simp only
  split
  · exact EF.refl w
  · split
    · exact EF.refl w
    · rename_i p _ _
      have hl : EF w (readTiles E w p.tiles).2 := ef_readTilesAll (E := E) p.tiles w
      split
      · exact hl
      · split
        · exact hl
        · split
          · exact hl.trans (ef_saveTiles (E := E) _ _)
          · exact hl

theorem ef_treeHashVia (P : Params H) (w : World σ H) (n : Nat) (tree : Head H) :
    EF w (treeHashVia P E w n tree).2 := by
  unfold treeHashVia
  split
  · exact EF.refl w
  · split
    · exact EF.refl w
    · rename_i indexes _
      have l := ef_readHashes (E := E) P w tree indexes
      simp only
      split <;> exact l

theorem ef_proveTreeVia (P : Params H) (w : World σ H) (t n : Nat) (tree : Head H) :
    EF w (proveTreeVia P E w t n tree).2 := by
  unfold proveTreeVia
  split
  · exact EF.refl w
  · split
    · exact EF.refl w
    · split
      · exact EF.refl w
      · rename_i indexes _ _
        have l := ef_readHashes (E := E) P w tree indexes
        simp only
        split <;> exact l

theorem ef_checkTrees (P : Params H) (w : World σ H) (older : Head H) (olderNote : Bytes) (newer : Head H)
    (newerNote : Bytes) : EF w (checkTrees P E w older olderNote newer newerNote).2 := by
  have l1 := ef_treeHashVia (E := E) P w older.n newer
  unfold checkTrees
  simp only
  split
  · exact l1
  · split
    · exact l1
    · exact (l1.trans (ef_proveTreeVia (E := E) P _ newer.n older.n newer)).trans (ef_securityError (E := E) _ _)

theorem ef_mergeLatestMem (P : Params H) (w : World σ H) (msg : Bytes) : EF w (mergeLatestMem P E w msg).2 := by
  unfold mergeLatestMem
  split
  · exact EF.refl w
  · split
    · exact EF.refl w
    · rename_i tree _
      simp only
      split
      · have l := ef_checkTrees (E := E) P w tree msg w.c.latest w.c.latestMsg
        split <;> exact l
      · have l := ef_checkTrees (E := E) P w w.c.latest w.c.latestMsg tree msg
        split
        · exact l
        · exact ⟨l.name, l.record, l.inited, l.trace⟩

theorem ef_mergeLatestLoop (P : Params H) : ∀ (f : Nat) (w : World σ H), EF w (mergeLatestLoop P E f w).2 := by
  intro f
  induction f with
  | zero => intro w; exact EF.refl w
  | succ f ih =>
    intro w
    have l1 := ef_readConfig (E := E) w (latestFile w.c.name)
    unfold mergeLatestLoop
    simp only
    split
    · exact l1
    · rename_i msg _
      have l2 := l1.trans (ef_mergeLatestMem (E := E) P _ msg)
      split
      · exact l2
      · split
        · exact l2
        · split
          · exact (l2.trans (ef_writeConfig (E := E) _ _ _ _)).trans (ih _)
          · exact l2.trans (ef_writeConfig (E := E) _ _ _ _)
          · exact l2.trans (ef_writeConfig (E := E) _ _ _ _)

theorem ef_mergeLatest (P : Params H) (w : World σ H) (msg : Bytes) : EF w (mergeLatest P E w msg).2 := by
  have l := ef_mergeLatestMem (E := E) P w msg
  unfold mergeLatest
  simp only
  split
  · exact l
  · split
    · exact l
    · exact l.trans (ef_mergeLatestLoop (E := E) P _ _)

theorem ef_checkRecord (P : Params H) (w : World σ H) (id : Int) (data : Bytes) :
    EF w (Client.checkRecord P E w id data).2 := by
  unfold Client.checkRecord
  simp only
  split
  · exact EF.refl w
  · have l := ef_readHashes (E := E) P w w.c.latest [if id < 0 then 0 else storedHashIndex 0 id.toNat]
    split
    · exact l
    · split
      · exact l
      · split <;> exact l

end
end ModVerif.ClientEffects
