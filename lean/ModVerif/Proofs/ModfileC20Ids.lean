/-
  C20: the line identities the parser assigns are pairwise distinct (first line parsed = 0, in source
  order), and comment assignment does not touch them.
-/
import ModVerif.Proofs.ModfileC20Stmts
namespace ModVerif.Proofs.ModfileC20
open ModVerif ModVerif.Modfile ModVerif.Proofs.ModfileLex

def idsOf (xs : List Expr) : List Nat := (linesOf xs).map (·.id)

theorem readToken_nextId {i i' : Input} (h : readToken i = .ok i') : i'.nextId = i.nextId := by
  rcases readToken_spec i with ⟨i'', h', _, _, hn⟩ | ⟨e, h', _⟩
  · rw [h'] at h; cases h; exact hn
  · rw [h'] at h; cases h

theorem lex_nextId {i i' : Input} {tok : Token} (h : lex i = .ok (tok, i')) : i'.nextId = i.nextId := by
  unfold lex at h
  cases hr : readToken i with
  | error e => simp [hr, bind, Except.bind] at h
  | ok i1 =>
    simp only [hr, bind, Except.bind, Except.ok.injEq, Prod.mk.injEq] at h
    rw [← h.2]; exact readToken_nextId hr

theorem parseLineLoop_id : ∀ (fuel : Nat) (i : Input) (s e : Position) (ts : List Bytes) (l : Line) (i' : Input),
    parseLineLoop fuel i s e ts = .ok (l, i') → l.id = i.nextId ∧ i'.nextId = i.nextId + 1 := by
  intro fuel
  induction fuel with
  | zero => intro i s e ts l i' h; simp [parseLineLoop] at h
  | succ n ih =>
    intro i s e ts l i' h
    unfold parseLineLoop at h
    cases h1 : lex i with
    | error e1 => simp [h1, bind, Except.bind] at h
    | ok v =>
      have hn := lex_nextId (show lex i = .ok (v.1, v.2) by rw [h1])
      simp only [h1, bind, Except.bind] at h
      split at h
      · simp only [Except.ok.injEq, Prod.mk.injEq] at h
        obtain ⟨rfl, rfl⟩ := h
        exact ⟨hn, by simp [hn]⟩
      · have := ih _ _ _ _ _ _ h
        rw [hn] at this; exact this

theorem parseLine_id {fuel : Nat} {i : Input} {l : Line} {i' : Input} (h : parseLine fuel i = .ok (l, i')) :
    l.id = i.nextId ∧ i'.nextId = i.nextId + 1 := by
  unfold parseLine at h
  cases h1 : lex i with
  | error e1 => simp [h1, bind, Except.bind] at h
  | ok v =>
    have hn := lex_nextId (show lex i = .ok (v.1, v.2) by rw [h1])
    simp only [h1, bind, Except.bind] at h
    split at h
    · cases h
    · have := parseLineLoop_id _ _ _ _ _ _ _ h
      rw [hn] at this; exact this

theorem range'_snoc (a n : Nat) : List.range' a n ++ [a + n] = List.range' a (n + 1) := by
  rw [List.range'_concat]; simp

theorem parseLineBlockLoop_ids : ∀ (fuel : Nat) (i : Input) (x : LineBlock) (ls : List Line) (cs : List Comment)
    (b : LineBlock) (i' : Input), parseLineBlockLoop fuel i x ls cs = .ok (b, i') →
    i.nextId ≤ i'.nextId ∧
    b.lines.map (·.id) = ls.reverse.map (·.id) ++ List.range' i.nextId (i'.nextId - i.nextId) := by
  intro fuel
  induction fuel with
  | zero => intro i x ls cs b i' h; simp [parseLineBlockLoop] at h
  | succ n ih =>
    intro i x ls cs b i' h
    unfold parseLineBlockLoop at h
    split at h
    · cases h1 : lex i with
      | error e1 => simp [h1, bind, Except.bind] at h
      | ok v =>
        have hn := lex_nextId (show lex i = .ok (v.1, v.2) by rw [h1])
        simp only [h1, bind, Except.bind] at h
        have := ih _ _ _ _ _ _ h
        rw [hn] at this; exact this
    · cases h1 : lex i with
      | error e1 => simp [h1, bind, Except.bind] at h
      | ok v =>
        have hn := lex_nextId (show lex i = .ok (v.1, v.2) by rw [h1])
        simp only [h1, bind, Except.bind] at h
        have := ih _ _ _ _ _ _ h
        rw [hn] at this; exact this
    · cases h1 : lex i with
      | error e1 => simp [h1, bind, Except.bind] at h
      | ok v =>
        have hn := lex_nextId (show lex i = .ok (v.1, v.2) by rw [h1])
        simp only [h1, bind, Except.bind] at h
        have := ih _ _ _ _ _ _ h
        rw [hn] at this; exact this
    · cases h
    · cases h1 : lex i with
      | error e1 => simp [h1, bind, Except.bind] at h
      | ok v =>
        have hn := lex_nextId (show lex i = .ok (v.1, v.2) by rw [h1])
        simp only [h1, bind, Except.bind] at h
        split at h
        · cases h
        · cases h2 : lex v.2 with
          | error e2 => simp [h2] at h
          | ok w =>
            have hn2 := lex_nextId (show lex v.2 = .ok (w.1, w.2) by rw [h2])
            simp only [h2, Except.ok.injEq, Prod.mk.injEq] at h
            obtain ⟨rfl, rfl⟩ := h
            rw [hn2, hn]
            simp
    · cases hp : parseLine (n + 1) i with
      | error e1 => simp [hp, bind, Except.bind] at h
      | ok v =>
        obtain ⟨hid, hnx⟩ := parseLine_id (show parseLine (n + 1) i = .ok (v.1, v.2) by rw [hp])
        simp only [hp, bind, Except.bind] at h
        obtain ⟨hle, hids⟩ := ih _ _ _ _ _ _ h
        rw [hnx] at hle hids
        refine ⟨by omega, ?_⟩
        rw [hids]
        simp only [List.reverse_cons, List.map_append, List.map_cons, List.map_nil, List.append_assoc, hid]
        congr 1
        have : i'.nextId - i.nextId = (i'.nextId - (i.nextId + 1)) + 1 := by omega
        rw [this, List.range'_succ]
        rfl


theorem parseStmtLoop_ids : ∀ (fuel : Nat) (i : Input) (s e : Position) (ts : List Bytes) (x : Expr) (i' : Input),
    parseStmtLoop fuel i s e ts = .ok (x, i') →
    i.nextId ≤ i'.nextId ∧ idsOf [x] = List.range' i.nextId (i'.nextId - i.nextId) := by
  intro fuel
  induction fuel with
  | zero => intro i s e ts x i' h; simp [parseStmtLoop] at h
  | succ n ih =>
    intro i s e ts x i' h
    unfold parseStmtLoop at h
    cases h1 : lex i with
    | error e1 => simp [h1, bind, Except.bind] at h
    | ok v =>
      have hn := lex_nextId (show lex i = .ok (v.1, v.2) by rw [h1])
      simp only [h1, bind, Except.bind] at h
      split at h
      · simp only [Except.ok.injEq, Prod.mk.injEq] at h
        obtain ⟨rfl, rfl⟩ := h
        simp [idsOf, hn]
      · split at h
        · split at h
          · unfold parseLineBlock at h
            split at h
            · cases h
            · rename_i w hw
              simp only [Except.ok.injEq, Prod.mk.injEq] at h
              obtain ⟨rfl, rfl⟩ := h
              obtain ⟨hle, hids⟩ := parseLineBlockLoop_ids _ _ _ _ _ _ _ (show _ = Except.ok (w.1, w.2) from hw)
              rw [hn] at hle hids
              exact ⟨hle, by simpa [idsOf] using hids⟩
          · split at h
            · cases h2 : lex v.2 with
              | error e2 => simp [h2] at h
              | ok w =>
                have hn2 := lex_nextId (show lex v.2 = .ok (w.1, w.2) by rw [h2])
                simp only [h2] at h
                split at h
                · cases h3 : lex w.2 with
                  | error e3 => simp [h3] at h
                  | ok u =>
                    have hn3 := lex_nextId (show lex w.2 = .ok (u.1, u.2) by rw [h3])
                    simp only [h3, Except.ok.injEq, Prod.mk.injEq] at h
                    obtain ⟨rfl, rfl⟩ := h
                    rw [hn3, hn2, hn]
                    simp [idsOf]
                · have := ih _ _ _ _ _ _ h
                  rw [hn2, hn] at this; exact this
            · have := ih _ _ _ _ _ _ h
              rw [hn] at this; exact this
        · have := ih _ _ _ _ _ _ h
          rw [hn] at this; exact this

theorem parseStmt_ids {fuel : Nat} {i : Input} {x : Expr} {i' : Input} (h : parseStmt fuel i = .ok (x, i')) :
    i.nextId ≤ i'.nextId ∧ idsOf [x] = List.range' i.nextId (i'.nextId - i.nextId) := by
  unfold parseStmt at h
  cases h1 : lex i with
  | error e1 => simp [h1, bind, Except.bind] at h
  | ok v =>
    have hn := lex_nextId (show lex i = .ok (v.1, v.2) by rw [h1])
    simp only [h1, bind, Except.bind] at h
    have := parseStmtLoop_ids _ _ _ _ _ _ _ h
    rw [hn] at this; exact this

theorem idsOf_cons (x : Expr) (xs : List Expr) : idsOf (x :: xs) = idsOf [x] ++ idsOf xs := by
  cases x <;> simp [idsOf]

theorem idsOf_append (xs ys : List Expr) : idsOf (xs ++ ys) = idsOf xs ++ idsOf ys := by
  induction xs with
  | nil => simp [idsOf]
  | cons x rest ih => rw [List.cons_append, idsOf_cons, idsOf_cons x rest, ih, List.append_assoc]

theorem idsOf_setComments (x : Expr) (c : Comments) : idsOf [x.setComments c] = idsOf [x] := by
  cases x <;> simp [idsOf, Expr.setComments]

theorem range'_append' (a m n : Nat) : List.range' a m ++ List.range' (a + m) n = List.range' a (m + n) := by
  rw [List.range'_append_1]

theorem idsOf_commentBlock1 (c : CommentBlock) : idsOf [.commentBlock c] = [] := by simp [idsOf]

theorem parseFileLoop_ids : ∀ (fuel : Nat) (i : Input) (stmtsRev : List Expr) (cb : Option CommentBlock)
    (stmts : List Expr) (i' : Input), parseFileLoop fuel i stmtsRev cb = .ok (stmts, i') →
    i.nextId ≤ i'.nextId ∧ idsOf stmts = idsOf stmtsRev.reverse ++ List.range' i.nextId (i'.nextId - i.nextId) := by
  intro fuel
  induction fuel with
  | zero => intro i sr cb stmts i' h; simp [parseFileLoop] at h
  | succ n ih =>
    intro i sr cb stmts i' h
    unfold parseFileLoop at h
    split at h
    · cases h1 : lex i with
      | error e1 => simp [h1, bind, Except.bind] at h
      | ok v =>
        have hn := lex_nextId (show lex i = .ok (v.1, v.2) by rw [h1])
        simp only [h1, bind, Except.bind] at h
        split at h
        · have := ih _ _ _ _ _ h
          rw [hn, List.reverse_cons, idsOf_append, idsOf_commentBlock1, List.append_nil] at this
          exact this
        · have := ih _ _ _ _ _ h
          rw [hn] at this; exact this
    · cases h1 : lex i with
      | error e1 => simp [h1, bind, Except.bind] at h
      | ok v =>
        have hn := lex_nextId (show lex i = .ok (v.1, v.2) by rw [h1])
        simp only [h1, bind, Except.bind] at h
        have := ih _ _ _ _ _ h
        rw [hn] at this; exact this
    · split at h
      · simp only [Except.ok.injEq, Prod.mk.injEq] at h
        obtain ⟨rfl, rfl⟩ := h
        rw [List.reverse_cons, idsOf_append, idsOf_commentBlock1]
        simp
      · simp only [Except.ok.injEq, Prod.mk.injEq] at h
        obtain ⟨rfl, rfl⟩ := h
        simp
    · cases hp : parseStmt (n + 1) i with
      | error e1 => simp [hp, bind, Except.bind] at h
      | ok v =>
        obtain ⟨hle1, hids1⟩ := parseStmt_ids (show parseStmt (n + 1) i = .ok (v.1, v.2) by rw [hp])
        simp only [hp, bind, Except.bind] at h
        have key : ∀ (y : Expr), idsOf [y] = idsOf [v.1] →
            parseFileLoop n v.2 (y :: sr) none = .ok (stmts, i') →
            i.nextId ≤ i'.nextId ∧ idsOf stmts = idsOf sr.reverse ++ List.range' i.nextId (i'.nextId - i.nextId) := by
          intro y hy hh
          obtain ⟨hle2, hids2⟩ := ih _ _ _ _ _ hh
          refine ⟨by omega, ?_⟩
          rw [hids2, List.reverse_cons, idsOf_append, hy, hids1, List.append_assoc]
          congr 1
          have e1 : v.2.nextId = i.nextId + (v.2.nextId - i.nextId) := by omega
          have e2 : i'.nextId - i.nextId = (v.2.nextId - i.nextId) + (i'.nextId - v.2.nextId) := by omega
          rw [e2, ← range'_append', ← e1]
        split at h
        · exact key _ (idsOf_setComments _ _) h
        · exact key _ rfl h

theorem parseFile_ids {data : Bytes} {stmts : List Expr} {i' : Input} (h : parseFile data = .ok (stmts, i')) :
    (idsOf stmts).Nodup := by
  unfold parseFile at h
  cases hr : readToken (newInput data) with
  | error e => simp [hr, bind, Except.bind] at h
  | ok i0 =>
    simp only [hr, bind, Except.bind] at h
    obtain ⟨_, hids⟩ := parseFileLoop_ids _ _ _ _ _ _ h
    rw [hids]
    simp only [List.reverse_nil, idsOf, linesOf_nil, List.map_nil, List.nil_append]
    exact List.nodup_range'


/-! ### comment assignment keeps the lines -/

/-- the keys of the lines of each statement -/
def keysL (xs : List Expr) : List (List (Nat × Position)) := xs.map fun x => (linesOf [x]).map lineKey

theorem keys_eq_flatten (xs : List Expr) : (linesOf xs).map lineKey = (keysL xs).flatten := by
  induction xs with
  | nil => rfl
  | cons x rest ih =>
    simp only [keysL, List.map_cons, List.flatten_cons] at ih ⊢
    rw [← ih]
    cases x <;> simp

theorem preLines_keys : ∀ (ls : List Line) (line : List Comment), (preLines ls line).1.map lineKey = ls.map lineKey := by
  intro ls
  induction ls with
  | nil => intro line; rfl
  | cons l rest ih =>
    intro line
    unfold preLines
    simp only [List.map_cons, ih]
    rfl

theorem postLinesRev_keys : ∀ (ls : List Line) (suf : List Comment),
    (postLinesRev ls suf).1.map lineKey = ls.map lineKey := by
  intro ls
  induction ls with
  | nil => intro line; rfl
  | cons l rest ih =>
    intro line
    unfold postLinesRev
    simp only [List.map_cons, ih]
    rfl

theorem preStmt_keys (s : Expr) (line : List Comment) :
    (linesOf [(preStmt s line).1]).map lineKey = (linesOf [s]).map lineKey := by
  cases s with
  | lineBlock b =>
    unfold preStmt
    simp only [linesOf_block, linesOf_nil, List.append_nil, preLines_keys]
  | line x => simp [preStmt, Expr.setComments, lineKey]
  | commentBlock x => simp [preStmt, Expr.setComments]
  | lparen x => simp [preStmt, Expr.setComments]
  | rparen x => simp [preStmt, Expr.setComments]

theorem postStmt_keys (s : Expr) (suf : List Comment) :
    (linesOf [(postStmt s suf).1]).map lineKey = (linesOf [s]).map lineKey := by
  cases s with
  | lineBlock b =>
    unfold postStmt
    simp only [linesOf_block, linesOf_nil, List.append_nil, List.map_reverse, postLinesRev_keys, List.reverse_reverse]
  | line x => simp [postStmt, Expr.setComments, lineKey]
  | commentBlock x => simp [postStmt, Expr.setComments]
  | lparen x => simp [postStmt, Expr.setComments]
  | rparen x => simp [postStmt, Expr.setComments]

theorem preStmts_keysL : ∀ (ss : List Expr) (line : List Comment), keysL (preStmts ss line).1 = keysL ss := by
  intro ss
  induction ss with
  | nil => intro line; rfl
  | cons s rest ih =>
    intro line
    unfold preStmts
    simp only [keysL, List.map_cons] at ih ⊢
    rw [ih, preStmt_keys]

theorem postStmtsRev_keysL : ∀ (ss : List Expr) (suf : List Comment), keysL (postStmtsRev ss suf).1 = keysL ss := by
  intro ss
  induction ss with
  | nil => intro line; rfl
  | cons s rest ih =>
    intro suf
    unfold postStmtsRev
    simp only [keysL, List.map_cons] at ih ⊢
    rw [ih, postStmt_keys]

theorem assignComments_keys (f : FileSyntax) (cs : List Comment) :
    (linesOf (assignComments f cs).stmts).map lineKey = (linesOf f.stmts).map lineKey := by
  rw [keys_eq_flatten, keys_eq_flatten]
  congr 1
  unfold assignComments
  simp only
  have hrev : ∀ xs : List Expr, keysL xs.reverse = (keysL xs).reverse := fun xs => by simp [keysL]
  rw [hrev, postStmtsRev_keysL, hrev, List.reverse_reverse, preStmts_keysL]

/-- The line identities of a parsed tree are pairwise distinct. -/
theorem parse_ids_nodup {name data : Bytes} {t : FileSyntax} (h : parse name data = .ok t) :
    ((linesOf t.stmts).map (·.id)).Nodup := by
  unfold parse at h
  cases hp : parseFile data with
  | error e => simp [hp, bind, Except.bind] at h
  | ok v =>
    simp only [hp, bind, Except.bind, Except.ok.injEq] at h
    subst h
    have hk := assignComments_keys { name := name, stmts := v.1 } v.2.commentsRev.reverse
    have hn := parseFile_ids (show parseFile data = .ok (v.1, v.2) by rw [hp])
    have : (linesOf (assignComments { name := name, stmts := v.1 } v.2.commentsRev.reverse).stmts).map (·.id) =
        idsOf v.1 := by
      have := congrArg (List.map Prod.fst) hk
      simpa [List.map_map, lineKey, idsOf, Function.comp_def] using this
    rw [this]; exact hn

end ModVerif.Proofs.ModfileC20
