/-
  C10: `NewTiles` — the tiles a publisher is told to publish along any growth sequence `0 = n₀ ≤ … ≤ n_k = N`
  contain every tile a reader of tree `N` plans to fetch, with exactly the planned width.
-/
import ModVerif.Proofs.TileAuthFinal
namespace ModVerif.TileAuth
open ModVerif ModVerif.Tlog ModVerif.Tile ModVerif.TlogStore

theorem cnt_shift (h m L : Nat) : m >>> (h * L) = cnt h m L := by
  rw [Nat.shiftRight_eq_div_pow, Nat.mul_comm]; rfl

theorem cnt_div (h m L : Nat) : m / 2 ^ (h * L) = cnt h m L := by
  rw [Nat.mul_comm]; rfl

theorem cnt_mono (h L a b : Nat) (hab : a ≤ b) : cnt h a L ≤ cnt h b L := Nat.div_le_div_right hab

theorem cnt_pos_level (h m L : Nat) (hh : 0 < h) (hpos : 0 < cnt h m L) : L ≤ m.log2 := by
  unfold cnt at hpos
  have h1 : 2 ^ (L * h) ≤ m := by
    have := (Nat.le_div_iff_mul_le (Nat.two_pow_pos (L * h))).mp hpos
    omega
  have hm : m ≠ 0 := by have := Nat.two_pow_pos (L * h); omega
  have := (Nat.le_log2 hm).mpr h1
  have : L * 1 ≤ L * h := Nat.mul_le_mul_left _ hh
  omega

/-- full tiles of one level -/
theorem newTilesLevel_full (h L old new n : Nat) (h1 : cnt h old L / 2 ^ h ≤ n) (h2 : n < cnt h new L / 2 ^ h) :
    ({ h := h, l := L, n := n, w := 2 ^ h } : Tile) ∈ newTilesLevel h L old new := by
  unfold newTilesLevel
  simp only [Nat.shiftRight_eq_div_pow, Nat.shiftLeft_eq, cnt_div]
  have hne : (cnt h old L == cnt h new L) = false := by
    simp only [beq_eq_false_iff_ne, ne_eq]
    intro e; rw [e] at h1; omega
  rw [hne]
  simp only [Bool.false_eq_true, ↓reduceIte]
  have hmem : ({ h := h, l := L, n := n, w := 2 ^ h } : Tile) ∈
      (List.range (cnt h new L / 2 ^ h - cnt h old L / 2 ^ h)).map fun i =>
        ({ h := h, l := L, n := cnt h old L / 2 ^ h + i, w := 2 ^ h } : Tile) := by
    rw [List.mem_map]
    exact ⟨n - cnt h old L / 2 ^ h, List.mem_range.mpr (by omega), by congr 1; omega⟩
  split
  · exact List.mem_append_left _ hmem
  · exact hmem

/-- the partial tile of one level -/
theorem newTilesLevel_partial (h L old new : Nat) (hne : cnt h old L ≠ cnt h new L)
    (hw : 0 < cnt h new L - cnt h new L / 2 ^ h * 2 ^ h) :
    ({ h := h, l := L, n := cnt h new L / 2 ^ h, w := cnt h new L - cnt h new L / 2 ^ h * 2 ^ h } : Tile) ∈
      newTilesLevel h L old new := by
  unfold newTilesLevel
  simp only [Nat.shiftRight_eq_div_pow, Nat.shiftLeft_eq, cnt_div]
  have hne' : (cnt h old L == cnt h new L) = false := by simpa using hne
  rw [hne']
  simp only [Bool.false_eq_true, ↓reduceIte]
  rw [if_pos hw]
  exact List.mem_append_right _ (by simp)

/-- the level loop reaches every non-empty level within its fuel -/
theorem newTilesF_spec (h old new : Nat) (hh : 0 < h) : ∀ f level, new.log2 + 2 ≤ f + level →
    ∃ ts, newTilesF h old new f level = .ok ts ∧
      ∀ L, level ≤ L → 0 < cnt h new L → ∀ t ∈ newTilesLevel h L old new, t ∈ ts := by
  intro f
  induction f with
  | zero =>
    intro level hf
    have hz : ¬ new >>> (h * level) > 0 := by
      rw [cnt_shift]
      intro hpos
      have := cnt_pos_level h new level hh hpos
      omega
    refine ⟨[], by simp only [newTilesF]; rw [if_neg hz], ?_⟩
    intro L hL hpos
    have := cnt_pos_level h new L hh hpos
    omega
  | succ f ih =>
    intro level hf
    by_cases hpos : new >>> (h * level) > 0
    · obtain ⟨rest, r1, r2⟩ := ih (level + 1) (by omega)
      refine ⟨newTilesLevel h level old new ++ rest, ?_, ?_⟩
      · simp only [newTilesF]
        rw [if_pos hpos, r1]
        rfl
      · intro L hL hp t ht
        by_cases hLl : L = level
        · subst hLl; exact List.mem_append_left _ ht
        · exact List.mem_append_right _ (r2 L (by omega) hp t ht)
    · refine ⟨[], by simp only [newTilesF]; rw [if_neg hpos], ?_⟩
      intro L hL hp
      exfalso
      apply hpos
      rw [cnt_shift]
      have : cnt h new L ≤ cnt h new level := by
        unfold cnt
        apply Nat.div_le_div_left _ (Nat.two_pow_pos _)
        exact Nat.pow_le_pow_right (by omega) (Nat.mul_le_mul_right _ hL)
      omega

theorem newTiles_spec (h old new : Nat) (hh : 0 < h) :
    ∃ ts, newTiles h old new = .ok ts ∧
      ∀ L, 0 < cnt h new L → ∀ t ∈ newTilesLevel h L old new, t ∈ ts := by
  obtain ⟨ts, t1, t2⟩ := newTilesF_spec h old new hh (new.log2 + 2) 0 (by omega)
  refine ⟨ts, ?_, fun L hp t ht => t2 L (Nat.zero_le _) hp t ht⟩
  unfold newTiles
  have : (h == 0) = false := by simp; omega
  rw [this]
  exact t1

/-- a discrete intermediate-value argument along a list -/
theorem cross (f : Nat → Nat) (n : Nat) : ∀ (l : List Nat) (a : Nat), f a ≤ n →
    (∃ b, (a :: l).getLast? = some b ∧ n < f b) → ∃ x y, (x, y) ∈ (a :: l).zip l ∧ f x ≤ n ∧ n < f y := by
  intro l
  induction l with
  | nil =>
    intro a ha hb
    obtain ⟨b, hb1, hb2⟩ := hb
    simp at hb1
    subst hb1; omega
  | cons c l ih =>
    intro a ha hb
    by_cases hc : n < f c
    · exact ⟨a, c, by simp, ha, hc⟩
    · obtain ⟨b, hb1, hb2⟩ := hb
      rw [List.getLast?_cons_cons] at hb1
      obtain ⟨x, y, h1, h2, h3⟩ := ih c (by omega) ⟨b, hb1, hb2⟩
      exact ⟨x, y, by rw [List.zip_cons_cons]; exact List.mem_cons_of_mem _ h1, h2, h3⟩

theorem le_last (ns : List Nat) (N : Nat) (hs : ns.Pairwise (· ≤ ·)) (hl : ns.getLast? = some N) :
    ∀ m ∈ ns, m ≤ N := by
  obtain ⟨ys, e⟩ := List.getLast?_eq_some_iff.mp hl
  subst e
  rw [List.pairwise_append] at hs
  intro m hm
  rcases List.mem_append.mp hm with h | h
  · exact hs.2.2 m h N (by simp)
  · simp at h; omega

/-- every non-empty standard tile of tree `N` is published at some step of the growth sequence -/
theorem stdTile_published (h N : Nat) (hh : 0 < h) (ns : List Nat) (hs : ns.Pairwise (· ≤ ·))
    (h0 : ns.head? = some 0) (hl : ns.getLast? = some N) (L n : Nat) (hlt : n * 2 ^ h < cnt h N L) :
    ∃ a b ts, (a, b) ∈ ns.zip ns.tail ∧ newTiles h a b = .ok ts ∧ stdTile h N L n ∈ ts := by
  cases ns with
  | nil => simp at h0
  | cons a0 l =>
    simp only [List.head?_cons, Option.some.injEq] at h0
    subst h0
    simp only [List.tail_cons]
    have hp := Nat.two_pow_pos h
    have hc0 : cnt h 0 L = 0 := by simp [cnt]
    by_cases hfull : (n + 1) * 2 ^ h ≤ cnt h N L
    · -- a full tile: published when the number of full tiles of its level passes `n`
      obtain ⟨x, y, m1, m2, m3⟩ := cross (fun m => cnt h m L / 2 ^ h) n l 0 (by simp [hc0])
        ⟨N, hl, by
          show n < cnt h N L / 2 ^ h
          rw [Nat.lt_iff_add_one_le, Nat.le_div_iff_mul_le hp]; exact hfull⟩
      obtain ⟨ts, t1, t2⟩ := newTiles_spec h x y hh
      refine ⟨x, y, ts, m1, t1, ?_⟩
      rw [stdTile_full_w h N L n hfull]
      apply t2 L
      · have : 0 < cnt h y L / 2 ^ h := by omega
        exact Nat.pos_of_div_pos this
      · exact newTilesLevel_full h L x y n m2 m3
    · -- the partial tile: published at the step that brings its level to the final count
      have hCpos : 0 < cnt h N L := by omega
      obtain ⟨x, y, m1, m2, m3⟩ := cross (fun m => cnt h m L) (cnt h N L - 1) l 0 (by simp [hc0])
        ⟨N, hl, by show cnt h N L - 1 < cnt h N L; omega⟩
      have hyN : y ≤ N := le_last (0 :: l) N hs hl y (List.mem_cons_of_mem _ (List.of_mem_zip m1).2)
      have hcy : cnt h y L = cnt h N L := by
        have := cnt_mono h L y N hyN; omega
      obtain ⟨ts, t1, t2⟩ := newTiles_spec h x y hh
      refine ⟨x, y, ts, m1, t1, ?_⟩
      have hn : cnt h N L / 2 ^ h = n := by
        apply Nat.div_eq_of_lt_le
        · omega
        · omega
      have : stdTile h N L n =
          { h := h, l := L, n := cnt h y L / 2 ^ h, w := cnt h y L - cnt h y L / 2 ^ h * 2 ^ h } := by
        rw [stdTile_of_lt h N L n hlt, hcy, hn]
        congr 1
        rw [Nat.add_mul] at hfull
        omega
      rw [this]
      apply t2 L (by omega)
      apply newTilesLevel_partial h L x y (by omega)
      rw [hcy, hn]; omega

/-- ★ `NewTiles` is sufficient: along any growth sequence ending at `N`, every tile that `ReadHashes` plans to fetch
    for tree `N` (any requested indexes) is among the tiles of some step, with exactly the planned width. -/
theorem newTiles_sufficient (h N : Nat) (hh : 1 ≤ h) (hR : N < 2 ^ 62) (ns : List Nat) (hs : ns.Pairwise (· ≤ ·))
    (h0 : ns.head? = some 0) (hl : ns.getLast? = some N) (idx : List Nat) (p : Plan) (hp : plan h N idx = .ok p) :
    ∀ t ∈ p.tiles, ∃ a b ts, (a, b) ∈ ns.zip ns.tail ∧ newTiles h a b = .ok ts ∧ t ∈ ts := by
  have hidx := plan_ok_lt h N idx p hp
  obtain ⟨cs, p', hp', ok⟩ := plan_spec h N (by omega) (by omega) (split_valid N hR) idx (hidx_of_lt N hR idx hidx)
  rw [hp] at hp'; cases hp'
  intro t ht
  obtain ⟨L, n, e, hlt⟩ := ok.inv.std t ht
  rw [e]
  exact stdTile_published h N (by omega) ns hs h0 hl L n hlt

end ModVerif.TileAuth
