/-
  Shared by the modules Tie/Fn*C{04,09,18}.lean (property theorems restated about the regenerated code):
  decidable equality on results `M α = Except Err α`, so that the non-vacuity examples can evaluate a generated function
  against an expected `.ok …` value by kernel `decide`.
-/
import ModVerif.Basic.GoRt
namespace ModVerif.GenPropsUtil
open ModVerif

instance exceptDecEq {ε α : Type} [DecidableEq ε] [DecidableEq α] : DecidableEq (Except ε α)
  | .ok a, .ok b => if h : a = b then isTrue (by rw [h]) else isFalse (fun e => h (Except.ok.inj e))
  | .error a, .error b => if h : a = b then isTrue (by rw [h]) else isFalse (fun e => h (Except.error.inj e))
  | .ok _, .error _ => isFalse (fun e => by cases e)
  | .error _, .ok _ => isFalse (fun e => by cases e)

theorem ok_inj_iff {ε α : Type} (a b : α) : (Except.ok a : Except ε α) = .ok b ↔ a = b :=
  ⟨Except.ok.inj, fun h => by rw [h]⟩

end ModVerif.GenPropsUtil
