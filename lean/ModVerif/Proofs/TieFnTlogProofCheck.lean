/-
  Tie helpers (2): the recursive proof runners `runRecordProof` / `runTreeProof` of the generated code
  (Generated/FnTlog.lean, checked mode) compute the model's `runRecordProofF` / `runTreeProofF` for every proof, every
  interval `lo ≤ … ≤ hi < 2^63` and every proof shorter than 2^63 hashes (a Go slice length is an `int`).
-/
import ModVerif.Proofs.TieFnTlogProofMax
namespace ModVerif.Tie.FnTlogProof
open ModVerif ModVerif.GoRt ModVerif.GoRtList

/-- Go `error` values of the proof functions as the model's error kinds: `inv` is the function's own
    "tlog: invalid inputs in …" text. -/
def errText (inv : String) : Tlog.Err → String
  | .invalid => inv
  | .proofFailed => "errProofFailed"
  | e => "unreachable: " ++ e.toString

/-- the `error` result of a checker -/
def encErr (inv : String) : Except Tlog.Err Unit → Option String
  | .ok _ => none
  | .error e => some (errText inv e)

/-- for the non-vacuity examples: the free term algebra of hashes has a default element -/
instance : Inhabited Tlog.TH := ⟨Tlog.TH.empty⟩

/-- decidable comparison of the result of a generated function with an expected value (non-vacuity examples) -/
def okIs {α : Type} [DecidableEq α] (r : GoRt.M α) (a : α) : Bool :=
  match r with
  | .ok b => decide (b = a)
  | .error _ => false

theorem okIs_iff {α : Type} [DecidableEq α] (r : GoRt.M α) (a : α) : okIs r a = true ↔ r = .ok a := by
  cases r <;> simp [okIs]

section
variable {H : Type} [DecidableEq H] [Inhabited H] (node : H → H → H)

/-- result pair `(hash, error)` of `runRecordProof` -/
def encHash : Except Tlog.Err H → H × Option String
  | .ok h => (h, none)
  | .error e => (default, some (errText "" e))

theorem getLast?_cases {α : Type} (p : List α) : (p = [] ∧ p.getLast? = none) ∨ ∃ q x, p = q ++ [x] ∧ p.getLast? = some x ∧ p.dropLast = q := by
  rcases List.eq_nil_or_concat p with h | ⟨q, x, h⟩
  · left; subst h; simp
  · rw [List.concat_eq_append] at h
    right; refine ⟨q, x, h, ?_, ?_⟩ <;> subst h <;> simp

theorem runRecordProof_ok : ∀ (fuel f : Nat) (p : List H) (lo hi n : Nat) (lh : H),
    lo ≤ n → n < hi → hi < 2 ^ 63 → p.length < 2 ^ 63 → hi - lo ≤ f → hi - lo ≤ fuel →
    Generated.Tlog.runRecordProof node fuel p (lo : Int) (hi : Int) (n : Int) lh =
      .ok (encHash (Tlog.runRecordProofF node f p lo hi n lh)) := by
  intro fuel
  induction fuel with
  | zero => intro f p lo hi n lh h1 h2 _ _ _ h5; omega
  | succ fuel ih =>
    intro f p lo hi n lh h1 h2 h3 hpl h4 h5
    obtain ⟨f, rfl⟩ : ∃ f', f = f' + 1 := ⟨f - 1, by omega⟩
    unfold Generated.Tlog.runRecordProof Tlog.runRecordProofF
    have hg : (!(decide ((lo : Int) ≤ (n : Int)) && decide ((n : Int) < (hi : Int)))) = false := by
      simp; omega
    have hg' : (!(decide (lo ≤ n) && decide (n < hi))) = false := by simp; omega
    simp only [hg, hg', Bool.false_eq_true, if_false]
    rw [chk64_ok _ (by omega) (by omega)]
    simp only [ok_bind]
    by_cases hone : lo + 1 = hi
    · have e1 : decide ((lo : Int) + 1 = (hi : Int)) = true := by simp; omega
      have e2 : (lo + 1 == hi) = true := by simp [hone]
      simp only [e1, e2, if_true]
      by_cases hp : p = []
      · subst hp; simp [len, encHash]
      · have : p.length ≠ 0 := by simpa using hp
        simp [len, encHash, this, errText]
    · have e1 : decide ((lo : Int) + 1 = (hi : Int)) = false := by simp; omega
      have e2 : (lo + 1 == hi) = false := by simp [hone]
      simp only [e1, e2, Bool.false_eq_true, if_false]
      rcases getLast?_cases p with ⟨hp, hl⟩ | ⟨q, x, hp, hl, hd⟩
      · subst hp; simp [len, encHash, errText]
      · have e3 : decide (len p = 0) = false := by
          subst hp; simp only [len_eq, List.length_append, List.length_singleton, decide_eq_false_iff_not]; omega
        have hsz : 1 < hi - lo := by omega
        have hk := Tlog.maxpow2_lt (hi - lo) hsz
        have hkp := Tlog.maxpow2_fst_pos (hi - lo)
        simp only [e3, Bool.false_eq_true, if_false, hl, hd]
        rw [chk64_ok _ (by omega) (by omega)]
        simp only [ok_bind]
        rw [maxpow2_ok_sub fuel lo hi (by omega) (by omega)]
        simp only [ok_bind]
        generalize (Tlog.maxpow2 (hi - lo)).1 = k at *
        rw [chk64_ok _ (by omega) (by omega)]
        simp only [ok_bind]
        subst hp
        have hql : q.length < 2 ^ 63 := by simp at hpl; omega
        rw [len_concat_range, chk64_ok _ (by omega) (by omega)]
        simp only [ok_bind]
        rw [← len_concat_range q x, sliceTo_concat, idxL_concat]
        simp only [ok_bind]
        rw [← Int.natCast_add]
        by_cases hlt : n < lo + k
        · have hlt' : decide ((n : Int) < ((lo + k : Nat) : Int)) = true := by simp; omega
          simp only [hlt', hlt, if_true]
          rw [ih f q lo (lo + k) n lh h1 hlt (by omega) hql (by omega) (by omega)]
          simp only [ok_bind]
          cases Tlog.runRecordProofF node f q lo (lo + k) n lh with
          | ok a => rfl
          | error e => rfl
        · have hlt' : decide ((n : Int) < ((lo + k : Nat) : Int)) = false := by simp; omega
          simp only [hlt', hlt, Bool.false_eq_true, if_false]
          rw [ih f q (lo + k) hi n lh (by omega) h2 h3 hql (by omega) (by omega)]
          simp only [ok_bind]
          cases Tlog.runRecordProofF node f q (lo + k) hi n lh with
          | ok a => rfl
          | error e => rfl

/-- result triple `(oldHash, newHash, error)` of `runTreeProof` -/
def encHash2 : Except Tlog.Err (H × H) → H × H × Option String
  | .ok (a, b) => (a, b, none)
  | .error e => (default, default, some (errText "" e))

theorem runTreeProof_ok : ∀ (fuel f : Nat) (p : List H) (lo hi n : Nat) (old : H),
    lo < n → n ≤ hi → hi < 2 ^ 63 → p.length < 2 ^ 63 → hi - lo ≤ f → hi - lo ≤ fuel →
    Generated.Tlog.runTreeProof node fuel p (lo : Int) (hi : Int) (n : Int) old =
      .ok (encHash2 (Tlog.runTreeProofF node f p lo hi n old)) := by
  intro fuel
  induction fuel with
  | zero => intro f p lo hi n old h1 h2 _ _ _ h5; omega
  | succ fuel ih =>
    intro f p lo hi n old h1 h2 h3 hpl h4 h5
    obtain ⟨f, rfl⟩ : ∃ f', f = f' + 1 := ⟨f - 1, by omega⟩
    unfold Generated.Tlog.runTreeProof Tlog.runTreeProofF
    have hg : (!(decide ((lo : Int) < (n : Int)) && decide ((n : Int) ≤ (hi : Int)))) = false := by
      simp; omega
    have hg' : (!(decide (lo < n) && decide (n ≤ hi))) = false := by simp; omega
    simp only [hg, hg', Bool.false_eq_true, if_false]
    by_cases hone : n = hi
    · have e1 : decide ((n : Int) = (hi : Int)) = true := by simp; omega
      have e2 : (n == hi) = true := by simp [hone]
      simp only [e1, e2, if_true]
      by_cases hz : lo = 0
      · have e3 : decide ((lo : Int) = 0) = true := by simp; omega
        have e4 : (lo == 0) = true := by simp [hz]
        simp only [e3, e4, if_true]
        by_cases hp : p = []
        · subst hp; simp [len, encHash2]
        · have : p.length ≠ 0 := by simpa using hp
          simp [len, encHash2, this, errText]
      · have e3 : decide ((lo : Int) = 0) = false := by simp; omega
        have e4 : (lo == 0) = false := by simp [hz]
        simp only [e3, e4, Bool.false_eq_true, if_false]
        match p with
        | [] => simp [len, encHash2, errText]
        | [x] => 
          have := idxL_natCast [x] 0 (by simp)
          simp only [Int.natCast_zero] at this
          simp [len, encHash2, this]
        | x :: y :: r => 
          have : ¬ ((r.length : Int) + 1 + 1 = 1) := by omega
          simp [len, encHash2, errText, this]
    · have e1 : decide ((n : Int) = (hi : Int)) = false := by simp; omega
      have e2 : (n == hi) = false := by simp [hone]
      simp only [e1, e2, Bool.false_eq_true, if_false]
      rcases getLast?_cases p with ⟨hp, hl⟩ | ⟨q, x, hp, hl, hd⟩
      · subst hp; simp [len, encHash2, errText]
      · have e3 : decide (len p = 0) = false := by
          subst hp; simp only [len_eq, List.length_append, List.length_singleton, decide_eq_false_iff_not]; omega
        have hsz : 1 < hi - lo := by omega
        have hk := Tlog.maxpow2_lt (hi - lo) hsz
        have hkp := Tlog.maxpow2_fst_pos (hi - lo)
        simp only [e3, Bool.false_eq_true, if_false, hl, hd]
        rw [chk64_ok _ (by omega) (by omega)]
        simp only [ok_bind]
        rw [maxpow2_ok_sub fuel lo hi (by omega) (by omega)]
        simp only [ok_bind]
        generalize (Tlog.maxpow2 (hi - lo)).1 = k at *
        rw [chk64_ok _ (by omega) (by omega)]
        simp only [ok_bind]
        subst hp
        have hql : q.length < 2 ^ 63 := by simp at hpl; omega
        rw [len_concat_range, chk64_ok _ (by omega) (by omega)]
        simp only [ok_bind]
        rw [← len_concat_range q x, sliceTo_concat, idxL_concat]
        simp only [ok_bind]
        rw [← Int.natCast_add]
        by_cases hlt : n ≤ lo + k
        · have hlt' : decide ((n : Int) ≤ ((lo + k : Nat) : Int)) = true := by simp; omega
          simp only [hlt', hlt, if_true]
          rw [ih f q lo (lo + k) n old h1 hlt (by omega) hql (by omega) (by omega)]
          simp only [ok_bind]
          cases Tlog.runTreeProofF node f q lo (lo + k) n old with
          | ok a => rfl
          | error e => rfl
        · have hlt' : decide ((n : Int) ≤ ((lo + k : Nat) : Int)) = false := by simp; omega
          simp only [hlt', hlt, Bool.false_eq_true, if_false]
          rw [ih f q (lo + k) hi n old (by omega) h2 h3 hql (by omega) (by omega)]
          simp only [ok_bind]
          cases Tlog.runTreeProofF node f q (lo + k) hi n old with
          | ok a => rfl
          | error e => rfl
end
end ModVerif.Tie.FnTlogProof
