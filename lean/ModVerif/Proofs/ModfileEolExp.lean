/-
  C02, end-of-line comments, stage (iii), part a: the rendered text in continuation form (`stmtsB`), the
  token records it lexes to (`fileT`), and the statement list the parser builds from them with every position
  given explicitly (`eStmts`), all as functions of the tree and of the input `D` the positions refer to.

  Positions are `pa D r` = "where the suffix `r` of `D` begins", so the order of two positions is the order
  of the lengths of the suffixes, and the suffixes are read off the continuation.
-/
import ModVerif.Proofs.ModfileEolStream
namespace ModVerif.Proofs.ModfileEol
open ModVerif ModVerif.Modfile
open ModVerif.Proofs.ModfileFmtLex ModVerif.Proofs.ModfileFmtLine
open ModVerif.Proofs.ModfileFmtStream ModVerif.Proofs.ModfileFmtTree ModVerif.Proofs.ModfileFmtRender

/-! ### whole-line comments and blank-line placeholders in front of a node -/

/-- the token records of the comment lines `rBefore m cs`, followed by `R` -/
def befT (D : Bytes) (m : Nat) : List Comment → Bytes → List Token
  | [], _ => []
  | c :: cs, R =>
    (if (GoStrings.trimSpace c.token).isEmpty then nlT D (rBefore m cs ++ R)
     else comT D (GoStrings.trimSpace c.token) (rBefore m cs ++ R)) :: befT D m cs R

/-- the comments the parser builds from them -/
def befC (D : Bytes) (m : Nat) : List Comment → Bytes → List Comment
  | [], _ => []
  | c :: cs, R =>
    (if (GoStrings.trimSpace c.token).isEmpty then ({} : Comment)
     else { start := pa D (GoStrings.trimSpace c.token ++ 10 :: (rBefore m cs ++ R)),
            token := GoStrings.trimSpace c.token, suffix := false }) :: befC D m cs R

/-! ### the end of a line: newline, or end-of-line comment -/

/-- the bytes that end a line whose node carries the suffix list `cs`, followed by `R` -/
def sufB (cs : List Comment) (R : Bytes) : Bytes := rSuf cs ++ 10 :: R

/-- the token that ends the line -/
def sufT (D : Bytes) : List Comment → Bytes → Token
  | [c], R => eolT D (GoStrings.trimSpace c.token) R
  | _, R => nlT D R

/-- the end-of-line comment the node gets back -/
def sufC (D : Bytes) : List Comment → Bytes → List Comment
  | [c], R => [{ start := pa D (GoStrings.trimSpace c.token ++ 10 :: R), token := GoStrings.trimSpace c.token,
                 suffix := true }]
  | _, _ => []

/-! ### block lines -/

/-- the lines of a block, each ended by its newline or end-of-line comment, followed by `Z` -/
def linesB : List Line → Bytes → Bytes
  | [], Z => Z
  | l :: ls, Z => rBefore 1 l.comments.before ++
      (9 :: (tokStr l.token [] ++ sufB l.comments.suffix (linesB ls Z)))

def linesT (D : Bytes) : List Line → Bytes → List Token
  | [], _ => []
  | l :: ls, Z =>
    befT D 1 l.comments.before (9 :: (tokStr l.token [] ++ sufB l.comments.suffix (linesB ls Z))) ++
      (tokStrT D l.token (sufB l.comments.suffix (linesB ls Z)) ++
        sufT D l.comments.suffix (linesB ls Z) :: linesT D ls Z)

/-- the lines the parser builds (before comment assignment; identities zero) -/
def eLines (D : Bytes) : List Line → Bytes → List Line
  | [], _ => []
  | l :: ls, Z =>
    { id := 0,
      comments := { before := befC D 1 l.comments.before
                      (9 :: (tokStr l.token [] ++ sufB l.comments.suffix (linesB ls Z))) },
      start := pa D (tokStr l.token [] ++ sufB l.comments.suffix (linesB ls Z)),
      token := l.token, inBlock := true,
      «end» := pa D (sufB l.comments.suffix (linesB ls Z)) } :: eLines D ls Z

/-! ### statements -/

/-- the end-of-line comments printed after `)` -/
def rsOf (b : LineBlock) : List Comment := b.rparen.comments.suffix ++ b.comments.suffix

/-- what follows the lines of a block: comments before `)`, `)`, its end of line, `R` -/
def closeB (b : LineBlock) (R : Bytes) : Bytes :=
  rBefore 0 b.rparen.comments.before ++ (41 :: sufB (rsOf b) R)

/-- what follows `(`: its end of line, the lines, the closing part -/
def bodyB (b : LineBlock) (R : Bytes) : Bytes :=
  sufB b.lparen.comments.suffix (linesB b.lines (closeB b R))

/-- a statement followed by `R` -/
def stmtB : Expr → Bytes → Bytes
  | .commentBlock x, R => rBefore 0 x.comments.before ++ R
  | .line l, R => rBefore 0 l.comments.before ++ (tokStr l.token [] ++ sufB l.comments.suffix R)
  | .lineBlock b, R => rBefore 0 b.comments.before ++ (tokStr b.token [] ++ (32 :: 40 :: bodyB b R))
  | _, R => R

def stmtsB : List Expr → Bytes
  | [] => []
  | [s] => stmtB s []
  | s :: rest => stmtB s (10 :: stmtsB rest)

def stmtT (D : Bytes) : Expr → Bytes → List Token
  | .commentBlock x, R => befT D 0 x.comments.before R
  | .line l, R =>
    befT D 0 l.comments.before (tokStr l.token [] ++ sufB l.comments.suffix R) ++
      (tokStrT D l.token (sufB l.comments.suffix R) ++ [sufT D l.comments.suffix R])
  | .lineBlock b, R =>
    befT D 0 b.comments.before (tokStr b.token [] ++ (32 :: 40 :: bodyB b R)) ++
      (tokStrT D b.token (32 :: 40 :: bodyB b R) ++
        (tokT D [40] (bodyB b R) :: sufT D b.lparen.comments.suffix (linesB b.lines (closeB b R)) ::
          (linesT D b.lines (closeB b R) ++
            (befT D 0 b.rparen.comments.before (41 :: sufB (rsOf b) R) ++
              [tokT D [41] (sufB (rsOf b) R), sufT D (rsOf b) R]))))
  | _, _ => []

/-- the statement the parser builds (before comment assignment; identities zero) -/
def eStmt (D : Bytes) : Expr → Bytes → Expr
  | .commentBlock x, R =>
    .commentBlock { comments := { before := befC D 0 x.comments.before R },
                    start := pa D (rBefore 0 x.comments.before ++ R) }
  | .line l, R =>
    .line { id := 0,
            comments := { before := befC D 0 l.comments.before (tokStr l.token [] ++ sufB l.comments.suffix R) },
            start := pa D (tokStr l.token [] ++ sufB l.comments.suffix R),
            token := l.token, inBlock := false, «end» := pa D (sufB l.comments.suffix R) }
  | .lineBlock b, R =>
    .lineBlock { comments := { before := befC D 0 b.comments.before (tokStr b.token [] ++ (32 :: 40 :: bodyB b R)) },
                 start := pa D (tokStr b.token [] ++ (32 :: 40 :: bodyB b R)),
                 lparen := { pos := pa D (40 :: bodyB b R) },
                 token := b.token,
                 lines := eLines D b.lines (closeB b R),
                 rparen := { comments := { before := befC D 0 b.rparen.comments.before (41 :: sufB (rsOf b) R) },
                             pos := pa D (41 :: sufB (rsOf b) R) } }
  | s, _ => s

/-- the statement list with the separating blank lines -/
def stmtsT (D : Bytes) : List Expr → List Token
  | [] => [eofT D]
  | [s] => stmtT D s [] ++ [eofT D]
  | s :: rest => stmtT D s (10 :: stmtsB rest) ++ nlT D (stmtsB rest) :: stmtsT D rest

def eStmts (D : Bytes) : List Expr → List Expr
  | [] => []
  | [s] => [eStmt D s []]
  | s :: rest => eStmt D s (10 :: stmtsB rest) :: eStmts D rest

/-! ### the statement after comment assignment -/

/-- `l` with the end-of-line comment it gets back -/
def aLines (D : Bytes) : List Line → Bytes → List Line
  | [], _ => []
  | l :: ls, Z =>
    { id := 0,
      comments := { before := befC D 1 l.comments.before
                      (9 :: (tokStr l.token [] ++ sufB l.comments.suffix (linesB ls Z))),
                    suffix := sufC D l.comments.suffix (linesB ls Z) },
      start := pa D (tokStr l.token [] ++ sufB l.comments.suffix (linesB ls Z)),
      token := l.token, inBlock := true,
      «end» := pa D (sufB l.comments.suffix (linesB ls Z)) } :: aLines D ls Z

def aStmt (D : Bytes) : Expr → Bytes → Expr
  | .commentBlock x, R => eStmt D (.commentBlock x) R
  | .line l, R =>
    .line { id := 0,
            comments := { before := befC D 0 l.comments.before (tokStr l.token [] ++ sufB l.comments.suffix R),
                          suffix := sufC D l.comments.suffix R },
            start := pa D (tokStr l.token [] ++ sufB l.comments.suffix R),
            token := l.token, inBlock := false, «end» := pa D (sufB l.comments.suffix R) }
  | .lineBlock b, R =>
    .lineBlock { comments := { before := befC D 0 b.comments.before (tokStr b.token [] ++ (32 :: 40 :: bodyB b R)) },
                 start := pa D (tokStr b.token [] ++ (32 :: 40 :: bodyB b R)),
                 lparen := { comments := { suffix := sufC D b.lparen.comments.suffix (linesB b.lines (closeB b R)) },
                             pos := pa D (40 :: bodyB b R) },
                 token := b.token,
                 lines := aLines D b.lines (closeB b R),
                 rparen := { comments := { before := befC D 0 b.rparen.comments.before (41 :: sufB (rsOf b) R),
                                           suffix := sufC D (rsOf b) R },
                             pos := pa D (41 :: sufB (rsOf b) R) } }
  | s, _ => s

def aStmts (D : Bytes) : List Expr → List Expr
  | [] => []
  | [s] => [aStmt D s []]
  | s :: rest => aStmt D s (10 :: stmtsB rest) :: aStmts D rest

/-! ### identities -/

def zidL (l : Line) : Line := { l with id := 0 }

def zidE : Expr → Expr
  | .line l => .line (zidL l)
  | .lineBlock b => .lineBlock { b with lines := b.lines.map zidL }
  | s => s

end ModVerif.Proofs.ModfileEol
