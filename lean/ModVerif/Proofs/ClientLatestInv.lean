/-
  Inductive invariant of the latest-tree-head machine (helper for Props/C13.lean and Props/C14.lean).
-/
import ModVerif.Model.ClientLatest
namespace ModVerif.ClientLatest
variable {M T : Type}

/-- What the protocol needs from the verification layer: `le` is the prefix order on tree heads and an `ok` answer of
`checkTrees(older, newer)` implies `older ≤ newer` (this is what C03/C10 deliver: the recomputed hash of the first
`older.N` records of the authenticated newer tree equals the older hash). -/
structure Sound (P : Params M T) (le : T → T → Prop) : Prop where
  refl : ∀ a, le a a
  trans : ∀ a b c, le a b → le b c → le a c
  zero_le : ∀ a, le P.zero a
  chk_ok : ∀ a b, Res.ok ∈ P.chk a b → le a b

/-- message `om` (possibly the empty message) stands for tree `t` -/
def MsgOf (P : Params M T) (om : Option M) (t : T) : Prop :=
  match om with
  | none => t = P.zero
  | some m => P.parse m = some t

theorem cfgTree_of_MsgOf (P : Params M T) (om : Option M) (t : T) (h : MsgOf P om t) : cfgTree P om = t := by
  cases om with
  | none => simpa [MsgOf, cfgTree] using h.symm
  | some m => simp [MsgOf] at h; simp [cfgTree, h]

theorem MsgOf_some (P : Params M T) (m : M) (t : T) (h : P.parse m = some t) : MsgOf P (some m) t := by simpa [MsgOf] using h
theorem MsgOf_none (P : Params M T) : MsgOf P none P.zero := by simp [MsgOf]
theorem cfgTree_some (P : Params M T) (m : M) (t : T) (h : P.parse m = some t) : cfgTree P (some m) = t := by simp [cfgTree, h]
theorem cfgTree_none (P : Params M T) : cfgTree P none = P.zero := rfl

/-- some `SecurityError` call was made by thread `t` -/
def hasSec (l : List (Nat × Option M × Option M)) (t : Nat) : Bool := l.any (fun e => e.1 == t)
theorem hasSec_cons (e : Nat × Option M × Option M) (l : List (Nat × Option M × Option M)) (t : Nat) :
    hasSec (e :: l) t = (e.1 == t || hasSec l t) := by simp [hasSec]
theorem hasSec_nil (t : Nat) : hasSec ([] : List (Nat × Option M × Option M)) t = false := rfl
theorem hasSec_mem (l : List (Nat × Option M × Option M)) (t : Nat) (h : hasSec l t = true) : ∃ a b, (t, a, b) ∈ l := by
  simp only [hasSec, List.any_eq_true, beq_iff_eq] at h
  obtain ⟨⟨t', a, b⟩, hm, ht⟩ := h
  simp at ht; subst ht
  exact ⟨a, b, hm⟩

/-- the thread has completed its first `mergeLatestMem` successfully -/
def PastFirst (p : PC) : Prop :=
  p = .readConfig ∨ p = .memRead .loop ∨ p = .memCheck .loop ∨ p = .memInstall .loop ∨ p = .readLatestMsg ∨
  p = .writeConfig ∨ p = .done .ok

structure Inv (P : Params M T) (le : T → T → Prop) (cl : Nat → Nat) (presented : Nat → Option M) (priv : Nat → Bool)
    (s : St M T) : Prop where
  mem_msg : ∀ c, MsgOf P (s.latestMsg c) (s.latest c)
  snap : ∀ t o, ((s.th t).pc = .memCheck o ∨ (s.th t).pc = .memInstall o) →
      le (s.th t).latest (s.latest (cl t)) ∧ MsgOf P (s.th t).latestMsg (s.th t).latest ∧
      ∃ m, (s.th t).msg = some m ∧ P.parse m = some (s.th t).tree
  checked : ∀ t o, (s.th t).pc = .memInstall o → le (s.th t).latest (s.th t).tree
  loop_msg : ∀ t, ((s.th t).pc = .memRead .loop ∨ (s.th t).pc = .memCheck .loop ∨ (s.th t).pc = .memInstall .loop) →
      (s.th t).msg = (s.th t).cfg
  first_msg : ∀ t, ((s.th t).pc = .memRead .first ∨ (s.th t).pc = .memCheck .first ∨ (s.th t).pc = .memInstall .first) →
      (s.th t).msg = presented t
  cfg_below : ∀ t, (s.th t).pc = .readLatestMsg → le (cfgTree P (s.th t).cfg) (s.latest (cl t))
  write_up : ∀ t, (s.th t).pc = .writeConfig → le (cfgTree P (s.th t).cfg) (cfgTree P (s.th t).lm)
  writes_up : ∀ w ∈ s.writes, le (cfgTree P w.1) (cfgTree P w.2)
  sec_fork : ∀ e ∈ s.sec, Res.fork ∈ P.chk (cfgTree P e.2.1) (cfgTree P e.2.2)
  sec_done : ∀ t, (s.th t).pc = .done .security → hasSec s.sec t = true
  accepted : ∀ t m pt, presented t = some m → P.parse m = some pt → PastFirst (s.th t).pc → le pt (s.latest (cl t))
  private_idle : ∀ t, priv t = true → ((s.th t).pc = .entry ∨ (s.th t).pc = .done .gonosumdb) ∧ (s.th t).ops = 0
  public_pc : ∀ t, priv t = false → (s.th t).pc ≠ .done .gonosumdb

variable [DecidableEq M] [DecidableEq T]

theorem inv_init (P : Params M T) (le : T → T → Prop) (hS : Sound P le) (cl : Nat → Nat) (presented : Nat → Option M)
    (priv : Nat → Bool) (c0 : Option M) : Inv P le cl presented priv (init P c0) := by
  constructor <;> simp [init, MsgOf, PastFirst, hasSec]


set_option maxHeartbeats 2000000 in
theorem inv_step_entry (P : Params M T) (le : T → T → Prop) (hS : Sound P le) (cl : Nat → Nat) (presented : Nat → Option M)
    (priv : Nat → Bool) (s s' : St M T) (t : Nat) (r : Res)
    (hI : Inv P le cl presented priv s) (hpc : (s.th t).pc = .entry) (h : step P cl presented priv s t r = some s') :
    Inv P le cl presented priv s' := by
  obtain ⟨k1, k2, k3, k4, k5, k6, k7, k8, k9, k10, k11, k12, k13⟩ := hI
  obtain ⟨s1, s2, s3, s4⟩ := hS
  unfold step at h
  simp only [hpc] at h
  simp at h; subst h
  by_cases hp : priv t = true <;> simp only [hp, if_true, Bool.false_eq_true, if_false]
  all_goals (constructor <;> simp only [PastFirst, afterMem, List.mem_cons, hasSec_cons] at * <;> grind (splits := 40) (ematch := 20) (instances := 5000) [upd, cfgTree_of_MsgOf, MsgOf_some, MsgOf_none, cfgTree_some, cfgTree_none])

set_option maxHeartbeats 2000000 in
theorem inv_step_start (P : Params M T) (le : T → T → Prop) (hS : Sound P le) (cl : Nat → Nat) (presented : Nat → Option M)
    (priv : Nat → Bool) (s s' : St M T) (t : Nat) (r : Res)
    (hI : Inv P le cl presented priv s) (hpc : (s.th t).pc = .start) (h : step P cl presented priv s t r = some s') :
    Inv P le cl presented priv s' := by
  obtain ⟨k1, k2, k3, k4, k5, k6, k7, k8, k9, k10, k11, k12, k13⟩ := hI
  obtain ⟨s1, s2, s3, s4⟩ := hS
  unfold step at h
  simp only [hpc] at h
  simp at h; subst h
  all_goals (constructor <;> simp only [PastFirst, afterMem, List.mem_cons, hasSec_cons] at * <;> grind (splits := 40) (ematch := 20) (instances := 5000) [upd, cfgTree_of_MsgOf, MsgOf_some, MsgOf_none, cfgTree_some, cfgTree_none])

set_option maxHeartbeats 2000000 in
theorem inv_step_memRead_first (P : Params M T) (le : T → T → Prop) (hS : Sound P le) (cl : Nat → Nat) (presented : Nat → Option M)
    (priv : Nat → Bool) (s s' : St M T) (t : Nat) (r : Res)
    (hI : Inv P le cl presented priv s) (hpc : (s.th t).pc = .memRead .first) (h : step P cl presented priv s t r = some s') :
    Inv P le cl presented priv s' := by
  obtain ⟨k1, k2, k3, k4, k5, k6, k7, k8, k9, k10, k11, k12, k13⟩ := hI
  obtain ⟨s1, s2, s3, s4⟩ := hS
  unfold step at h
  simp only [hpc] at h
  cases hm : (s.th t).msg with
  | none =>
    simp only [hm] at h
    simp at h; subst h
    by_cases hz : P.size (s.latest (cl t)) = 0 <;> simp only [hz, if_true, if_false]
    all_goals (constructor <;> simp only [PastFirst, afterMem, List.mem_cons, hasSec_cons] at * <;> grind (splits := 40) (ematch := 20) (instances := 5000) [upd, cfgTree_of_MsgOf, MsgOf_some, MsgOf_none, cfgTree_some, cfgTree_none])
  | some m =>
    simp only [hm] at h
    cases hp : P.parse m with
    | none =>
      simp only [hp] at h
      simp at h; subst h
      all_goals (constructor <;> simp only [PastFirst, afterMem, List.mem_cons, hasSec_cons] at * <;> grind (splits := 40) (ematch := 20) (instances := 5000) [upd, cfgTree_of_MsgOf, MsgOf_some, MsgOf_none, cfgTree_some, cfgTree_none])
    | some tr =>
      simp only [hp] at h
      simp at h; subst h
      all_goals (constructor <;> simp only [PastFirst, afterMem, List.mem_cons, hasSec_cons] at * <;> grind (splits := 40) (ematch := 20) (instances := 5000) [upd, cfgTree_of_MsgOf, MsgOf_some, MsgOf_none, cfgTree_some, cfgTree_none])

set_option maxHeartbeats 2000000 in
theorem inv_step_memRead_loop (P : Params M T) (le : T → T → Prop) (hS : Sound P le) (cl : Nat → Nat) (presented : Nat → Option M)
    (priv : Nat → Bool) (s s' : St M T) (t : Nat) (r : Res)
    (hI : Inv P le cl presented priv s) (hpc : (s.th t).pc = .memRead .loop) (h : step P cl presented priv s t r = some s') :
    Inv P le cl presented priv s' := by
  obtain ⟨k1, k2, k3, k4, k5, k6, k7, k8, k9, k10, k11, k12, k13⟩ := hI
  obtain ⟨s1, s2, s3, s4⟩ := hS
  unfold step at h
  simp only [hpc] at h
  cases hm : (s.th t).msg with
  | none =>
    simp only [hm] at h
    simp at h; subst h
    by_cases hz : P.size (s.latest (cl t)) = 0 <;> simp only [hz, if_true, if_false]
    all_goals (constructor <;> simp only [PastFirst, afterMem, List.mem_cons, hasSec_cons] at * <;> grind (splits := 40) (ematch := 20) (instances := 5000) [upd, cfgTree_of_MsgOf, MsgOf_some, MsgOf_none, cfgTree_some, cfgTree_none])
  | some m =>
    simp only [hm] at h
    cases hp : P.parse m with
    | none =>
      simp only [hp] at h
      simp at h; subst h
      all_goals (constructor <;> simp only [PastFirst, afterMem, List.mem_cons, hasSec_cons] at * <;> grind (splits := 40) (ematch := 20) (instances := 5000) [upd, cfgTree_of_MsgOf, MsgOf_some, MsgOf_none, cfgTree_some, cfgTree_none])
    | some tr =>
      simp only [hp] at h
      simp at h; subst h
      all_goals (constructor <;> simp only [PastFirst, afterMem, List.mem_cons, hasSec_cons] at * <;> grind (splits := 40) (ematch := 20) (instances := 5000) [upd, cfgTree_of_MsgOf, MsgOf_some, MsgOf_none, cfgTree_some, cfgTree_none])

set_option maxHeartbeats 2000000 in
theorem inv_step_memCheck_first (P : Params M T) (le : T → T → Prop) (hS : Sound P le) (cl : Nat → Nat) (presented : Nat → Option M)
    (priv : Nat → Bool) (s s' : St M T) (t : Nat) (r : Res)
    (hI : Inv P le cl presented priv s) (hpc : (s.th t).pc = .memCheck .first) (h : step P cl presented priv s t r = some s') :
    Inv P le cl presented priv s' := by
  obtain ⟨k1, k2, k3, k4, k5, k6, k7, k8, k9, k10, k11, k12, k13⟩ := hI
  obtain ⟨s1, s2, s3, s4⟩ := hS
  unfold step at h
  simp only [hpc] at h
  by_cases hsz : P.size (s.th t).tree ≤ P.size (s.th t).latest
  · simp only [hsz, if_true] at h
    by_cases hmem : r ∈ P.chk (s.th t).tree (s.th t).latest
    · simp only [hmem, if_true] at h
      cases r <;> simp at h <;> subst h
      · by_cases hlt : P.size (s.th t).tree < P.size (s.th t).latest <;> simp only [hlt, if_true, if_false]
        all_goals (constructor <;> simp only [PastFirst, afterMem, List.mem_cons, hasSec_cons] at * <;> grind (splits := 40) (ematch := 20) (instances := 5000) [upd, cfgTree_of_MsgOf, MsgOf_some, MsgOf_none, cfgTree_some, cfgTree_none])
      all_goals (constructor <;> simp only [PastFirst, afterMem, List.mem_cons, hasSec_cons] at * <;> grind (splits := 40) (ematch := 20) (instances := 5000) [upd, cfgTree_of_MsgOf, MsgOf_some, MsgOf_none, cfgTree_some, cfgTree_none])
    · simp [hmem] at h
  · simp only [hsz, if_false] at h
    by_cases hmem : r ∈ P.chk (s.th t).latest (s.th t).tree
    · simp only [hmem, if_true] at h
      cases r <;> simp at h <;> subst h
      all_goals (constructor <;> simp only [PastFirst, afterMem, List.mem_cons, hasSec_cons] at * <;> grind (splits := 40) (ematch := 20) (instances := 5000) [upd, cfgTree_of_MsgOf, MsgOf_some, MsgOf_none, cfgTree_some, cfgTree_none])
    · simp [hmem] at h

set_option maxHeartbeats 2000000 in
theorem inv_step_memCheck_loop (P : Params M T) (le : T → T → Prop) (hS : Sound P le) (cl : Nat → Nat) (presented : Nat → Option M)
    (priv : Nat → Bool) (s s' : St M T) (t : Nat) (r : Res)
    (hI : Inv P le cl presented priv s) (hpc : (s.th t).pc = .memCheck .loop) (h : step P cl presented priv s t r = some s') :
    Inv P le cl presented priv s' := by
  obtain ⟨k1, k2, k3, k4, k5, k6, k7, k8, k9, k10, k11, k12, k13⟩ := hI
  obtain ⟨s1, s2, s3, s4⟩ := hS
  unfold step at h
  simp only [hpc] at h
  by_cases hsz : P.size (s.th t).tree ≤ P.size (s.th t).latest
  · simp only [hsz, if_true] at h
    by_cases hmem : r ∈ P.chk (s.th t).tree (s.th t).latest
    · simp only [hmem, if_true] at h
      cases r <;> simp at h <;> subst h
      · by_cases hlt : P.size (s.th t).tree < P.size (s.th t).latest <;> simp only [hlt, if_true, if_false]
        all_goals (constructor <;> simp only [PastFirst, afterMem, List.mem_cons, hasSec_cons] at * <;> grind (splits := 40) (ematch := 20) (instances := 5000) [upd, cfgTree_of_MsgOf, MsgOf_some, MsgOf_none, cfgTree_some, cfgTree_none])
      all_goals (constructor <;> simp only [PastFirst, afterMem, List.mem_cons, hasSec_cons] at * <;> grind (splits := 40) (ematch := 20) (instances := 5000) [upd, cfgTree_of_MsgOf, MsgOf_some, MsgOf_none, cfgTree_some, cfgTree_none])
    · simp [hmem] at h
  · simp only [hsz, if_false] at h
    by_cases hmem : r ∈ P.chk (s.th t).latest (s.th t).tree
    · simp only [hmem, if_true] at h
      cases r <;> simp at h <;> subst h
      all_goals (constructor <;> simp only [PastFirst, afterMem, List.mem_cons, hasSec_cons] at * <;> grind (splits := 40) (ematch := 20) (instances := 5000) [upd, cfgTree_of_MsgOf, MsgOf_some, MsgOf_none, cfgTree_some, cfgTree_none])
    · simp [hmem] at h

set_option maxHeartbeats 2000000 in
theorem inv_step_memInstall_first (P : Params M T) (le : T → T → Prop) (hS : Sound P le) (cl : Nat → Nat) (presented : Nat → Option M)
    (priv : Nat → Bool) (s s' : St M T) (t : Nat) (r : Res)
    (hI : Inv P le cl presented priv s) (hpc : (s.th t).pc = .memInstall .first) (h : step P cl presented priv s t r = some s') :
    Inv P le cl presented priv s' := by
  obtain ⟨k1, k2, k3, k4, k5, k6, k7, k8, k9, k10, k11, k12, k13⟩ := hI
  obtain ⟨s1, s2, s3, s4⟩ := hS
  unfold step at h
  simp only [hpc] at h
  by_cases heq : s.latest (cl t) = (s.th t).latest
  · simp only [heq, if_true] at h
    simp at h; subst h
    all_goals (constructor <;> simp only [PastFirst, afterMem, List.mem_cons, hasSec_cons] at * <;> grind (splits := 40) (ematch := 20) (instances := 5000) [upd, cfgTree_of_MsgOf, MsgOf_some, MsgOf_none, cfgTree_some, cfgTree_none])
  · simp only [heq, if_false] at h
    simp at h; subst h
    all_goals (constructor <;> simp only [PastFirst, afterMem, List.mem_cons, hasSec_cons] at * <;> grind (splits := 40) (ematch := 20) (instances := 5000) [upd, cfgTree_of_MsgOf, MsgOf_some, MsgOf_none, cfgTree_some, cfgTree_none])

set_option maxHeartbeats 2000000 in
theorem inv_step_memInstall_loop (P : Params M T) (le : T → T → Prop) (hS : Sound P le) (cl : Nat → Nat) (presented : Nat → Option M)
    (priv : Nat → Bool) (s s' : St M T) (t : Nat) (r : Res)
    (hI : Inv P le cl presented priv s) (hpc : (s.th t).pc = .memInstall .loop) (h : step P cl presented priv s t r = some s') :
    Inv P le cl presented priv s' := by
  obtain ⟨k1, k2, k3, k4, k5, k6, k7, k8, k9, k10, k11, k12, k13⟩ := hI
  obtain ⟨s1, s2, s3, s4⟩ := hS
  unfold step at h
  simp only [hpc] at h
  by_cases heq : s.latest (cl t) = (s.th t).latest
  · simp only [heq, if_true] at h
    simp at h; subst h
    all_goals (constructor <;> simp only [PastFirst, afterMem, List.mem_cons, hasSec_cons] at * <;> grind (splits := 40) (ematch := 20) (instances := 5000) [upd, cfgTree_of_MsgOf, MsgOf_some, MsgOf_none, cfgTree_some, cfgTree_none])
  · simp only [heq, if_false] at h
    simp at h; subst h
    all_goals (constructor <;> simp only [PastFirst, afterMem, List.mem_cons, hasSec_cons] at * <;> grind (splits := 40) (ematch := 20) (instances := 5000) [upd, cfgTree_of_MsgOf, MsgOf_some, MsgOf_none, cfgTree_some, cfgTree_none])

set_option maxHeartbeats 2000000 in
theorem inv_step_readConfig (P : Params M T) (le : T → T → Prop) (hS : Sound P le) (cl : Nat → Nat) (presented : Nat → Option M)
    (priv : Nat → Bool) (s s' : St M T) (t : Nat) (r : Res)
    (hI : Inv P le cl presented priv s) (hpc : (s.th t).pc = .readConfig) (h : step P cl presented priv s t r = some s') :
    Inv P le cl presented priv s' := by
  obtain ⟨k1, k2, k3, k4, k5, k6, k7, k8, k9, k10, k11, k12, k13⟩ := hI
  obtain ⟨s1, s2, s3, s4⟩ := hS
  unfold step at h
  simp only [hpc] at h
  by_cases hr : r = .error
  · simp only [hr, if_true] at h
    simp at h; subst h
    all_goals (constructor <;> simp only [PastFirst, afterMem, List.mem_cons, hasSec_cons] at * <;> grind (splits := 40) (ematch := 20) (instances := 5000) [upd, cfgTree_of_MsgOf, MsgOf_some, MsgOf_none, cfgTree_some, cfgTree_none])
  · simp only [hr, if_false] at h
    simp at h; subst h
    all_goals (constructor <;> simp only [PastFirst, afterMem, List.mem_cons, hasSec_cons] at * <;> grind (splits := 40) (ematch := 20) (instances := 5000) [upd, cfgTree_of_MsgOf, MsgOf_some, MsgOf_none, cfgTree_some, cfgTree_none])

set_option maxHeartbeats 2000000 in
theorem inv_step_readLatestMsg (P : Params M T) (le : T → T → Prop) (hS : Sound P le) (cl : Nat → Nat) (presented : Nat → Option M)
    (priv : Nat → Bool) (s s' : St M T) (t : Nat) (r : Res)
    (hI : Inv P le cl presented priv s) (hpc : (s.th t).pc = .readLatestMsg) (h : step P cl presented priv s t r = some s') :
    Inv P le cl presented priv s' := by
  obtain ⟨k1, k2, k3, k4, k5, k6, k7, k8, k9, k10, k11, k12, k13⟩ := hI
  obtain ⟨s1, s2, s3, s4⟩ := hS
  unfold step at h
  simp only [hpc] at h
  simp at h; subst h
  all_goals (constructor <;> simp only [PastFirst, afterMem, List.mem_cons, hasSec_cons] at * <;> grind (splits := 40) (ematch := 20) (instances := 5000) [upd, cfgTree_of_MsgOf, MsgOf_some, MsgOf_none, cfgTree_some, cfgTree_none])

set_option maxHeartbeats 2000000 in
theorem inv_step_writeConfig (P : Params M T) (le : T → T → Prop) (hS : Sound P le) (cl : Nat → Nat) (presented : Nat → Option M)
    (priv : Nat → Bool) (s s' : St M T) (t : Nat) (r : Res)
    (hI : Inv P le cl presented priv s) (hpc : (s.th t).pc = .writeConfig) (h : step P cl presented priv s t r = some s') :
    Inv P le cl presented priv s' := by
  obtain ⟨k1, k2, k3, k4, k5, k6, k7, k8, k9, k10, k11, k12, k13⟩ := hI
  obtain ⟨s1, s2, s3, s4⟩ := hS
  unfold step at h
  simp only [hpc] at h
  by_cases hr : r = .error
  · simp only [hr, if_true] at h
    simp at h; subst h
    all_goals (constructor <;> simp only [PastFirst, afterMem, List.mem_cons, hasSec_cons] at * <;> grind (splits := 40) (ematch := 20) (instances := 5000) [upd, cfgTree_of_MsgOf, MsgOf_some, MsgOf_none, cfgTree_some, cfgTree_none])
  · simp only [hr, if_false] at h
    by_cases hc : s.config = (s.th t).cfg
    · simp only [hc, if_true] at h
      simp at h; subst h
      all_goals (constructor <;> simp only [PastFirst, afterMem, List.mem_cons, hasSec_cons] at * <;> grind (splits := 40) (ematch := 20) (instances := 5000) [upd, cfgTree_of_MsgOf, MsgOf_some, MsgOf_none, cfgTree_some, cfgTree_none])
    · simp only [hc, if_false] at h
      simp at h; subst h
      all_goals (constructor <;> simp only [PastFirst, afterMem, List.mem_cons, hasSec_cons] at * <;> grind (splits := 40) (ematch := 20) (instances := 5000) [upd, cfgTree_of_MsgOf, MsgOf_some, MsgOf_none, cfgTree_some, cfgTree_none])

theorem inv_step (P : Params M T) (le : T → T → Prop) (hS : Sound P le) (cl : Nat → Nat) (presented : Nat → Option M)
    (priv : Nat → Bool) (s s' : St M T) (t : Nat) (r : Res)
    (hI : Inv P le cl presented priv s) (h : step P cl presented priv s t r = some s') :
    Inv P le cl presented priv s' := by
  cases hpc : (s.th t).pc with
  | entry => exact inv_step_entry P le hS cl presented priv s s' t r hI hpc h
  | start => exact inv_step_start P le hS cl presented priv s s' t r hI hpc h
  | memRead o => cases o
                 · exact inv_step_memRead_first P le hS cl presented priv s s' t r hI hpc h
                 · exact inv_step_memRead_loop P le hS cl presented priv s s' t r hI hpc h
  | memCheck o => cases o
                  · exact inv_step_memCheck_first P le hS cl presented priv s s' t r hI hpc h
                  · exact inv_step_memCheck_loop P le hS cl presented priv s s' t r hI hpc h
  | memInstall o => cases o
                    · exact inv_step_memInstall_first P le hS cl presented priv s s' t r hI hpc h
                    · exact inv_step_memInstall_loop P le hS cl presented priv s s' t r hI hpc h
  | readConfig => exact inv_step_readConfig P le hS cl presented priv s s' t r hI hpc h
  | readLatestMsg => exact inv_step_readLatestMsg P le hS cl presented priv s s' t r hI hpc h
  | writeConfig => exact inv_step_writeConfig P le hS cl presented priv s s' t r hI hpc h
  | done res => unfold step at h; simp [hpc] at h

theorem inv_reachable (P : Params M T) (le : T → T → Prop) (hS : Sound P le) (cl : Nat → Nat) (presented : Nat → Option M)
    (priv : Nat → Bool) (c0 : Option M) (s : St M T) (h : Reachable P cl presented priv c0 s) :
    Inv P le cl presented priv s := by
  induction h with
  | init => exact inv_init P le hS cl presented priv c0
  | step t r _ hs ih => exact inv_step P le hS cl presented priv _ _ t r ih hs

/-- One step never moves a client's in-memory head backwards (it only changes in `memInstall`, to a head that was
checked against the value it replaces). -/
theorem step_latest_mono (P : Params M T) (le : T → T → Prop) (hS : Sound P le) (cl : Nat → Nat) (presented : Nat → Option M)
    (priv : Nat → Bool) (s s' : St M T) (t : Nat) (r : Res)
    (hI : Inv P le cl presented priv s) (h : step P cl presented priv s t r = some s') (c : Nat) :
    le (s.latest c) (s'.latest c) := by
  have hk := hI.checked t
  have hr := hS.refl
  unfold step at h
  cases hpc : (s.th t).pc <;> simp only [hpc] at h <;> (repeat' split at h) <;> (try simp at h) <;> (try subst h) <;>
    (try exact hr _)
  all_goals grind [upd]

/-- One step changes the stored head only by a successful compare-and-swap from the CURRENT value, to a head that
contains it. -/
theorem step_config (P : Params M T) (le : T → T → Prop) (hS : Sound P le) (cl : Nat → Nat) (presented : Nat → Option M)
    (priv : Nat → Bool) (s s' : St M T) (t : Nat) (r : Res)
    (hI : Inv P le cl presented priv s) (h : step P cl presented priv s t r = some s') :
    (s'.config = s.config ∧ s'.writes = s.writes) ∨
    ((s.th t).pc = .writeConfig ∧ (s.th t).cfg = s.config ∧ s'.writes = (s.config, s'.config) :: s.writes ∧
      le (cfgTree P s.config) (cfgTree P s'.config)) := by
  have hk := hI.write_up t
  unfold step at h
  cases hpc : (s.th t).pc <;> simp only [hpc] at h <;> (repeat' split at h) <;> (try simp at h) <;> (try subst h) <;>
    (try (left; exact ⟨rfl, rfl⟩))
  all_goals grind

/-- A `fork` answer of `checkTrees`: nothing is installed or stored, `SecurityError` receives the two signed notes that
were compared (older first), and the thread fails with the security error. -/
theorem step_fork (P : Params M T) (le : T → T → Prop) (cl : Nat → Nat) (presented : Nat → Option M)
    (priv : Nat → Bool) (s s' : St M T) (t : Nat) (o : Outer)
    (hI : Inv P le cl presented priv s) (hpc : (s.th t).pc = .memCheck o)
    (h : step P cl presented priv s t .fork = some s') :
    s'.config = s.config ∧ s'.latest = s.latest ∧ s'.latestMsg = s.latestMsg ∧ s'.writes = s.writes ∧
    (s'.th t).pc = .done .security ∧
    ∃ older newer, s'.sec = (t, older, newer) :: s.sec ∧ Res.fork ∈ P.chk (cfgTree P older) (cfgTree P newer) ∧
      ((older = (s.th t).msg ∧ newer = (s.th t).latestMsg) ∨ (older = (s.th t).latestMsg ∧ newer = (s.th t).msg)) := by
  obtain ⟨_, hmo, m, hm, hp⟩ := hI.snap t o (Or.inl hpc)
  have e1 : cfgTree P (s.th t).msg = (s.th t).tree := by rw [hm]; exact cfgTree_some P m _ hp
  have e2 : cfgTree P (s.th t).latestMsg = (s.th t).latest := cfgTree_of_MsgOf P _ _ hmo
  unfold step at h
  simp only [hpc] at h
  by_cases hsz : P.size (s.th t).tree ≤ P.size (s.th t).latest
  · simp only [hsz, if_true] at h
    by_cases hmem : Res.fork ∈ P.chk (s.th t).tree (s.th t).latest
    · simp only [hmem, if_true] at h
      simp at h; subst h
      refine ⟨rfl, rfl, rfl, rfl, by simp, _, _, rfl, ?_, Or.inl ⟨rfl, rfl⟩⟩
      rw [e1, e2]; exact hmem
    · simp [hmem] at h
  · simp only [hsz, if_false] at h
    by_cases hmem : Res.fork ∈ P.chk (s.th t).latest (s.th t).tree
    · simp only [hmem, if_true] at h
      simp at h; subst h
      refine ⟨rfl, rfl, rfl, rfl, by simp, _, _, rfl, ?_, Or.inr ⟨rfl, rfl⟩⟩
      rw [e1, e2]; exact hmem
    · simp [hmem] at h

/-- A thread whose path is private only ever takes the `entry` step, which touches nothing shared. -/
theorem step_private (P : Params M T) (le : T → T → Prop) (cl : Nat → Nat) (presented : Nat → Option M)
    (priv : Nat → Bool) (s s' : St M T) (t : Nat) (r : Res)
    (hI : Inv P le cl presented priv s) (hp : priv t = true) (h : step P cl presented priv s t r = some s') :
    s'.config = s.config ∧ s'.latest = s.latest ∧ s'.latestMsg = s.latestMsg ∧ s'.sec = s.sec ∧ s'.writes = s.writes ∧
    (s'.th t).pc = .done .gonosumdb ∧ (s'.th t).ops = 0 := by
  obtain ⟨hpc, hops⟩ := hI.private_idle t hp
  unfold step at h
  rcases hpc with hpc | hpc
  · simp only [hpc] at h
    simp at h; subst h
    simp [hp, hops]
  · simp [hpc] at h

end ModVerif.ClientLatest
