/- Helper lemmas for C18: the text of a pseudo-version by parts; it parses, is recognised by the
   matcher, and parsePseudoVersion takes it apart again. -/
import ModVerif.Proofs.PseudoDecimal
import ModVerif.Proofs.PseudoSemver
namespace ModVerif.Proofs.Pseudo
open ModVerif ModVerif.PseudoSpec
open ModVerif.Pseudo hiding isDigit isAlnum

/-! character-class facts, checked on all 256 bytes -/
theorem digit_identOrDot : ∀ c : UInt8, isDigit c = true → identOrDot c = true := forall_uint8 (by decide +kernel)
theorem alnum_identOrDot : ∀ c : UInt8, isAlnum c = true → identOrDot c = true := forall_uint8 (by decide +kernel)
theorem identOrDot_ne_plus : ∀ c : UInt8, identOrDot c = true → c ≠ 43 := forall_uint8 (by decide +kernel)
theorem digit_ne : ∀ c : UInt8, isDigit c = true → c ≠ 45 ∧ c ≠ 46 ∧ c ≠ 43 := forall_uint8 (by decide +kernel)
theorem alnum_ne : ∀ c : UInt8, isAlnum c = true → c ≠ 45 ∧ c ≠ 46 ∧ c ≠ 43 := forall_uint8 (by decide +kernel)

theorem num0 : Num [48] := ⟨by simp, by intro c hc; simp at hc; subst hc; decide, Or.inl rfl⟩

theorem not_mem_of_forall {p : UInt8 → Prop} {l : Bytes} {x : UInt8} (h : ∀ c ∈ l, p c) (hx : ¬ p x) : x ∉ l :=
  fun hm => hx (h x hm)

theorem digits_no (l : Bytes) (h : ∀ c ∈ l, isDigit c = true) : 45 ∉ l ∧ 46 ∉ l ∧ 43 ∉ l :=
  ⟨fun hm => (digit_ne 45 (h 45 hm)).1 rfl, fun hm => (digit_ne 46 (h 46 hm)).2.1 rfl, fun hm => (digit_ne 43 (h 43 hm)).2.2 rfl⟩

theorem alnums_no (l : Bytes) (h : ∀ c ∈ l, isAlnum c = true) : 45 ∉ l ∧ 46 ∉ l ∧ 43 ∉ l :=
  ⟨fun hm => (alnum_ne 45 (h 45 hm)).1 rfl, fun hm => (alnum_ne 46 (h 46 hm)).2.1 rfl, fun hm => (alnum_ne 43 (h 43 hm)).2.2 rfl⟩

/-- `ts ++ "-" ++ rev` as a prerelease identifier: not a (bad) number, since it contains '-' -/
theorem isBadNum_seg (ts rev : Bytes) : Semver.isBadNum (ts ++ 45 :: rev) = false := by
  have : (ts ++ 45 :: rev).all Semver.isDigit = false := by
    rw [List.all_eq_false]
    exact ⟨45, by simp, by decide⟩
  simp [Semver.isBadNum, this]

/-- The middle part `R0` between the '-' after the patch number and the time stamp:
    empty (form 1), "0." (forms 2, 3) or `pre.0.` (forms 4, 5). -/
inductive Mid : Bytes → Bytes → Bytes → Prop
  | nobase : Mid [48] [48] []
  | release (min pat : Bytes) : Mid min pat [48, 46]
  | prerelease (min pat body : Bytes) (hb : ∀ c ∈ body, identOrDot c = true)
      (hs : ∀ s ∈ splitOn 46 body, s ≠ [] ∧ Semver.isBadNum s = false) : Mid min pat (body ++ [46, 48, 46])

/-- the prerelease part of a pseudo-version -/
def pvPre (R0 ts rev : Bytes) : Bytes := 45 :: (R0 ++ ts ++ 45 :: rev)

/-- the text of a pseudo-version by parts -/
def pvText (maj min pat R0 ts rev bld : Bytes) : Bytes :=
  118 :: maj ++ 46 :: min ++ 46 :: pat ++ pvPre R0 ts rev ++ bld

theorem bad48 : Semver.isBadNum [48] = false := by decide

theorem preOK_pvPre {min pat R0 ts rev : Bytes} (hR : Mid min pat R0) (hts : Ts ts) (hrev : Rev rev) :
    PreOK (pvPre R0 ts rev) := by
  have hseg_ident : ∀ c ∈ ts ++ 45 :: rev, identOrDot c = true := by
    intro c hc
    rcases List.mem_append.mp hc with h | h
    · exact digit_identOrDot c (hts.2 c h)
    · rcases List.mem_cons.mp h with rfl | h
      · decide
      · exact alnum_identOrDot c (hrev.2 c h)
  have hseg_nodot : 46 ∉ ts ++ 45 :: rev := by
    intro h
    rcases List.mem_append.mp h with h | h
    · exact (digits_no ts hts.2).2.1 h
    · rcases List.mem_cons.mp h with h | h
      · exact absurd h (by decide)
      · exact (alnums_no rev hrev.2).2.1 h
  have hseg_ne : ts ++ 45 :: rev ≠ [] := by simp
  refine Or.inr ⟨R0 ++ ts ++ 45 :: rev, rfl, ?_, ?_⟩
  · intro c hc
    rw [List.append_assoc] at hc
    rcases List.mem_append.mp hc with h | h
    · cases hR with
      | nobase => simp at h
      | release => simp at h; rcases h with rfl | rfl <;> decide
      | prerelease _ _ body hb hs =>
        rcases List.mem_append.mp h with h | h
        · exact hb c h
        · simp at h; rcases h with rfl | rfl | rfl <;> decide
    · exact hseg_ident c h
  · intro s hs
    rw [List.append_assoc] at hs
    cases hR with
    | nobase =>
      rw [List.nil_append, splitOn_noSep 46 _ hseg_nodot] at hs
      simp at hs; subst hs
      exact ⟨hseg_ne, isBadNum_seg ts rev⟩
    | release =>
      have : ([48, 46] ++ (ts ++ 45 :: rev) : Bytes) = [48] ++ 46 :: (ts ++ 45 :: rev) := by simp
      rw [this, splitOn_two 46 _ _ (by decide) hseg_nodot] at hs
      simp at hs
      rcases hs with rfl | rfl
      · exact ⟨by simp, bad48⟩
      · exact ⟨hseg_ne, isBadNum_seg ts rev⟩
    | prerelease _ _ body hb hs' =>
      have : (body ++ [46, 48, 46] ++ (ts ++ 45 :: rev) : Bytes) = body ++ 46 :: ([48] ++ 46 :: (ts ++ 45 :: rev)) := by simp
      rw [this, splitOn_append_sep, splitOn_two 46 _ _ (by decide) hseg_nodot] at hs
      rcases List.mem_append.mp hs with h | h
      · exact hs' s h
      · simp at h
        rcases h with rfl | rfl
        · exact ⟨by simp, bad48⟩
        · exact ⟨hseg_ne, isBadNum_seg ts rev⟩

/-- a pseudo-version text parses into its parts -/
theorem parse_pvText {maj min pat R0 ts rev bld : Bytes} (hmaj : Num maj) (hmin : Num min) (hpat : Num pat)
    (hR : Mid min pat R0) (hts : Ts ts) (hrev : Rev rev) (hbld : BuildOK bld) :
    Semver.parse (pvText maj min pat R0 ts rev bld)
      = some { major := maj, minor := min, patch := pat, prerelease := pvPre R0 ts rev, build := bld } :=
  parse_full hmaj hmin hpat (preOK_pvPre hR hts hrev) hbld


/-! ### the matcher accepts a pseudo-version text -/

/-- the part of the text before the time stamp -/
def pvP (maj min pat R0 : Bytes) : Bytes := 118 :: maj ++ 46 :: min ++ 46 :: pat ++ 45 :: R0

/-- the text up to the build metadata -/
def pvHead (maj min pat R0 ts rev : Bytes) : Bytes := pvP maj min pat R0 ++ ts ++ 45 :: rev

theorem pvText_eq (maj min pat R0 ts rev bld : Bytes) :
    pvText maj min pat R0 ts rev bld = pvHead maj min pat R0 ts rev ++ bld := by
  simp [pvText, pvHead, pvP, pvPre]

theorem mid_identOrDot {min pat R0 : Bytes} (hR : Mid min pat R0) : ∀ c ∈ R0, identOrDot c = true := by
  intro c h
  cases hR with
  | nobase => simp at h
  | release => simp at h; rcases h with rfl | rfl <;> decide
  | prerelease _ _ body hb hs =>
    rcases List.mem_append.mp h with h | h
    · exact hb c h
    · simp at h; rcases h with rfl | rfl | rfl <;> decide

theorem no_plus_head {maj min pat R0 ts rev : Bytes} (hmaj : Num maj) (hmin : Num min) (hpat : Num pat)
    (hR : Mid min pat R0) (hts : Ts ts) (hrev : Rev rev) : 43 ∉ pvHead maj min pat R0 ts rev := by
  have h1 := (digits_no maj hmaj.2.1).2.2
  have h2 := (digits_no min hmin.2.1).2.2
  have h3 := (digits_no pat hpat.2.1).2.2
  have h4 := (digits_no ts hts.2).2.2
  have h5 := (alnums_no rev hrev.2).2.2
  have h6 : 43 ∉ R0 := fun hm => identOrDot_ne_plus 43 (mid_identOrDot hR 43 hm) rfl
  simp [pvHead, pvP, h1, h2, h3, h4, h5, h6]

theorem matchBuildRE_ok {bld : Bytes} (hbld : BuildOK bld) : matchBuildRE bld = true := by
  rcases hbld with rfl | ⟨rest, rfl, hr, hs⟩
  · rfl
  · have h1 : rest.all (fun c => Semver.isIdentChar c || c == 46) = true := by
      rw [List.all_eq_true]; exact hr
    have h2 : (splitOn 46 rest).all (fun s => !s.isEmpty) = true := by
      rw [List.all_eq_true]
      intro s hs'
      have := hs s hs'
      cases s with
      | nil => exact absurd rfl this
      | cons _ _ => simp
    simp [matchBuildRE, h1, h2]

theorem takeWhile_digits (d r : Bytes) (hd : ∀ c ∈ d, isDigit c = true) (c : UInt8) (hc : Pseudo.isDigit c = false) :
    (d ++ c :: r).takeWhile Pseudo.isDigit = d ∧ (d ++ c :: r).dropWhile Pseudo.isDigit = c :: r := by
  apply takeWhile_all_append Pseudo.isDigit d (c :: r) hd
  intro x r' e; injection e with e1 _; subst e1; exact hc

theorem matchPrefixRE_ok {maj min pat R0 : Bytes} (hmaj : Num maj) (hmin : Num min) (hpat : Num pat)
    (hR : Mid min pat R0) : matchPrefixRE (pvP maj min pat R0) = true := by
  have e : pvP maj min pat R0 = 118 :: (maj ++ 46 :: (min ++ 46 :: (pat ++ 45 :: R0))) := by simp [pvP]
  rw [e]
  obtain ⟨a1, a2⟩ := takeWhile_digits maj (min ++ 46 :: (pat ++ 45 :: R0)) hmaj.2.1 46 (by decide)
  have hmaj_ne : maj.isEmpty = false := by
    cases maj with
    | nil => exact absurd rfl hmaj.1
    | cons _ _ => rfl
  simp only [matchPrefixRE, a1, a2, hmaj_ne, Bool.not_false, Bool.true_and]
  cases hR with
  | nobase => decide
  | release =>
    obtain ⟨b1, b2⟩ := takeWhile_digits min (pat ++ 45 :: [48, 46]) hmin.2.1 46 (by decide)
    obtain ⟨c1, c2⟩ := takeWhile_digits pat [48, 46] hpat.2.1 45 (by decide)
    have hmin_ne : min.isEmpty = false := by
      cases min with
      | nil => exact absurd rfl hmin.1
      | cons _ _ => rfl
    have hpat_ne : pat.isEmpty = false := by
      cases pat with
      | nil => exact absurd rfl hpat.1
      | cons _ _ => rfl
    simp [matchAlt2, b1, b2, c1, c2, hmin_ne, hpat_ne]
  | prerelease _ _ body hb hs =>
    obtain ⟨b1, b2⟩ := takeWhile_digits min (pat ++ 45 :: (body ++ [46, 48, 46])) hmin.2.1 46 (by decide)
    obtain ⟨c1, c2⟩ := takeWhile_digits pat (body ++ [46, 48, 46]) hpat.2.1 45 (by decide)
    have hmin_ne : min.isEmpty = false := by
      cases min with
      | nil => exact absurd rfl hmin.1
      | cons _ _ => rfl
    have hpat_ne : pat.isEmpty = false := by
      cases pat with
      | nil => exact absurd rfl hpat.1
      | cons _ _ => rfl
    simp [matchAlt2, b1, b2, c1, c2, hmin_ne, hpat_ne, hasSuffixB_append]

theorem splitLast_head {maj min pat R0 ts rev : Bytes} (hrev : Rev rev) :
    splitLast 45 (pvHead maj min pat R0 ts rev) = some (pvP maj min pat R0 ++ ts, rev) := by
  unfold pvHead
  exact splitLast_append 45 _ rev (alnums_no rev hrev.2).1

theorem matchHeadRE_ok {maj min pat R0 ts rev : Bytes} (hmaj : Num maj) (hmin : Num min) (hpat : Num pat)
    (hR : Mid min pat R0) (hts : Ts ts) (hrev : Rev rev) : matchHeadRE (pvHead maj min pat R0 ts rev) = true := by
  unfold matchHeadRE
  rw [splitLast_head hrev]
  have hlen : (pvP maj min pat R0 ++ ts).length - 14 = (pvP maj min pat R0).length := by
    rw [List.length_append, hts.1]; omega
  have hrev_ne : rev.isEmpty = false := by
    cases rev with
    | nil => exact absurd rfl hrev.1
    | cons _ _ => rfl
  have h1 : rev.all Pseudo.isAlnum = true := by rw [List.all_eq_true]; exact hrev.2
  have h2 : ts.all Pseudo.isDigit = true := by rw [List.all_eq_true]; exact hts.2
  have h3 : 14 ≤ (pvP maj min pat R0 ++ ts).length := by rw [List.length_append, hts.1]; omega
  simp only [hlen, List.drop_left, List.take_left, hrev_ne, h1, h2, matchPrefixRE_ok hmaj hmin hpat hR]
  simpa using h3

theorem matchRE_pvText {maj min pat R0 ts rev bld : Bytes} (hmaj : Num maj) (hmin : Num min) (hpat : Num pat)
    (hR : Mid min pat R0) (hts : Ts ts) (hrev : Rev rev) (hbld : BuildOK bld) :
    matchPseudoVersionRE (pvText maj min pat R0 ts rev bld) = true := by
  rw [pvText_eq]
  have hp : ∀ x ∈ pvHead maj min pat R0 ts rev, (x != 43) = true := by
    intro x hx; simp; intro e; subst e; exact no_plus_head hmaj hmin hpat hR hts hrev hx
  have hr : ∀ c r', bld = c :: r' → (c != 43) = false := by
    intro c r' e
    rcases hbld with h | ⟨rest, h, _⟩
    · rw [h] at e; simp at e
    · rw [h] at e; injection e with e1 _; subst e1; rfl
  obtain ⟨t1, t2⟩ := takeWhile_all_append (· != 43) _ bld hp hr
  unfold matchPseudoVersionRE
  rw [t1, t2, matchHeadRE_ok hmaj hmin hpat hR hts hrev, matchBuildRE_ok hbld]
  rfl

theorem count_dash_pvText (maj min pat R0 ts rev bld : Bytes) :
    (pvText maj min pat R0 ts rev bld).count 45 ≥ 2 := by
  simp only [pvText, pvPre, List.count_append, List.count_cons, List.cons_append]
  simp
  omega

/-- a pseudo-version text is a valid version and recognised by IsPseudoVersion -/
theorem isPseudoVersion_pvText {maj min pat R0 ts rev bld : Bytes} (hmaj : Num maj) (hmin : Num min) (hpat : Num pat)
    (hR : Mid min pat R0) (hts : Ts ts) (hrev : Rev rev) (hbld : BuildOK bld) :
    Semver.isValid (pvText maj min pat R0 ts rev bld) = true ∧ isPseudoVersion (pvText maj min pat R0 ts rev bld) = true := by
  have hv : Semver.isValid (pvText maj min pat R0 ts rev bld) = true := by
    simp [Semver.isValid, parse_pvText hmaj hmin hpat hR hts hrev hbld]
  refine ⟨hv, ?_⟩
  unfold isPseudoVersion
  rw [hv, matchRE_pvText hmaj hmin hpat hR hts hrev hbld]
  simp
  exact count_dash_pvText maj min pat R0 ts rev bld

end ModVerif.Proofs.Pseudo
