/-
  Helper lemmas for Tie/FnRuleAdd.lean, part F: the regenerated `File.fixRetract` (loop `File_fixRetract_loop1` over
  `f.Retract`) = the model's `fixRetract` / `fixRetractLoop`, under the hypothesis `FixLeaf` about the
  `parseVersionInterval` calls.
  Owner: rule-add.
-/
import ModVerif.Proofs.TieFnRuleAddD
set_option linter.unusedSimpArgs false
set_option linter.unusedVariables false
namespace ModVerif.Tie.FnRuleAddF
open ModVerif ModVerif.GoRt ModVerif.Generated ModVerif.Tie.FnRuleRep ModVerif.Tie.FnRuleAddA ModVerif.Tie.FnRuleAddB ModVerif.Tie.FnRuleAddC
open ModVerif.Drv.GenRule (isPrintI unquoteI laxSubI deprecatedSubI fixG)
open ModVerif.Modfile.Edit (treeIds)

/-- `fixRetract`'s loop with the driver's world parameters -/
abbrev FRL := Rule.File_fixRetract_loop1 isPrintI Quote.quote unquoteI
abbrev FR := Rule.File_fixRetract isPrintI Quote.quote unquoteI

/-- the closure `wrapError` of `fixRetract` -/
theorem fr_wrapError_eq {h : Rule.Heap} {fp q : Int} {o : Rule.File} {F : Rule.FileSyntax} {obj : Rule.Retract} {L : Rule.Line}
    (ho : heapGet h.mods fp = .ok o) (hF : heapGet h.files o.Syntax = .ok F) (hq : heapGet h.retracts q = .ok obj)
    (hL : heapGet h.lines obj.Syntax = .ok L) (fuel : Nat) (e : Option String) (errs : List Rule.Error) :
    Rule.File_fixRetract_wrapError isPrintI Quote.quote unquoteI fuel fp q h e errs = .ok ((), errs ++ [errV F L e]) := by
  simp [Rule.File_fixRetract_wrapError, errV, ho, hF, hq, hL, bind, Except.bind, pure, Except.pure]

/-- the arguments of a retract line: the verb, if present, is kept -/
def frSplit (l : Modfile.Line) : List Bytes × List Bytes :=
  match l.token with
  | t0 :: rest => if t0 == B "retract" then ([t0], rest) else ([], l.token)
  | [] => ([], [])

theorem frSplit_append (l : Modfile.Line) : l.token = (frSplit l).1 ++ (frSplit l).2 := by
  unfold frSplit
  split
  · split <;> simp_all
  · simp_all

/-- the todo part of the retract list: every pointer is a retract object whose syntax line is a represented line with
    tokens, satisfying `Q` -/
def TodoOK (ι : Int → Nat) (h : Rule.Heap) (Q : Modfile.Line → Prop) : List Int → List Modfile.Retract → Prop
  | [], [] => True
  | q :: qs, r :: rs => (∃ obj l, heapGet h.retracts q = .ok obj ∧ retractR ι h.lines.length obj r ∧ RLine ι h obj.Syntax l ∧
      l.token ≠ [] ∧ Q l) ∧ TodoOK ι h Q qs rs
  | _, _ => False


/-- the interval and the error list after one retract line -/
def frVi (res : Except Modfile.RuleErrKind (Modfile.VersionInterval × List Bytes)) : Modfile.VersionInterval :=
  match res with
  | .error _ => {}
  | .ok (vi, _) => vi

def frErrs (l : Modfile.Line) (res : Except Modfile.RuleErrKind (Modfile.VersionInterval × List Bytes)) (errsRev : List Modfile.RuleErr) :
    List Modfile.RuleErr :=
  match res with
  | .error e => ⟨l.start, e⟩ :: errsRev
  | .ok _ => errsRev

/-- one iteration of the model's loop, the line being found -/
theorem fixRetractLoop_cons (path : Bytes) (fx : Modfile.Fixer) (r : Modfile.Retract) (rs : List Modfile.Retract) (fs : Modfile.FileSyntax)
    (errsRev : List Modfile.RuleErr) {l : Modfile.Line} (hfind : fs.findLine r.lineId = some l) :
    Modfile.fixRetractLoop path fx (r :: rs) fs errsRev =
      (let pv := Modfile.parseVersionInterval path (frSplit l).2 (some fx)
       let fs1 := fs.updateLine r.lineId fun x => { x with token := (frSplit l).1 ++ pv.1 }
       let rec' := Modfile.fixRetractLoop path fx rs fs1 (frErrs l pv.2 errsRev)
       ({ r with interval := frVi pv.2 } :: rec'.1, rec'.2.1, rec'.2.2)) := by
  rw [Modfile.fixRetractLoop]
  simp only [hfind]
  unfold frSplit
  cases l.token with
  | nil =>
    simp only []
    cases hpv : Modfile.parseVersionInterval path [] (some fx) with
    | mk args' res =>
      cases res with
      | error e => simp only [frVi, frErrs]
      | ok vr => obtain ⟨vi, rest⟩ := vr; simp only [frVi, frErrs]
  | cons t0 rest =>
    simp only []
    by_cases ht : (t0 == B "retract") = true
    · simp only [ht, if_true]
      cases hpv : Modfile.parseVersionInterval path rest (some fx) with
      | mk args' res =>
        cases res with
        | error e => simp only [frVi, frErrs]
        | ok vr => obtain ⟨vi, rest⟩ := vr; simp only [frVi, frErrs]
    · have ht' : (t0 == B "retract") = false := by simpa using ht
      simp only [ht', Bool.false_eq_true, if_false]
      cases hpv : Modfile.parseVersionInterval path (t0 :: rest) (some fx) with
      | mk args' res =>
        cases res with
        | error e => simp only [frVi, frErrs]
        | ok vr => obtain ⟨vi, rest⟩ := vr; simp only [frVi, frErrs]

theorem findLine_of_mem {fs : Modfile.FileSyntax} {id : Nat} (h : id ∈ treeIds fs.stmts) : ∃ l, fs.findLine id = some l := by
  unfold Modfile.FileSyntax.findLine
  rw [Modfile.Edit.allLines_eq_loc]
  obtain ⟨q, hq, rfl⟩ := List.mem_map.1 h
  have : ((Modfile.Edit.loc fs.stmts).map (·.2)).find? (·.id == q.2.id) |>.isSome := by
    rw [List.find?_isSome]
    exact ⟨q.2, List.mem_map.2 ⟨q, hq, rfl⟩, by simp⟩
  exact Option.isSome_iff_exists.1 this

/-- two represented lines at the same pointer are equal -/
theorem RLine.unique {ι : Int → Nat} {h : Rule.Heap} {p : Int} {a b : Modfile.Line} (ra : RLine ι h p a) (rb : RLine ι h p b) : a = b := by
  have e : lineG a = lineG b := by have := ra.1; rw [rb.1] at this; exact (Except.ok.inj this).symm
  have := lineG_eq_iff.1 e
  rw [this]
  have hid : a.id = b.id := by rw [← ra.2, ← rb.2]
  rw [hid]

/-- the line a retract object points to is the line the model finds -/
theorem find_retract_line {ι : Int → Nat} {h : Rule.Heap} {x : Int} {fs : Modfile.FileSyntax} (rs : RepSyn ι h x fs) (hi : LineInj ι h)
    {sp : Int} {l : Modfile.Line} (hl : RLine ι h sp l) {id : Nat} (hid : ι sp = id) (hm : id ∈ treeIds fs.stmts) :
    fs.findLine id = some l := by
  obtain ⟨l', hf⟩ := findLine_of_mem hm
  have := rs.findLine_at hi hl.pos hl.le (by rw [hid]; exact hf)
  rw [hf, RLine.unique this hl]


/-- what the `parseVersionInterval` calls of `fixRetract` return: for every fuel the loop may pass, every heap, every
    represented line satisfying `Q`, on the view of its arguments -/
def FixLeaf (ι : Int → Nat) (Q : Modfile.Line → Prop) (F : Nat) (path : Bytes) (fx : Modfile.Fixer) : Prop :=
  ∀ fuel', F ≤ fuel' → ∀ (hc : Rule.Heap) (sp : Int) (l : Modfile.Line), RLine ι hc sp l → Q l →
    ∀ (r : Rule.TokRef), TokView hc r (frSplit l).1 (frSplit l).2 → r.owner = sp → PVIok fuel' hc r (frSplit l).1 (frSplit l).2 path (some fx)

theorem idxL_mid {α : Type} (a : List α) (x : α) (b : List α) : idxL (a ++ x :: b) (a.length : Int) = .ok x := by
  have h1 : ¬ ((a.length : Int) < 0) := by omega
  simp [idxL, h1, pure, Except.pure]

theorem lt_len_mid {α : Type} (a : List α) (x : α) (b : List α) : ((a.length : Nat) : Int) < GoRt.len (a ++ x :: b) := by
  rw [len_eq]; simp; omega

theorem not_lt_len_self {α : Type} (a : List α) : ¬ (((a.length : Nat) : Int) < GoRt.len a) := by
  rw [len_eq]; omega

theorem TodoOK.tail_frame {ι : Int → Nat} {h h' : Rule.Heap} {Q : Modfile.Line → Prop}
    (hn : h'.lines.length = h.lines.length) :
    ∀ {qs : List Int} {rs : List Modfile.Retract}, TodoOK ι h Q qs rs →
      (∀ q ∈ qs, heapGet h'.retracts q = heapGet h.retracts q) →
      (∀ q ∈ qs, ∀ obj, heapGet h.retracts q = .ok obj → heapGet h'.lines obj.Syntax = heapGet h.lines obj.Syntax) →
      TodoOK ι h' Q qs rs
  | [], [], _, _, _ => trivial
  | q :: qs, r :: rs, t, h1, h2 => by
    obtain ⟨⟨obj, l, hq, hR, hl, hne, hQ⟩, t'⟩ := t
    refine ⟨⟨obj, l, by rw [h1 q List.mem_cons_self]; exact hq, by rw [hn]; exact hR,
      ⟨by rw [h2 q List.mem_cons_self obj hq]; exact hl.1, hl.2⟩, hne, hQ⟩, ?_⟩
    exact TodoOK.tail_frame hn t' (fun q' hq' => h1 q' (List.mem_cons_of_mem _ hq'))
      (fun q' hq' => h2 q' (List.mem_cons_of_mem _ hq'))
  | [], _ :: _, t, _, _ => t.elim
  | _ :: _, [], t, _, _ => t.elim

theorem TodoOK.length {ι : Int → Nat} {h : Rule.Heap} {Q : Modfile.Line → Prop} :
    ∀ {qs : List Int} {rs : List Modfile.Retract}, TodoOK ι h Q qs rs → qs.length = rs.length
  | [], [], _ => rfl
  | _ :: _, _ :: _, t => by simp [TodoOK.length t.2]
  | [], _ :: _, t => t.elim
  | _ :: _, [], t => t.elim

/-- the ids of the todo entries are the ids of their lines -/
theorem TodoOK.ids {ι : Int → Nat} {h : Rule.Heap} {Q : Modfile.Line → Prop} :
    ∀ {qs : List Int} {rs : List Modfile.Retract}, TodoOK ι h Q qs rs →
      ∀ q ∈ qs, ∀ obj, heapGet h.retracts q = .ok obj → ι obj.Syntax ∈ rs.map (·.lineId)
  | [], [], _, q, hq, _, _ => by cases hq
  | q0 :: qs, r :: rs, t, q, hq, obj, ho => by
    rcases List.mem_cons.1 hq with rfl | hq'
    · obtain ⟨⟨obj', l, hq0, hR, _⟩, _⟩ := t
      rw [hq0] at ho; cases ho
      simp [hR.2.2.2.id]
    · exact List.mem_cons_of_mem _ (TodoOK.ids t.2 q hq' obj ho)
  | [], _ :: _, t, _, _, _, _ => t.elim
  | _ :: _, [], t, _, _, _, _ => t.elim


/-- the heap after one iteration: the tokens of a line and one retract object changed -/
abbrev H2 (h : Rule.Heap) (ls : List Rule.Line) (rt : List Rule.Retract) : Rule.Heap := { h with lines := ls, retracts := rt }

/-- **the loop of the regenerated `fixRetract`** (module path non-empty) = the model's `fixRetractLoop` -/
theorem FRL_spec {ι : Int → Nat} {fp : Int} {path : Bytes} {fx : Modfile.Fixer} {Q : Modfile.Line → Prop} {F : Nat}
    (hpath : path ≠ []) (hleaf : FixLeaf ι Q F path fx) :
    ∀ (todo : List Int) (rsT : List Modfile.Retract) (done : List Int) (h : Rule.Heap) (errs : List Rule.Error) (fs : Modfile.FileSyntax)
      (errsRev : List Modfile.RuleErr) (o : Rule.File) (rcur : Int) (fuel : Nat),
      F + todo.length + 1 ≤ fuel →
      heapGet h.mods fp = .ok o → RepSyn ι h o.Syntax fs → LineInj ι h → ErrsRep errs errsRev.reverse →
      TodoOK ι h Q todo rsT → todo.Nodup → (rsT.map (·.lineId)).Nodup → (∀ r ∈ rsT, r.lineId ∈ treeIds fs.stmts) →
      ∃ ri errs' h' rc, FRL (done ++ todo) fp (fixG (some fx)) path fuel (done.length : Int) errs h rcur = .ok (Ctl.next (ri, errs', h', rc)) ∧
        (∃ ls' rt', h' = { h with lines := ls', retracts := rt' } ∧ ls'.length = h.lines.length ∧
          ∀ q, q ∉ todo → heapGet rt' q = heapGet h.retracts q) ∧
        RepSyn ι h' o.Syntax (Modfile.fixRetractLoop path fx rsT fs errsRev).2.1 ∧ LineInj ι h' ∧
        ErrsRep errs' (Modfile.fixRetractLoop path fx rsT fs errsRev).2.2.reverse ∧
        REntsL h'.retracts (retractR ι h.lines.length) todo (Modfile.fixRetractLoop path fx rsT fs errsRev).1 ∧
        errs <+: errs' := by
  intro todo
  induction todo with
  | nil =>
    intro rsT done h errs fs errsRev o rcur fuel hf ho hs hi he ht _ _ _
    cases rsT with
    | cons _ _ => exact ht.elim
    | nil =>
      obtain ⟨n, rfl⟩ : ∃ n, fuel = n + 1 := ⟨fuel - 1, by omega⟩
      refine ⟨(done.length : Int), errs, h, rcur, ?_, ⟨h.lines, h.retracts, rfl, rfl, fun _ _ => rfl⟩, hs, hi, he, trivial, List.prefix_refl _⟩
      unfold FRL Rule.File_fixRetract_loop1
      simp only [List.append_nil, not_lt_len_self, decide_false, Bool.false_eq_true, if_false, pure, Except.pure]
  | cons q todo' ih =>
    intro rsT done h errs fs errsRev o rcur fuel hf ho hs hi he ht hnd hndl hmem
    cases rsT with
    | nil => exact ht.elim
    | cons r rsT' =>
    obtain ⟨n, rfl⟩ : ∃ n, fuel = n + 1 := ⟨fuel - 1, by omega⟩
    obtain ⟨⟨obj, l, hq, hR, hl, hne, hQ⟩, ht'⟩ := ht
    obtain ⟨es, hsa⟩ := hs
    have hF := hsa.file
    have hfind : fs.findLine r.lineId = some l :=
      find_retract_line ⟨es, hsa⟩ hi hl hR.2.2.2.id (hmem r List.mem_cons_self)
    rw [fixRetractLoop_cons path fx r rsT' fs errsRev hfind]
    simp only []
    -- the view of the arguments
    obtain ⟨t0, rest, htok⟩ : ∃ t0 rest, l.token = t0 :: rest := by
      cases hlt : l.token with
      | nil => exact absurd hlt hne
      | cons a b => exact ⟨a, b, rfl⟩
    have hmk := TokView.make hl.1 (k := 0) (by omega)
    have V0 : TokView h { owner := obj.Syntax, lo := 0 } [] (t0 :: rest) := by
      have := hmk.2; simp only [lineG_Token, List.take_zero, List.drop_zero, htok] at this; exact this
    have hmk1 : tkMake obj.Syntax 0 h.lines = .ok { owner := obj.Syntax, lo := 0 } := by rw [← TokRef_make_eq]; exact hmk.1
    have hg0 : tkGet { owner := obj.Syntax, lo := 0 } 0 h.lines = .ok t0 := V0.tkGet0 rfl
    have hfuel : F ≤ n := by simp at hf; omega
    -- the view parseVersionInterval gets, and the call
    have hcall : ∃ (r1 : Rule.TokRef), r1.owner = obj.Syntax ∧ TokView h r1 (frSplit l).1 (frSplit l).2 ∧
        (if decide (t0 = ([114, 101, 116, 114, 97, 99, 116] : Bytes)) then tkDrop { owner := obj.Syntax, lo := 0 } 1 h.lines
          else (.ok { owner := obj.Syntax, lo := 0 } : M Rule.TokRef)) = .ok r1 := by
      by_cases h0 : t0 = ([114, 101, 116, 114, 97, 99, 116] : Bytes)
      · have hd := V0.drop (j := 1) (by simp)
        refine ⟨{ ({ owner := obj.Syntax, lo := 0 } : Rule.TokRef) with lo := (0 : Int) + ((1 : Nat) : Int) }, rfl, ?_, ?_⟩
        · have := hd.2
          simp only [frSplit, htok, h0, ← B_retract, beq_self_eq_true, if_true]
          simpa [h0, ← B_retract] using this
        · simp only [h0, decide_true, if_true]; rw [← TokRef_drop_eq]; exact hd.1
      · refine ⟨{ owner := obj.Syntax, lo := 0 }, rfl, ?_, ?_⟩
        · have hb : (t0 == B "retract") = false := by rw [B_retract]; simpa using h0
          simp only [frSplit, htok, hb, Bool.false_eq_true, if_false]
          exact V0
        · simp only [h0, decide_false, Bool.false_eq_true, if_false]
    obtain ⟨r1, hown, V1, hr1⟩ := hcall
    obtain ⟨vi, e, r', h1, ⟨hh1, hout⟩, hpvi⟩ := hleaf n hfuel h obj.Syntax l hl hQ r1 V1 hown
    rw [hown, setToksH_eq_lines] at hh1
    have hpath' : decide (path = ([] : Bytes)) = false := by simpa using hpath
    subst hh1
    have hpvi' := hpvi [114, 101, 116, 114, 97, 99, 116]
    -- the model side of this iteration
    generalize hpv : Modfile.parseVersionInterval path (frSplit l).2 (some fx) = pv at hout hpvi' ⊢
    obtain ⟨toks', res⟩ := pv
    simp only [] at hout hpvi' ⊢
    have hsp : ι obj.Syntax = r.lineId := hR.2.2.2.id
    -- the heap after the token store and the interval store
    have hL1 : heapGet (setToksH h obj.Syntax ((frSplit l).1 ++ toks')).lines obj.Syntax =
        .ok { lineG l with Token := (frSplit l).1 ++ toks' } := heapGet_setToksH_same hl.1 _
    have hnl : (setToksH h obj.Syntax ((frSplit l).1 ++ toks')).lines.length = h.lines.length := by simp
    have hS1 : RepSyn ι (H2 h (setToksH h obj.Syntax ((frSplit l).1 ++ toks')).lines (h.retracts.set (q.toNat - 1) { obj with VersionInterval := vi })) o.Syntax
        (fs.updateLine r.lineId fun x => { x with token := (frSplit l).1 ++ toks' }) := by
      have := RepSyn.setToks (ι := ι) ⟨es, hsa⟩ hi hl.1 ((frSplit l).1 ++ toks')
      rw [hsp] at this
      refine RepSyn.congr (h := setToksH h obj.Syntax ((frSplit l).1 ++ toks')) ?_ ?_ ?_ ?_ this <;> simp [H2]
    have hI1 : LineInj ι (H2 h (setToksH h obj.Syntax ((frSplit l).1 ++ toks')).lines (h.retracts.set (q.toNat - 1) { obj with VersionInterval := vi })) := hi.congr hnl
    have hT1 : TodoOK ι (H2 h (setToksH h obj.Syntax ((frSplit l).1 ++ toks')).lines (h.retracts.set (q.toNat - 1) { obj with VersionInterval := vi })) Q todo' rsT' := by
      refine TodoOK.tail_frame (h := h) (h' := H2 h (setToksH h obj.Syntax ((frSplit l).1 ++ toks')).lines (h.retracts.set (q.toNat - 1) { obj with VersionInterval := vi })) hnl ht' ?_ ?_
      · intro q' hq'
        have : q' ≠ q := by rintro rfl; exact (List.nodup_cons.1 hnd).1 hq'
        exact heapGet_listSet_other _ hq this
      · intro q' hq' obj' ho'
        have hne' : obj'.Syntax ≠ obj.Syntax := by
          intro e
          have := TodoOK.ids ht' q' hq' obj' ho'
          rw [e, hsp] at this
          simp only [List.map_cons, List.nodup_cons] at hndl
          exact hndl.1 this
        exact heapGet_setToksH_other h _ hne'
    have hmem1 : ∀ r' ∈ rsT', r'.lineId ∈ treeIds (fs.updateLine r.lineId fun x => { x with token := (frSplit l).1 ++ toks' }).stmts := by
      intro r' hr'
      rw [Modfile.Edit.treeIds_updateLine fs r.lineId (fun x => { x with token := (frSplit l).1 ++ toks' }) hsa.nodupL (fun _ => rfl)]
      exact hmem r' (List.mem_cons_of_mem _ hr')
    have hndl' : (rsT'.map (·.lineId)).Nodup := by simp only [List.map_cons, List.nodup_cons] at hndl; exact hndl.2
    have hnd' := (List.nodup_cons.1 hnd)
    have hfuel' : F + todo'.length + 1 ≤ n := by simp at hf; omega
    -- the recursive call, for either error list
    have hrec : ∀ (errs2 : List Rule.Error), ErrsRep errs2 (frErrs l res errsRev).reverse →
        retractR ι h.lines.length { obj with VersionInterval := vi } { r with interval := frVi res } → errs <+: errs2 →
        ∃ ri errs' h' rc,
          Rule.File_fixRetract_loop1 isPrintI Quote.quote unquoteI (done ++ q :: todo') fp (fixG (some fx)) path n ((done.length : Int) + 1) errs2
            (H2 h (setToksH h obj.Syntax ((frSplit l).1 ++ toks')).lines (h.retracts.set (q.toNat - 1) { obj with VersionInterval := vi })) q = .ok (Ctl.next (ri, errs', h', rc)) ∧
          (∃ ls' rt', h' = { h with lines := ls', retracts := rt' } ∧ ls'.length = h.lines.length ∧
            ∀ q1, q1 ∉ q :: todo' → heapGet rt' q1 = heapGet h.retracts q1) ∧
          RepSyn ι h' o.Syntax (Modfile.fixRetractLoop path fx rsT'
            (fs.updateLine r.lineId fun x => { x with token := (frSplit l).1 ++ toks' }) (frErrs l res errsRev)).2.1 ∧ LineInj ι h' ∧
          ErrsRep errs' (Modfile.fixRetractLoop path fx rsT'
            (fs.updateLine r.lineId fun x => { x with token := (frSplit l).1 ++ toks' }) (frErrs l res errsRev)).2.2.reverse ∧
          REntsL h'.retracts (retractR ι h.lines.length) (q :: todo')
            ({ r with interval := frVi res } :: (Modfile.fixRetractLoop path fx rsT'
              (fs.updateLine r.lineId fun x => { x with token := (frSplit l).1 ++ toks' }) (frErrs l res errsRev)).1) ∧
          errs <+: errs' := by
      intro errs2 he2 hR2 hp2
      obtain ⟨ri, errs', h', rc, hrun, ⟨ls', rt', rfl, hlen, hframe⟩, hsyn', hinj', herr', hents', hpre'⟩ :=
        ih rsT' (done ++ [q]) (H2 h (setToksH h obj.Syntax ((frSplit l).1 ++ toks')).lines (h.retracts.set (q.toNat - 1) { obj with VersionInterval := vi })) errs2 _ (frErrs l res errsRev) o q n hfuel' ho hS1 hI1 he2 hT1 hnd'.2 hndl' hmem1
      simp only [List.append_assoc, List.singleton_append, List.length_append, List.length_singleton, Int.natCast_add, Int.natCast_one] at hrun
      refine ⟨ri, errs', _, rc, hrun, ⟨ls', rt', rfl, by rw [hlen]; exact hnl, ?_⟩, hsyn', hinj', herr', ?_, hp2.trans hpre'⟩
      · intro q1 hq1
        rw [hframe q1 (fun hm => hq1 (List.mem_cons_of_mem _ hm))]
        exact heapGet_listSet_other _ hq (fun e => hq1 (by rw [e]; exact List.mem_cons_self))
      · refine ⟨⟨_, ?_, hR2⟩, ?_⟩
        · show heapGet rt' q = _
          rw [hframe q hnd'.1]
          exact heapGet_listSet_same _ hq
        · have : (setToksH h obj.Syntax ((frSplit l).1 ++ toks')).lines.length = h.lines.length := hnl
          simp only [this] at hents'
          exact hents'
    have hq1 : heapGet h.retracts q = .ok obj := hq
    unfold FRL Rule.File_fixRetract_loop1
    simp only [lt_len_mid, decide_true, if_true, idxL_mid, hpath', Bool.false_eq_true, if_false, hq, TokRef_make_eq, hmk1, TokRef_get_eq, hg0,
      TokRef_drop_eq, bind, Except.bind, pure, Except.pure]
    by_cases h0 : t0 = ([114, 101, 116, 114, 97, 99, 116] : Bytes)
    all_goals
      simp only [h0, decide_true, decide_false, if_true, Bool.false_eq_true, if_false] at hr1 ⊢
      try (cases hr1)
      first
        | simp only [hr1, hpvi', hq1, heapSet_of_get _ hq1]
        | simp only [hpvi', hq1, heapSet_of_get _ hq1]
      cases res with
      | error k =>
        obtain ⟨hea, rfl⟩ := hout
        have he1 : e.isNone = false := by obtain ⟨s, rfl, _⟩ := hea; rfl
        simp only [he1, Bool.not_false, if_true, fr_wrapError_eq (h := { h with lines := (setToksH h obj.Syntax ((frSplit l).1 ++ toks')).lines }) ho hF hq1 hL1]
        exact hrec _ (by simp only [frErrs]; exact he.snoc_rev (errV_rep' rfl hea)) ⟨rfl, rfl, hR.2.2.1, hR.2.2.2⟩ (List.prefix_append _ _)
      | ok vr =>
        obtain ⟨mvi, rest'⟩ := vr
        obtain ⟨rfl, hlo, hhi, _⟩ := hout
        simp only [Option.isNone_none, Bool.not_true, Bool.false_eq_true, if_false]
        exact hrec _ (by simp only [frErrs]; exact he) ⟨hlo, hhi, hR.2.2.1, hR.2.2.2⟩ (List.prefix_refl _)

/-- the typed part after `fixRetract`'s loop: lines and retract objects changed -/
theorem _root_.ModVerif.Tie.FnRuleRep.RepTyped.afterFix {ι : Int → Nat} {h : Rule.Heap} {o : Rule.File} {f : Modfile.File} (r : RepTyped ι h o f)
    (ls : List Rule.Line) (rt : List Rule.Retract) (hn : ls.length = h.lines.length) {rs' : List Modfile.Retract} (fs' : Modfile.FileSyntax)
    (hr : REntsL rt (retractR ι h.lines.length) o.Retract rs') :
    RepTyped ι (H2 h ls rt) o { f with retract := rs', syn := fs' } where
  module := by have := r.module; rw [← hn] at this; exact this
  go := by have := r.go; rw [← hn] at this; exact this
  toolchain := by have := r.toolchain; rw [← hn] at this; exact this
  godebug := by have := r.godebug; rw [← hn] at this; exact this
  require := by have := r.require; rw [← hn] at this; exact this
  exclude := by have := r.exclude; rw [← hn] at this; exact this
  replace := by have := r.replace; rw [← hn] at this; exact this
  tool := by have := r.tool; rw [← hn] at this; exact this
  retract := ⟨by rw [← hn] at hr; exact hr, r.retract.nodup⟩

/-- the invariant `fixRetract` needs of the retract entries: each is a retract object whose syntax line is a represented
    line of the tree with at least one token and satisfies `Q`; the lines are pairwise different -/
structure RetInv (ι : Int → Nat) (h : Rule.Heap) (o : Rule.File) (Q : Modfile.Line → Prop) (st : Modfile.AddState) : Prop where
  todo : TodoOK ι h Q o.Retract st.file.retract
  nodup : (st.file.retract.map (·.lineId)).Nodup
  mem : ∀ r ∈ st.file.retract, r.lineId ∈ treeIds st.file.syn.stmts

/-- the module path `fixRetract` uses -/
def pathOf (st : Modfile.AddState) : Bytes := (st.file.module.map (·.mod.path)).getD []

theorem fixRetract_some (st : Modfile.AddState) (fx : Modfile.Fixer) :
    Modfile.fixRetract st (some fx) =
      (match st.file.retract with
       | [] => st
       | r :: _ =>
         if (pathOf st).isEmpty then
           st.err (((st.file.syn.findLine r.lineId).map (·.start)).getD {}) .retractNoModule
         else
           { file := { st.file with retract := (Modfile.fixRetractLoop (pathOf st) fx st.file.retract st.file.syn st.errsRev).1,
                                    syn := (Modfile.fixRetractLoop (pathOf st) fx st.file.retract st.file.syn st.errsRev).2.1 },
             errsRev := (Modfile.fixRetractLoop (pathOf st) fx st.file.retract st.file.syn st.errsRev).2.2 }) := by
  unfold Modfile.fixRetract pathOf
  cases st.file.module <;> rfl

/-- **the regenerated `File.fixRetract` = the model's `fixRetract`** on a represented state -/
theorem FR_spec {ι : Int → Nat} {h : Rule.Heap} {fp : Int} {errs : List Rule.Error} {st : Modfile.AddState}
    (R : RepR ι h fp errs st) (fix : Option Modfile.Fixer) (Q : Modfile.Line → Prop) (F fuel : Nat)
    (hfuel : F + st.file.retract.length + 1 ≤ fuel)
    (hinv : ∀ o, heapGet h.mods fp = .ok o → RetInv ι h o Q st)
    (hleaf : ∀ fx m, fix = some fx → st.file.module = some m → m.mod.path ≠ [] → FixLeaf ι Q F m.mod.path fx) :
    ∃ errs' h', FR fuel fp (fixG fix) errs h = .ok (((), errs'), h') ∧ RepR ι h' fp errs' (Modfile.fixRetract st fix) ∧ errs <+: errs' := by
  cases fix with
  | none =>
    refine ⟨errs, h, ?_, R, List.prefix_refl _⟩
    simp [FR, Rule.File_fixRetract, fixG, pure, Except.pure]
  | some fx =>
    obtain ⟨o, ho, rt, rs⟩ := R.obj
    obtain ⟨es, hsa⟩ := rs
    have hI := hinv o ho
    have hlenR : o.Retract.length = st.file.retract.length := hI.todo.length
    obtain ⟨n, rfl⟩ : ∃ n, fuel = n + 1 := ⟨fuel - 1, by omega⟩
    -- the module path
    have hpathG : ∃ path, path = pathOf st ∧
        FR (n + 1) fp (fixG (some fx)) errs h =
          (do let r26 ← FRL o.Retract fp (fixG (some fx)) path (n + 1) 0 errs h 0
              match r26 with
              | Ctl.ret rv27 => pure rv27
              | Ctl.next (ri8, errs, world, r) => pure (((), errs), world)) := by
      refine ⟨_, rfl, ?_⟩
      unfold FR Rule.File_fixRetract
      simp only [fixG, Option.map_some, Option.isNone_some, Bool.false_eq_true, if_false, ho, bind, Except.bind, pure, Except.pure]
      cases hm : st.file.module with
      | none =>
        have h0 : o.Module = 0 := (rt.module.eq_zero_iff).2 hm
        simp only [h0, decide_true, Bool.not_true, Bool.false_eq_true, if_false, pathOf, hm, Option.map_none, Option.getD_none]
        rfl
      | some m =>
        have hmr := rt.module
        rw [hm] at hmr
        obtain ⟨mo, hmo, hmR⟩ := hmr
        have hne : o.Module ≠ 0 := by have := heapGet_pos hmo; omega
        simp only [hne, decide_false, Bool.not_false, if_true, hmo, hmR.1, mvG_Path, pathOf, hm, Option.map_some, Option.getD_some]
        rfl
    obtain ⟨path, hpath, hFR⟩ := hpathG
    rw [hFR, fixRetract_some, ← hpath]
    cases hrs : st.file.retract with
    | nil =>
      have hnil : o.Retract = [] := by rw [hrs] at hlenR; exact List.eq_nil_of_length_eq_zero hlenR
      refine ⟨errs, h, ?_, R, List.prefix_refl _⟩
      rw [hnil]
      unfold FRL Rule.File_fixRetract_loop1
      simp [len_eq, bind, Except.bind, pure, Except.pure]
    | cons r0 rs0 =>
      simp only []
      obtain ⟨q0, qs0, hq0⟩ : ∃ q0 qs0, o.Retract = q0 :: qs0 := by
        cases hor : o.Retract with
        | nil => rw [hor, hrs] at hlenR; simp at hlenR
        | cons a b => exact ⟨a, b, rfl⟩
      have htodo := hI.todo
      rw [hq0, hrs] at htodo
      obtain ⟨⟨obj, l, hq, hR, hl, hne, hQ⟩, _⟩ := htodo
      by_cases hp : path = []
      · -- no module path: only the first retract is reported
        have hfind : st.file.syn.findLine r0.lineId = some l :=
          find_retract_line ⟨es, hsa⟩ R.inj hl hR.2.2.2.id (hI.mem r0 (by rw [hrs]; exact List.mem_cons_self))
        simp only [hp, List.isEmpty_nil, if_true, hfind, Option.map_some, Option.getD_some]
        rw [hq0]
        unfold FRL Rule.File_fixRetract_loop1
        have hlt : (0 : Int) < GoRt.len (q0 :: qs0) := by rw [len_eq]; simp
        have hidx : idxL (q0 :: qs0) 0 = .ok q0 := rfl
        simp only [hlt, decide_true, if_true, hidx, fr_wrapError_eq ho hsa.file hq hl.1, bind, Except.bind, pure, Except.pure]
        refine ⟨_, _, rfl, ?_, List.prefix_append _ _⟩
        exact ⟨⟨o, ho, rt, es, hsa⟩, R.inj, R.errs.snoc_rev (errV_rep (errAbs_some (by decide)))⟩
      · have hpe : path.isEmpty = false := by cases path <;> simp_all
        simp only [hpe, Bool.false_eq_true, if_false]
        obtain ⟨m, hm⟩ : ∃ m, st.file.module = some m := by
          cases hmm : st.file.module with
          | none => simp only [pathOf, hmm, Option.map_none, Option.getD_none] at hpath; exact absurd hpath hp
          | some m => exact ⟨m, rfl⟩
        have hpm : path = m.mod.path := by simp only [pathOf, hm, Option.map_some, Option.getD_some] at hpath; exact hpath
        have hlf : FixLeaf ι Q F path fx := by rw [hpm]; exact hleaf fx m rfl hm (by rw [← hpm]; exact hp)
        have hnd : o.Retract.Nodup := rt.retract.nodup
        have hf' : F + o.Retract.length + 1 ≤ n + 1 := by rw [hlenR]; exact hfuel
        obtain ⟨ri, errs', h', rc, hrun, ⟨ls', rt', rfl, hlen, hframe⟩, hsyn', hinj', herr', hents', hpre'⟩ :=
          FRL_spec hp hlf o.Retract st.file.retract [] h errs st.file.syn st.errsRev o 0 (n + 1) hf' ho ⟨es, hsa⟩ R.inj R.errs
            hI.todo hnd hI.nodup hI.mem
        simp only [List.nil_append, List.length_nil, Int.natCast_zero] at hrun
        rw [hrun]
        refine ⟨errs', _, rfl, ?_, hpre'⟩
        rw [← hrs]
        exact ⟨⟨o, ho, rt.afterFix ls' rt' hlen _ hents', hsyn'⟩, hinj', herr'⟩

end ModVerif.Tie.FnRuleAddF
