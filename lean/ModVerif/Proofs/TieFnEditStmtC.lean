/-
  Helper lemmas for Tie/FnEditStmt.lean (agent edit-stmt): the tool operations of the regenerated go.mod edit operations
  (Generated/FnEdit.lean): File_DropTool (+ loop 1) against `Modfile.Edit.dropTool` (`clearAll`), File_AddTool (+ loop 1)
  against `Modfile.Edit.addTool`; the final `File_SortBlocks` of AddTool is taken from edit-sort (`SortSpec`).
  The DropTool part is the DropGodebug part of Proofs/TieFnEditStmtB.lean for the `Tool` list.
-/
import ModVerif.Proofs.TieFnEditStmtB
set_option linter.unusedSimpArgs false
set_option linter.unusedVariables false
namespace ModVerif.Tie.FnEditStmtC
open ModVerif ModVerif.GoRt ModVerif.Generated.Edit ModVerif.Tie.FnEditRep ModVerif.Tie.FnEditTreeA ModVerif.Tie.FnEditStmtA
open ModVerif.Tie.FnEditStmtB
open ModVerif.TieFnEditAddLine (Frame nodeCount idxL_append_mid)
open ModVerif.Modfile.Edit (firstRest clearAll markAll clearedTool deref nilId)

/-- the facts about the entry at the current index -/
structure AtTl (h : Heap) (fp : Int) (o : File) (e : Modfile.Edit.EFile) (ppre : List Int) (p : Int) (ps : List Int)
    (mpre : List Modfile.Tool) (x : Modfile.Tool) (xs : List Modfile.Tool) : Prop where
  ho : heapGet h.mods fp = .ok o
  R : RepFAt h o e
  hO : o.Tool = ppre ++ p :: ps
  hE : e.f.tool = mpre ++ x :: xs
  hl : ppre.length = mpre.length

theorem AtTl.get {h : Heap} {fp : Int} {o : File} {e : Modfile.Edit.EFile} {ppre : List Int} {p : Int} {ps : List Int}
    {mpre : List Modfile.Tool} {x : Modfile.Tool} {xs : List Modfile.Tool} (A : AtTl h fp o e ppre p ps mpre x xs) :
    heapGet h.tools p = .ok (toolG x) ∧ x.lineId ≤ h.lines.length := by
  have r := A.R.tool.rel
  rw [A.hO, A.hE] at r
  exact REntsL_at r A.hl

/-- the entry at the current index is replaced by `y` (object overwritten by `toolG y`) -/
theorem AtTl.setObj {h : Heap} {fp : Int} {o : File} {e : Modfile.Edit.EFile} {ppre : List Int} {p : Int} {ps : List Int}
    {mpre : List Modfile.Tool} {x : Modfile.Tool} {xs : List Modfile.Tool} (A : AtTl h fp o e ppre p ps mpre x xs)
    (y : Modfile.Tool) (hy : y.lineId ≤ h.lines.length) :
    RepFAt { h with tools := h.tools.set (p.toNat - 1) (toolG y) } o
      { e with f := { e.f with tool := mpre ++ y :: xs } } := by
  have hnd := A.R.tool.nodup
  have hi : o.Tool[ppre.length]? = some p := by rw [A.hO]; simp
  have r := A.R.tool.rel.setAt hnd ppre.length p y hi hy
  have hset : e.f.tool.set ppre.length y = mpre ++ y :: xs := by rw [A.hE, A.hl]; simp
  rw [hset] at r
  exact RepFAt_replaceTool A.R _ o.Tool _ ⟨r, hnd⟩


/-- the line object at `q` is rewritten by an id-equivariant line function -/
theorem AtTl.setLine {h : Heap} {fp : Int} {o : File} {e : Modfile.Edit.EFile} {ppre : List Int} {p : Int} {ps : List Int}
    {mpre : List Modfile.Tool} {x : Modfile.Tool} {xs : List Modfile.Tool} (A : AtTl h fp o e ppre p ps mpre x xs)
    {q : Int} {l0 : Modfile.Line} {g : Modfile.Line → Modfile.Line} (hg : IdEquiv g) (hget : heapGet h.lines q = .ok (lineG l0)) :
    AtTl (setLineH h q (g l0)) fp o { e with f := { e.f with syn := e.f.syn.updateLine q.toNat g } } ppre p ps mpre x xs :=
  ⟨A.ho, A.R.setLine hg hget, A.hO, A.hE, A.hl⟩

/-- the entry at the current index is replaced by `y` -/
theorem AtTl.setObj' {h : Heap} {fp : Int} {o : File} {e : Modfile.Edit.EFile} {ppre : List Int} {p : Int} {ps : List Int}
    {mpre : List Modfile.Tool} {x : Modfile.Tool} {xs : List Modfile.Tool} (A : AtTl h fp o e ppre p ps mpre x xs)
    (y : Modfile.Tool) (hy : y.lineId ≤ h.lines.length) :
    AtTl { h with tools := h.tools.set (p.toNat - 1) (toolG y) } fp o
      { e with f := { e.f with tool := mpre ++ y :: xs } } ppre p ps mpre y xs :=
  ⟨A.ho, A.setObj y hy, A.hO, rfl, A.hl⟩


abbrev tlM (path : Bytes) : Modfile.Tool → Bool := fun t => t.path == path
theorem tlM_true {path : Bytes} {x : Modfile.Tool} (hk : x.path = path) : tlM path x = true := by simp [tlM, hk]
theorem tlM_false {path : Bytes} {x : Modfile.Tool} (hk : x.path ≠ path) : tlM path x = false := by simp [tlM, hk]

/-! ### File.DropTool against `clearAll` -/

theorem DropTool_step_clear {h : Heap} {fp : Int} {o : File} {e : Modfile.Edit.EFile} {ppre : List Int} {p : Int} {ps : List Int}
    {mpre : List Modfile.Tool} {x : Modfile.Tool} {xs : List Modfile.Tool} (A : AtTl h fp o e ppre p ps mpre x xs)
    (path : Bytes) (hk : x.path = path) (h0 : x.lineId ≠ 0) (fuel : Nat) :
    ∃ h1, File_DropTool_loop1 o.Tool fp path (fuel + 1) ((ppre.length : Nat) : Int) h =
        File_DropTool_loop1 o.Tool fp path fuel (((ppre ++ [p]).length : Nat) : Int) h1 ∧
      AtTl h1 fp o { e with f := { e.f with tool := mpre ++ clearedTool :: xs,
                                            syn := Modfile.Edit.markRemoved e.f.syn x.lineId } }
        ppre p ps mpre clearedTool xs := by
  subst hk
  obtain ⟨hg, hle⟩ := A.get
  obtain ⟨l, hl, hid⟩ := A.R.linesG.ofId h0 hle
  have A1 := A.setLine IdEquiv_markRemoved hl
  have A2 := A1.setObj' clearedTool (Nat.zero_le _)
  refine ⟨_, ?_, A2⟩
  conv => lhs; unfold File_DropTool_loop1
  have hlt : ((ppre.length : Nat) : Int) < len o.Tool := by rw [A.hO]; exact lt_len_mid _ _ _
  have hidx : idxL o.Tool ((ppre.length : Nat) : Int) = .ok p := by rw [A.hO]; exact idxL_append_mid _ _ _ rfl
  simp only [hlt, decide_true, if_true, hidx, bind, Except.bind, pure, Except.pure, hg, toolG_Path, toolG_Syntax,
    Line_markRemoved_eq hl, setLineH_tools, fun v => heapSet_of_get v hg, succ_len ppre p]
  rfl

theorem DropTool_step_skip {h : Heap} {fp : Int} {o : File} {e : Modfile.Edit.EFile} {ppre : List Int} {p : Int} {ps : List Int}
    {mpre : List Modfile.Tool} {x : Modfile.Tool} {xs : List Modfile.Tool} (A : AtTl h fp o e ppre p ps mpre x xs)
    (path : Bytes) (hk : x.path ≠ path) (fuel : Nat) :
    File_DropTool_loop1 o.Tool fp path (fuel + 1) ((ppre.length : Nat) : Int) h =
      File_DropTool_loop1 o.Tool fp path fuel (((ppre ++ [p]).length : Nat) : Int) h := by
  obtain ⟨hg, hle⟩ := A.get
  conv => lhs; unfold File_DropTool_loop1
  have hlt : ((ppre.length : Nat) : Int) < len o.Tool := by rw [A.hO]; exact lt_len_mid _ _ _
  have hidx : idxL o.Tool ((ppre.length : Nat) : Int) = .ok p := by rw [A.hO]; exact idxL_append_mid _ _ _ rfl
  simp only [hlt, decide_true, if_true, hidx, bind, Except.bind, pure, Except.pure, hg, toolG_Path, hk, decide_false,
    Bool.false_eq_true, if_false, succ_len ppre p]

theorem DropTool_step_nil {h : Heap} {fp : Int} {o : File} {e : Modfile.Edit.EFile} {ppre : List Int} {p : Int} {ps : List Int}
    {mpre : List Modfile.Tool} {x : Modfile.Tool} {xs : List Modfile.Tool} (A : AtTl h fp o e ppre p ps mpre x xs)
    (path : Bytes) (hk : x.path = path) (h0 : x.lineId = 0) (fuel : Nat) :
    File_DropTool_loop1 o.Tool fp path (fuel + 1) ((ppre.length : Nat) : Int) h = .error .panic := by
  subst hk
  obtain ⟨hg, hle⟩ := A.get
  conv => lhs; unfold File_DropTool_loop1
  have hlt : ((ppre.length : Nat) : Int) < len o.Tool := by rw [A.hO]; exact lt_len_mid _ _ _
  have hidx : idxL o.Tool ((ppre.length : Nat) : Int) = .ok p := by rw [A.hO]; exact idxL_append_mid _ _ _ rfl
  have hz : ((x.lineId : Nat) : Int) ≤ 0 := by simp [h0]
  simp only [hlt, decide_true, if_true, hidx, bind, Except.bind, pure, Except.pure, hg, toolG_Path, toolG_Syntax,
    Line_markRemoved_nil hz]

theorem DropTool_loop_end (rx : List Int) (fp : Int) (path : Bytes) (fuel : Nat) (h : Heap) :
    File_DropTool_loop1 rx fp path (fuel + 1) ((rx.length : Nat) : Int) h = .ok (((rx.length : Nat) : Int), h) := by
  unfold File_DropTool_loop1
  simp only [not_lt_len_end, decide_false, Bool.false_eq_true, if_false, pure, Except.pure]

theorem DropTool_loop_ok (path : Bytes) (fp : Int) (o : File) :
    ∀ (xs : List Modfile.Tool) (ps ppre : List Int) (mpre : List Modfile.Tool) (h : Heap) (e : Modfile.Edit.EFile)
      (fuel : Nat) (xs' : List Modfile.Tool) (dead : List Nat),
      heapGet h.mods fp = .ok o → RepFAt h o e → o.Tool = ppre ++ ps → e.f.tool = mpre ++ xs → ppre.length = mpre.length →
      xs.length + 1 ≤ fuel →
      clearAll (tlM path) (·.lineId) clearedTool xs = .ok (xs', dead) →
      ∃ r h', File_DropTool_loop1 o.Tool fp path fuel ((ppre.length : Nat) : Int) h = .ok (r, h') ∧
        heapGet h'.mods fp = .ok o ∧
        RepFAt h' o { e with f := { e.f with tool := mpre ++ xs', syn := markAll e.f.syn dead } }
  | [], ps, ppre, mpre, h, e, fuel, xs', dead, ho, R, hO, hE, hl, hf, hfr => by
    have hps : ps = [] := by
      have r := R.tool.rel; rw [hO, hE] at r; exact ps_of_nil r hl
    subst hps
    simp only [clearAll, Except.ok.injEq, Prod.mk.injEq] at hfr
    obtain ⟨h1, h2⟩ := hfr
    subst h1; subst h2
    obtain ⟨f, rfl⟩ : ∃ f, fuel = f + 1 := ⟨fuel - 1, by omega⟩
    have hO' : o.Tool = ppre := by simpa using hO
    refine ⟨((ppre.length : Nat) : Int), h, ?_, ho, ?_⟩
    · rw [hO']
      exact DropTool_loop_end ppre fp path f h
    · have hE' : mpre ++ [] = e.f.tool := hE.symm
      rw [hE']
      exact R
  | x :: xs, ps, ppre, mpre, h, e, fuel, xs', dead, ho, R, hO, hE, hl, hf, hfr => by
    obtain ⟨p, ps', rfl⟩ : ∃ p ps', ps = p :: ps' := by
      have r := R.tool.rel; rw [hO, hE] at r; exact ps_of_cons r hl
    obtain ⟨f, rfl⟩ : ∃ f, fuel = f + 1 := ⟨fuel - 1, by omega⟩
    have A : AtTl h fp o e ppre p ps' mpre x xs := ⟨ho, R, hO, hE, hl⟩
    have hf' : xs.length + 1 ≤ f := by simp only [List.length_cons] at hf; omega
    by_cases hk : x.path = path
    · by_cases h0 : x.lineId = 0
      · rw [clearAll_cons_nil _ _ _ xs (tlM_true hk) h0] at hfr
        cases hfr
      · obtain ⟨rest, dead', hr, rfl, rfl⟩ := clearAll_cons_match _ _ _ (tlM_true hk) h0 hfr
        obtain ⟨h1, hstep, A1⟩ := DropTool_step_clear A path hk h0 f
        obtain ⟨r, h', hrun, ho', R'⟩ := DropTool_loop_ok path fp o xs ps' (ppre ++ [p]) (mpre ++ [clearedTool]) h1 _ f
          rest dead' A1.ho A1.R (by rw [hO]; simp) (by simp) (by simp [hl]) hf' hr
        refine ⟨r, h', ?_, ho', ?_⟩
        · rw [hstep, hrun]
        · rw [show mpre ++ clearedTool :: rest = (mpre ++ [clearedTool]) ++ rest by simp]
          exact R'
    · obtain ⟨rest, hr, rfl⟩ := clearAll_cons_nomatch _ _ _ (tlM_false hk) hfr
      have hstep := DropTool_step_skip A path hk f
      obtain ⟨r, h', hrun, ho', R'⟩ := DropTool_loop_ok path fp o xs ps' (ppre ++ [p]) (mpre ++ [x]) h e f
        rest dead ho R (by rw [hO]; simp) (by rw [hE]; simp) (by simp [hl]) hf' hr
      refine ⟨r, h', ?_, ho', ?_⟩
      · rw [hstep, hrun]
      · rw [show mpre ++ x :: rest = (mpre ++ [x]) ++ rest by simp]
        exact R'

theorem DropTool_loop_err (path : Bytes) (fp : Int) (o : File) :
    ∀ (xs : List Modfile.Tool) (ps ppre : List Int) (mpre : List Modfile.Tool) (h : Heap) (e : Modfile.Edit.EFile)
      (fuel : Nat) (err : Modfile.Edit.EditErr),
      heapGet h.mods fp = .ok o → RepFAt h o e → o.Tool = ppre ++ ps → e.f.tool = mpre ++ xs → ppre.length = mpre.length →
      xs.length + 1 ≤ fuel →
      clearAll (tlM path) (·.lineId) clearedTool xs = .error err →
      File_DropTool_loop1 o.Tool fp path fuel ((ppre.length : Nat) : Int) h = .error .panic
  | [], ps, ppre, mpre, h, e, fuel, err, ho, R, hO, hE, hl, hf, hfr => by
    simp [clearAll] at hfr
  | x :: xs, ps, ppre, mpre, h, e, fuel, err, ho, R, hO, hE, hl, hf, hfr => by
    obtain ⟨p, ps', rfl⟩ : ∃ p ps', ps = p :: ps' := by
      have r := R.tool.rel; rw [hO, hE] at r; exact ps_of_cons r hl
    obtain ⟨f, rfl⟩ : ∃ f, fuel = f + 1 := ⟨fuel - 1, by omega⟩
    have A : AtTl h fp o e ppre p ps' mpre x xs := ⟨ho, R, hO, hE, hl⟩
    have hf' : xs.length + 1 ≤ f := by simp only [List.length_cons] at hf; omega
    by_cases hk : x.path = path
    · by_cases h0 : x.lineId = 0
      · exact DropTool_step_nil A path hk h0 f
      · have hr := clearAll_cons_match_err _ _ _ (tlM_true hk) h0 hfr
        obtain ⟨h1, hstep, A1⟩ := DropTool_step_clear A path hk h0 f
        rw [hstep]
        exact DropTool_loop_err path fp o xs ps' (ppre ++ [p]) (mpre ++ [clearedTool]) h1 _ f err
          A1.ho A1.R (by rw [hO]; simp) (by simp) (by simp [hl]) hf' hr
    · have hr := clearAll_cons_nomatch_err _ _ _ (tlM_false hk) hfr
      rw [DropTool_step_skip A path hk f]
      exact DropTool_loop_err path fp o xs ps' (ppre ++ [p]) (mpre ++ [x]) h e f err
        ho R (by rw [hO]; simp) (by rw [hE]; simp) (by simp [hl]) hf' hr

/-- **File.DropTool, the model succeeds** -/
theorem File_DropTool_ok {h : Heap} {fp : Int} {e e' : Modfile.Edit.EFile} (R : RepF h fp e)
    (path : Bytes) (fuel : Nat) (hf1 : e.f.tool.length + 1 ≤ fuel)
    (hm : Modfile.Edit.dropTool e path = .ok e') :
    ∃ h', File_DropTool fuel fp path h = .ok (none, h') ∧ RepF h' fp e' := by
  obtain ⟨o, ho, R0⟩ := R
  cases hfr : clearAll (tlM path) (·.lineId) clearedTool e.f.tool with
  | error err =>
    have hfr' : clearAll (fun t : Modfile.Tool => t.path == path) (·.lineId) clearedTool e.f.tool = .error err := hfr
    simp [Modfile.Edit.dropTool, hfr', bind, Except.bind] at hm
  | ok r =>
    obtain ⟨gd', dead⟩ := r
    have hfr' : clearAll (fun t : Modfile.Tool => t.path == path) (·.lineId) clearedTool e.f.tool = .ok (gd', dead) := hfr
    obtain ⟨r, h1, hrun, ho1, R1⟩ := DropTool_loop_ok path fp o e.f.tool o.Tool [] [] h e fuel gd' dead
      ho R0 rfl rfl rfl hf1 hfr
    have hrun' : File_DropTool_loop1 o.Tool fp path fuel 0 h = .ok (r, h1) := hrun
    simp only [Modfile.Edit.dropTool, hfr', bind, Except.bind, pure, Except.pure, Except.ok.injEq] at hm
    subst hm
    refine ⟨h1, ?_, o, ho1, R1⟩
    simp only [File_DropTool, ho, hrun', bind, Except.bind, pure, Except.pure]

/-- **File.DropTool, the model meets a cleared entry (`nilDeref`): Go panics** -/
theorem File_DropTool_err {h : Heap} {fp : Int} {e : Modfile.Edit.EFile} (R : RepF h fp e)
    (path : Bytes) (fuel : Nat) (hf1 : e.f.tool.length + 1 ≤ fuel) {err : Modfile.Edit.EditErr}
    (hm : Modfile.Edit.dropTool e path = .error err) :
    File_DropTool fuel fp path h = .error .panic := by
  obtain ⟨o, ho, R0⟩ := R
  cases hfr : clearAll (tlM path) (·.lineId) clearedTool e.f.tool with
  | ok r =>
    obtain ⟨gd', dead⟩ := r
    have hfr' : clearAll (fun t : Modfile.Tool => t.path == path) (·.lineId) clearedTool e.f.tool = .ok (gd', dead) := hfr
    simp [Modfile.Edit.dropTool, hfr', bind, Except.bind, pure, Except.pure] at hm
  | error err' =>
    have hrun := DropTool_loop_err path fp o e.f.tool o.Tool [] [] h e fuel err' ho R0 rfl rfl rfl hf1 hfr
    have hrun' : File_DropTool_loop1 o.Tool fp path fuel 0 h = .error .panic := hrun
    simp only [File_DropTool, ho, hrun', bind, Except.bind]


/-! ### File.AddTool -/

theorem B_tool : B "tool" = [116, 111, 111, 108] := by decide +kernel

/-- what File.AddTool needs of `File_SortBlocks` (edit-sort's `File_SortBlocks_sim`; `sortFuel` is edit-sort's bound) -/
def SortSpec (sortFuel : Modfile.Edit.EFile → Nat) : Prop :=
  ∀ (h : Heap) (fp : Int) (e : Modfile.Edit.EFile) (fuel : Nat), RepF h fp e → sortFuel e ≤ fuel →
    ∃ h', File_SortBlocks fuel fp h = .ok ((), h') ∧ RepF h' fp (Modfile.Edit.sortBlocks e)

/-- loop 1 of File.AddTool: the search for an entry with this path (the heap is only read) -/
theorem AddTool_loop (path : Bytes) (fp : Int) (h : Heap) (nl : Nat) :
    ∀ (xs : List Modfile.Tool) (ps ppre : List Int) (mpre : List Modfile.Tool) (fuel : Nat),
      REntsL h.tools toolG (·.lineId) nl (ppre ++ ps) (mpre ++ xs) → ppre.length = mpre.length → xs.length + 1 ≤ fuel →
      File_AddTool_loop1 (ppre ++ ps) fp path h fuel ((ppre.length : Nat) : Int) =
        .ok (if xs.any (·.path == path) then Ctl.ret (none, h) else Ctl.next (((ppre ++ ps).length : Nat) : Int))
  | [], ps, ppre, mpre, fuel, r, hl, hf => by
    have hps : ps = [] := ps_of_nil r hl
    subst hps
    obtain ⟨f, rfl⟩ : ∃ f, fuel = f + 1 := ⟨fuel - 1, by omega⟩
    unfold File_AddTool_loop1
    simp only [List.append_nil, not_lt_len_end, decide_false, Bool.false_eq_true, if_false, pure, Except.pure, List.any_nil]
  | x :: xs, ps, ppre, mpre, fuel, r, hl, hf => by
    obtain ⟨p, ps', rfl⟩ : ∃ p ps', ps = p :: ps' := ps_of_cons r hl
    obtain ⟨f, rfl⟩ : ∃ f, fuel = f + 1 := ⟨fuel - 1, by omega⟩
    have hf' : xs.length + 1 ≤ f := by simp only [List.length_cons] at hf; omega
    obtain ⟨hg, _⟩ := REntsL_at r hl
    have ih := AddTool_loop path fp h nl xs ps' (ppre ++ [p]) (mpre ++ [x]) f (by simpa using r) (by simp [hl]) hf'
    conv => lhs; unfold File_AddTool_loop1
    simp only [lt_len_mid, decide_true, if_true, idxL_append_mid ppre p ps' rfl, bind, Except.bind, pure, Except.pure, hg,
      toolG_Path, List.any_cons]
    by_cases hk : x.path = path
    · simp [hk]
    · have hb : (x.path == path) = false := by simp [hk]
      simp only [hk, decide_false, Bool.false_eq_true, if_false, hb, Bool.false_or, succ_len ppre p]
      rw [show ppre ++ p :: ps' = (ppre ++ [p]) ++ ps' by simp]
      exact ih

/-- **File.AddTool: the path is there already** -/
theorem File_AddTool_present {h : Heap} {fp : Int} {e : Modfile.Edit.EFile} (R : RepF h fp e) (path : Bytes) (fuel : Nat)
    (hf1 : e.f.tool.length + 1 ≤ fuel) (hp : e.f.tool.any (·.path == path) = true) :
    File_AddTool fuel fp path h = .ok (none, h) := by
  obtain ⟨o, ho, R⟩ := R
  have hloop := AddTool_loop path fp h h.lines.length e.f.tool o.Tool [] [] fuel R.tool.rel rfl hf1
  have hloop' : File_AddTool_loop1 o.Tool fp path h fuel 0 = .ok (Ctl.ret (none, h)) := by
    simpa [hp] using hloop
  simp only [File_AddTool, ho, hloop', bind, Except.bind, pure, Except.pure]

/-- **File.AddTool: a new line, a new `Tool` object, then SortBlocks** -/
theorem File_AddTool_new (hAL : AddLineSpec) {sortFuel : Modfile.Edit.EFile → Nat} (hSort : SortSpec sortFuel)
    {h : Heap} {fp : Int} {e : Modfile.Edit.EFile} (R : RepF h fp e) (path : Bytes) (fuel : Nat)
    (hf1 : e.f.tool.length + 1 ≤ fuel) (hf2 : nodeCount e.f.syn.stmts + 3 ≤ fuel)
    (hf3 : sortFuel { f := { e.f with tool := e.f.tool ++ [{ path := path, lineId := e.next }],
                                      syn := Modfile.Edit.addLine e.f.syn none [B "tool", path] e.next }, next := e.next + 1 } ≤ fuel)
    (hp : e.f.tool.any (·.path == path) = false) :
    ∃ h', File_AddTool fuel fp path h = .ok (none, h') ∧ RepF h' fp (Modfile.Edit.addTool e path) := by
  obtain ⟨o, ho, R⟩ := R
  have hloop := AddTool_loop path fp h h.lines.length e.f.tool o.Tool [] [] fuel R.tool.rel rfl hf1
  have hloop' : File_AddTool_loop1 o.Tool fp path h fuel 0 = .ok (Ctl.next ((o.Tool.length : Nat) : Int)) := by
    simpa [hp] using hloop
  obtain ⟨h1, hrun, hsyn, htok, hG, hlen, F⟩ :=
    hAL h o.Syntax e.f.syn none [116, 111, 111, 108] [path] fuel R.syn R.tok hf2
  have hnext : e.next = h.lines.length + 1 := R.next
  have ho1 : heapGet h1.mods fp = .ok o := by rw [F.mods]; exact ho
  rw [← hnext] at hrun hsyn htok
  let tN : Modfile.Tool := { path := path, lineId := e.next }
  let h2 : Heap := { h1 with tools := h1.tools ++ [toolG tN],
                             mods := h1.mods.set (fp.toNat - 1) { o with Tool := o.Tool ++ [((h1.tools.length + 1 : Nat) : Int)] } }
  have R1 := RepFAt_afterAddLine R F hsyn htok (hG R.linesG) hlen
  have R2 := RepFAt_replaceTool R1 (h1.tools ++ [toolG tN]) (o.Tool ++ [((h1.tools.length + 1 : Nat) : Int)])
    (e.f.tool ++ [tN]) (REnts_snoc R1.tool tN (by show e.next ≤ h1.lines.length; omega))
  have R3 : RepF h2 fp _ := RepF_ofSetMods (fp := fp) (h := { h1 with tools := h1.tools ++ [toolG tN] }) ho1 R2
  rw [B_tool] at hf3
  obtain ⟨h3, hsort, R4⟩ := hSort h2 fp _ fuel R3 hf3
  refine ⟨h3, ?_, ?_⟩
  · have hrun' : FileSyntax_addLine fuel o.Syntax Expr.nil [[116, 111, 111, 108], path] h = .ok (((e.next : Nat) : Int), h1) := hrun
    have hsort' : File_SortBlocks fuel fp
        { h1 with tools := h1.tools ++ [({ Path := path, Syntax := ((e.next : Nat) : Int) } : Tool)],
                  mods := h1.mods.set (fp.toNat - 1) { o with Tool := o.Tool ++ [((h1.tools.length + 1 : Nat) : Int)] } } =
        .ok ((), h3) := hsort
    simp only [File_AddTool, ho, hloop', hrun', bind, Except.bind, pure, Except.pure, heapAlloc, ho1, heapSet_of_get _ ho1, hsort']
  · simp only [Modfile.Edit.addTool, hp, Bool.false_eq_true, if_false]
    rw [B_tool]
    exact R4

end ModVerif.Tie.FnEditStmtC
