import ModVerif.Spec.ZipSpec
import ModVerif.Proofs.ZipValid
namespace ModVerif.Proofs.Zip
open ModVerif ModVerif.PathClean ModVerif.Zip ModVerif.ZipSpec

/-- the entry `Create` writes for a valid file -/
def entryOf (pfx : Bytes) (f : FileInfo) : Entry := ⟨pfx ++ f.path, f.content.length, f.content⟩

/-- what `addFile` needs from a file -/
def Addable (pfx : Bytes) (f : FileInfo) : Prop :=
  (pfx ++ f.path).length ≤ 65535 ∧ (f.content.length : Int) < f.size + 1

theorem addFiles_ok (pfx : Bytes) : ∀ (l : List FileInfo) (es : List Entry),
    addFiles pfx l = .ok es → es = l.map (entryOf pfx) ∧ ∀ f ∈ l, Addable pfx f := by
  intro l
  induction l with
  | nil => intro es h; simp [addFiles] at h; exact ⟨h.symm ▸ rfl, fun f hf => by cases hf⟩
  | cons f t ih =>
    intro es h
    by_cases h1 : (pfx ++ f.path).length > 65535
    · unfold addFiles at h; rw [if_pos h1] at h; cases h
    by_cases h2 : (f.content.length : Int) ≥ f.size + 1
    · unfold addFiles at h; rw [if_neg h1, if_pos h2] at h; cases h
    cases hr : addFiles pfx t with
    | error e => unfold addFiles at h; rw [if_neg h1, if_neg h2, hr] at h; cases h
    | ok es' =>
      unfold addFiles at h; rw [if_neg h1, if_neg h2, hr] at h
      obtain ⟨he, ha⟩ := ih es' hr
      have : es = ⟨pfx ++ f.path, f.content.length, f.content⟩ :: es' := by
        injection h with h; exact h.symm
      refine ⟨by rw [this, he]; rfl, ?_⟩
      intro g hg
      rcases List.mem_cons.mp hg with rfl | hg
      · exact ⟨by omega, by omega⟩
      · exact ha g hg

theorem addFiles_of_addable (pfx : Bytes) : ∀ (l : List FileInfo), (∀ f ∈ l, Addable pfx f) →
    addFiles pfx l = .ok (l.map (entryOf pfx)) := by
  intro l
  induction l with
  | nil => intro _; rfl
  | cons f t ih =>
    intro h
    have hf := h f List.mem_cons_self
    unfold addFiles
    rw [ih (fun g hg => h g (List.mem_cons_of_mem _ hg))]
    have h1 : ¬ (pfx ++ f.path).length > 65535 := by have := hf.1; omega
    have h2 : ¬ (f.content.length : Int) ≥ f.size + 1 := by have := hf.2; omega
    rw [if_neg h1, if_neg h2]
    rfl


/-- `Create` succeeds exactly when the module is accepted, the report has no error and every valid
    file can be added; the entries are then the valid files in order. -/
theorem create_eq (E : Env) (mpath mvers : Bytes) (files : List FileInfo) :
    create E mpath mvers files =
      if !E.modOK mpath mvers then .error .badModule
      else match (checkFilesSt E files (goVers files)).cf.err with
        | some .size => .error .size
        | some .invalid => .error .invalid
        | none => addFiles (zipPrefix mpath mvers) (checkFilesSt E files (goVers files)).validFiles := rfl

theorem create_ok (E : Env) (mpath mvers : Bytes) (files : List FileInfo) (es : List Entry)
    (h : create E mpath mvers files = .ok es) :
    E.modOK mpath mvers = true ∧ (checkFilesV E files).err = none ∧
    es = (checkFilesSt E files (goVers files)).validFiles.map (entryOf (zipPrefix mpath mvers)) ∧
    ∀ f ∈ (checkFilesSt E files (goVers files)).validFiles, Addable (zipPrefix mpath mvers) f := by
  rw [create_eq] at h
  by_cases hm : E.modOK mpath mvers = true
  · simp only [hm, Bool.not_true, Bool.false_eq_true, if_false] at h
    have herr : (checkFilesSt E files (goVers files)).cf.err = none := by
      cases he : (checkFilesSt E files (goVers files)).cf.err with
      | none => rfl
      | some k => rw [he] at h; cases k <;> cases h
    rw [herr] at h
    obtain ⟨h1, h2⟩ := addFiles_ok _ _ _ h
    exact ⟨hm, herr, h1, h2⟩
  · simp [hm] at h

end ModVerif.Proofs.Zip
