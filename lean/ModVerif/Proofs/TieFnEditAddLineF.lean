import ModVerif.Proofs.TieFnEditAddLineE
set_option linter.unusedSimpArgs false
set_option linter.unusedVariables false
namespace ModVerif.TieFnEditAddLine
open ModVerif ModVerif.GoRt
open ModVerif.Generated.Edit
open ModVerif.Tie.FnEditRep
open ModVerif.Modfile.Edit (treeIds cleanupStmts cleanupSyntax)

/-! ### `FileSyntax.Cleanup`: the compaction of a block's lines (loop 2) -/

def isLive (l : Modfile.Line) : Bool := !l.token.isEmpty

def livePtrs (ls : List Modfile.Line) : List Int := (ls.filter isLive).map (fun l => (l.id : Int))

/-- what loop 2 leaves untouched: everything but the block object at `p` -/
structure BFrame (p : Int) (h h' : Heap) : Prop where
  frame : Frame h h'
  lines : h'.lines = h.lines
  files : h'.files = h.files
  blen : h'.blocks.length = h.blocks.length
  other : ∀ q, q ≠ p → heapGet h'.blocks q = heapGet h.blocks q

theorem BFrame.refl (p : Int) (h : Heap) : BFrame p h h := ⟨Frame.refl h, rfl, rfl, rfl, fun _ _ => rfl⟩

theorem BFrame.trans {p : Int} {h1 h2 h3 : Heap} (a : BFrame p h1 h2) (b : BFrame p h2 h3) : BFrame p h1 h3 :=
  ⟨a.frame.trans b.frame, b.lines.trans a.lines, b.files.trans a.files, b.blen.trans a.blen,
   fun q hq => (b.other q hq).trans (a.other q hq)⟩

theorem BFrame.setBlock {h : Heap} {p : Int} {w : LineBlock} (hb : heapGet h.blocks p = .ok w) (v : LineBlock) :
    BFrame p h { h with blocks := h.blocks.set (p.toNat - 1) v } :=
  ⟨⟨rfl, rfl, rfl, rfl, rfl, rfl, rfl, rfl, rfl, rfl, rfl, rfl, rfl⟩, rfl, rfl, by simp,
   fun q hq => heapGet_listSet_other v hb hq⟩

theorem cl2_sim (p : Int) (blk0 : LineBlock) :
    ∀ (todo : List Int) (ltodo : List Modfile.Line) (done out junk : List Int) (h : Heap) (fuel : Nat),
      RLines h todo ltodo → heapGet h.blocks p = .ok { blk0 with Line := out ++ junk } →
      out.length + junk.length = done.length + todo.length → out.length ≤ done.length → todo.length + 1 ≤ fuel →
      ∃ h' junk', FileSyntax_Cleanup_loop2 (done ++ todo) p fuel (done.length : Int) h (out.length : Int) =
          .ok (len (done ++ todo), h', ((out ++ livePtrs ltodo).length : Int)) ∧
        heapGet h'.blocks p = .ok { blk0 with Line := (out ++ livePtrs ltodo) ++ junk' } ∧
        (out ++ livePtrs ltodo).length + junk'.length = done.length + todo.length ∧ BFrame p h h'
  | [], [], done, out, junk, h, fuel, _, hb, hlen, _, hfu => by
    obtain ⟨f, rfl⟩ : ∃ f, fuel = f + 1 := ⟨fuel - 1, by omega⟩
    refine ⟨h, junk, ?_, by simpa [livePtrs] using hb, by simpa [livePtrs] using hlen, BFrame.refl p h⟩
    unfold FileSyntax_Cleanup_loop2
    simp [len_eq, livePtrs]
  | [], _ :: _, _, _, _, _, _, r, _, _, _, _ => r.elim
  | _ :: _, [], _, _, _, _, _, r, _, _, _, _ => r.elim
  | q :: todo, l :: ltodo, done, out, junk, h, fuel, r, hb, hlen, hle, hfu => by
    obtain ⟨f, rfl⟩ : ∃ f, fuel = f + 1 := ⟨fuel - 1, by omega⟩
    have hlt : ((done.length : Nat) : Int) < len (done ++ q :: todo) := by rw [len_eq]; simp; omega
    have e1 : (done ++ [q]) ++ todo = done ++ q :: todo := by simp
    have e2 : ((done ++ [q]).length : Int) = (done.length : Int) + 1 := by simp
    have hfu' : todo.length + 1 ≤ f := by simp at hfu; omega
    cases hc : l.token with
    | nil =>
      have hdead : livePtrs (l :: ltodo) = livePtrs ltodo := by simp [livePtrs, isLive, hc]
      have ih := cl2_sim p blk0 todo ltodo (done ++ [q]) out junk h f r.2 hb (by simp at hlen ⊢; omega)
        (by simp; omega) hfu'
      rw [e1, e2] at ih
      obtain ⟨h', junk', i1, i2, i3, i4⟩ := ih
      refine ⟨h', junk', ?_, by rw [hdead]; exact i2, by rw [hdead]; simp at i3 ⊢; omega, i4⟩
      rw [hdead]
      conv => lhs; unfold FileSyntax_Cleanup_loop2
      simp only [hlt, decide_true, if_true, idxL_append_mid done q todo rfl, bind_ok, r.1.1, lineG_Token, hc,
        Bool.not_true, Bool.false_eq_true, if_false]
      exact i1
    | cons u us =>
      have hlive : livePtrs (l :: ltodo) = (l.id : Int) :: livePtrs ltodo := by simp [livePtrs, isLive, hc]
      have hq : q = (l.id : Int) := r.1.2
      have hjunk : junk ≠ [] := by
        intro e; subst e; simp at hlen; omega
      have hset : setIdxL (out ++ junk) (out.length : Int) q = .ok ((out ++ [q]) ++ junk.drop 1) := by
        unfold setIdxL
        have : (0 : Int) ≤ (out.length : Int) ∧ (out.length : Int) < len (out ++ junk) := by
          refine ⟨by omega, ?_⟩
          rw [len_eq]
          have : 0 < junk.length := List.length_pos_iff.2 hjunk
          simp; omega
        simp only [this, and_self, if_true, Int.toNat_natCast, pure_eq_ok, set_compact out junk q hjunk]
      have hb1 : heapGet (h.blocks.set (p.toNat - 1) { blk0 with Line := (out ++ [q]) ++ junk.drop 1 }) p =
          .ok { blk0 with Line := (out ++ [q]) ++ junk.drop 1 } := heapGet_listSet_same _ hb
      have hjl : (junk.drop 1).length = junk.length - 1 := by simp
      have hjp : 0 < junk.length := List.length_pos_iff.2 hjunk
      have ih := cl2_sim p blk0 todo ltodo (done ++ [q]) (out ++ [q]) (junk.drop 1)
        { h with blocks := h.blocks.set (p.toNat - 1) { blk0 with Line := (out ++ [q]) ++ junk.drop 1 } } f
        ((RLines_congr (h := h) (h' := { h with blocks := h.blocks.set (p.toNat - 1) { blk0 with Line := (out ++ [q]) ++ junk.drop 1 } }) rfl).2 r.2) hb1 (by simp at hlen ⊢; omega) (by simp; omega) hfu'
      rw [e1, e2] at ih
      obtain ⟨h', junk', i1, i2, i3, i4⟩ := ih
      have e3 : (out ++ [q]) ++ livePtrs ltodo = out ++ livePtrs (l :: ltodo) := by rw [hlive, hq]; simp
      have e4 : (((out ++ [q]).length : Nat) : Int) = (out.length : Int) + 1 := by simp
      rw [e3, e4] at i1
      rw [e3] at i2 i3
      refine ⟨h', junk', ?_, i2, by simp at i3 ⊢; omega, (BFrame.setBlock hb _).trans i4⟩
      conv => lhs; unfold FileSyntax_Cleanup_loop2
      simp only [hlt, decide_true, if_true, idxL_append_mid done q todo rfl, bind_ok, r.1.1, lineG_Token, hc,
        reduceCtorEq, decide_false, Bool.not_false, hb, hset, heapSet_of_get _ hb]
      exact i1


/-! ### `FileSyntax.Cleanup`, loop 1: one statement -/

theorem setIdxL_compact {α : Type} (out junk : List α) (v : α) (hj : junk ≠ []) {w : Int} (hw : w = (out.length : Int)) :
    setIdxL (out ++ junk) w v = .ok ((out ++ [v]) ++ junk.drop 1) := by
  subst hw
  unfold setIdxL
  have : (0 : Int) ≤ (out.length : Int) ∧ (out.length : Int) < len (out ++ junk) := by
    refine ⟨by omega, ?_⟩
    rw [len_eq]
    have : 0 < junk.length := List.length_pos_iff.2 hj
    simp; omega
  simp only [this, and_self, if_true, Int.toNat_natCast, pure_eq_ok, set_compact out junk v hj]

/-- `x.Stmt[w] = stmt; w++` and on to the next statement -/
theorem cl1_k9 (es : List Expr) (x : Int) (f : Nat) (k : Int) (h : Heap) (fo : FileSyntax) (hf : heapGet h.files x = .ok fo)
    (out junk : List Expr) (hs : fo.Stmt = out ++ junk) (hj : junk ≠ []) (e : Expr) :
    (do let t5 ← heapGet h.files x
        let t6 ← setIdxL (t5.Stmt) (out.length : Int) e
        let t7 ← heapGet h.files x
        let t8 ← heapSet h.files x { t7 with Stmt := t6 }
        FileSyntax_Cleanup_loop1 es x f (k + 1) { h with files := t8 } ((out.length : Int) + 1)) =
      FileSyntax_Cleanup_loop1 es x f (k + 1)
        { h with files := h.files.set (x.toNat - 1) { fo with Stmt := (out ++ [e]) ++ junk.drop 1 } }
        (((out ++ [e]).length : Nat) : Int) := by
  have e4 : (((out ++ [e]).length : Nat) : Int) = (out.length : Int) + 1 := by simp
  simp only [hf, bind_ok, hs, setIdxL_compact out junk e hj rfl, heapSet_of_get _ hf, e4]

theorem cl1_keep_line (pre : List Expr) (p : Int) (xs : List Expr) (x : Int) (f : Nat) (h : Heap) (fo : FileSyntax)
    (hf : heapGet h.files x = .ok fo) (out junk : List Expr) (hs : fo.Stmt = out ++ junk) (hj : junk ≠ [])
    (ln : Line) (hl : heapGet h.lines p = .ok ln) (hlive : ln.Token ≠ []) :
    FileSyntax_Cleanup_loop1 (pre ++ Expr.Line p :: xs) x (f + 1) (pre.length : Int) h (out.length : Int) =
      FileSyntax_Cleanup_loop1 (pre ++ Expr.Line p :: xs) x f ((pre.length : Int) + 1)
        { h with files := h.files.set (x.toNat - 1) { fo with Stmt := (out ++ [Expr.Line p]) ++ junk.drop 1 } }
        (((out ++ [Expr.Line p]).length : Nat) : Int) := by
  conv => lhs; unfold FileSyntax_Cleanup_loop1
  have hlt : ((pre.length : Nat) : Int) < len (pre ++ Expr.Line p :: xs) := by rw [len_eq]; simp; omega
  simp only [hlt, decide_true, if_true, idxL_append_mid pre _ xs rfl, bind_ok, hl, hlive, decide_false,
    Bool.false_eq_true, if_false]
  exact cl1_k9 _ x f _ h fo hf out junk hs hj _

theorem cl1_keep_other (pre : List Expr) (e : Expr) (xs : List Expr) (x : Int) (f : Nat) (h : Heap) (fo : FileSyntax)
    (hf : heapGet h.files x = .ok fo) (out junk : List Expr) (hs : fo.Stmt = out ++ junk) (hj : junk ≠ [])
    (h1 : ∀ p, e ≠ Expr.Line p) (h2 : ∀ p, e ≠ Expr.LineBlock p) :
    FileSyntax_Cleanup_loop1 (pre ++ e :: xs) x (f + 1) (pre.length : Int) h (out.length : Int) =
      FileSyntax_Cleanup_loop1 (pre ++ e :: xs) x f ((pre.length : Int) + 1)
        { h with files := h.files.set (x.toNat - 1) { fo with Stmt := (out ++ [e]) ++ junk.drop 1 } }
        (((out ++ [e]).length : Nat) : Int) := by
  conv => lhs; unfold FileSyntax_Cleanup_loop1
  have hlt : ((pre.length : Nat) : Int) < len (pre ++ e :: xs) := by rw [len_eq]; simp; omega
  simp only [hlt, decide_true, if_true, idxL_append_mid pre _ xs rfl, bind_ok]
  cases e with
  | Line p => exact absurd rfl (h1 p)
  | LineBlock p => exact absurd rfl (h2 p)
  | _ => exact cl1_k9 _ x f _ h fo hf out junk hs hj _

theorem cl1_drop_line (pre : List Expr) (p : Int) (xs : List Expr) (x : Int) (f : Nat) (h : Heap) (w : Int)
    (ln : Line) (hl : heapGet h.lines p = .ok ln) (hdead : ln.Token = []) :
    FileSyntax_Cleanup_loop1 (pre ++ Expr.Line p :: xs) x (f + 1) (pre.length : Int) h w =
      FileSyntax_Cleanup_loop1 (pre ++ Expr.Line p :: xs) x f ((pre.length : Int) + 1) h w := by
  conv => lhs; unfold FileSyntax_Cleanup_loop1
  have hlt : ((pre.length : Nat) : Int) < len (pre ++ Expr.Line p :: xs) := by rw [len_eq]; simp; omega
  simp only [hlt, decide_true, if_true, idxL_append_mid pre _ xs rfl, bind_ok, hl, hdead, decide_true, if_true]

/-- a block without live lines is dropped -/
theorem cl1_block_drop (pre : List Expr) (p : Int) (xs : List Expr) (x : Int) (f : Nat) (h : Heap) (w : Int)
    (blk : LineBlock) (hb : heapGet h.blocks p = .ok blk) (ri : Int) (h1 : Heap)
    (h2 : FileSyntax_Cleanup_loop2 blk.Line p f 0 h 0 = .ok (ri, h1, 0)) :
    FileSyntax_Cleanup_loop1 (pre ++ Expr.LineBlock p :: xs) x (f + 1) (pre.length : Int) h w =
      FileSyntax_Cleanup_loop1 (pre ++ Expr.LineBlock p :: xs) x f ((pre.length : Int) + 1) h1 w := by
  conv => lhs; unfold FileSyntax_Cleanup_loop1
  have hlt : ((pre.length : Nat) : Int) < len (pre ++ Expr.LineBlock p :: xs) := by rw [len_eq]; simp; omega
  simp only [hlt, decide_true, if_true, idxL_append_mid pre _ xs rfl, bind_ok, hb, h2, decide_true, if_true]

/-- a block with at least two live lines, or with comments before `)`, is kept with its live lines -/
theorem cl1_block_keep (pre : List Expr) (p : Int) (xs : List Expr) (x : Int) (f : Nat) (h : Heap) (fo : FileSyntax)
    (out junk : List Expr) (hs : fo.Stmt = out ++ junk) (hj : junk ≠ [])
    (blk : LineBlock) (hb : heapGet h.blocks p = .ok blk) (ri : Int) (h1 : Heap) (ww : Nat)
    (h2 : FileSyntax_Cleanup_loop2 blk.Line p f 0 h 0 = .ok (ri, h1, (ww : Int)))
    (hf1 : heapGet h1.files x = .ok fo) (blk1 : LineBlock) (hb1 : heapGet h1.blocks p = .ok blk1)
    (live rest : List Int) (hl1 : blk1.Line = live ++ rest) (hww : live.length = ww)
    (hc : 2 ≤ ww ∨ (ww = 1 ∧ blk1.RParen.Comments.Before ≠ [])) :
    FileSyntax_Cleanup_loop1 (pre ++ Expr.LineBlock p :: xs) x (f + 1) (pre.length : Int) h (out.length : Int) =
      FileSyntax_Cleanup_loop1 (pre ++ Expr.LineBlock p :: xs) x f ((pre.length : Int) + 1)
        { h1 with blocks := h1.blocks.set (p.toNat - 1) { blk1 with Line := live },
                  files := h1.files.set (x.toNat - 1) { fo with Stmt := (out ++ [Expr.LineBlock p]) ++ junk.drop 1 } }
        (((out ++ [Expr.LineBlock p]).length : Nat) : Int) := by
  conv => lhs; unfold FileSyntax_Cleanup_loop1
  have hlt : ((pre.length : Nat) : Int) < len (pre ++ Expr.LineBlock p :: xs) := by rw [len_eq]; simp; omega
  have hne0 : ¬ ((ww : Int) = 0) := by omega
  have hcond : (if decide ((ww : Int) = 1) = true then
        (pure (decide (len blk1.RParen.Comments.Before = 0)) : M Bool) else (pure false : M Bool)) = .ok false := by
    rcases hc with hc | ⟨hc1, hc2⟩
    · have : ¬ ((ww : Int) = 1) := by omega
      simp only [this, decide_false, Bool.false_eq_true, if_false, pure_eq_ok]
    · have : ((ww : Int) = 1) := by omega
      have hlen : ¬ (len blk1.RParen.Comments.Before = 0) := by
        rw [len_eq]; intro e
        exact hc2 (List.length_eq_zero_iff.1 (by omega))
      simp only [this, decide_true, if_true, hlen, decide_false, pure_eq_ok]
  have hst : sliceTo (live ++ rest) (ww : Int) = .ok live := by
    rw [sliceTo_natCast (by simp; omega)]
    rw [← hww]; simp
  simp only [hlt, decide_true, if_true, idxL_append_mid pre _ xs rfl, bind_ok, hb, h2, hne0, decide_false,
    Bool.false_eq_true, if_false, hb1, hcond, hl1, hst, heapSet_of_get _ hb1]
  have := cl1_k9 (pre ++ Expr.LineBlock p :: xs) x f (pre.length : Int)
    { h1 with blocks := h1.blocks.set (p.toNat - 1) { blk1 with Line := live } } fo hf1 out junk hs hj (Expr.LineBlock p)
  exact this


theorem commentsAdd_eq (a b : List Comment) : commentsAdd a b = .ok (a ++ b) := by
  unfold commentsAdd; simp only [sliceTo_len, bind_ok, pure_eq_ok]

theorem stringsAdd_eq (a b : List Bytes) : stringsAdd a b = .ok (a ++ b) := by
  unfold stringsAdd; simp only [sliceTo_len, bind_ok, pure_eq_ok]

theorem idxL_zero_cons {α : Type} (a : α) (l : List α) : idxL (a :: l) 0 = .ok a := rfl

/-- a block with exactly one live line and no comment before `)` collapses into that line (the Line object is kept) -/
theorem cl1_block_collapse (pre : List Expr) (p : Int) (xs : List Expr) (x : Int) (f : Nat) (h : Heap) (fo : FileSyntax)
    (out junk : List Expr) (hs : fo.Stmt = out ++ junk) (hj : junk ≠ [])
    (blk : LineBlock) (hb : heapGet h.blocks p = .ok blk) (ri : Int) (h1 : Heap)
    (h2 : FileSyntax_Cleanup_loop2 blk.Line p f 0 h 0 = .ok (ri, h1, 1))
    (hf1 : heapGet h1.files x = .ok fo) (blk1 : LineBlock) (hb1 : heapGet h1.blocks p = .ok blk1)
    (q : Int) (rest : List Int) (hl1 : blk1.Line = q :: rest) (hrp : blk1.RParen.Comments.Before = [])
    (ln : Line) (hq : heapGet h1.lines q = .ok ln) :
    FileSyntax_Cleanup_loop1 (pre ++ Expr.LineBlock p :: xs) x (f + 1) (pre.length : Int) h (out.length : Int) =
      FileSyntax_Cleanup_loop1 (pre ++ Expr.LineBlock p :: xs) x f ((pre.length : Int) + 1)
        { h1 with
          lines := h1.lines.set (q.toNat - 1)
            ({ (default : Line) with
               Comments := ({ (default : Comments) with Before := blk1.Comments.Before ++ ln.Comments.Before,
                                                         Suffix := ln.Comments.Suffix ++ blk1.Comments.Suffix,
                                                         After := ln.Comments.After ++ blk1.Comments.After } : Comments),
               Token := blk1.Token ++ ln.Token } : Line),
          files := h1.files.set (x.toNat - 1) { fo with Stmt := (out ++ [Expr.Line q]) ++ junk.drop 1 } }
        (((out ++ [Expr.Line q]).length : Nat) : Int) := by
  conv => lhs; unfold FileSyntax_Cleanup_loop1
  have hlt : ((pre.length : Nat) : Int) < len (pre ++ Expr.LineBlock p :: xs) := by rw [len_eq]; simp; omega
  have e4 : (((out ++ [Expr.Line q]).length : Nat) : Int) = (out.length : Int) + 1 := by simp
  simp only [hlt, decide_true, if_true, idxL_append_mid pre _ xs rfl, bind_ok, hb, h2, reduceCtorEq, decide_false,
    Bool.false_eq_true, if_false, hb1, hrp, len_nil, pure_eq_ok, hl1, idxL_zero_cons, hq, commentsAdd_eq, stringsAdd_eq,
    heapSet_of_get _ hq, hf1, hs, setIdxL_compact out junk _ hj rfl, heapSet_of_get _ hf1, e4,
    show ((1 : Int) = 0) = False from by simp]

/-- the end of the statement list -/
theorem cl1_end (es : List Expr) (x : Int) (f : Nat) (h : Heap) (w : Int) :
    FileSyntax_Cleanup_loop1 es x (f + 1) (es.length : Int) h w = .ok (len es, h, w) := by
  unfold FileSyntax_Cleanup_loop1
  simp only [len_eq, Int.lt_irrefl, decide_false, Bool.false_eq_true, if_false, pure_eq_ok]

end ModVerif.TieFnEditAddLine
