/-
  Tie proofs for the regenerated module.go functions: splitGopkgIn and SplitPathVersion
  (module/module.go:536-581).  The Go code scans an index downward from `len(path)`; the hand model works on the
  reversed string.  The loop lemmas are stated for `path = r.reverse ++ tail` with the index at `r.length`.
-/
import ModVerif.Generated.FnModule
import ModVerif.Model.Module
import ModVerif.Proofs.GoRtLemmas
import ModVerif.Proofs.GoRtLemmasStr
import ModVerif.Proofs.ModuleSplit
namespace ModVerif.TieFnModule
open ModVerif ModVerif.GoRt ModVerif.GoRtStr

/-! ### the two downward scans -/

theorem splitDigitTest (c : UInt8) :
    (decide ((48 : Int) ≤ ((c.toNat : Nat) : Int)) && decide (((c.toNat : Nat) : Int) ≤ (57 : Int))) = Module.isDigit c := by
  simp only [int_le_byte (n := 48) (d := 48) rfl, byte_le_int (n := 57) (d := 57) rfl, Module.isDigit]

theorem splitIdxPrev (r tail : Bytes) (c : UInt8) :
    idx ((c :: r).reverse ++ tail) ((((c :: r).length : Nat) : Int) - 1) = .ok ((c.toNat : Nat) : Int) := by
  have h : (c :: r).reverse ++ tail = r.reverse ++ c :: tail := by simp
  have h2 : (((c :: r).length : Nat) : Int) - 1 = ((r.reverse.length : Nat) : Int) := by simp
  rw [h, h2, idx_append_length]

theorem splitGopkgIn_loop1_spec : ∀ (r tail : Bytes) (fuel : Nat), r.length < fuel →
    Generated.Module.splitGopkgIn_loop1 (r.reverse ++ tail) fuel (r.length : Int)
      = .ok (((r.dropWhile Module.isDigit).length : Nat) : Int) := by
  intro r
  induction r with
  | nil =>
    intro tail fuel hf
    obtain ⟨f, rfl⟩ : ∃ f, fuel = f + 1 := ⟨fuel - 1, by simp only [List.length_nil] at hf; omega⟩
    simp [Generated.Module.splitGopkgIn_loop1]
  | cons c r ih =>
    intro tail fuel hf
    obtain ⟨f, rfl⟩ : ∃ f, fuel = f + 1 := ⟨fuel - 1, by simp at hf; omega⟩
    have hpos : (((c :: r).length : Nat) : Int) > 0 := by simp only [List.length_cons]; omega
    have hrec := ih (c :: tail) f (by simp at hf; omega)
    have hpath : (c :: r).reverse ++ tail = r.reverse ++ c :: tail := by simp
    have hi : (((c :: r).length : Nat) : Int) - 1 = ((r.length : Nat) : Int) := by simp
    unfold Generated.Module.splitGopkgIn_loop1
    simp only [hpos, decide_true, if_true, splitIdxPrev, bind_ok, pure_eq_ok]
    have hd := splitDigitTest c
    by_cases h1 : (48 : Int) ≤ ((c.toNat : Nat) : Int) <;> by_cases h2 : ((c.toNat : Nat) : Int) ≤ (57 : Int) <;>
      simp only [h1, h2, decide_true, decide_false, Bool.and_self, Bool.and_false, Bool.false_and] at hd <;>
      simp [h1, h2, ← hd]
    exact hrec

/-- the scan predicate of SplitPathVersion: a digit or a dot -/
def splitDigDot (c : UInt8) : Bool := Module.isDigit c || c == 46

theorem SplitPathVersion_loop1_spec : ∀ (r tail : Bytes) (fuel : Nat) (dot : Bool), r.length < fuel →
    Generated.Module.SplitPathVersion_loop1 (r.reverse ++ tail) fuel dot (r.length : Int)
      = .ok (dot || (r.takeWhile splitDigDot).contains 46, (((r.dropWhile splitDigDot).length : Nat) : Int)) := by
  intro r
  induction r with
  | nil =>
    intro tail fuel dot hf
    obtain ⟨f, rfl⟩ : ∃ f, fuel = f + 1 := ⟨fuel - 1, by simp only [List.length_nil] at hf; omega⟩
    simp [Generated.Module.SplitPathVersion_loop1]
  | cons c r ih =>
    intro tail fuel dot hf
    obtain ⟨f, rfl⟩ : ∃ f, fuel = f + 1 := ⟨fuel - 1, by simp at hf; omega⟩
    have hpos : (((c :: r).length : Nat) : Int) > 0 := by simp only [List.length_cons]; omega
    have hrec := fun d => ih (c :: tail) f d (by simp at hf; omega)
    have hpath : (c :: r).reverse ++ tail = r.reverse ++ c :: tail := by simp
    have hi : (((c :: r).length : Nat) : Int) - 1 = ((r.length : Nat) : Int) := by simp
    unfold Generated.Module.SplitPathVersion_loop1
    simp only [hpos, decide_true, if_true, splitIdxPrev, bind_ok, pure_eq_ok]
    by_cases h3 : c = 46
    · subst h3
      simp [splitDigDot, hrec]
    · have hd := splitDigitTest c
      have he := byte_eq_int (n := 46) (d := 46) (c := c) rfl
      have h3' : ¬ (46 = c) := fun h => h3 h.symm
      by_cases h1 : (48 : Int) ≤ ((c.toNat : Nat) : Int) <;> by_cases h2 : ((c.toNat : Nat) : Int) ≤ (57 : Int) <;>
        simp only [h1, h2, decide_true, decide_false, Bool.and_self, Bool.and_false, Bool.false_and] at hd <;>
        simp [h1, h2, h3, h3', he, splitDigDot, ← hd, hrec]

/-! ### splitGopkgIn -/

/-- the part of `splitGopkgIn` after the scan: `end_` is the index where the scan started, `i` where it stopped
    (a verbatim copy of the generated text; `splitGopkgIn_unfold` below checks that by `rfl`) -/
def splitGopkgPost (path : Bytes) (end_ i : Int) : M (Bytes × Bytes × Bool) := do
  let t6 ← (if ((decide (i = end_)) || (decide (i ≤ (1 : Int)))) then pure true else (do
    let t5 ← idx path (i - (1 : Int))
    pure (!decide (t5 = (118 : Int)))))
  let t8 ← (if t6 then pure true else (do
    let t7 ← idx path (i - (2 : Int))
    pure (!decide (t7 = (46 : Int)))))
  if t8 then (pure (path, ([] : Bytes), false)) else (do
    let t9 ← sliceTo path (i - (2 : Int))
    let a10 := t9
    let t11 ← sliceFrom path (i - (2 : Int))
    let a12 := t11
    let prefix_ := a10
    let pathMajor := a12
    let t14 ← (if (decide ((len pathMajor) ≤ (2 : Int))) then pure true else (do
      let t13 ← idx pathMajor (2 : Int)
      pure ((decide (t13 = (48 : Int))) && (!decide (pathMajor = ([46, 118, 48] : Bytes))))))
    if t14 then (pure (path, ([] : Bytes), false)) else (pure (prefix_, pathMajor, true)))

theorem splitGopkgIn_unfold (fuel : Nat) (path : Bytes) :
    Generated.Module.splitGopkgIn fuel path =
      if (!(hasPrefix path ([103, 111, 112, 107, 103, 46, 105, 110, 47] : Bytes))) then .ok (path, ([] : Bytes), false)
      else if (hasSuffix path ([45, 117, 110, 115, 116, 97, 98, 108, 101] : Bytes)) then
        (Generated.Module.splitGopkgIn_loop1 path fuel (len path - 9) >>= splitGopkgPost path (len path - 9))
      else
        (Generated.Module.splitGopkgIn_loop1 path fuel (len path) >>= splitGopkgPost path (len path)) := rfl

theorem splitPostIdx2 (p X : Bytes) (a b : UInt8) (i : Int) (hi : i = (p.length : Int) + 2) :
    idx (p ++ b :: a :: X) (i - 2) = .ok ((b.toNat : Nat) : Int) := by
  have h : i - 2 = ((p.length : Nat) : Int) := by omega
  rw [h, idx_append_length]

theorem splitPostIdx1 (p X : Bytes) (a b : UInt8) (i : Int) (hi : i = (p.length : Int) + 2) :
    idx (p ++ b :: a :: X) (i - 1) = .ok ((a.toNat : Nat) : Int) := by
  have h : i - 1 = (((p ++ [b]).length : Nat) : Int) := by simp; omega
  have h2 : p ++ b :: a :: X = (p ++ [b]) ++ a :: X := by simp
  rw [h, h2, idx_append_length]

theorem splitPostTo (p X : Bytes) (i : Int) (hi : i = (p.length : Int) + 2) :
    sliceTo (p ++ X) (i - 2) = .ok p := by
  have h : i - 2 = ((p.length : Nat) : Int) := by omega
  rw [h, sliceTo_natCast (by simp)]; simp

theorem splitPostFrom (p X : Bytes) (i : Int) (hi : i = (p.length : Int) + 2) :
    sliceFrom (p ++ X) (i - 2) = .ok X := by
  have h : i - 2 = ((p.length : Nat) : Int) := by omega
  rw [h, sliceFrom_natCast (by simp)]; simp

theorem splitIdxTwo (a b : UInt8) (X : Bytes) : idx (b :: a :: X) 2 = idx X 0 := by
  have := idx_succ_cons b (a :: X) 1
  have h2 := idx_succ_cons a X 0
  simp only [Int.natCast_one, Int.natCast_zero, Int.zero_add] at this h2
  rw [← h2, ← this]; rfl

/-- the model's view of the same part: `digs` are the scanned digits (reversed), `rest` the reversed remainder -/
def splitGopkgModelPost (path digs rest tail : Bytes) : Bytes × Bytes × Bool :=
  if digs.isEmpty then (path, [], false) else
  match rest with
  | 118 :: 46 :: pre =>
    let pathMajor := 46 :: 118 :: (digs.reverse ++ tail)
    if pathMajor.length ≤ 2 || (pathMajor[2]? == some 48 && pathMajor != B ".v0") then (path, [], false)
    else (pre.reverse, pathMajor, true)
  | _ => (path, [], false)

theorem splitB_v0 : B ".v0" = [46, 118, 48] := by decide +kernel

theorem splitGopkgPost_spec (digs rest tail : Bytes) :
    splitGopkgPost (rest.reverse ++ (digs.reverse ++ tail)) ((digs.length + rest.length : Nat) : Int) (rest.length : Int)
      = .ok (splitGopkgModelPost (rest.reverse ++ (digs.reverse ++ tail)) digs rest tail) := by
  cases digs with
  | nil => simp [splitGopkgPost, splitGopkgModelPost]
  | cons d ds =>
    have hne : ¬ ((rest.length : Int) = (((d :: ds).length + rest.length : Nat) : Int)) := by simp; omega
    have hX : (d :: ds).reverse ++ tail ≠ [] := by simp
    simp only [splitGopkgModelPost, List.isEmpty_cons, Bool.false_eq_true, if_false]
    generalize (d :: ds).reverse ++ tail = X at hX
    rcases rest with _ | ⟨a, _ | ⟨b, pre⟩⟩
    · simp [splitGopkgPost]
    · simp [splitGopkgPost]
    · have hi : (((a :: b :: pre).length : Nat) : Int) = (pre.reverse.length : Int) + 2 := by simp; omega
      have hpath : (a :: b :: pre).reverse ++ X = pre.reverse ++ b :: a :: X := by simp
      have hle : ¬ ((((a :: b :: pre).length : Nat) : Int) ≤ 1) := by simp; omega
      rw [hpath]
      unfold splitGopkgPost
      simp only [hne, hle, decide_false, Bool.or_self, Bool.false_eq_true, if_false,
        splitPostIdx1 _ _ _ _ _ hi, splitPostIdx2 _ _ _ _ _ hi, splitPostTo _ _ _ hi, splitPostFrom _ _ _ hi,
        bind_ok, pure_eq_ok, byte_eq_int (n := 118) (d := 118) rfl, byte_eq_int (n := 46) (d := 46) rfl]
      rcases X with _ | ⟨x, xs⟩
      · exact absurd rfl hX
      · have hlen : ¬ (len (b :: a :: x :: xs) ≤ 2) := by simp [len_eq]; omega
        by_cases ha : a = 118
        · by_cases hb : b = 46
          · subst ha; subst hb
            simp only [hlen, splitIdxTwo, idx_zero_cons, bind_ok, splitB_v0, byte_eq_int (n := 48) (d := 48) rfl]
            by_cases hx : x = 48 <;> cases xs <;> simp [hx]
          · simp [ha, hb]
        · simp [ha]

theorem splitB_gopkg : B "gopkg.in/" = [103, 111, 112, 107, 103, 46, 105, 110, 47] := by decide +kernel
theorem splitB_unstable : B "-unstable" = [45, 117, 110, 115, 116, 97, 98, 108, 101] := by decide +kernel

theorem splitSuffix_decomp (path suf : Bytes) (h : hasSuffixB path suf = true) :
    path = (path.reverse.drop suf.length).reverse ++ suf := by
  obtain ⟨t, ht⟩ := (Module.isPrefixOfB_iff _ _).mp h
  have h1 : path.reverse.drop suf.length = t := by
    rw [ht, ← List.length_reverse (as := suf)]; simp
  have h2 := congrArg List.reverse ht
  rw [h1]; simpa using h2

/-- the scan and the rest of the function, for `path = rev1.reverse ++ tail` scanned from `rev1.length` -/
theorem splitGopkgScan_spec (rev1 tail : Bytes) (fuel : Nat) (hf : rev1.length < fuel) :
    (Generated.Module.splitGopkgIn_loop1 (rev1.reverse ++ tail) fuel (rev1.length : Int)
        >>= splitGopkgPost (rev1.reverse ++ tail) (rev1.length : Int))
      = .ok (splitGopkgModelPost (rev1.reverse ++ tail) (rev1.takeWhile Module.isDigit)
          (rev1.dropWhile Module.isDigit) tail) := by
  rw [splitGopkgIn_loop1_spec rev1 tail fuel hf, bind_ok]
  have hsplit : rev1.takeWhile Module.isDigit ++ rev1.dropWhile Module.isDigit = rev1 :=
    List.takeWhile_append_dropWhile
  generalize rev1.takeWhile Module.isDigit = digs at hsplit
  generalize rev1.dropWhile Module.isDigit = rest at hsplit
  subst hsplit
  have := splitGopkgPost_spec digs rest tail
  simpa using this

theorem splitGopkgIn_spec (path : Bytes) (fuel : Nat) (hf : path.length + 1 ≤ fuel) :
    Generated.Module.splitGopkgIn fuel path = .ok (Module.splitGopkgIn path) := by
  rw [splitGopkgIn_unfold]
  unfold Module.splitGopkgIn
  simp only [hasPrefix, hasSuffix, ← splitB_gopkg, ← splitB_unstable]
  by_cases hp : isPrefixOfB (B "gopkg.in/") path = true
  · simp only [hp, Bool.not_true, Bool.false_eq_true, if_false]
    by_cases hu : hasSuffixB path (B "-unstable") = true
    · have hdec := splitSuffix_decomp path _ hu
      have hl9 : (B "-unstable").length = 9 := by decide +kernel
      rw [hl9] at hdec
      have hlen : len path - 9 = (((path.reverse.drop 9).length : Nat) : Int) := by
        have := congrArg List.length hdec
        simp only [List.length_append, hl9, List.length_reverse] at this
        simp only [len_eq]; omega
      have hs := splitGopkgScan_spec (path.reverse.drop 9) (B "-unstable") fuel (by simp; omega)
      rw [← hdec, ← hlen] at hs
      simp only [hu, if_true, hs]
      rfl
    · have hs := splitGopkgScan_spec path.reverse [] fuel (by simp; omega)
      simp only [List.reverse_reverse, List.append_nil, List.length_reverse] at hs
      simp only [hu, Bool.false_eq_true, if_false, len_eq, hs]
      rfl
  · simp [hp]

/-! ### SplitPathVersion -/

/-- the part of `SplitPathVersion` after the scan (a verbatim copy of the generated text; `SplitPathVersion_unfold`
    below checks that by `rfl`) -/
def splitPVPost (path : Bytes) (dot : Bool) (i : Int) : M (Bytes × Bytes × Bool) := do
  let t10 ← (if ((decide (i ≤ (1 : Int))) || (decide (i = (len path)))) then pure true else (do
    let t9 ← idx path (i - (1 : Int))
    pure (!decide (t9 = (118 : Int)))))
  let t12 ← (if t10 then pure true else (do
    let t11 ← idx path (i - (2 : Int))
    pure (!decide (t11 = (47 : Int)))))
  if t12 then (pure (path, ([] : Bytes), true)) else (do
    let t13 ← sliceTo path (i - (2 : Int))
    let a14 := t13
    let t15 ← sliceFrom path (i - (2 : Int))
    let a16 := t15
    let prefix_ := a14
    let pathMajor := a16
    let t18 ← (if (dot || (decide ((len pathMajor) ≤ (2 : Int)))) then pure true else (do
      let t17 ← idx pathMajor (2 : Int)
      pure (decide (t17 = (48 : Int)))))
    if (t18 || (decide (pathMajor = ([47, 118, 49] : Bytes)))) then (pure (path, ([] : Bytes), false)) else (pure (prefix_, pathMajor, true)))

theorem SplitPathVersion_unfold (fuel : Nat) (path : Bytes) :
    Generated.Module.SplitPathVersion fuel path =
      if (hasPrefix path ([103, 111, 112, 107, 103, 46, 105, 110, 47] : Bytes)) then
        Generated.Module.splitGopkgIn fuel path
      else
        (Generated.Module.SplitPathVersion_loop1 path fuel false (len path) >>= fun x => splitPVPost path x.1 x.2) := rfl

/-- the model's view of the same part: `tl` is the scanned tail (reversed), `rest` the reversed remainder -/
def splitPVModelPost (path tl rest : Bytes) (dot : Bool) : Bytes × Bytes × Bool :=
  if tl.isEmpty then (path, [], true) else
  match rest with
  | 118 :: 47 :: pre =>
    let pathMajor := 47 :: 118 :: tl.reverse
    if dot || pathMajor.length ≤ 2 || pathMajor[2]? == some 48 || pathMajor == B "/v1" then (path, [], false)
    else (pre.reverse, pathMajor, true)
  | _ => (path, [], true)

theorem splitB_v1 : B "/v1" = [47, 118, 49] := by decide +kernel

theorem splitPVPost_spec (tl rest : Bytes) (dot : Bool) :
    splitPVPost (rest.reverse ++ tl.reverse) dot (rest.length : Int)
      = .ok (splitPVModelPost (rest.reverse ++ tl.reverse) tl rest dot) := by
  cases tl with
  | nil => simp [splitPVPost, splitPVModelPost, len_eq]
  | cons d ds =>
    have hne : ¬ ((rest.length : Int) = len (rest.reverse ++ (d :: ds).reverse)) := by simp [len_eq]; omega
    have hX : (d :: ds).reverse ≠ [] := by simp
    simp only [splitPVModelPost, List.isEmpty_cons, Bool.false_eq_true, if_false]
    generalize (d :: ds).reverse = X at hX hne
    rcases rest with _ | ⟨a, _ | ⟨b, pre⟩⟩
    · simp [splitPVPost]
    · simp [splitPVPost]
    · have hi : (((a :: b :: pre).length : Nat) : Int) = (pre.reverse.length : Int) + 2 := by simp; omega
      have hpath : (a :: b :: pre).reverse ++ X = pre.reverse ++ b :: a :: X := by simp
      have hle : ¬ ((((a :: b :: pre).length : Nat) : Int) ≤ 1) := by simp; omega
      rw [hpath] at hne ⊢
      unfold splitPVPost
      simp only [hne, hle, decide_false, Bool.or_self, Bool.false_eq_true, if_false,
        splitPostIdx1 _ _ _ _ _ hi, splitPostIdx2 _ _ _ _ _ hi, splitPostTo _ _ _ hi, splitPostFrom _ _ _ hi,
        bind_ok, pure_eq_ok, byte_eq_int (n := 118) (d := 118) rfl, byte_eq_int (n := 47) (d := 47) rfl]
      rcases X with _ | ⟨x, xs⟩
      · exact absurd rfl hX
      · have hlen : ¬ (len (b :: a :: x :: xs) ≤ 2) := by simp [len_eq]; omega
        by_cases ha : a = 118
        · by_cases hb : b = 47
          · subst ha; subst hb
            simp only [hlen, splitIdxTwo, idx_zero_cons, bind_ok, splitB_v1, byte_eq_int (n := 48) (d := 48) rfl]
            cases dot <;> by_cases hx : x = 48 <;> by_cases hy : x = 49 <;> cases xs <;> simp [hx, hy]
          · simp [ha, hb]
        · simp [ha]

theorem SplitPathVersion_spec (path : Bytes) (fuel : Nat) (hf : path.length + 1 ≤ fuel) :
    Generated.Module.SplitPathVersion fuel path = .ok (Module.splitPathVersion path) := by
  rw [SplitPathVersion_unfold]
  unfold Module.splitPathVersion
  simp only [hasPrefix, ← splitB_gopkg]
  by_cases hp : isPrefixOfB (B "gopkg.in/") path = true
  · simp only [hp, if_true]
    exact splitGopkgIn_spec path fuel hf
  · simp only [hp, Bool.false_eq_true, if_false]
    have hl := SplitPathVersion_loop1_spec path.reverse [] fuel false (by simp; omega)
    simp only [List.reverse_reverse, List.append_nil, List.length_reverse, Bool.false_or] at hl
    rw [len_eq, hl, bind_ok]
    have hfun : (fun c => Module.isDigit c || c == 46) = splitDigDot := rfl
    simp only [hfun]
    have hsplit : path.reverse.takeWhile splitDigDot ++ path.reverse.dropWhile splitDigDot = path.reverse :=
      List.takeWhile_append_dropWhile
    have hpath : path = (path.reverse.dropWhile splitDigDot).reverse ++ (path.reverse.takeWhile splitDigDot).reverse := by
      have := congrArg List.reverse hsplit
      rw [List.reverse_append, List.reverse_reverse] at this
      exact this.symm
    have := splitPVPost_spec (path.reverse.takeWhile splitDigDot) (path.reverse.dropWhile splitDigDot)
      ((path.reverse.takeWhile splitDigDot).contains 46)
    rw [← hpath] at this
    rw [this]
    rfl

/-! ### non-vacuity -/

example : Generated.Module.splitGopkgIn 40 (B "gopkg.in/yaml.v2") = .ok (B "gopkg.in/yaml", B ".v2", true) := by
  decide +kernel

example : Generated.Module.splitGopkgIn 40 (B "gopkg.in/yaml.v2-unstable")
    = .ok (B "gopkg.in/yaml", B ".v2-unstable", true) := by
  decide +kernel

example : Module.splitGopkgIn (B "gopkg.in/yaml.v2-unstable") = (B "gopkg.in/yaml", B ".v2-unstable", true) := by
  decide +kernel

example : Generated.Module.SplitPathVersion 40 (B "example.com/m/v2") = .ok (B "example.com/m", B "/v2", true) := by
  decide +kernel

example : Module.splitPathVersion (B "example.com/m/v2") = (B "example.com/m", B "/v2", true) := by
  decide +kernel

example : Generated.Module.SplitPathVersion 40 (B "example.com/m/v1.2") = .ok (B "example.com/m/v1.2", [], false) := by
  decide +kernel

/-- as in Go: `.v0-unstable` is rejected (`pathMajor[2] == '0' && pathMajor != ".v0"`) -/
example : Generated.Module.SplitPathVersion 40 (B "gopkg.in/yaml.v0-unstable")
    = .ok (B "gopkg.in/yaml.v0-unstable", [], false) := by
  decide +kernel

example : Generated.Module.SplitPathVersion 40 (B "gopkg.in/yaml.v3-unstable")
    = .ok (B "gopkg.in/yaml", B ".v3-unstable", true) := by
  decide +kernel

end ModVerif.TieFnModule
