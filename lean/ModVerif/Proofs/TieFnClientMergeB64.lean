/-
  The two models of `base64.StdEncoding.DecodeString` in the framework agree on every input:
  `Base64.decodeStd` (Basic/Base64.lean, used by the tlog note model `TlogNote.parseTree`) and `B64.b64dec`
  (Basic/Base64Note.lean, used by the note model `Note.Open` / `Note.NewVerifier`).  The regenerated sumdb client has ONE
  `b64dec` parameter for both `note.Open` and `tlog.ParseTree`; this equality lets one instantiation serve both ties.
  Core Lean only.
-/
import ModVerif.Basic.Base64
import ModVerif.Basic.Base64Note
namespace ModVerif.TieFnClientMerge
open ModVerif

/-- drop every '\r' and '\n' -/
def noNL (s : Bytes) : Bytes := s.filter fun c => !B64.isCRLF c

theorem isNL_eq (c : UInt8) : Base64.isNL c = B64.isCRLF c := rfl

theorem decChar_eq (c : UInt8) : Base64.decChar c = B64.decChar c := rfl

theorem decChar_lt {c : UInt8} {v : Nat} (h : B64.decChar c = some v) : v < 64 := by
  unfold B64.decChar at h
  simp only at h
  split at h
  · injection h with h; omega
  · split at h
    · injection h with h; omega
    · split at h
      · injection h with h; omega
      · split at h
        · injection h with h; omega
        · split at h
          · injection h with h; omega
          · cases h

theorem decChar_nl {c : UInt8} (h : B64.isCRLF c = true) : B64.decChar c = none := by
  have : c = 10 ∨ c = 13 := by simpa [B64.isCRLF] using h
  rcases this with h | h <;> subst h <;> decide

theorem decChar_pad : B64.decChar 61 = none := by decide

/-! ### skipNL against the filter -/

theorem skipNL_noNL (r : Bytes) : Base64.skipNL (noNL r) = noNL r := by
  induction r with
  | nil => rfl
  | cons c rest ih =>
    by_cases hc : B64.isCRLF c = true
    · simp [noNL, hc] at ih ⊢; exact ih
    · have hc' : B64.isCRLF c = false := by simpa using hc
      simp [noNL, hc', Base64.skipNL, isNL_eq]

theorem noNL_skipNL (r : Bytes) : noNL (Base64.skipNL r) = noNL r := by
  induction r with
  | nil => rfl
  | cons c rest ih =>
    by_cases hc : B64.isCRLF c = true
    · simp [noNL, Base64.skipNL, isNL_eq, hc] at ih ⊢; exact ih
    · have hc' : B64.isCRLF c = false := by simpa using hc
      simp [Base64.skipNL, isNL_eq, hc']

theorem skipNL_head {r : Bytes} {d : UInt8} {r' : Bytes} (h : Base64.skipNL r = d :: r') : B64.isCRLF d = false := by
  induction r with
  | nil => simp [Base64.skipNL] at h
  | cons c rest ih =>
    by_cases hc : B64.isCRLF c = true
    · simp [Base64.skipNL, isNL_eq, hc] at h; exact ih h
    · have hc' : B64.isCRLF c = false := by simpa using hc
      simp [Base64.skipNL, isNL_eq, hc'] at h
      rw [← h.1]; exact hc'

theorem skipNL_nil_iff (r : Bytes) : Base64.skipNL r = [] ↔ noNL r = [] := by
  constructor
  · intro h; rw [← noNL_skipNL, h]; rfl
  · intro h
    cases hs : Base64.skipNL r with
    | nil => rfl
    | cons d r' =>
      have hd := skipNL_head hs
      have := noNL_skipNL r
      rw [hs, h] at this
      simp [noNL, hd] at this

theorem skipNL_isEmpty (r : Bytes) : (Base64.skipNL r).isEmpty = (noNL r).isEmpty := by
  have := skipNL_nil_iff r
  cases h1 : Base64.skipNL r <;> cases h2 : noNL r <;> simp_all

/-! ### newlines may be dropped beforehand -/

theorem decodeAux_noNL (s : Bytes) : ∀ q, Base64.decodeAux true s q = Base64.decodeAux true (noNL s) q := by
  induction s with
  | nil => intro q; rfl
  | cons c rest ih =>
    intro q
    cases hd : B64.decChar c with
    | some v =>
      have hnl : B64.isCRLF c = false := by
        cases h : B64.isCRLF c with
        | false => rfl
        | true => rw [decChar_nl h] at hd; cases hd
      have hf : noNL (c :: rest) = c :: noNL rest := by simp [noNL, hnl]
      rw [hf]
      simp only [Base64.decodeAux, decChar_eq, hd]
      split
      · rw [ih]
      · rw [ih]
    | none =>
      by_cases hnl : B64.isCRLF c = true
      · have hf : noNL (c :: rest) = noNL rest := by simp [noNL, hnl]
        rw [hf]
        simp only [Base64.decodeAux, decChar_eq, hd, isNL_eq, hnl, if_true]
        exact ih q
      · have hnl' : B64.isCRLF c = false := by simpa using hnl
        have hf : noNL (c :: rest) = c :: noNL rest := by simp [noNL, hnl']
        rw [hf]
        simp only [Base64.decodeAux, decChar_eq, hd, isNL_eq, hnl', Bool.false_eq_true, if_false]
        split
        · rfl
        · split
          · rfl
          · split
            · -- two sextets: `==` must follow
              cases hs : Base64.skipNL rest with
              | nil =>
                have : noNL rest = [] := (skipNL_nil_iff rest).1 hs
                simp [this, Base64.skipNL]
              | cons d r' =>
                have hdn := skipNL_head hs
                have h1 : noNL rest = d :: noNL r' := by
                  rw [← noNL_skipNL rest, hs]; simp [noNL, hdn]
                have h2 : Base64.skipNL (noNL rest) = d :: noNL r' := by rw [skipNL_noNL, h1]
                rw [h2]
                simp only [skipNL_isEmpty, skipNL_noNL]
            · simp only [skipNL_isEmpty, skipNL_noNL]

/-! ### on newline-free input, quantum by quantum -/

def NLFree (t : Bytes) : Prop := ∀ c ∈ t, B64.isCRLF c = false

theorem skipNL_of_free {t : Bytes} (h : NLFree t) : Base64.skipNL t = t := by
  cases t with
  | nil => rfl
  | cons c rest => simp [Base64.skipNL, isNL_eq, h c (by simp)]

theorem nlfree_noNL (s : Bytes) : NLFree (noNL s) := by
  intro c hc
  simp [noNL] at hc
  simpa using hc.2

theorem emit4 {a b c d : Nat} (_ha : a < 64) (_hb : b < 64) (hc : c < 64) (hd : d < 64) :
    Base64.emit [a, b, c, d] =
      [UInt8.ofNat (a * 4 + b / 16), UInt8.ofNat (b % 16 * 16 + c / 4), UInt8.ofNat (c % 4 * 64 + d)] := by
  simp only [Base64.emit]
  have h1 : (a * 262144 + b * 4096 + c * 64 + d) / 65536 = a * 4 + b / 16 := by omega
  have h2 : (a * 262144 + b * 4096 + c * 64 + d) / 256 % 256 = b % 16 * 16 + c / 4 := by omega
  have h3 : (a * 262144 + b * 4096 + c * 64 + d) % 256 = c % 4 * 64 + d := by omega
  rw [h1, h2, h3]

theorem emit3 {a b c : Nat} (_ha : a < 64) (_hb : b < 64) (hc : c < 64) :
    Base64.emit [a, b, c] = [UInt8.ofNat (a * 4 + b / 16), UInt8.ofNat (b % 16 * 16 + c / 4)] := by
  simp only [Base64.emit]
  have h1 : (a * 262144 + b * 4096 + c * 64) / 65536 = a * 4 + b / 16 := by omega
  have h2 : (a * 262144 + b * 4096 + c * 64) / 256 % 256 = b % 16 * 16 + c / 4 := by omega
  rw [h1, h2]

theorem emit2 {a b : Nat} (_ha : a < 64) (_hb : b < 64) :
    Base64.emit [a, b] = [UInt8.ofNat (a * 4 + b / 16)] := by
  simp only [Base64.emit]
  have h1 : (a * 262144 + b * 4096) / 65536 = a * 4 + b / 16 := by omega
  rw [h1]

/-- a byte that is neither in the alphabet nor a newline, with fewer than two sextets collected: error -/
theorem decodeAux_bad_lt2 (c : UInt8) (rest : Bytes) (q : List Nat) (hd : B64.decChar c = none)
    (hn : B64.isCRLF c = false) (hq : q.length < 2) : Base64.decodeAux true (c :: rest) q = none := by
  simp only [Base64.decodeAux, decChar_eq, hd, isNL_eq, hn, Bool.false_eq_true, if_false]
  split
  · rfl
  · simp

theorem decodeAux_free : ∀ (n : Nat) (t : Bytes), t.length ≤ n → NLFree t → Base64.decodeAux true t [] = B64.decCore t := by
  intro n
  induction n with
  | zero =>
    intro t hl _
    have : t = [] := List.eq_nil_of_length_eq_zero (by omega)
    subst this; simp [Base64.decodeAux, B64.decCore]
  | succ n ih =>
    intro t hl hfree
    match t, hl, hfree with
    | [], _, _ => simp [Base64.decodeAux, B64.decCore]
    | [c0], _, hfree =>
      have hn0 := hfree c0 (by simp)
      cases h0 : B64.decChar c0 with
      | none => rw [decodeAux_bad_lt2 c0 [] [] h0 hn0 (by simp)]; simp [B64.decCore]
      | some v0 => simp [Base64.decodeAux, decChar_eq, h0, B64.decCore]
    | [c0, c1], _, hfree =>
      have hn0 := hfree c0 (by simp)
      have hn1 := hfree c1 (by simp)
      cases h0 : B64.decChar c0 with
      | none => rw [decodeAux_bad_lt2 c0 _ [] h0 hn0 (by simp)]; simp [B64.decCore]
      | some v0 =>
        cases h1 : B64.decChar c1 with
        | none =>
          have := decodeAux_bad_lt2 c1 [] [v0] h1 hn1 (by simp)
          simp [Base64.decodeAux, decChar_eq, h0, B64.decCore] at this ⊢
          exact this
        | some v1 => simp [Base64.decodeAux, decChar_eq, h0, h1, B64.decCore]
    | [c0, c1, c2], _, hfree =>
      have hn0 := hfree c0 (by simp)
      have hn1 := hfree c1 (by simp)
      have hn2 := hfree c2 (by simp)
      cases h0 : B64.decChar c0 with
      | none => rw [decodeAux_bad_lt2 c0 _ [] h0 hn0 (by simp)]; simp [B64.decCore]
      | some v0 =>
        cases h1 : B64.decChar c1 with
        | none =>
          have := decodeAux_bad_lt2 c1 [c2] [v0] h1 hn1 (by simp)
          simp [Base64.decodeAux, decChar_eq, h0, B64.decCore] at this ⊢
          exact this
        | some v1 =>
          cases h2 : B64.decChar c2 with
          | some v2 => simp [Base64.decodeAux, decChar_eq, h0, h1, h2, B64.decCore]
          | none =>
            simp [Base64.decodeAux, decChar_eq, h0, h1, h2, B64.decCore, isNL_eq, hn2, Base64.skipNL]
    | c0 :: c1 :: c2 :: c3 :: rest, hl, hfree =>
      have hn0 := hfree c0 (by simp)
      have hn1 := hfree c1 (by simp)
      have hn2 := hfree c2 (by simp)
      have hn3 := hfree c3 (by simp)
      have hfr : NLFree rest := fun c hc => hfree c (by simp [hc])
      have hsk : Base64.skipNL rest = rest := skipNL_of_free hfr
      have hrec : Base64.decodeAux true rest [] = B64.decCore rest := ih rest (by simp at hl; omega) hfr
      cases h0 : B64.decChar c0 with
      | none => rw [decodeAux_bad_lt2 c0 _ [] h0 hn0 (by simp)]; simp [B64.decCore, h0]
      | some v0 =>
        have b0 := decChar_lt h0
        cases h1 : B64.decChar c1 with
        | none =>
          have := decodeAux_bad_lt2 c1 (c2 :: c3 :: rest) [v0] h1 hn1 (by simp)
          simp [Base64.decodeAux, decChar_eq, h0, B64.decCore, h1] at this ⊢
          exact this
        | some v1 =>
          have b1 := decChar_lt h1
          cases h2 : B64.decChar c2 with
          | some v2 =>
            have b2 := decChar_lt h2
            cases h3 : B64.decChar c3 with
            | some v3 =>
              have b3 := decChar_lt h3
              simp only [Base64.decodeAux, decChar_eq, h0, h1, h2, h3, B64.decCore, List.nil_append, List.length_nil,
                List.length_cons, List.cons_append]
              simp only [show ((0 : Nat) == 3) = false from rfl, show ((0 + 1 : Nat) == 3) = false from rfl,
                show ((0 + 1 + 1 : Nat) == 3) = false from rfl, show ((0 + 1 + 1 + 1 : Nat) == 3) = true from rfl,
                Bool.false_eq_true, if_false, if_true, hrec, emit4 b0 b1 b2 b3]
              cases B64.decCore rest <;> simp
            | none =>
              simp only [Base64.decodeAux, decChar_eq, h0, h1, h2, h3, B64.decCore, List.nil_append, List.length_nil,
                List.length_cons, List.cons_append, isNL_eq, hn3, hsk, emit3 b0 b1 b2]
              simp only [show ((0 : Nat) == 3) = false from rfl, show ((0 + 1 : Nat) == 3) = false from rfl,
                show ((0 + 1 + 1 : Nat) == 3) = false from rfl, Bool.false_eq_true, if_false]
              by_cases hp : c3 = 61
              · subst hp
                cases rest <;> simp [Base64.padChar, B64.pad]
              · simp [Base64.padChar, B64.pad, hp]
          | none =>
            simp only [Base64.decodeAux, decChar_eq, h0, h1, h2, B64.decCore, List.nil_append, List.length_nil,
              List.length_cons, List.cons_append, isNL_eq, hn2, emit2 b0 b1]
            simp only [show ((0 : Nat) == 3) = false from rfl, show ((0 + 1 : Nat) == 3) = false from rfl,
              Bool.false_eq_true, if_false]
            have hsk3 : Base64.skipNL (c3 :: rest) = c3 :: rest := by simp [Base64.skipNL, isNL_eq, hn3]
            rw [hsk3]
            simp only [hsk]
            by_cases hp : c2 = 61
            · subst hp
              by_cases hp3 : c3 = 61
              · subst hp3
                cases rest <;> simp [Base64.padChar, B64.pad]
              · simp [Base64.padChar, B64.pad, hp3]
            · simp [Base64.padChar, B64.pad, hp]

/-- ★ the two decoders are the same function -/
theorem decodeStd_eq_b64dec (s : Bytes) : Base64.decodeStd s = B64.b64dec s := by
  unfold Base64.decodeStd Base64.decode B64.b64dec
  rw [decodeAux_noNL]
  exact decodeAux_free _ (noNL s) (Nat.le_refl _) (nlfree_noNL s)

end ModVerif.TieFnClientMerge
