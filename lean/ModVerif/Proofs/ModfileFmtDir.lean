/-
  C02 stage 4, part c: directive values (go.mod).  Definitions — the values compared before and after
  formatting, the simulation relation between two `File.add` runs, well-formedness of a typed file —
  and the shape of one `File.add` step.
-/
import ModVerif.Model.Modfile.Rule
import ModVerif.Proofs.ModfileFmtQuoteUnquote
namespace ModVerif.Proofs.ModfileFmtDir
open ModVerif ModVerif.Modfile ModVerif.Proofs.ModfileFmtLex ModVerif.Proofs.ModfileFmtLine

/-- The directive values of a go.mod file: everything `File.add` derives from the tokens, without line
    identities.  (`Module.deprecated` and `Retract.rationale` are derived from comments, not from the
    directive's arguments, and are not part of the values.) -/
structure Values where
  module : Option Bytes
  go : Option Bytes
  toolchain : Option Bytes
  godebug : List (Bytes × Bytes)
  require : List (ModVersion × Bool)
  exclude : List ModVersion
  replace : List (ModVersion × ModVersion)
  retract : List VersionInterval
  tool : List Bytes
  deriving DecidableEq

def values (f : File) : Values :=
  { module := f.module.map (·.mod.path)
    go := f.go.map (·.version)
    toolchain := f.toolchain.map (·.name)
    godebug := f.godebug.map fun g => (g.key, g.value)
    require := f.require.map fun r => (r.mod, r.indirect)
    exclude := f.exclude.map (·.mod)
    replace := f.replace.map fun r => (r.old, r.new)
    retract := f.retract.map (·.interval)
    tool := f.tool.map (·.path) }

/-- two states of the directive layer with the same values and no errors -/
structure Sim (st st' : AddState) : Prop where
  vals : values st.file = values st'.file
  errs : st.errsRev = []
  errs' : st'.errsRev = []

/-- the version fixer is absent, or idempotent on its image (`fx p v = ok w → fx p w = ok w`) -/
def FixOK (fix : Option Fixer) : Prop :=
  fix = none ∨ ∃ fx, fix = some fx ∧ ∀ p v w, fx p v = .ok w → fx p w = .ok w

/-- no argument is a lone parenthesis and every argument is a line token -/
def ArgsTok (args : List Bytes) : Prop := ∀ t ∈ args, TokText t ∧ t ≠ [40] ∧ t ≠ [41]

theorem values_module_isSome {f g : File} (h : values f = values g) : f.module.isSome = g.module.isSome := by
  have := congrArg Values.module h
  simp only [values] at this
  cases hf : f.module <;> cases hg : g.module <;> simp_all

theorem values_go_isSome {f g : File} (h : values f = values g) : f.go.isSome = g.go.isSome := by
  have := congrArg Values.go h
  simp only [values] at this
  cases hf : f.go <;> cases hg : g.go <;> simp_all

theorem values_toolchain_isSome {f g : File} (h : values f = values g) : f.toolchain.isSome = g.toolchain.isSome := by
  have := congrArg Values.toolchain h
  simp only [values] at this
  cases hf : f.toolchain <;> cases hg : g.toolchain <;> simp_all

end ModVerif.Proofs.ModfileFmtDir
