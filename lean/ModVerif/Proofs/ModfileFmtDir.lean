/-
  C02 stage 4, part c: directive values (go.mod).  Definitions — the values compared before and after
  formatting, the simulation relation between two `File.add` runs, well-formedness of a typed file —
  and the shape of one `File.add` step.
-/
import ModVerif.Model.Modfile.Rule
import ModVerif.Proofs.ModfileFmtQuoteUnquote
import ModVerif.Proofs.ModfileFmtConserve
namespace ModVerif.Proofs.ModfileFmtDir
open ModVerif ModVerif.Modfile ModVerif.Proofs.ModfileFmtLex ModVerif.Proofs.ModfileFmtLine

/-- The directive values of a go.mod file: everything `File.add` derives from the tokens, without line
    identities.  (`Module.deprecated` and `Retract.rationale` are derived from comments, not from the
    directive's arguments, and are not part of the values.) -/
structure Values where
  module : Option Bytes
  go : Option Bytes
  toolchain : Option Bytes
  godebug : List (Bytes × Bytes)
  require : List (ModVersion × Bool)
  exclude : List ModVersion
  replace : List (ModVersion × ModVersion)
  retract : List VersionInterval
  tool : List Bytes

def values (f : Modfile.File) : Values :=
  { module := f.module.map (·.mod.path)
    go := f.go.map (·.version)
    toolchain := f.toolchain.map (·.name)
    godebug := f.godebug.map fun g => (g.key, g.value)
    require := f.require.map fun r => (r.mod, r.indirect)
    exclude := f.exclude.map (·.mod)
    replace := f.replace.map fun r => (r.old, r.new)
    retract := f.retract.map (·.interval)
    tool := f.tool.map (·.path) }

/-- two states of the directive layer with the same values and no errors -/
structure Sim (st st' : AddState) : Prop where
  vals : values st.file = values st'.file
  errs : st.errsRev = []
  errs' : st'.errsRev = []

/-- the version fixer is absent, or idempotent on its image (`fx p v = ok w → fx p w = ok w`) -/
def FixOK (fix : Option Fixer) : Prop :=
  fix = none ∨ ∃ fx, fix = some fx ∧ ∀ p v w, fx p v = .ok w → fx p w = .ok w

/-- no argument is a lone parenthesis and every argument is a line token -/
def ArgsTok (args : List Bytes) : Prop := ∀ t ∈ args, TokText t ∧ t ≠ [40] ∧ t ≠ [41]

theorem values_module_isSome {f g : Modfile.File} (h : values f = values g) : f.module.isSome = g.module.isSome := by
  have := congrArg Values.module h
  simp only [values] at this
  cases hf : f.module <;> cases hg : g.module <;> simp_all

theorem values_go_isSome {f g : Modfile.File} (h : values f = values g) : f.go.isSome = g.go.isSome := by
  have := congrArg Values.go h
  simp only [values] at this
  cases hf : f.go <;> cases hg : g.go <;> simp_all

theorem values_toolchain_isSome {f g : Modfile.File} (h : values f = values g) : f.toolchain.isSome = g.toolchain.isSome := by
  have := congrArg Values.toolchain h
  simp only [values] at this
  cases hf : f.toolchain <;> cases hg : g.toolchain <;> simp_all

/-! ### verbs are pairwise different -/

theorem verb_ne :
    (B "toolchain" == B "go") = false ∧ (B "module" == B "go") = false ∧ (B "module" == B "toolchain") = false ∧
    (B "godebug" == B "go") = false ∧ (B "godebug" == B "toolchain") = false ∧ (B "godebug" == B "module") = false ∧
    (B "require" == B "go") = false ∧ (B "require" == B "toolchain") = false ∧ (B "require" == B "module") = false ∧
    (B "require" == B "godebug") = false ∧
    (B "exclude" == B "go") = false ∧ (B "exclude" == B "toolchain") = false ∧ (B "exclude" == B "module") = false ∧
    (B "exclude" == B "godebug") = false ∧ (B "exclude" == B "require") = false ∧
    (B "replace" == B "go") = false ∧ (B "replace" == B "toolchain") = false ∧ (B "replace" == B "module") = false ∧
    (B "replace" == B "godebug") = false ∧ (B "replace" == B "require") = false ∧ (B "replace" == B "exclude") = false ∧
    (B "retract" == B "go") = false ∧ (B "retract" == B "toolchain") = false ∧ (B "retract" == B "module") = false ∧
    (B "retract" == B "godebug") = false ∧ (B "retract" == B "require") = false ∧ (B "retract" == B "exclude") = false ∧
    (B "retract" == B "replace") = false ∧
    (B "tool" == B "go") = false ∧ (B "tool" == B "toolchain") = false ∧ (B "tool" == B "module") = false ∧
    (B "tool" == B "godebug") = false ∧ (B "tool" == B "require") = false ∧ (B "tool" == B "exclude") = false ∧
    (B "tool" == B "replace") = false ∧ (B "tool" == B "retract") = false := by decide +kernel

/-- the result of one successful `File.add` step and its replay on the rewritten arguments -/
structure StepOK (st st1 : AddState) (verb : Bytes) (args1 : List Bytes) (fix : Option Fixer) : Prop where
  errs : st.errsRev = []
  replay : ∀ (st' : AddState) (block' : Option Comments) (l' : Line), Sim st st' → l'.comments.suffix = [] →
    ∃ st1', File.add st' block' l' verb args1 fix true = (st1', args1) ∧ Sim st1 st1'

theorem values_eq_iff (f g : Modfile.File) : values f = values g ↔
    f.module.map (·.mod.path) = g.module.map (·.mod.path) ∧ f.go.map (·.version) = g.go.map (·.version) ∧
    f.toolchain.map (·.name) = g.toolchain.map (·.name) ∧
    f.godebug.map (fun x => (x.key, x.value)) = g.godebug.map (fun x => (x.key, x.value)) ∧
    f.require.map (fun r => (r.mod, r.indirect)) = g.require.map (fun r => (r.mod, r.indirect)) ∧
    f.exclude.map (·.mod) = g.exclude.map (·.mod) ∧
    f.replace.map (fun r => (r.old, r.new)) = g.replace.map (fun r => (r.old, r.new)) ∧
    f.retract.map (·.interval) = g.retract.map (·.interval) ∧ f.tool.map (·.path) = g.tool.map (·.path) := by
  simp [values]

theorem err_ne_nil (st : AddState) (p : Position) (k : RuleErrKind) : (st.err p k).errsRev ≠ [] := by
  simp [AddState.err]

/-- `go` -/
theorem add_go (st st1 : AddState) (block : Option Comments) (l : Line) (args args1 : List Bytes) (fix : Option Fixer)
    (h : File.add st block l (B "go") args fix true = (st1, args1)) (he : st1.errsRev = []) :
    StepOK st st1 (B "go") args1 fix ∧ (∃ a, args1 = [a] ∧ args = args1 ∧ goVersionRE a = true ∧
      st1.file = { st.file with go := some { version := a, lineId := l.id } }) := by
  unfold File.add at h
  simp only [Bool.not_true, Bool.false_and, Bool.false_eq_true, if_false, beq_self_eq_true, if_true] at h
  split at h
  · simp only [Prod.mk.injEq] at h; obtain ⟨rfl, _⟩ := h; exact absurd he (err_ne_nil _ _ _)
  · rename_i hgo
    split at h
    · rename_i a
      split at h
      · rename_i hre
        simp only [Prod.mk.injEq] at h
        obtain ⟨rfl, rfl⟩ := h
        refine ⟨⟨he, ?_⟩, a, rfl, rfl, hre, rfl⟩
        intro st' block' l' hsim _
        have hgo' : st'.file.go.isSome = false := by
          rw [← values_go_isSome hsim.vals]; simpa using hgo
        refine ⟨{ st' with file := { st'.file with go := some { version := a, lineId := l'.id } } }, ?_, ?_⟩
        · unfold File.add
          simp only [Bool.not_true, Bool.false_and, Bool.false_eq_true, if_false, beq_self_eq_true, if_true, hgo', hre]
        · have hv := (values_eq_iff _ _).1 hsim.vals
          exact ⟨(values_eq_iff _ _).2 ⟨hv.1, rfl, hv.2.2⟩, he, hsim.errs'⟩
      · simp only [Prod.mk.injEq] at h; obtain ⟨rfl, _⟩ := h; exact absurd he (err_ne_nil _ _ _)
    · simp only [Prod.mk.injEq] at h; obtain ⟨rfl, _⟩ := h; exact absurd he (err_ne_nil _ _ _)

/-- `toolchain` -/
theorem add_toolchain (st st1 : AddState) (block : Option Comments) (l : Line) (args args1 : List Bytes)
    (fix : Option Fixer) (h : File.add st block l (B "toolchain") args fix true = (st1, args1))
    (he : st1.errsRev = []) :
    StepOK st st1 (B "toolchain") args1 fix ∧
      (∃ a, args1 = [a] ∧ args = args1 ∧ toolchainRE a = true ∧
        st1.file = { st.file with toolchain := some { name := a, lineId := l.id } }) := by
  unfold File.add at h
  simp only [Bool.not_true, Bool.false_and, Bool.false_eq_true, if_false, beq_self_eq_true, if_true, verb_ne.1] at h
  split at h
  · simp only [Prod.mk.injEq] at h; obtain ⟨rfl, _⟩ := h; exact absurd he (err_ne_nil _ _ _)
  · rename_i htc
    split at h
    · rename_i a
      split at h
      · simp only [Prod.mk.injEq] at h; obtain ⟨rfl, _⟩ := h; exact absurd he (err_ne_nil _ _ _)
      · rename_i hre
        have hre' : toolchainRE a = true := by simpa using hre
        simp only [Prod.mk.injEq] at h
        obtain ⟨rfl, rfl⟩ := h
        refine ⟨⟨he, ?_⟩, a, rfl, rfl, hre', rfl⟩
        intro st' block' l' hsim _
        have htc' : st'.file.toolchain.isSome = false := by
          rw [← values_toolchain_isSome hsim.vals]; simpa using htc
        refine ⟨{ st' with file := { st'.file with toolchain := some { name := a, lineId := l'.id } } }, ?_, ?_⟩
        · unfold File.add
          simp only [Bool.not_true, Bool.false_and, Bool.false_eq_true, if_false, beq_self_eq_true, if_true,
            verb_ne.1, htc', hre', Bool.not_true]
        · have hv := (values_eq_iff _ _).1 hsim.vals
          exact ⟨(values_eq_iff _ _).2 ⟨hv.1, hv.2.1, rfl, hv.2.2.2⟩, he, hsim.errs'⟩
    · simp only [Prod.mk.injEq] at h; obtain ⟨rfl, _⟩ := h; exact absurd he (err_ne_nil _ _ _)

/-- `godebug` -/
theorem add_godebug (st st1 : AddState) (block : Option Comments) (l : Line) (args args1 : List Bytes)
    (fix : Option Fixer) (h : File.add st block l (B "godebug") args fix true = (st1, args1))
    (he : st1.errsRev = []) :
    StepOK st st1 (B "godebug") args1 fix ∧
      (∃ k v, args = args1 ∧ addGodebug args1 = some (k, v) ∧
        st1.file = { st.file with godebug := st.file.godebug ++ [{ key := k, value := v, lineId := l.id }] }) := by
  unfold File.add at h
  simp only [Bool.not_true, Bool.false_and, Bool.false_eq_true, if_false, beq_self_eq_true, if_true, verb_ne.2.2.2.1,
    verb_ne.2.2.2.2.1, verb_ne.2.2.2.2.2.1] at h
  split at h
  · simp only [Prod.mk.injEq] at h; obtain ⟨rfl, _⟩ := h; exact absurd he (err_ne_nil _ _ _)
  · rename_i k v hg
    simp only [Prod.mk.injEq] at h
    obtain ⟨rfl, rfl⟩ := h
    refine ⟨⟨he, ?_⟩, k, v, rfl, hg, rfl⟩
    intro st' block' l' hsim _
    refine ⟨{ st' with file := { st'.file with godebug := st'.file.godebug ++ [{ key := k, value := v, lineId := l'.id }] } }, ?_, ?_⟩
    · unfold File.add
      simp only [Bool.not_true, Bool.false_and, Bool.false_eq_true, if_false, beq_self_eq_true, if_true,
        verb_ne.2.2.2.1, verb_ne.2.2.2.2.1, verb_ne.2.2.2.2.2.1, hg]
    · have hv := (values_eq_iff _ _).1 hsim.vals
      refine ⟨(values_eq_iff _ _).2 ⟨hv.1, hv.2.1, hv.2.2.1, ?_, hv.2.2.2.2⟩, he, hsim.errs'⟩
      simp [hv.2.2.2.1]

/-- `module` -/
theorem add_module (st st1 : AddState) (block : Option Comments) (l : Line) (args args1 : List Bytes)
    (fix : Option Fixer) (h : File.add st block l (B "module") args fix true = (st1, args1))
    (he : st1.errsRev = []) :
    StepOK st st1 (B "module") args1 fix ∧
      (∃ a s d, args = [a] ∧ parseString a = some (s, autoQuote s) ∧ args1 = [autoQuote s] ∧
        st1.file = { st.file with module := some { mod := { path := s }, deprecated := d, lineId := l.id } }) := by
  unfold File.add at h
  simp only [Bool.not_true, Bool.false_and, Bool.false_eq_true, if_false, beq_self_eq_true, if_true, verb_ne.2.1,
    verb_ne.2.2.1] at h
  split at h
  · simp only [Prod.mk.injEq] at h; obtain ⟨rfl, _⟩ := h; exact absurd he (err_ne_nil _ _ _)
  · rename_i hm
    split at h
    · rename_i a
      split at h
      · simp only [Prod.mk.injEq] at h; obtain ⟨rfl, _⟩ := h; exact absurd he (err_ne_nil _ _ _)
      · rename_i s a' hps
        simp only [Prod.mk.injEq] at h
        obtain ⟨rfl, rfl⟩ := h
        have ha' : a' = autoQuote s := by
          unfold parseString at hps
          split at hps
          · split at hps
            · cases hps
            · simp only [Option.some.injEq, Prod.mk.injEq] at hps; rw [← hps.1, ← hps.2]
          · split at hps
            · cases hps
            · simp only [Option.some.injEq, Prod.mk.injEq] at hps; rw [← hps.1, ← hps.2]
        subst ha'
        refine ⟨⟨he, ?_⟩, a, s, _, rfl, hps, rfl, rfl⟩
        intro st' block' l' hsim _
        have hm' : st'.file.module.isSome = false := by
          rw [← values_module_isSome hsim.vals]; simpa using hm
        let m' : Modfile.Module := { mod := { path := s }, deprecated := parseDeprecation block' l'.comments, lineId := l'.id }
        refine ⟨{ st' with file := { st'.file with module := some m' } }, ?_, ?_⟩
        · unfold File.add
          simp only [Bool.not_true, Bool.false_and, Bool.false_eq_true, if_false, beq_self_eq_true, if_true,
            verb_ne.2.1, verb_ne.2.2.1, hm', ModfileFmtQuote.parseString_autoQuote]
          rfl
        · have hv := (values_eq_iff _ _).1 hsim.vals
          exact ⟨(values_eq_iff _ _).2 ⟨rfl, hv.2⟩, he, hsim.errs'⟩
    · simp only [Prod.mk.injEq] at h; obtain ⟨rfl, _⟩ := h; exact absurd he (err_ne_nil _ _ _)

theorem parseString_tok {a s a' : Bytes} (h : parseString a = some (s, a')) : a' = autoQuote s := by
  unfold parseString at h
  split at h
  · split at h
    · cases h
    · simp only [Option.some.injEq, Prod.mk.injEq] at h; rw [← h.1, ← h.2]
  · split at h
    · cases h
    · simp only [Option.some.injEq, Prod.mk.injEq] at h; rw [← h.1, ← h.2]

/-- `tool` -/
theorem add_tool (st st1 : AddState) (block : Option Comments) (l : Line) (args args1 : List Bytes)
    (fix : Option Fixer) (h : File.add st block l (B "tool") args fix true = (st1, args1))
    (he : st1.errsRev = []) :
    StepOK st st1 (B "tool") args1 fix ∧
      (∃ a s, args = [a] ∧ parseString a = some (s, autoQuote s) ∧ args1 = [autoQuote s] ∧
        st1.file = { st.file with tool := st.file.tool ++ [{ path := s, lineId := l.id }] }) := by
  obtain ⟨v1, v2, v3, v4, v5, v6, v7, v8, v9, v10, v11, v12, v13, v14, v15, v16, v17, v18, v19, v20, v21, v22, v23,
    v24, v25, v26, v27, v28, v29, v30, v31, v32, v33, v34, v35, v36⟩ := verb_ne
  unfold File.add at h
  simp only [Bool.not_true, Bool.false_and, Bool.false_eq_true, if_false, beq_self_eq_true, if_true,
    v29, v30, v31, v32, v33, v34, v35, v36, Bool.or_self] at h
  split at h
  · rename_i a
    split at h
    · simp only [Prod.mk.injEq] at h; obtain ⟨rfl, _⟩ := h; exact absurd he (err_ne_nil _ _ _)
    · rename_i s a' hps
      simp only [Prod.mk.injEq] at h
      obtain ⟨rfl, rfl⟩ := h
      have ha' := parseString_tok hps
      subst ha'
      refine ⟨⟨he, ?_⟩, a, s, rfl, hps, rfl, rfl⟩
      intro st' block' l' hsim _
      refine ⟨{ st' with file := { st'.file with tool := st'.file.tool ++ [{ path := s, lineId := l'.id }] } }, ?_, ?_⟩
      · unfold File.add
        simp only [Bool.not_true, Bool.false_and, Bool.false_eq_true, if_false, beq_self_eq_true, if_true,
          v29, v30, v31, v32, v33, v34, v35, v36, Bool.or_self, ModfileFmtQuote.parseString_autoQuote]
      · have hv := (values_eq_iff _ _).1 hsim.vals
        refine ⟨(values_eq_iff _ _).2 ⟨hv.1, hv.2.1, hv.2.2.1, hv.2.2.2.1, hv.2.2.2.2.1, hv.2.2.2.2.2.1,
          hv.2.2.2.2.2.2.1, hv.2.2.2.2.2.2.2.1, ?_⟩, he, hsim.errs'⟩
        simp [hv.2.2.2.2.2.2.2.2]
  · simp only [Prod.mk.injEq] at h; obtain ⟨rfl, _⟩ := h; exact absurd he (err_ne_nil _ _ _)

/-! ### errors only accumulate -/

theorem add_errs_mono (st : AddState) (block : Option Comments) (l : Line) (verb : Bytes) (args : List Bytes)
    (fix : Option Fixer) (strict : Bool) :
    st.errsRev <:+ (File.add st block l verb args fix strict).1.errsRev := by
  unfold File.add
  dsimp only
  by_cases h0 : (!strict && !verbIn verb laxVerbs) = true
  · rw [if_pos h0]; exact List.suffix_refl _
  rw [if_neg h0]
  by_cases h1 : (verb == B "go") = true
  · rw [if_pos h1]
    repeat' (first | exact List.suffix_refl _ | exact List.suffix_cons _ _ | split)
  rw [if_neg h1]
  by_cases h2 : (verb == B "toolchain") = true
  · rw [if_pos h2]
    repeat' (first | exact List.suffix_refl _ | exact List.suffix_cons _ _ | split)
  rw [if_neg h2]
  by_cases h3 : (verb == B "module") = true
  · rw [if_pos h3]
    repeat' (first | exact List.suffix_refl _ | exact List.suffix_cons _ _ | split)
  rw [if_neg h3]
  by_cases h4 : (verb == B "godebug") = true
  · rw [if_pos h4]
    repeat' (first | exact List.suffix_refl _ | exact List.suffix_cons _ _ | split)
  rw [if_neg h4]
  by_cases h5 : (verb == B "require" || verb == B "exclude") = true
  · rw [if_pos h5]
    repeat' (first | exact List.suffix_refl _ | exact List.suffix_cons _ _ | split)
  rw [if_neg h5]
  by_cases h6 : (verb == B "replace") = true
  · rw [if_pos h6]
    repeat' (first | exact List.suffix_refl _ | exact List.suffix_cons _ _ | split)
  rw [if_neg h6]
  by_cases h7 : (verb == B "retract") = true
  · rw [if_pos h7]
    repeat' (first | exact List.suffix_refl _ | exact List.suffix_cons _ _ | split)
  rw [if_neg h7]
  by_cases h8 : (verb == B "tool") = true
  · rw [if_pos h8]
    repeat' (first | exact List.suffix_refl _ | exact List.suffix_cons _ _ | split)
  rw [if_neg h8]
  exact List.suffix_cons _ _

end ModVerif.Proofs.ModfileFmtDir
