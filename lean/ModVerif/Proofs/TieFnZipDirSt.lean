/-
  Tie proof, zip/zip.go `CheckDir`: two facts about the hand model's `checkFilesSt` (Model/Zip.lean) that the statement of
  the tie needs.  (1) It never omits a path for one of the two reasons only `listFilesInDir` gives (`vcs`, `submoduleDir`),
  so one text embedding serves the merged `Omitted` list of `Zip.checkDir`.  (2) Its three lists together are at most twice
  as long as the input (fuel of the path-rewriting loops of `CheckDir`).
-/
import ModVerif.Model.Zip
namespace ModVerif.TieFnZipDir
open ModVerif ModVerif.Zip

/-- not one of the reasons that only `listFilesInDir` gives -/
def ListReason (r : Reason) : Prop := r ≠ .vcs ∧ r ≠ .submoduleDir

def tot (s : St) : Nat := s.cf.valid.length + s.cf.omitted.length + s.cf.invalid.length

/-- invariant of both passes of `checkFiles` -/
def Inv (s : St) (n : Nat) : Prop := tot s ≤ n ∧ ∀ e ∈ s.cf.omitted, ListReason e.2

theorem inv_mono {s : St} {n m : Nat} (h : Inv s n) (hm : n ≤ m) : Inv s m := ⟨Nat.le_trans h.1 hm, h.2⟩

theorem inv_addError {s : St} {n : Nat} (h : Inv s n) (p : Bytes) (om : Bool) (r : Reason)
    (hr : om = true → ListReason r) : Inv (s.addError p om r) (n + 1) := by
  unfold St.addError
  split
  · exact inv_mono h (Nat.le_succ n)
  · cases om with
    | true =>
      simp only [if_true]
      refine ⟨?_, ?_⟩
      · have := h.1; simp only [tot, List.length_append, List.length_singleton] at this ⊢; omega
      · intro e he
        simp only [List.mem_append, List.mem_singleton] at he
        rcases he with he | rfl
        · exact h.2 e he
        · exact hr rfl
    | false =>
      simp only [Bool.false_eq_true, if_false]
      refine ⟨?_, ?_⟩
      · have := h.1; simp only [tot, List.length_append, List.length_singleton] at this ⊢; omega
      · intro e he; exact h.2 e he

theorem inv_account {s : St} {n : Nat} (h : Inv s n) (sz : Int) : Inv (s.account sz) n := by
  unfold St.account
  split
  · exact h
  · exact h

theorem inv_pushValid {s : St} {n : Nat} (h : Inv s n) (f : FileInfo) : Inv (s.pushValid f) (n + 1) := by
  refine ⟨?_, fun e he => h.2 e he⟩
  have := h.1
  simp only [tot, St.pushValid, List.length_append, List.length_singleton] at this ⊢; omega

theorem inv_setCC {s : St} {n : Nat} (h : Inv s n) (cc : CC) : Inv (s.setCC cc) n := h

theorem inv_stepSized {s : St} {n : Nat} (h : Inv s n) (f : FileInfo) : Inv (stepSized s f) (n + 1) := by
  unfold stepSized
  split
  · exact inv_addError (inv_account h _) _ _ _ (by simp)
  · split
    · exact inv_addError (inv_account h _) _ _ _ (by simp)
    · exact inv_pushValid (inv_account h _) f

theorem inv_stepMode {s : St} {n : Nat} (h : Inv s n) (f : FileInfo) : Inv (stepMode s f) (n + 1) := by
  unfold stepMode
  split
  · exact inv_addError h _ _ _ (fun _ => ⟨by simp, by simp⟩)
  · split
    · exact inv_addError h _ _ _ (fun _ => ⟨by simp, by simp⟩)
    · exact inv_stepSized h f

theorem inv_stepStat (E : Env) {s : St} {n : Nat} (h : Inv s n) (f : FileInfo) : Inv (stepStat E s f) (n + 1) := by
  unfold stepStat
  split
  · exact inv_addError h _ _ _ (by simp)
  · split
    · exact inv_addError (inv_setCC h _) _ _ _ (by simp)
    · exact inv_stepMode (inv_setCC h _) f

theorem inv_stepFile (E : Env) (g : Bool) (hg : List Bytes) {s : St} {n : Nat} (h : Inv s n) (f : FileInfo) :
    Inv (stepFile E g hg s f) (n + 1) := by
  unfold stepFile
  split
  · exact inv_addError h _ _ _ (by simp)
  · split
    · exact inv_addError h _ _ _ (by simp)
    · split
      · exact inv_addError h _ _ _ (fun _ => ⟨by simp, by simp⟩)
      · split
        · exact inv_addError h _ _ _ (fun _ => ⟨by simp, by simp⟩)
        · split
          · exact inv_addError h _ _ _ (fun _ => ⟨by simp, by simp⟩)
          · split
            · exact inv_addError h _ _ _ (by simp)
            · split
              · exact inv_addError h _ _ _ (by simp)
              · exact inv_stepStat E h f

theorem inv_mainPass (E : Env) (g : Bool) (hg : List Bytes) : ∀ (files : List FileInfo) (s : St) (n : Nat), Inv s n →
    Inv (mainPass E g hg s files) (n + files.length)
  | [], s, n, h => h
  | f :: rest, s, n, h => by
    have := inv_mainPass E g hg rest (stepFile E g hg s f) (n + 1) (inv_stepFile E g hg h f)
    simp only [mainPass, List.foldl_cons, List.length_cons] at this ⊢
    exact inv_mono this (by omega)

theorem inv_preStep {a : Pre} {n : Nat} (h : Inv a.st n) (f : FileInfo) : Inv (preStep a f).st (n + 1) := by
  unfold preStep
  simp only []
  split
  · split
    · exact inv_addError h _ _ _ (by simp)
    · split
      · exact inv_mono h (Nat.le_succ n)
      · split
        · exact inv_mono h (Nat.le_succ n)
        · exact inv_mono h (Nat.le_succ n)
  · exact inv_mono h (Nat.le_succ n)

theorem inv_prePass_fold : ∀ (files : List FileInfo) (a : Pre) (n : Nat), Inv a.st n →
    Inv (files.foldl preStep a).st (n + files.length)
  | [], a, n, h => h
  | f :: rest, a, n, h => by
    have := inv_prePass_fold rest (preStep a f) (n + 1) (inv_preStep h f)
    simp only [List.foldl_cons, List.length_cons] at this ⊢
    exact inv_mono this (by omega)

theorem inv_checkFilesSt (E : Env) (files : List FileInfo) (g : Bool) : Inv (checkFilesSt E files g) (2 * files.length) := by
  unfold checkFilesSt
  have h0 : Inv ({} : Pre).st 0 := ⟨by simp [tot], by intro e he; cases he⟩
  have h1 := inv_prePass_fold files {} 0 h0
  have h2 := inv_mainPass E g (prePass files).haveGoMod files (prePass files).st (0 + files.length) h1
  exact inv_mono h2 (by omega)

mutual
/-- fuel the walk of a node needs (one per node and per end of a directory) -/
def nodeFuel : Node → Nat
  | .file .. => 1
  | .dir cs => listFuel cs + 1
def listFuel : List (Bytes × Node) → Nat
  | [] => 1
  | (_, n) :: rest => nodeFuel n + listFuel rest + 1
end

mutual
/-- the walk reports at most one entry per node -/
theorem walkNode_count (g : Bool) : ∀ (n : Node) (rel base : Bytes),
    (walkNode g rel base n).files.length + (walkNode g rel base n).omitted.length ≤ nodeFuel n
  | .file mode size content gg, rel, base => by
    simp only [walkNode, nodeFuel]
    split
    · simp
    · split <;> simp
  | .dir cs, rel, base => by
    have ih := walkChildren_count g cs rel
    simp only [walkNode, nodeFuel]
    split
    · simp only [Listing.append, List.length_append, List.nil_append, List.length_singleton]; omega
    · split
      · simp
      · split
        · simp
        · omega
theorem walkChildren_count (g : Bool) : ∀ (cs : List (Bytes × Node)) (rel : Bytes),
    (walkChildren g rel cs).files.length + (walkChildren g rel cs).omitted.length ≤ listFuel cs
  | [], rel => by simp [walkChildren, listFuel]
  | (name, n) :: rest, rel => by
    have h1 := walkNode_count g n (childPath rel name) name
    have h2 := walkChildren_count g rest rel
    simp only [walkChildren, listFuel, Listing.append, List.length_append]
    omega
end

end ModVerif.TieFnZipDir
