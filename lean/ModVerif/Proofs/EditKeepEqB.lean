/-
  EditKeepEq, part B — `OpKeepsS`: what each go.mod operation (all but AddTool and the bulk setters, which follow in part C)
  does to the lines that existed before it, with EQUALITY of the end-of-line comments.  Proofs/EditMoreKeep{C,D}.lean restated
  on `KeepsS` (part A); Cleanup needs the tree invariant (`Inv.tree.noBlockSuffix`).
-/
import ModVerif.Proofs.EditKeepEqA
set_option linter.unusedSimpArgs false
namespace ModVerif.Modfile.Edit
open ModVerif ModVerif.Modfile

/-- `KeepsS` for the lines that existed before (ids below the fresh-id counter `n`) -/
def KeepsSBelow (n : Nat) (S : List Nat) (a b : List Expr) : Prop :=
  ∀ x ∈ viewX a, x.id < n → x.id ∉ S → ∃ x' ∈ viewX b, x.leS x'

theorem KeepsS.below {S : List Nat} {a b : List Expr} (h : KeepsS S a b) (n : Nat) : KeepsSBelow n S a b :=
  fun x hx _ hs => h x hx hs

theorem KeepsS.below_fresh {S F : List Nat} {a b : List Expr} {n : Nat} (h : KeepsS (S ++ F) a b) (hF : ∀ i ∈ F, n ≤ i) :
    KeepsSBelow n S a b := by
  intro x hx hlt hs
  apply h x hx
  simp only [List.mem_append, not_or]
  exact ⟨hs, fun hf => by have := hF _ hf; omega⟩

theorem KeepsSBelow.trans {n : Nat} {S1 S2 : List Nat} {a b c : List Expr} (h1 : KeepsSBelow n S1 a b) (h2 : KeepsSBelow n S2 b c) :
    KeepsSBelow n (S1 ++ S2) a c := by
  intro x hx hlt hs
  simp only [List.mem_append, not_or] at hs
  rcases h1 x hx hlt hs.1 with ⟨y, hy, hxy⟩
  rcases h2 y hy (by rw [hxy.1]; exact hlt) (by rw [hxy.1]; exact hs.2) with ⟨z, hz, hyz⟩
  exact ⟨z, hz, XLine.leS_trans hxy hyz⟩

theorem KeepsSBelow.mono {n : Nat} {S S' : List Nat} {a b : List Expr} (h : KeepsSBelow n S a b) (hs : ∀ i ∈ S, i ∈ S') :
    KeepsSBelow n S' a b :=
  fun x hx hlt hn => h x hx hlt (fun hi => hn (hs _ hi))

theorem KeepsSBelow.trans_nil {n : Nat} {S : List Nat} {a b c : List Expr} (h1 : KeepsSBelow n S a b) (h2 : KeepsSBelow n [] b c) :
    KeepsSBelow n S a c :=
  (h1.trans h2).mono (by simp)

theorem KeepsSBelow.nil_trans {n : Nat} {S : List Nat} {a b c : List Expr} (h1 : KeepsSBelow n [] a b) (h2 : KeepsSBelow n S b c) :
    KeepsSBelow n S a c :=
  (h1.trans h2).mono (by simp)

/-- what one operation does to the lines that existed before it -/
def OpKeepsS (e e' : EFile) (op : Op) : Prop :=
  ∃ S : List Nat, KeepsSBelow e.next S e.f.syn.stmts e'.f.syn.stmts ∧
    ∀ i ∈ S, (Sorts op = true ∧ i ∈ kill3 e.f) ∨ ∃ en ∈ entries e.f, en.id = i ∧ ∀ t s, en.acc t s → Targets op t

theorem OpKeepsS.nil {e e' : EFile} {op : Op} (h : KeepsS [] e.f.syn.stmts e'.f.syn.stmts) : OpKeepsS e e' op :=
  ⟨[], h.below _, fun _ hi' => by cases hi'⟩

theorem OpKeepsS.one {e e' : EFile} {op : Op} (en : Ent) (hen : en ∈ entries e.f) (h : KeepsS [en.id] e.f.syn.stmts e'.f.syn.stmts)
    (ht : ∀ t s, en.acc t s → Targets op t) : OpKeepsS e e' op :=
  ⟨[en.id], h.below _, fun _ hi => Or.inr ⟨en, hen, (List.mem_singleton.1 hi).symm, ht⟩⟩

theorem addModule_keepsS (e : EFile) (p : Bytes) (hi : Inv e) : OpKeepsS e (addModuleStmt e p) (.addModule p) := by
  unfold addModuleStmt
  cases hm : e.f.module with
  | none => exact OpKeepsS.nil (keepsS_addLine _ _ _ _ hi.view2)
  | some m =>
    refine OpKeepsS.one (entM m) (mem_entries_module hm) (keepsS_updateTokens _ _ _) ?_
    intro t s h; simp only [entM] at h; rw [h]; rfl

theorem addGo_keepsS (e e' : EFile) (v : Bytes) (hi : Inv e) (h : addGoStmt e v = .ok e') : OpKeepsS e e' (.addGo v) := by
  unfold addGoStmt at h
  split at h
  · cases h
  · cases hg : e.f.go with
    | none =>
      simp only [hg, Except.ok.injEq] at h; subst h
      exact OpKeepsS.nil (keepsS_addLine _ _ _ _ hi.view2)
    | some g =>
      simp only [hg, Except.ok.injEq] at h; subst h
      refine OpKeepsS.one (entGo g) (mem_entries_go hg) (keepsS_updateTokens _ _ _) ?_
      intro t s h; simp only [entGo] at h; rw [h]; rfl

theorem dropGo_keepsS (e : EFile) : OpKeepsS e (dropGoStmt e) .dropGo := by
  unfold dropGoStmt
  cases hg : e.f.go with
  | none => exact OpKeepsS.nil (KeepsS.refl _ _)
  | some g =>
    refine OpKeepsS.one (entGo g) (mem_entries_go hg) (keepsS_markRemoved _ _) ?_
    intro t s h; simp only [entGo] at h; rw [h]; rfl

theorem addToolchain_keepsS (e e' : EFile) (v : Bytes) (hi : Inv e) (h : addToolchainStmt e v = .ok e') :
    OpKeepsS e e' (.addToolchain v) := by
  unfold addToolchainStmt at h
  split at h
  · cases h
  · cases hg : e.f.toolchain with
    | none =>
      simp only [hg, Except.ok.injEq] at h; subst h
      exact OpKeepsS.nil (keepsS_addLine _ _ _ _ hi.view2)
    | some g =>
      simp only [hg, Except.ok.injEq] at h; subst h
      refine OpKeepsS.one (entTc g) (mem_entries_toolchain hg) (keepsS_updateTokens _ _ _) ?_
      intro t s h; simp only [entTc] at h; rw [h]; rfl

theorem dropToolchain_keepsS (e : EFile) : OpKeepsS e (dropToolchainStmt e) .dropToolchain := by
  unfold dropToolchainStmt
  cases hg : e.f.toolchain with
  | none => exact OpKeepsS.nil (KeepsS.refl _ _)
  | some g =>
    refine OpKeepsS.one (entTc g) (mem_entries_toolchain hg) (keepsS_markRemoved _ _) ?_
    intro t s h; simp only [entTc] at h; rw [h]; rfl

/-- the operation touches lines of entries of one typed list selected by `m` -/
theorem OpKeepsS.of_src {e e' : EFile} {op : Op} {α : Type} (S : List Nat) (L : List α) (m : α → Bool) (id : α → Nat)
    (mk : α → Ent) (hk : KeepsS S e.f.syn.stmts e'.f.syn.stmts) (hmk : ∀ x, (mk x).id = id x)
    (hmem : ∀ x ∈ L, m x = true → mk x ∈ entries e.f) (hsrc : ∀ d ∈ S, ∃ x ∈ L, m x = true ∧ id x = d)
    (ht : ∀ x, m x = true → ∀ t s, (mk x).acc t s → Targets op t) : OpKeepsS e e' op := by
  refine ⟨S, hk.below _, ?_⟩
  intro i hi
  rcases hsrc i hi with ⟨x, hx, hmx, hid⟩
  exact Or.inr ⟨mk x, hmem x hx hmx, by rw [hmk, hid], ht x hmx⟩

theorem addGodebug_keepsS (e e' : EFile) (k v : Bytes) (hk : k ≠ []) (hi : Inv e) (h : addGodebug e k v = .ok e') :
    OpKeepsS e e' (.addGodebug k v) := by
  unfold addGodebug addGodebugCore at h
  simp only [bind, Except.bind] at h
  cases hr : firstRest (fun g : Godebug => g.key == k) (·.lineId) (fun g => { g with value := v }) clearedGodebug e.f.godebug true with
  | error err => simp [hr] at h
  | ok r =>
    rcases r with ⟨gd', first, dead⟩
    simp only [hr] at h
    rcases firstRest_src _ _ _ _ _ _ _ _ _ hr with ⟨s1, s2⟩
    cases first with
    | none =>
      simp only [pure, Except.pure, Except.ok.injEq] at h; subst h
      exact OpKeepsS.nil (keepsS_addLine _ _ _ _ hi.view2)
    | some i =>
      simp only [pure, Except.pure, Except.ok.injEq] at h; subst h
      refine OpKeepsS.of_src ([i] ++ dead) e.f.godebug (fun g : Godebug => g.key == k) (·.lineId) entG
        ((keepsS_updateTokens _ _ _).trans (keepsS_markAll _ _)) (fun _ => rfl)
        (fun x hx hm => mem_entries_godebug hx (ne_nil_of_beq hk hm)) ?_ ?_
      · intro d hd
        rcases List.mem_append.1 hd with hd | hd
        · rw [List.mem_singleton.1 hd]; exact s2 i rfl
        · exact s1 d hd
      · intro x hm t s hacc
        simp only [entG] at hacc
        exact ⟨x.value, by rw [hacc, eq_of_beq hm]⟩

theorem dropGodebug_keepsS (e e' : EFile) (k : Bytes) (hk : k ≠ []) (h : dropGodebug e k = .ok e') :
    OpKeepsS e e' (.dropGodebug k) := by
  unfold dropGodebug at h
  simp only [bind, Except.bind] at h
  cases hr : clearAll (fun g : Godebug => g.key == k) (·.lineId) clearedGodebug e.f.godebug with
  | error err => simp [hr] at h
  | ok r =>
    rcases r with ⟨gd', dead⟩
    simp only [hr, pure, Except.pure, Except.ok.injEq] at h; subst h
    refine OpKeepsS.of_src dead e.f.godebug (fun g : Godebug => g.key == k) (·.lineId) entG (keepsS_markAll _ _) (fun _ => rfl)
      (fun x hx hm => mem_entries_godebug hx (ne_nil_of_beq hk hm)) (clearAll_src _ _ _ _ _ _ hr) ?_
    intro x hm t s hacc
    simp only [entG] at hacc
    exact ⟨x.value, by rw [hacc, eq_of_beq hm]⟩

theorem addNewRequire_keepsS (e : EFile) (p v : Bytes) (b : Bool) (hi : Inv e) (op : Op) : OpKeepsS e (addNewRequire e p v b) op := by
  refine ⟨[], ?_, fun _ h => by cases h⟩
  have h1 := keepsS_addLine e.f.syn none [B "require", autoQuote p, v] e.next hi.view2
  have h2 := keepsS_updateLine (addLine e.f.syn none [B "require", autoQuote p, v] e.next) e.next (setIndirectLine b)
  have : KeepsS ([] ++ [e.next]) e.f.syn.stmts (addNewRequire e p v b).f.syn.stmts := h1.trans h2
  exact this.below_fresh (fun i hi => by rw [List.mem_singleton.1 hi]; exact Nat.le_refl _)

theorem addRequire_keepsS (e e' : EFile) (p v : Bytes) (hp : p ≠ []) (hi : Inv e) (h : addRequire e p v = .ok e') :
    OpKeepsS e e' (.addRequire p v) := by
  unfold addRequire at h
  simp only [bind, Except.bind] at h
  cases hr : firstRest (fun r : Require => r.mod.path == p) (·.lineId)
      (fun r => { r with mod := { r.mod with version := v } }) clearedRequire e.f.require true with
  | error err => simp [hr] at h
  | ok r =>
    rcases r with ⟨rq', first, dead⟩
    simp only [hr] at h
    rcases firstRest_src _ _ _ _ _ _ _ _ _ hr with ⟨s1, s2⟩
    cases first with
    | none =>
      simp only [pure, Except.pure, Except.ok.injEq] at h; subst h
      exact addNewRequire_keepsS e p v false hi _
    | some i =>
      simp only [pure, Except.pure, Except.ok.injEq] at h; subst h
      refine OpKeepsS.of_src ([i] ++ dead) e.f.require (fun r : Require => r.mod.path == p) (·.lineId) entRq
        ((keepsS_updateTokens _ _ _).trans (keepsS_markAll _ _)) (fun _ => rfl)
        (fun x hx hm => mem_entries_require hx (ne_nil_of_beq hp hm)) ?_ ?_
      · intro d hd
        rcases List.mem_append.1 hd with hd | hd
        · rw [List.mem_singleton.1 hd]; exact s2 i rfl
        · exact s1 d hd
      · intro x hm t s hacc
        simp only [entRq] at hacc
        exact ⟨x.mod.version, by rw [hacc.1, eq_of_beq hm]⟩

theorem dropRequire_keepsS (e e' : EFile) (p : Bytes) (hp : p ≠ []) (h : dropRequire e p = .ok e') :
    OpKeepsS e e' (.dropRequire p) := by
  unfold dropRequire at h
  simp only [bind, Except.bind] at h
  cases hr : clearAll (fun r : Require => r.mod.path == p) (·.lineId) clearedRequire e.f.require with
  | error err => simp [hr] at h
  | ok r =>
    rcases r with ⟨l', dead⟩
    simp only [hr, pure, Except.pure, Except.ok.injEq] at h; subst h
    refine OpKeepsS.of_src dead e.f.require (fun r : Require => r.mod.path == p) (·.lineId) entRq (keepsS_markAll _ _) (fun _ => rfl)
      (fun x hx hm => mem_entries_require hx (ne_nil_of_beq hp hm)) (clearAll_src _ _ _ _ _ _ hr) ?_
    intro x hm t s hacc
    simp only [entRq] at hacc
    exact ⟨x.mod.version, by rw [hacc.1, eq_of_beq hm]⟩

theorem addExclude_keepsS (e e' : EFile) (p v : Bytes) (hi : Inv e) (h : addExclude e p v = .ok e') :
    OpKeepsS e e' (.addExclude p v) := by
  unfold addExclude at h
  split at h
  · cases h
  · split at h
    · simp only [Except.ok.injEq] at h; subst h; exact OpKeepsS.nil (KeepsS.refl _ _)
    · simp only [Except.ok.injEq] at h; subst h
      exact OpKeepsS.nil (keepsS_addLinePtr _ _ _ _ hi.view2)

theorem dropExclude_keepsS (e e' : EFile) (p v : Bytes) (hp : p ≠ []) (h : dropExclude e p v = .ok e') :
    OpKeepsS e e' (.dropExclude p v) := by
  unfold dropExclude at h
  simp only [bind, Except.bind] at h
  cases hr : clearAll (fun x : Exclude => x.mod.path == p && x.mod.version == v) (·.lineId) clearedExclude e.f.exclude with
  | error err => simp [hr] at h
  | ok r =>
    rcases r with ⟨l', dead⟩
    simp only [hr, pure, Except.pure, Except.ok.injEq] at h; subst h
    refine OpKeepsS.of_src dead e.f.exclude (fun x : Exclude => x.mod.path == p && x.mod.version == v) (·.lineId) entX
      (keepsS_markAll _ _) (fun _ => rfl)
      (fun x hx hm => mem_entries_exclude hx (by simp only [Bool.and_eq_true] at hm; exact ne_nil_of_beq hp hm.1))
      (clearAll_src _ _ _ _ _ _ hr) ?_
    intro x hm t s hacc
    simp only [Bool.and_eq_true] at hm
    simp only [entX] at hacc
    show t = _
    rw [hacc, eq_of_beq hm.1, eq_of_beq hm.2]

theorem addReplace_keepsS (e e' : EFile) (op ov np nv : Bytes) (hop : op ≠ []) (hi : Inv e) (h : addReplace e op ov np nv = .ok e') :
    OpKeepsS e e' (.addReplace op ov np nv) := by
  unfold addReplace addReplaceCore at h
  simp only [bind, Except.bind] at h
  cases hr : firstRest (fun r : Replace => r.old.path == op && (ov.isEmpty || r.old.version == ov)) (·.lineId)
      (fun r => { r with old := { path := op, version := ov }, new := { path := np, version := nv } }) clearedReplace e.f.replace true with
  | error err => simp [hr] at h
  | ok r =>
    rcases r with ⟨rp', first, dead⟩
    simp only [hr] at h
    rcases firstRest_src _ _ _ _ _ _ _ _ _ hr with ⟨s1, s2⟩
    cases first with
    | none =>
      simp only [pure, Except.pure, Except.ok.injEq] at h; subst h
      exact OpKeepsS.nil (keepsS_addLinePtr _ _ _ _ hi.view2)
    | some i =>
      simp only [pure, Except.pure, Except.ok.injEq] at h; subst h
      refine OpKeepsS.of_src ([i] ++ dead) e.f.replace (fun r : Replace => r.old.path == op && (ov.isEmpty || r.old.version == ov))
        (·.lineId) entRp ((keepsS_updateTokens _ _ _).trans (keepsS_markAll _ _)) (fun _ => rfl)
        (fun x hx hm => mem_entries_replace hx (by simp only [Bool.and_eq_true] at hm; exact ne_nil_of_beq hop hm.1)) ?_ ?_
      · intro d hd
        rcases List.mem_append.1 hd with hd | hd
        · rw [List.mem_singleton.1 hd]; exact s2 i rfl
        · exact s1 d hd
      · intro x hm t s hacc
        simp only [Bool.and_eq_true] at hm
        simp only [entRp] at hacc
        exact ⟨x, eq_of_beq hm.1, hacc⟩

theorem dropReplace_keepsS (e e' : EFile) (op ov : Bytes) (hop : op ≠ []) (h : dropReplace e op ov = .ok e') :
    OpKeepsS e e' (.dropReplace op ov) := by
  unfold dropReplace dropReplaceCore at h
  simp only [bind, Except.bind] at h
  cases hr : clearAll (fun r : Replace => r.old.path == op && r.old.version == ov) (·.lineId) clearedReplace e.f.replace with
  | error err => simp [hr] at h
  | ok r =>
    rcases r with ⟨l', dead⟩
    simp only [hr, pure, Except.pure, Except.ok.injEq] at h; subst h
    refine OpKeepsS.of_src dead e.f.replace (fun r : Replace => r.old.path == op && r.old.version == ov) (·.lineId) entRp
      (keepsS_markAll _ _) (fun _ => rfl)
      (fun x hx hm => mem_entries_replace hx (by simp only [Bool.and_eq_true] at hm; exact ne_nil_of_beq hop hm.1))
      (clearAll_src _ _ _ _ _ _ hr) ?_
    intro x hm t s hacc
    simp only [Bool.and_eq_true] at hm
    simp only [entRp] at hacc
    exact ⟨x, eq_of_beq hm.1, eq_of_beq hm.2, hacc⟩

theorem addRetract_keepsS (e e' : EFile) (vi : VersionInterval) (why : Bytes) (hi : Inv e) (h : addRetract e vi why = .ok e') (op : Op) :
    OpKeepsS e e' op := by
  rw [addRetract_eq] at h
  unfold addRetractP at h
  split at h
  · cases h
  · split at h
    · cases h
    · simp only [Except.ok.injEq] at h; subst h
      refine ⟨[], ?_, fun _ h => by cases h⟩
      have h1 := keepsS_addLine e.f.syn none (if vi.low == vi.high then [B "retract", autoQuote vi.low]
        else [B "retract", [91], autoQuote vi.low, [44], autoQuote vi.high, [93]]) e.next hi.view2
      have h2 := keepsS_updateLine (addLine e.f.syn none (if vi.low == vi.high then [B "retract", autoQuote vi.low]
        else [B "retract", [91], autoQuote vi.low, [44], autoQuote vi.high, [93]]) e.next) e.next
        (fun l => { l with comments := { l.comments with before := l.comments.before ++
          (if why.isEmpty then [] else (splitOn 10 why).map fun line => ({ token := B "// " ++ line } : Comment)) } })
      have := h1.trans h2
      exact this.below_fresh (fun i hi => by rw [List.mem_singleton.1 hi]; exact Nat.le_refl _)

theorem dropRetract_keepsS (e e' : EFile) (lo hi' : Bytes) (hne : lo ≠ [] ∨ hi' ≠ [])
    (h : dropRetract e { low := lo, high := hi' } = .ok e') : OpKeepsS e e' (.dropRetract lo hi') := by
  unfold dropRetract at h
  simp only [bind, Except.bind] at h
  cases hr : clearAll (fun r : Retract => r.interval == ({ low := lo, high := hi' } : VersionInterval)) (·.lineId) clearedRetract e.f.retract with
  | error err => simp [hr] at h
  | ok r =>
    rcases r with ⟨l', dead⟩
    simp only [hr, pure, Except.pure, Except.ok.injEq] at h; subst h
    refine OpKeepsS.of_src dead e.f.retract (fun r : Retract => r.interval == ({ low := lo, high := hi' } : VersionInterval)) (·.lineId) entRt
      (keepsS_markAll _ _) (fun _ => rfl) ?_ (clearAll_src _ _ _ _ _ _ hr) ?_
    · intro x hx hm
      refine mem_entries_retract hx ?_
      have : x.interval = { low := lo, high := hi' } := eq_of_beq hm
      simp only [liveRt, this]
      rcases hne with h1 | h1
      · simp [ne_nil_live h1]
      · simp [ne_nil_live h1]
    · intro x hm t s hacc
      exact ⟨x, eq_of_beq hm, hacc⟩

theorem dropTool_keepsS (e e' : EFile) (p : Bytes) (hp : p ≠ []) (h : dropTool e p = .ok e') : OpKeepsS e e' (.dropTool p) := by
  unfold dropTool at h
  simp only [bind, Except.bind] at h
  cases hr : clearAll (fun t : Tool => t.path == p) (·.lineId) clearedTool e.f.tool with
  | error err => simp [hr] at h
  | ok r =>
    rcases r with ⟨l', dead⟩
    simp only [hr, pure, Except.pure, Except.ok.injEq] at h; subst h
    refine OpKeepsS.of_src dead e.f.tool (fun t : Tool => t.path == p) (·.lineId) entT (keepsS_markAll _ _) (fun _ => rfl)
      (fun x hx hm => mem_entries_tool hx (ne_nil_of_beq hp hm)) (clearAll_src _ _ _ _ _ _ hr) ?_
    intro x hm t s hacc
    simp only [entT] at hacc
    rcases hacc with ⟨y, h1, h2⟩
    exact ⟨y, h1, by rw [← eq_of_beq hm]; exact h2⟩

/-- SortBlocks removes only the lines of the documented de-duplication (`kill3`) -/
theorem keepsS_sortBlocks (e : EFile) : KeepsS (kill3 e.f) e.f.syn.stmts (sortBlocks e).f.syn.stmts := by
  rw [sortBlocks_eq_sem e]
  have := (keepsS_dropKilled (kill3 e.f) e.f.syn.stmts).trans (keepsS_sortStmts (semOf e.f) false _)
  simpa using this

theorem sortBlocks_keepsS (e : EFile) : OpKeepsS e (sortBlocks e) .sortBlocks :=
  ⟨kill3 e.f, (keepsS_sortBlocks e).below _, fun _ hi => Or.inl ⟨rfl, hi⟩⟩

theorem cleanup_keepsS (e : EFile) (op : Op) (hi : Inv e) : OpKeepsS e (cleanup e) op :=
  OpKeepsS.nil (keepsS_cleanupStmts _ hi.tree.noBlockSuffix)

end ModVerif.Modfile.Edit
