/-
  Helper lemmas for C06: CheckPathMajor against the documented correspondence (PathSpec.MajorMatches).
-/
import ModVerif.Model.Module
import ModVerif.Spec.PathSpec
import ModVerif.Proofs.ModuleSplit
namespace ModVerif.Module
open ModVerif

theorem check_ok_iff (p v : Bytes) :
    check p v = .ok () ↔
      checkModPath p = .ok () ∧ Semver.isValid v = true ∧ checkPathMajor v (splitPathVersion p).2.1 = true := by
  unfold check
  cases h1 : checkModPath p with
  | error x => simp
  | ok u =>
    cases h2 : Semver.isValid v <;> cases h3 : checkPathMajor v (splitPathVersion p).2.1 <;> simp

theorem checkPathMajor_nil (v : Bytes) :
    checkPathMajor v [] = true ↔ PathSpec.MajorMatches [] v := by
  unfold checkPathMajor PathSpec.MajorMatches
  have h1 : isPrefixOfB (B ".v") ([] : Bytes) = false := by decide +kernel
  have h2 : (([] : Bytes) == B ".v1") = false := by decide +kernel
  simp [h1, h2, or_assoc]

theorem checkPathMajor_slash (v n : Bytes) :
    checkPathMajor v (47 :: 118 :: n) = true ↔ PathSpec.MajorMatches (47 :: 118 :: n) v := by
  unfold checkPathMajor PathSpec.MajorMatches
  have hB : B ".v" = [46, 118] := by decide +kernel
  have hB1 : B ".v1" = [46, 118, 49] := by decide +kernel
  have h1 : isPrefixOfB (B ".v") (47 :: 118 :: n) = false := by rw [hB]; simp [isPrefixOfB]
  simp [h1, hB1]

theorem hasSuffixB_append (x suf : Bytes) : hasSuffixB (x ++ suf) suf = true := by
  unfold hasSuffixB
  exact (isPrefixOfB_iff _ _).mpr ⟨x.reverse, by simp⟩

theorem trimSuffixB_append (x suf : Bytes) : trimSuffixB (x ++ suf) suf = x := by
  unfold trimSuffixB
  simp [hasSuffixB_append]

theorem hasSuffixB_digits (n : Bytes) (hn : ∀ d ∈ n, PathSpec.isAsciiDigit d.toNat) :
    hasSuffixB (46 :: 118 :: n) (B "-unstable") = false := by
  unfold hasSuffixB
  have hB : (B "-unstable").reverse = 101 :: (B "-unstabl").reverse := by decide +kernel
  rw [hB]
  cases hr : n.reverse with
  | nil =>
    have : n = [] := by simpa using hr
    subst this
    simp [isPrefixOfB]
  | cons x xs =>
    have hx : x ∈ n := by
      have : x ∈ n.reverse := by rw [hr]; simp
      simpa using this
    have hd := hn x hx
    have hne : (101 : UInt8) ≠ x := by
      intro h; subst h; unfold PathSpec.isAsciiDigit at hd; simp at hd
    have : (46 :: 118 :: n).reverse = x :: (xs ++ [118, 46]) := by simp [hr]
    rw [this]
    simp [isPrefixOfB, hne]

theorem checkPathMajor_gopkg (v n : Bytes) (hn : ∀ d ∈ n, PathSpec.isAsciiDigit d.toNat) (uns : Bool) :
    checkPathMajor v (46 :: 118 :: (n ++ if uns then B "-unstable" else [])) = true ↔
      (Semver.major v = 118 :: n ∨ (n = [49] ∧ isPrefixOfB (B "v0.0.0-") v = true)) := by
  have hB : B ".v" = [46, 118] := by decide +kernel
  have hB1 : B ".v1" = [46, 118, 49] := by decide +kernel
  have hpre : ∀ t, isPrefixOfB (B ".v") (46 :: 118 :: t) = true := by intro t; rw [hB]; simp [isPrefixOfB]
  have key : checkPathMajor v (46 :: 118 :: (n ++ if uns then B "-unstable" else [])) =
      (if isPrefixOfB (B "v0.0.0-") v && (46 :: 118 :: n) == B ".v1" then true else Semver.major v == 118 :: n) := by
    unfold checkPathMajor
    cases uns
    · simp only [Bool.false_eq_true, if_false, List.append_nil, hpre, hasSuffixB_digits n hn, Bool.and_false]
      simp
    · have e : (46 :: 118 :: (n ++ B "-unstable")) = (46 :: 118 :: n) ++ B "-unstable" := by simp
      simp only [if_true, e, hasSuffixB_append, trimSuffixB_append, Bool.and_true]
      simp [hpre (n ++ B "-unstable")]
  rw [key, hB1]
  cases hp : isPrefixOfB (B "v0.0.0-") v
  · simp
  · by_cases h1 : n = [49]
    · simp [h1]
    · simp [h1]

end ModVerif.Module
