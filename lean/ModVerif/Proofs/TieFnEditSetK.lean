/-
  Helper lemmas for Tie/FnEditSet.lean, `File.SetRequireSeparateIndirect`, part 8: loop 4 of the generated function (the
  loop over the existing `f.Require`) = the model's `sepLoop`, as a simulation on a represented file.
-/
import ModVerif.Proofs.TieFnEditSetJ
set_option linter.unusedSimpArgs false
set_option linter.unusedVariables false
namespace ModVerif.Tie.FnEditSetK
open ModVerif ModVerif.GoRt ModVerif.Generated.Edit ModVerif.Tie.FnEditRep ModVerif.Tie.FnEditTreeA ModVerif.Tie.FnEditSetA
  ModVerif.Tie.FnEditSetB ModVerif.Tie.FnEditSetD ModVerif.Tie.FnEditSetE ModVerif.Tie.FnEditSetF ModVerif.Tie.FnEditSetG
  ModVerif.Tie.FnEditSetH ModVerif.Tie.FnEditSetI ModVerif.Tie.FnEditSetJ
open ModVerif.Modfile.Edit (EFile Want treeIds appendToBlock headIs mkLine setIndirectLine setVersionLine moveExisting SepCtx sepLoop
  inBlockOrig clearedRequire)

/-- what the loop needs of `lineToBlock` and the two block pointers: the membership tests of the generated code are the
    model's `inBlockOrig` -/
structure LtbOK (ltb : List (Int × Int)) (ctx : SepCtx) (dB iB : Int) : Prop where
  direct : ∀ lid : Nat, decide ((mapGet ltb (lid : Int) (0 : Int)).1 = dB) = inBlockOrig ctx lid ctx.directOrig
  indirect : ∀ lid : Nat, decide ((mapGet ltb (lid : Int) (0 : Int)).1 = iB) = inBlockOrig ctx lid ctx.indirectOrig

theorem NeedRel_ptrs {objs objs' : List Require} : ∀ {np : List (Bytes × Int)} {ws : List Want},
    (∀ kp ∈ np, ∀ v, heapGet objs kp.2 = .ok v → heapGet objs' kp.2 = .ok v) → NeedRel objs np ws → NeedRel objs' np ws
  | [], [], _, _ => trivial
  | kp :: t, _ :: _, ho, r =>
    ⟨⟨r.1.1, ho kp List.mem_cons_self _ r.1.2⟩, NeedRel_ptrs (fun q hq => ho q (List.mem_cons_of_mem _ hq)) r.2⟩
  | [], _ :: _, _, r => r.elim
  | _ :: _, [], _, r => r.elim

theorem NeedRel_setOther {objs : List Require} {np : List (Bytes × Int)} {ws : List Want} (r : NeedRel objs np ws) {p : Int}
    {w : Require} (hp : heapGet objs p = .ok w) (hne : ∀ kp ∈ np, kp.2 ≠ p) (v : Require) :
    NeedRel (objs.set (p.toNat - 1) v) np ws :=
  NeedRel_ptrs (fun kp hkp u hu => by rw [heapGet_listSet_other _ hp (hne kp hkp)]; exact hu) r

/-- the value of a key that is in the map is one of the map's values -/
theorem mapGet_mem {np : List (Bytes × Int)} {k : Bytes} (h : (mapGet np k (0 : Int)).1 ≠ 0) :
    (k, (mapGet np k (0 : Int)).1) ∈ np := by
  unfold GoRt.mapGet at h ⊢
  cases hf : np.find? (fun p => decide (p.1 = k)) with
  | none => rw [hf] at h; exact absurd rfl h
  | some q =>
    have hq := List.mem_of_find?_eq_some hf
    have hk : q.1 = k := by simpa using List.find?_some hf
    simp only
    rw [← hk]; exact hq

/-- the two steps `r.setVersion(v)`, `r.setIndirect(b)` with the intermediate heap -/
def verHeap (h : Heap) (p : Int) (rq : Modfile.Require) (l : Modfile.Line) (v : Bytes) : Heap :=
  { setLineH h (rq.lineId : Int) (setVersionLine v l) with
    requires := h.requires.set (p.toNat - 1) (requireG { rq with mod := { rq.mod with version := v } }) }

def bothHeap (h : Heap) (p : Int) (rq : Modfile.Require) (l : Modfile.Line) (v : Bytes) (b : Bool) : Heap :=
  { setLineH h (rq.lineId : Int) (setIndirectLine b (setVersionLine v l)) with
    requires := h.requires.set (p.toNat - 1) (requireG { rq with mod := { rq.mod with version := v }, indirect := b }) }

theorem setIndirect_after (hIdx : IndirectIdxOK) {h : Heap} {p : Int} {rq : Modfile.Require} {l : Modfile.Line} (v : Bytes) (b : Bool)
    (hr : heapGet h.requires p = .ok (requireG rq)) (hg : heapGet h.lines (rq.lineId : Int) = .ok (lineG l)) :
    Require_setIndirect p b (verHeap h p rq l v) = .ok ((), bothHeap h p rq l v b) := by
  have hr1 : heapGet (verHeap h p rq l v).requires p = .ok (requireG { rq with mod := { rq.mod with version := v } }) :=
    heapGet_listSet_same _ hr
  have hg1 : heapGet (verHeap h p rq l v).lines
      (({ rq with mod := { rq.mod with version := v } } : Modfile.Require).lineId : Int) = .ok (lineG (setVersionLine v l)) :=
    heapGet_setLineH_same hg _
  rw [Require_setIndirect_eq b hr1 hg1 (fun hb hi com rest hs hne => hIdx _ hi com rest hs hne)]
  simp only [verHeap, bothHeap, setLineH, List.set_set]

/-- the entry after `setVersion` / `setIndirect` -/
def keptReq (rq : Modfile.Require) (w : Want) : Modfile.Require :=
  { rq with mod := { rq.mod with version := w.vers }, indirect := w.indirect }

/-- … and after `moveReq` -/
def movedReq (rq : Modfile.Require) (w : Want) (next : Nat) : Modfile.Require :=
  { rq with mod := { rq.mod with version := w.vers }, indirect := w.indirect, lineId := next }

theorem treeIds_keep (syn : Modfile.FileSyntax) (hnd : (treeIds syn.stmts).Nodup) (id : Nat) (w : Want) :
    treeIds (syn.updateLine id (keepLine w)).stmts = treeIds syn.stmts :=
  Modfile.Edit.treeIds_updateLine syn id (keepLine w) hnd (IdEquiv_keepLine w).id_eq

theorem treeIds_removed (syn : Modfile.FileSyntax) (hnd : (treeIds syn.stmts).Nodup) (id : Nat) :
    treeIds (Modfile.Edit.markRemoved syn id).stmts = treeIds syn.stmts :=
  Modfile.Edit.treeIds_updateLine syn id markRemovedLine hnd (fun _ => rfl)

set_option maxHeartbeats 400000 in
theorem loop4_sim (hIdx : IndirectIdxOK) (isPrint : Int → Bool) (quote : Bytes → Bytes) (f : Int) (o : File) (e0 : EFile)
    (ctx : SepCtx) (need : List Want) (np : List (Bytes × Int)) (ltb : List (Int × Int)) (dB iB : Int) (fo : FileSyntax)
    (hL : LtbOK ltb ctx dB iB) (hdi : fo.Stmt[ctx.directIdx]? = some (Expr.LineBlock dB))
    (hii : fo.Stmt[ctx.indirectIdx]? = some (Expr.LineBlock iB)) (hdis : ∀ kp ∈ np, kp.2 ∉ o.Require) :
    ∀ (rest : List Modfile.Require) (ps pre : List Int) (ri : Int) (done : List Modfile.Require) (hv : List Bytes)
      (hp : List (Bytes × Int)) (syn : Modfile.FileSyntax) (next : Nat) (h : Heap) (fuel : Nat),
      o.Require = pre ++ ps → ri = (pre.length : Int) → done.length = pre.length → ps.length = rest.length →
      RepFAt h o (mkE e0 (done ++ rest) syn next) → heapGet h.files o.Syntax = .ok fo → NeedRel h.requires np need →
      HaveRel hp hv → (∀ rq ∈ rest, rq.lineId ≠ 0 → rq.lineId ∈ treeIds syn.stmts) → rest.length < fuel →
      match sepLoop ctx need rest hv syn next with
      | .ok (rs', hv', syn', next') =>
        ∃ h' hp', File_SetRequireSeparateIndirect_loop4 isPrint quote o.Require f ltb ctx.oneFlat dB iB np fuel ri h hp =
            .ok (len o.Require, h', hp') ∧
          RepFAt h' o (mkE e0 (done ++ rs') syn' next') ∧ HaveRel hp' hv' ∧ NeedRel h'.requires np need ∧ h'.mods = h.mods ∧
          heapGet h'.files o.Syntax = .ok fo
      | .error _ =>
        File_SetRequireSeparateIndirect_loop4 isPrint quote o.Require f ltb ctx.oneFlat dB iB np fuel ri h hp = .error .panic
  | [], [], pre, ri, done, hv, hp, syn, next, h, fuel + 1, hrx, hri, _, _, R, hfile, hN, hH, _, _ => by
    subst hri
    rw [hrx]
    have := not_lt_len_end pre
    simp only [sepLoop, File_SetRequireSeparateIndirect_loop4, this, decide_false, Bool.false_eq_true, if_false, pure, Except.pure]
    refine ⟨h, hp, ?_, R, hH, hN, rfl, hfile⟩
    simp [len_eq]
  | rq :: rest, p :: ps, pre, ri, done, hv, hp, syn, next, h, fuel + 1, hrx, hri, hdl, hpl, R, hfile, hN, hH, hT, hf => by
    have ih := loop4_sim hIdx isPrint quote f o e0 ctx need np ltb dB iB fo hL hdi hii hdis rest ps (pre ++ [p]) (ri + 1)
    subst hri
    have hgetp : o.Require[pre.length]? = some p := by rw [hrx]; exact getElem?_append_mid pre p ps
    have hgetr : (mkE e0 (done ++ rq :: rest) syn next).f.require[pre.length]? = some rq := by
      rw [← hdl]; exact getElem?_append_mid done rq rest
    obtain ⟨hobj, hle⟩ := REntsL.get R.require.rel pre.length p rq hgetp hgetr
    have hcur : idxL o.Require (pre.length : Int) = .ok p := by rw [hrx]; exact idxL_cursor pre p ps
    have hlt : ((pre.length : Int) < len o.Require) := by rw [hrx]; exact lt_len_cursor pre p ps
    have hpmem : p ∈ o.Require := List.mem_of_getElem? hgetp
    have hnp_ne : ∀ kp ∈ np, kp.2 ≠ p := fun kp hkp e => hdis kp hkp (e ▸ hpmem)
    obtain ⟨es, rsyn⟩ := R.syn
    have hnd : (treeIds syn.stmts).Nodup := rsyn.nodupL
    have hrx' : o.Require = (pre ++ [p]) ++ ps := by rw [hrx]; simp
    have hri' : (pre.length : Int) + 1 = ((pre ++ [p]).length : Int) := by simp
    have hpl' : ps.length = rest.length := by simpa using hpl
    have hf' : rest.length < fuel := by simp at hf; omega
    have hTrest : ∀ rq' ∈ rest, rq'.lineId ≠ 0 → rq'.lineId ∈ treeIds syn.stmts :=
      fun rq' hrq' => hT rq' (List.mem_cons_of_mem _ hrq')
    -- the removal step (two of the three branches)
    have hremove : (rq.lineId ≠ 0 → ∀ l, heapGet h.lines (rq.lineId : Int) = .ok (lineG l) →
        match sepLoop ctx need rest hv (Modfile.Edit.markRemoved syn rq.lineId) next with
        | .ok (rs', hv', syn', next') =>
          ∃ h' hp', File_SetRequireSeparateIndirect_loop4 isPrint quote o.Require f ltb ctx.oneFlat dB iB np fuel
              ((pre.length : Int) + 1)
              ({ setLineH h (rq.lineId : Int) (markRemovedLine l) with
                  requires := h.requires.set (p.toNat - 1) (requireG clearedRequire) } : Heap) hp =
              .ok (len o.Require, h', hp') ∧
            RepFAt h' o (mkE e0 (done ++ clearedRequire :: rs') syn' next') ∧ HaveRel hp' hv' ∧ NeedRel h'.requires np need ∧
            h'.mods = h.mods ∧ heapGet h'.files o.Syntax = .ok fo
        | .error _ =>
          File_SetRequireSeparateIndirect_loop4 isPrint quote o.Require f ltb ctx.oneFlat dB iB np fuel ((pre.length : Int) + 1)
            ({ setLineH h (rq.lineId : Int) (markRemovedLine l) with
                requires := h.requires.set (p.toNat - 1) (requireG clearedRequire) } : Heap) hp = .error .panic) := by
      intro h0 l hl
      have R1 := R.setLine (g := markRemovedLine) IdEquiv_markRemoved hl
      have R2 := R1.setRequire (i := pre.length) hgetp clearedRequire (Nat.zero_le _)
      simp only [Int.toNat_natCast] at R2
      have hset : (done ++ rq :: rest).set pre.length clearedRequire = (done ++ [clearedRequire]) ++ rest := by
        rw [← hdl, set_append_mid]; simp
      have R3 : RepFAt ({ setLineH h (rq.lineId : Int) (markRemovedLine l) with
            requires := h.requires.set (p.toNat - 1) (requireG clearedRequire) } : Heap) o
          (mkE e0 ((done ++ [clearedRequire]) ++ rest) (Modfile.Edit.markRemoved syn rq.lineId) next) := by
        rw [← hset]; exact R2
      have ih' := ih (done ++ [clearedRequire]) hv hp (Modfile.Edit.markRemoved syn rq.lineId) next _ fuel hrx' hri'
        (by simp [hdl]) hpl' R3 hfile (NeedRel_setOther hN hobj hnp_ne _) hH
        (by intro rq' hrq' h0'; rw [treeIds_removed syn hnd]; exact hTrest rq' hrq' h0') hf'
      generalize sepLoop ctx need rest hv (Modfile.Edit.markRemoved syn rq.lineId) next = res at ih' ⊢
      cases res with
      | error err => exact ih'
      | ok res =>
        obtain ⟨rs', hv', syn', next'⟩ := res
        obtain ⟨h', hp', hrun, R', hH', hN', hm, hfl⟩ := ih'
        exact ⟨h', hp', hrun, by simpa using R', hH', hN', hm, hfl⟩
    unfold File_SetRequireSeparateIndirect_loop4
    simp only [hlt, decide_true, if_true, hcur, bind, Except.bind, hobj]
    have hpe : (requireG rq).Mod.Path = rq.mod.path := rfl
    generalize (requireG rq).Mod.Path = path at hpe ⊢
    subst hpe
    unfold sepLoop
    have hmg := hN.mapGet rq.mod.path
    have hhave := hH.mapGet rq.mod.path
    by_cases h0 : rq.lineId = 0
    · -- nil Syntax: both sides panic
      have hd : Modfile.Edit.deref rq.lineId = .error .nilDeref := by simp [Modfile.Edit.deref, h0, Modfile.Edit.nilId]
      cases hfind : need.find? (·.path == rq.mod.path) with
      | none =>
        rw [hfind] at hmg
        simp only [hmg, decide_true, Bool.true_or, if_true, hd, bind, Except.bind]
        rw [Require_markRemoved_nil hobj h0]
      | some w =>
        rw [hfind] at hmg
        have hne0 : ¬ ((mapGet np rq.mod.path (0 : Int)).1 = 0) := by omega
        simp only [hne0, decide_false, Bool.false_or, hhave, Bool.not_not]
        cases hc : hv.contains rq.mod.path with
        | true =>
          simp only [if_true, hd, bind, Except.bind]
          rw [Require_markRemoved_nil hobj h0]
        | false =>
          simp only [Bool.false_eq_true, if_false, hd, bind, Except.bind, hmg.2]
          rw [Require_setVersion_nil _ hobj h0]
    · have hd : Modfile.Edit.deref rq.lineId = .ok rq.lineId := by simp [Modfile.Edit.deref, h0, Modfile.Edit.nilId]
      obtain ⟨l, hl, hlid⟩ := R.linesG.ofId h0 hle
      cases hfind : need.find? (·.path == rq.mod.path) with
      | none =>
        rw [hfind] at hmg
        simp only [hmg, decide_true, Bool.true_or, if_true, hd, bind, Except.bind]
        rw [Require_markRemoved_eq hobj hl]
        have hr := hremove h0 l hl
        generalize sepLoop ctx need rest hv (Modfile.Edit.markRemoved syn rq.lineId) next = res at hr ⊢
        cases res with
        | error err => exact hr
        | ok res => obtain ⟨rs', hv', syn', next'⟩ := res; exact hr
      | some w =>
        rw [hfind] at hmg
        have hne0 : ¬ ((mapGet np rq.mod.path (0 : Int)).1 = 0) := by omega
        simp only [hne0, decide_false, Bool.false_or, hhave, Bool.not_not]
        cases hc : hv.contains rq.mod.path with
        | true =>
          simp only [if_true, hd, bind, Except.bind]
          rw [Require_markRemoved_eq hobj hl]
          have hr := hremove h0 l hl
          generalize sepLoop ctx need rest hv (Modfile.Edit.markRemoved syn rq.lineId) next = res at hr ⊢
          cases res with
          | error err => exact hr
          | ok res => obtain ⟨rs', hv', syn', next'⟩ := res; exact hr
        | false =>
          -- the entry is kept
          have hnptr : (mapGet np rq.mod.path (0 : Int)).1 ≠ p := by
            have := mapGet_mem (np := np) (k := rq.mod.path) hne0
            exact hnp_ne _ this
          have hn1 : heapGet (verHeap h p rq l w.vers).requires (mapGet np rq.mod.path (0 : Int)).1 =
              .ok (requireG (wantReq w)) := by
            show heapGet (h.requires.set (p.toNat - 1) _) _ = _
            rw [heapGet_listSet_other _ hobj hnptr]; exact hmg.2
          have hn2 : heapGet (bothHeap h p rq l w.vers w.indirect).requires (mapGet np rq.mod.path (0 : Int)).1 =
              .ok (requireG (wantReq w)) := by
            show heapGet (h.requires.set (p.toNat - 1) _) _ = _
            rw [heapGet_listSet_other _ hobj hnptr]; exact hmg.2
          have hp2 : heapGet (bothHeap h p rq l w.vers w.indirect).requires p = .ok (requireG (keptReq rq w)) :=
            heapGet_listSet_same _ hobj
          have hver : Require_setVersion p w.vers h = .ok ((), verHeap h p rq l w.vers) := Require_setVersion_eq w.vers hobj hl
          have hind := setIndirect_after hIdx w.vers w.indirect hobj hl
          have hwv : (requireG (wantReq w)).Mod.Version = w.vers := rfl
          have hwi : (requireG (wantReq w)).Indirect = w.indirect := rfl
          simp only [Bool.false_eq_true, if_false, hd, bind, Except.bind, hmg.2, hwv, hver, hn1, hwi, hind, hn2, hp2,
            pure, Except.pure]
          have hse : (requireG (keptReq rq w)).Syntax = (rq.lineId : Int) := rfl
          generalize (requireG (keptReq rq w)).Syntax = sx at hse ⊢
          subst hse
          -- the represented state after setVersion / setIndirect
          have R1 := R.setLine (IdEquiv_keepLine w) hl
          have R2 := R1.setRequire (i := pre.length) hgetp
            (keptReq rq w) (by show rq.lineId ≤ _; simpa using hle)
          simp only [Int.toNat_natCast] at R2
          have hset : (done ++ rq :: rest).set pre.length (keptReq rq w)
              = done ++ (keptReq rq w) :: rest := by
            rw [← hdl, set_append_mid]
          have R3 : RepFAt (bothHeap h p rq l w.vers w.indirect) o
              (mkE e0 (done ++ (keptReq rq w) :: rest)
                (syn.updateLine rq.lineId (keepLine w)) next) := by
            rw [← hset]; exact R2
          have hN3 : NeedRel (bothHeap h p rq l w.vers w.indirect).requires np need := NeedRel_setOther hN hobj hnp_ne _
          have hH3 : HaveRel (mapSet hp rq.mod.path p) (rq.mod.path :: hv) := hH.mapSet _ _ (heapGet_pos hobj) hc
          have hk : (fun l => setIndirectLine w.indirect (setVersionLine w.vers l)) = keepLine w := rfl
          simp only [hk]
          have hfile3 : heapGet (bothHeap h p rq l w.vers w.indirect).files o.Syntax = .ok fo := hfile
          have hT3 : ∀ rq' ∈ rest, rq'.lineId ≠ 0 → rq'.lineId ∈ treeIds (syn.updateLine rq.lineId (keepLine w)).stmts := by
            intro rq' hrq' h0'; rw [treeIds_keep syn hnd]; exact hTrest rq' hrq' h0'
          have hnd3 : (treeIds (syn.updateLine rq.lineId (keepLine w)).stmts).Nodup := by rw [treeIds_keep syn hnd]; exact hnd
          -- a move to the block at statement index `idx` with pointer `bp`
          have hmove : ∀ (idx : Nat) (bp : Int), fo.Stmt[idx]? = some (Expr.LineBlock bp) →
              (match sepLoop ctx need rest (rq.mod.path :: hv) (moveExisting (syn.updateLine rq.lineId (keepLine w)) rq.lineId idx next)
                  (next + 1) with
              | .ok (rs', hv', syn', next') =>
                ∃ h' hp', (File_SetRequireSeparateIndirect_moveReq isPrint quote fuel p bp (bothHeap h p rq l w.vers w.indirect) >>= fun t =>
                    File_SetRequireSeparateIndirect_loop4 isPrint quote o.Require f ltb ctx.oneFlat dB iB np fuel
                      ((pre.length : Int) + 1) t.2 (mapSet hp rq.mod.path p)) = .ok (len o.Require, h', hp') ∧
                  RepFAt h' o (mkE e0 (done ++ (movedReq rq w next) :: rs') syn' next') ∧
                  HaveRel hp' hv' ∧ NeedRel h'.requires np need ∧ h'.mods = h.mods ∧ heapGet h'.files o.Syntax = .ok fo
              | .error _ =>
                (File_SetRequireSeparateIndirect_moveReq isPrint quote fuel p bp (bothHeap h p rq l w.vers w.indirect) >>= fun t =>
                    File_SetRequireSeparateIndirect_loop4 isPrint quote o.Require f ltb ctx.oneFlat dB iB np fuel
                      ((pre.length : Int) + 1) t.2 (mapSet hp rq.mod.path p)) = .error .panic) := by
            intro idx bp hidx
            have hmem : rq.lineId ∈ treeIds (syn.updateLine rq.lineId (keepLine w)).stmts := by
              rw [treeIds_keep syn hnd]; exact hT rq List.mem_cons_self h0
            obtain ⟨l', hfl⟩ := findLine_of_mem hmem
            obtain ⟨blk, hb, hr', hl', R4⟩ := moveExisting_sim R3 (k := pre.length) (r := p)
              (rq := (keptReq rq w)) (l := l') (idx := idx) (bp := bp)
              hgetp (by rw [← hdl]; exact getElem?_append_mid _ _ _) h0 hfl hfile3 hidx
            rw [moveReq_existing_eq isPrint quote fuel hr' h0 hl' hb]
            simp only [bind, Except.bind]
            have hset4 : (done ++ (keptReq rq w) :: rest).set pre.length
                { keptReq rq w with lineId := next } =
                (done ++ [(movedReq rq w next)]) ++ rest := by
              rw [← hdl, set_append_mid]; simp [movedReq, keptReq]
            rw [hset4] at R4
            have hN4 : NeedRel (moveHeap (bothHeap h p rq l w.vers w.indirect) p
                (keptReq rq w) l' bp blk).requires np need :=
              NeedRel_setOther hN3 hr' hnp_ne _
            have ih' := ih (done ++ [(movedReq rq w next)])
              (rq.mod.path :: hv) (mapSet hp rq.mod.path p)
              (moveExisting (syn.updateLine rq.lineId (keepLine w)) rq.lineId idx next) (next + 1) _ fuel hrx' hri'
              (by simp [hdl]) hpl' R4 hfile3 hN4 hH3
              (by intro rq' hrq' h0'; exact mem_treeIds_moveExisting hnd3 _ _ _ (hT3 rq' hrq' h0')) hf'
            generalize sepLoop ctx need rest (rq.mod.path :: hv) (moveExisting (syn.updateLine rq.lineId (keepLine w)) rq.lineId idx next)
              (next + 1) = res at ih' ⊢
            cases res with
            | error err => exact ih'
            | ok res =>
              obtain ⟨rs', hv', syn', next'⟩ := res
              obtain ⟨h', hp', hrun, R', hH', hN', hm, hfl'⟩ := ih'
              exact ⟨h', hp', hrun, by simpa using R', hH', hN', hm, hfl'⟩
          simp only [bind, Except.bind] at hmove
          -- the two tests
          have hD := hL.direct rq.lineId
          have hI := hL.indirect rq.lineId
          cases hwi' : w.indirect with
          | true =>
            simp only [if_true, Bool.true_and, Bool.not_true, Bool.false_and, Bool.false_eq_true, if_false, hD]
            cases hone : ctx.oneFlat with
            | true =>
              simp only [if_true, Bool.true_or]
              have hm := hmove ctx.indirectIdx iB hii
              simp only [movedReq, keptReq] at hm
              rw [hwi', hone] at hm
              generalize sepLoop ctx need rest (rq.mod.path :: hv)
                (moveExisting (syn.updateLine rq.lineId (keepLine w)) rq.lineId ctx.indirectIdx next) (next + 1) = res at hm ⊢
              cases res with
              | error err => exact hm
              | ok res => obtain ⟨rs', hv', syn', next'⟩ := res; exact hm
            | false =>
              simp only [Bool.false_eq_true, if_false, Bool.false_or]
              cases hib : inBlockOrig ctx rq.lineId ctx.directOrig with
              | true =>
                simp only [if_true]
                have hm := hmove ctx.indirectIdx iB hii
                simp only [movedReq, keptReq] at hm
                rw [hwi', hone] at hm
                generalize sepLoop ctx need rest (rq.mod.path :: hv)
                  (moveExisting (syn.updateLine rq.lineId (keepLine w)) rq.lineId ctx.indirectIdx next) (next + 1) = res at hm ⊢
                cases res with
                | error err => exact hm
                | ok res => obtain ⟨rs', hv', syn', next'⟩ := res; exact hm
              | false =>
                simp only [Bool.false_eq_true, if_false]
                have ih' := ih (done ++ [(keptReq rq w)])
                  (rq.mod.path :: hv) (mapSet hp rq.mod.path p) (syn.updateLine rq.lineId (keepLine w)) next _ fuel hrx' hri'
                  (by simp [hdl]) hpl' (by simpa using R3) hfile3 hN3 hH3 hT3 hf'
                simp only [keptReq] at ih'
                rw [hwi', hone] at ih'
                generalize sepLoop ctx need rest (rq.mod.path :: hv) (syn.updateLine rq.lineId (keepLine w)) next = res at ih' ⊢
                cases res with
                | error err => exact ih'
                | ok res =>
                  obtain ⟨rs', hv', syn', next'⟩ := res
                  obtain ⟨h', hp', hrun, R', hH', hN', hm, hfl'⟩ := ih'
                  exact ⟨h', hp', hrun, by simpa using R', hH', hN', hm, hfl'⟩
          | false =>
            simp only [Bool.false_eq_true, if_false, Bool.false_and, Bool.not_false, Bool.true_and, if_true, hI]
            cases hone : ctx.oneFlat with
            | true =>
              simp only [if_true, Bool.true_or]
              have hm := hmove ctx.directIdx dB hdi
              simp only [movedReq, keptReq] at hm
              rw [hwi', hone] at hm
              generalize sepLoop ctx need rest (rq.mod.path :: hv)
                (moveExisting (syn.updateLine rq.lineId (keepLine w)) rq.lineId ctx.directIdx next) (next + 1) = res at hm ⊢
              cases res with
              | error err => exact hm
              | ok res => obtain ⟨rs', hv', syn', next'⟩ := res; exact hm
            | false =>
              simp only [Bool.false_eq_true, if_false, Bool.false_or]
              cases hib : inBlockOrig ctx rq.lineId ctx.indirectOrig with
              | true =>
                simp only [if_true]
                have hm := hmove ctx.directIdx dB hdi
                simp only [movedReq, keptReq] at hm
                rw [hwi', hone] at hm
                generalize sepLoop ctx need rest (rq.mod.path :: hv)
                  (moveExisting (syn.updateLine rq.lineId (keepLine w)) rq.lineId ctx.directIdx next) (next + 1) = res at hm ⊢
                cases res with
                | error err => exact hm
                | ok res => obtain ⟨rs', hv', syn', next'⟩ := res; exact hm
              | false =>
                simp only [Bool.false_eq_true, if_false]
                have ih' := ih (done ++ [(keptReq rq w)])
                  (rq.mod.path :: hv) (mapSet hp rq.mod.path p) (syn.updateLine rq.lineId (keepLine w)) next _ fuel hrx' hri'
                  (by simp [hdl]) hpl' (by simpa using R3) hfile3 hN3 hH3 hT3 hf'
                simp only [keptReq] at ih'
                rw [hwi', hone] at ih'
                generalize sepLoop ctx need rest (rq.mod.path :: hv) (syn.updateLine rq.lineId (keepLine w)) next = res at ih' ⊢
                cases res with
                | error err => exact ih'
                | ok res =>
                  obtain ⟨rs', hv', syn', next'⟩ := res
                  obtain ⟨h', hp', hrun, R', hH', hN', hm, hfl'⟩ := ih'
                  exact ⟨h', hp', hrun, by simpa using R', hH', hN', hm, hfl'⟩
  | [], _ :: _, _, _, _, _, _, _, _, _, _, _, _, _, hpl, _, _, _, _, _, _ => by simp at hpl
  | _ :: _, [], _, _, _, _, _, _, _, _, _, _, _, _, hpl, _, _, _, _, _, _ => by simp at hpl

end ModVerif.Tie.FnEditSetK
