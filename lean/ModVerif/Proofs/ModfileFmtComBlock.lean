/-
  C02, clause 3 for the comment-derived values, part b: a first-parse fact.

  `parseDirectiveComment` reads the comments of the enclosing BLOCK (`Before` and `Suffix`) for a block line that
  has no comments of its own.  The re-parse of the formatted text moves an end-of-line comment of the block node
  to its `)` (`normBlockE`), so the block's `Suffix` list must be shown to be irrelevant: in every parsed tree a
  block that carries an end-of-line comment itself has NO LINES (it is the one-line block `x ( ) // c`).

  * `eol_next_line`     lexer: the token after a newline / end-of-line-comment token is the end-of-input token
                        or starts on a later source line (`RLay.eol`: the input consumed up to the end of such a
                        token ends with a newline byte, or is the whole input);
  * `parseFile_blockLn` parser: a block built by `parseLineBlock` starts on an earlier source line than its `)`
                        (only the `x ( )` special case of `parseStmt`, which has no lines, is a one-line block);
  * `parse_blockSuf`    `assignComments` gives the block node a comment only if it starts and ends on the same
                        source line, hence only if it has no lines.
-/
import ModVerif.Proofs.ModfileEolOwn2
namespace ModVerif.Proofs.ModfileFmtCom
open ModVerif ModVerif.Modfile ModVerif.Proofs.ModfileLex
open ModVerif.Proofs.ModfileFmtLex ModVerif.Proofs.ModfileFmtTree ModVerif.Proofs.ModfileFmtMain
open ModVerif.Proofs.ModfilePos ModVerif.Proofs.ModfileC20 ModVerif.Proofs.ModfileEol

/-! ### lexer level -/

theorem count_take_le (l : Bytes) (n : Nat) : (l.take n).count 10 ≤ l.count 10 :=
  (List.take_sublist n l).count_le 10

/-- the token after a newline token or an end-of-line comment is the end-of-input token, or it starts on a later
    source line -/
theorem eol_next_line {data : Bytes} {j i : Input} (hj : Reach data j) (hk : j.token.kind.isEOL = true)
    (hne : j.token.kind ≠ .eof) (h : readToken j = .ok i) :
    i.token.kind = .eof ∨ j.token.pos.line < i.token.pos.line := by
  have ht := reach_tokOK2 hj
  rcases (reach_rlay hj).eol (Or.inl hk) with ⟨a, ha⟩ | hd
  · right
    have hf := ht.facts
    have hlt : j.token.pos.byte < j.token.endPos.byte := by
      cases hkk : j.token.kind with
      | eof => exact absurd hkk hne
      | eolComment => exact tok_bytes_lt_comment hj (by rw [hkk]; rfl)
      | punct c => have := punct_end hj c hkk; omega
      | ident => rw [hkk] at hk; cases hk
      | string => rw [hkk] at hk; cases hk
      | comment => rw [hkk] at hk; cases hk
    rw [← ht.endPos] at ha
    have hle := hf.«end».1.le
    have hlen : j.token.endPos.byte = a.length + 1 := by
      have := congrArg List.length ha
      simp only [List.length_take, List.length_append, List.length_cons, List.length_nil] at this
      omega
    have h1 : data.take j.token.pos.byte = a.take j.token.pos.byte := by
      have : data.take j.token.pos.byte = (data.take j.token.endPos.byte).take j.token.pos.byte := by
        rw [List.take_take, Nat.min_eq_left (by omega)]
      rw [this, ha, List.take_append_of_le_length (by omega)]
    have h2 := step_line_le hj h
    have h3 := count_take_le a j.token.pos.byte
    rw [hf.start.1.line, h1]
    rw [hf.«end».1.line, ha, List.count_append] at h2
    simp only [List.count_cons_self, List.count_nil] at h2
    omega
  · left
    apply readToken_at_eof _ h
    rw [← drop_pos ht.inv.base]; exact hd

/-! ### parser level -/

theorem parseLineLoop_mono {data : Bytes} : ∀ (fuel : Nat) (i : Input) (s e : Position) (acc : List Bytes) (l : Line)
    (i' : Input), Reach data i → parseLineLoop fuel i s e acc = .ok (l, i') →
    Reach data i' ∧ i.token.pos.line ≤ i'.token.pos.line := by
  intro fuel
  induction fuel with
  | zero => intro i s e acc l i' _ h; simp [parseLineLoop] at h
  | succ n ih =>
    intro i s e acc l i' hr h
    unfold parseLineLoop at h
    cases hl : lex i with
    | error err => simp [hl, bind, Except.bind] at h
    | ok v =>
      obtain ⟨tok, i1⟩ := v
      simp only [hl, bind, Except.bind] at h
      obtain ⟨htok, hrt⟩ := ModfileFmtEmits.lex_inv hl
      have hr1 : Reach data i1 := Reach.lex hr hrt
      have ha := tok_pos_le_end hr
      have hb := step_line_le hr hrt
      by_cases he : tok.kind.isEOL = true
      · simp only [he, if_true, Except.ok.injEq, Prod.mk.injEq] at h
        obtain ⟨_, rfl⟩ := h
        exact ⟨Reach.setId _ hr1, by show i.token.pos.line ≤ i1.token.pos.line; omega⟩
      · have he' : tok.kind.isEOL = false := by simpa using he
        simp only [he', Bool.false_eq_true, if_false] at h
        obtain ⟨h1, h2⟩ := ih i1 s tok.endPos (tok.text :: acc) l i' hr1 h
        exact ⟨h1, by omega⟩

theorem parseLine_mono {data : Bytes} (fuel : Nat) (i : Input) (l : Line) (i' : Input) (hr : Reach data i)
    (h : parseLine fuel i = .ok (l, i')) : Reach data i' ∧ i.token.pos.line ≤ i'.token.pos.line := by
  unfold parseLine at h
  cases hl : lex i with
  | error err => simp [hl, bind, Except.bind] at h
  | ok v =>
    obtain ⟨tok, i1⟩ := v
    simp only [hl, bind, Except.bind] at h
    obtain ⟨htok, hrt⟩ := ModfileFmtEmits.lex_inv hl
    have hr1 : Reach data i1 := Reach.lex hr hrt
    have ha := tok_pos_le_end hr
    have hb := step_line_le hr hrt
    split at h
    · cases h
    · obtain ⟨h1, h2⟩ := parseLineLoop_mono fuel i1 tok.pos tok.endPos [tok.text] l i' hr1 h
      exact ⟨h1, by omega⟩

/-- the loop of `parseLineBlock`: once the end-of-line token after `(` is consumed, the pending token is below the
    header line; so is the closing `)` -/
theorem parseLineBlockLoop_span {data : Bytes} : ∀ (fuel : Nat) (i : Input) (x : LineBlock) (linesRev : List Line)
    (crev : List Comment) (b : LineBlock) (i' : Input), Reach data i → x.start.line ≤ i.token.pos.line →
    (x.start.line < i.token.pos.line ∨ i.token.kind.isEOL = true) →
    parseLineBlockLoop fuel i x linesRev crev = .ok (b, i') → b.start.line < b.rparen.pos.line ∧ Reach data i' := by
  intro fuel
  induction fuel with
  | zero => intro i x linesRev crev b i' _ _ _ h; simp [parseLineBlockLoop] at h
  | succ n ih =>
    intro i x linesRev crev b i' hr hle hor h
    unfold parseLineBlockLoop at h
    have hstep : ∀ {tok : Token} {i1 : Input}, lex i = .ok (tok, i1) →
        Reach data i1 ∧ x.start.line ≤ i1.token.pos.line ∧
        (i.token.kind.isEOL = true → i.token.kind ≠ .eof →
          (x.start.line < i1.token.pos.line ∨ i1.token.kind.isEOL = true)) ∧
        (x.start.line < i.token.pos.line → x.start.line < i1.token.pos.line) := by
      intro tok i1 hl
      obtain ⟨_, hrt⟩ := ModfileFmtEmits.lex_inv hl
      have ha := tok_pos_le_end hr
      have hb := step_line_le hr hrt
      refine ⟨Reach.lex hr hrt, by omega, ?_, fun h => by omega⟩
      intro hk hne
      rcases eol_next_line hr hk hne hrt with h1 | h1
      · right; rw [h1]; rfl
      · left; omega
    split at h
    · -- end-of-line comment
      rename_i hpk
      have hpk' : i.token.kind = .eolComment := hpk
      cases hl : lex i with
      | error err => simp [hl, bind, Except.bind] at h
      | ok v =>
        simp only [hl, bind, Except.bind] at h
        obtain ⟨h1, h2, h3, _⟩ := hstep hl
        exact ih v.2 x linesRev crev b i' h1 h2 (h3 (by rw [hpk']; rfl) (by rw [hpk']; simp)) h
    · -- blank line
      rename_i hpk
      have hpk' : i.token.kind = .punct 10 := hpk
      cases hl : lex i with
      | error err => simp [hl, bind, Except.bind] at h
      | ok v =>
        simp only [hl, bind, Except.bind] at h
        obtain ⟨h1, h2, h3, _⟩ := hstep hl
        exact ih v.2 x linesRev _ b i' h1 h2 (h3 (by rw [hpk']; rfl) (by rw [hpk']; simp)) h
    · -- whole-line comment
      rename_i hpk
      have hpk' : i.token.kind = .comment := hpk
      have hlt : x.start.line < i.token.pos.line := by
        rcases hor with h0 | h0
        · exact h0
        · rw [hpk'] at h0; cases h0
      cases hl : lex i with
      | error err => simp [hl, bind, Except.bind] at h
      | ok v =>
        simp only [hl, bind, Except.bind] at h
        obtain ⟨h1, h2, _, h4⟩ := hstep hl
        exact ih v.2 x linesRev _ b i' h1 h2 (Or.inl (h4 hlt)) h
    · cases h
    · -- `)`
      rename_i hpk
      have hpk' : i.token.kind = .punct 41 := hpk
      have hlt : x.start.line < i.token.pos.line := by
        rcases hor with h0 | h0
        · exact h0
        · rw [hpk'] at h0; exact absurd h0 (by decide)
      cases hl : lex i with
      | error err => simp [hl, bind, Except.bind] at h
      | ok v =>
        simp only [hl, bind, Except.bind] at h
        obtain ⟨htok, _⟩ := ModfileFmtEmits.lex_inv hl
        obtain ⟨h1, _, _, _⟩ := hstep hl
        split at h
        · cases h
        · cases hl2 : lex v.2 with
          | error err => simp [hl2] at h
          | ok w =>
            simp only [hl2, Except.ok.injEq, Prod.mk.injEq] at h
            obtain ⟨rfl, rfl⟩ := h
            have hr2 : Reach data w.2 := Reach.lex h1 (ModfileFmtEmits.lex_inv hl2).2
            refine ⟨?_, hr2⟩
            show x.start.line < v.1.pos.line
            rw [htok]; exact hlt
    · -- a line
      rename_i hn1 hn2 hn3 hn4 hn5
      have hlt : x.start.line < i.token.pos.line := by
        rcases hor with h0 | h0
        · exact h0
        · exfalso
          cases hkk : i.token.kind with
          | eof => exact hn4 hkk
          | eolComment => exact hn1 hkk
          | punct c =>
            rw [hkk] at h0
            simp only [TokKind.isEOL, beq_iff_eq] at h0
            subst h0
            exact hn2 hkk
          | ident => rw [hkk] at h0; cases h0
          | string => rw [hkk] at h0; cases h0
          | comment => rw [hkk] at h0; cases h0
      cases hp : parseLine (n + 1) i with
      | error err => simp [hp, bind, Except.bind] at h
      | ok v =>
        simp only [hp, bind, Except.bind] at h
        obtain ⟨hr1, hm⟩ := parseLine_mono (n + 1) i v.1 v.2 hr hp
        exact ih v.2 x _ [] b i' hr1 (by omega) (Or.inl (by omega)) h

/-- a block either has no lines or starts on an earlier source line than its `)` -/
def BlkLn : Expr → Prop
  | .lineBlock b => b.lines = [] ∨ b.start.line < b.rparen.pos.line
  | _ => True

theorem parseStmtLoop_span {data : Bytes} : ∀ (fuel : Nat) (i : Input) (s e : Position) (acc : List Bytes) (x : Expr)
    (i' : Input), Reach data i → s.line ≤ i.token.pos.line →
    parseStmtLoop fuel i s e acc = .ok (x, i') → BlkLn x ∧ Reach data i' := by
  intro fuel
  induction fuel with
  | zero => intro i s e acc x i' _ _ h; simp [parseStmtLoop] at h
  | succ n ih =>
    intro i s e acc x i' hr h1 h
    unfold parseStmtLoop at h
    cases hl : lex i with
    | error err => simp [hl, bind, Except.bind] at h
    | ok v =>
      obtain ⟨tok, i1⟩ := v
      simp only [hl, bind, Except.bind] at h
      obtain ⟨htok, hrt⟩ := ModfileFmtEmits.lex_inv hl
      have hr1 : Reach data i1 := Reach.lex hr hrt
      have ha := tok_pos_le_end hr
      have hb := step_line_le hr hrt
      subst htok
      by_cases he : i.token.kind.isEOL = true
      · simp only [he, if_true, Except.ok.injEq, Prod.mk.injEq] at h
        obtain ⟨rfl, rfl⟩ := h
        exact ⟨trivial, Reach.setId _ hr1⟩
      · have he' : i.token.kind.isEOL = false := by simpa using he
        simp only [he', Bool.false_eq_true, if_false] at h
        by_cases hlp : (i.token.kind == TokKind.punct 40) = true
        · simp only [hlp, if_true] at h
          split at h
          · -- start of a block
            rename_i hnext
            cases hb2 : parseLineBlock (n + 1) i1 s acc.reverse i.token with
            | error err => simp [hb2] at h
            | ok w =>
              simp only [hb2, Except.ok.injEq, Prod.mk.injEq] at h
              obtain ⟨rfl, rfl⟩ := h
              unfold parseLineBlock at hb2
              obtain ⟨h2, h3⟩ := parseLineBlockLoop_span (n + 1) i1 _ [] [] w.1 w.2 hr1 (by show s.line ≤ _; omega)
                (Or.inr hnext) hb2
              exact ⟨Or.inr h2, h3⟩
          · split at h
            · cases hl2 : lex i1 with
              | error err => simp [hl2] at h
              | ok w =>
                obtain ⟨rp, i2⟩ := w
                simp only [hl2] at h
                obtain ⟨hrp, hrt2⟩ := ModfileFmtEmits.lex_inv hl2
                have hr2 : Reach data i2 := Reach.lex hr1 hrt2
                split at h
                · -- empty block
                  cases hl3 : lex i2 with
                  | error err => simp [hl3] at h
                  | ok u =>
                    simp only [hl3, Except.ok.injEq, Prod.mk.injEq] at h
                    obtain ⟨rfl, rfl⟩ := h
                    exact ⟨Or.inl rfl, Reach.lex hr2 (ModfileFmtEmits.lex_inv hl3).2⟩
                · -- `( )` in the middle of the line
                  have hc := tok_pos_le_end hr1
                  have hd := step_line_le hr1 hrt2
                  exact ih i2 s e _ x i' hr2 (by omega) h
            · -- `(` in the middle of the line
              exact ih i1 s e _ x i' hr1 (by omega) h
        · simp only [hlp, Bool.false_eq_true, if_false] at h
          exact ih i1 s i.token.endPos _ x i' hr1 (by omega) h

theorem parseStmt_span {data : Bytes} (fuel : Nat) (i : Input) (x : Expr) (i' : Input) (hr : Reach data i)
    (h : parseStmt fuel i = .ok (x, i')) : BlkLn x ∧ Reach data i' := by
  unfold parseStmt at h
  cases hl : lex i with
  | error err => simp [hl, bind, Except.bind] at h
  | ok v =>
    obtain ⟨tok, i1⟩ := v
    simp only [hl, bind, Except.bind] at h
    obtain ⟨htok, hrt⟩ := ModfileFmtEmits.lex_inv hl
    have ha := tok_pos_le_end hr
    have hb := step_line_le hr hrt
    subst htok
    exact parseStmtLoop_span fuel i1 i.token.pos i.token.endPos [i.token.text] x i' (Reach.lex hr hrt) (by omega) h

theorem blkLn_setComments (x : Expr) (c : Comments) (h : BlkLn x) : BlkLn (x.setComments c) := by
  cases x with
  | line l => trivial
  | lineBlock b => exact h
  | commentBlock _ => trivial
  | lparen _ => trivial
  | rparen _ => trivial

theorem parseFileLoop_span {data : Bytes} : ∀ (fuel : Nat) (i : Input) (stmtsRev : List Expr) (cb : Option CommentBlock)
    (out : List Expr) (i' : Input), Reach data i → (∀ s ∈ stmtsRev, BlkLn s) →
    parseFileLoop fuel i stmtsRev cb = .ok (out, i') → ∀ s ∈ out, BlkLn s := by
  intro fuel
  induction fuel with
  | zero => intro i stmtsRev cb out i' _ _ h; simp [parseFileLoop] at h
  | succ n ih =>
    intro i stmtsRev cb out i' hr hst h
    unfold parseFileLoop at h
    have hlex : ∀ {tok : Token} {i1 : Input}, lex i = .ok (tok, i1) → Reach data i1 := by
      intro tok i1 hl
      exact Reach.lex hr (ModfileFmtEmits.lex_inv hl).2
    have hcons : ∀ (c : CommentBlock), ∀ s ∈ Expr.commentBlock c :: stmtsRev, BlkLn s := by
      intro c s hs
      rcases List.mem_cons.1 hs with rfl | hs
      · trivial
      · exact hst s hs
    split at h
    · cases hl : lex i with
      | error err => simp [hl, bind, Except.bind] at h
      | ok v =>
        simp only [hl, bind, Except.bind] at h
        split at h
        · exact ih v.2 _ none out i' (hlex hl) (hcons _) h
        · exact ih v.2 _ none out i' (hlex hl) hst h
    · cases hl : lex i with
      | error err => simp [hl, bind, Except.bind] at h
      | ok v =>
        simp only [hl, bind, Except.bind] at h
        exact ih v.2 _ _ out i' (hlex hl) hst h
    · split at h
      · simp only [Except.ok.injEq, Prod.mk.injEq] at h
        obtain ⟨rfl, _⟩ := h
        intro s hs
        exact hcons _ s (List.mem_reverse.1 hs)
      · simp only [Except.ok.injEq, Prod.mk.injEq] at h
        obtain ⟨rfl, _⟩ := h
        intro s hs
        exact hst s (List.mem_reverse.1 hs)
    · cases hp : parseStmt (n + 1) i with
      | error err => simp [hp, bind, Except.bind] at h
      | ok v =>
        simp only [hp, bind, Except.bind] at h
        obtain ⟨hln, hr1⟩ := parseStmt_span (n + 1) i v.1 v.2 hr hp
        split at h
        · refine ih v.2 _ none out i' hr1 ?_ h
          intro s hs
          rcases List.mem_cons.1 hs with rfl | hs
          · exact blkLn_setComments _ _ hln
          · exact hst s hs
        · refine ih v.2 _ none out i' hr1 ?_ h
          intro s hs
          rcases List.mem_cons.1 hs with rfl | hs
          · exact hln
          · exact hst s hs

/-- ★ every block the parser builds has no lines or starts on an earlier source line than its `)` -/
theorem parseFile_blockLn {data : Bytes} {stmts : List Expr} {i : Input} (h : parseFile data = .ok (stmts, i)) :
    ∀ s ∈ stmts, BlkLn s := by
  unfold parseFile at h
  cases hr : readToken (newInput data) with
  | error err => simp [hr, bind, Except.bind] at h
  | ok i0 =>
    simp only [hr, bind, Except.bind] at h
    exact parseFileLoop_span _ i0 [] none stmts i (Reach.start hr) (by intro s hs; cases hs) h

/-! ### `assignComments` gives the block node a comment only if the block has no lines -/

/-- a block that carries an end-of-line comment on the block node itself has no lines -/
def BlockSuf : Expr → Prop
  | .lineBlock b => b.comments.suffix ≠ [] → b.lines = []
  | _ => True

theorem postStmt_blockSuf (s : Expr) (suf : List Comment) (hs : NoSuf s) (hb : BlkLn s) : BlockSuf (postStmt s suf).1 := by
  cases s with
  | lineBlock b =>
    obtain ⟨hb1, _, _, _⟩ := hs
    simp only [postStmt, BlockSuf]
    intro hne
    have hspan := assignSuffix_span (Expr.lineBlock b).span b.comments suf hb1 hne
    have hspan' : b.start.line = b.rparen.pos.line := hspan
    rcases hb with h0 | h0
    · rw [h0]; rfl
    · omega
  | line l => trivial
  | commentBlock x => trivial
  | lparen x => trivial
  | rparen x => trivial

theorem postStmtsRev_blockSuf : ∀ (ss : List Expr) (suf : List Comment), (∀ s ∈ ss, NoSuf s) → (∀ s ∈ ss, BlkLn s) →
    ∀ s ∈ (postStmtsRev ss suf).1, BlockSuf s := by
  intro ss
  induction ss with
  | nil => intro _ _ _ s hs; cases hs
  | cons s0 ss ih =>
    intro suf hno hb s hs
    simp only [postStmtsRev] at hs
    rcases List.mem_cons.1 hs with rfl | hs
    · exact postStmt_blockSuf s0 suf (hno s0 (by simp)) (hb s0 (by simp))
    · exact ih _ (fun s' h' => hno s' (by simp [h'])) (fun s' h' => hb s' (by simp [h'])) s hs

/-- ★ in every parsed tree, a block whose node carries an end-of-line comment has no lines -/
theorem parse_blockSuf {name x : Bytes} {t : FileSyntax} (h : parse name x = .ok t) : ∀ s ∈ t.stmts, BlockSuf s := by
  unfold parse at h
  cases hp : parseFile x with
  | error e => simp [hp, bind, Except.bind] at h
  | ok v =>
    obtain ⟨stmts, i⟩ := v
    simp only [hp, bind, Except.bind, Except.ok.injEq] at h
    obtain ⟨hwf, hsfx⟩ := ModfileFmtEmits.parseFile_wf' x stmts i hp
    have hln := parseFile_blockLn hp
    have hfl : (i.commentsRev.reverse.filter (fun c => !c.suffix)) = [] := by
      rw [List.filter_eq_nil_iff]
      intro c hc
      simp [hsfx c (by simpa using hc)]
    unfold assignComments at h
    simp only [hfl, assignBefore_nil, preStmts_nil] at h
    subst h
    dsimp only
    have hno : ∀ s ∈ stmts.reverse, NoSuf s := fun s hs => wf_noSuf (hwf s (by simpa using hs))
    intro s hs
    have hs' : s ∈ (postStmtsRev stmts.reverse (i.commentsRev.reverse.filter (fun c => c.suffix)).reverse).1 := by
      simpa using hs
    exact postStmtsRev_blockSuf _ _ hno (fun s' h' => hln s' (by simpa using h')) s hs'

end ModVerif.Proofs.ModfileFmtCom
