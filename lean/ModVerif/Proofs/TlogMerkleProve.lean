/-
  C03: the provers of the model (`proveRecord`, `proveTree`), reading a dense store that satisfies the
  C09 store invariant, produce exactly the RFC 6962 audit path / consistency proof.
  The store invariant is an explicit hypothesis (`StoreOK`, the conclusion of C09 `store_invariant`).
-/
import ModVerif.Model.Tlog
import ModVerif.Spec.RFC6962
import ModVerif.Proofs.TlogBasic
import ModVerif.Proofs.TlogIndex
import ModVerif.Proofs.TlogCheck
import ModVerif.Proofs.TlogMerkleSpec
namespace ModVerif.Tlog
open ModVerif

/-! ### segments of the leaf list -/

/-- records `[lo, hi)` -/
def seg {α : Type} (X : List α) (lo hi : Nat) : List α := (X.drop lo).take (hi - lo)

theorem seg_length {α : Type} (X : List α) (lo hi : Nat) (h1 : lo ≤ hi) (h2 : hi ≤ X.length) :
    (seg X lo hi).length = hi - lo := by
  simp only [seg, List.length_take, List.length_drop]; omega

theorem seg_take {α : Type} (X : List α) (lo hi k : Nat) (h : lo + k ≤ hi) :
    (seg X lo hi).take k = seg X lo (lo + k) := by
  simp only [seg, List.take_take]
  congr 1; omega

theorem seg_drop {α : Type} (X : List α) (lo hi k : Nat) (_h : lo + k ≤ hi) :
    (seg X lo hi).drop k = seg X (lo + k) hi := by
  simp only [seg, List.drop_take, List.drop_drop]
  congr 1; omega

theorem seg_zero {α : Type} (X : List α) (t : Nat) : seg X 0 t = X.take t := by simp [seg]

theorem leavesOf_eq_seg {α : Type} (X : List α) (l q : Nat) :
    RFC6962.leavesOf X l q = seg X (q * 2 ^ l) (q * 2 ^ l + 2 ^ l) := by
  simp only [RFC6962.leavesOf, seg, Nat.add_sub_cancel_left]

/-! ### alignment of the intervals visited by the recursions -/

/-- `[lo, lo+s)` lies inside one aligned block of a power-of-two size -/
def Aligned (lo s : Nat) : Prop := ∃ j, s ≤ 2 ^ j ∧ 2 ^ j ∣ lo

theorem aligned_zero (s : Nat) : Aligned 0 s := ⟨s, Nat.le_of_lt Nat.lt_two_pow_self, Nat.dvd_zero _⟩

theorem Aligned.dvd {lo s l : Nat} (h : Aligned lo s) (hk : 2 ^ l ≤ s) : 2 ^ l ∣ lo := by
  obtain ⟨j, h1, h2⟩ := h
  have : l ≤ j := (Nat.pow_le_pow_iff_right (by omega : 1 < 2)).mp (Nat.le_trans hk h1)
  exact Nat.dvd_trans (Nat.pow_dvd_pow 2 this) h2

theorem aligned_of_dvd {lo s l : Nat} (h : 2 ^ l ∣ lo) (hs : s ≤ 2 ^ l) : Aligned lo s := ⟨l, hs, h⟩

theorem dvd_add_pow {lo l : Nat} (h : 2 ^ l ∣ lo) : 2 ^ l ∣ lo + 2 ^ l := Nat.dvd_add h (Nat.dvd_refl _)

/-- `maxpow2 (s + 1)` for `1 ≤ s < 2^63`: the largest power of two `≤ s` -/
theorem maxpow2_succ_spec (s : Nat) (h1 : 1 ≤ s) (h2 : s < 2 ^ 63) :
    (maxpow2 (s + 1)).1 = 2 ^ (maxpow2 (s + 1)).2 ∧ (maxpow2 (s + 1)).1 ≤ s ∧ s < 2 * (maxpow2 (s + 1)).1 := by
  obtain ⟨a, b, c, d⟩ := maxpow2_spec' (s + 1) (by omega)
  refine ⟨a, by omega, ?_⟩
  rcases d with d | d
  · omega
  · rw [a, d]; omega

/-- `maxpow2 s` for `2 ≤ s ≤ 2^63`: the largest power of two `< s` -/
theorem maxpow2_split_spec (s : Nat) (h1 : 2 ≤ s) (h2 : s ≤ 2 ^ 63) :
    (maxpow2 s).1 = 2 ^ (maxpow2 s).2 ∧ (maxpow2 s).1 < s ∧ s ≤ 2 * (maxpow2 s).1 ∧
      (maxpow2 s).1 = RFC6962.splitPoint s := by
  obtain ⟨a, b, c, d⟩ := maxpow2_spec' s (by omega)
  refine ⟨a, b, ?_, maxpow2_fst_eq_splitPoint s (by omega) h2⟩
  rcases d with d | d
  · omega
  · rw [a, d]; omega

/-- the split point of a size strictly between `k = 2^l` and `2k` is `k` -/
theorem splitPoint_of_between (s l : Nat) (h1 : 2 ^ l < s) (h2 : s ≤ 2 * 2 ^ l) : RFC6962.splitPoint s = 2 ^ l := by
  unfold RFC6962.splitPoint
  congr 1
  have hne : s - 1 ≠ 0 := by have := Nat.two_pow_pos l; omega
  have a : l ≤ (s - 1).log2 := (Nat.le_log2 hne).mpr (by omega)
  have b : (s - 1).log2 < l + 1 := (Nat.log2_lt hne).mpr (by rw [Nat.pow_succ]; omega)
  omega

/-! ### reading through the store -/

section
variable {H : Type}

theorem mapM_some_append {α β : Type} (f : α → Option β) (l₁ l₂ : List α) (a b : List β)
    (h1 : l₁.mapM f = some a) (h2 : l₂.mapM f = some b) : (l₁ ++ l₂).mapM f = some (a ++ b) := by
  rw [List.mapM_append, h1, h2]; rfl

theorem mapM_some_length {α β : Type} (f : α → Option β) : ∀ (l : List α) (a : List β),
    l.mapM f = some a → a.length = l.length := by
  intro l
  induction l with
  | nil => intro a h; simp at h; subst h; rfl
  | cons x xs ih =>
    intro a h
    rw [List.mapM_cons] at h
    cases hx : f x with
    | none => rw [hx] at h; cases h
    | some y =>
      cases hr : xs.mapM f with
      | none => rw [hx, hr] at h; cases h
      | some r =>
        rw [hx, hr] at h
        have : a = y :: r := (Option.some.inj h).symm
        subst this
        simp [ih r hr]

/-- right-to-left fold of a non-empty list of subtree hashes -/
def foldR (node : H → H → H) : List H → Option H
  | [] => none
  | [h] => some h
  | h :: rest => (foldR node rest).map (node h)

theorem foldl_snoc (node : H → H → H) (r : List H) (h last : H) :
    (r ++ [h]).foldl (fun a x => node x a) last = node h (r.foldl (fun a x => node x a) last) := by
  simp [List.foldl_append]

theorem foldRight_reverse (node : H → H → H) : ∀ hs : List H, foldRight node hs.reverse = foldR node hs := by
  intro hs
  induction hs with
  | nil => rfl
  | cons h rest ih =>
    cases rest with
    | nil => rfl
    | cons h2 r2 =>
      have : foldR node (h :: h2 :: r2) = (foldR node (h2 :: r2)).map (node h) := rfl
      rw [this, ← ih]
      rw [List.reverse_cons]
      cases hrev : (h2 :: r2).reverse with
      | nil => simp at hrev
      | cons last r' =>
        simp only [List.cons_append, foldRight, Option.map_some]
        rw [foldl_snoc]

/-- the store invariant of C09 (conclusion of `store_invariant`) -/
def StoreOK (leaf : Bytes → H) (node : H → H → H) (empty : H) (D : List Bytes) (st : List H) : Prop :=
  st.length = storedHashCount D.length ∧
    ∀ (p l k : Nat), (RFC6962.layout D.length)[p]? = some (l, k) →
      st[p]? = some (RFC6962.mth node empty (RFC6962.leavesOf (D.map leaf) l k))

theorem StoreOK.read {leaf : Bytes → H} {node : H → H → H} {empty : H} {D : List Bytes} {st : List H}
    (h : StoreOK leaf node empty D st) (l q : Nat) (hq : q * 2 ^ l + 2 ^ l ≤ D.length) :
    st[storedHashIndex l q]? = some (RFC6962.mth node empty (seg (D.map leaf) (q * 2 ^ l) (q * 2 ^ l + 2 ^ l))) := by
  rw [← leavesOf_eq_seg]
  apply h.2 _ l q
  apply storedHashIndex_layout
  rw [Nat.add_mul]; omega

end

/-! ### subTreeIndex / subTreeHash: the maximal complete subtrees of an aligned interval, folded right to left -/

theorem subTreeIndexF_empty (f lo hi : Nat) (h : ¬ lo < hi) : subTreeIndexF f lo hi = .ok [] := by
  cases f <;> simp [subTreeIndexF, h]

theorem numTreeF_empty (f lo hi : Nat) (h : ¬ lo < hi) : numTreeF f lo hi = .ok 0 := by
  cases f <;> simp [numTreeF, h]

section
variable {H : Type} (leaf : Bytes → H) (node : H → H → H) (empty : H) (D : List Bytes) (st : List H)

theorem subTree_spec (hst : StoreOK leaf node empty D st) : ∀ f lo hi, lo < hi → hi ≤ D.length →
    Aligned lo (hi - lo) → hi - lo ≤ f → hi - lo < 2 ^ 63 →
    ∃ idx hs, subTreeIndexF f lo hi = .ok idx ∧ idx.mapM (st[·]?) = some hs ∧ numTreeF f lo hi = .ok hs.length ∧
      hs ≠ [] ∧ foldR node hs = some (RFC6962.mth node empty (seg (D.map leaf) lo hi)) := by
  intro f
  induction f with
  | zero => intro lo hi h1 _ _ h3; omega
  | succ f ih =>
    intro lo hi h1 h2 hal hf hr
    obtain ⟨ka, kb, kc⟩ := maxpow2_succ_spec (hi - lo) (by omega) hr
    have hdvd : 2 ^ (maxpow2 (hi - lo + 1)).2 ∣ lo := hal.dvd (by rw [← ka]; exact kb)
    have hkpos := maxpow2_fst_pos (hi - lo + 1)
    have hand : (lo &&& ((maxpow2 (hi - lo + 1)).1 - 1) != 0) = false := by
      rw [ka, Nat.and_two_pow_sub_one_eq_mod, Nat.mod_eq_zero_of_dvd hdvd]; rfl
    have hshift : lo >>> (maxpow2 (hi - lo + 1)).2 * 2 ^ (maxpow2 (hi - lo + 1)).2 = lo := by
      rw [Nat.shiftRight_eq_div_pow]; exact Nat.div_mul_cancel hdvd
    -- the hash of the first (largest) complete subtree
    have hread := hst.read (maxpow2 (hi - lo + 1)).2 (lo >>> (maxpow2 (hi - lo + 1)).2)
      (by rw [hshift, ← ka]; omega)
    rw [hshift, ← ka] at hread
    unfold subTreeIndexF numTreeF
    simp only [h1, ↓reduceIte, hand, Bool.false_eq_true, Bool.false_or, decide_eq_true_eq]
    have hge : ¬ lo ≥ hi := by omega
    simp only [hge, ↓reduceIte]
    by_cases hend : lo + (maxpow2 (hi - lo + 1)).1 = hi
    · -- a single complete subtree
      rw [hend, subTreeIndexF_empty f hi hi (by omega), numTreeF_empty f hi hi (by omega)]
      refine ⟨[_], [RFC6962.mth node empty (seg (D.map leaf) lo (lo + (maxpow2 (hi - lo + 1)).1))], rfl, ?_, rfl, by simp, ?_⟩
      · rw [List.mapM_cons, hread]; rfl
      · rw [hend]; rfl
    · have hlt : lo + (maxpow2 (hi - lo + 1)).1 < hi := by omega
      obtain ⟨idx, hs, e1, e2, e3, e4, e5⟩ := ih (lo + (maxpow2 (hi - lo + 1)).1) hi hlt h2
        (aligned_of_dvd (by rw [ka]; exact dvd_add_pow hdvd) (by rw [← ka]; omega)) (by omega) (by omega)
      rw [e1, e3]
      refine ⟨_ :: idx, RFC6962.mth node empty (seg (D.map leaf) lo (lo + (maxpow2 (hi - lo + 1)).1)) :: hs, rfl, ?_, rfl,
        by simp, ?_⟩
      · rw [List.mapM_cons, hread, e2]; rfl
      · have hlen := seg_length (D.map leaf) lo hi (by omega) (by simpa using h2)
        have hsp : RFC6962.splitPoint (seg (D.map leaf) lo hi).length = (maxpow2 (hi - lo + 1)).1 := by
          rw [hlen, ka]
          exact splitPoint_of_between _ _ (by rw [← ka]; omega) (by rw [← ka]; omega)
        rw [RFC6962.mth_split node empty (seg (D.map leaf) lo hi) (by rw [hlen]; omega), hsp,
          seg_take _ _ _ _ (by omega), seg_drop _ _ _ _ (by omega)]
        cases hs with
        | nil => exact absurd rfl e4
        | cons x xs =>
          show (foldR node (x :: xs)).map (node _) = _
          rw [e5]; rfl

/-- `subTreeHash` over the hashes read for `subTreeIndex`, with leftover -/
theorem subTree_hash (hst : StoreOK leaf node empty D st) (lo hi : Nat) (h1 : lo < hi) (h2 : hi ≤ D.length)
    (hal : Aligned lo (hi - lo)) (hr : hi - lo < 2 ^ 63) :
    ∃ idx hs, subTreeIndex lo hi = .ok idx ∧ idx.mapM (st[·]?) = some hs ∧ hs ≠ [] ∧
      ∀ rest, subTreeHash node lo hi (hs ++ rest) = .ok (RFC6962.mth node empty (seg (D.map leaf) lo hi), rest) := by
  obtain ⟨idx, hs, e1, e2, e3, e4, e5⟩ := subTree_spec leaf node empty D st hst (hi - lo) lo hi h1 h2 hal (Nat.le_refl _) hr
  refine ⟨idx, hs, e1, e2, e4, ?_⟩
  intro rest
  unfold subTreeHash
  rw [e3]
  simp only [bind, Except.bind, List.length_append]
  rw [if_neg (by omega), List.take_left, foldRight_reverse, e5]
  simp

/-! ### leafProofIndex / leafProof -/

theorem leafProof_spec (hst : StoreOK leaf node empty D st) : ∀ f lo hi n, lo ≤ n → n < hi → hi ≤ D.length →
    Aligned lo (hi - lo) → hi - lo ≤ f → hi - lo < 2 ^ 63 →
    ∃ idx hs, leafProofIndexF f lo hi n = .ok idx ∧ idx.mapM (st[·]?) = some hs ∧
      (hs = [] → RFC6962.path node empty (n - lo) (seg (D.map leaf) lo hi) = []) ∧
      ∀ rest, leafProofF node f lo hi n (hs ++ rest) =
        .ok (RFC6962.path node empty (n - lo) (seg (D.map leaf) lo hi), rest) := by
  intro f
  induction f with
  | zero => intro lo hi n h1 h2 _ _ h3; omega
  | succ f ih =>
    intro lo hi n h1 h2 h3 hal hf hr
    have hlen := seg_length (D.map leaf) lo hi (by omega) (by simpa using h3)
    unfold leafProofIndexF leafProofF
    have hg : (!(decide (lo ≤ n) && decide (n < hi))) = false := by simp [h1, h2]
    simp only [hg, Bool.false_eq_true, ↓reduceIte]
    by_cases hone : lo + 1 = hi
    · have hp : RFC6962.path node empty (n - lo) (seg (D.map leaf) lo hi) = [] :=
        RFC6962.path_small node empty _ _ (by rw [hlen]; omega)
      simp only [hone, beq_self_eq_true, ↓reduceIte]
      exact ⟨[], [], rfl, rfl, fun _ => hp, fun rest => by rw [hp]; rfl⟩
    · have h6 : (lo + 1 == hi) = false := by simp [hone]
      simp only [h6, Bool.false_eq_true, ↓reduceIte]
      obtain ⟨ka, kb, kc, kd⟩ := maxpow2_split_spec (hi - lo) (by omega) (by omega)
      have hkpos := maxpow2_fst_pos (hi - lo)
      have hdvd : 2 ^ (maxpow2 (hi - lo)).2 ∣ lo := hal.dvd (by rw [← ka]; omega)
      have hsp : RFC6962.splitPoint (seg (D.map leaf) lo hi).length = (maxpow2 (hi - lo)).1 := by rw [hlen, kd]
      by_cases hb : n < lo + (maxpow2 (hi - lo)).1
      · simp only [hb, ↓reduceIte]
        obtain ⟨ia, ha, a1, a2, a3, a4⟩ := ih lo (lo + (maxpow2 (hi - lo)).1) n h1 hb (by omega)
          (aligned_of_dvd hdvd (by rw [← ka]; omega)) (by omega) (by omega)
        obtain ⟨ib, hb', b1, b2, b3, b4⟩ := subTree_hash leaf node empty D st hst (lo + (maxpow2 (hi - lo)).1) hi
          (by omega) h3 (aligned_of_dvd (by rw [ka]; exact dvd_add_pow hdvd) (by rw [← ka]; omega)) (by omega)
        have hpath : RFC6962.path node empty (n - lo) (seg (D.map leaf) lo hi) =
            RFC6962.path node empty (n - lo) (seg (D.map leaf) lo (lo + (maxpow2 (hi - lo)).1)) ++
              [RFC6962.mth node empty (seg (D.map leaf) (lo + (maxpow2 (hi - lo)).1) hi)] := by
          rw [RFC6962.path_left node empty (n - lo) _ (by rw [hlen]; omega) (by rw [hsp]; omega), hsp,
            seg_take _ _ _ _ (by omega), seg_drop _ _ _ _ (by omega)]
        rw [a1, b1]
        refine ⟨ia ++ ib, ha ++ hb', rfl, mapM_some_append _ _ _ _ _ a2 b2, ?_, ?_⟩
        · intro hc; exfalso; apply b3; simpa using (List.append_eq_nil_iff.mp hc).2
        · intro rest
          rw [List.append_assoc, a4, hpath]
          simp only [bind, Except.bind]
          rw [b4]
          rfl
      · simp only [hb, ↓reduceIte]
        obtain ⟨ia, ha, a1, a2, a3, a4⟩ := subTree_hash leaf node empty D st hst lo (lo + (maxpow2 (hi - lo)).1)
          (by omega) (by omega) (aligned_of_dvd hdvd (by rw [← ka]; omega)) (by omega)
        obtain ⟨ib, hb', b1, b2, b3, b4⟩ := ih (lo + (maxpow2 (hi - lo)).1) hi n (by omega) h2 h3
          (aligned_of_dvd (by rw [ka]; exact dvd_add_pow hdvd) (by rw [← ka]; omega)) (by omega) (by omega)
        have hpath : RFC6962.path node empty (n - lo) (seg (D.map leaf) lo hi) =
            RFC6962.path node empty (n - (lo + (maxpow2 (hi - lo)).1)) (seg (D.map leaf) (lo + (maxpow2 (hi - lo)).1) hi) ++
              [RFC6962.mth node empty (seg (D.map leaf) lo (lo + (maxpow2 (hi - lo)).1))] := by
          rw [RFC6962.path_right node empty (n - lo) _ (by rw [hlen]; omega) (by rw [hsp]; omega), hsp,
            seg_take _ _ _ _ (by omega), seg_drop _ _ _ _ (by omega)]
          congr 2; omega
        rw [a1, b1]
        refine ⟨ia ++ ib, ha ++ hb', rfl, mapM_some_append _ _ _ _ _ a2 b2, ?_, ?_⟩
        · intro hc; exfalso; apply a3; simpa using (List.append_eq_nil_iff.mp hc).1
        · intro rest
          rw [List.append_assoc, a4, hpath]
          simp only [bind, Except.bind]
          rw [b4]
          rfl

omit D st in
theorem readChecked_storeReader (st : List H) (idx : List Nat) (hs : List H) (h : idx.mapM (st[·]?) = some hs) :
    readChecked (storeReader st) idx = .ok hs := by
  unfold readChecked storeReader
  rw [h]
  simp [mapM_some_length _ idx hs h]

/-- ★ `ProveRecord(t, n)` over a store satisfying the C09 invariant is the RFC 6962 audit path `PATH(n, D[0:t])` -/
theorem proveRecord_eq_PATH_of_storeOK (hst : StoreOK leaf node empty D st) (t n : Nat) (hn : n < t) (ht : t ≤ D.length)
    (hr : t < 2 ^ 63) :
    proveRecord node t n (storeReader st) = .ok (RFC6962.path node empty n ((D.map leaf).take t)) := by
  unfold proveRecord
  have hg : (decide ((t : Int) < 0) || decide ((n : Int) < 0) || decide ((n : Int) ≥ (t : Int))) = false := by
    simp; omega
  simp only [hg, Bool.false_eq_true, ↓reduceIte, Int.toNat_natCast]
  obtain ⟨idx, hs, e1, e2, e3, e4⟩ := leafProof_spec leaf node empty D st hst (t - 0) 0 t n (Nat.zero_le _) hn ht
    (aligned_zero _) (Nat.le_refl _) (by omega)
  rw [seg_zero, Nat.sub_zero] at e3 e4
  unfold leafProofIndex leafProof
  rw [e1]
  simp only [bind, Except.bind]
  by_cases hz : idx.length = 0
  · have : idx = [] := List.eq_nil_of_length_eq_zero hz
    subst this
    simp only [List.mapM_nil] at e2
    have : hs = [] := (Option.some.inj e2).symm
    rw [e3 this]
    simp [pure, Except.pure]
  · have hz' : (idx.length == 0) = false := by simp [hz]
    simp only [hz', Bool.false_eq_true, ↓reduceIte]
    rw [readChecked_storeReader st idx hs e2]
    have := e4 []
    rw [List.append_nil] at this
    simp only [Nat.sub_zero] at this ⊢
    rw [this]
    simp [pure, Except.pure]

/-! ### treeProofIndex / treeProof -/

theorem treeProof_spec (hst : StoreOK leaf node empty D st) : ∀ f lo hi n, lo < n → n ≤ hi → hi ≤ D.length →
    Aligned lo (hi - lo) → hi - lo ≤ f → hi - lo < 2 ^ 63 →
    ∃ idx hs, treeProofIndexF f lo hi n = .ok idx ∧ idx.mapM (st[·]?) = some hs ∧
      (hs = [] → RFC6962.subProof node empty (n - lo) (seg (D.map leaf) lo hi) (lo == 0) = []) ∧
      ∀ rest, treeProofF node f lo hi n (hs ++ rest) =
        .ok (RFC6962.subProof node empty (n - lo) (seg (D.map leaf) lo hi) (lo == 0), rest) := by
  intro f
  induction f with
  | zero => intro lo hi n h1 h2 _ _ h3; omega
  | succ f ih =>
    intro lo hi n h1 h2 h3 hal hf hr
    have hlen := seg_length (D.map leaf) lo hi (by omega) (by simpa using h3)
    unfold treeProofIndexF treeProofF
    have hg : (!(decide (lo < n) && decide (n ≤ hi))) = false := by simp [h1, h2]
    simp only [hg, Bool.false_eq_true, ↓reduceIte]
    by_cases heq : n = hi
    · have hfull : RFC6962.subProof node empty (n - lo) (seg (D.map leaf) lo hi) (lo == 0) =
          if (lo == 0) = true then [] else [RFC6962.mth node empty (seg (D.map leaf) lo hi)] := by
        have : n - lo = (seg (D.map leaf) lo hi).length := by rw [hlen, heq]
        rw [this, RFC6962.subProof_full]
      simp only [heq, beq_self_eq_true, ↓reduceIte]
      rw [heq] at hfull
      by_cases hz : lo = 0
      · simp only [hz, beq_self_eq_true, ↓reduceIte] at hfull ⊢
        exact ⟨[], [], rfl, rfl, fun _ => hfull, fun rest => by rw [hfull]; rfl⟩
      · have hz' : (lo == 0) = false := by simp [hz]
        simp only [hz', Bool.false_eq_true, ↓reduceIte] at hfull ⊢
        obtain ⟨ia, ha, a1, a2, a3, a4⟩ := subTree_hash leaf node empty D st hst lo hi (by omega) h3 hal hr
        refine ⟨ia, ha, a1, a2, fun hc => absurd hc a3, ?_⟩
        intro rest
        rw [a4, hfull]
        rfl
    · have h6 : (n == hi) = false := by simp [heq]
      simp only [h6, Bool.false_eq_true, ↓reduceIte]
      obtain ⟨ka, kb, kc, kd⟩ := maxpow2_split_spec (hi - lo) (by omega) (by omega)
      have hkpos := maxpow2_fst_pos (hi - lo)
      have hdvd : 2 ^ (maxpow2 (hi - lo)).2 ∣ lo := hal.dvd (by rw [← ka]; omega)
      have hsp : RFC6962.splitPoint (seg (D.map leaf) lo hi).length = (maxpow2 (hi - lo)).1 := by rw [hlen, kd]
      by_cases hb : n ≤ lo + (maxpow2 (hi - lo)).1
      · simp only [hb, ↓reduceIte]
        obtain ⟨ia, ha, a1, a2, a3, a4⟩ := ih lo (lo + (maxpow2 (hi - lo)).1) n h1 hb (by omega)
          (aligned_of_dvd hdvd (by rw [← ka]; omega)) (by omega) (by omega)
        obtain ⟨ib, hb', b1, b2, b3, b4⟩ := subTree_hash leaf node empty D st hst (lo + (maxpow2 (hi - lo)).1) hi
          (by omega) h3 (aligned_of_dvd (by rw [ka]; exact dvd_add_pow hdvd) (by rw [← ka]; omega)) (by omega)
        have hproof : RFC6962.subProof node empty (n - lo) (seg (D.map leaf) lo hi) (lo == 0) =
            RFC6962.subProof node empty (n - lo) (seg (D.map leaf) lo (lo + (maxpow2 (hi - lo)).1)) (lo == 0) ++
              [RFC6962.mth node empty (seg (D.map leaf) (lo + (maxpow2 (hi - lo)).1) hi)] := by
          rw [RFC6962.subProof_left node empty (n - lo) _ _ (by rw [hlen]; omega) (by omega) (by rw [hlen]; omega)
            (by rw [hsp]; omega), hsp, seg_take _ _ _ _ (by omega), seg_drop _ _ _ _ (by omega)]
        rw [a1, b1]
        refine ⟨ia ++ ib, ha ++ hb', rfl, mapM_some_append _ _ _ _ _ a2 b2, ?_, ?_⟩
        · intro hc; exfalso; apply b3; simpa using (List.append_eq_nil_iff.mp hc).2
        · intro rest
          rw [List.append_assoc, a4, hproof]
          simp only [bind, Except.bind]
          rw [b4]
          rfl
      · simp only [hb, ↓reduceIte]
        obtain ⟨ia, ha, a1, a2, a3, a4⟩ := subTree_hash leaf node empty D st hst lo (lo + (maxpow2 (hi - lo)).1)
          (by omega) (by omega) (aligned_of_dvd hdvd (by rw [← ka]; omega)) (by omega)
        obtain ⟨ib, hb', b1, b2, b3, b4⟩ := ih (lo + (maxpow2 (hi - lo)).1) hi n (by omega) h2 h3
          (aligned_of_dvd (by rw [ka]; exact dvd_add_pow hdvd) (by rw [← ka]; omega)) (by omega) (by omega)
        have e3 : (lo + (maxpow2 (hi - lo)).1 == 0) = false := by simp; omega
        rw [e3] at b3 b4
        have hproof : RFC6962.subProof node empty (n - lo) (seg (D.map leaf) lo hi) (lo == 0) =
            RFC6962.subProof node empty (n - (lo + (maxpow2 (hi - lo)).1))
                (seg (D.map leaf) (lo + (maxpow2 (hi - lo)).1) hi) false ++
              [RFC6962.mth node empty (seg (D.map leaf) lo (lo + (maxpow2 (hi - lo)).1))] := by
          rw [RFC6962.subProof_right node empty (n - lo) _ _ (by rw [hlen]; omega) (by rw [hlen]; omega)
            (by rw [hlen]; omega) (by rw [hsp]; omega), hsp, seg_take _ _ _ _ (by omega), seg_drop _ _ _ _ (by omega)]
          congr 2; omega
        rw [a1, b1]
        refine ⟨ia ++ ib, ha ++ hb', rfl, mapM_some_append _ _ _ _ _ a2 b2, ?_, ?_⟩
        · intro hc; exfalso; apply a3; simpa using (List.append_eq_nil_iff.mp hc).1
        · intro rest
          rw [List.append_assoc, a4, hproof]
          simp only [bind, Except.bind]
          rw [b4]
          rfl

/-- ★ `ProveTree(t, n)` over a store satisfying the C09 invariant is the RFC 6962 consistency proof `PROOF(n, D[0:t])` -/
theorem proveTree_eq_PROOF_of_storeOK (hst : StoreOK leaf node empty D st) (t n : Nat) (h1 : 1 ≤ n) (hn : n ≤ t)
    (ht : t ≤ D.length) (hr : t < 2 ^ 63) :
    proveTree node t n (storeReader st) = .ok (RFC6962.proof node empty n ((D.map leaf).take t)) := by
  unfold proveTree
  have hg : (decide ((t : Int) < 1) || decide ((n : Int) < 1) || decide ((n : Int) > (t : Int))) = false := by
    simp; omega
  simp only [hg, Bool.false_eq_true, ↓reduceIte, Int.toNat_natCast]
  obtain ⟨idx, hs, e1, e2, e3, e4⟩ := treeProof_spec leaf node empty D st hst (t - 0) 0 t n (by omega) hn ht
    (aligned_zero _) (Nat.le_refl _) (by omega)
  rw [seg_zero, Nat.sub_zero] at e3 e4
  simp only [beq_self_eq_true, Nat.sub_zero] at e3 e4
  rw [RFC6962.proof_eq_subProof]
  unfold treeProofIndex treeProof
  rw [e1]
  simp only [bind, Except.bind]
  by_cases hz : idx.length = 0
  · have : idx = [] := List.eq_nil_of_length_eq_zero hz
    subst this
    simp only [List.mapM_nil] at e2
    have : hs = [] := (Option.some.inj e2).symm
    rw [e3 this]
    simp [pure, Except.pure]
  · have hz' : (idx.length == 0) = false := by simp [hz]
    simp only [hz', Bool.false_eq_true, ↓reduceIte]
    rw [readChecked_storeReader st idx hs e2]
    have := e4 []
    rw [List.append_nil] at this
    simp only [Nat.sub_zero] at this ⊢
    rw [this]
    simp [pure, Except.pure]

end
end ModVerif.Tlog
