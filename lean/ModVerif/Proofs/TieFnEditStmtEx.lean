/-
  Test harness of the non-vacuity examples of Tie/FnEditStmt.lean (agent edit-stmt): a parsed go.mod is loaded into a heap
  with the driver's `Drv.GenEdit.load` (`FnEditRep.load_rep`: the loaded heap represents `Edit.load` of the file), an
  operation is run, the whole file is read back with the driver's `fileM` and compared with the hand model applied to
  `Edit.load` of the same file (`fileM` does not read the `lineId`s of the typed entries back: they are zeroed on the model
  side, the line ids of the syntax tree ARE compared).  Everything is kernel-evaluated (`decide +kernel`).
-/
import ModVerif.Proofs.TieFnEditRep
namespace ModVerif.Tie.FnEditStmtEx
open ModVerif ModVerif.GoRt ModVerif.Generated.Edit ModVerif.Tie.FnEditRep

/-- module, go, toolchain, godebug, tool and a two-line require block -/
def exFile : Bytes :=
  B "module m\n\ngo 1.21\n\ntoolchain go1.21.0\n\ngodebug a=b\n\ntool x.y/z\n\nrequire (\n\ta.b/c v1.0.0\n\td.e/f v1.2.3 // indirect\n)\n"

/-- no scalar statement: a require block and an exclude block -/
def exFile0 : Bytes := B "require (\n\ta.b/c v1.0.0\n)\n\nexclude (\n\tx.y/z v1.0.0\n)\n"

/-- two godebug lines with the same key and two tool lines -/
def exFile2 : Bytes := B "module m\n\ngodebug a=b\ngodebug c=d\ngodebug a=e\n\ntool x.y/z\ntool u.v/w\n"

def parsed (file : Bytes) : Modfile.File :=
  match Modfile.parseStrict (B "go.mod") file none with
  | .ok f => f
  | .error _ => default

def exH (file : Bytes) : Heap := (Drv.GenEdit.load (parsed file)).1
def exP (file : Bytes) : Int := (Drv.GenEdit.load (parsed file)).2
def exE (file : Bytes) : Modfile.Edit.EFile := Modfile.Edit.load (parsed file)

/-- the loaded heap represents the loaded model file -/
theorem exRep (file : Bytes) (ok : loadOKB (parsed file) = true) : RepF (exH file) (exP file) (exE file) :=
  load_rep (parsed file) (loadOKB_sound ok)

/-- an optional entry points at a line -/
def optOK {α : Type} (id : α → Nat) : Option α → Bool
  | some x => id x != 0
  | none => true

theorem optOK_sound {α : Type} {id : α → Nat} {o : Option α} (h : optOK id o = true) : ∀ x, o = some x → id x ≠ 0 := by
  intro x hx
  subst hx
  simpa [optOK] using h

def zeroIds (f : Modfile.File) : Modfile.File :=
  { f with module := f.module.map fun m => { m with lineId := 0 },
           go := f.go.map fun g => { g with lineId := 0 },
           toolchain := f.toolchain.map fun t => { t with lineId := 0 },
           godebug := f.godebug.map fun g => { g with lineId := 0 },
           require := f.require.map fun r => { r with lineId := 0 },
           exclude := f.exclude.map fun r => { r with lineId := 0 },
           replace := f.replace.map fun r => { r with lineId := 0 },
           retract := f.retract.map fun r => { r with lineId := 0 },
           tool := f.tool.map fun t => { t with lineId := 0 } }

/-- run an operation on the loaded heap, read the file back: (returned nil?, file); `none` = panic / fuel / bad heap -/
def run (file : Bytes) (op : Int → Heap → M ((Option String) × Heap)) : Option (Bool × Modfile.File) :=
  match op (exP file) (exH file) with
  | .ok (r, h') => (Drv.GenEdit.fileM h' (exP file)).map fun g => (r.isNone, g)
  | .error _ => none

def runU (file : Bytes) (op : Int → Heap → M (Unit × Heap)) : Option (Bool × Modfile.File) :=
  run file fun fp h => (op fp h).map fun r => (none, r.2)

/-- the model side: a returned error leaves the file alone, a panic is `none` -/
def model (file : Bytes) (g : Modfile.Edit.EFile → Except Modfile.Edit.EditErr Modfile.Edit.EFile) : Option (Bool × Modfile.File) :=
  match g (exE file) with
  | .ok e' => some (true, zeroIds e'.f)
  | .error err => if err.isReturned then some (false, zeroIds (exE file).f) else none

def modelU (file : Bytes) (g : Modfile.Edit.EFile → Modfile.Edit.EFile) : Option (Bool × Modfile.File) :=
  model file fun e => .ok (g e)

end ModVerif.Tie.FnEditStmtEx
