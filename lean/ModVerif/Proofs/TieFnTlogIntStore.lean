/-
  Tie proofs, part 3: `StoredHashesForRecordHash` (generic in the hash type and in the reader).
-/
import ModVerif.Proofs.TieFnTlogIntTree
namespace ModVerif.TieFnTlogInt
open ModVerif ModVerif.GoRt

/-- the indexes `StoredHashesForRecordHash(n, …)` reads (the model's list) -/
def shIndexes (n : Nat) : List Nat :=
  ((List.range (Tlog.trailingZeros64 (n + 1))).map fun i => Tlog.storedHashIndex i ((n >>> i) - 1)).reverse

theorem tzAux_le : ∀ f n, Tlog.tzAux f n ≤ f := by
  intro f
  induction f with
  | zero => intro n; simp [Tlog.tzAux]
  | succ f ih =>
    intro n
    have := ih (n / 2)
    simp only [Tlog.tzAux]
    split <;> omega

theorem le_storedHashIndex (l n : Nat) : n ≤ Tlog.storedHashIndex l n := by
  have e : Tlog.storedHashIndex l n = Tlog.S (Tlog.descend l n) + l := rfl
  have := le_descend l n
  have := TlogStore.le_S (Tlog.descend l n)
  omega

theorem trailingZeros64_le (n : Nat) : Tlog.trailingZeros64 n ≤ 64 := tzAux_le 64 _

section
variable {H : Type} [DecidableEq H] [Inhabited H]

/-- loop 1: `for i := 0; i < m; i++ { indexes[m-1-i] = StoredHashIndex(i, n>>uint(i)-1) }` -/
theorem StoredHashesForRecordHash_loop1_eq (node : H → H → H) (N M : Nat) (hM : M ≤ 64)
    (hrange : ∀ j, j < M → 1 ≤ N >>> j ∧ Tlog.storedHashIndex j ((N >>> j) - 1) < 2 ^ 63) :
    ∀ (d i fuel : Nat), i + d = M → d + 64 ≤ fuel →
    Generated.Tlog.StoredHashesForRecordHash_loop1 node (N : Int) (M : Int) fuel
        (List.replicate d (0 : Int) ++
          ((List.range i).map fun j => ((Tlog.storedHashIndex j ((N >>> j) - 1) : Nat) : Int)).reverse) (i : Int) =
      .ok (((List.range M).map fun j => ((Tlog.storedHashIndex j ((N >>> j) - 1) : Nat) : Int)).reverse, (M : Int)) := by
  intro d
  induction d with
  | zero =>
    intro i fuel hi hf
    obtain ⟨g, rfl⟩ : ∃ g, fuel = g + 1 := ⟨fuel - 1, by omega⟩
    have : i = M := by omega
    subst this
    have hlt : ¬ ((i : Int) < (i : Int)) := by omega
    simp [Generated.Tlog.StoredHashesForRecordHash_loop1, hlt, mpure]
  | succ d ih =>
    intro i fuel hi hf
    obtain ⟨g, rfl⟩ : ∃ g, fuel = g + 1 := ⟨fuel - 1, by omega⟩
    have hiM : i < M := by omega
    obtain ⟨h1, h2⟩ := hrange i hiM
    have hlt : ((i : Int) < (M : Int)) := by omega
    have e1 : ((N >>> i : Nat) : Int) - 1 = (((N >>> i) - 1 : Nat) : Int) := by omega
    have e2 : (M : Int) - 1 = ((M - 1 : Nat) : Int) := by omega
    have e3 : ((M - 1 : Nat) : Int) - (i : Int) = (d : Int) := by omega
    have e4 : (i : Int) + 1 = ((i + 1 : Nat) : Int) := by omega
    have hshi := StoredHashIndex_eq g i ((N >>> i) - 1) h2 (by omega)
    have hlen : d < (List.replicate (d + 1) (0 : Int) ++
          ((List.range i).map fun j => ((Tlog.storedHashIndex j ((N >>> j) - 1) : Nat) : Int)).reverse).length := by
      simp; omega
    rw [Generated.Tlog.StoredHashesForRecordHash_loop1]
    simp only [hlt, decide_true, ↓reduceIte, toU64_natCast (show i < 2 ^ 64 by omega), shr_natCast, mbind_ok, e1,
      chk64_natCast (show (N >>> i) - 1 < 2 ^ 63 by
        have := le_storedHashIndex i ((N >>> i) - 1)
        omega), hshi, e2,
      chk64_natCast (show M - 1 < 2 ^ 63 by omega), e3, chk64_natCast (show d < 2 ^ 63 by omega),
      setIdxL_natCast hlen, set_replicate_append, e4, chk64_natCast (show i + 1 < 2 ^ 63 by omega)]
    have := ih (i + 1) g (by omega) (by omega)
    rw [List.range_succ, List.map_append, List.reverse_append] at this
    exact this

/-- loop 2: `for i := 0; i < m; i++ { h = NodeHash(old[m-1-i], h); hashes = append(hashes, h) }` -/
theorem StoredHashesForRecordHash_loop2_eq (node : H → H → H) (old : List H) (hlen : old.length < 2 ^ 63) :
    ∀ (d i fuel : Nat) (h : H) (hashes : List H), i + d = old.length → d < fuel →
    ∃ h' : H, Generated.Tlog.StoredHashesForRecordHash_loop2 node (old.length : Int) old fuel h hashes (i : Int) =
      .ok (h', hashes ++ Tlog.buildHashes node (old.take d).reverse h, (old.length : Int)) := by
  intro d
  induction d with
  | zero =>
    intro i fuel h hashes hi hf
    obtain ⟨g, rfl⟩ : ∃ g, fuel = g + 1 := ⟨fuel - 1, by omega⟩
    have hlt : ¬ ((i : Int) < (old.length : Int)) := by omega
    refine ⟨h, ?_⟩
    have : i = old.length := by omega
    simp [Generated.Tlog.StoredHashesForRecordHash_loop2, mpure, Tlog.buildHashes, this]
  | succ d ih =>
    intro i fuel h hashes hi hf
    obtain ⟨g, rfl⟩ : ∃ g, fuel = g + 1 := ⟨fuel - 1, by omega⟩
    have hlt : ((i : Int) < (old.length : Int)) := by omega
    have hd : d < old.length := by omega
    have e2 : (old.length : Int) - 1 = ((old.length - 1 : Nat) : Int) := by omega
    have e3 : ((old.length - 1 : Nat) : Int) - (i : Int) = (d : Int) := by omega
    have e4 : (i : Int) + 1 = ((i + 1 : Nat) : Int) := by omega
    obtain ⟨h', hh'⟩ := ih (i + 1) g (node old[d] h) (hashes ++ [node old[d] h]) (by omega) (by omega)
    refine ⟨h', ?_⟩
    rw [Generated.Tlog.StoredHashesForRecordHash_loop2]
    simp only [hlt, decide_true, ↓reduceIte, e2, chk64_natCast (show old.length - 1 < 2 ^ 63 by omega), mbind_ok, e3,
      chk64_natCast (show d < 2 ^ 63 by omega), idxL_natCast' hd, e4, chk64_natCast (show i + 1 < 2 ^ 63 by omega), hh']
    rw [List.take_succ_eq_append_getElem hd, List.reverse_append]
    simp [Tlog.buildHashes]

/-- the model's answer in the result type of the generated function (hashes, error) -/
def shOut (r : List Int → List H × Option String) (N : Nat) : Except Tlog.Err (List H) → List H × Option String
  | .ok hs => (hs, none)
  | .error _ => ([], readErrOf r (shIndexes N))

/-- general form: `n + 1` fits in int64 and so does every index that is read -/
theorem StoredHashesForRecordHash_eq' (node : H → H → H) (fuel N : Nat) (h : H) (r : List Int → List H × Option String)
    (hN1 : N + 1 < 2 ^ 63) (hidx : ∀ x ∈ shIndexes N, x < 2 ^ 63) (hf : 128 ≤ fuel) :
    Generated.Tlog.StoredHashesForRecordHash node fuel (N : Int) h r =
      .ok (shOut r N (Tlog.storedHashesForRecordHash node N h (readerOf r))) := by
  have hM := trailingZeros64_le (N + 1)
  have hrange : ∀ j, j < Tlog.trailingZeros64 (N + 1) →
      1 ≤ N >>> j ∧ Tlog.storedHashIndex j ((N >>> j) - 1) < 2 ^ 63 := by
    intro j hj
    refine ⟨?_, ?_⟩
    · rw [Tlog.trailingZeros64_eq_tz (N + 1) (by omega) (by omega)] at hj
      have := TlogStore.shiftRight_succ_of_lt_tz N j hj
      omega
    · apply hidx
      simp only [shIndexes, List.mem_reverse, List.mem_map, List.mem_range]
      exact ⟨j, hj, rfl⟩
  clear hidx
  generalize hMd : Tlog.trailingZeros64 (N + 1) = M at hM hrange
  have e1 : (N : Int) + 1 = ((N + 1 : Nat) : Int) := by omega
  have hl1 := StoredHashesForRecordHash_loop1_eq node N M hM hrange M 0 fuel (by omega) (by omega)
  simp only [List.range_zero, List.map_nil, List.reverse_nil, List.append_nil, Int.natCast_zero] at hl1
  have hidx : ((List.range M).map fun j => ((Tlog.storedHashIndex j ((N >>> j) - 1) : Nat) : Int)).reverse =
      (shIndexes N).map Int.ofNat := by
    simp only [shIndexes, hMd, List.map_reverse, List.map_map]
    rfl
  have hilen : (shIndexes N).length = M := by simp [shIndexes, hMd]
  rw [hidx] at hl1
  simp only [Generated.Tlog.StoredHashesForRecordHash, e1, chk64_natCast hN1, mbind_ok,
    toU64_natCast (show N + 1 < 2 ^ 64 by omega), trailingZeros64_eq, hMd, makeList_natCast, hl1]
  -- the model side
  have hmodel : Tlog.storedHashesForRecordHash node N h (readerOf r) =
      (Tlog.readChecked (readerOf r) (shIndexes N)).bind fun old => .ok (h :: Tlog.buildHashes node old.reverse h) := rfl
  rw [hmodel]
  simp only [Tlog.readChecked, readerOf]
  rcases hre : r ((shIndexes N).map Int.ofNat) with ⟨old, err⟩
  cases err with
  | some e =>
    simp [shOut, readErrOf, hre, mpure, Except.bind]
  | none =>
    by_cases hlen : old.length = M
    · have hl : (len old = len (List.map Int.ofNat (shIndexes N))) := by simp [len, hlen, hilen]
      obtain ⟨h', hh'⟩ := StoredHashesForRecordHash_loop2_eq node old (by omega) old.length 0 fuel h [h] (by omega) (by omega)
      rw [List.take_length] at hh'
      rw [hlen] at hh'
      simp only [Int.natCast_zero] at hh'
      simp [hl, hh', mbind_ok, mpure, shOut, hlen, hilen, Except.bind]
    · have hl : ¬ (len old = len (List.map Int.ofNat (shIndexes N))) := by
        simp only [len, List.length_map, hilen, Int.ofNat_eq_natCast]; omega
      simp [hl, mpure, shOut, readErrOf, hre, hlen, hilen, Except.bind]

/-- every index read for record `N` is below the position `S N` of the record's own leaf hash -/
theorem shIndexes_lt (N : Nat) (hN : N + 1 < 2 ^ 64) : ∀ x ∈ shIndexes N, x < Tlog.S N := by
  intro x hx
  simp only [shIndexes, List.mem_reverse, List.mem_map, List.mem_range] at hx
  obtain ⟨j, hj, rfl⟩ := hx
  rw [Tlog.trailingZeros64_eq_tz (N + 1) (by omega) hN] at hj
  have h1 := TlogStore.shiftRight_succ_of_lt_tz N j hj
  have h2 := TlogStore.shiftRight_of_le_tz N j (by omega)
  have h3 := storedHashIndex_lt_S j ((N >>> j) - 1)
  have e : (N >>> j) - 1 + 1 = N >>> j := by omega
  rw [e] at h3
  have hp := Nat.two_pow_pos j
  have h4 : (N >>> j) * 2 ^ j ≤ N := by rw [Nat.add_mul] at h2; omega
  have := TlogStore.S_mono N _ h4
  omega

/-- the position `S N = StoredHashIndex(0, N)` where the hashes are to be stored fits in int64 -/
theorem StoredHashesForRecordHash_eq (node : H → H → H) (fuel N : Nat) (h : H) (r : List Int → List H × Option String)
    (hS : Tlog.S N < 2 ^ 63) (hf : 128 ≤ fuel) :
    Generated.Tlog.StoredHashesForRecordHash node fuel (N : Int) h r =
      .ok (shOut r N (Tlog.storedHashesForRecordHash node N h (readerOf r))) := by
  have hle := TlogStore.le_S N
  have hN1 : N + 1 < 2 ^ 63 := by
    by_cases h0 : N = 0
    · omega
    · have := Tlog.S_pos N (by omega)
      have := TlogStore.le_S (N / 2)
      omega
  refine StoredHashesForRecordHash_eq' node fuel N h r hN1 ?_ hf
  intro x hx
  have := shIndexes_lt N (by omega) x hx
  omega

end
end ModVerif.TieFnTlogInt
