/-
  Helper lemmas for Tie/FnRuleAdd.lean, part L: MODEL-side facts about the retract entries `addStmts` creates, needed by
  the tie of `fixRetract` (which re-reads the tokens of the retract lines: `args[0]` must exist, and the fuel must
  cover the REWRITTEN tokens): every entry belongs to exactly one line of the rewritten tree, that line has at least
  one token, and its tokens are at most four times as long as the original ones (`addStmts_retOK`).
  Owner: rule-add.
-/
import ModVerif.Proofs.TieFnRuleLeafB
import ModVerif.Proofs.ModfileC20Stmts
set_option linter.unusedSimpArgs false
set_option linter.unusedVariables false
namespace ModVerif.Tie.FnRuleAddL
open ModVerif ModVerif.Modfile
open ModVerif.Tie.FnRuleLeafA (parseString_length)
open ModVerif.Tie.FnRuleLeafB (tokSum tokSum_nil tokSum_cons)
open ModVerif.Proofs.ModfileC20 (linesOf addGo addToolchain addModule addGodebugV addReqExc addReplaceV addRetractV addToolV add_eq
  linesOf_nil linesOf_line linesOf_block linesOf_commentBlock linesOf_lparen linesOf_rparen)

theorem tokSum_append (a b : List Bytes) : tokSum (a ++ b) = tokSum a + tokSum b := by
  induction a with
  | nil => simp
  | cons x xs ih => simp [ih]; omega

/-- `parseVersion` with the fixer `dontFixRetract`: on success the token becomes the unquoted value -/
theorem parseVersion_dontFix {path tok tok' v : Bytes} (h : parseVersion path tok (some dontFixRetract) = (tok', .ok v)) :
    tok'.length ≤ 4 * tok.length := by
  unfold parseVersion at h
  split at h
  · cases h
  · next t tok1 hps =>
    simp only [dontFixRetract] at h
    simp only [Prod.mk.injEq, Except.ok.injEq] at h
    obtain ⟨rfl, _⟩ := h
    exact parseString_length hps

/-- on success `parseVersionInterval` (fixer `dontFixRetract`) leaves at least one token, and the tokens grow at most
    fourfold -/
theorem pvi_dontFix {path : Bytes} {toks toks' : List Bytes} {vi : VersionInterval} {rest : List Bytes}
    (h : parseVersionInterval path toks (some dontFixRetract) = (toks', .ok (vi, rest))) :
    toks' ≠ [] ∧ tokSum toks' ≤ 4 * tokSum toks := by
  unfold parseVersionInterval at h
  repeat' (first | split at h | (dsimp only at h))
  all_goals first
    | (simp only [Prod.mk.injEq, reduceCtorEq, and_false] at h; done)
    | skip
  all_goals
    simp only [Prod.mk.injEq, Except.ok.injEq] at h
    obtain ⟨rfl, _⟩ := h
    refine ⟨by simp, ?_⟩
    simp only [tokSum_cons]
    have hv : ∀ {p t t' w}, parseVersion p t (some dontFixRetract) = (t', Except.ok w) → t'.length ≤ 4 * t.length :=
      fun h => parseVersion_dontFix h
  · rename_i heq _
    have := hv heq
    omega
  · rename_i heq1 _ _ _ _ _ _ _ _ heq2 _ _ _ _ _
    have := hv heq1
    have := hv heq2
    omega

/-- the retract list after `File.add` on a line: unchanged, or one entry for this line appended — then the rewritten
    arguments are not empty and at most four times as long -/
def RetStep (line : Line) (args : List Bytes) (old : List Retract) (r : AddState × List Bytes) : Prop :=
  r.1.file.retract = old ∨ ∃ x, r.1.file.retract = old ++ [x] ∧ x.lineId = line.id ∧ r.2 ≠ [] ∧ tokSum r.2 ≤ 4 * tokSum args

macro "ret_auto" : tactic =>
  `(tactic| (repeat' (first | split | (dsimp only))) <;> exact Or.inl rfl)

theorem add_retStep (st : AddState) (block : Option Comments) (line : Line) (verb : Bytes) (args : List Bytes)
    (fix : Option Fixer) (strict : Bool) :
    RetStep line args st.file.retract (File.add st block line verb args fix strict) := by
  rw [add_eq]
  split
  · exact Or.inl rfl
  split
  · unfold addGo; ret_auto
  split
  · unfold addToolchain; ret_auto
  split
  · unfold addModule; ret_auto
  split
  · unfold addGodebugV; ret_auto
  split
  · unfold addReqExc; ret_auto
  split
  · unfold addReplaceV; ret_auto
  split
  · unfold addRetractV
    dsimp only
    split
    · split <;> exact Or.inl rfl
    · next args' vi rest hpv =>
      split
      · exact Or.inl rfl
      · obtain ⟨h1, h2⟩ := pvi_dontFix hpv
        exact Or.inr ⟨_, rfl, rfl, h1, h2⟩
  split
  · unfold addToolV; ret_auto
  · exact Or.inl rfl

/-- the new retract entries: a sublist (by line id) of the given lines, each with a rewritten line in `ls'` -/
def RetNew (M : Nat) (ls ls' : List Line) (new : List Retract) : Prop :=
  (new.map (·.lineId)).Sublist (ls.map (·.id)) ∧
  ∀ x ∈ new, ∃ l' ∈ ls', l'.id = x.lineId ∧ l'.token ≠ [] ∧ tokSum l'.token ≤ M

theorem RetNew.nil (M : Nat) (ls ls' : List Line) : RetNew M ls ls' [] := ⟨List.nil_sublist _, fun _ h => by cases h⟩

theorem RetNew.append {M : Nat} {l1 l1' l2 l2' : List Line} {n1 n2 : List Retract} (h1 : RetNew M l1 l1' n1) (h2 : RetNew M l2 l2' n2) :
    RetNew M (l1 ++ l2) (l1' ++ l2') (n1 ++ n2) := by
  refine ⟨by simp only [List.map_append]; exact h1.1.append h2.1, ?_⟩
  intro x hx
  rcases List.mem_append.1 hx with hx | hx
  · obtain ⟨l', hl', h⟩ := h1.2 x hx; exact ⟨l', List.mem_append_left _ hl', h⟩
  · obtain ⟨l', hl', h⟩ := h2.2 x hx; exact ⟨l', List.mem_append_right _ hl', h⟩

/-- one line: from `RetStep` -/
theorem RetNew.ofStep {M : Nat} {l : Line} {pre args : List Bytes} {old : List Retract} {r : AddState × List Bytes}
    (h : RetStep l args old r) (hM : tokSum pre + 4 * tokSum args ≤ M) :
    ∃ new, r.1.file.retract = old ++ new ∧ RetNew M [l] [{ l with token := pre ++ r.2 }] new := by
  rcases h with h | ⟨x, hx, hid, hne, hsum⟩
  · exact ⟨[], by simp [h], RetNew.nil _ _ _⟩
  · refine ⟨[x], hx, by simp [hid], ?_⟩
    intro y hy
    simp only [List.mem_singleton] at hy
    subst hy
    refine ⟨_, List.mem_singleton.2 rfl, hid.symm, by simp [hne], ?_⟩
    simp only [tokSum_append]
    omega

theorem addBlockLines_retOK (M : Nat) (block : Comments) (verb : Bytes) (fix : Option Fixer) (strict : Bool) :
    ∀ (ls : List Line) (st : AddState), (∀ l ∈ ls, 4 * tokSum l.token ≤ M) →
    ∃ new, (addBlockLines block verb fix strict st ls).1.file.retract = st.file.retract ++ new ∧
      RetNew M ls (addBlockLines block verb fix strict st ls).2 new := by
  intro ls
  induction ls with
  | nil => intro st _; exact ⟨[], by simp [addBlockLines], RetNew.nil _ _ _⟩
  | cons l rest ih =>
    intro st hM
    obtain ⟨n1, e1, r1⟩ := RetNew.ofStep (M := M) (pre := []) (add_retStep st (some block) l verb l.token fix strict)
      (by simp; exact hM l List.mem_cons_self)
    obtain ⟨n2, e2, r2⟩ := ih (File.add st (some block) l verb l.token fix strict).1 (fun x hx => hM x (List.mem_cons_of_mem _ hx))
    refine ⟨n1 ++ n2, ?_, ?_⟩
    · unfold addBlockLines; simp only []; rw [e2, e1, List.append_assoc]
    · have := r1.append r2
      unfold addBlockLines
      simpa using this

theorem addStmts_retOK (M : Nat) (fix : Option Fixer) (strict : Bool) :
    ∀ (xs : List Expr) (st : AddState), (∀ l ∈ linesOf xs, 4 * tokSum l.token ≤ M) →
    ∃ new, (addStmts fix strict st xs).1.file.retract = st.file.retract ++ new ∧
      RetNew M (linesOf xs) (linesOf (addStmts fix strict st xs).2) new := by
  intro xs
  induction xs with
  | nil => intro st _; exact ⟨[], by simp [addStmts], by simpa [addStmts] using RetNew.nil M [] []⟩
  | cons x rest ih =>
    intro st hM
    have hrest : ∀ st' : AddState, ∃ new, (addStmts fix strict st' rest).1.file.retract = st'.file.retract ++ new ∧
        RetNew M (linesOf rest) (linesOf (addStmts fix strict st' rest).2) new :=
      fun st' => ih st' (fun l hl => hM l (by cases x <;> simp [hl]))
    -- a statement that changes nothing of the retract list and of its own lines
    have hskip : ∀ (st' : AddState), st'.file.retract = st.file.retract →
        ∃ new, (addStmts fix strict st' rest).1.file.retract = st.file.retract ++ new ∧
          RetNew M (linesOf (x :: rest)) (linesOf (x :: (addStmts fix strict st' rest).2)) new := by
      intro st' he
      obtain ⟨n, e, r⟩ := hrest st'
      refine ⟨n, by rw [e, he], ?_⟩
      have h0 : RetNew M (linesOf [x]) (linesOf [x]) [] := RetNew.nil _ _ _
      have := h0.append r
      have e1 : ∀ ys, linesOf (x :: ys) = linesOf [x] ++ linesOf ys := by intro ys; cases x <;> simp
      rw [e1, e1 (addStmts fix strict st' rest).2]
      simpa using this
    unfold addStmts
    cases x with
    | line l =>
      cases htok : l.token with
      | nil =>
        simp only [htok]
        exact hskip st rfl
      | cons verb args =>
        simp only [htok]
        obtain ⟨n1, e1, r1⟩ := RetNew.ofStep (M := M) (pre := [verb]) (add_retStep st none l verb args fix strict)
          (by have := hM l (by simp); rw [htok] at this; simp at this ⊢; omega)
        obtain ⟨n2, e2, r2⟩ := hrest (File.add st none l verb args fix strict).1
        refine ⟨n1 ++ n2, by rw [e2, e1, List.append_assoc], ?_⟩
        have := r1.append r2
        simpa using this
    | lineBlock b =>
      simp only
      split
      · split
        · obtain ⟨n1, e1, r1⟩ := addBlockLines_retOK M b.comments _ fix strict b.lines st (fun l hl => hM l (by simp [hl]))
          obtain ⟨n2, e2, r2⟩ := hrest (addBlockLines b.comments _ fix strict st b.lines).1
          refine ⟨n1 ++ n2, by rw [e2, e1, List.append_assoc], ?_⟩
          have := r1.append r2
          simpa using this
        · exact hskip _ (by cases strict <;> rfl)
      · exact hskip _ (by cases strict <;> rfl)
    | commentBlock c => exact hskip st rfl
    | lparen c => exact hskip st rfl
    | rparen c => exact hskip st rfl

end ModVerif.Tie.FnRuleAddL
