/-
  Tie proof for the regenerated module.go function MatchPrefixPatterns (Generated/FnModule.lean):
  the inner slash-counting walk (`MatchPrefixPatterns_loop2`) is `Module.cutPrefix`, one iteration of the outer
  `for globs != ""` loop is `Module.matchOne` on the first comma-separated item, and the whole loop is
  `(splitOn 44 globs).any …`.
-/
import ModVerif.Generated.FnModule
import ModVerif.Model.Module
import ModVerif.Proofs.GoRtLemmas
import ModVerif.Proofs.GoRtLemmasStr
import ModVerif.Proofs.ModulePath
namespace ModVerif.TieFnModule
open ModVerif ModVerif.GoRt ModVerif.GoRtStr

/-! ### the inner loop: walking `target` and counting slashes -/

/-- `MatchPrefixPatterns_loop2` started at offset `pre.length` of `target = pre ++ suf` with `prefix = target`
    and `n` slashes still to pass: it ends with `n' > 0` exactly when `cutPrefix n suf = none`, and otherwise with
    `n' = 0` and the prefix `pre ++ q` where `cutPrefix n suf = some q`. -/
theorem mpp_loop2_spec (pm : Bytes → Bytes → Bool × Option String) (target : Bytes) :
    ∀ (suf pre : Bytes) (fuel n : Nat), target = pre ++ suf → suf.length < fuel →
    ∃ (p' : Bytes) (n' i' : Int),
      Generated.Module.MatchPrefixPatterns_loop2 pm target fuel target (n : Int) (pre.length : Int) = .ok (p', n', i') ∧
      (match Module.cutPrefix n suf with
       | none => n' > 0
       | some q => n' = 0 ∧ p' = pre ++ q) := by
  intro suf
  induction suf with
  | nil =>
    intro pre fuel n ht hf
    cases fuel with
    | zero => simp at hf
    | succ f =>
      have hpre : target = pre := by simpa using ht
      have hlt : ¬ ((pre.length : Int) < len target) := by rw [hpre, len_eq]; omega
      unfold Generated.Module.MatchPrefixPatterns_loop2
      refine ⟨target, (n : Int), (pre.length : Int), ?_, ?_⟩
      · simp only [hlt, decide_false, Bool.false_eq_true, if_false, pure_eq_ok]
      · cases n with
        | zero => simp [Module.cutPrefix, hpre]
        | succ k => simp [Module.cutPrefix] <;> omega
  | cons c rest ih =>
    intro pre fuel n ht hf
    cases fuel with
    | zero => simp at hf
    | succ f =>
      have hf' : rest.length < f := by simp at hf; omega
      have ht' : target = (pre ++ [c]) ++ rest := by simp [ht]
      have hlt : (pre.length : Int) < len target := by rw [ht, len_eq]; simp; omega
      have hidx : idx target (pre.length : Int) = .ok ((c.toNat : Nat) : Int) := by
        rw [ht]; exact idx_append_length pre c rest
      have hi1 : (pre.length : Int) + 1 = ((pre ++ [c]).length : Int) := by simp
      unfold Generated.Module.MatchPrefixPatterns_loop2
      simp only [hlt, decide_true, if_true, hidx, bind_ok, byte_eq_int (n := 47) (d := 47) (c := c) rfl]
      by_cases hc : c = 47
      · subst hc
        cases n with
        | zero =>
          have hst : sliceTo target (pre.length : Int) = .ok pre := by
            rw [sliceTo_natCast (by rw [ht]; simp), ht]; simp
          refine ⟨pre, 0, (pre.length : Int), ?_, ?_⟩
          · simp [hst]
          · simp [Module.cutPrefix]
        | succ k =>
          obtain ⟨p', n', i', h1, h2⟩ := ih (pre ++ [47]) f k ht' hf'
          refine ⟨p', n', i', ?_, ?_⟩
          · have hk : ((k + 1 : Nat) : Int) - 1 = (k : Int) := by omega
            have hk0 : ¬ (((k + 1 : Nat) : Int) = 0) := by omega
            simp only [hk0, decide_false, Bool.false_eq_true, if_false, hk, hi1]
            simpa using h1
          · simp only [Module.cutPrefix]
            cases hq : Module.cutPrefix k rest with
            | none => simpa [hq] using h2
            | some q => simpa [hq] using h2
      · obtain ⟨p', n', i', h1, h2⟩ := ih (pre ++ [c]) f n ht' hf'
        refine ⟨p', n', i', ?_, ?_⟩
        · simp only [hi1]
          simpa [hc] using h1
        · have hc' : (c == 47) = false := by simp [hc]
          simp only [Module.cutPrefix, hc']
          cases hq : Module.cutPrefix n rest with
          | none => simpa [hq] using h2
          | some q => simpa [hq] using h2

/-! ### one iteration of the outer loop -/

/-- the body of the local continuation `k3` of `MatchPrefixPatterns_loop1` (everything after `glob`, `globs` are cut) -/
def mppK3 (pm : Bytes → Bytes → Bool × Option String) (target : Bytes) (fuel : Nat) (glob globs : Bytes) :
    M (Ctl Bool Bytes) := do
  let glob := (trimSuffix glob ([47] : Bytes))
  if (decide (glob = ([] : Bytes))) then (Generated.Module.MatchPrefixPatterns_loop1 pm target fuel globs) else (do
    let n := (count glob ([47] : Bytes))
    let prefix_ := target
    let i_1 := (0 : Int)
    let (prefix_, n, _) ← Generated.Module.MatchPrefixPatterns_loop2 pm target fuel prefix_ n i_1
    if (decide (n > (0 : Int))) then (Generated.Module.MatchPrefixPatterns_loop1 pm target fuel globs) else (do
      let (matched, _) := (pm glob prefix_)
      if matched then (pure (Ctl.ret true)) else (Generated.Module.MatchPrefixPatterns_loop1 pm target fuel globs)))

theorem mppK3_spec (pm : Bytes → Bytes → Bool × Option String) (target : Bytes) (fuel : Nat) (glob globs : Bytes)
    (hf : target.length < fuel) :
    mppK3 pm target fuel glob globs =
      if Module.matchOne (fun p n => (pm p n).1) glob target = true then .ok (Ctl.ret true)
      else Generated.Module.MatchPrefixPatterns_loop1 pm target fuel globs := by
  unfold mppK3 Module.matchOne
  have htr : trimSuffix glob [47] = Module.trimSuffixB glob [47] := rfl
  simp only [htr]
  generalize Module.trimSuffixB glob [47] = g
  by_cases hg : g = []
  · subst hg; simp
  have hg' : g.isEmpty = false := by cases g <;> simp at hg ⊢
  simp only [hg, decide_false, Bool.false_eq_true, if_false, hg', count_single]
  obtain ⟨p', n', i', h1, h2⟩ := mpp_loop2_spec pm target target [] fuel (g.count 47) (by simp) hf
  simp only [List.length_nil, Int.natCast_zero] at h1
  rw [h1, bind_ok]
  cases hq : Module.cutPrefix (g.count 47) target with
  | none =>
    rw [hq] at h2
    simp [h2]
  | some q =>
    rw [hq] at h2
    obtain ⟨hn, hp⟩ := h2
    subst hn
    simp only [List.nil_append] at hp
    subst hp
    cases hm : (pm g p').1 <;> simp [hm]

/-! ### the comma-separated list -/

theorem mpp_splitOn_not_mem (sep : UInt8) : ∀ (s : Bytes), sep ∉ s → splitOn sep s = [s]
  | [], _ => rfl
  | c :: rest, h => by
    have h1 : c ≠ sep := fun e => h (by simp [e])
    have h2 : sep ∉ rest := fun e => h (by simp [e])
    obtain ⟨hd, tl, e1, e2⟩ := Module.splitOn_cons_ne sep c rest h1
    rw [mpp_splitOn_not_mem sep rest h2] at e1
    rw [e2]
    simp at e1
    simp [e1.1, e1.2]

theorem mpp_splitOn_mem (sep : UInt8) : ∀ (s : Bytes), sep ∈ s →
    splitOn sep s = s.takeWhile (· != sep) :: splitOn sep (s.drop ((s.takeWhile (· != sep)).length + 1))
  | [], h => by simp at h
  | c :: rest, h => by
    by_cases hc : c = sep
    · subst hc; simp [Module.splitOn_cons_sep]
    · have h2 : sep ∈ rest := by
        rcases List.mem_cons.mp h with e | e
        · exact absurd e.symm hc
        · exact e
      have hne : (c != sep) = true := by simp [hc]
      obtain ⟨hd, tl, e1, e2⟩ := Module.splitOn_cons_ne sep c rest hc
      rw [mpp_splitOn_mem sep rest h2] at e1
      rw [e2]
      simp at e1
      obtain ⟨e3, e4⟩ := e1
      subst e3 e4
      simp [hne]

theorem mpp_takeWhile_lt_of_mem {c : UInt8} : ∀ {s : Bytes}, c ∈ s → (s.takeWhile (· != c)).length < s.length
  | [], h => by simp at h
  | x :: xs, h => by
    by_cases hx : x = c
    · subst hx; simp
    · have h2 : c ∈ xs := by
        rcases List.mem_cons.mp h with e | e
        · exact absurd e.symm hx
        · exact e
      have := mpp_takeWhile_lt_of_mem h2
      simp [hx]; omega

/-! ### the outer loop -/

theorem mpp_any_nil (gl : Bytes → Bytes → Bool) (target : Bytes) :
    (splitOn 44 []).any (fun g => Module.matchOne gl g target) = false := by
  simp [splitOn, Module.matchOne, Module.trimSuffixB, hasSuffixB, isPrefixOfB]

theorem mpp_loop1_spec (pm : Bytes → Bytes → Bool × Option String) (target : Bytes) :
    ∀ (fuel : Nat) (globs : Bytes), globs.length + target.length + 1 ≤ fuel →
    Generated.Module.MatchPrefixPatterns_loop1 pm target fuel globs =
      .ok (if (splitOn 44 globs).any (fun g => Module.matchOne (fun p n => (pm p n).1) g target) = true
           then Ctl.ret true else Ctl.next []) := by
  intro fuel
  induction fuel with
  | zero => intro globs h; omega
  | succ f ih =>
    intro globs hf
    unfold Generated.Module.MatchPrefixPatterns_loop1
    by_cases hg : globs = []
    · subst hg
      simp [mpp_any_nil]
    have hlen : 0 < globs.length := List.length_pos_iff.mpr hg
    simp only [hg, decide_false, Bool.not_false, if_true]
    change (if decide (index globs [44] ≥ 0) = true then
        (sliceTo globs (index globs [44]) >>= fun t4 =>
          sliceFrom globs (index globs [44] + 1) >>= fun t6 => mppK3 pm target f t4 t6)
        else mppK3 pm target f globs []) = _
    by_cases hm : (44 : UInt8) ∈ globs
    · have hi : index globs [44] ≥ 0 := (index_single_nonneg globs 44).mpr hm
      have hlt := mpp_takeWhile_lt_of_mem hm
      have hsf : sliceFrom globs (index globs [44] + 1) =
          .ok (globs.drop ((globs.takeWhile (· != 44)).length + 1)) := by
        rw [index_single, if_pos hm]
        have := sliceFrom_natCast (v := globs) (k := (globs.takeWhile (· != 44)).length + 1) (by omega)
        simpa using this
      simp only [hi, decide_true, if_true, take_index_single globs 44 hm, bind_ok, hsf]
      rw [mppK3_spec pm target f _ _ (by omega), mpp_splitOn_mem 44 globs hm, List.any_cons]
      have hrl : (globs.drop ((globs.takeWhile (· != 44)).length + 1)).length + target.length + 1 ≤ f := by
        simp only [List.length_drop]; omega
      rw [ih _ hrl]
      by_cases h1 : Module.matchOne (fun p n => (pm p n).1) (globs.takeWhile (· != 44)) target = true
      · simp [h1]
      · simp [h1]
    · have hi : ¬ index globs [44] ≥ 0 := fun e => hm ((index_single_nonneg globs 44).mp e)
      simp only [hi, decide_false, Bool.false_eq_true, if_false]
      rw [mppK3_spec pm target f _ _ (by omega), mpp_splitOn_not_mem 44 globs hm, List.any_cons, List.any_nil]
      rw [ih [] (by simp; omega), mpp_any_nil]
      by_cases h1 : Module.matchOne (fun p n => (pm p n).1) globs target = true
      · simp [h1]
      · simp [h1]

/-! ### the function -/

/-- MatchPrefixPatterns, regenerated from module/module.go, is the hand model `Module.matchPrefixPatterns` for every
    `path.Match` stand-in `pm` (only the boolean of its result is used; a malformed-pattern error counts as no match). -/
theorem MatchPrefixPatterns_spec (pm : Bytes → Bytes → Bool × Option String) (globs target : Bytes) (fuel : Nat)
    (hf : globs.length + target.length + 1 ≤ fuel) :
    Generated.Module.MatchPrefixPatterns pm fuel globs target =
      .ok (Module.matchPrefixPatterns (fun p n => (pm p n).1) globs target) := by
  unfold Generated.Module.MatchPrefixPatterns Module.matchPrefixPatterns
  rw [mpp_loop1_spec pm target fuel globs hf, bind_ok]
  cases (splitOn 44 globs).any (fun g => Module.matchOne (fun p n => (pm p n).1) g target) <;> rfl

/-- non-vacuity: globs = "x,a/b/", target = "a/b/c" with exact-equality matching -/
example :
    Generated.Module.MatchPrefixPatterns (fun p n => (p == n, none)) 12
        [120, 44, 97, 47, 98, 47] [97, 47, 98, 47, 99] = .ok true ∧
    Module.matchPrefixPatterns (fun p n => ((fun p n => (p == n, (none : Option String))) p n).1)
        [120, 44, 97, 47, 98, 47] [97, 47, 98, 47, 99] = true := by
  decide +kernel

end ModVerif.TieFnModule
