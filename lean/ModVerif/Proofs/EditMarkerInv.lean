/-
  EditMarker, part 2 — every go.mod operation preserves "`setIndirect` achieves what it is asked for on every line of
  the tree" (`MarkersSettable`), hence `NoNestedIndirectMarker` holds along a whole session once it holds (in this
  form) for the starting file: the state-dependent marker clause of `RunValid` can be dropped (`RunValidLive`).

  `MarkersSettable stmts`: the end-of-line comments of EVERY `Line` of the tree (removed lines included) are
  `MarkerSettable`.  It is a purely syntactic condition; the tree primitives preserve it by structural arguments
  (no id bookkeeping): token updates, removals, new lines (no comments), Cleanup (a collapsed one-line block hands
  its end-of-line comments to the line: none, `TreeWF.noBlockSuffix`), SortBlocks, the block surgery of
  SetRequireSeparateIndirect keep the comments; `setIndirect` rewrites them into settable ones
  (`markerSettable_sfxAfter`, Proofs/EditMarkerStr.lean).
-/
import ModVerif.Proofs.EditMarkerStr
import ModVerif.Proofs.EditMoreSepG
import ModVerif.Proofs.EditMoreNoPanic
set_option linter.unusedSimpArgs false
set_option linter.unusedVariables false
set_option linter.unnecessarySimpa false
namespace ModVerif.Modfile.Edit
open ModVerif ModVerif.Modfile

/-! ### the condition -/

def GoodLine (l : Line) : Prop := MarkerSettable l.comments.suffix

instance (l : Line) : Decidable (GoodLine l) := inferInstanceAs (Decidable (MarkerSettable l.comments.suffix))

/-- the lines of one statement -/
def stmtLines : Expr → List Line
  | .line l => [l]
  | .lineBlock b => b.lines
  | _ => []

/-- on every line of the tree `setIndirect` achieves what it is asked for: no end-of-line comment whose text after
    `indirect;` is again an indirect marker (the recorded finding `C16_violated_indirect_marker_survives`) -/
def MarkersSettable (stmts : List Expr) : Prop := ∀ x ∈ stmts, ∀ l ∈ stmtLines x, GoodLine l

instance (stmts : List Expr) : Decidable (MarkersSettable stmts) :=
  inferInstanceAs (Decidable (∀ x ∈ stmts, ∀ l ∈ stmtLines x, GoodLine l))

theorem goodLine_of_suffix_nil {l : Line} (h : l.comments.suffix = []) : GoodLine l := by
  unfold GoodLine; rw [h]; exact markerSettable_nil

theorem goodLine_mkLine (id : Nat) (toks : List Bytes) (b : Bool) : GoodLine (mkLine id toks b) :=
  goodLine_of_suffix_nil rfl

theorem goodLine_of_suffix_eq {l l' : Line} (h : l'.comments.suffix = l.comments.suffix) (hl : GoodLine l) : GoodLine l' := by
  unfold GoodLine at hl ⊢; rw [h]; exact hl

theorem MarkersSettable.nil : MarkersSettable [] := by intro x hx; cases hx

theorem markersSettable_cons {x : Expr} {xs : List Expr} :
    MarkersSettable (x :: xs) ↔ (∀ l ∈ stmtLines x, GoodLine l) ∧ MarkersSettable xs := by
  unfold MarkersSettable
  simp only [List.mem_cons, forall_eq_or_imp]

theorem markersSettable_append {xs ys : List Expr} :
    MarkersSettable (xs ++ ys) ↔ MarkersSettable xs ∧ MarkersSettable ys := by
  unfold MarkersSettable
  simp only [List.mem_append]
  constructor
  · intro h; exact ⟨fun x hx => h x (Or.inl hx), fun x hx => h x (Or.inr hx)⟩
  · rintro ⟨h1, h2⟩ x (hx | hx)
    · exact h1 x hx
    · exact h2 x hx

theorem MarkersSettable.of_subset {xs ys : List Expr} (h : MarkersSettable ys) (hs : ∀ x ∈ xs, x ∈ ys) : MarkersSettable xs :=
  fun x hx => h x (hs x hx)

theorem mem_allLines {fs : FileSyntax} {l : Line} : l ∈ fs.allLines ↔ ∃ x ∈ fs.stmts, l ∈ stmtLines x := by
  unfold FileSyntax.allLines
  rw [List.mem_flatMap]
  constructor
  · rintro ⟨x, hx, hl⟩
    refine ⟨x, hx, ?_⟩
    cases x <;> simpa [stmtLines] using hl
  · rintro ⟨x, hx, hl⟩
    refine ⟨x, hx, ?_⟩
    cases x <;> simpa [stmtLines] using hl

theorem MarkersSettable.allLines {fs : FileSyntax} (h : MarkersSettable fs.stmts) : ∀ l ∈ fs.allLines, GoodLine l := by
  intro l hl
  rcases mem_allLines.1 hl with ⟨x, hx, hlx⟩
  exact h x hx l hlx

theorem MarkersSettable.loc {stmts : List Expr} (h : MarkersSettable stmts) : ∀ p ∈ loc stmts, GoodLine p.2 := by
  intro p hp
  unfold Edit.loc at hp
  rcases List.mem_flatMap.1 hp with ⟨x, hx, hpx⟩
  cases x with
  | line l =>
    simp only [locStmt, List.mem_singleton] at hpx
    subst hpx
    exact h _ hx l (by simp [stmtLines])
  | lineBlock b =>
    simp only [locStmt, List.mem_map] at hpx
    rcases hpx with ⟨l, hl, rfl⟩
    exact h _ hx l (by simpa [stmtLines] using hl)
  | commentBlock c => simp [locStmt] at hpx
  | lparen c => simp [locStmt] at hpx
  | rparen c => simp [locStmt] at hpx

/-- the condition on the tree gives the hypothesis of the bulk setters -/
theorem MarkersSettable.noNested {e : EFile} (h : MarkersSettable e.f.syn.stmts) : NoNestedIndirectMarker e := by
  intro r _ v hv _
  rcases mem_view.1 hv with ⟨p, hp, _, rfl⟩
  exact h.loc p hp

/-! ### primitives: `updateLine` and its instances -/

theorem mem_updateLineIn (id : Nat) (g : Line → Line) : ∀ (ls : List Line) (l' : Line), l' ∈ updateLineIn id g ls →
    l' ∈ ls ∨ ∃ l ∈ ls, l' = g l := by
  intro ls
  induction ls with
  | nil => intro l' h; simp [updateLineIn] at h
  | cons a t ih =>
    intro l' h
    unfold updateLineIn at h
    split at h
    · rcases List.mem_cons.1 h with rfl | h
      · exact Or.inr ⟨a, List.mem_cons_self, rfl⟩
      · exact Or.inl (List.mem_cons_of_mem _ h)
    · rcases List.mem_cons.1 h with rfl | h
      · exact Or.inl List.mem_cons_self
      · rcases ih l' h with h | ⟨l, hl, rfl⟩
        · exact Or.inl (List.mem_cons_of_mem _ h)
        · exact Or.inr ⟨l, List.mem_cons_of_mem _ hl, rfl⟩

theorem good_updateLine (fs : FileSyntax) (id : Nat) (g : Line → Line) (hg : ∀ l, GoodLine l → GoodLine (g l))
    (h : MarkersSettable fs.stmts) : MarkersSettable (fs.updateLine id g).stmts := by
  intro x hx l hl
  unfold FileSyntax.updateLine at hx
  simp only [List.mem_map] at hx
  rcases hx with ⟨y, hy, rfl⟩
  cases y with
  | line l0 =>
    simp only at hl
    split at hl
    · simp only [stmtLines, List.mem_singleton] at hl
      subst hl
      exact hg _ (h _ hy l0 (by simp [stmtLines]))
    · simp only [stmtLines, List.mem_singleton] at hl
      subst hl
      exact h _ hy l (by simp [stmtLines])
  | lineBlock b =>
    simp only [stmtLines] at hl
    rcases mem_updateLineIn id g b.lines l hl with hl | ⟨l0, hl0, rfl⟩
    · exact h _ hy l (by simpa [stmtLines] using hl)
    · exact hg _ (h _ hy l0 (by simpa [stmtLines] using hl0))
  | commentBlock c => simp [stmtLines] at hl
  | lparen c => simp [stmtLines] at hl
  | rparen c => simp [stmtLines] at hl

theorem good_updateTokens (fs : FileSyntax) (id : Nat) (toks : List Bytes) (h : MarkersSettable fs.stmts) :
    MarkersSettable (updateLine fs id toks).stmts :=
  good_updateLine fs id _ (fun l hl => goodLine_of_suffix_eq rfl hl) h

theorem good_markRemoved (fs : FileSyntax) (id : Nat) (h : MarkersSettable fs.stmts) :
    MarkersSettable (markRemoved fs id).stmts :=
  good_updateLine fs id _ (fun l _ => goodLine_of_suffix_nil rfl) h

theorem good_markAll (ids : List Nat) : ∀ fs : FileSyntax, MarkersSettable fs.stmts → MarkersSettable (markAll fs ids).stmts := by
  induction ids with
  | nil => intro fs h; exact h
  | cons i is ih =>
    intro fs h
    simp only [markAll, List.foldl_cons]
    exact ih _ (good_markRemoved fs i h)

theorem goodLine_setIndirectLine (b : Bool) (l : Line) (h : GoodLine l) : GoodLine (setIndirectLine b l) := by
  unfold GoodLine at h ⊢
  rw [(setIndirectLine_props b l).2.2.2]
  exact markerSettable_sfxAfter b _ h

theorem goodLine_setVersionLine (v : Bytes) (l : Line) (h : GoodLine l) : GoodLine (setVersionLine v l) :=
  goodLine_of_suffix_eq (setVersionLine_props v l).2.2 h

/-- the line surgery of the bulk setters on a kept requirement -/
theorem good_setReq (fs : FileSyntax) (id : Nat) (v : Bytes) (b : Bool) (h : MarkersSettable fs.stmts) :
    MarkersSettable (fs.updateLine id fun l => setIndirectLine b (setVersionLine v l)).stmts :=
  good_updateLine fs id _ (fun l hl => goodLine_setIndirectLine b _ (goodLine_setVersionLine v l hl)) h

/-! ### primitives: new lines -/

theorem good_append_newLine (stmts : List Expr) (new : Nat) (toks : List Bytes) (h : MarkersSettable stmts) :
    MarkersSettable (stmts ++ [Expr.line (mkLine new toks false)]) := by
  rw [markersSettable_append]
  refine ⟨h, ?_⟩
  intro x hx l hl
  simp only [List.mem_singleton] at hx
  subst hx
  simp only [stmtLines, List.mem_singleton] at hl
  subst hl
  exact goodLine_mkLine _ _ _

theorem mem_insertAfterId (hh : Nat) (new : Line) : ∀ (ls r : List Line), insertAfterId hh new ls = some r →
    ∀ l ∈ r, l ∈ ls ∨ l = new := by
  intro ls
  induction ls with
  | nil => intro r h; simp [insertAfterId] at h
  | cons a t ih =>
    intro r h l hl
    unfold insertAfterId at h
    split at h
    · simp only [Option.some.injEq] at h
      subst h
      simp only [List.mem_cons] at hl ⊢
      rcases hl with rfl | rfl | hl
      · exact Or.inl (Or.inl rfl)
      · exact Or.inr rfl
      · exact Or.inl (Or.inr hl)
    · cases hr : insertAfterId hh new t with
      | none => simp [hr] at h
      | some r' =>
        simp only [hr, Option.some.injEq] at h
        subst h
        rcases List.mem_cons.1 hl with rfl | hl
        · exact Or.inl List.mem_cons_self
        · rcases ih r' hr l hl with h1 | h1
          · exact Or.inl (List.mem_cons_of_mem _ h1)
          · exact Or.inr h1

theorem good_addLineWalk (hint : Hint) (toks : List Bytes) (new : Nat) : ∀ (stmts : List Expr) (i : Nat) (r : List Expr),
    addLineWalk hint toks new stmts i = some r → MarkersSettable stmts → MarkersSettable r := by
  intro stmts
  induction stmts with
  | nil => intro i r h; simp [addLineWalk] at h
  | cons x xs ih =>
    intro i r h hg
    rcases markersSettable_cons.1 hg with ⟨hx, hxs⟩
    have hnewline : ∀ l ∈ stmtLines (Expr.line (mkLine new toks false)), GoodLine l := by
      intro l hl
      simp only [stmtLines, List.mem_singleton] at hl
      subst hl; exact goodLine_mkLine _ _ _
    have hafter : MarkersSettable (x :: Expr.line (mkLine new toks false) :: xs) :=
      markersSettable_cons.2 ⟨hx, markersSettable_cons.2 ⟨hnewline, hxs⟩⟩
    have hrest : ∀ r, (addLineWalk hint toks new xs (i + 1)).map (x :: ·) = some r → MarkersSettable r := by
      intro r hr
      cases hw : addLineWalk hint toks new xs (i + 1) with
      | none => simp [hw] at hr
      | some r' =>
        simp only [hw, Option.map_some, Option.some.injEq] at hr
        subst hr
        exact markersSettable_cons.2 ⟨hx, ih _ _ hw hxs⟩
    unfold addLineWalk at h
    cases x with
    | line l0 =>
      simp only at h
      split at h
      · split at h
        · simp only [Option.some.injEq] at h; subst h; exact hafter
        · simp only [Option.some.injEq] at h; subst h
          refine markersSettable_cons.2 ⟨?_, hxs⟩
          intro l hl
          simp only [stmtLines, List.mem_cons, List.mem_nil_iff, or_false] at hl
          rcases hl with rfl | rfl
          · exact goodLine_of_suffix_eq rfl (hx l0 (by simp [stmtLines]))
          · exact goodLine_mkLine _ _ _
      · exact hrest r h
    | lineBlock b =>
      simp only at h
      split at h
      · split at h
        · simp only [Option.some.injEq] at h; subst h; exact hafter
        · simp only [Option.some.injEq] at h; subst h
          refine markersSettable_cons.2 ⟨?_, hxs⟩
          intro l hl
          simp only [stmtLines, List.mem_append, List.mem_singleton] at hl
          rcases hl with hl | rfl
          · exact hx l (by simpa [stmtLines] using hl)
          · exact goodLine_mkLine _ _ _
      · split at h
        · split at h
          · split at h
            · simp only [Option.some.injEq] at h; subst h; exact hafter
            · split at h
              · rename_i ls hins
                simp only [Option.some.injEq] at h; subst h
                refine markersSettable_cons.2 ⟨?_, hxs⟩
                intro l hl
                simp only [stmtLines] at hl
                rcases mem_insertAfterId _ _ _ _ hins l hl with h1 | rfl
                · exact hx l (by simpa [stmtLines] using h1)
                · exact goodLine_mkLine _ _ _
              · exact hrest r h
          · exact hrest r h
        · exact hrest r h
    | commentBlock c => simp only at h; exact hrest r h
    | lparen c => simp only at h; exact hrest r h
    | rparen c => simp only at h; exact hrest r h

theorem good_addLine (fs : FileSyntax) (hint : Option Nat) (toks : List Bytes) (new : Nat) (h : MarkersSettable fs.stmts) :
    MarkersSettable (addLine fs hint toks new).stmts := by
  rcases addLine_cases fs hint toks new with he | ⟨hh, stmts', hw, he⟩
  · rw [he]; exact good_append_newLine _ _ _ h
  · rw [he]; exact good_addLineWalk hh toks new _ _ _ hw h

theorem good_addLinePtr (fs : FileSyntax) (hint : Option Nat) (toks : List Bytes) (new : Nat) (h : MarkersSettable fs.stmts) :
    MarkersSettable (addLinePtr fs hint toks new).stmts := by
  unfold addLinePtr
  split
  · split
    · exact good_append_newLine _ _ _ h
    · exact good_addLine _ _ _ _ h
  · exact good_append_newLine _ _ _ h

/-! ### primitives: Cleanup, SortBlocks -/

theorem good_cleanupStmts : ∀ (stmts : List Expr), (∀ b, Expr.lineBlock b ∈ stmts → b.comments.suffix = []) →
    MarkersSettable stmts → MarkersSettable (cleanupStmts stmts) := by
  intro stmts
  induction stmts with
  | nil => intro _ h; simpa [cleanupStmts] using h
  | cons x xs ih =>
    intro hb hg
    rcases markersSettable_cons.1 hg with ⟨hx, hxs⟩
    have ih' := ih (fun b hb' => hb b (List.mem_cons_of_mem _ hb')) hxs
    cases x with
    | line l =>
      unfold cleanupStmts
      split
      · exact ih'
      · exact markersSettable_cons.2 ⟨hx, ih'⟩
    | lineBlock b =>
      have hsub : ∀ l ∈ b.lines.filter (fun l => !l.token.isEmpty), GoodLine l :=
        fun l hl => hx l (by simpa [stmtLines] using (List.mem_filter.1 hl).1)
      unfold cleanupStmts
      cases hlive : b.lines.filter (fun l => !l.token.isEmpty) with
      | nil => simp only [hlive]; exact ih'
      | cons l ls =>
        have hkeep : MarkersSettable (Expr.lineBlock { b with lines := l :: ls } :: cleanupStmts xs) := by
          refine markersSettable_cons.2 ⟨?_, ih'⟩
          intro l' hl'
          simp only [stmtLines] at hl'
          exact hsub l' (by rw [hlive]; exact hl')
        cases ls with
        | nil =>
          simp only [hlive]
          split
          · refine markersSettable_cons.2 ⟨?_, ih'⟩
            intro l' hl'
            simp only [stmtLines, List.mem_singleton] at hl'
            subst hl'
            have hl : GoodLine l := hsub l (by rw [hlive]; exact List.mem_singleton.2 rfl)
            unfold GoodLine at hl ⊢
            simp only [hb b List.mem_cons_self, List.append_nil]
            exact hl
          · exact hkeep
        | cons l2 ls2 => simp only [hlive]; exact hkeep
    | commentBlock c => unfold cleanupStmts; exact markersSettable_cons.2 ⟨hx, ih'⟩
    | lparen c => unfold cleanupStmts; exact markersSettable_cons.2 ⟨hx, ih'⟩
    | rparen c => unfold cleanupStmts; exact markersSettable_cons.2 ⟨hx, ih'⟩

theorem good_sortStmts (sem work : Bool) (stmts : List Expr) (h : MarkersSettable stmts) :
    MarkersSettable (sortStmts sem work stmts) := by
  intro x hx l hl
  unfold sortStmts at hx
  simp only [List.mem_map] at hx
  rcases hx with ⟨y, hy, rfl⟩
  cases y with
  | lineBlock b =>
    simp only [stmtLines] at hl
    exact h _ hy l (by simpa [stmtLines] using (stableSort_perm _ b.lines).subset hl)
  | line l0 => exact h _ hy l hl
  | commentBlock c => exact h _ hy l hl
  | lparen c => exact h _ hy l hl
  | rparen c => exact h _ hy l hl

theorem good_dropKilled (kill : List Nat) : ∀ (stmts : List Expr), MarkersSettable stmts → MarkersSettable (dropKilled kill stmts) := by
  intro stmts
  induction stmts with
  | nil => intro h; simpa [dropKilled] using h
  | cons x xs ih =>
    intro hg
    rcases markersSettable_cons.1 hg with ⟨hx, hxs⟩
    have ih' := ih hxs
    cases x with
    | line l =>
      unfold dropKilled
      split
      · exact ih'
      · exact markersSettable_cons.2 ⟨hx, ih'⟩
    | lineBlock b =>
      unfold dropKilled
      simp only
      split
      · exact ih'
      · refine markersSettable_cons.2 ⟨?_, ih'⟩
        intro l hl
        simp only [stmtLines] at hl
        exact hx l (by simpa [stmtLines] using (List.mem_filter.1 hl).1)
    | commentBlock c => unfold dropKilled; exact markersSettable_cons.2 ⟨hx, ih'⟩
    | lparen c => unfold dropKilled; exact markersSettable_cons.2 ⟨hx, ih'⟩
    | rparen c => unfold dropKilled; exact markersSettable_cons.2 ⟨hx, ih'⟩

theorem good_sortBlocks (e : EFile) (h : MarkersSettable e.f.syn.stmts) : MarkersSettable (sortBlocks e).f.syn.stmts := by
  rcases sortBlocks_eq e with ⟨sem, heq⟩
  rw [heq]
  exact good_sortStmts sem false _ (good_dropKilled _ _ h)

theorem good_cleanup (e : EFile) (hi : Inv e) (h : MarkersSettable e.f.syn.stmts) : MarkersSettable (cleanup e).f.syn.stmts :=
  good_cleanupStmts _ hi.tree.noBlockSuffix h

/-! ### primitives: the block surgery of SetRequireSeparateIndirect -/

theorem good_insertAt (stmts : List Expr) (i : Nat) (y : Expr) (hy : ∀ l ∈ stmtLines y, GoodLine l)
    (h : MarkersSettable stmts) : MarkersSettable (insertAt stmts i y) := by
  unfold insertAt
  rw [markersSettable_append, markersSettable_cons]
  exact ⟨h.of_subset (fun x hx => List.mem_of_mem_take hx), hy, h.of_subset (fun x hx => List.mem_of_mem_drop hx)⟩

theorem good_emptyRequireBlock : ∀ l ∈ stmtLines emptyRequireBlock, GoodLine l := by
  intro l hl; simp [emptyRequireBlock, stmtLines] at hl

theorem good_set (stmts : List Expr) (i : Nat) (y : Expr) (hy : ∀ l ∈ stmtLines y, GoodLine l)
    (h : MarkersSettable stmts) : MarkersSettable (stmts.set i y) := by
  intro x hx
  rcases List.mem_or_eq_of_mem_set hx with hx | rfl
  · exact h x hx
  · exact hy

theorem good_ensureBlock (stmts s : List Expr) (i : Nat) (he : ensureBlock stmts i = .ok s) (h : MarkersSettable stmts) :
    MarkersSettable s := by
  unfold ensureBlock at he
  split at he
  · simp only [Except.ok.injEq] at he; subst he; exact h
  · rename_i l0 hget
    simp only [Except.ok.injEq] at he; subst he
    refine good_set _ _ _ ?_ h
    intro l hl
    simp only [stmtLines, List.mem_singleton] at hl
    subst hl
    have hmem : Expr.line l0 ∈ stmts := List.mem_of_getElem? hget
    exact goodLine_of_suffix_eq rfl (h _ hmem l0 (by simp [stmtLines]))
  · cases he

theorem good_appendToBlock (stmts : List Expr) (i : Nat) (l : Line) (hl : GoodLine l) (h : MarkersSettable stmts) :
    MarkersSettable (appendToBlock stmts i l) := by
  unfold appendToBlock
  split
  · rename_i b hget
    refine good_set _ _ _ ?_ h
    intro l' hl'
    simp only [stmtLines, List.mem_append, List.mem_singleton] at hl'
    have hmem : Expr.lineBlock b ∈ stmts := List.mem_of_getElem? hget
    rcases hl' with hl' | rfl
    · exact h _ hmem l' (by simpa [stmtLines] using hl')
    · exact hl
  · exact h

theorem good_moveExisting (syn : FileSyntax) (lineId idx new : Nat) (h : MarkersSettable syn.stmts) :
    MarkersSettable (moveExisting syn lineId idx new).stmts := by
  unfold moveExisting
  split
  · exact h
  · rename_i old hfind
    have hold : GoodLine old := by
      unfold FileSyntax.findLine at hfind
      exact h.allLines old (List.mem_of_find?_eq_some hfind)
    simp only
    refine good_appendToBlock _ _ _ (goodLine_of_suffix_eq rfl hold) ?_
    exact good_updateLine syn lineId _ (fun l hl => goodLine_of_suffix_eq rfl hl) h


/-! ### every go.mod operation -/

theorem except_bind_ok {ε α β : Type} {x : Except ε α} {f : α → Except ε β} {b : β} (h : (x >>= f) = .ok b) :
    ∃ a, x = .ok a ∧ f a = .ok b := by
  cases x with
  | error e => simp [bind, Except.bind] at h
  | ok a => exact ⟨a, rfl, h⟩

theorem good_addModule (e : EFile) (p : Bytes) (h : MarkersSettable e.f.syn.stmts) :
    MarkersSettable (addModuleStmt e p).f.syn.stmts := by
  unfold addModuleStmt
  split
  · exact good_addLine _ _ _ _ h
  · exact good_updateTokens _ _ _ h

theorem good_addGo (e e' : EFile) (v : Bytes) (he : addGoStmt e v = .ok e') (h : MarkersSettable e.f.syn.stmts) :
    MarkersSettable e'.f.syn.stmts := by
  unfold addGoStmt at he
  split at he
  · cases he
  · split at he
    · simp only [Except.ok.injEq] at he; subst he; exact good_addLine _ _ _ _ h
    · simp only [Except.ok.injEq] at he; subst he; exact good_updateTokens _ _ _ h

theorem good_dropGo (e : EFile) (h : MarkersSettable e.f.syn.stmts) : MarkersSettable (dropGoStmt e).f.syn.stmts := by
  unfold dropGoStmt
  split
  · exact good_markRemoved _ _ h
  · exact h

theorem good_addToolchain (e e' : EFile) (n : Bytes) (he : addToolchainStmt e n = .ok e') (h : MarkersSettable e.f.syn.stmts) :
    MarkersSettable e'.f.syn.stmts := by
  unfold addToolchainStmt at he
  split at he
  · cases he
  · split at he
    · simp only [Except.ok.injEq] at he; subst he; exact good_addLine _ _ _ _ h
    · simp only [Except.ok.injEq] at he; subst he; exact good_updateTokens _ _ _ h

theorem good_dropToolchain (e : EFile) (h : MarkersSettable e.f.syn.stmts) :
    MarkersSettable (dropToolchainStmt e).f.syn.stmts := by
  unfold dropToolchainStmt
  split
  · exact good_markRemoved _ _ h
  · exact h

theorem good_addGodebug (e e' : EFile) (k v : Bytes) (he : addGodebug e k v = .ok e') (h : MarkersSettable e.f.syn.stmts) :
    MarkersSettable e'.f.syn.stmts := by
  unfold addGodebug at he
  rcases except_bind_ok he with ⟨⟨syn, gd, next⟩, hc, he⟩
  simp only [pure, Except.pure, Except.ok.injEq] at he
  rw [← he]
  unfold addGodebugCore at hc
  rcases except_bind_ok hc with ⟨⟨l', first, dead⟩, hr, hc⟩
  cases first with
  | some i =>
    simp only [pure, Except.pure, Except.ok.injEq, Prod.mk.injEq] at hc
    show MarkersSettable syn.stmts
    rw [← hc.1]
    exact good_markAll _ _ (good_updateTokens _ _ _ h)
  | none =>
    simp only [pure, Except.pure, Except.ok.injEq, Prod.mk.injEq] at hc
    show MarkersSettable syn.stmts
    rw [← hc.1]
    exact good_addLine _ _ _ _ h

theorem good_dropGodebug (e e' : EFile) (k : Bytes) (he : dropGodebug e k = .ok e') (h : MarkersSettable e.f.syn.stmts) :
    MarkersSettable e'.f.syn.stmts := by
  unfold dropGodebug at he
  rcases except_bind_ok he with ⟨⟨gd, dead⟩, hc, he⟩
  simp only [pure, Except.pure, Except.ok.injEq] at he
  rw [← he]
  exact good_markAll _ _ h

theorem good_addNewRequire (e : EFile) (p v : Bytes) (b : Bool) (h : MarkersSettable e.f.syn.stmts) :
    MarkersSettable (addNewRequire e p v b).f.syn.stmts := by
  unfold addNewRequire
  exact good_updateLine _ _ _ (fun l hl => goodLine_setIndirectLine b l hl) (good_addLine _ _ _ _ h)

theorem good_addRequire (e e' : EFile) (p v : Bytes) (he : addRequire e p v = .ok e') (h : MarkersSettable e.f.syn.stmts) :
    MarkersSettable e'.f.syn.stmts := by
  unfold addRequire at he
  rcases except_bind_ok he with ⟨⟨l', first, dead⟩, hr, he⟩
  cases first with
  | some i =>
    simp only [pure, Except.pure, Except.ok.injEq] at he
    rw [← he]
    exact good_markAll _ _ (good_updateTokens _ _ _ h)
  | none =>
    simp only [pure, Except.pure, Except.ok.injEq] at he
    rw [← he]
    exact good_addNewRequire e p v false h

theorem good_dropRequire (e e' : EFile) (p : Bytes) (he : dropRequire e p = .ok e') (h : MarkersSettable e.f.syn.stmts) :
    MarkersSettable e'.f.syn.stmts := by
  unfold dropRequire at he
  rcases except_bind_ok he with ⟨⟨gd, dead⟩, hc, he⟩
  simp only [pure, Except.pure, Except.ok.injEq] at he
  rw [← he]
  exact good_markAll _ _ h

theorem good_addExclude (e e' : EFile) (p v : Bytes) (he : addExclude e p v = .ok e') (h : MarkersSettable e.f.syn.stmts) :
    MarkersSettable e'.f.syn.stmts := by
  unfold addExclude at he
  split at he
  · cases he
  · split at he
    · simp only [Except.ok.injEq] at he; subst he; exact h
    · simp only [Except.ok.injEq] at he; subst he; exact good_addLinePtr _ _ _ _ h

theorem good_dropExclude (e e' : EFile) (p v : Bytes) (he : dropExclude e p v = .ok e') (h : MarkersSettable e.f.syn.stmts) :
    MarkersSettable e'.f.syn.stmts := by
  unfold dropExclude at he
  rcases except_bind_ok he with ⟨⟨gd, dead⟩, hc, he⟩
  simp only [pure, Except.pure, Except.ok.injEq] at he
  rw [← he]
  exact good_markAll _ _ h

theorem good_addReplace (e e' : EFile) (a b c d : Bytes) (he : addReplace e a b c d = .ok e') (h : MarkersSettable e.f.syn.stmts) :
    MarkersSettable e'.f.syn.stmts := by
  unfold addReplace at he
  rcases except_bind_ok he with ⟨⟨syn, gd, next⟩, hc, he⟩
  simp only [pure, Except.pure, Except.ok.injEq] at he
  rw [← he]
  unfold addReplaceCore at hc
  rcases except_bind_ok hc with ⟨⟨l', first, dead⟩, hr, hc⟩
  cases first with
  | some i =>
    simp only [pure, Except.pure, Except.ok.injEq, Prod.mk.injEq] at hc
    show MarkersSettable syn.stmts
    rw [← hc.1]
    exact good_markAll _ _ (good_updateTokens _ _ _ h)
  | none =>
    simp only [pure, Except.pure, Except.ok.injEq, Prod.mk.injEq] at hc
    show MarkersSettable syn.stmts
    rw [← hc.1]
    exact good_addLinePtr _ _ _ _ h

theorem good_dropReplace (e e' : EFile) (a b : Bytes) (he : dropReplace e a b = .ok e') (h : MarkersSettable e.f.syn.stmts) :
    MarkersSettable e'.f.syn.stmts := by
  unfold dropReplace at he
  rcases except_bind_ok he with ⟨⟨syn, rp⟩, hc, he⟩
  simp only [pure, Except.pure, Except.ok.injEq] at he
  rw [← he]
  unfold dropReplaceCore at hc
  rcases except_bind_ok hc with ⟨⟨rp', dead⟩, hr, hc⟩
  simp only [pure, Except.pure, Except.ok.injEq, Prod.mk.injEq] at hc
  show MarkersSettable syn.stmts
  rw [← hc.1]
  exact good_markAll _ _ h

theorem good_addRetract (e e' : EFile) (vi : VersionInterval) (why : Bytes) (he : addRetract e vi why = .ok e')
    (h : MarkersSettable e.f.syn.stmts) : MarkersSettable e'.f.syn.stmts := by
  rw [addRetract_eq] at he
  unfold addRetractP at he
  split at he
  · cases he
  · split at he
    · cases he
    · simp only [Except.ok.injEq] at he; rw [← he]
      exact good_updateLine _ _ _ (fun l hl => goodLine_of_suffix_eq rfl hl) (good_addLine _ _ _ _ h)

theorem good_dropRetract (e e' : EFile) (vi : VersionInterval) (he : dropRetract e vi = .ok e') (h : MarkersSettable e.f.syn.stmts) :
    MarkersSettable e'.f.syn.stmts := by
  unfold dropRetract at he
  rcases except_bind_ok he with ⟨⟨gd, dead⟩, hc, he⟩
  simp only [pure, Except.pure, Except.ok.injEq] at he
  rw [← he]
  exact good_markAll _ _ h

theorem good_addTool (e : EFile) (p : Bytes) (h : MarkersSettable e.f.syn.stmts) : MarkersSettable (addTool e p).f.syn.stmts := by
  unfold addTool
  split
  · exact h
  · exact good_sortBlocks _ (good_addLine _ _ _ _ h)

theorem good_dropTool (e e' : EFile) (p : Bytes) (he : dropTool e p = .ok e') (h : MarkersSettable e.f.syn.stmts) :
    MarkersSettable e'.f.syn.stmts := by
  unfold dropTool at he
  rcases except_bind_ok he with ⟨⟨gd, dead⟩, hc, he⟩
  simp only [pure, Except.pure, Except.ok.injEq] at he
  rw [← he]
  exact good_markAll _ _ h

/-! ### the bulk setters -/

theorem good_setRequireLoop (rs : List Require) : ∀ (need : List Want) (syn : FileSyntax) (rs' : List Require) (need' : List Want)
    (syn' : FileSyntax), setRequireLoop rs need syn = .ok (rs', need', syn') → MarkersSettable syn.stmts → MarkersSettable syn'.stmts := by
  induction rs with
  | nil =>
    intro need syn rs' need' syn' he h
    simp only [setRequireLoop, Except.ok.injEq, Prod.mk.injEq] at he
    rw [← he.2.2]; exact h
  | cons r rs ih =>
    intro need syn rs' need' syn' he h
    unfold setRequireLoop at he
    split at he
    · rename_i w hf
      rcases except_bind_ok he with ⟨i, hd, he⟩
      rcases except_bind_ok he with ⟨⟨a, b, c⟩, hr, he⟩
      simp only [pure, Except.pure, Except.ok.injEq, Prod.mk.injEq] at he
      rw [← he.2.2]
      exact ih _ _ _ _ _ hr (good_setReq _ _ _ _ h)
    · rcases except_bind_ok he with ⟨i, hd, he⟩
      rcases except_bind_ok he with ⟨⟨a, b, c⟩, hr, he⟩
      simp only [pure, Except.pure, Except.ok.injEq, Prod.mk.injEq] at he
      rw [← he.2.2]
      exact ih _ _ _ _ _ hr (good_markRemoved _ _ h)

theorem good_foldl_addNewRequire (ws : List Want) : ∀ e : EFile, MarkersSettable e.f.syn.stmts →
    MarkersSettable (ws.foldl (fun e w => addNewRequire e w.path w.vers w.indirect) e).f.syn.stmts := by
  induction ws with
  | nil => intro e h; exact h
  | cons w ws ih => intro e h; exact ih _ (good_addNewRequire e _ _ _ h)

theorem good_setRequire (e e' : EFile) (req : List Want) (perm : List Want → List Want)
    (he : setRequire e req perm = .ok e') (h : MarkersSettable e.f.syn.stmts) : MarkersSettable e'.f.syn.stmts := by
  unfold setRequire at he
  rcases except_bind_ok he with ⟨need, hn, he⟩
  rcases except_bind_ok he with ⟨⟨rq, need', syn'⟩, hr, he⟩
  simp only [pure, Except.pure, Except.ok.injEq] at he
  rw [← he]
  apply good_sortBlocks
  apply good_foldl_addNewRequire
  exact good_setRequireLoop _ _ _ _ _ _ hr h

theorem good_sepLoop (ctx : SepCtx) (need : List Want) (rs : List Require) : ∀ (have_ : List Bytes) (syn : FileSyntax) (next : Nat)
    (rs' : List Require) (h' : List Bytes) (syn' : FileSyntax) (next' : Nat),
    sepLoop ctx need rs have_ syn next = .ok (rs', h', syn', next') → MarkersSettable syn.stmts → MarkersSettable syn'.stmts := by
  induction rs with
  | nil =>
    intro have_ syn next rs' h' syn' next' he h
    simp only [sepLoop, Except.ok.injEq, Prod.mk.injEq] at he
    rw [← he.2.2.1]; exact h
  | cons r rs ih =>
    intro have_ syn next rs' h' syn' next' he h
    unfold sepLoop at he
    split at he
    · rename_i w hf
      split at he
      · rcases except_bind_ok he with ⟨i, hd, he⟩
        rcases except_bind_ok he with ⟨⟨a, b, c, d⟩, hr, he⟩
        simp only [pure, Except.pure, Except.ok.injEq, Prod.mk.injEq] at he
        rw [← he.2.2.1]
        exact ih _ _ _ _ _ _ _ hr (good_markRemoved _ _ h)
      · rcases except_bind_ok he with ⟨i, hd, he⟩
        have hs1 := good_setReq syn i w.vers w.indirect h
        simp only at he
        split at he
        · rcases except_bind_ok he with ⟨⟨a, b, c, d⟩, hr, he⟩
          simp only [pure, Except.pure, Except.ok.injEq, Prod.mk.injEq] at he
          rw [← he.2.2.1]
          exact ih _ _ _ _ _ _ _ hr (good_moveExisting _ _ _ _ hs1)
        · split at he
          · rcases except_bind_ok he with ⟨⟨a, b, c, d⟩, hr, he⟩
            simp only [pure, Except.pure, Except.ok.injEq, Prod.mk.injEq] at he
            rw [← he.2.2.1]
            exact ih _ _ _ _ _ _ _ hr (good_moveExisting _ _ _ _ hs1)
          · rcases except_bind_ok he with ⟨⟨a, b, c, d⟩, hr, he⟩
            simp only [pure, Except.pure, Except.ok.injEq, Prod.mk.injEq] at he
            rw [← he.2.2.1]
            exact ih _ _ _ _ _ _ _ hr hs1
    · rcases except_bind_ok he with ⟨i, hd, he⟩
      rcases except_bind_ok he with ⟨⟨a, b, c, d⟩, hr, he⟩
      simp only [pure, Except.pure, Except.ok.injEq, Prod.mk.injEq] at he
      rw [← he.2.2.1]
      exact ih _ _ _ _ _ _ _ hr (good_markRemoved _ _ h)

theorem good_addSepNew (ctx : SepCtx) (e : EFile) (w : Want) (h : MarkersSettable e.f.syn.stmts) :
    MarkersSettable (addSepNew ctx e w).f.syn.stmts := by
  unfold addSepNew
  simp only
  apply good_appendToBlock _ _ _ _ h
  split
  · exact goodLine_setIndirectLine true _ (goodLine_mkLine _ _ _)
  · exact goodLine_mkLine _ _ _

theorem good_foldl_addSepNew (ctx : SepCtx) (ws : List Want) : ∀ e : EFile, MarkersSettable e.f.syn.stmts →
    MarkersSettable (ws.foldl (addSepNew ctx) e).f.syn.stmts := by
  induction ws with
  | nil => intro e h; exact h
  | cons w ws ih => intro e h; exact ih _ (good_addSepNew ctx e w h)

theorem good_sepTail (e e' : EFile) (req : List Want) (perm : List Want → List Want) (ctx : SepCtx) (stmts : List Expr)
    (he : sepTail e req perm ctx stmts = .ok e') (h : MarkersSettable stmts) : MarkersSettable e'.f.syn.stmts := by
  unfold sepTail at he
  rcases except_bind_ok he with ⟨need, hn, he⟩
  rcases except_bind_ok he with ⟨⟨rq, hv, syn', next'⟩, hr, he⟩
  simp only [pure, Except.pure, Except.ok.injEq] at he
  rw [← he]
  apply good_sortBlocks
  apply good_foldl_addSepNew
  exact good_sepLoop _ _ _ _ _ _ _ _ _ _ hr h

theorem good_sepStage1 (stmts : List Expr) (sc : Scan) (r : List Expr × Nat × Option Nat × Option Nat × Option Nat)
    (he : sepStage1 stmts sc = .ok r) (h : MarkersSettable stmts) : MarkersSettable r.1 := by
  unfold sepStage1 at he
  split at he
  · split at he
    · simp only [Except.ok.injEq] at he; rw [← he]
      exact good_insertAt _ _ _ good_emptyRequireBlock h
    · split at he
      · simp only [Except.ok.injEq] at he; rw [← he]
        exact good_insertAt _ _ _ good_emptyRequireBlock h
      · simp only [Except.ok.injEq] at he; rw [← he]
        exact markersSettable_append.2 ⟨h, markersSettable_cons.2 ⟨good_emptyRequireBlock, MarkersSettable.nil⟩⟩
  · split at he
    · rename_i s hs
      simp only [Except.ok.injEq] at he; rw [← he]
      exact good_ensureBlock _ _ _ hs h
    · cases he

theorem good_sepStage2 (stmts : List Expr) (dI : Nat) (lI sh : Option Nat) (r : List Expr × Nat × Option Nat)
    (he : sepStage2 stmts dI lI sh = .ok r) (h : MarkersSettable stmts) : MarkersSettable r.1 := by
  unfold sepStage2 at he
  split at he
  · simp only [Except.ok.injEq] at he; rw [← he]
    exact good_insertAt _ _ _ good_emptyRequireBlock h
  · split at he
    · rename_i s hs
      simp only [Except.ok.injEq] at he; rw [← he]
      exact good_ensureBlock _ _ _ hs h
    · cases he

theorem good_setRequireSeparateIndirect (e e' : EFile) (req : List Want) (perm : List Want → List Want)
    (he : setRequireSeparateIndirect e req perm = .ok e') (h : MarkersSettable e.f.syn.stmts) :
    MarkersSettable e'.f.syn.stmts := by
  rw [setRSI_eq] at he
  cases h1 : sepStage1 e.f.syn.stmts (scanStmts e.f.syn.stmts 0 {}) with
  | error err => simp [h1] at he
  | ok r1 =>
    have g1 := good_sepStage1 _ _ _ h1 h
    rcases r1 with ⟨s1, dI, dO, lI, sh⟩
    simp only [h1] at he
    cases h2 : sepStage2 s1 dI lI sh with
    | error err => simp [h2] at he
    | ok r2 =>
      have g2 := good_sepStage2 _ _ _ _ _ h2 g1
      rcases r2 with ⟨s2, iI, iO⟩
      simp only [h2] at he
      exact good_sepTail e e' req perm _ s2 he g2

/-- ★ **every go.mod operation preserves `MarkersSettable`** (no hypothesis on the arguments; the invariant is only used
    for `noBlockSuffix` in Cleanup) -/
theorem applyMod_good (e e' : EFile) (op : Op) (hi : Inv e) (h : MarkersSettable e.f.syn.stmts)
    (ha : applyMod e op = some (.ok e')) : MarkersSettable e'.f.syn.stmts := by
  cases op with
  | addModule p => simp only [applyMod, Option.some.injEq, Except.ok.injEq] at ha; subst ha; exact good_addModule e p h
  | addGo v => simp only [applyMod, Option.some.injEq] at ha; exact good_addGo e e' v ha h
  | dropGo => simp only [applyMod, Option.some.injEq, Except.ok.injEq] at ha; subst ha; exact good_dropGo e h
  | addToolchain n => simp only [applyMod, Option.some.injEq] at ha; exact good_addToolchain e e' n ha h
  | dropToolchain => simp only [applyMod, Option.some.injEq, Except.ok.injEq] at ha; subst ha; exact good_dropToolchain e h
  | addGodebug k v => simp only [applyMod, Option.some.injEq] at ha; exact good_addGodebug e e' k v ha h
  | dropGodebug k => simp only [applyMod, Option.some.injEq] at ha; exact good_dropGodebug e e' k ha h
  | addRequire p v => simp only [applyMod, Option.some.injEq] at ha; exact good_addRequire e e' p v ha h
  | addNewRequire p v i =>
    simp only [applyMod, Option.some.injEq, Except.ok.injEq] at ha; subst ha; exact good_addNewRequire e p v i h
  | dropRequire p => simp only [applyMod, Option.some.injEq] at ha; exact good_dropRequire e e' p ha h
  | setRequire w r => simp only [applyMod, Option.some.injEq] at ha; exact good_setRequire e e' w _ ha h
  | setRequireSeparateIndirect w r =>
    simp only [applyMod, Option.some.injEq] at ha; exact good_setRequireSeparateIndirect e e' w _ ha h
  | addExclude p v => simp only [applyMod, Option.some.injEq] at ha; exact good_addExclude e e' p v ha h
  | dropExclude p v => simp only [applyMod, Option.some.injEq] at ha; exact good_dropExclude e e' p v ha h
  | addReplace a b c d => simp only [applyMod, Option.some.injEq] at ha; exact good_addReplace e e' a b c d ha h
  | dropReplace a b => simp only [applyMod, Option.some.injEq] at ha; exact good_dropReplace e e' a b ha h
  | addRetract lo hi' why => simp only [applyMod, Option.some.injEq] at ha; exact good_addRetract e e' _ why ha h
  | dropRetract lo hi' => simp only [applyMod, Option.some.injEq] at ha; exact good_dropRetract e e' _ ha h
  | addTool p => simp only [applyMod, Option.some.injEq, Except.ok.injEq] at ha; subst ha; exact good_addTool e p h
  | dropTool p => simp only [applyMod, Option.some.injEq] at ha; exact good_dropTool e e' p ha h
  | sortBlocks => simp only [applyMod, Option.some.injEq, Except.ok.injEq] at ha; subst ha; exact good_sortBlocks e h
  | cleanup => simp only [applyMod, Option.some.injEq, Except.ok.injEq] at ha; subst ha; exact good_cleanup e hi h
  | addUse d m => simp [applyMod] at ha
  | addNewUse d m => simp [applyMod] at ha
  | dropUse d => simp [applyMod] at ha
  | setUse w rev => simp [applyMod] at ha

/-! ### along a session: the marker clause of `RunValid` is redundant -/

/-- validity of an operation's arguments in a given state WITHOUT the marker clause: as `ValidArgsT`, and for the two bulk
    requirement setters distinct non-empty paths and every typed requirement live (a Cleanup has just run) -/
def ValidArgsLive (e : EFile) : Op → Prop
  | .setRequire w _ => GoodWant w ∧ (∀ r ∈ e.f.require, liveRq r = true)
  | .setRequireSeparateIndirect w _ => GoodWant w ∧ (∀ r ∈ e.f.require, liveRq r = true)
  | op => ValidArgsT op

theorem ValidArgsLive.all {e : EFile} {op : Op} (hv : ValidArgsLive e op) (h : MarkersSettable e.f.syn.stmts) :
    ValidArgsAll e op := by
  cases op <;> first
    | exact ⟨hv.1, hv.2, h.noNested⟩
    | exact hv

/-- `RunValid` without `NoNestedIndirectMarker` -/
def RunValidLive : EFile → List Op → Prop
  | _, [] => True
  | e, op :: ops =>
    ValidArgsLive e op ∧
      (∀ e', applyMod e op = some (.ok e') → RunValidLive e' ops) ∧
      (∀ err, applyMod e op = some (.error err) → err.isReturned = true → RunValidLive e ops)

/-- ★ **closure of `NoNestedIndirectMarker` along a session**: from a state satisfying the invariant whose lines all have
    settable markers, the marker clause of `RunValid` holds in every state of the run -/
theorem RunValidLive.runValid (ops : List Op) : ∀ e : EFile, RunValidLive e ops → Inv e → MarkersSettable e.f.syn.stmts →
    RunValid e ops := by
  induction ops with
  | nil => intro e _ _ _; trivial
  | cons op ops ih =>
    intro e hv hi h
    have hall := hv.1.all h
    refine ⟨hall, ?_, ?_⟩
    · intro e' ha
      exact ih e' (hv.2.1 e' ha) (applyMod_inv_all e e' op hall hi ha) (applyMod_good e e' op hi h ha)
    · intro err ha hr
      exact ih e (hv.2.2 err ha hr) hi h

/-- a whole session preserves the invariant AND the marker condition -/
theorem runOps_good (ops : List Op) : ∀ (e : EFile) (res0 : List Bool) (i : Nat) (e' : EFile) (res : List Bool),
    RunValidLive e ops → Inv e → MarkersSettable e.f.syn.stmts → runOps applyMod e ops res0 i = .done e' res →
    Inv e' ∧ MarkersSettable e'.f.syn.stmts := by
  induction ops with
  | nil =>
    intro e res0 i e' res _ hi h hr
    simp only [runOps, SessionResult.done.injEq] at hr
    rw [← hr.1]; exact ⟨hi, h⟩
  | cons op ops ih =>
    intro e res0 i e' res hv hi h hr
    unfold runOps at hr
    cases ha : applyMod e op with
    | none => simp [ha] at hr
    | some r =>
      cases r with
      | ok e1 =>
        simp only [ha] at hr
        exact ih e1 _ _ e' res (hv.2.1 e1 ha) (applyMod_inv_all e e1 op (hv.1.all h) hi ha) (applyMod_good e e1 op hi h ha) hr
      | error err =>
        simp only [ha] at hr
        by_cases hret : err.isReturned = true
        · simp only [hret, if_true] at hr
          exact ih e _ _ e' res (hv.2.2 err ha hret) hi h hr
        · simp only [Bool.not_eq_true] at hret
          simp [hret] at hr

/-- **C15 `typed_eq_tree`, tree half, without the state-dependent marker hypothesis** -/
theorem typed_eq_tree_live (e e' : EFile) (ops : List Op) (res : List Bool) (hi : Inv e) (hm : MarkersSettable e.f.syn.stmts)
    (hv : RunValidLive e ops) (h : runOps applyMod e ops [] 0 = .done e' res) :
    Inv (cleanup e') ∧ MarkersSettable (cleanup e').f.syn.stmts := by
  rcases runOps_good ops e [] 0 e' res hv hi hm h with ⟨h1, h2⟩
  exact ⟨cleanup_inv e' h1, good_cleanup e' h1 h2⟩

theorem runOps_total_live (ops : List Op) (e : EFile) (hv : RunValidLive e ops) (hmod : ∀ op ∈ ops, IsModOp op) (hi : Inv e)
    (hm : MarkersSettable e.f.syn.stmts) : ∃ e' res, runOps applyMod e ops [] 0 = .done e' res :=
  runOps_total_all ops e [] 0 (hv.runValid ops e hi hm) hmod hi

/-! ### the start state: `load` only renumbers -/

theorem markersSettable_shift (fs : FileSyntax) : MarkersSettable (shiftSyntax fs).stmts ↔ MarkersSettable fs.stmts := by
  unfold shiftSyntax MarkersSettable
  simp only [List.mem_map]
  constructor
  · intro h x hx l hl
    cases x with
    | line l0 =>
      simp only [stmtLines, List.mem_singleton] at hl
      subst hl
      have := h _ ⟨_, hx, rfl⟩ (shiftLine l) (by simp [stmtLines])
      exact goodLine_of_suffix_eq (l := shiftLine l) rfl this
    | lineBlock b =>
      simp only [stmtLines] at hl
      have := h _ ⟨_, hx, rfl⟩ (shiftLine l) (by simp only [stmtLines, List.mem_map]; exact ⟨l, hl, rfl⟩)
      exact goodLine_of_suffix_eq (l := shiftLine l) rfl this
    | commentBlock c => simp [stmtLines] at hl
    | lparen c => simp [stmtLines] at hl
    | rparen c => simp [stmtLines] at hl
  · rintro h x ⟨y, hy, rfl⟩ l hl
    cases y with
    | line l0 =>
      simp only [stmtLines, List.mem_singleton] at hl
      subst hl
      exact goodLine_of_suffix_eq (l := l0) rfl (h _ hy l0 (by simp [stmtLines]))
    | lineBlock b =>
      simp only [stmtLines, List.mem_map] at hl
      rcases hl with ⟨l0, hl0, rfl⟩
      exact goodLine_of_suffix_eq (l := l0) rfl (h _ hy l0 (by simpa [stmtLines] using hl0))
    | commentBlock c => simp [stmtLines] at hl
    | lparen c => simp [stmtLines] at hl
    | rparen c => simp [stmtLines] at hl

theorem markersSettable_load (f : File) : MarkersSettable (load f).f.syn.stmts ↔ MarkersSettable f.syn.stmts :=
  markersSettable_shift f.syn

/-! ### a static form of `RunValidLive`: a bulk setter directly after a Cleanup -/

def isCleanupOp : Op → Bool
  | .cleanup => true
  | _ => false

/-- validity of the arguments that can be read off the operation list: as `ValidArgsT`; a bulk requirement setter has
    distinct non-empty paths and comes directly after a Cleanup (`afterCleanup`) -/
def StaticArgs (afterCleanup : Bool) : Op → Prop
  | .setRequire w _ => GoodWant w ∧ afterCleanup = true
  | .setRequireSeparateIndirect w _ => GoodWant w ∧ afterCleanup = true
  | op => ValidArgsT op

def StaticValid : Bool → List Op → Prop
  | _, [] => True
  | c, op :: ops => StaticArgs c op ∧ StaticValid (isCleanupOp op) ops

theorem StaticValid.runValidLive (ops : List Op) : ∀ (c : Bool) (e : EFile), StaticValid c ops →
    (c = true → ∀ r ∈ e.f.require, liveRq r = true) → RunValidLive e ops := by
  induction ops with
  | nil => intro c e _ _; trivial
  | cons op ops ih =>
    intro c e hs hc
    have hargs : ValidArgsLive e op := by
      have := hs.1
      cases op <;> first
        | exact ⟨this.1, hc this.2⟩
        | exact this
    refine ⟨hargs, ?_, ?_⟩
    · intro e' ha
      refine ih (isCleanupOp op) e' hs.2 ?_
      intro hcl
      cases op <;> simp only [isCleanupOp] at hcl <;> try cases hcl
      simp only [applyMod, Option.some.injEq, Except.ok.injEq] at ha
      subst ha
      exact cleanup_require_live e
    · intro err ha hr
      refine ih (isCleanupOp op) e hs.2 ?_
      intro hcl
      cases op <;> simp only [isCleanupOp] at hcl <;> try cases hcl
      simp [applyMod] at ha

/-! ### executable checks of the hypotheses (for concrete instances) -/

def staticArgsB (c : Bool) : Op → Bool
  | .setRequire w _ => goodWantB w && c
  | .setRequireSeparateIndirect w _ => goodWantB w && c
  | op => validArgsTB op

theorem staticArgsB_sound (c : Bool) (op : Op) (h : staticArgsB c op = true) : StaticArgs c op := by
  cases op <;> first
    | (simp only [staticArgsB, Bool.and_eq_true] at h; exact ⟨goodWantB_sound _ h.1, h.2⟩)
    | (simp only [StaticArgs]; exact validArgsTB_sound _ h)

def staticValidB : Bool → List Op → Bool
  | _, [] => true
  | c, op :: ops => staticArgsB c op && staticValidB (isCleanupOp op) ops

theorem staticValidB_sound (ops : List Op) : ∀ c : Bool, staticValidB c ops = true → StaticValid c ops := by
  induction ops with
  | nil => intro c _; trivial
  | cons op ops ih =>
    intro c h
    simp only [staticValidB, Bool.and_eq_true] at h
    exact ⟨staticArgsB_sound c op h.1, ih _ h.2⟩

end ModVerif.Modfile.Edit
