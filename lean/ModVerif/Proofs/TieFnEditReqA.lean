/-
  Helper lemmas for Tie/FnEditReq.lean, part A: the "every matching entry is cleared" loops of the regenerated go.mod edit
  operations (Generated/FnEdit.lean): `File_DropRequire_loop1`, `File_DropExclude_loop1`, `File_DropReplace_loop1`,
  `File_DropRetract_loop1` against the model's `clearAll` + `markAll` (Model/Modfile/Edit.lean).

  Shape of a loop lemma (`Drop…_loop_sim`): the pointer list of the `File` object is `pre ++ suf`, the model's typed list
  `xpre ++ xsuf` (same lengths), the loop stands at index `pre.length`, the heap represents the model (`RepFAt`,
  Proofs/TieFnEditRep.lean).  If `clearAll … xsuf = .ok (rest, dead)` the loop ends normally and the heap represents the
  model with the typed list `xpre ++ rest` and the syntax tree `markAll syn dead`; if `clearAll` fails (`nilDeref`: a
  matching entry is a cleared one, `Syntax == nil`) the loop panics.  `mods` (the `File` objects) is untouched.

  Owner: edit-req.
-/
import ModVerif.Proofs.TieFnEditRep
import ModVerif.Proofs.TieFnEditTreeA
set_option linter.unusedSimpArgs false
set_option linter.unusedVariables false
namespace ModVerif.Tie.FnEditReqA
open ModVerif ModVerif.GoRt ModVerif.Generated.Edit ModVerif.Tie.FnEditRep ModVerif.Tie.FnEditTreeA
open ModVerif.Modfile.Edit (clearAll firstRest markAll markRemoved deref nilId EditErr EFile)

/-! ### indexing a list in the middle -/

theorem idxL_mid {α : Type} (a : List α) (e : α) (c : List α) : idxL (a ++ e :: c) (a.length : Int) = .ok e := by
  rw [idxL_natCast (by simp)]; simp

theorem lt_len_mid {α : Type} (a : List α) (e : α) (c : List α) : ((a.length : Int) < len (a ++ e :: c)) := by
  rw [len_eq]; simp; omega

theorem not_lt_len_end {α : Type} (a : List α) : ¬ ((a.length : Int) < len a) := by
  rw [len_eq]; omega

theorem succ_len_snoc {α : Type} (a : List α) (e : α) : ((a.length : Int) + 1) = ((a ++ [e]).length : Int) := by simp

/-- the model list has a head when the pointer list has one -/
theorem REntsL.cons_of_cons {α β : Type} {objs : List α} {g : β → α} {id : β → Nat} {nl : Nat} {pre : List Int} {r : Int}
    {suf : List Int} {xpre xsuf : List β} (rel : REntsL objs g id nl (pre ++ r :: suf) (xpre ++ xsuf))
    (hl : pre.length = xpre.length) : ∃ x t, xsuf = x :: t := by
  have := rel.length
  cases xsuf with
  | nil => simp at this; omega
  | cons x t => exact ⟨x, t, rfl⟩

theorem REntsL.nil_of_nil {α β : Type} {objs : List α} {g : β → α} {id : β → Nat} {nl : Nat} {pre : List Int}
    {xpre xsuf : List β} (rel : REntsL objs g id nl (pre ++ []) (xpre ++ xsuf))
    (hl : pre.length = xpre.length) : xsuf = [] := by
  have := rel.length
  simp at this
  exact List.eq_nil_of_length_eq_zero (by omega)

/-! ### `heapSet` of a typed object: the file-level frame lemmas for `Exclude`, `Replace`, `Retract`
    (`RepFAt.setRequire` is in Proofs/TieFnEditRep.lean) -/

theorem RepFAt.setExclude {h : Heap} {o : File} {e : EFile} (R : RepFAt h o e) {i : Nat} {r : Int}
    (hi : o.Exclude[i]? = some r) (y : Modfile.Exclude) (hy : y.lineId ≤ h.lines.length) :
    RepFAt { h with excludes := h.excludes.set (r.toNat - 1) (excludeG y) } o
      { e with f := { e.f with exclude := e.f.exclude.set i y } } where
  syn := RepSyn.congr (h := h) (h' := { h with excludes := h.excludes.set (r.toNat - 1) (excludeG y) }) rfl rfl rfl rfl R.syn
  tok := R.tok
  linesG := LinesG.congr (h := h) (h' := { h with excludes := h.excludes.set (r.toNat - 1) (excludeG y) }) R.linesG rfl
  next := R.next
  module := R.module
  go := R.go
  toolchain := R.toolchain
  godebug := R.godebug
  require := R.require
  exclude := ⟨R.exclude.rel.setAt R.exclude.nodup i r y hi hy, R.exclude.nodup⟩
  replace := R.replace
  retract := R.retract
  tool := R.tool

theorem RepFAt.setReplace {h : Heap} {o : File} {e : EFile} (R : RepFAt h o e) {i : Nat} {r : Int}
    (hi : o.Replace[i]? = some r) (y : Modfile.Replace) (hy : y.lineId ≤ h.lines.length) :
    RepFAt { h with replaces := h.replaces.set (r.toNat - 1) (replaceG y) } o
      { e with f := { e.f with replace := e.f.replace.set i y } } where
  syn := RepSyn.congr (h := h) (h' := { h with replaces := h.replaces.set (r.toNat - 1) (replaceG y) }) rfl rfl rfl rfl R.syn
  tok := R.tok
  linesG := LinesG.congr (h := h) (h' := { h with replaces := h.replaces.set (r.toNat - 1) (replaceG y) }) R.linesG rfl
  next := R.next
  module := R.module
  go := R.go
  toolchain := R.toolchain
  godebug := R.godebug
  require := R.require
  exclude := R.exclude
  replace := ⟨R.replace.rel.setAt R.replace.nodup i r y hi hy, R.replace.nodup⟩
  retract := R.retract
  tool := R.tool

theorem RepFAt.setRetract {h : Heap} {o : File} {e : EFile} (R : RepFAt h o e) {i : Nat} {r : Int}
    (hi : o.Retract[i]? = some r) (y : Modfile.Retract) (hy : y.lineId ≤ h.lines.length) :
    RepFAt { h with retracts := h.retracts.set (r.toNat - 1) (retractG y) } o
      { e with f := { e.f with retract := e.f.retract.set i y } } where
  syn := RepSyn.congr (h := h) (h' := { h with retracts := h.retracts.set (r.toNat - 1) (retractG y) }) rfl rfl rfl rfl R.syn
  tok := R.tok
  linesG := LinesG.congr (h := h) (h' := { h with retracts := h.retracts.set (r.toNat - 1) (retractG y) }) R.linesG rfl
  next := R.next
  module := R.module
  go := R.go
  toolchain := R.toolchain
  godebug := R.godebug
  require := R.require
  exclude := R.exclude
  replace := R.replace
  retract := ⟨R.retract.rel.setAt R.retract.nodup i r y hi hy, R.retract.nodup⟩
  tool := R.tool

/-! ### DropRequire -/

/-- the model after one "mark the line removed and clear the entry" step -/
def dropStepReq (e : EFile) (i : Nat) (x : Modfile.Require) : EFile :=
  { e with f := { e.f with require := e.f.require.set i Modfile.Edit.clearedRequire, syn := markRemoved e.f.syn x.lineId } }

/-- one step on the heap -/
theorem dropStep_req {h : Heap} {o : File} {e : EFile} (R : RepFAt h o e) {i : Nat} {r : Int} {x : Modfile.Require}
    (hr : o.Require[i]? = some r) (hx : e.f.require[i]? = some x) (h0 : x.lineId ≠ 0) :
    ∃ l, heapGet h.lines (x.lineId : Int) = .ok (lineG l) ∧
      RepFAt { setLineH h (x.lineId : Int) (markRemovedLine l) with requires := h.requires.set (r.toNat - 1) (default : Require) } o
        (dropStepReq e i x) := by
  obtain ⟨hg, hle⟩ := R.require.rel.get i r x hr hx
  obtain ⟨l, hl, hid⟩ := R.linesG.ofId h0 hle
  refine ⟨l, hl, ?_⟩
  have R1 := R.setLine IdEquiv_markRemoved hl
  have R2 := R1.setRequire (i := i) (r := r) hr Modfile.Edit.clearedRequire (by simp [Modfile.Edit.clearedRequire, nilId])
  simpa [dropStepReq, markRemoved, requireG_cleared, markRemovedLine] using R2

/-- the model at the end of the loop -/
def dropReqRest (e : EFile) (xpre rest : List Modfile.Require) (dead : List Nat) : EFile :=
  { e with f := { e.f with require := xpre ++ rest, syn := markAll e.f.syn dead } }

theorem DropRequire_loop_sim (f : Int) (path : Bytes) (o : File) :
    ∀ (suf : List Int) (xsuf : List Modfile.Require) (pre : List Int) (xpre : List Modfile.Require) (h : Heap) (e : EFile) (fuel : Nat),
      RepFAt h o e → o.Require = pre ++ suf → e.f.require = xpre ++ xsuf → pre.length = xpre.length → suf.length + 1 ≤ fuel →
      match clearAll (fun r : Modfile.Require => r.mod.path == path) (·.lineId) Modfile.Edit.clearedRequire xsuf with
      | .ok (rest, dead) => ∃ h', File_DropRequire_loop1 o.Require f path fuel (pre.length : Int) h = .ok (len o.Require, h') ∧
          h'.mods = h.mods ∧ RepFAt h' o (dropReqRest e xpre rest dead)
      | .error _ => File_DropRequire_loop1 o.Require f path fuel (pre.length : Int) h = .error .panic
  | [], xsuf, pre, xpre, h, e, fuel, R, ho, he, hl, hf => by
    obtain ⟨fuel, rfl⟩ : ∃ k, fuel = k + 1 := ⟨fuel - 1, by omega⟩
    have hx : xsuf = [] := REntsL.nil_of_nil (by have := R.require.rel; rwa [ho, he] at this) hl
    subst hx
    simp only [clearAll]
    refine ⟨h, ?_, rfl, ?_⟩
    · unfold File_DropRequire_loop1
      have : o.Require = pre := by simpa using ho
      simp [this, not_lt_len_end, len_eq]
    · have : dropReqRest e xpre [] [] = e := by
        simp only [dropReqRest, markAll, List.foldl_nil, List.append_nil]
        rw [show xpre = e.f.require by simpa using he.symm]
      rw [this]; exact R
  | r :: suf, xsuf, pre, xpre, h, e, fuel, R, ho, he, hl, hf => by
    obtain ⟨fuel, rfl⟩ : ∃ k, fuel = k + 1 := ⟨fuel - 1, by omega⟩
    obtain ⟨x, xsuf, rfl⟩ := REntsL.cons_of_cons (by have := R.require.rel; rwa [ho, he] at this) hl
    have hr : o.Require[pre.length]? = some r := by rw [ho]; simp
    have hx : e.f.require[pre.length]? = some x := by rw [he, hl]; simp
    obtain ⟨hg, hle⟩ := R.require.rel.get _ r x hr hx
    have hstep : File_DropRequire_loop1 o.Require f path (fuel + 1) (pre.length : Int) h =
        (if (x.mod.path == path) = true then (do
          let t7 ← (Line_markRemoved (x.lineId : Int) h)
          let t9 ← heapGet t7.2.requires r
          let t10 ← heapSet t7.2.requires r (default : Require)
          File_DropRequire_loop1 o.Require f path fuel ((pre.length : Int) + 1) { t7.2 with requires := t10 })
        else File_DropRequire_loop1 o.Require f path fuel ((pre.length : Int) + 1) h) := by
      conv => lhs; unfold File_DropRequire_loop1
      rw [ho]
      simp only [lt_len_mid, decide_true, if_true, idxL_mid, bind_ok, hg]
      by_cases hm : x.mod.path = path
      · have h1 : decide ((requireG x).Mod.Path = path) = true := decide_eq_true hm
        have h2 : (x.mod.path == path) = true := by simpa using hm
        rw [if_pos h1, if_pos h2]; rfl
      · have h1 : ¬ (decide ((requireG x).Mod.Path = path) = true) := by
          intro hd; exact hm (of_decide_eq_true hd)
        have h2 : ¬ ((x.mod.path == path) = true) := by simpa using hm
        rw [if_neg h1, if_neg h2]
    rw [hstep, succ_len_snoc]
    simp only [clearAll]
    by_cases hm : (x.mod.path == path) = true
    · simp only [hm, ↓reduceIte]
      by_cases h0 : x.lineId = 0
      · simp only [deref, h0, nilId, beq_self_eq_true, if_true, bind, Except.bind]
        rw [Line_markRemoved_nil (by simp)]
      · obtain ⟨l, hline, R'⟩ := dropStep_req R hr hx h0
        have hd : deref x.lineId = .ok x.lineId := by simp [deref, nilId, h0]
        rw [Line_markRemoved_eq hline]
        simp only [bind_ok, setLineH_requires, hg, heapSet_of_get _ hg]
        have ih := DropRequire_loop_sim f path o suf xsuf (pre ++ [r]) (xpre ++ [Modfile.Edit.clearedRequire]) _ _ fuel R'
          (by simp [ho]) (by simp [dropStepReq, he, hl]) (by simp [hl]) (by simp at hf; omega)
        simp only [hd, bind, Except.bind]
        cases hc : clearAll (fun r : Modfile.Require => r.mod.path == path) (·.lineId) Modfile.Edit.clearedRequire xsuf with
        | error err => rw [hc] at ih; simpa using ih
        | ok v =>
          obtain ⟨rest, dead⟩ := v
          rw [hc] at ih
          obtain ⟨h', h1, hm', h2⟩ := ih
          dsimp only [pure, Except.pure]
          refine ⟨h', h1, hm', ?_⟩
          have : dropReqRest (dropStepReq e pre.length x) (xpre ++ [Modfile.Edit.clearedRequire]) rest dead =
              dropReqRest e xpre (Modfile.Edit.clearedRequire :: rest) (x.lineId :: dead) := by
            simp [dropReqRest, dropStepReq, markAll]
          rw [← this]; exact h2
    · simp only [hm, Bool.false_eq_true, ↓reduceIte]
      have ih := DropRequire_loop_sim f path o suf xsuf (pre ++ [r]) (xpre ++ [x]) h e fuel R
        (by simp [ho]) (by simp [he]) (by simp [hl]) (by simp at hf; omega)
      simp only [bind, Except.bind]
      cases hc : clearAll (fun r : Modfile.Require => r.mod.path == path) (·.lineId) Modfile.Edit.clearedRequire xsuf with
      | error err => rw [hc] at ih; simpa using ih
      | ok v =>
        obtain ⟨rest, dead⟩ := v
        rw [hc] at ih
        obtain ⟨h', h1, hm', h2⟩ := ih
        dsimp only [pure, Except.pure]
        refine ⟨h', h1, hm', ?_⟩
        have : dropReqRest e (xpre ++ [x]) rest dead = dropReqRest e xpre (x :: rest) dead := by
          simp [dropReqRest]
        rw [← this]; exact h2

/-! ### DropExclude -/

/-- the model after one "mark the line removed and clear the entry" step -/
def dropStepExcl (e : EFile) (i : Nat) (x : Modfile.Exclude) : EFile :=
  { e with f := { e.f with exclude := e.f.exclude.set i Modfile.Edit.clearedExclude, syn := markRemoved e.f.syn x.lineId } }

/-- one step on the heap -/
theorem dropStep_Excl {h : Heap} {o : File} {e : EFile} (R : RepFAt h o e) {i : Nat} {r : Int} {x : Modfile.Exclude}
    (hr : o.Exclude[i]? = some r) (hx : e.f.exclude[i]? = some x) (h0 : x.lineId ≠ 0) :
    ∃ l, heapGet h.lines (x.lineId : Int) = .ok (lineG l) ∧
      RepFAt { setLineH h (x.lineId : Int) (markRemovedLine l) with excludes := h.excludes.set (r.toNat - 1) (default : Exclude) } o
        (dropStepExcl e i x) := by
  obtain ⟨hg, hle⟩ := R.exclude.rel.get i r x hr hx
  obtain ⟨l, hl, hid⟩ := R.linesG.ofId h0 hle
  refine ⟨l, hl, ?_⟩
  have R1 := R.setLine IdEquiv_markRemoved hl
  have R2 := RepFAt.setExclude R1 (i := i) (r := r) hr Modfile.Edit.clearedExclude (by simp [Modfile.Edit.clearedExclude, nilId])
  simpa [dropStepExcl, markRemoved, excludeG_cleared, markRemovedLine] using R2

/-- the model at the end of the loop -/
def dropExclRest (e : EFile) (xpre rest : List Modfile.Exclude) (dead : List Nat) : EFile :=
  { e with f := { e.f with exclude := xpre ++ rest, syn := markAll e.f.syn dead } }

theorem DropExclude_loop_sim (f : Int) (path vers : Bytes) (o : File) :
    ∀ (suf : List Int) (xsuf : List Modfile.Exclude) (pre : List Int) (xpre : List Modfile.Exclude) (h : Heap) (e : EFile) (fuel : Nat),
      RepFAt h o e → o.Exclude = pre ++ suf → e.f.exclude = xpre ++ xsuf → pre.length = xpre.length → suf.length + 1 ≤ fuel →
      match clearAll (fun x : Modfile.Exclude => x.mod.path == path && x.mod.version == vers) (·.lineId) Modfile.Edit.clearedExclude xsuf with
      | .ok (rest, dead) => ∃ h', File_DropExclude_loop1 o.Exclude f path vers fuel (pre.length : Int) h = .ok (len o.Exclude, h') ∧
          h'.mods = h.mods ∧ RepFAt h' o (dropExclRest e xpre rest dead)
      | .error _ => File_DropExclude_loop1 o.Exclude f path vers fuel (pre.length : Int) h = .error .panic
  | [], xsuf, pre, xpre, h, e, fuel, R, ho, he, hl, hf => by
    obtain ⟨fuel, rfl⟩ : ∃ k, fuel = k + 1 := ⟨fuel - 1, by omega⟩
    have hx : xsuf = [] := REntsL.nil_of_nil (by have := R.exclude.rel; rwa [ho, he] at this) hl
    subst hx
    simp only [clearAll]
    refine ⟨h, ?_, rfl, ?_⟩
    · unfold File_DropExclude_loop1
      have : o.Exclude = pre := by simpa using ho
      simp [this, not_lt_len_end, len_eq]
    · have : dropExclRest e xpre [] [] = e := by
        simp only [dropExclRest, markAll, List.foldl_nil, List.append_nil]
        rw [show xpre = e.f.exclude by simpa using he.symm]
      rw [this]; exact R
  | r :: suf, xsuf, pre, xpre, h, e, fuel, R, ho, he, hl, hf => by
    obtain ⟨fuel, rfl⟩ : ∃ k, fuel = k + 1 := ⟨fuel - 1, by omega⟩
    obtain ⟨x, xsuf, rfl⟩ := REntsL.cons_of_cons (by have := R.exclude.rel; rwa [ho, he] at this) hl
    have hr : o.Exclude[pre.length]? = some r := by rw [ho]; simp
    have hx : e.f.exclude[pre.length]? = some x := by rw [he, hl]; simp
    obtain ⟨hg, hle⟩ := R.exclude.rel.get _ r x hr hx
    have hstep : File_DropExclude_loop1 o.Exclude f path vers (fuel + 1) (pre.length : Int) h =
        (if (x.mod.path == path && x.mod.version == vers) = true then (do
          let t7 ← (Line_markRemoved (x.lineId : Int) h)
          let t9 ← heapGet t7.2.excludes r
          let t10 ← heapSet t7.2.excludes r (default : Exclude)
          File_DropExclude_loop1 o.Exclude f path vers fuel ((pre.length : Int) + 1) { t7.2 with excludes := t10 })
        else File_DropExclude_loop1 o.Exclude f path vers fuel ((pre.length : Int) + 1) h) := by
      conv => lhs; unfold File_DropExclude_loop1
      rw [ho]
      simp only [lt_len_mid, decide_true, if_true, idxL_mid, bind_ok, hg]
      by_cases hp : x.mod.path = path
      · have h1 : decide ((excludeG x).Mod.Path = path) = true := decide_eq_true hp
        rw [if_pos h1]
        simp only [bind_ok, pure_eq_ok]
        by_cases hv : x.mod.version = vers
        · have h3 : decide ((excludeG x).Mod.Version = vers) = true := decide_eq_true hv
          have h2 : (x.mod.path == path && x.mod.version == vers) = true := by simp [hp, hv]
          rw [if_pos h3, if_pos h2]; rfl
        · have h3 : ¬ (decide ((excludeG x).Mod.Version = vers) = true) := by
            intro hd; exact hv (of_decide_eq_true hd)
          have h2 : ¬ ((x.mod.path == path && x.mod.version == vers) = true) := by simp [hv]
          rw [if_neg h3, if_neg h2]
      · have h1 : ¬ (decide ((excludeG x).Mod.Path = path) = true) := by
          intro hd; exact hp (of_decide_eq_true hd)
        have h2 : ¬ ((x.mod.path == path && x.mod.version == vers) = true) := by simp [hp]
        rw [if_neg h1, if_neg h2]
        simp only [bind_ok, pure_eq_ok, Bool.false_eq_true, if_false]
    rw [hstep, succ_len_snoc]
    simp only [clearAll]
    by_cases hm : (x.mod.path == path && x.mod.version == vers) = true
    · simp only [hm, ↓reduceIte]
      by_cases h0 : x.lineId = 0
      · simp only [deref, h0, nilId, beq_self_eq_true, if_true, bind, Except.bind]
        rw [Line_markRemoved_nil (by simp)]
      · obtain ⟨l, hline, R'⟩ := dropStep_Excl R hr hx h0
        have hd : deref x.lineId = .ok x.lineId := by simp [deref, nilId, h0]
        rw [Line_markRemoved_eq hline]
        simp only [bind_ok, setLineH_excludes, hg, heapSet_of_get _ hg]
        have ih := DropExclude_loop_sim f path vers o suf xsuf (pre ++ [r]) (xpre ++ [Modfile.Edit.clearedExclude]) _ _ fuel R'
          (by simp [ho]) (by simp [dropStepExcl, he, hl]) (by simp [hl]) (by simp at hf; omega)
        simp only [hd, bind, Except.bind]
        cases hc : clearAll (fun x : Modfile.Exclude => x.mod.path == path && x.mod.version == vers) (·.lineId) Modfile.Edit.clearedExclude xsuf with
        | error err => rw [hc] at ih; simpa using ih
        | ok v =>
          obtain ⟨rest, dead⟩ := v
          rw [hc] at ih
          obtain ⟨h', h1, hm', h2⟩ := ih
          dsimp only [pure, Except.pure]
          refine ⟨h', h1, hm', ?_⟩
          have : dropExclRest (dropStepExcl e pre.length x) (xpre ++ [Modfile.Edit.clearedExclude]) rest dead =
              dropExclRest e xpre (Modfile.Edit.clearedExclude :: rest) (x.lineId :: dead) := by
            simp [dropExclRest, dropStepExcl, markAll]
          rw [← this]; exact h2
    · simp only [hm, Bool.false_eq_true, ↓reduceIte]
      have ih := DropExclude_loop_sim f path vers o suf xsuf (pre ++ [r]) (xpre ++ [x]) h e fuel R
        (by simp [ho]) (by simp [he]) (by simp [hl]) (by simp at hf; omega)
      simp only [bind, Except.bind]
      cases hc : clearAll (fun x : Modfile.Exclude => x.mod.path == path && x.mod.version == vers) (·.lineId) Modfile.Edit.clearedExclude xsuf with
      | error err => rw [hc] at ih; simpa using ih
      | ok v =>
        obtain ⟨rest, dead⟩ := v
        rw [hc] at ih
        obtain ⟨h', h1, hm', h2⟩ := ih
        dsimp only [pure, Except.pure]
        refine ⟨h', h1, hm', ?_⟩
        have : dropExclRest e (xpre ++ [x]) rest dead = dropExclRest e xpre (x :: rest) dead := by
          simp [dropExclRest]
        rw [← this]; exact h2

/-! ### DropReplace -/

/-- the model after one "mark the line removed and clear the entry" step -/
def dropStepRepl (e : EFile) (i : Nat) (x : Modfile.Replace) : EFile :=
  { e with f := { e.f with replace := e.f.replace.set i Modfile.Edit.clearedReplace, syn := markRemoved e.f.syn x.lineId } }

/-- one step on the heap -/
theorem dropStep_Repl {h : Heap} {o : File} {e : EFile} (R : RepFAt h o e) {i : Nat} {r : Int} {x : Modfile.Replace}
    (hr : o.Replace[i]? = some r) (hx : e.f.replace[i]? = some x) (h0 : x.lineId ≠ 0) :
    ∃ l, heapGet h.lines (x.lineId : Int) = .ok (lineG l) ∧
      RepFAt { setLineH h (x.lineId : Int) (markRemovedLine l) with replaces := h.replaces.set (r.toNat - 1) (default : Replace) } o
        (dropStepRepl e i x) := by
  obtain ⟨hg, hle⟩ := R.replace.rel.get i r x hr hx
  obtain ⟨l, hl, hid⟩ := R.linesG.ofId h0 hle
  refine ⟨l, hl, ?_⟩
  have R1 := R.setLine IdEquiv_markRemoved hl
  have R2 := RepFAt.setReplace R1 (i := i) (r := r) hr Modfile.Edit.clearedReplace (by simp [Modfile.Edit.clearedReplace, nilId])
  simpa [dropStepRepl, markRemoved, replaceG_cleared, markRemovedLine] using R2

/-- the model at the end of the loop -/
def dropReplRest (e : EFile) (xpre rest : List Modfile.Replace) (dead : List Nat) : EFile :=
  { e with f := { e.f with replace := xpre ++ rest, syn := markAll e.f.syn dead } }

theorem DropReplace_loop_sim (f : Int) (path vers : Bytes) (o : File) :
    ∀ (suf : List Int) (xsuf : List Modfile.Replace) (pre : List Int) (xpre : List Modfile.Replace) (h : Heap) (e : EFile) (fuel : Nat),
      RepFAt h o e → o.Replace = pre ++ suf → e.f.replace = xpre ++ xsuf → pre.length = xpre.length → suf.length + 1 ≤ fuel →
      match clearAll (fun x : Modfile.Replace => x.old.path == path && x.old.version == vers) (·.lineId) Modfile.Edit.clearedReplace xsuf with
      | .ok (rest, dead) => ∃ h', File_DropReplace_loop1 o.Replace f path vers fuel (pre.length : Int) h = .ok (len o.Replace, h') ∧
          h'.mods = h.mods ∧ RepFAt h' o (dropReplRest e xpre rest dead)
      | .error _ => File_DropReplace_loop1 o.Replace f path vers fuel (pre.length : Int) h = .error .panic
  | [], xsuf, pre, xpre, h, e, fuel, R, ho, he, hl, hf => by
    obtain ⟨fuel, rfl⟩ : ∃ k, fuel = k + 1 := ⟨fuel - 1, by omega⟩
    have hx : xsuf = [] := REntsL.nil_of_nil (by have := R.replace.rel; rwa [ho, he] at this) hl
    subst hx
    simp only [clearAll]
    refine ⟨h, ?_, rfl, ?_⟩
    · unfold File_DropReplace_loop1
      have : o.Replace = pre := by simpa using ho
      simp [this, not_lt_len_end, len_eq]
    · have : dropReplRest e xpre [] [] = e := by
        simp only [dropReplRest, markAll, List.foldl_nil, List.append_nil]
        rw [show xpre = e.f.replace by simpa using he.symm]
      rw [this]; exact R
  | r :: suf, xsuf, pre, xpre, h, e, fuel, R, ho, he, hl, hf => by
    obtain ⟨fuel, rfl⟩ : ∃ k, fuel = k + 1 := ⟨fuel - 1, by omega⟩
    obtain ⟨x, xsuf, rfl⟩ := REntsL.cons_of_cons (by have := R.replace.rel; rwa [ho, he] at this) hl
    have hr : o.Replace[pre.length]? = some r := by rw [ho]; simp
    have hx : e.f.replace[pre.length]? = some x := by rw [he, hl]; simp
    obtain ⟨hg, hle⟩ := R.replace.rel.get _ r x hr hx
    have hstep : File_DropReplace_loop1 o.Replace f path vers (fuel + 1) (pre.length : Int) h =
        (if (x.old.path == path && x.old.version == vers) = true then (do
          let t7 ← (Line_markRemoved (x.lineId : Int) h)
          let t9 ← heapGet t7.2.replaces r
          let t10 ← heapSet t7.2.replaces r (default : Replace)
          File_DropReplace_loop1 o.Replace f path vers fuel ((pre.length : Int) + 1) { t7.2 with replaces := t10 })
        else File_DropReplace_loop1 o.Replace f path vers fuel ((pre.length : Int) + 1) h) := by
      conv => lhs; unfold File_DropReplace_loop1
      rw [ho]
      simp only [lt_len_mid, decide_true, if_true, idxL_mid, bind_ok, hg]
      by_cases hp : x.old.path = path
      · have h1 : decide ((replaceG x).Old.Path = path) = true := decide_eq_true hp
        rw [if_pos h1]
        simp only [bind_ok, pure_eq_ok]
        by_cases hv : x.old.version = vers
        · have h3 : decide ((replaceG x).Old.Version = vers) = true := decide_eq_true hv
          have h2 : (x.old.path == path && x.old.version == vers) = true := by simp [hp, hv]
          rw [if_pos h3, if_pos h2]; rfl
        · have h3 : ¬ (decide ((replaceG x).Old.Version = vers) = true) := by
            intro hd; exact hv (of_decide_eq_true hd)
          have h2 : ¬ ((x.old.path == path && x.old.version == vers) = true) := by simp [hv]
          rw [if_neg h3, if_neg h2]
      · have h1 : ¬ (decide ((replaceG x).Old.Path = path) = true) := by
          intro hd; exact hp (of_decide_eq_true hd)
        have h2 : ¬ ((x.old.path == path && x.old.version == vers) = true) := by simp [hp]
        rw [if_neg h1, if_neg h2]
        simp only [bind_ok, pure_eq_ok, Bool.false_eq_true, if_false]
    rw [hstep, succ_len_snoc]
    simp only [clearAll]
    by_cases hm : (x.old.path == path && x.old.version == vers) = true
    · simp only [hm, ↓reduceIte]
      by_cases h0 : x.lineId = 0
      · simp only [deref, h0, nilId, beq_self_eq_true, if_true, bind, Except.bind]
        rw [Line_markRemoved_nil (by simp)]
      · obtain ⟨l, hline, R'⟩ := dropStep_Repl R hr hx h0
        have hd : deref x.lineId = .ok x.lineId := by simp [deref, nilId, h0]
        rw [Line_markRemoved_eq hline]
        simp only [bind_ok, setLineH_replaces, hg, heapSet_of_get _ hg]
        have ih := DropReplace_loop_sim f path vers o suf xsuf (pre ++ [r]) (xpre ++ [Modfile.Edit.clearedReplace]) _ _ fuel R'
          (by simp [ho]) (by simp [dropStepRepl, he, hl]) (by simp [hl]) (by simp at hf; omega)
        simp only [hd, bind, Except.bind]
        cases hc : clearAll (fun x : Modfile.Replace => x.old.path == path && x.old.version == vers) (·.lineId) Modfile.Edit.clearedReplace xsuf with
        | error err => rw [hc] at ih; simpa using ih
        | ok v =>
          obtain ⟨rest, dead⟩ := v
          rw [hc] at ih
          obtain ⟨h', h1, hm', h2⟩ := ih
          dsimp only [pure, Except.pure]
          refine ⟨h', h1, hm', ?_⟩
          have : dropReplRest (dropStepRepl e pre.length x) (xpre ++ [Modfile.Edit.clearedReplace]) rest dead =
              dropReplRest e xpre (Modfile.Edit.clearedReplace :: rest) (x.lineId :: dead) := by
            simp [dropReplRest, dropStepRepl, markAll]
          rw [← this]; exact h2
    · simp only [hm, Bool.false_eq_true, ↓reduceIte]
      have ih := DropReplace_loop_sim f path vers o suf xsuf (pre ++ [r]) (xpre ++ [x]) h e fuel R
        (by simp [ho]) (by simp [he]) (by simp [hl]) (by simp at hf; omega)
      simp only [bind, Except.bind]
      cases hc : clearAll (fun x : Modfile.Replace => x.old.path == path && x.old.version == vers) (·.lineId) Modfile.Edit.clearedReplace xsuf with
      | error err => rw [hc] at ih; simpa using ih
      | ok v =>
        obtain ⟨rest, dead⟩ := v
        rw [hc] at ih
        obtain ⟨h', h1, hm', h2⟩ := ih
        dsimp only [pure, Except.pure]
        refine ⟨h', h1, hm', ?_⟩
        have : dropReplRest e (xpre ++ [x]) rest dead = dropReplRest e xpre (x :: rest) dead := by
          simp [dropReplRest]
        rw [← this]; exact h2

/-! ### DropRetract -/

/-- the version interval as the regenerated code has it -/
def viG (v : Modfile.VersionInterval) : VersionInterval := { Low := v.low, High := v.high }

@[simp] theorem viG_Low (v : Modfile.VersionInterval) : (viG v).Low = v.low := rfl
@[simp] theorem viG_High (v : Modfile.VersionInterval) : (viG v).High = v.high := rfl
theorem retractG_interval (r : Modfile.Retract) : (retractG r).VersionInterval = viG r.interval := rfl

theorem viG_inj {a b : Modfile.VersionInterval} (h : viG a = viG b) : a = b := by
  cases a; cases b
  simp only [viG, VersionInterval.mk.injEq] at h
  simp [h.1, h.2]

/-- the model after one "mark the line removed and clear the entry" step -/
def dropStepRetr (e : EFile) (i : Nat) (x : Modfile.Retract) : EFile :=
  { e with f := { e.f with retract := e.f.retract.set i Modfile.Edit.clearedRetract, syn := markRemoved e.f.syn x.lineId } }

/-- one step on the heap -/
theorem dropStep_Retr {h : Heap} {o : File} {e : EFile} (R : RepFAt h o e) {i : Nat} {r : Int} {x : Modfile.Retract}
    (hr : o.Retract[i]? = some r) (hx : e.f.retract[i]? = some x) (h0 : x.lineId ≠ 0) :
    ∃ l, heapGet h.lines (x.lineId : Int) = .ok (lineG l) ∧
      RepFAt { setLineH h (x.lineId : Int) (markRemovedLine l) with retracts := h.retracts.set (r.toNat - 1) (default : Retract) } o
        (dropStepRetr e i x) := by
  obtain ⟨hg, hle⟩ := R.retract.rel.get i r x hr hx
  obtain ⟨l, hl, hid⟩ := R.linesG.ofId h0 hle
  refine ⟨l, hl, ?_⟩
  have R1 := R.setLine IdEquiv_markRemoved hl
  have R2 := RepFAt.setRetract R1 (i := i) (r := r) hr Modfile.Edit.clearedRetract (by simp [Modfile.Edit.clearedRetract, nilId])
  simpa [dropStepRetr, markRemoved, retractG_cleared, markRemovedLine] using R2

/-- the model at the end of the loop -/
def dropRetrRest (e : EFile) (xpre rest : List Modfile.Retract) (dead : List Nat) : EFile :=
  { e with f := { e.f with retract := xpre ++ rest, syn := markAll e.f.syn dead } }

theorem DropRetract_loop_sim (f : Int) (vi : Modfile.VersionInterval) (o : File) :
    ∀ (suf : List Int) (xsuf : List Modfile.Retract) (pre : List Int) (xpre : List Modfile.Retract) (h : Heap) (e : EFile) (fuel : Nat),
      RepFAt h o e → o.Retract = pre ++ suf → e.f.retract = xpre ++ xsuf → pre.length = xpre.length → suf.length + 1 ≤ fuel →
      match clearAll (fun r : Modfile.Retract => r.interval == vi) (·.lineId) Modfile.Edit.clearedRetract xsuf with
      | .ok (rest, dead) => ∃ h', File_DropRetract_loop1 o.Retract f (viG vi) fuel (pre.length : Int) h = .ok (len o.Retract, h') ∧
          h'.mods = h.mods ∧ RepFAt h' o (dropRetrRest e xpre rest dead)
      | .error _ => File_DropRetract_loop1 o.Retract f (viG vi) fuel (pre.length : Int) h = .error .panic
  | [], xsuf, pre, xpre, h, e, fuel, R, ho, he, hl, hf => by
    obtain ⟨fuel, rfl⟩ : ∃ k, fuel = k + 1 := ⟨fuel - 1, by omega⟩
    have hx : xsuf = [] := REntsL.nil_of_nil (by have := R.retract.rel; rwa [ho, he] at this) hl
    subst hx
    simp only [clearAll]
    refine ⟨h, ?_, rfl, ?_⟩
    · unfold File_DropRetract_loop1
      have : o.Retract = pre := by simpa using ho
      simp [this, not_lt_len_end, len_eq]
    · have : dropRetrRest e xpre [] [] = e := by
        simp only [dropRetrRest, markAll, List.foldl_nil, List.append_nil]
        rw [show xpre = e.f.retract by simpa using he.symm]
      rw [this]; exact R
  | r :: suf, xsuf, pre, xpre, h, e, fuel, R, ho, he, hl, hf => by
    obtain ⟨fuel, rfl⟩ : ∃ k, fuel = k + 1 := ⟨fuel - 1, by omega⟩
    obtain ⟨x, xsuf, rfl⟩ := REntsL.cons_of_cons (by have := R.retract.rel; rwa [ho, he] at this) hl
    have hr : o.Retract[pre.length]? = some r := by rw [ho]; simp
    have hx : e.f.retract[pre.length]? = some x := by rw [he, hl]; simp
    obtain ⟨hg, hle⟩ := R.retract.rel.get _ r x hr hx
    have hstep : File_DropRetract_loop1 o.Retract f (viG vi) (fuel + 1) (pre.length : Int) h =
        (if (x.interval == vi) = true then (do
          let t7 ← (Line_markRemoved (x.lineId : Int) h)
          let t9 ← heapGet t7.2.retracts r
          let t10 ← heapSet t7.2.retracts r (default : Retract)
          File_DropRetract_loop1 o.Retract f (viG vi) fuel ((pre.length : Int) + 1) { t7.2 with retracts := t10 })
        else File_DropRetract_loop1 o.Retract f (viG vi) fuel ((pre.length : Int) + 1) h) := by
      conv => lhs; unfold File_DropRetract_loop1
      rw [ho]
      simp only [lt_len_mid, decide_true, if_true, idxL_mid, bind_ok, hg]
      by_cases hm : x.interval = vi
      · have h1 : decide ((retractG x).VersionInterval = viG vi) = true := decide_eq_true (by rw [retractG_interval, hm])
        have h2 : (x.interval == vi) = true := by simpa using hm
        rw [if_pos h1, if_pos h2]; rfl
      · have h1 : ¬ (decide ((retractG x).VersionInterval = viG vi) = true) := by
          intro hd; exact hm (viG_inj (of_decide_eq_true hd))
        have h2 : ¬ ((x.interval == vi) = true) := by simpa using hm
        rw [if_neg h1, if_neg h2]
    rw [hstep, succ_len_snoc]
    simp only [clearAll]
    by_cases hm : (x.interval == vi) = true
    · simp only [hm, ↓reduceIte]
      by_cases h0 : x.lineId = 0
      · simp only [deref, h0, nilId, beq_self_eq_true, if_true, bind, Except.bind]
        rw [Line_markRemoved_nil (by simp)]
      · obtain ⟨l, hline, R'⟩ := dropStep_Retr R hr hx h0
        have hd : deref x.lineId = .ok x.lineId := by simp [deref, nilId, h0]
        rw [Line_markRemoved_eq hline]
        simp only [bind_ok, setLineH_retracts, hg, heapSet_of_get _ hg]
        have ih := DropRetract_loop_sim f vi o suf xsuf (pre ++ [r]) (xpre ++ [Modfile.Edit.clearedRetract]) _ _ fuel R'
          (by simp [ho]) (by simp [dropStepRetr, he, hl]) (by simp [hl]) (by simp at hf; omega)
        simp only [hd, bind, Except.bind]
        cases hc : clearAll (fun r : Modfile.Retract => r.interval == vi) (·.lineId) Modfile.Edit.clearedRetract xsuf with
        | error err => rw [hc] at ih; simpa using ih
        | ok v =>
          obtain ⟨rest, dead⟩ := v
          rw [hc] at ih
          obtain ⟨h', h1, hm', h2⟩ := ih
          dsimp only [pure, Except.pure]
          refine ⟨h', h1, hm', ?_⟩
          have : dropRetrRest (dropStepRetr e pre.length x) (xpre ++ [Modfile.Edit.clearedRetract]) rest dead =
              dropRetrRest e xpre (Modfile.Edit.clearedRetract :: rest) (x.lineId :: dead) := by
            simp [dropRetrRest, dropStepRetr, markAll]
          rw [← this]; exact h2
    · simp only [hm, Bool.false_eq_true, ↓reduceIte]
      have ih := DropRetract_loop_sim f vi o suf xsuf (pre ++ [r]) (xpre ++ [x]) h e fuel R
        (by simp [ho]) (by simp [he]) (by simp [hl]) (by simp at hf; omega)
      simp only [bind, Except.bind]
      cases hc : clearAll (fun r : Modfile.Retract => r.interval == vi) (·.lineId) Modfile.Edit.clearedRetract xsuf with
      | error err => rw [hc] at ih; simpa using ih
      | ok v =>
        obtain ⟨rest, dead⟩ := v
        rw [hc] at ih
        obtain ⟨h', h1, hm', h2⟩ := ih
        dsimp only [pure, Except.pure]
        refine ⟨h', h1, hm', ?_⟩
        have : dropRetrRest e (xpre ++ [x]) rest dead = dropRetrRest e xpre (x :: rest) dead := by
          simp [dropRetrRest]
        rw [← this]; exact h2

/-! ### the four Drop operations -/

theorem File_DropRequire_sim {h : Heap} {fp : Int} {e : EFile} (R : RepF h fp e) (path : Bytes) (fuel : Nat)
    (hf : e.f.require.length + 1 ≤ fuel) :
    match Modfile.Edit.dropRequire e path with
    | .ok e' => ∃ h', File_DropRequire fuel fp path h = .ok (none, h') ∧ RepF h' fp e'
    | .error _ => File_DropRequire fuel fp path h = .error .panic := by
  obtain ⟨o, ho, R⟩ := R
  have hlen := R.require.rel.length
  have := DropRequire_loop_sim fp path o o.Require e.f.require [] [] h e fuel R rfl rfl rfl (by omega)
  unfold File_DropRequire Modfile.Edit.dropRequire
  simp only [ho, bind_ok]
  simp only [bind, Except.bind]
  cases hc : clearAll (fun r : Modfile.Require => r.mod.path == path) (·.lineId) Modfile.Edit.clearedRequire e.f.require with
  | error err => rw [hc] at this; simp only [List.length_nil] at this; simp [show ((0 : Nat) : Int) = 0 from rfl] at this; simp [this]
  | ok v =>
    obtain ⟨rest, dead⟩ := v
    rw [hc] at this
    obtain ⟨h', h1, hm, h2⟩ := this
    simp only [List.length_nil, show ((0 : Nat) : Int) = 0 from rfl] at h1
    refine ⟨h', by simp [h1, pure, Except.pure], o, by rw [hm]; exact ho, ?_⟩
    simpa [dropReqRest] using h2

theorem File_DropExclude_sim {h : Heap} {fp : Int} {e : EFile} (R : RepF h fp e) (path vers : Bytes) (fuel : Nat)
    (hf : e.f.exclude.length + 1 ≤ fuel) :
    match Modfile.Edit.dropExclude e path vers with
    | .ok e' => ∃ h', File_DropExclude fuel fp path vers h = .ok (none, h') ∧ RepF h' fp e'
    | .error _ => File_DropExclude fuel fp path vers h = .error .panic := by
  obtain ⟨o, ho, R⟩ := R
  have hlen := R.exclude.rel.length
  have := DropExclude_loop_sim fp path vers o o.Exclude e.f.exclude [] [] h e fuel R rfl rfl rfl (by omega)
  unfold File_DropExclude Modfile.Edit.dropExclude 
  simp only [ho, bind_ok]
  simp only [bind, Except.bind]
  cases hc : clearAll (fun x : Modfile.Exclude => x.mod.path == path && x.mod.version == vers) (·.lineId) Modfile.Edit.clearedExclude e.f.exclude with
  | error err => rw [hc] at this; simp only [List.length_nil] at this; simp [show ((0 : Nat) : Int) = 0 from rfl] at this; simp [this]
  | ok v =>
    obtain ⟨rest, dead⟩ := v
    rw [hc] at this
    obtain ⟨h', h1, hm, h2⟩ := this
    simp only [List.length_nil, show ((0 : Nat) : Int) = 0 from rfl] at h1
    refine ⟨h', by simp [h1, pure, Except.pure], o, by rw [hm]; exact ho, ?_⟩
    simpa [dropExclRest] using h2

theorem File_DropReplace_sim {h : Heap} {fp : Int} {e : EFile} (R : RepF h fp e) (path vers : Bytes) (fuel : Nat)
    (hf : e.f.replace.length + 1 ≤ fuel) :
    match Modfile.Edit.dropReplace e path vers with
    | .ok e' => ∃ h', File_DropReplace fuel fp path vers h = .ok (none, h') ∧ RepF h' fp e'
    | .error _ => File_DropReplace fuel fp path vers h = .error .panic := by
  obtain ⟨o, ho, R⟩ := R
  have hlen := R.replace.rel.length
  have := DropReplace_loop_sim fp path vers o o.Replace e.f.replace [] [] h e fuel R rfl rfl rfl (by omega)
  unfold File_DropReplace Modfile.Edit.dropReplace Modfile.Edit.dropReplaceCore
  simp only [ho, bind_ok]
  simp only [bind, Except.bind]
  cases hc : clearAll (fun x : Modfile.Replace => x.old.path == path && x.old.version == vers) (·.lineId) Modfile.Edit.clearedReplace e.f.replace with
  | error err => rw [hc] at this; simp only [List.length_nil] at this; simp [show ((0 : Nat) : Int) = 0 from rfl] at this; simp [this]
  | ok v =>
    obtain ⟨rest, dead⟩ := v
    rw [hc] at this
    obtain ⟨h', h1, hm, h2⟩ := this
    simp only [List.length_nil, show ((0 : Nat) : Int) = 0 from rfl] at h1
    refine ⟨h', by simp [h1, pure, Except.pure], o, by rw [hm]; exact ho, ?_⟩
    simpa [dropReplRest] using h2

theorem File_DropRetract_sim {h : Heap} {fp : Int} {e : EFile} (R : RepF h fp e) (vi : Modfile.VersionInterval) (fuel : Nat)
    (hf : e.f.retract.length + 1 ≤ fuel) :
    match Modfile.Edit.dropRetract e vi with
    | .ok e' => ∃ h', File_DropRetract fuel fp (viG vi) h = .ok (none, h') ∧ RepF h' fp e'
    | .error _ => File_DropRetract fuel fp (viG vi) h = .error .panic := by
  obtain ⟨o, ho, R⟩ := R
  have hlen := R.retract.rel.length
  have := DropRetract_loop_sim fp vi o o.Retract e.f.retract [] [] h e fuel R rfl rfl rfl (by omega)
  unfold File_DropRetract Modfile.Edit.dropRetract
  simp only [ho, bind_ok]
  simp only [bind, Except.bind]
  cases hc : clearAll (fun r : Modfile.Retract => r.interval == vi) (·.lineId) Modfile.Edit.clearedRetract e.f.retract with
  | error err => rw [hc] at this; simp only [List.length_nil] at this; simp [show ((0 : Nat) : Int) = 0 from rfl] at this; simp [this]
  | ok v =>
    obtain ⟨rest, dead⟩ := v
    rw [hc] at this
    obtain ⟨h', h1, hm, h2⟩ := this
    simp only [List.length_nil, show ((0 : Nat) : Int) = 0 from rfl] at h1
    refine ⟨h', by simp [h1, pure, Except.pure], o, by rw [hm]; exact ho, ?_⟩
    simpa [dropRetrRest] using h2

end ModVerif.Tie.FnEditReqA
