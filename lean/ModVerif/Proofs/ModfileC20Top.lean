/-
  C20 `modulePath_agrees`, parser level: the source layout of a top-level line — it starts its source
  line, its tokens are separated by blanks only, and after its last token come blanks and then a newline,
  a `//` comment or the end of the input.
-/
import ModVerif.Proofs.ModfileC20Lay
import ModVerif.Proofs.ModfileC20Tree
namespace ModVerif.Proofs.ModfileC20
open ModVerif ModVerif.Modfile ModVerif.Proofs.ModfileLex ModVerif.Proofs.ModfilePos

/-- `data[a, b)` is the tokens (given reversed) separated by blanks -/
def SpacedRev (data : Bytes) (a : Nat) : List Bytes → Nat → Prop
  | [], _ => False
  | [t], b => data.take b = data.take a ++ t ∧ IdentEnd data t b
  | t :: t' :: ts, b => ∃ b0 gap, SpacedRev data a (t' :: ts) b0 ∧ WS gap ∧ data.take b = data.take b0 ++ gap ++ t ∧
      IdentEnd data t b

/-- a token list the layout statement does not cover: a `(` in the line (its end position is not updated,
    as in read.go) or a token that looks like a comment -/
def Esc (toks : List Bytes) : Prop := ∃ t ∈ toks, t = [40] ∨ [47, 47] <+: t

theorem Esc.cons {toks : List Bytes} (t : Bytes) (h : Esc toks) : Esc (t :: toks) := by
  obtain ⟨x, hx, h⟩ := h
  exact ⟨x, List.mem_cons_of_mem _ hx, h⟩

/-- what follows the end of a line: blanks, then a newline, a `//` comment or the end of the input -/
def After (data : Bytes) (b : Nat) : Prop :=
  ∃ gap rest, data.drop b = gap ++ rest ∧ WS gap ∧ (rest = [] ∨ [10] <+: rest ∨ [47, 47] <+: rest)

/-- layout of a top-level line -/
def TopLay (data : Bytes) (l : Line) : Prop :=
  Esc l.token ∨
  (WS (lastLine (data.take l.start.byte)) ∧ SpacedRev data l.start.byte l.token.reverse l.«end».byte ∧
    After data l.«end».byte)

/-- outcome with the start-of-line fact for the returned state -/
def SRes {α : Type} (data : Bytes) (A : α → Prop) : Except SynErr (α × Input) → Prop
  | .ok (a, i') => Reach data i' ∧ SOL data i' ∧ A a
  | .error _ => True

theorem lex_res2 {data : Bytes} {i : Input} (h : Reach data i) :
    (∃ i', lex i = .ok (i.token, i') ∧ Reach data i' ∧ readToken i = .ok i') ∨ (∃ e, lex i = .error e) := by
  unfold lex
  cases hr : readToken i with
  | ok i' => exact Or.inl ⟨i', by simp [bind, Except.bind], Reach.lex h hr, rfl⟩
  | error e => exact Or.inr ⟨e, by simp [bind, Except.bind]⟩

theorem sol_setId {data : Bytes} {i : Input} (n : Nat) (h : SOL data i) : SOL data { i with nextId := n } := h

theorem parseLineLoop_reach {data : Bytes} : ∀ (fuel : Nat) (i : Input) (s e : Position) (ts : List Bytes)
    (l : Line) (i' : Input), Reach data i → parseLineLoop fuel i s e ts = .ok (l, i') → Reach data i' := by
  intro fuel
  induction fuel with
  | zero => intro i s e ts l i' _ h; simp [parseLineLoop] at h
  | succ n ih =>
    intro i s e ts l i' hr h
    unfold parseLineLoop at h
    rcases lex_res2 hr with ⟨i1, h1, hr1, _⟩ | ⟨e1, h1⟩
    · simp only [h1, bind, Except.bind] at h
      split at h
      · simp only [Except.ok.injEq, Prod.mk.injEq] at h
        rw [← h.2]; exact Reach.setId _ hr1
      · exact ih _ _ _ _ _ _ hr1 h
    · simp [h1, bind, Except.bind] at h

theorem parseLine_reach {data : Bytes} {fuel : Nat} {i : Input} {l : Line} {i' : Input} (hr : Reach data i)
    (h : parseLine fuel i = .ok (l, i')) : Reach data i' := by
  unfold parseLine at h
  rcases lex_res2 hr with ⟨i1, h1, hr1, _⟩ | ⟨e1, h1⟩
  · simp only [h1, bind, Except.bind] at h
    split at h
    · cases h
    · exact parseLineLoop_reach _ _ _ _ _ _ _ hr1 h
  · simp [h1, bind, Except.bind] at h

/-- a block ends with an end-of-line token: the next token starts a line -/
theorem parseLineBlockLoop_sol {data : Bytes} : ∀ (fuel : Nat) (i : Input) (x : LineBlock) (ls : List Line)
    (cs : List Comment) (b : LineBlock) (i' : Input), Reach data i →
    parseLineBlockLoop fuel i x ls cs = .ok (b, i') → Reach data i' ∧ SOL data i' := by
  intro fuel
  induction fuel with
  | zero => intro i x ls cs b i' _ h; simp [parseLineBlockLoop] at h
  | succ n ih =>
    intro i x ls cs b i' hr h
    unfold parseLineBlockLoop at h
    split at h
    · rcases lex_res2 hr with ⟨i1, h1, hr1, _⟩ | ⟨e1, h1⟩
      · simp only [h1, bind, Except.bind] at h; exact ih _ _ _ _ _ _ hr1 h
      · simp [h1, bind, Except.bind] at h
    · rcases lex_res2 hr with ⟨i1, h1, hr1, _⟩ | ⟨e1, h1⟩
      · simp only [h1, bind, Except.bind] at h; exact ih _ _ _ _ _ _ hr1 h
      · simp [h1, bind, Except.bind] at h
    · rcases lex_res2 hr with ⟨i1, h1, hr1, _⟩ | ⟨e1, h1⟩
      · simp only [h1, bind, Except.bind] at h; exact ih _ _ _ _ _ _ hr1 h
      · simp [h1, bind, Except.bind] at h
    · cases h
    · rcases lex_res2 hr with ⟨i1, h1, hr1, _⟩ | ⟨e1, h1⟩
      · simp only [h1, bind, Except.bind] at h
        split at h
        · cases h
        · rename_i heol
          rcases lex_res2 hr1 with ⟨i2, h2, hr2, hrt2⟩ | ⟨e2, h2⟩
          · simp only [h2, Except.ok.injEq, Prod.mk.injEq] at h
            rw [← h.2]
            refine ⟨hr2, sol_after_eol hr1 (Or.inl ?_) hrt2⟩
            simpa [Input.peek] using heol
          · simp [h2] at h
      · simp [h1, bind, Except.bind] at h
    · cases hp : parseLine (n + 1) i with
      | error e => simp [hp, bind, Except.bind] at h
      | ok v =>
        simp only [hp, bind, Except.bind] at h
        exact ih _ _ _ _ _ _ (parseLine_reach hr (show parseLine (n + 1) i = .ok (v.1, v.2) by rw [hp])) h


def StmtLay (data : Bytes) : Expr → Prop
  | .line l => TopLay data l
  | _ => True

/-- loop invariant of `parseStmtLoop` -/
def StmtInv (data : Bytes) (i : Input) (s e : Position) (tokensRev : List Bytes) : Prop :=
  Esc tokensRev ∨
  (SpacedRev data s.byte tokensRev e.byte ∧ ∃ gap, WS gap ∧ data.take i.token.pos.byte = data.take e.byte ++ gap)

theorem reach_step_gap {data : Bytes} {i i1 : Input} (hr : Reach data i) (h : readToken i = .ok i1) :
    ∃ gap, WS gap ∧ data.take i1.token.pos.byte = data.take i.token.endPos.byte ++ gap := by
  have ht := reach_tokOK2 hr
  obtain ⟨gap, hws, hg⟩ := step_gap ht.inv.toLInv0 h
  exact ⟨gap, hws, by rw [hg, ht.endPos]⟩

/-- adding the pending (non-`(`) token to the accumulator keeps the invariant -/
theorem stmtInv_push {data : Bytes} {i i1 : Input} {s e : Position} {t : Bytes} {ts : List Bytes}
    (hr : Reach data i) (h1 : readToken i = .ok i1) (hinv : StmtInv data i s e (t :: ts)) :
    StmtInv data i1 s i.token.endPos (i.token.text :: t :: ts) := by
  rcases hinv with hesc | ⟨hsp, gap, hws, hg⟩
  · exact Or.inl (hesc.cons _)
  · have ht := reach_tokOK2 hr
    cases hk : i.token.kind.isComment with
    | true =>
      left
      exact ⟨i.token.text, by simp, Or.inr ((reach_rlay hr).comment hk)⟩
    | false =>
      right
      refine ⟨⟨e.byte, gap, hsp, hws, ?_, reach_identEnd hr⟩, reach_step_gap hr h1⟩
      rw [tok_exact_take ht hk, hg]

theorem parseStmtLoop_lay {data : Bytes} : ∀ (fuel : Nat) (i : Input) (s e : Position) (t : Bytes) (ts : List Bytes),
    Reach data i → WS (lastLine (data.take s.byte)) → StmtInv data i s e (t :: ts) →
    SRes data (StmtLay data) (parseStmtLoop fuel i s e (t :: ts)) := by
  intro fuel
  induction fuel with
  | zero => intro i s e t ts _ _ _; trivial
  | succ n ih =>
    intro i s e t ts hr hsol hinv
    unfold parseStmtLoop
    rcases lex_res2 hr with ⟨i1, h1, hr1, hrt1⟩ | ⟨e1, h1⟩
    · simp only [h1, bind, Except.bind]
      have hf := reach_facts hr
      split
      · rename_i heol
        refine ⟨Reach.setId _ hr1, sol_setId _ (sol_after_eol hr (Or.inl heol) hrt1), ?_⟩
        show TopLay data _
        rcases hinv with hesc | ⟨hsp, gap, hws, hg⟩
        · left
          obtain ⟨x, hx, hx'⟩ := hesc
          exact ⟨x, List.mem_reverse.mpr hx, hx'⟩
        · right
          refine ⟨hsol, by simpa using hsp, gap, data.drop i.token.pos.byte, drop_of_take_eq hg, hws, ?_⟩
          have hrl := reach_rlay hr
          cases hkind : i.token.kind with
          | eof => exact Or.inl (hrl.eof hkind)
          | eolComment =>
            right; right
            exact List.IsPrefix.trans (hrl.comment (by rw [hkind]; rfl)) hf.start.2
          | punct c =>
            rw [hkind] at heol
            have hc : c = 10 := by simpa [TokKind.isEOL] using heol
            subst hc
            right; left
            have := hf.punct 10 hkind
            rw [← this]; exact hf.start.2
          | comment => rw [hkind] at heol; cases heol
          | ident => rw [hkind] at heol; cases heol
          | string => rw [hkind] at heol; cases heol
      · split
        · rename_i hk
          have hk : i.token.kind = .punct 40 := by simpa using hk
          have htxt := hf.punct 40 hk
          have hescape : ∀ rest : List Bytes, Esc (i.token.text :: rest) := fun rest =>
            ⟨i.token.text, by simp, Or.inl htxt⟩
          unfold Input.peek
          split
          · unfold parseLineBlock
            cases hpb : parseLineBlockLoop (n + 1) i1
              { start := s, token := (t :: ts).reverse, lparen := { pos := i.token.pos } } [] [] with
            | error e => trivial
            | ok v =>
              obtain ⟨hrv, hsv⟩ := parseLineBlockLoop_sol _ _ _ _ _ _ _ hr1 (show _ = Except.ok (v.1, v.2) from hpb)
              exact ⟨hrv, hsv, trivial⟩
          · split
            · rcases lex_res2 hr1 with ⟨i2, h2, hr2, hrt2⟩ | ⟨e2, h2⟩
              · simp only [h2]
                split
                · rename_i heol2
                  rcases lex_res2 hr2 with ⟨i3, h3, hr3, hrt3⟩ | ⟨e3, h3⟩
                  · simp only [h3]
                    refine ⟨hr3, sol_after_eol hr2 (Or.inl ?_) hrt3, trivial⟩
                    simpa [Input.peek] using heol2
                  · simp only [h3]; trivial
                · exact ih i2 s e _ _ hr2 hsol (Or.inl ((hescape _).cons _))
              · simp only [h2]; trivial
            · exact ih i1 s e _ _ hr1 hsol (Or.inl (hescape _))
        · exact ih i1 s _ _ _ hr1 hsol (stmtInv_push hr hrt1 hinv)
    · simp only [h1, bind, Except.bind]; trivial


theorem parseStmt_lay {data : Bytes} (fuel : Nat) (i : Input) (hr : Reach data i) (hsol : SOL data i)
    (hne : i.token.kind ≠ .eof) : SRes data (StmtLay data) (parseStmt fuel i) := by
  unfold parseStmt
  rcases lex_res2 hr with ⟨i1, h1, hr1, hrt1⟩ | ⟨e1, h1⟩
  · simp only [h1, bind, Except.bind]
    have hws : WS (lastLine (data.take i.token.pos.byte)) := by
      rcases hsol with h | h
      · exact h
      · exact absurd h hne
    refine parseStmtLoop_lay fuel i1 _ _ _ [] hr1 hws ?_
    have ht := reach_tokOK2 hr
    cases hk : i.token.kind.isComment with
    | true => exact Or.inl ⟨i.token.text, by simp, Or.inr ((reach_rlay hr).comment hk)⟩
    | false => exact Or.inr ⟨⟨tok_exact_take ht hk, reach_identEnd hr⟩, reach_step_gap hr hrt1⟩
  · simp only [h1, bind, Except.bind]; trivial

theorem stmtLay_setComments {data : Bytes} {x : Expr} (c : Comments) (h : StmtLay data x) :
    StmtLay data (x.setComments c) := by
  cases x <;> first | exact h | trivial

theorem parseFileLoop_lay {data : Bytes} : ∀ (fuel : Nat) (i : Input) (stmtsRev : List Expr) (cb : Option CommentBlock)
    (stmts : List Expr) (i' : Input),
    Reach data i → SOL data i → (∀ x ∈ stmtsRev, StmtLay data x) →
    parseFileLoop fuel i stmtsRev cb = .ok (stmts, i') → ∀ x ∈ stmts, StmtLay data x := by
  intro fuel
  induction fuel with
  | zero => intro i _ _ _ _ _ _ _ h; simp [parseFileLoop] at h
  | succ n ih =>
    intro i stmtsRev cb stmts i' hr hsol hst h
    have hcons : ∀ (x : Expr), StmtLay data x → ∀ y ∈ x :: stmtsRev, StmtLay data y := by
      intro x hx y hy
      simp only [List.mem_cons] at hy
      rcases hy with rfl | hy
      · exact hx
      · exact hst y hy
    unfold parseFileLoop at h
    split at h
    · rename_i hk
      rcases lex_res2 hr with ⟨i1, h1, hr1, hrt1⟩ | ⟨e1, h1⟩
      · simp only [h1, bind, Except.bind] at h
        have hs1 : SOL data i1 := sol_after_eol hr (Or.inl (by
          have : i.token.kind = .punct 10 := hk
          rw [this]; rfl)) hrt1
        split at h
        · exact ih i1 _ none _ _ hr1 hs1 (hcons (.commentBlock _) trivial) h
        · exact ih i1 _ none _ _ hr1 hs1 hst h
      · simp [h1, bind, Except.bind] at h
    · rename_i hk
      rcases lex_res2 hr with ⟨i1, h1, hr1, hrt1⟩ | ⟨e1, h1⟩
      · simp only [h1, bind, Except.bind] at h
        have hs1 : SOL data i1 := sol_after_eol hr (Or.inr hk) hrt1
        exact ih i1 _ _ _ _ hr1 hs1 hst h
      · simp [h1, bind, Except.bind] at h
    · split at h
      · simp only [Except.ok.injEq, Prod.mk.injEq] at h
        intro x hx
        rw [← h.1] at hx
        exact hcons (.commentBlock _) trivial x (List.mem_reverse.mp hx)
      · simp only [Except.ok.injEq, Prod.mk.injEq] at h
        intro x hx
        rw [← h.1] at hx
        exact hst x (List.mem_reverse.mp hx)
    · rename_i h1 h2 h3
      have hs := parseStmt_lay (n + 1) i hr hsol h3
      cases hps : parseStmt (n + 1) i with
      | error e => simp [hps, bind, Except.bind] at h
      | ok v =>
        rw [hps] at hs
        simp only [hps, bind, Except.bind] at h
        split at h
        · exact ih v.2 _ none _ _ hs.1 hs.2.1 (hcons _ (stmtLay_setComments _ hs.2.2)) h
        · exact ih v.2 _ none _ _ hs.1 hs.2.1 (hcons _ hs.2.2) h

theorem parseFile_lay {data : Bytes} {stmts : List Expr} {i' : Input} (h : parseFile data = .ok (stmts, i')) :
    ∀ x ∈ stmts, StmtLay data x := by
  unfold parseFile at h
  cases hr : readToken (newInput data) with
  | error e => simp [hr, bind, Except.bind] at h
  | ok i =>
    simp only [hr, bind, Except.bind] at h
    exact parseFileLoop_lay _ i [] none _ _ (Reach.start hr) (sol_first hr) (by intro x hx; cases hx) h

end ModVerif.Proofs.ModfileC20
