/-
  Helper lemmas for C06 (and the completeness half of C11): acceptance conditions of
  checkElem / checkElems / checkPath / checkModPath as conjunctions, monotonicity between kinds,
  and the byte-level consequences of validity.
-/
import ModVerif.Model.Module
import ModVerif.Proofs.ModuleUtf8
namespace ModVerif.Module
open ModVerif

theorem checkElem_chain (c1 c2 c3 c4 c5 c6 c7 c8 : Bool) :
    (if c1 = true then Except.error PathErr.emptyElem
     else if c2 = true then .error .allDots
     else if c3 = true then .error .leadingDot
     else if c4 = true then .error .trailingDot
     else if (!c5) = true then .error .invalidChar
     else if c6 = true then .error .windows
     else if c7 = true then .ok ()
     else if c8 = true then .error .tildeDigits
     else (.ok () : Except PathErr Unit)) = .ok () ↔
    (c1 = false ∧ c2 = false ∧ c3 = false ∧ c4 = false ∧ c5 = true ∧ c6 = false ∧ (c7 || !c8) = true) := by
  cases c1 <;> cases c2 <;> cases c3 <;> cases c4 <;> cases c5 <;> cases c6 <;> cases c7 <;> cases c8 <;> simp

theorem checkElem_ok_iff (isLetter : Nat → Bool) (kind : Kind) (e : Bytes) :
    checkElem isLetter kind e = .ok () ↔
      e.isEmpty = false ∧ e.all (· == 46) = false ∧ (e.head? == some 46 && kind == .module) = false ∧
      (e.getLast? == some 46) = false ∧
      (Utf8.runes e).all (charOK isLetter kind) = true ∧
      badWindowsNames.any (equalFoldAscii · (shortOf e)) = false ∧
      (kind == .file || !looksLikeShortName (shortOf e)) = true := by
  unfold checkElem
  exact checkElem_chain _ _ _ _ _ _ _ _

theorem checkElems_ok_iff (isLetter : Nat → Bool) (kind : Kind) (l : List Bytes) :
    checkElems isLetter kind l = .ok () ↔ ∀ e ∈ l, checkElem isLetter kind e = .ok () := by
  induction l with
  | nil => simp [checkElems]
  | cons e es ih =>
    simp only [checkElems, List.mem_cons, forall_eq_or_imp]
    cases h : checkElem isLetter kind e with
    | error x => simp
    | ok u => simp [ih]

theorem checkPath_chain (c1 c2 c3 c4 c5 : Bool) (r : Except PathErr Unit) :
    (if (!c1) = true then Except.error PathErr.invalidUtf8
     else if c2 = true then .error .emptyString
     else if c3 = true then .error .leadingDash
     else if c4 = true then .error .doubleSlash
     else if c5 = true then .error .trailingSlash
     else r) = .ok () ↔
    (c1 = true ∧ c2 = false ∧ c3 = false ∧ c4 = false ∧ c5 = false ∧ r = .ok ()) := by
  cases c1 <;> cases c2 <;> cases c3 <;> cases c4 <;> cases c5 <;> simp

theorem checkPath_ok_iff (isLetter : Nat → Bool) (kind : Kind) (p : Bytes) :
    checkPath isLetter kind p = .ok () ↔
      Utf8.validString p = true ∧ p.isEmpty = false ∧ (p.head? == some 45 && kind != .file) = false ∧
      hasDoubleSlash p = false ∧ (p.getLast? == some 47) = false ∧
      ∀ e ∈ splitOn 47 p, checkElem isLetter kind e = .ok () := by
  unfold checkPath
  rw [checkPath_chain, checkElems_ok_iff]

theorem checkModPath_chain (c1 c2 c3 c4 c5 : Bool) :
    (if c1 = true then Except.error PathErr.leadingSlash
     else if (!c2) = true then .error .missingDot
     else if c3 = true then .error .leadingDashFirst
     else if (!c4) = true then .error .invalidCharFirst
     else if (!c5) = true then .error .invalidVersion
     else (.ok () : Except PathErr Unit)) = .ok () ↔
    (c1 = false ∧ c2 = true ∧ c3 = false ∧ c4 = true ∧ c5 = true) := by
  cases c1 <;> cases c2 <;> cases c3 <;> cases c4 <;> cases c5 <;> simp

theorem checkModPath_ok_iff (p : Bytes) :
    checkModPath p = .ok () ↔
      checkPath (fun _ => false) .module p = .ok () ∧
      (p.takeWhile (· != 47)).isEmpty = false ∧ (p.takeWhile (· != 47)).contains 46 = true ∧
      (p.head? == some 45) = false ∧ (Utf8.runes (p.takeWhile (· != 47))).all firstPathOK = true ∧
      (splitPathVersion p).2.2 = true := by
  unfold checkModPath
  cases h : checkPath (fun _ => false) .module p with
  | error x => simp
  | ok u =>
    simp only [true_and]
    exact checkModPath_chain _ _ _ _ _

/-! ### monotonicity between kinds -/

theorem modPathOK_lt (r : Nat) (h : modPathOK r = true) : r < 128 := by
  unfold modPathOK at h
  split at h
  · assumption
  · simp at h

theorem importPathOK_lt (r : Nat) (h : importPathOK r = true) : r < 128 := by
  unfold importPathOK at h
  simp only [Bool.or_eq_true] at h
  rcases h with h | h
  · exact modPathOK_lt r h
  · simp at h; omega

theorem importPathOK_of_mod (r : Nat) (h : modPathOK r = true) : importPathOK r = true := by
  simp [importPathOK, h]

theorem fileNameOK_of_import (isLetter : Nat → Bool) (r : Nat) (h : importPathOK r = true) :
    fileNameOK isLetter r = true := by
  have hlt := importPathOK_lt r h
  have key : ∀ n, n < 128 → importPathOK n = true → fileNameOK (fun _ => false) n = true := by decide +kernel
  have := key r hlt h
  unfold fileNameOK at this ⊢
  simpa [hlt] using this

theorem checkElem_mono (il1 il2 : Nat → Bool) (k1 k2 : Kind) (e : Bytes)
    (hchar : ∀ r, charOK il1 k1 r = true → charOK il2 k2 r = true)
    (hmod : k2 = .module → k1 = .module) (hfile : k1 = .file → k2 = .file)
    (h : checkElem il1 k1 e = .ok ()) : checkElem il2 k2 e = .ok () := by
  rw [checkElem_ok_iff] at h ⊢
  obtain ⟨h1, h2, h3, h4, h5, h6, h7⟩ := h
  refine ⟨h1, h2, ?_, h4, ?_, h6, ?_⟩
  · cases hk : (k2 == Kind.module)
    · simp
    · have : k1 = .module := hmod (by simpa using hk)
      subst this
      simpa using h3
  · rw [List.all_eq_true] at h5 ⊢
    intro r hr; exact hchar r (h5 r hr)
  · cases hk : (k1 == Kind.file)
    · rw [hk] at h7; simp at h7; simp [h7]
    · have : k2 = .file := hfile (by simpa using hk)
      subst this; simp

theorem checkPath_mono (il1 il2 : Nat → Bool) (k1 k2 : Kind) (p : Bytes)
    (hchar : ∀ r, charOK il1 k1 r = true → charOK il2 k2 r = true)
    (hmod : k2 = .module → k1 = .module) (hfile : k1 = .file → k2 = .file)
    (h : checkPath il1 k1 p = .ok ()) : checkPath il2 k2 p = .ok () := by
  rw [checkPath_ok_iff] at h ⊢
  obtain ⟨h1, h2, h3, h4, h5, h6⟩ := h
  refine ⟨h1, h2, ?_, h4, h5, fun e he => checkElem_mono il1 il2 k1 k2 e hchar hmod hfile (h6 e he)⟩
  cases hk : (k2 != Kind.file)
  · simp
  · have hk1 : (k1 != Kind.file) = true := by
      cases hk1 : (k1 != Kind.file)
      · have : k1 = .file := by simpa using hk1
        have := hfile this
        subst this; simp at hk
      · rfl
    rw [hk1] at h3
    simpa using h3

/-! ### splitOn -/

theorem splitOn_ne_nil (sep : UInt8) (s : Bytes) : splitOn sep s ≠ [] := by
  induction s with
  | nil => simp [splitOn]
  | cons c rest ih =>
    unfold splitOn
    split
    · simp
    · split <;> simp

theorem splitOn_cons_sep (sep : UInt8) (s : Bytes) : splitOn sep (sep :: s) = [] :: splitOn sep s := by
  simp [splitOn]

theorem splitOn_cons_ne (sep c : UInt8) (s : Bytes) (h : c ≠ sep) :
    ∃ hd tl, splitOn sep s = hd :: tl ∧ splitOn sep (c :: s) = (c :: hd) :: tl := by
  cases hs : splitOn sep s with
  | nil => exact absurd hs (splitOn_ne_nil sep s)
  | cons hd tl =>
    refine ⟨hd, tl, rfl, ?_⟩
    have hc : (c == sep) = false := by simpa using h
    simp [splitOn, hc, hs]

/-- every byte of `s` other than the separator lies in some piece -/
theorem mem_splitOn_of_mem (sep : UInt8) (s : Bytes) (b : UInt8) (hb : b ∈ s) (hne : b ≠ sep) :
    ∃ e ∈ splitOn sep s, b ∈ e := by
  induction s with
  | nil => cases hb
  | cons c rest ih =>
    by_cases hc : c = sep
    · subst hc
      rw [splitOn_cons_sep]
      have : b ∈ rest := by
        rcases List.mem_cons.mp hb with h | h
        · exact absurd h hne
        · exact h
      obtain ⟨e, he, hbe⟩ := ih this
      exact ⟨e, List.mem_cons_of_mem _ he, hbe⟩
    · obtain ⟨hd, tl, h1, h2⟩ := splitOn_cons_ne sep c rest hc
      rw [h2]
      rcases List.mem_cons.mp hb with h | h
      · exact ⟨c :: hd, by simp, by simp [h]⟩
      · obtain ⟨e, he, hbe⟩ := ih h
        rw [h1] at he
        rcases List.mem_cons.mp he with h' | h'
        · subst h'; exact ⟨c :: e, by simp, by simp [hbe]⟩
        · exact ⟨e, by simp [h'], hbe⟩

/-! ### a valid module path is ASCII without '!' -/

theorem checkElem_module_bytes (il : Nat → Bool) (e : Bytes) (h : checkElem il .module e = .ok ()) :
    ∀ b ∈ e, modPathOK b.toNat = true := by
  have h5 := ((checkElem_ok_iff il .module e).mp h).2.2.2.2.1
  have : (Utf8.runes e).all modPathOK = true := h5
  rw [Utf8.runes_all_of_ascii_pred modPathOK modPathOK_lt] at this
  intro b hb
  exact List.all_eq_true.mp this b hb

theorem checkModPath_bytes (p : Bytes) (h : checkModPath p = .ok ()) :
    ∀ b ∈ p, b = 47 ∨ modPathOK b.toNat = true := by
  have h1 := ((checkModPath_ok_iff p).mp h).1
  have h6 := ((checkPath_ok_iff _ .module p).mp h1).2.2.2.2.2
  intro b hb
  by_cases hb47 : b = 47
  · exact Or.inl hb47
  · obtain ⟨e, he, hbe⟩ := mem_splitOn_of_mem 47 p b hb hb47
    exact Or.inr (checkElem_module_bytes _ e (h6 e he) b hbe)

theorem modPathOK_not_bang (r : Nat) (h : modPathOK r = true) : r ≠ 33 := by
  intro h33; subst h33; simp [modPathOK] at h

end ModVerif.Module
