/-
  Tie proof, zip/zip.go `Unzip` (Generated/FnZip.lean: `Unzip`, loop `Unzip_loop1`) against the hand model `Zip.unzip` /
  `Zip.unzipLoop` / `Zip.unzipEntry` (Model/Zip.lean).  The world is `GoRt.FsW` (Basic/GoRtZipIO.lean); its effect list,
  mapped by the driver's `toEffect`, is the model's effect list.
-/
import ModVerif.Proofs.TieFnZipIOUnzipCz
import ModVerif.Proofs.ZipBConfined
namespace ModVerif.TieFnZipIOUnzip
open ModVerif ModVerif.GoRt ModVerif.GoRtZip ModVerif.TieFnZip ModVerif.TieFnZipCf
open ModVerif.Generated.Zip (pathInfo FileError CheckedFiles)
open ModVerif.Drv.GenZipIO (toZEntry toEffect targetCode)

/-! ### the file-system vocabulary of GoRt is the model's -/

theorem fsDirPrefixesAux_eq : ∀ (p racc : Bytes), fsDirPrefixesAux racc p = Zip.dirPrefixesAux racc p
  | [], _ => rfl
  | c :: rest, racc => by
    unfold fsDirPrefixesAux Zip.dirPrefixesAux
    rw [fsDirPrefixesAux_eq rest]

theorem fsAncestorsAndSelf_eq (p : Bytes) : fsAncestorsAndSelf p = Zip.ancestorsAndSelf p := by
  unfold fsAncestorsAndSelf Zip.ancestorsAndSelf Zip.dirPrefixes
  rw [fsDirPrefixesAux_eq]

theorem createdFiles_map : ∀ fx : List FsEffect, Zip.createdFiles (fx.map toEffect) = fsCreatedFiles fx
  | [] => rfl
  | .mkdirAll p :: fx => by
    simp only [List.map_cons, toEffect, Zip.createdFiles, fsCreatedFiles]; exact createdFiles_map fx
  | .createExcl p c :: fx => by
    simp only [List.map_cons, toEffect, Zip.createdFiles, fsCreatedFiles]; rw [createdFiles_map fx]

theorem createdDirs_map : ∀ fx : List FsEffect, Zip.createdDirs (fx.map toEffect) = fsCreatedDirs fx
  | [] => rfl
  | .mkdirAll p :: fx => by
    simp only [List.map_cons, toEffect, Zip.createdDirs, fsCreatedDirs]
    rw [createdDirs_map fx, fsAncestorsAndSelf_eq]
  | .createExcl p c :: fx => by
    simp only [List.map_cons, toEffect, Zip.createdDirs, fsCreatedDirs]; exact createdDirs_map fx

theorem fpJoin_eq (d n : Bytes) : GoRt.fpJoin d n = Zip.fpJoin d n := rfl

/-! ### errors -/

/-- the error text inside the `zipError` wrapper; `me` = the error of `module.Check` / the canonical-version test,
    `zs` = size of the archive (selects the text of the size error) -/
def uerrInner (me : Option String) (zs : Nat) : Zip.UnzipErr → Option String
  | .notEmpty => some "target directory %v exists and is not empty"
  | .badModule => me
  | .size => some (sizeTextOf zs)
  | .invalid => some "FileErrorList"
  | .mkdir => some "mkdir: not a directory"
  | .exists => some "file exists"
  | .contentSize => some "zip: format error"

/-- the error `Unzip` returns for the model's error kind -/
def uerrText (me : Option String) (zs : Nat) (e : Zip.UnzipErr) : Option String := wrapErr "zipError" (uerrInner me zs e)

/-- what the tie observes of the result of the loop: the error and the effects -/
def ctlOut : Ctl (Option String × FsW) (Int × FsW) → Option String × List Zip.Effect
  | .ret (e, w) => (e, w.fx.map toEffect)
  | .next (_, w) => (none, w.fx.map toEffect)


/-- `io.Copy` from the limited reader over a stream of exactly the declared length reads all of it and leaves `N = 1` -/
theorem limRead_honest (c : Bytes) (n : Nat) (h : c.length = n) (h0 : 0 ≤ Zip.int64OfU64 n) (hn : n < 2 ^ 64) :
    limRead { R := c, N := toI64 (n : Int) + 1 } = (c, { R := [], N := 1 }) := by
  rw [toI64_declSize n hn]
  have h63 : n < 2 ^ 63 := by
    unfold Zip.int64OfU64 at h0
    by_cases hc : n < 2 ^ 63
    · exact hc
    · rw [if_neg hc] at h0
      have : (2 : Int) ^ 64 = 18446744073709551616 := by decide
      have : (2 : Nat) ^ 64 = 18446744073709551616 := by decide
      omega
  have hv : Zip.int64OfU64 n = n := by unfold Zip.int64OfU64; rw [if_pos h63]
  rw [hv]
  unfold limRead
  have hpos : ¬ ((n : Int) + 1 ≤ 0) := by omega
  simp only [hpos, if_false]
  have ht : ((n : Int) + 1).toNat = n + 1 := by omega
  rw [ht, List.take_of_length_le (by omega), List.drop_eq_nil_of_le (by omega)]
  congr 2
  omega

section
variable (cv : Bytes → Bytes) (cfp : Bytes → Option String) (ef : Bytes → Bytes → Bool)
  (mc : Bytes → Bytes → Option String) (sf : Int → Int)

set_option maxRecDepth 4000 in
theorem loopU_step (me : Option String) (zs : Nat) (d : Bytes) (z : ZReader) (pfx : Bytes) (done : List Zip.Entry)
    (e : Zip.Entry) (rest : List Zip.Entry) (fuel : Nat) (w : FsW) (hw : w.target ≠ 3)
    (hp : isPrefixOfB pfx e.name = true)
    (hnn : Zip.skipEntry pfx e = false → 0 ≤ Zip.int64OfU64 e.declSize ∧ e.declSize < 2 ^ 64) :
    ∃ w' : FsW, w'.target = w.target ∧
      w'.fx.map toEffect =
        (if Zip.skipEntry pfx e then w.fx.map toEffect else (Zip.unzipEntry d pfx (w.fx.map toEffect) e).1) ∧
      Generated.Zip.Unzip_loop1 cv cfp ef mc sf ((done ++ e :: rest).map toZEntry) d z pfx (fuel + 1)
          (done.length : Int) w =
        (match (if Zip.skipEntry pfx e then none else (Zip.unzipEntry d pfx (w.fx.map toEffect) e).2) with
         | some er => .ok (Ctl.ret (uerrText me zs er, w'))
         | none => Generated.Zip.Unzip_loop1 cv cfp ef mc sf ((done ++ e :: rest).map toZEntry) d z pfx fuel
            ((done.length + 1 : Nat) : Int) w') := by
  obtain ⟨R, hR⟩ : ∃ R, Generated.Zip.Unzip_loop1 cv cfp ef mc sf ((done ++ e :: rest).map toZEntry) d z pfx (fuel + 1)
      (done.length : Int) w = R := ⟨_, rfl⟩
  rw [hR]
  rw [Generated.Zip.Unzip_loop1] at hR
  have hi : ((done.length + 1 : Nat) : Int) = (done.length : Int) + 1 := by omega
  have hN : (toZEntry e).Name = e.name := rfl
  have hlen := isPrefixOfB_length _ _ hp
  have hsl : sliceFrom e.name (len pfx) = .ok (e.name.drop pfx.length) := sliceFrom_natCast hlen
  have hskip : (decide (e.name.drop pfx.length = []) || hasSuffix (e.name.drop pfx.length) [47]) =
      Zip.skipEntry pfx e := by
    unfold Zip.skipEntry
    rw [hasSuffix_slash, Bool.beq_eq_decide_eq]
  rw [hi]
  cases hsk : Zip.skipEntry pfx e with
  | true =>
    refine ⟨w, rfl, by simp, ?_⟩
    rw [hsk] at hskip
    simp only [lt_len_map_toZEntry, if_true, idxL_map_toZEntry, bind_ok, hN, hsl, hskip] at hR
    simp only [if_true]
    exact hR.symm
  | false =>
    rw [hsk] at hskip
    obtain ⟨hnn0, hnn64⟩ := hnn hsk
    simp only [Bool.false_eq_true, if_false]
    unfold Zip.unzipEntry
    have hdst : GoRt.fpJoin d (e.name.drop pfx.length) = Zip.dstOf d pfx e := rfl
    generalize Zip.dstOf d pfx e = dst at hdst ⊢
    have hpd : ∀ x, GoRt.pathDir x = PathClean.pathDir x := fun _ => rfl
    -- os.MkdirAll(filepath.Dir(dst))
    have hmk : osMkdirAll (PathClean.pathDir dst) 511 w =
        if (Zip.ancestorsAndSelf (PathClean.pathDir dst)).any (fun x => (Zip.createdFiles (w.fx.map toEffect)).contains x)
        then (some "mkdir: not a directory", w)
        else (none, { w with fx := w.fx ++ [.mkdirAll (PathClean.pathDir dst)] }) := by
      unfold osMkdirAll
      have : (w.target == 3) = false := by simpa using hw
      rw [this, fsAncestorsAndSelf_eq, createdFiles_map]
      simp only [Bool.false_and, Bool.false_or]
    by_cases hc1 : (Zip.ancestorsAndSelf (PathClean.pathDir dst)).any
        (fun x => (Zip.createdFiles (w.fx.map toEffect)).contains x) = true
    · rw [if_pos hc1] at hmk
      refine ⟨w, rfl, by rw [if_pos hc1], ?_⟩
      rw [if_pos hc1]
      simp only [lt_len_map_toZEntry, if_true, idxL_map_toZEntry, bind_ok, hN, hsl, hskip, Bool.false_eq_true, if_false,
        hdst, hpd, hmk, Option.isNone_some, Bool.not_false] at hR
      exact hR.symm
    rw [if_neg hc1] at hmk
    rw [if_neg hc1]
    obtain ⟨w1, hw1⟩ : ∃ w1 : FsW, w1 = { w with fx := w.fx ++ [.mkdirAll (PathClean.pathDir dst)] } := ⟨_, rfl⟩
    rw [← hw1] at hmk
    have hfx1 : w1.fx.map toEffect = w.fx.map toEffect ++ [.mkdirAll (PathClean.pathDir dst)] := by
      rw [hw1]; simp [toEffect]
    have ht1 : w1.target = w.target := by rw [hw1]
    rw [← hfx1]
    -- os.OpenFile(dst, O_EXCL)
    have hop : osOpenFile dst 193 292 w1 =
        if (Zip.createdFiles (w1.fx.map toEffect)).contains dst || (Zip.createdDirs (w1.fx.map toEffect)).contains dst
        then (([], some "file exists"), w1) else ((dst, none), w1) := by
      unfold osOpenFile
      rw [createdFiles_map, createdDirs_map]
    by_cases hc2 : ((Zip.createdFiles (w1.fx.map toEffect)).contains dst ||
        (Zip.createdDirs (w1.fx.map toEffect)).contains dst) = true
    · rw [if_pos hc2] at hop
      refine ⟨w1, ht1, by rw [if_pos hc2], ?_⟩
      rw [if_pos hc2]
      simp only [lt_len_map_toZEntry, if_true, idxL_map_toZEntry, bind_ok, hN, hsl, hskip, Bool.false_eq_true, if_false,
        hdst, hpd, hmk, hop, Option.isNone_some, Option.isNone_none, Bool.not_false, Bool.not_true] at hR
      exact hR.symm
    rw [if_neg hc2] at hop
    rw [if_neg hc2]
    have hU : (toZEntry e).UncompressedSize64 = (e.declSize : Int) := rfl
    by_cases hc3 : (e.content.length != e.declSize) = true
    · -- the stream ends with an error: the copy fails
      have hne : (e.content.length : Int) ≠ (e.declSize : Int) := by
        have : e.content.length ≠ e.declSize := by simpa using hc3
        omega
      obtain ⟨w2, hw2⟩ : ∃ w2 : FsW, w2 = { w1 with readErr := some "zip: format error" } := ⟨_, rfl⟩
      have hzf : zfOpen (toZEntry e) w1 = ((e.content, none), w2) := by
        unfold zfOpen
        rw [hw2]
        simp only [toZEntry, hne, ne_eq, not_false_eq_true, if_true]
      have hcp : ∀ data, osCopy dst data w2 =
          (((0 : Int), some "zip: format error"), { w2 with fx := w2.fx ++ [.createExcl dst none] }) := by
        intro data
        unfold osCopy
        rw [hw2]
      refine ⟨{ w2 with fx := w2.fx ++ [.createExcl dst none] }, by rw [hw2]; exact ht1, ?_, ?_⟩
      · rw [if_pos hc3, hw2]
        simp only [List.map_append, hfx1, List.map_cons, List.map_nil, toEffect, List.append_assoc, List.cons_append,
          List.nil_append]
      · rw [if_pos hc3]
        simp only [lt_len_map_toZEntry, if_true, idxL_map_toZEntry, bind_ok, hN, hsl, hskip, Bool.false_eq_true,
          if_false, hdst, hpd, hmk, hop, hzf, hcp, Option.isNone_some, Option.isNone_none, Bool.not_false,
          Bool.not_true] at hR
        exact hR.symm
    · -- the stream has exactly the declared length
      have heq : e.content.length = e.declSize := by simpa using hc3
      have hzf : zfOpen (toZEntry e) w1 = ((e.content, none), { w1 with readErr := none }) := by
        unfold zfOpen
        simp only [toZEntry, heq, ne_eq, not_true_eq_false, if_false]
      obtain ⟨w2, hw2⟩ : ∃ w2 : FsW, w2 = { w1 with readErr := none } := ⟨_, rfl⟩
      rw [← hw2] at hzf
      have hlr := limRead_honest e.content e.declSize heq hnn0 hnn64
      have hcp : osCopy dst e.content w2 =
          (((e.content.length : Int), none), { w2 with fx := w2.fx ++ [.createExcl dst (some e.content)] }) := by
        unfold osCopy
        rw [hw2]
      obtain ⟨w3, hw3⟩ : ∃ w3 : FsW, w3 = { w2 with fx := w2.fx ++ [.createExcl dst (some e.content)] } := ⟨_, rfl⟩
      rw [← hw3] at hcp
      have hcl : osClose dst w3 = (none, w3) := rfl
      refine ⟨w3, by rw [hw3, hw2]; exact ht1, ?_, ?_⟩
      · rw [if_neg hc3, hw3, hw2]
        simp only [List.map_append, hfx1, List.map_cons, List.map_nil, toEffect, List.append_assoc, List.cons_append,
          List.nil_append]
      · rw [if_neg hc3]
        simp only [lt_len_map_toZEntry, if_true, idxL_map_toZEntry, bind_ok, hN, hU, hsl, hskip, Bool.false_eq_true,
          if_false, hdst, hpd, hmk, hop, hzf, hlr, hcp, hcl, Option.isNone_some, Option.isNone_none, Bool.not_false,
          Bool.not_true] at hR
        simp only [show ¬ ((1 : Int) ≤ 0) by omega, decide_false, Bool.false_eq_true, if_false] at hR
        exact hR.symm

end

section
variable (cv : Bytes → Bytes) (cfp : Bytes → Option String) (ef : Bytes → Bytes → Bool)
  (mc : Bytes → Bytes → Option String) (sf : Int → Int)

/-- the extraction loop from position `done.length` on is the model's `unzipLoop` -/
theorem loopU_from (me : Option String) (zs : Nat) (d : Bytes) (z : ZReader) (pfx : Bytes) :
    ∀ (rest done : List Zip.Entry) (fuel : Nat) (w : FsW), w.target ≠ 3 →
    (∀ e ∈ rest, isPrefixOfB pfx e.name = true ∧
      (Zip.skipEntry pfx e = false → 0 ≤ Zip.int64OfU64 e.declSize ∧ e.declSize < 2 ^ 64)) →
    rest.length + 1 ≤ fuel →
    (Generated.Zip.Unzip_loop1 cv cfp ef mc sf ((done ++ rest).map toZEntry) d z pfx fuel (done.length : Int) w).map
        ctlOut =
      .ok ((Zip.unzipLoop d pfx (w.fx.map toEffect) rest).2.bind (uerrText me zs),
        (Zip.unzipLoop d pfx (w.fx.map toEffect) rest).1) := by
  intro rest
  induction rest with
  | nil =>
    intro done fuel w _ _ hf
    obtain ⟨fuel, rfl⟩ : ∃ k, fuel = k + 1 := ⟨fuel - 1, by omega⟩
    rw [Generated.Zip.Unzip_loop1]
    simp only [List.append_nil, not_lt_len_map_toZEntry, Bool.false_eq_true, if_false]
    rfl
  | cons e rest ih =>
    intro done fuel w hw hB hf
    obtain ⟨fuel, rfl⟩ : ∃ k, fuel = k + 1 := ⟨fuel - 1, by omega⟩
    have hfB := hB e List.mem_cons_self
    simp only [List.length_cons] at hf
    obtain ⟨w', ht, hfx, heq⟩ := loopU_step cv cfp ef mc sf me zs d z pfx done e rest fuel w hw hfB.1 hfB.2
    rw [heq]
    have e' : done ++ e :: rest = (done ++ [e]) ++ rest := by simp
    have hl : ((done.length + 1 : Nat) : Int) = ((done ++ [e]).length : Int) := by simp
    have hih := ih (done ++ [e]) fuel w' (by rw [ht]; exact hw) (fun g hg => hB g (List.mem_cons_of_mem _ hg)) (by omega)
    rw [← e', ← hl] at hih
    unfold Zip.unzipLoop
    cases hsk : Zip.skipEntry pfx e with
    | true =>
      rw [hsk] at hfx
      simp only [if_true] at hfx ⊢
      rw [hih, hfx]
    | false =>
      rw [hsk] at hfx
      simp only [Bool.false_eq_true, if_false] at hfx ⊢
      cases hu : Zip.unzipEntry d pfx (w.fx.map toEffect) e with
      | mk fx' o =>
        rw [hu] at hfx
        cases o with
        | some er =>
          simp only [Except.map, ctlOut, hfx, Option.bind_some]
        | none =>
          simp only
          rw [hih, hfx]

/-- the final `match` of `Unzip` on the result of the loop -/
theorem ctl_finish (x : M (Ctl (Option String × FsW) (Int × FsW))) :
    ((x >>= fun r15 => match r15 with
        | Ctl.ret rv16 => (pure rv16 : M (Option String × FsW))
        | Ctl.next (_, world) => pure (none, world))).map (fun r => (r.1, r.2.fx.map toEffect)) = x.map ctlOut := by
  cases x with
  | error e => rfl
  | ok r =>
    cases r with
    | ret rv => obtain ⟨a, b⟩ := rv; rfl
    | next rv => obtain ⟨a, b⟩ := rv; rfl

end

/-- the world before the call, as the driver builds it -/
def world0 (d : Bytes) (t : Zip.Target) (zs : Nat) (es : List Zip.Entry) : FsW :=
  { dir := d, target := targetCode t, archive := osFileOf zs es, openErr := none, fx := [], readErr := none }

section
variable (cv : Bytes → Bytes) (ef : Bytes → Bytes → Bool) (mc : Bytes → Bytes → Option String) (sf : Int → Int)

set_option maxRecDepth 4000 in
theorem Unzip_eq (E : Zip.Env) (K : Nat) (hsf : FoldsTo sf K) (hE : E.toFold = Zip.strToFold)
    (hef : ∀ s, ef s Zip.goModName = Zip.equalFoldGoMod s)
    (hrel : ∀ p, E.cfp p = true → PathClean.isAbs p = false) (d p v zipFile : Bytes)
    (hmod : modErr cv mc p v = none ↔ E.modOK p v = true)
    (zs : Nat) (es : List Zip.Entry) (hsz : ∀ e ∈ es, e.declSize < 2 ^ 64) (t : Zip.Target) (fuel : Nat)
    (hfuel : fuelBoundZ K es ≤ fuel) :
    (Generated.Zip.Unzip cv (cfpOf E) ef mc sf fuel d ⟨p, v⟩ zipFile (world0 d t zs es)).map
        (fun r => (r.1, r.2.fx.map toEffect)) =
      .ok ((Zip.unzip E d t p v zs es).err.bind (uerrText (modErr cv mc p v) zs), (Zip.unzip E d t p v zs es).effects) := by
  unfold Generated.Zip.Unzip Zip.unzip
  by_cases ht : t = .nonEmptyDir
  · subst ht
    simp [world0, targetCode, osReadDir, len_eq, Except.map, uerrText, uerrInner]
  have hrd : osReadDir d (world0 d t zs es) = (([], if targetCode t = 1 then none else some "readdir"), world0 d t zs es) := by
    unfold osReadDir world0
    cases t <;> first | exact absurd rfl ht | simp [targetCode]
  have hopn : osOpen zipFile (world0 d t zs es) = ((osFileOf zs es, none), world0 d t zs es) := rfl
  have htb : (t == Zip.Target.nonEmptyDir) = false := by simpa using ht
  have hcz := checkZip_eq cv ef mc sf E K hsf hE hef hrel p v hmod zs es hsz fuel hfuel
  simp only [hrd, hopn, len_nil, show ¬ ((0 : Int) > 0) by omega, decide_false, Bool.false_eq_true, if_false,
    Option.isNone_none, Bool.not_true, hcz, htb]
  cases hc : Zip.checkZip E p v zs es with
  | error a =>
    have hne : modErr cv mc p v ≠ none := by
      intro h
      have hm := hmod.mp h
      unfold Zip.checkZip at hc
      simp [hm] at hc
      split at hc <;> cases hc
    cases hme : modErr cv mc p v with
    | none => exact absurd hme hne
    | some txt =>
      simp only [bind_ok, Option.isNone_some, Bool.not_false, if_true, Except.map, uerrText, uerrInner,
        Option.bind_some, pure_eq_ok, world0, List.map_nil]
  | ok cf =>
    simp only [bind_ok]
    cases hce : cf.err with
    | some k =>
      cases k <;>
        simp only [Option.map_some, Option.isNone_some, Bool.not_false, if_true, Except.map, uerrText, uerrInner,
          Option.bind_some, pure_eq_ok, world0, List.map_nil, errKindText]
    | none =>
      have hzs : ¬ zs > Zip.MaxZipFile := by
        intro hz
        unfold Zip.checkZip at hc
        rw [if_pos hz] at hc
        split at hc
        · cases hc
        · injection hc with hc
          subst hc
          exact absurd hce (by decide)
      have hrdr : readerOf zs es = { File := es.map toZEntry } := by unfold readerOf; rw [if_neg hzs]
      simp only [Option.map_none, Option.isNone_none, Bool.not_true, Bool.false_eq_true, if_false,
        checkedFiles_Err_emb, hce, hrdr]
      have hmk : osMkdirAll d 511 (world0 d t zs es) =
          if t = .notDir then (some "mkdir: not a directory", world0 d t zs es)
          else (none, { world0 d t zs es with fx := [.mkdirAll d] }) := by
        unfold osMkdirAll world0
        cases t <;> simp [targetCode, fsCreatedFiles]
      by_cases htn : t = .notDir
      · subst htn
        rw [if_pos rfl] at hmk
        simp only [hmk, Option.isNone_some, Bool.not_false, if_true, Except.map, uerrText, uerrInner, pure_eq_ok,
          beq_self_eq_true, Option.bind_some]
        rfl
      · rw [if_neg htn] at hmk
        have htnb : (t == Zip.Target.notDir) = false := by simpa using htn
        simp only [hmk, Option.isNone_none, Bool.not_true, Bool.false_eq_true, if_false, htnb]
        obtain ⟨_, _, hok, _⟩ := ModVerif.Proofs.ZipB.checkZip_ok_spec E p v zs es cf hc hce
        have hw3 : ({ world0 d t zs es with fx := [.mkdirAll d] } : FsW).target ≠ 3 := by
          unfold world0
          cases t <;> first | exact absurd rfl htn | simp [targetCode]
        have hloop := loopU_from cv (cfpOf E) ef mc sf (modErr cv mc p v) zs d { File := es.map toZEntry }
          (p ++ [64] ++ v ++ [47]) es [] fuel { world0 d t zs es with fx := [.mkdirAll d] } hw3
          (fun e he => ⟨(hok e he).hasPrefix, fun hs => ⟨(hok e he).nonneg hs, hsz e he⟩⟩)
          (by unfold fuelBoundZ at hfuel; omega)
        simp only [List.nil_append, List.length_nil] at hloop
        exact (ctl_finish _).trans hloop

end

end ModVerif.TieFnZipIOUnzip
