/-
  C02, end-of-line comments on the SOURCE text, part c: the parser pass of `ModfileEolOwn2` carried through
  `parseStmtLoop`, `parseStmt`, `parseFileLoop` and `parseFile`.

  Result `parseFile_own`: if every line of the statement list `parseFile` delivers starts and ends on the same
  source line (`OneLineStmt`), then the backwards post-order walk of `assignComments` over that list with the
  recorded comments uses up every comment and gives every line / `(` / `)` at most one, a comment block none
  (`CountStmt`).  `parse_eolCount_of_oneLine` is the same statement for `parse`: `EolCount t`.
-/
import ModVerif.Proofs.ModfileEolOwn2
namespace ModVerif.Proofs.ModfileSrc
open ModVerif ModVerif.Modfile ModVerif.Proofs.ModfileLex
open ModVerif.Proofs.ModfileFmtLex ModVerif.Proofs.ModfileFmtTree ModVerif.Proofs.ModfileFmtMain
open ModVerif.Proofs.ModfilePos ModVerif.Proofs.ModfileC20 ModVerif.Proofs.ModfileFmtEmits
open ModVerif.Proofs.ModfileFmtParse ModVerif.Proofs.ModfileEol

/-! ### conditional ownership -/

/-- `StmtOwn`, provided the lines of the statement are one-line lines -/
def StmtOwnH (s : Expr) (Cs : List Comment) (lo hi : Nat) : Prop := OneLineStmt s → StmtOwn s Cs lo hi

/-- `StmtsOwn`, provided all lines are one-line lines -/
def StmtsOwnH (stmtsRev : List Expr) (C : List Comment) (hi : Nat) : Prop :=
  (∀ s ∈ stmtsRev, OneLineStmt s) → StmtsOwn stmtsRev C hi

theorem stmtsOwnH_nil (hi : Nat) : StmtsOwnH [] [] hi := fun _ => stmtsOwn_nil hi

theorem StmtsOwnH.mono {sr : List Expr} {C : List Comment} {hi hi' : Nat} (h : StmtsOwnH sr C hi) (hh : hi ≤ hi') :
    StmtsOwnH sr C hi' := fun hone => (h hone).mono hh

theorem stmtsOwnH_cons {sr : List Expr} {C : List Comment} {mid lo hi : Nat} (h : StmtsOwnH sr C mid)
    (s : Expr) (Cs : List Comment) (hs : StmtOwnH s Cs lo hi) (hmid : mid ≤ lo) : StmtsOwnH (s :: sr) (C ++ Cs) hi := by
  intro hone
  exact stmtsOwn_cons (h (fun s' hs' => hone s' (by simp [hs']))) s Cs (hs (hone s (by simp))) hmid

theorem oneLineStmt_setBefore (s : Expr) (X : List Comment) :
    OneLineStmt (s.setComments { s.comments with before := X }) ↔ OneLineStmt s := by
  cases s <;> exact Iff.rfl

theorem StmtOwnH.setBefore {s : Expr} {Cs : List Comment} {lo hi : Nat} (h : StmtOwnH s Cs lo hi) (X : List Comment) :
    StmtOwnH (s.setComments { s.comments with before := X }) Cs lo hi :=
  fun hone => (h ((oneLineStmt_setBefore s X).1 hone)).setBefore X

/-! ### the body of a block, entered at the token after `(` -/

/-- `parseLineBlockLoop` entered right after `(`: the pending token is an end-of-line token; if it is an
    end-of-line comment it lies in the slot of `(`. -/
theorem parseLineBlock_own {data : Bytes} (fuel : Nat) (i : Input) (x : LineBlock) (b : LineBlock) (i' : Input)
    (D : List Comment) (lpe : Nat) (hr : Reach data i) (hg : G i) (hD : Done i D) (hlpe : lpe ≤ i.token.pos.byte)
    (h : parseLineBlockLoop fuel i x [] [] = .ok (b, i')) :
    Reach data i' ∧ G i' ∧ i'.token.kind ≠ .eolComment ∧ b.start = x.start ∧ b.comments = x.comments ∧
      b.lparen = x.lparen ∧ b.rparen.comments.suffix = [] ∧
      ∃ Clp Cl Crp m1 m2, Done i' (D ++ (Clp ++ (Cl ++ Crp))) ∧ Slot lpe Clp m1 ∧ lpe ≤ m1 ∧
        LinesOwnH b.lines.reverse Cl m1 m2 ∧ m2 ≤ b.rparen.pos.byte + 1 ∧
        Slot (b.rparen.pos.byte + 1) Crp i'.token.pos.byte ∧ b.rparen.pos.byte + 1 ≤ i'.token.pos.byte := by
  by_cases hk : i.token.kind = .eolComment
  · -- `verb ( // comment`: the comment is skipped by the loop and belongs to `(`
    cases fuel with
    | zero => simp [parseLineBlockLoop] at h
    | succ n =>
      unfold parseLineBlockLoop at h
      simp only [Input.peek, hk] at h
      cases hl : lex i with
      | error err => simp [hl, bind, Except.bind] at h
      | ok v =>
        obtain ⟨tok, i1⟩ := v
        simp only [hl, bind, Except.bind] at h
        obtain ⟨_, hr1, hg1, hdone, hb1, hb2, hnext⟩ := lex_facts hr hg hl
        have hD1 := hdone D hD
        have hsl : Slot lpe (recOf i.token) i1.token.pos.byte := slot_of_eol hr lpe hlpe hb1
        obtain ⟨a1, a2, a3, a4, a5, a6, a7, Cl', Crp, m2, b1, b2, b3, b4, b5⟩ :=
          parseLineBlockLoop_own n i1 x [] [] b i' (D ++ recOf i.token) [] i1.token.pos.byte i1.token.pos.byte hr1 hg1
            (hnext (Or.inr (Or.inl hk))) (by simpa using hD1)
            (fun _ => linesOwn_nil _ _ (Nat.le_refl _)) (Nat.le_refl _) h
        refine ⟨a1, a2, a3, a4, a5, a6, a7, recOf i.token, Cl', Crp, i1.token.pos.byte, m2, ?_, hsl, by omega, b2, b3, b4, b5⟩
        rw [List.append_assoc] at b1
        exact b1
  · obtain ⟨a1, a2, a3, a4, a5, a6, a7, Cl', Crp, m2, b1, b2, b3, b4, b5⟩ :=
      parseLineBlockLoop_own fuel i x [] [] b i' D [] i.token.pos.byte i.token.pos.byte hr hg hk (by simpa using hD)
        (fun _ => linesOwn_nil _ _ (Nat.le_refl _)) (Nat.le_refl _) h
    exact ⟨a1, a2, a3, a4, a5, a6, a7, [], Cl', Crp, i.token.pos.byte, m2, by simpa using b1, slot_nil _ _, hlpe, b2, b3, b4, b5⟩

/-! ### statements -/

theorem recOf_punct {tok : Token} {c : UInt8} (h : tok.kind = .punct c) : recOf tok = [] :=
  recOf_of_not_eolc (by rw [h]; simp)

theorem parseStmtLoop_own {data : Bytes} : ∀ (fuel : Nat) (i : Input) (s e : Position) (acc : List Bytes) (x : Expr)
    (i' : Input) (D : List Comment), Reach data i → G i → Done i D → s.byte ≤ e.byte → e.byte ≤ i.token.pos.byte →
    parseStmtLoop fuel i s e acc = .ok (x, i') →
    Reach data i' ∧ G i' ∧ i'.token.kind ≠ .eolComment ∧
      ∃ Cs, Done i' (D ++ Cs) ∧ StmtOwnH x Cs s.byte i'.token.pos.byte := by
  intro fuel
  induction fuel with
  | zero => intro i s e acc x i' D _ _ _ _ _ h; simp [parseStmtLoop] at h
  | succ n ih =>
    intro i s e acc x i' D hr hg hD h1 h2 h
    unfold parseStmtLoop at h
    cases hl : lex i with
    | error err => simp [hl, bind, Except.bind] at h
    | ok v =>
      obtain ⟨tok, i1⟩ := v
      simp only [hl, bind, Except.bind] at h
      obtain ⟨htok, hr1, hg1, hdone, hb1, hb2, hnext⟩ := lex_facts hr hg hl
      subst htok
      by_cases he : i.token.kind.isEOL = true
      · -- a top-level line
        simp only [he, if_true, Except.ok.injEq, Prod.mk.injEq] at h
        obtain ⟨rfl, rfl⟩ := h
        refine ⟨Reach.setId _ hr1, hg1.setId _, hnext (isEOL_eolKind he), recOf i.token, (hdone D hD).setId _, ?_⟩
        · intro hone
          exact stmtOwn_line _ (recOf i.token) s.byte i1.token.pos.byte rfl h1 (slot_of_eol hr e.byte h2 hb1)
            (fun _ => hone) (by omega)
      · have he' : i.token.kind.isEOL = false := by simpa using he
        simp only [he', Bool.false_eq_true, if_false] at h
        have hD1 := hdone D hD
        rw [recOf_not_eol he', List.append_nil] at hD1
        by_cases hlp : (i.token.kind == TokKind.punct 40) = true
        · simp only [hlp, if_true] at h
          have hk : i.token.kind = .punct 40 := by simpa using hlp
          have hend := punct_end hr 40 hk
          split at h
          · -- start of a block
            cases hb : parseLineBlock (n + 1) i1 s acc.reverse i.token with
            | error err => simp [hb] at h
            | ok w =>
              obtain ⟨b, i2⟩ := w
              simp only [hb, Except.ok.injEq, Prod.mk.injEq] at h
              obtain ⟨rfl, rfl⟩ := h
              unfold parseLineBlock at hb
              obtain ⟨a1, a2, a3, a4, a5, a6, a7, Clp, Cl, Crp, m1, m2, b1, b2, b3, b4, b5, b6, b7⟩ :=
                parseLineBlock_own (n + 1) i1 _ b i2 D (i.token.pos.byte + 1) hr1 hg1 hD1 (by omega) hb
              have hlpp : b.lparen.pos.byte = i.token.pos.byte := by rw [a6]
              refine ⟨a1, a2, a3, Clp ++ (Cl ++ Crp), b1, ?_⟩
              intro hone
              have hone' : ∀ l ∈ b.lines.reverse, OneLine l := fun l hl => hone l (by simpa using hl)
              exact stmtOwn_block b Clp Cl Crp s.byte m1 m2 i2.token.pos.byte (by rw [a5]) (by rw [a6]) a7
                (by rw [hlpp]; omega) (by rw [hlpp]; exact b2) (b4 hone') b5 (by rw [hlpp]; exact b3) b6 b7
          · split at h
            · rename_i hnext41
              have hk1 : i1.token.kind = .punct 41 := by simpa [Input.peek] using hnext41
              cases hl2 : lex i1 with
              | error err => simp [hl2] at h
              | ok w =>
                obtain ⟨rp, i2⟩ := w
                simp only [hl2] at h
                obtain ⟨hrp, hr2, hg2, hdone2, hc1, hc2, _⟩ := lex_facts hr1 hg1 hl2
                subst hrp
                have hD2 := hdone2 D hD1
                rw [recOf_punct hk1, List.append_nil] at hD2
                have hend1 := punct_end hr1 41 hk1
                split at h
                · -- empty block `verb ( )`
                  rename_i heol
                  have heol : i2.token.kind.isEOL = true := by simpa [Input.peek] using heol
                  cases hl3 : lex i2 with
                  | error err => simp [hl3] at h
                  | ok u =>
                    obtain ⟨tok3, i3⟩ := u
                    simp only [hl3, Except.ok.injEq, Prod.mk.injEq] at h
                    obtain ⟨rfl, rfl⟩ := h
                    obtain ⟨_, hr3, hg3, hdone3, hd1, hd2, hnext3⟩ := lex_facts hr2 hg2 hl3
                    have hD3 := hdone3 D hD2
                    refine ⟨hr3, hg3, hnext3 (isEOL_eolKind heol), [] ++ ([] ++ recOf i2.token), by simpa using hD3, ?_⟩
                    intro _
                    refine stmtOwn_block _ [] [] (recOf i2.token) s.byte (i.token.pos.byte + 1) (i.token.pos.byte + 1)
                      i3.token.pos.byte rfl rfl rfl ?_ (slot_nil _ _) ?_ ?_ (Nat.le_refl _) ?_ ?_
                    · show s.byte ≤ i.token.pos.byte + 1
                      omega
                    · exact linesOwn_nil _ _ (Nat.le_refl _)
                    · show i.token.pos.byte + 1 ≤ i1.token.pos.byte + 1
                      omega
                    · exact slot_of_eol hr2 (i1.token.pos.byte + 1) (by omega) hd1
                    · show i1.token.pos.byte + 1 ≤ i3.token.pos.byte
                      omega
                · -- `( )` in the middle of the line
                  exact ih i2 s e _ x i' D hr2 hg2 hD2 h1 (by omega) h
            · -- `(` in the middle of the line
              exact ih i1 s e _ x i' D hr1 hg1 hD1 h1 (by omega) h
        · simp only [hlp, Bool.false_eq_true, if_false] at h
          exact ih i1 s i.token.endPos _ x i' D hr1 hg1 hD1 (by omega) hb1 h

theorem parseStmt_own {data : Bytes} (fuel : Nat) (i : Input) (x : Expr) (i' : Input) (D : List Comment)
    (hr : Reach data i) (hg : G i) (hne : i.token.kind ≠ .eolComment) (hD : Done i D)
    (h : parseStmt fuel i = .ok (x, i')) :
    Reach data i' ∧ G i' ∧ i'.token.kind ≠ .eolComment ∧
      ∃ Cs, Done i' (D ++ Cs) ∧ StmtOwnH x Cs i.token.pos.byte i'.token.pos.byte := by
  unfold parseStmt at h
  cases hl : lex i with
  | error err => simp [hl, bind, Except.bind] at h
  | ok v =>
    obtain ⟨tok, i1⟩ := v
    simp only [hl, bind, Except.bind] at h
    obtain ⟨htok, hr1, hg1, hdone, hb1, hb2, _⟩ := lex_facts hr hg hl
    subst htok
    have hD1 := hdone D hD
    rw [recOf_of_not_eolc hne, List.append_nil] at hD1
    exact parseStmtLoop_own fuel i1 i.token.pos i.token.endPos [i.token.text] x i' D hr1 hg1 hD1 hb2 hb1 h

/-! ### the statement list -/

/-- the pending comment block of `parseFileLoop`: no end-of-line comment, starts between the statements read so
    far and the pending token -/
def CbOK (cb : Option CommentBlock) (mid hi : Nat) : Prop :=
  ∀ c, cb = some c → c.comments.suffix = [] ∧ mid ≤ c.start.byte ∧ c.start.byte ≤ hi

theorem cbOK_none (mid hi : Nat) : CbOK none mid hi := by intro c hc; cases hc

/-- pushing the pending comment block as a statement -/
theorem stmtsOwnH_push_cb {sr : List Expr} {C : List Comment} {mid hi hi' : Nat} (h : StmtsOwnH sr C mid) (c : CommentBlock)
    (hcb : CbOK (some c) mid hi) (hh : hi ≤ hi') : StmtsOwnH (.commentBlock c :: sr) C hi' := by
  obtain ⟨h1, h2, h3⟩ := hcb c rfl
  have := stmtsOwnH_cons h (.commentBlock c) [] (fun _ => stmtOwn_commentBlock c h1 hi' (by omega)) h2
  simpa using this

theorem parseFileLoop_own {data : Bytes} : ∀ (fuel : Nat) (i : Input) (stmtsRev : List Expr) (cb : Option CommentBlock)
    (out : List Expr) (i' : Input) (C : List Comment) (mid : Nat),
    Reach data i → G i → i.token.kind ≠ .eolComment → Done i C → StmtsOwnH stmtsRev C mid → mid ≤ i.token.pos.byte →
    CbOK cb mid i.token.pos.byte →
    parseFileLoop fuel i stmtsRev cb = .ok (out, i') →
    ∃ hi, StmtsOwnH out.reverse i'.commentsRev.reverse hi := by
  intro fuel
  induction fuel with
  | zero => intro i stmtsRev cb out i' C mid _ _ _ _ _ _ _ h; simp [parseFileLoop] at h
  | succ n ih =>
    intro i stmtsRev cb out i' C mid hr hg hne hD hown hmid hcb h
    unfold parseFileLoop at h
    split at h
    · -- blank line
      rename_i hk
      have hk : i.token.kind = .punct 10 := hk
      cases hl : lex i with
      | error err => simp [hl, bind, Except.bind] at h
      | ok v =>
        obtain ⟨tok, i1⟩ := v
        simp only [hl, bind, Except.bind] at h
        obtain ⟨_, hr1, hg1, hdone, hb1, hb2, hnext⟩ := lex_facts hr hg hl
        have hD1 := hdone _ hD
        rw [recOf_punct hk, List.append_nil] at hD1
        have hne1 := hnext (Or.inl hk)
        split at h
        · rename_i c
          exact ih i1 _ none out i' C i1.token.pos.byte hr1 hg1 hne1 hD1
            (stmtsOwnH_push_cb hown c hcb (by omega)) (Nat.le_refl _) (cbOK_none _ _) h
        · exact ih i1 _ none out i' C mid hr1 hg1 hne1 hD1 hown (by omega) (cbOK_none _ _) h
    · -- whole-line comment
      rename_i hk
      have hk : i.token.kind = .comment := hk
      cases hl : lex i with
      | error err => simp [hl, bind, Except.bind] at h
      | ok v =>
        obtain ⟨tok, i1⟩ := v
        simp only [hl, bind, Except.bind] at h
        obtain ⟨htok, hr1, hg1, hdone, hb1, hb2, hnext⟩ := lex_facts hr hg hl
        subst htok
        have hD1 := hdone _ hD
        rw [recOf_of_not_eolc (by rw [hk]; simp), List.append_nil] at hD1
        have hne1 := hnext (Or.inr (Or.inr (Or.inl hk)))
        refine ih i1 _ _ out i' C mid hr1 hg1 hne1 hD1 hown (by omega) ?_ h
        intro c hc
        simp only [Option.some.injEq] at hc
        subst hc
        cases cb with
        | none => exact ⟨rfl, hmid, by show i.token.pos.byte ≤ _; omega⟩
        | some c0 =>
          obtain ⟨h1, h2, h3⟩ := hcb c0 rfl
          exact ⟨h1, h2, by show c0.start.byte ≤ _; omega⟩
    · -- end of input
      rename_i hk
      have hk : i.token.kind = .eof := hk
      have hC : i.commentsRev.reverse = C := by
        have := hD
        unfold Done at this
        rw [recOf_of_not_eolc (by rw [hk]; simp), List.append_nil] at this
        exact this
      split at h
      · rename_i c
        simp only [Except.ok.injEq, Prod.mk.injEq] at h
        obtain ⟨rfl, rfl⟩ := h
        refine ⟨i.token.pos.byte, ?_⟩
        rw [List.reverse_reverse, hC]
        exact stmtsOwnH_push_cb hown c hcb (Nat.le_refl _)
      · simp only [Except.ok.injEq, Prod.mk.injEq] at h
        obtain ⟨rfl, rfl⟩ := h
        refine ⟨mid, ?_⟩
        rw [List.reverse_reverse, hC]
        exact hown
    · -- a statement
      cases hp : parseStmt (n + 1) i with
      | error err => simp [hp, bind, Except.bind] at h
      | ok v =>
        obtain ⟨s, i1⟩ := v
        simp only [hp, bind, Except.bind] at h
        obtain ⟨hr1, hg1, hne1, Cs, hD1, hs⟩ := parseStmt_own (n + 1) i s i1 C hr hg hne hD hp
        split at h
        · rename_i c
          exact ih i1 _ none out i' (C ++ Cs) i1.token.pos.byte hr1 hg1 hne1 hD1
            (stmtsOwnH_cons hown _ Cs (hs.setBefore _) hmid) (Nat.le_refl _) (cbOK_none _ _) h
        · exact ih i1 _ none out i' (C ++ Cs) i1.token.pos.byte hr1 hg1 hne1 hD1
            (stmtsOwnH_cons hown s Cs hs hmid) (Nat.le_refl _) (cbOK_none _ _) h

/-- ★ the walk of `assignComments` over the statement list of `parseFile`, if all its lines are one-line lines:
    every recorded comment is used up, and every node gets at most one (a comment block none) -/
theorem parseFile_own {data : Bytes} {stmts : List Expr} {i : Input} (h : parseFile data = .ok (stmts, i))
    (hone : ∀ s ∈ stmts, OneLineStmt s) :
    ∃ ss', postStmtsRev stmts.reverse i.commentsRev.reverse.reverse = (ss', []) ∧ ∀ s ∈ ss', CountStmt s := by
  unfold parseFile at h
  cases hr : readToken (newInput data) with
  | error err => simp [hr, bind, Except.bind] at h
  | ok i0 =>
    simp only [hr, bind, Except.bind] at h
    obtain ⟨hg0, hne0⟩ := G.init hr
    have hD0 : Done i0 [] := by
      unfold Done
      rw [readToken_comments_rec _ _ hr]
      simp [newInput]
    obtain ⟨hi, hown⟩ := parseFileLoop_own _ i0 [] none stmts i [] 0 (Reach.start hr) hg0 hne0 hD0 (stmtsOwnH_nil 0)
      (Nat.zero_le _) (cbOK_none _ _) h
    exact (hown (fun s hs => hone s (by simpa using hs))).1

/-- ★ `EolCount` for every accepted input whose lines start and end on the same source line -/
theorem parse_eolCount_of_oneLine {name x : Bytes} {t : FileSyntax} (h : parse name x = .ok t)
    (hone : ∀ stmts i, parseFile x = .ok (stmts, i) → ∀ s ∈ stmts, OneLineStmt s) : EolCount t := by
  unfold parse at h
  cases hp : parseFile x with
  | error e => simp [hp, bind, Except.bind] at h
  | ok v =>
    obtain ⟨stmts, i⟩ := v
    simp only [hp, bind, Except.bind, Except.ok.injEq] at h
    obtain ⟨_, hsfx⟩ := ModfileFmtEmits.parseFile_wf' x stmts i hp
    obtain ⟨ss', hpost, hcount⟩ := parseFile_own hp (hone stmts i hp)
    have hfl : (i.commentsRev.reverse.filter (fun c => !c.suffix)) = [] := by
      rw [List.filter_eq_nil_iff]
      intro c hc
      simp [hsfx c (by simpa using hc)]
    have hfs : (i.commentsRev.reverse.filter (fun c => c.suffix)) = i.commentsRev.reverse := by
      rw [List.filter_eq_self]
      intro c hc
      exact hsfx c (by simpa using hc)
    unfold assignComments at h
    simp only [hfl, hfs, assignBefore_nil, preStmts_nil, hpost] at h
    subst h
    exact ⟨by simp, fun s hs => hcount s (by simpa using hs)⟩

end ModVerif.Proofs.ModfileSrc
